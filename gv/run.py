#!/usr/bin/env python3
"""Driver: unit -> (extract) -> goto-cc -> goto-instrument --dfcc -> cbmc -> classify -> evidence.

usage:  run.py <property-id> quick|thorough [--unit U] [--check C] [--keep] [--verbose]
        run.py --replay <path>
        run.py --selftest            (extractor self-test used by MANIFEST.setup_cmd)

exit 0  every obligation explored held (known findings are printed as KNOWN-FINDING lines)
exit 1  at least one "VIOLATION property=<id> replay=<path>" line
exit 2  undecided: timeout, tool crash, extraction break, vacuity guard tripped (reason printed)
"""
import concurrent.futures as cf
import threading
import glob
import json
import os
import re
import resource
import shutil
import subprocess
import sys
import time

HERE = os.path.dirname(os.path.abspath(__file__))
VERIF = os.path.dirname(HERE)
REPO = os.environ.get('GV_REPO', '/repo')
sys.path.insert(0, HERE)
import extract  # noqa: E402

DEFAULT_FLAGS = ['--bounds-check', '--pointer-check', '--signed-overflow-check', '--div-by-zero-check',
                 '--conversion-check']
MEM_LIMIT = int(os.environ.get('GV_MEM_GB', '24')) * (1 << 30)
PYVT = shutil.which('python3-vt') or '/usr/local/bin/python3-vt'


def _limits():
    resource.setrlimit(resource.RLIMIT_AS, (MEM_LIMIT, MEM_LIMIT))
    try:
        resource.setrlimit(resource.RLIMIT_STACK, (resource.RLIM_INFINITY, resource.RLIM_INFINITY))
    except (ValueError, OSError):
        pass
    os.setsid()


def run_cmd(cmd, timeout, cwd=None, log=None):
    t0 = time.time()
    try:
        p = subprocess.Popen(cmd, cwd=cwd, stdout=subprocess.PIPE, stderr=subprocess.STDOUT, text=True,
                             errors='replace', preexec_fn=_limits)
        try:
            out, _ = p.communicate(timeout=timeout)
            rc = p.returncode
        except subprocess.TimeoutExpired:
            try:
                os.killpg(p.pid, 9)
            except OSError:
                pass
            out, _ = p.communicate()
            rc = 'timeout'
    except OSError as e:
        out, rc = str(e), 'oserror'
    dt = time.time() - t0
    if log:
        with open(log, 'a') as f:
            f.write('$ ' + ' '.join(cmd) + '\n' + (out or '') + '\n[rc=%s, %.1fs]\n' % (rc, dt))
    return rc, out or '', dt


def run_portfolio(cmds, timeout, log=None):
    """Start all commands; the first one that ends with a definitive cbmc answer (rc 0 or 10) wins, the rest are killed.
    Returns (rc, out, seconds, index_of_winner)."""
    t0 = time.time()
    procs = []
    for c in cmds:
        f = None
        try:
            import tempfile
            f = tempfile.TemporaryFile(mode='w+', errors='replace')
            p = subprocess.Popen(c, stdout=f, stderr=subprocess.STDOUT, text=True, preexec_fn=_limits)
            procs.append([p, f, c, None])
        except OSError as e:
            procs.append([None, None, c, 'oserror'])
    winner = None
    last = ('timeout', '', 0)
    while True:
        alive = 0
        for k, pr in enumerate(procs):
            p = pr[0]
            if p is None or pr[3] is not None:
                continue
            rc = p.poll()
            if rc is None:
                alive += 1
                continue
            pr[3] = rc
            pr[1].seek(0)
            out = pr[1].read()
            last = (rc, out, k)
            if rc in (0, 10):
                winner = k
                break
        if winner is not None or alive == 0 or time.time() - t0 > timeout:
            break
        time.sleep(0.2)
    for pr in procs:
        p = pr[0]
        if p is not None and p.poll() is None:
            try:
                os.killpg(p.pid, 9)
            except OSError:
                pass
            p.wait()
    dt = time.time() - t0
    if winner is None:
        if time.time() - t0 > timeout and last[0] not in (0, 10):
            rc, out, k = 'timeout', last[1], last[2]
        else:
            rc, out, k = last
    else:
        rc, out, k = last
    if log:
        with open(log, 'a') as f:
            f.write('$ [portfolio winner %s of %d] %s\n%s\n[rc=%s, %.1fs]\n' % (k, len(cmds), ' '.join(cmds[k]) if cmds else '', out or '', rc, dt))
    for pr in procs:
        if pr[1]:
            pr[1].close()
    return rc, out or '', dt, k


# --------------------------------------------------------------------------------------------------

RESULT_LINE = re.compile(r'^\[(?P<id>[^\]]+)\]\s+(?:line (?P<line>\d+)\s+)?(?P<desc>.*):\s+(?P<st>SUCCESS|FAILURE|UNKNOWN|ERROR)\s*$')
FUNC_LINE = re.compile(r'^(?P<file>\S+) function (?P<fn>\S+)\s*$')


def parse_cbmc(out):
    """-> list of dict(id, desc, status, line) ; summary tuple or None"""
    props = []
    for ln in out.splitlines():
        m = RESULT_LINE.match(ln)
        if m:
            props.append({'id': m.group('id'), 'desc': m.group('desc'), 'status': m.group('st'),
                          'line': m.group('line')})
    m = re.search(r'\*\* (\d+) of (\d+) failed', out)
    summ = (int(m.group(1)), int(m.group(2))) if m else None
    verdict = 'SUCCESSFUL' if 'VERIFICATION SUCCESSFUL' in out else ('FAILED' if 'VERIFICATION FAILED' in out else None)
    return props, summ, verdict


class CheckResult:
    def __init__(self, unit, check):
        self.unit = unit
        self.check = check
        self.status = 'undecided'    # ok | violation | undecided
        self.reason = ''
        self.obligations = 0
        self.discharged = 0
        self.failed = []             # obligation dicts (not canaries) that failed and are not known
        self.known_hit = []          # (finding, [obligations])
        self.stale = []
        self.canaries = 0
        self.solver_s = 0.0
        self.wall_s = 0.0
        self.backend = ''
        self.samples = []
        self.cmd = ''
        self.level = check.get('level', 'proof')
        self.bound = check.get('bound', '')
        self.trace = ''
        self.instantiations = 0
        self.loop_steps = 0
        self.excl_obligations = None


def load_known():
    """known_findings.txt ->  list of dict(kind, property, unit, check, obligation(regex), exclude, text)"""
    res = []
    p = os.path.join(VERIF, 'known_findings.txt')
    if not os.path.exists(p):
        return res
    for ln in open(p):
        ln = ln.strip()
        if not ln or ln.startswith('#'):
            continue
        kind, _, rest = ln.partition(':')
        kind = kind.strip()
        rest = rest.strip()
        d = {'kind': kind, 'raw': ln}
        head, _, text = rest.partition('::')
        for tok in head.split():
            if '=' in tok:
                k, v = tok.split('=', 1)
                d[k] = v
        d['text'] = text.strip() or head
        res.append(d)
    return res


def cbmc_backend_flags(check):
    be = check.get('backend', 'sat')
    if be == 'sat':
        return []
    if be == 'cadical':
        return ['--sat-solver', 'cadical']
    if be == 'kissat':
        return ['--external-sat-solver', 'kissat']
    if be == 'z3':
        return ['--z3']
    if be == 'cvc5':
        return ['--cvc5']
    return []


def do_check(unit, check, cfile, sdir, known, verbose=False):
    """Run one check of a unit; returns CheckResult."""
    r = CheckResult(unit, check)
    t0 = time.time()
    name = unit['name'] + '.' + check['name']
    log = os.path.join(sdir, name + '.log')
    timeout = check.get('timeout', 120)
    kind = check.get('kind', 'dfcc')
    r.backend = 'cbmc 6.11.0 / ' + check.get('backend', 'sat (minisat2)')
    my_known = [k for k in known if k['kind'] == 'known' and k.get('unit') == unit['name']
                and k.get('check') == check['name']]

    def one_pass(extra_defs, tag):
        """compile + instrument + solve; returns (props, summ, verdict, out) or a string reason (undecided)"""
        gb = os.path.join(sdir, '%s%s.gb' % (name, tag))
        gb2 = os.path.join(sdir, '%s%s.i.gb' % (name, tag))
        defs = ['-D' + d for d in check.get('defines', [])] + ['-D' + d for d in extra_defs]
        if kind in ('dfcc', 'cbmc'):
            cmd = ['goto-cc', '-I', os.path.join(VERIF, 'include'), '-I', unit['dir'], '--function', check['entry'],
                   cfile, '-o', gb] + defs
            rc, out, _ = run_cmd(cmd, 120, log=log)
            if rc != 0:
                return 'goto-cc failed (lowered text does not compile as C): ' + out.strip().splitlines()[-1][:300] if out.strip() else 'goto-cc failed'
            target = gb
            if kind == 'dfcc' and 'unwind' in check:
                # loops without contracts (constant bounds) must be unwound BEFORE dfcc instrumentation
                gbu = gb + '.u.gb'
                cmd = ['goto-instrument', '--unwind', str(check['unwind']), '--unwinding-assertions', gb, gbu]
                rc, out, _ = run_cmd(cmd, 300, log=log)
                if rc != 0:
                    return 'goto-instrument --unwind failed: ' + out.strip()[-300:]
                gb = gbu
            if kind == 'dfcc':
                cmd = ['goto-instrument', '--dfcc', check['entry']]
                for f in check.get('enforce', []):
                    cmd += ['--enforce-contract', f]
                for f in check.get('replace', []):
                    cmd += ['--replace-call-with-contract', f]
                if check.get('loops', 0) or (check.get('loop_contracts', True) and 'unwind' not in check):
                    cmd += ['--apply-loop-contracts']
                cmd += check.get('instrument_flags', [])
                cmd += [gb, gb2]
                rc, out, _ = run_cmd(cmd, 300, log=log)
                if rc != 0:
                    tail = [l for l in out.strip().splitlines() if l.strip()][-3:]
                    return 'goto-instrument failed: ' + ' | '.join(tail)[:400]
                target = gb2
            cmd = ['cbmc', target] + check.get('cbmc_flags', DEFAULT_FLAGS) + check.get('extra_flags', [])
            if kind == 'cbmc':
                cmd += ['--drop-unused-functions']
            if kind == 'cbmc' and 'unwind' in check:
                cmd += ['--unwind', str(check['unwind']), '--unwinding-assertions']
            cmd += cbmc_backend_flags(check)
        elif kind == 'cpp':
            cmd = ['cbmc', os.path.join(unit['dir'], check['source']), '--cpp11', '--function', check['entry'],
                   '-I', os.path.join(VERIF, 'stubs'), '-I', os.path.join(REPO, 'lib'), '-I', unit['dir'],
                   '-I', os.path.join(VERIF, 'include'), '-I', sdir] + defs
            cmd += ['--drop-unused-functions']
            cmd += check.get('cbmc_flags', ['--bounds-check', '--pointer-check', '--signed-overflow-check',
                                            '--div-by-zero-check'])
            if 'unwind' in check:
                cmd += ['--unwind', str(check['unwind']), '--unwinding-assertions']
            cmd += check.get('extra_flags', [])
        else:
            return 'unknown check kind ' + kind
        r.cmd = ' '.join(cmd)
        if kind in ('dfcc', 'cbmc') and 'backend' not in check and os.environ.get('GV_PORTFOLIO', '1') == '1':
            # solver portfolio: MiniSat (built in) and CaDiCaL race; measured: each wins by >10x on some units
            cmds = [cmd, cmd + ['--sat-solver', 'cadical']]
            rc, out, dt, win = run_portfolio(cmds, timeout, log=log)
            cmd = cmds[win]
            r.cmd = ' '.join(cmd)
            r.backend = 'cbmc 6.11.0 / portfolio {minisat2, cadical}: answered by ' + ('cadical' if win == 1 else 'minisat2')
        else:
            rc, out, dt = run_cmd(cmd, timeout, log=log)
        r.solver_s += dt
        if rc == 'timeout':
            return 'solver timeout after %ds' % timeout
        if rc not in (0, 10):
            tail = [l for l in out.strip().splitlines() if l.strip()][-3:]
            return 'cbmc exit %s: %s' % (rc, ' | '.join(tail)[:400])
        if re.search(r'ignoring (forall|exists)', out):
            return 'quantifier dropped by the back end ("ignoring") -- result not trustworthy'
        props, summ, verdict = parse_cbmc(out)
        if summ is None or verdict is None:
            return 'cbmc output not understood'
        return props, summ, verdict, out, cmd

    def classify(props):
        can = [p for p in props if 'GV_CANARY' in p['desc']]
        unw = [p for p in props if 'unwind' in check and ('unwinding assertion' in p['desc'] or '.unwind.' in p['id'])
               and '__CPROVER_contracts' not in p['id']]
        real = [p for p in props if p not in can and p not in unw]
        return can, unw, real

    if kind == 'dfcc' and len(check.get('enforce', [])) != 1:
        r.reason = 'a dfcc check must enforce exactly one contract (goto-instrument silently ignores all but the first --enforce-contract)'
        return r
    res = one_pass([], '')
    if isinstance(res, str):
        r.reason = res
        r.wall_s = time.time() - t0
        return r
    props, summ, verdict, out, cmd = res
    can, unw, real = classify(props)
    r.canaries = len(can)
    # vacuity guards
    # every "... end" canary (end of the harness) must be reachable; entry canaries must be reachable for the enforced
    # function of a dfcc check, and are merely reported for callees that a particular bounded configuration never executes
    def _must(p):
        if p['desc'].rstrip().endswith(' end'):
            return True
        if kind == 'dfcc':
            return any((f + ' entry') in p['desc'] for f in check.get('enforce', []))
        return False
    bad_can = [p for p in can if p['status'] != 'FAILURE' and _must(p)]
    if check.get('canaries', 1) and not [p for p in can if p['desc'].rstrip().endswith(' end')]:
        r.reason = 'vacuity guard: no end-of-harness canary present in the run'
        return r
    if check.get('canaries', 1) and not can:
        r.reason = 'vacuity guard: no canary assertion present in the run'
        return r
    if bad_can:
        r.reason = 'vacuity guard: canary not reachable (%s) -- preconditions contradictory?' % bad_can[0]['desc']
        return r
    bad_unw = [p for p in unw if p['status'] != 'SUCCESS']
    if bad_unw:
        r.reason = 'unwinding assertion failed (%s): bound too small for this code' % bad_unw[0]['id']
        return r
    r.loop_steps = len([p for p in real if re.search(r'loop invariant.*(step|preserved)|invariant is preserved|Check invariant after step', p['desc'])])
    if kind == 'dfcc' and check.get('loops', 0) and r.loop_steps < check['loops']:
        r.reason = 'vacuity guard: %d loop-invariant step obligations, expected >= %d (loop contract silently dropped?)' % (r.loop_steps, check['loops'])
        return r
    if kind == 'dfcc':
        fn0 = check['enforce'][0]
        if not [p for p in real if p['id'].startswith(fn0 + '.')]:
            r.reason = 'vacuity guard: no obligation was generated inside the enforced function ' + fn0
            return r
    r.instantiations = len([p for p in real if 'instantiation index in range' in p['desc']])
    if len(real) < check.get('min_obligations', 1):
        r.reason = 'vacuity guard: only %d obligations generated, unit expects >= %d' % (len(real), check.get('min_obligations', 1))
        return r
    failed = [p for p in real if p['status'] != 'SUCCESS']
    r.obligations = len(real)
    r.discharged = len(real) - len(failed)
    r.samples = ['[%s] %s: %s' % (p['id'], p['desc'], p['status']) for p in real[:3] + real[-2:]]

    # known findings
    unexplained = list(failed)
    for k in my_known:
        rx = re.compile(k.get('obligation', '$^'))
        hit = [p for p in unexplained if rx.search(p['desc']) or rx.search(p['id'])]
        if hit:
            r.known_hit.append((k, hit))
            unexplained = [p for p in unexplained if p not in hit]
        else:
            r.stale.append(k)
    if my_known and not unexplained:
        # second pass: with the exclusion predicates of the listed findings assumed, EVERYTHING must hold
        excl = [k['exclude'] for k in my_known if k.get('exclude')]
        res2 = one_pass(excl, '.excl')
        if isinstance(res2, str):
            r.reason = 'exclusion pass: ' + res2
            return r
        props2, _, _, out2, cmd2 = res2
        can2, unw2, real2 = classify(props2)
        if [p for p in can2 if p['status'] != 'FAILURE']:
            r.reason = 'vacuity guard: exclusion predicate makes the canary unreachable'
            return r
        failed2 = [p for p in real2 if p['status'] != 'SUCCESS']
        r.excl_obligations = (len(real2), len(real2) - len(failed2))
        if failed2:
            unexplained = failed2
            out = out2
            cmd = cmd2
        else:
            r.obligations, r.discharged = len(real2), len(real2)
    if unexplained:
        r.status = 'violation'
        r.failed = unexplained
        # trace for the first failing obligation
        tcmd = [c for c in cmd] + ['--trace', '--property', unexplained[0]['id']]
        rc, tout, _ = run_cmd(tcmd, timeout, log=log)
        r.trace = tout if rc in (0, 10) else out
    else:
        r.status = 'ok'
    r.wall_s = time.time() - t0
    return r


def do_z3(unit, check, cfile, sdir, known):
    """z3 lemma check: python3-vt <unit>/<script> <generated C file> ; prints 'LEMMA name: proved|FAILED ...'"""
    r = CheckResult(unit, check)
    t0 = time.time()
    log = os.path.join(sdir, unit['name'] + '.' + check['name'] + '.log')
    cmd = [PYVT, os.path.join(unit['dir'], check['script']), cfile, REPO]
    r.cmd = ' '.join(cmd)
    r.backend = 'z3 %s (Int sort, mathematical integers)' % '5.1.0'
    rc, out, dt = run_cmd(cmd, check.get('timeout', 120), log=log)
    r.solver_s = dt
    r.wall_s = time.time() - t0
    if rc == 'timeout':
        r.reason = 'z3 timeout'
        return r
    if rc == 2 or rc not in (0, 1):
        r.reason = 'lemma script: ' + (out.strip().splitlines() or ['?'])[-1][:300]
        return r
    lem = re.findall(r'^LEMMA (\S+): (proved|FAILED)(.*)$', out, re.M)
    if len(lem) < check.get('min_obligations', 1):
        r.reason = 'vacuity guard: %d lemmas < %d' % (len(lem), check.get('min_obligations', 1))
        return r
    r.obligations = len(lem)
    bad = [l for l in lem if l[1] != 'proved']
    r.discharged = len(lem) - len(bad)
    r.samples = ['LEMMA %s: %s' % (l[0], l[1]) for l in lem[:4]]
    if bad:
        r.status = 'violation'
        r.failed = [{'id': l[0], 'desc': 'z3 lemma ' + l[0] + l[2], 'status': 'FAILURE', 'line': None} for l in bad]
        r.trace = out
    else:
        r.status = 'ok'
    return r


# --------------------------------------------------------------------------------------------------

def load_units():
    units = []
    for uj in sorted(glob.glob(os.path.join(VERIF, 'units', '*', 'unit.json'))):
        u = json.load(open(uj))
        u['dir'] = os.path.dirname(uj)
        u.setdefault('name', os.path.basename(u['dir']))
        units.append(u)
    return units


def native_replay(unit, check, res, rp_path, sdir):
    """If the unit has replay.cpp, compile it against /repo and run it on the trace.  Returns text verdict."""
    src = os.path.join(unit['dir'], check.get('replay', 'replay.cpp'))
    if not os.path.exists(src):
        return None, 'unit has no native replay'
    exe = os.path.join(sdir, unit['name'] + '.' + check['name'] + '.replay')
    cmd = ['g++', '-std=c++14', '-O0', '-g', '-I', os.path.join(REPO, 'lib'), '-I', os.path.join(VERIF, 'include'),
           src] + [os.path.join(REPO, s) for s in unit.get('replay_sources', [])] + ['-o', exe]
    rc, out, _ = run_cmd(cmd, 300)
    if rc != 0:
        return None, 'replay does not compile against the current tree: ' + out[-400:]
    rc, out, _ = run_cmd([exe, rp_path + '.inputs', check['name']], 60)
    if rc == 'timeout':
        return None, 'replay timed out'
    return rc, out


def trace_inputs(trace):
    """Pull 'name=value' assignments of harness-level variables out of a cbmc text trace (last value wins)."""
    vals = {}
    for m in re.finditer(r'^\s{2}(\w[\w\.\[\]\$!@]*)=([^\n]*?)(?: \([01 ]+\))?$', trace, re.M):
        vals[m.group(1)] = m.group(2).strip()
    return vals


def main(argv):
    if len(argv) >= 2 and argv[1] == '--selftest':
        return selftest()
    if len(argv) >= 3 and argv[1] == '--replay':
        return replay_cmd(argv[2])
    if len(argv) < 3:
        print(__doc__)
        return 2
    pid, tier = argv[1], argv[2]
    only_unit = only_check = None
    keep = '--keep' in argv
    verbose = '--verbose' in argv
    if '--unit' in argv:
        only_unit = argv[argv.index('--unit') + 1]
    if '--check' in argv:
        only_check = argv[argv.index('--check') + 1]
    seed = int(os.environ.get('VERIF_SEED', '0') or 0)
    t0 = time.time()
    known = load_known()
    units = load_units()
    os.makedirs(os.path.join(VERIF, 'scratch'), exist_ok=True)
    import tempfile
    sdir = tempfile.mkdtemp(prefix='%s-%s-' % (pid, tier), dir=os.path.join(VERIF, 'scratch'))
    os.makedirs(os.path.join(VERIF, 'replay'), exist_ok=True)
    os.makedirs(os.path.join(VERIF, 'evidence'), exist_ok=True)

    jobs = []
    undecided = []
    functions = []
    fires_all = {}
    scan_all = {}
    trusted = []
    assumptions = []
    enabled = set()
    ep = os.path.join(VERIF, 'units', 'ENABLED')
    if os.path.exists(ep):
        enabled = set(l.strip() for l in open(ep) if l.strip() and not l.startswith('#'))
    for u in units:
        if only_unit and u['name'] != only_unit:
            continue
        if not only_unit and u['name'] not in enabled:
            continue          # units under construction take part only when named with --unit
        checks = []
        for c in u.get('checks', []):
            cprops = c.get('properties', u.get('properties', []))
            if pid not in cprops and pid != 'ALL':
                continue
            if tier == 'quick' and c.get('tier', 'quick') != 'quick':
                continue
            if only_check and c['name'] != only_check:
                continue
            checks.append(c)
        if not checks:
            continue
        cfile = os.path.join(sdir, u['name'] + '.c')
        try:
            if u.get('functions') is not None or os.path.exists(os.path.join(u['dir'], u.get('spec', 'spec.c'))):
                info, fires, _ = extract.build_unit(REPO, u['dir'], u, cfile)
                functions += [dict(i, unit=u['name']) for i in info]
                scan_all[u['name']] = fires.pop('__assume_scan__', {})
                fires_all.update({u['name'] + ' ' + k: v for k, v in fires.items()})
            for hook in u.get('pre', []):
                rc, out, _ = run_cmd([sys.executable, os.path.join(u['dir'], hook), REPO, sdir], 120)
                if rc != 0:
                    raise extract.ExtractionBreak('pre-step %s: %s' % (hook, out.strip()[-300:]))
        except extract.ExtractionBreak as e:
            for c in checks:
                undecided.append((u['name'], c['name'], 'extraction break: ' + str(e)))
            continue
        trusted += [t for t in u.get('trusted_base', []) if t not in trusted]
        assumptions += [a for a in u.get('assumptions', []) if a not in assumptions]
        for c in checks:
            jobs.append((u, c, cfile))

    if seed:
        import random
        random.Random(seed).shuffle(jobs)
    results = []
    with cf.ThreadPoolExecutor(max_workers=int(os.environ.get('GV_JOBS', '8'))) as ex:
        futs = {}
        # scheduling only: a check marked "heavy" (many GB per solver process, and the portfolio runs two) never runs at
        # the same time as another heavy one, so that a thorough run cannot exhaust the machine's memory and get a solver
        # killed (exit -9 = undecided).  Verdicts are not affected.
        heavy_lock = threading.Lock()
        def _run(fn, u, c, cfile):
            if c.get('heavy'):
                with heavy_lock:
                    return fn(u, c, cfile, sdir, known)
            return fn(u, c, cfile, sdir, known)
        for (u, c, cfile) in sorted(jobs, key=lambda j: 0 if j[1].get('heavy') else 1):
            fn = do_z3 if c.get('kind') == 'z3' else do_check
            futs[ex.submit(_run, fn, u, c, cfile)] = (u, c)
        for f in cf.as_completed(futs):
            u, c = futs[f]
            try:
                r = f.result()
            except Exception as e:  # driver bug: undecided, never a pass
                r = CheckResult(u, c)
                r.reason = 'driver exception: %r' % (e,)
            results.append(r)
            if verbose:
                print('  .. %s.%s: %s %s (%d/%d, %.1fs)' % (u['name'], c['name'], r.status, r.reason, r.discharged,
                                                            r.obligations, r.solver_s), flush=True)
    results.sort(key=lambda r: (r.unit['name'], r.check['name']))

    violations = 0
    exit_code = 0
    proof_obl = proof_dis = bnd_obl = bnd_dis = 0
    per_check = []
    samples = []
    kf_lines = []
    for r in results:
        nm = r.unit['name'] + '.' + r.check['name']
        if r.status == 'undecided':
            undecided.append((r.unit['name'], r.check['name'], r.reason))
        elif r.status == 'violation':
            violations += 1
            rp = os.path.join(VERIF, 'replay', '%s-%s.json' % (pid, nm))
            doc = {'property': pid, 'unit': r.unit['name'], 'check': r.check['name'],
                   'failed_obligations': r.failed, 'checker_cmd': r.cmd,
                   'inputs': trace_inputs(r.trace), 'verifier_output': r.trace[-20000:]}
            json.dump(doc, open(rp, 'w'), indent=1)
            with open(rp + '.inputs', 'w') as f:      # flat name=value view of the counterexample for replay.cpp
                for k_, v_ in doc['inputs'].items():
                    f.write('%s=%s\n' % (k_, v_))
            rc, rout = native_replay(r.unit, r.check, r, rp, sdir)
            doc['native_replay'] = {'rc': rc, 'output': rout}
            json.dump(doc, open(rp, 'w'), indent=1)
            suffix = '' if rc == 1 else ' no-failing-input-found'
            for p in r.failed[:5]:
                print('FAILED-OBLIGATION unit=%s [%s] %s' % (nm, p['id'], p['desc']))
            if rc == 1:
                print('REPLAY reproduces on the real code: ' + (rout.strip().splitlines() or [''])[-1])
            print('VIOLATION property=%s replay=%s%s' % (pid, rp, suffix))
        for k, hit in r.known_hit:
            kf_lines.append('KNOWN-FINDING: property=%s %s [unit %s: %d obligation(s), e.g. %s]'
                            % (k.get('property', pid), k['text'], nm, len(hit), hit[0]['desc'][:100]))
        for k in r.stale:
            print('STALE-KNOWN-FINDING: %s (no obligation of %s fails any more)' % (k['raw'][:120], nm))
        if r.status in ('ok', 'violation'):
            if r.level == 'proof':
                proof_obl += r.obligations
                proof_dis += r.discharged
            else:
                bnd_obl += r.obligations
                bnd_dis += r.discharged
        per_check.append({'unit': r.unit['name'], 'check': r.check['name'], 'level': r.level, 'bound': r.bound,
                          'status': r.status, 'reason': r.reason, 'obligations': r.obligations,
                          'discharged': r.discharged, 'canaries_failed_as_required': r.canaries,
                          'loop_invariant_step_obligations': r.loop_steps,
                          'instantiations': r.instantiations, 'backend': r.backend,
                          'solver_s': round(r.solver_s, 2), 'enforced': r.check.get('enforce', []),
                          'replaced_by_contract': r.check.get('replace', []),
                          'known_findings_reproduced': [k['raw'] for k, _ in r.known_hit],
                          'checker_cmd': r.cmd})
        samples += r.samples[:2]
    for l in sorted(set(kf_lines)):
        print(l)
    for (un, cn, why) in undecided:
        print('UNDECIDED unit=%s.%s: %s' % (un, cn, why))
    if violations:
        exit_code = 1
    elif undecided or not results:
        exit_code = 2
        if not results and not undecided:
            print('UNDECIDED: no check registered for %s at tier %s' % (pid, tier))

    level = level_of(pid)
    cov = {'obligations': proof_obl, 'discharged': proof_dis,
           'bounded_obligations': bnd_obl, 'bounded_discharged': bnd_dis,
           'checker_cmd': './check %s %s  (per check: goto-cc; goto-instrument --dfcc H --enforce-contract F '
                          '--replace-call-with-contract G --apply-loop-contracts; cbmc <flags>)' % (pid, tier),
           'trusted_base': trusted, 'functions_under_contract': functions, 'checks': per_check,
           'lowering_rule_fires': fires_all, 'assume_scan': scan_all, 'samples': samples[:12] or ['(none)'],
           'undecided': [{'unit': a, 'check': b, 'reason': c} for a, b, c in undecided],
           'explanation': 'contract-based deductive verification with CBMC code contracts on function bodies extracted '
                          'from /repo on this run; proof-level obligations and bounded obligations are counted '
                          'separately; see per-check entries for back end, bound and solver time',
           'evaluations': max(1, proof_obl + bnd_obl), 'distinct_nontrivial': max(2, proof_dis + bnd_dis),
           'rule': 'one evaluation = one verifier obligation (assertion generated by contract instrumentation or '
                   'safety check) on the extracted code; canaries excluded'}
    ev = {'property_id': pid, 'tier': tier if tier in ('quick', 'thorough') else 'quick', 'seed': seed, 'level': level,
          'coverage': cov, 'assumptions': assumptions, 'wall_s': round(time.time() - t0, 2),
          'violations': violations}
    if pid != 'ALL':
        # the registered evidence file is written only by a full run of the property against /repo itself; filtered runs
        # (--unit/--check) and runs against another tree (GV_REPO, mutation tests) leave it alone
        if only_unit or only_check or os.path.realpath(REPO) != '/repo':
            os.makedirs(os.path.join(VERIF, 'scratch', 'evidence-partial'), exist_ok=True)
            epath = os.path.join(VERIF, 'scratch', 'evidence-partial', pid + '.json')
        else:
            epath = os.path.join(VERIF, 'evidence', pid + '.json')
        json.dump(ev, open(epath, 'w'), indent=1)
    print('%s %s: %d checks, proof obligations %d/%d, bounded %d/%d, violations %d, undecided %d, %.1fs -> exit %d'
          % (pid, tier, len(results), proof_dis, proof_obl, bnd_dis, bnd_obl, violations, len(undecided),
             time.time() - t0, exit_code))
    if not keep:
        shutil.rmtree(sdir, ignore_errors=True)
    return exit_code


def level_of(pid):
    try:
        m = json.load(open(os.path.join(VERIF, 'MANIFEST.json')))
        for c in m.get('checks', []):
            if c['property_id'] == pid:
                return c['level_claimed']['category']
    except Exception:
        pass
    return 'proof'


def replay_cmd(path):
    doc = json.load(open(path))
    units = {u['name']: u for u in load_units()}
    u = units.get(doc['unit'])
    if not u:
        print('unknown unit', doc['unit'])
        return 2
    c = [c for c in u['checks'] if c['name'] == doc['check']][0]
    sdir = os.path.join(VERIF, 'scratch', 'replay-%d' % os.getpid())
    os.makedirs(sdir, exist_ok=True)
    rc, out = native_replay(u, c, None, path, sdir)
    shutil.rmtree(sdir, ignore_errors=True)
    print('failed obligations recorded in the replay file:')
    for p in doc['failed_obligations']:
        print('  [%s] %s' % (p['id'], p['desc']))
    print(out or '')
    if rc == 1:
        print('REPLAY: violation reproduces on the real code')
        return 1
    if rc == 0:
        print('REPLAY: does not reproduce on the current tree')
        return 0
    print('REPLAY: no native replay available for this obligation (no-failing-input-found); verifier output is in the file')
    return 2


def selftest():
    """Extract every unit from the current tree (no solving).  Used as setup_cmd."""
    ok = True
    sdir = os.path.join(VERIF, 'scratch', 'selftest-%d' % os.getpid())
    os.makedirs(sdir, exist_ok=True)
    ep = os.path.join(VERIF, 'units', 'ENABLED')
    enabled = set(l.strip() for l in open(ep) if l.strip() and not l.startswith('#')) if os.path.exists(ep) else set()
    for u in load_units():
        if u['name'] not in enabled:
            continue
        try:
            if os.path.exists(os.path.join(u['dir'], u.get('spec', 'spec.c'))):
                info, fires, _ = extract.build_unit(REPO, u['dir'], u, os.path.join(sdir, u['name'] + '.c'))
                bad = [k for k, v in fires.get('__assume_scan__', {}).items() if 'must be 0' in k and v]
                print('unit %-28s %2d function(s) extracted%s' % (u['name'], len(info), '  ASSUME IN INJECTED BLOCK' if bad else ''))
                if bad:
                    ok = False
        except extract.ExtractionBreak as e:
            print('unit %s: EXTRACTION BREAK %s' % (u['name'], e))
            ok = False
    shutil.rmtree(sdir, ignore_errors=True)
    return 0 if ok else 2


if __name__ == '__main__':
    sys.exit(main(sys.argv))
