#!/usr/bin/env python3
"""Route X extractor: copy the *real* body of a C++ function out of /repo's working tree, lower it to C
with a closed list of token-level rewrites and inject the sidecar contracts of the unit's spec file.

Nothing here knows anything about gama; everything specific is in units/<unit>/unit.json and spec.c.

Exit discipline: every problem in this file raises ExtractionBreak -> the driver reports exit 2
("undecided: extraction break"), never a violation and never a pass.
"""
import hashlib
import os
import re


class ExtractionBreak(Exception):
    pass


# --------------------------------------------------------------------------------------------------
# lexical helpers

def strip_comments(text):
    """Replace comments by blanks (newlines kept) outside string/char literals."""
    out = []
    i, n = 0, len(text)
    while i < n:
        c = text[i]
        if c == '"' or c == "'":
            q = c
            j = i + 1
            while j < n and text[j] != q:
                if text[j] == '\\':
                    j += 1
                j += 1
            out.append(text[i:j + 1])
            i = j + 1
        elif text.startswith('//', i):
            j = text.find('\n', i)
            if j < 0:
                j = n
            out.append(' ' * (j - i))
            i = j
        elif text.startswith('/*', i):
            j = text.find('*/', i + 2)
            if j < 0:
                raise ExtractionBreak('unterminated comment')
            seg = text[i:j + 2]
            out.append(''.join('\n' if ch == '\n' else ' ' for ch in seg))
            i = j + 2
        else:
            out.append(c)
            i += 1
    return ''.join(out)


def match_close(text, i, open_ch, close_ch):
    """text[i] == open_ch; return index of the matching close_ch (literals skipped)."""
    assert text[i] == open_ch, (text[i:i + 20], open_ch)
    depth = 0
    n = len(text)
    while i < n:
        c = text[i]
        if c == '"' or c == "'":
            q = c
            i += 1
            while i < n and text[i] != q:
                if text[i] == '\\':
                    i += 1
                i += 1
        elif c == open_ch:
            depth += 1
        elif c == close_ch:
            depth -= 1
            if depth == 0:
                return i
        i += 1
    raise ExtractionBreak('unbalanced %s%s' % (open_ch, close_ch))


def header_regex(header):
    """Whitespace-insensitive regex for a C++ function header given verbatim."""
    toks = re.findall(r'[A-Za-z_0-9]+|::|->|\S', header)
    parts = []
    for k, t in enumerate(toks):
        parts.append(re.escape(t))
    rx = r'\s*'.join(parts)
    # identifiers must not be glued to a preceding identifier char
    if re.match(r'\w', toks[0]):
        rx = r'(?<![\w:])' + rx
    return re.compile(rx)


def find_function(src, header):
    """Return (body_text_without_outer_braces, line_number_of_header).  src has comments stripped.
    The header must be followed (after optional whitespace / ctor-initialiser list) by '{', and must be unique."""
    rx = header_regex(header)
    hits = []
    for m in rx.finditer(src):
        j = m.end()
        k = j
        while k < len(src) and src[k].isspace():
            k += 1
        if k < len(src) and src[k] == '{':
            hits.append((m.start(), k))
        elif k < len(src) and src[k] == ':' and src[k:k + 2] != '::':
            # constructor initialiser list: find the '{' that starts the body
            kk = k
            depth = 0
            while kk < len(src):
                ch = src[kk]
                if ch == '(':
                    kk = match_close(src, kk, '(', ')')
                elif ch == '{' and depth == 0:
                    # brace initialiser "m{...}" is preceded by an identifier char; a body '{' by ')' '}' or ws
                    p = kk - 1
                    while p >= 0 and src[p].isspace():
                        p -= 1
                    if src[p] in ')}':
                        break
                    kk = match_close(src, kk, '{', '}')
                elif ch == ';':
                    kk = -1
                    break
                kk += 1
            if kk > 0:
                hits.append((m.start(), kk))
    if len(hits) != 1:
        raise ExtractionBreak('function header %r: %d definitions found (need exactly 1)' % (header, len(hits)))
    start, ob = hits[0]
    cb = match_close(src, ob, '{', '}')
    line = src.count('\n', 0, start) + 1
    return src[ob + 1:cb], line


# --------------------------------------------------------------------------------------------------
# statement structure: find loops (pre-order) so that loop contracts can be attached by ordinal

KW = re.compile(r'[A-Za-z_]\w*')


class Loop:
    def __init__(self, kind, kw_pos):
        self.kind = kind            # 'for' | 'while' | 'do'
        self.kw_pos = kw_pos
        self.header_end = None      # index just after ')' of for/while header (or after 'do')
        self.body_start = None      # first non-ws char of body statement
        self.body_end = None        # index just after body statement
        self.braced = None
        self.tail_end = None        # do-while: index just after ')' of the trailing while(...)


def _skip_ws(t, i):
    while i < len(t) and t[i].isspace():
        i += 1
    return i


def parse_stmt(t, i, loops):
    """Parse one statement starting at t[i] (ws allowed); return index just after it."""
    i = _skip_ws(t, i)
    if i >= len(t):
        raise ExtractionBreak('statement expected at end of text')
    c = t[i]
    if c == '{':
        end = match_close(t, i, '{', '}')
        j = i + 1
        while True:
            j = _skip_ws(t, j)
            if j >= end:
                break
            j = parse_stmt(t, j, loops)
        return end + 1
    if c == ';':
        return i + 1
    m = KW.match(t, i)
    if m:
        w = m.group(0)
        j = m.end()
        if w in ('if', 'switch'):
            j = _skip_ws(t, j)
            if t.startswith('constexpr', j):
                j = _skip_ws(t, j + 9)
            j = match_close(t, j, '(', ')') + 1
            j = parse_stmt(t, j, loops)
            if w == 'if':
                k = _skip_ws(t, j)
                m2 = KW.match(t, k)
                if m2 and m2.group(0) == 'else':
                    j = parse_stmt(t, m2.end(), loops)
            return j
        if w in ('for', 'while'):
            lp = Loop(w, i)
            loops.append(lp)
            j = _skip_ws(t, j)
            j = match_close(t, j, '(', ')') + 1
            lp.header_end = j
            lp.body_start = _skip_ws(t, j)
            lp.braced = t[lp.body_start] == '{'
            j = parse_stmt(t, j, loops)
            lp.body_end = j
            return j
        if w == 'do':
            lp = Loop('do', i)
            loops.append(lp)
            lp.header_end = j
            lp.body_start = _skip_ws(t, j)
            lp.braced = t[lp.body_start] == '{'
            j = parse_stmt(t, j, loops)
            lp.body_end = j
            k = _skip_ws(t, j)
            m2 = KW.match(t, k)
            if not (m2 and m2.group(0) == 'while'):
                raise ExtractionBreak('do without while')
            k = _skip_ws(t, m2.end())
            k = match_close(t, k, '(', ')') + 1
            lp.tail_end = k
            k = _skip_ws(t, k)
            if t[k] != ';':
                raise ExtractionBreak('do-while without ;')
            return k + 1
        if w == 'case':
            # "case <expr> :" -- a label is treated as a statement of its own (block context only)
            k = j
            while t[k] != ':' or t[k:k + 2] == '::' or t[k - 1] == ':':
                k += 1
            return k + 1
        k = _skip_ws(t, j)
        if k < len(t) and t[k] == ':' and t[k:k + 2] != '::':
            # "default:" or a goto label
            return k + 1
        if w == 'else':
            raise ExtractionBreak('dangling else')
        if w == 'try':
            raise ExtractionBreak('try block not supported by the extractor')
    # expression / declaration statement: up to ';' at nesting depth 0
    j = i
    n = len(t)
    while j < n:
        ch = t[j]
        if ch == '(':
            j = match_close(t, j, '(', ')')
        elif ch == '[':
            j = match_close(t, j, '[', ']')
        elif ch == '{':
            j = match_close(t, j, '{', '}')
        elif ch == '"' or ch == "'":
            q = ch
            j += 1
            while t[j] != q:
                if t[j] == '\\':
                    j += 1
                j += 1
        elif ch == ';':
            return j + 1
        j += 1
    raise ExtractionBreak('unterminated statement: %r' % t[i:i + 60])


def find_loops(body):
    loops = []
    j = 0
    while True:
        j = _skip_ws(body, j)
        if j >= len(body):
            break
        j = parse_stmt(body, j, loops)
    return loops


# --------------------------------------------------------------------------------------------------
# spec file: marker-delimited blocks
#   //@ prelude                          C text emitted before all functions
#   //@ contract <fn>                    function contract clauses
#   //@ entry <fn>                       statements inserted at the start of the body
#   //@ loop <fn> <k>                    loop contract clauses of the k-th loop (1-based, source order)
#   //@ head <fn> <k>                    statements inserted at the start of the k-th loop's body
#   //@ harness                          C text emitted after all functions
#   //@ end                              (optional) closes a block

MARK = re.compile(r'^\s*//@\s*(\w+)(?:\s+(\S+))?(?:\s+(\w+))?\s*$')


def parse_spec(path):
    blocks = {}
    cur = None
    with open(path) as f:
        for line in f:
            m = MARK.match(line)
            if m:
                kind, fn, k = m.group(1), m.group(2), m.group(3)
                if kind == 'end':
                    cur = None
                    continue
                key = (kind, fn, (int(k) if k.isdigit() else k) if k else None)
                if key in blocks:
                    raise ExtractionBreak('duplicate spec block %r in %s' % (key, path))
                blocks[key] = []
                cur = key
            elif cur is not None:
                blocks[cur].append(line)
    return {k: ''.join(v) for k, v in blocks.items()}


# --------------------------------------------------------------------------------------------------
# lowering

# tokens that must not survive lowering (C++-only); checked on the comment-free lowered body
LEFTOVER = [
    (re.compile(r'\btemplate\b'), 'template'),
    (re.compile(r'(?<!:)::(?!:)'), '::'),
    (re.compile(r'\bthrow\b'), 'throw'),
    (re.compile(r'\bnew\b'), 'new'),
    (re.compile(r'\bdelete\b'), 'delete'),
    (re.compile(r'\bstatic_cast\b|\bconst_cast\b|\breinterpret_cast\b|\bdynamic_cast\b'), 'c++ cast'),
    (re.compile(r'\btypename\b'), 'typename'),
    (re.compile(r'\boperator\b'), 'operator'),
    (re.compile(r'\bthis\b'), 'this'),
    (re.compile(r'\btry\b|\bcatch\b'), 'try/catch'),
    (re.compile(r'\bauto\b'), 'auto'),
]


def apply_rules(text, rules, fires, where):
    for r in rules:
        pat, repl = r[0], r[1]
        lo = r[2] if len(r) > 2 else 1
        flags = re.S if (len(r) > 3 and 's' in r[3]) else 0
        text, n = re.subn(pat, repl, text, flags=flags)
        key = '%s: s/%s/%s/' % (where, pat, repl)
        fires[key] = fires.get(key, 0) + n
        if n < lo:
            raise ExtractionBreak('lowering rule fired %d times (< %d) in %s: %s' % (n, lo, where, pat))
    return text


def extract_function(repo, fn, spec, common_rules, fires, info):
    """fn: dict from unit.json.  Returns C text of the function with contracts injected."""
    name = fn['name']
    path = os.path.join(repo, fn['file'])
    try:
        raw = open(path, encoding='utf-8', errors='replace').read()
    except OSError as e:
        raise ExtractionBreak('cannot read %s: %s' % (path, e))
    src = strip_comments(raw)
    body, line = find_function(src, fn['header'])
    sha = hashlib.sha1(body.encode()).hexdigest()
    info.append({'function': name, 'file': fn['file'], 'line': line, 'header': fn['header'],
                 'body_sha1': sha, 'body_lines': body.count('\n') + 1})

    # 1. loops, on the verbatim text
    loops = find_loops(body)
    want = fn.get('loops', 0)
    if len(loops) != want:
        raise ExtractionBreak('%s: %d loops found in %s:%d, unit has contracts for %d'
                              % (name, len(loops), fn['file'], line, want))
    ins = []  # (position, order, text) -- placeholders now, spec text after lowering (so that the lowering
    #            rules rewrite the repository's text only, never the injected contract text)
    ph = {}
    cont_edits = []   # (start, end, replacement) for `continue;` -> `goto tail;`
    for k, lp in enumerate(loops, 1):
        clauses = spec.get(('loop', name, k), '')
        head = spec.get(('head', name, k), '')
        if not clauses.strip() and not fn.get('unwound'):
            raise ExtractionBreak('%s: loop %d has no contract in the spec' % (name, k))
        pc, phd = '__GV_LOOPCONTRACT_%d__' % k, '__GV_LOOPHEAD_%d__' % k
        ph[pc] = '\n' + clauses
        ph[phd] = '\n' + head
        pre = spec.get(('pre', name, k), '')      # ghost statements just before the loop statement
        tail = spec.get(('tail', name, k), '')    # ghost statements at the end of the loop body
        if pre.strip():
            ppre = '__GV_LOOPPRE_%d__' % k
            q = lp.kw_pos - 1
            while q >= 0 and body[q].isspace():
                q -= 1
            if q >= 0 and body[q] not in ';{}':
                raise ExtractionBreak('%s: loop %d is not a statement of a block; cannot place its pre block' % (name, k))
            ph[ppre] = '\n' + pre
            ins.append((lp.kw_pos, -2, ' ' + ppre + ' '))
        post = spec.get(('post', name, k), '')    # ghost statements just after the loop statement (anchors)
        if post.strip():
            q = lp.kw_pos - 1
            while q >= 0 and body[q].isspace():
                q -= 1
            if q >= 0 and body[q] not in ';{}':
                raise ExtractionBreak('%s: loop %d is not a statement of a block; cannot place its post block' % (name, k))
            ppost = '__GV_LOOPPOST_%d__' % k
            ph[ppost] = '\n' + post
            endpos = lp.body_end
            if lp.kind == 'do':
                endpos = body.index(';', lp.tail_end) + 1
            ins.append((endpos, -3, ' ' + ppost + ' '))
        ptl = ''
        if tail.strip():
            # a `continue` of THIS loop must not skip the ghost tail: it becomes a jump to a label placed in
            # front of the tail (continues of nested loops are left alone)
            lbl = ''
            nested = [(l2.body_start, l2.body_end) for l2 in loops if lp.body_start < l2.kw_pos < lp.body_end]
            for mc in re.finditer(r'\bcontinue\s*;', body[lp.body_start:lp.body_end]):
                a = lp.body_start + mc.start()
                if any(b0 <= a < b1 for b0, b1 in nested):
                    continue
                lbl = '__gv_tail_%d' % k
                cont_edits.append((a, lp.body_start + mc.end(), 'goto %s;' % lbl))
            ptl = ' __GV_LOOPTAIL_%d__ ' % k
            ph[ptl.strip()] = '\n' + (lbl + ': ;\n' if lbl else '') + tail
        if lp.kind == 'do':
            ins.append((lp.tail_end, 0, ' ' + pc + ' '))
        else:
            ins.append((lp.header_end, 0, ' ' + pc + ' '))
        if lp.braced:
            ins.append((lp.body_start + 1, 1, ' ' + phd + ' '))
            if ptl:
                ins.append((lp.body_end - 1, -1, ptl))
        else:
            ins.append((lp.body_start, 1, '{ ' + phd + ' '))
            ins.append((lp.body_end, -1, ptl + '}'))
    # named injection points: unit.json "inject": [[regex, blockname]] -> spec block "//@ at <fn> <blockname>" is
    # placed immediately before the unique match of regex in the verbatim body (assertions / ghost statements)
    for rx_, bname in fn.get('inject', []):
        ms = list(re.finditer(rx_, body))
        if len(ms) != 1:
            raise ExtractionBreak('%s: injection point %s (%r) matches %d times (need exactly 1)' % (name, bname, rx_, len(ms)))
        txt = spec.get(('at', name, bname), '')
        if not txt.strip():
            raise ExtractionBreak('%s: no spec block "//@ at %s %s"' % (name, name, bname))
        pk = '__GV_AT_%s__' % bname
        ph[pk] = '\n' + txt
        ins.append((ms[0].start(), -4, ' ' + pk + ' '))
    edits = [(pos, pos, order, txt) for pos, order, txt in ins] + [(a, b, 5, txt) for a, b, txt in cont_edits]
    for a, b, _, txt in sorted(edits, key=lambda x: (x[0], x[2]), reverse=True):
        body = body[:a] + txt + body[b:]

    # 2. lowering rules: function-specific first, then the unit's common rules, then R1 (members)
    body = apply_rules(body, fn.get('rules', []), fires, name)
    body = apply_rules(body, [[r[0], r[1], 0] + list(r[3:]) for r in common_rules], fires, name + ' (common)')
    members = fn.get('members', [])
    if members:
        rx = r'(?<![\w.>])(?:this\s*->\s*)?(' + '|'.join(re.escape(m) for m in members) + r')\b'
        body, n = re.subn(rx, r'self->\1', body)
        fires[name + ': R1 members -> self->'] = n

    # 3. leftover scan on the lowered text (outside injected contract text nothing C++ may remain)
    chk = strip_comments(body)
    chk = re.sub(r'"(?:[^"\\]|\\.)*"', '""', chk)
    for rx, what in LEFTOVER:
        m = rx.search(chk)
        if m:
            ln = chk.count('\n', 0, m.start())
            raise ExtractionBreak('%s: C++-only token %r left after lowering near: %r'
                                  % (name, what, chk[max(0, m.start() - 40):m.end() + 40]))

    for k, v in ph.items():
        if body.count(k) != 1:
            raise ExtractionBreak('%s: placeholder %s lost during lowering' % (name, k))
        body = body.replace(k, v)
    contract = spec.get(('contract', name, None), '')
    entry = spec.get(('entry', name, None), '')
    ret = fn.get('ret', '')
    out = []
    out.append('/* ---- %s : extracted from %s:%d (sha1 %s) ---- */\n' % (name, fn['file'], line, sha))
    out.append('#undef GV_RET\n#define GV_RET %s\n' % ret)
    for d in fn.get('defines', []):
        out.append('#define %s\n' % d)
    # Safety checks (pointer, bounds, overflow, conversion) are generated for the CODE only: the contract clauses are
    # specification text evaluated on harness-built objects; checking them too multiplies obligations tenfold.
    if contract.strip() and not fn.get('check_spec_text'):
        contract = ('#pragma CPROVER check push\n' + ''.join('#pragma CPROVER check disable "%s"\n' % c for c in
                    ('pointer', 'bounds', 'signed-overflow', 'conversion', 'pointer-primitive', 'div-by-zero', 'pointer-overflow'))
                    + contract + '#pragma CPROVER check pop\n')
    out.append(fn['csig'] + '\n' + contract + '{\n' + entry + body + '\n}\n')
    for d in fn.get('defines', []):
        out.append('#undef %s\n' % re.split(r'[\s(]', d)[0])
    return ''.join(out)


def build_unit(repo, unit_dir, unit, out_path):
    """Generate the C translation unit for a unit.  Returns (info, fires)."""
    spec = parse_spec(os.path.join(unit_dir, unit.get('spec', 'spec.c')))
    fires = {}
    info = []
    nochk = ('#pragma CPROVER check push\n' + ''.join('#pragma CPROVER check disable "%s"\n' % c for c in
             ('pointer', 'bounds', 'signed-overflow', 'conversion', 'pointer-primitive', 'div-by-zero', 'pointer-overflow')))
    parts = ['/* GENERATED by /verif/gv/extract.py -- do not edit; regenerated from /repo on every run */\n',
             nochk, '#include "gv.h"\n', spec.get(('prelude', None, None), ''), '\n#pragma CPROVER check pop\n']
    for fn in unit.get('functions', []):
        parts.append(extract_function(repo, fn, spec, unit.get('common_rules', []), fires, info))
    parts += [nochk, spec.get(('harness', None, None), ''), '\n#pragma CPROVER check pop\n']
    text = ''.join(parts)
    with open(out_path, 'w') as f:
        f.write(text)
    # mechanical scan for assumptions (reported in the evidence, never hidden):
    pre_txt = spec.get(('prelude', None, None), '')
    har_txt = spec.get(('harness', None, None), '')
    inj_txt = ''.join(v for k, v in spec.items() if k[0] in ('entry', 'head', 'tail', 'pre', 'post', 'at'))
    scan = {
        '__CPROVER_assume in prelude (stub models of callees = assumed contracts)': len(re.findall(r'__CPROVER_assume', pre_txt)),
        '__CPROVER_assume in harness (preconditions of the enforced contract / state construction)': len(re.findall(r'__CPROVER_assume', har_txt)),
        '__CPROVER_assume in blocks injected into extracted bodies (must be 0: only GV_INST may assume)': len(re.findall(r'__CPROVER_assume', inj_txt)),
        'GV_INST instantiations of stated structure preconditions in injected blocks': len(re.findall(r'\bGV_INST\s*\(', inj_txt)),
    }
    fires['__assume_scan__'] = scan
    return info, fires, text
