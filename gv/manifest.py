#!/usr/bin/env python3
"""Regenerate /verif/MANIFEST.json from the table below (kept here so that the manifest is always valid)."""
import json
import os

VERIF = os.path.dirname(os.path.dirname(os.path.abspath(__file__)))

TRUST = ("CBMC 6.11 (C front end, pointer/IEEE-754 models; back ends: portfolio MiniSat | CaDiCaL, cvc5 1.0 for floating-point value identities, z3 for integer/real lemmas -- the evidence names the one that answered each check); lowering rules of DESIGN.md 4.1; "
         "callee contracts used at call sites are verified separately or listed as assumed in the evidence; "
         "malloc does not fail; Index=int, Float=double")

CLAIMED = {
    'C16': dict(
        category='proof',
        text='CBMC code contracts enforced per function on bodies extracted from /repo on every run. '
             'Envelope::{lowerSolve,diagonalSolve,upperSolve,element,cholDec,copy,set(bands)} are memory-safe and framed for all '
             'well-formed profiles (symbolic dimension up to 1e6, loop contracts, no unwinding), copy and set(bands) ESTABLISH the profile '
             "invariant (set(sparse matrix, graph, ordering) is NOT under contract: its accumulation nest needs 'the envelope covers every "
             "product of a row', unproved), diagonalSolve writes exact zeros on zero pivots, cholDec leaves every pivot (row 1 included) "
             'either exactly 0 or >= tol and counts the zeroed ones in defect_; Envelope::inverse: unbounded structural proof (thorough '
             'tier). SparseMatrix new_row/add_element/transpose/replicate keep the CRS invariant and every entry; inverse_permutaion gives '
             'invp(perm(i)) = i; BlockDiagonal/UpperBlockDiagonal row layout. Bounded, labelled as such: RCM output is a permutation (all '
             'graphs <= 3 nodes quick, 4 nodes thorough), SparseMatrixGraph constructor, connected() == Warshall closure (<= 3/4 nodes), '
             "exact LDL'/solve/inverse on dim <= 3. Numerical equality with dense LDL' for arbitrary reals and RCM quality are NOT decided.",
        design_ref='DESIGN.md 5 (C16)',
        note=TRUST,
        technique='contract-based deductive verification (CBMC dfcc function + loop contracts on extracted code)'),
    'C04': dict(
        category='proof',
        text='Induction over call histories: representation invariant + one contract per public method, each checked by CBMC '
             'from an ARBITRARY invariant-satisfying state. MoveToFront<3>::get has a full functional contract (route P on the '
             'unmodified header and route X on the extracted body). AdjEnvelope: stage/flag discipline and cache coherence '
             '(every cached vector is the vector its key denotes under the current regularisation; q_xx/q0_xx consume only such '
             'vectors, in the right index space), min_x* invalidate, reset returns to the initial abstract state. '
             'Numerical equality of two floating-point evaluation orders is not decided.',
        design_ref='DESIGN.md 5 (C04)',
        note=TRUST + '; numeric stages (solve_x0, solve_x, T_row, Envelope kernels, Vec payload) are stubs with assumed contracts '
             'that carry ghost tags (listed in the evidence trusted_base)',
        technique='contract-based deductive verification (CBMC dfcc contracts + representation invariant + ghost tags)'),
    'C11': dict(
        category='proof',
        text='GKF parser automaton under contract, loop-free hence complete: for all 30 states x 20 tags startElement/endElement keep the '
             'state in range, the error state is absorbing, ENTERING the error state always records an error code and the current line '
             '(located diagnostic), the target state is the one the schema prescribes; process_cov accepts exactly usable (dim, band) pairs '
             'whose element count fits an int, finish_cov writes each band position exactly once and refuses too few / too many / malformed '
             'elements; numeric literal recognisers equal their grammar for all strings up to 8 bytes and gate atof/atoi (no out-of-range '
             'conversion); CoreParser::error: first error wins; the <cov-mat>/<dim>/<band>/<flt>/<point> handlers of the adjustment-results '
             'reader never write outside the covariance block, refuse impossible dimensions with a located error and compare only defined '
             'iterators. expat, the remaining attribute handlers process_* (assumed contracts, syntactically guarded) and '
             'sanitizer-cleanliness of the whole process are not decided.',
        design_ref='DESIGN.md 5 (C11)',
        note=TRUST + '; 23 process_*/finish_* handlers enter through assumed contracts listed in the evidence',
        technique='contract-based deductive verification (CBMC dfcc contracts on the extracted automaton, all state/tag pairs)'),
    'C20': dict(
        category='proof',
        text='Per-solver flag bookkeeping: AdjEnvelope::lindep(i) is true iff the pivot of row invp(i) of the factorised envelope is zero '
             'under an arbitrary symbolic permutation (caller numbering), defect() is the number of zeroed pivots (Envelope::cholDec '
             'contract, all rows); AdjCholDec/AdjGSO/AdjSVD lindep/defect answer only after solve(); AdjCholDec::solve: one iteration of '
             'the symmetric-pivoting loop keeps perm a permutation, moves the selected node to the pivot position, keeps every '
             'mat(perm(.),perm(.)) index in range and sets nullity = N - (accepted pivots) (thorough, unbounded); lindep(n) is true iff '
             "nullity > 0 and the position of n in the pivot order is beyond N - nullity, n in the CALLER's numbering, and the flagged set "
             'is exactly perm({N0+1..N}) (that this set has nullity elements is the pigeonhole step, confirmed by counting for N <= 3 in '
             'the bounded whole-function check, which also decides invp(perm(k)) = k); every later perm/invp/N0-indexed access of solve() '
             'is in range; BadRegularization is raised only with is_solved set and x = x0; ICGS: lindep_columns is rebuilt by every icgs1, '
             'the regularisation subset is exactly the list last given, error() reports a subset that does not resolve the defect; '
             'SVD::min_subset_x raises BadRegularization iff defect > number of constrained unknowns; LocalNetwork::null_space removes '
             'exactly the owner of the first flagged unknown with the matching reason; LocalNetwork::singular_coords removes a free point '
             'iff its x/y columns are (anti)parallel or one is zero (symmetric in the sign of the dot product, no NaN). KNOWN FINDING '
             "(printed, not suppressed elsewhere): SVD::lindep(i) tests the i-th singular value. 'Truly linearly dependent' (numerical "
             'rank), non-spanning subsets and identical removals across algorithms are not decided.',
        design_ref='DESIGN.md 5 (C20)',
        note=TRUST + '; the count clause composes two machine-checked contracts by a bijection argument that is not itself machine-checked',
        technique='contract-based deductive verification (CBMC dfcc contracts with ghost permutation)'),
    'C05': dict(
        category='proof',
        text='All thirteen LocalLinearization members (direction, distance, angle, azimuth, s_distance, z_angle, h_diff, x, y, z, xdiff, '
             'ydiff, zdiff) with the getters they call, both bearing_distance overloads and PointData::xNorthAngle are extracted and put '
             'under contract; libm enters as SYMBOLS (S = sin s, C = cos s, d = sqrt(..), atan2/acos values chosen by the harness, '
             'arguments recorded). Per function: (structure, SAT) size and the index set are exactly the free coordinates / orientation the '
             'observable depends on, each once; unknown indices are assigned on first use, consecutively above maxn, assigned ones are left '
             'alone; frame; the two reduction loops terminate and land in the half-open range [-200, 200) gon for misclosures up to 3 '
             'circles; (values, cvc5) every coefficient and the right-hand side are IDENTICAL as floating-point terms to the hand-derived '
             'partial derivative / misclosure written over S, C, d, dz (sign, scale 10*R2G/d, mm/cc units, second-face zenith readings '
             'negated), and sqrt/atan2/acos receive dy^2+dx^2, (dy,dx), dz/sd. Bounded (labelled): one concrete geometry per type evaluated '
             'through the extracted code. LocalNetwork::project_equations (unit project_equations): before every formation all indices of '
             'every active point and every orientation are reset to 0, so that -- composed with one real linearisation step from arbitrary '
             'stale indices -- a row never uses a stale column; the unknowns_ table gets, for every non-zero index, the entry of the '
             'coordinate that holds it (each write in range, also for points with only one plane index); refine_approx_coordinates adds to '
             'each coordinate the correction of ITS OWN unknown. That libm computes the mathematical functions, that every map/list element '
             'is visited (by reading), and the TestLinearization second computation are not decided.',
        design_ref='DESIGN.md 5 (C05)',
        note=TRUST + '; cvc5 1.0 for the value identities (SAT back ends cannot equate two multiplier circuits); sin, cos, sqrt, atan2, acos are uninterpreted symbols with |S|,|C| <= 1, d >= 0, atan2 in [-pi, pi]; the PointData map is a three-element array of points',
        technique='contract-based deductive verification (CBMC dfcc function + loop contracts on the extracted linearisation code; hand-derived Jacobian as postcondition)'),
    'C10': dict(
        category='proof',
        text='Partial: the DISCRETE mechanisms of the property are under contract, its numerical core is not. (proof) Cluster::activeCov '
             'returns exactly the sub-matrix of the currently active observations: dimension = live sum of active dimensions (independent '
             'of the cached counters), band = min(band, N-1), every result cell inside the band equals the full-matrix element at the '
             'positions of the two active components, every dropped cell is a structural zero of the full band; memory safe for all list '
             'lengths <= 1e6, all active/passive patterns, dimensions 1..3, any band; Cluster::update counts observations, dimension and '
             'stored elements; GKFparser::process_cov accepts exactly usable (dim, band) pairs and refuses the rest with a located error, '
             'finish_cov writes every position of the announced band exactly once in the documented order and refuses too few / too many / '
             'malformed elements. CovMat::cholDec (the positive-definiteness test behind every parser check and behind the dense '
             'algorithms) refuses a matrix IF AND ONLY IF it meets a pivot that is not greater than its tolerance -- negative, zero and NaN '
             'pivots alike -- and on normal return every pivot is > tolerance >= 0, for all dimensions and band widths (unbounded loop '
             'contracts, unit covmat_proof). NOT decided: equivalence of the cluster with its whitened reformulation and agreement between '
             'algorithms (numerical); the CALLS of that test and the dim == number-of-observations test in finish_obs / finish_hdiffs / '
             'Homogenization::run (try/catch and std containers, outside the extractor: their repairs are demonstrated natively only, '
             'demos/C10_*).',
        design_ref='DESIGN.md 5 (C10), 10.8',
        note=TRUST + '; std::list iteration of the cluster is lowered by unit rules to a walk over an array of observation records (loop bodies are the repository text); CovMat element access enters through the index contracts verified in unit matvec_index; observation dimension() is a per-object constant 1..3 (checked syntactically on every run)',
        technique='contract-based deductive verification (CBMC dfcc function + loop contracts with ghost prefix sums; z3 integer lemmas for the stored-element count)'),
    'C09': dict(
        category='proof',
        text='LocalNetwork statistics under contract (extracted bodies, stubs for the adjustment stages, sqrt/atan2/Normal/Student): '
             'degrees_of_freedom = rows - cols + defect; m_0 a posteriori is the one sqrt of the recorded quotient vPv/dof (0 for dof <= '
             '0); conf_int_coef calls Normal iff the reference deviation is a priori, Student(.., dof) iff a posteriori with dof > 0; '
             'conf_pr accepts exactly (0,1); stdev = m0 * sqrt(cofactor) read only from a current adjustment; error ellipse: call/sign '
             'structure by CBMC, the eigen-decomposition identities by z3 over the reals on the extracted statement text; tail of '
             'vyrovnani_: weights p = (m0/stdev)^2, sigma_L = m0*sqrt(q_L), residual cofactor 1/p - q_L clamped at 0 exactly, each block '
             'written for its own observation index. Invariance under sigma-apr (two runs) and the text/XML field agreement are not '
             'decided.',
        design_ref='DESIGN.md 5 (C09)',
        note=TRUST + '; assumed contracts for sqrt (monotone, >= 0), atan2 range, Normal/Student (recorded arguments), q_xx as an uninterpreted function',
        technique='contract-based deductive verification (CBMC dfcc contracts; z3 real-arithmetic lemmas on the extracted text)'),
    'C03': dict(
        category='other',
        text='Partial and mixed: (proof) the query layer of AdjEnvelope returns cofactors only from vectors whose ghost tag says they ARE the '
             'cofactor vector asked for (q_xx, q0_xx, q_bb; cache coherence, index spaces), Envelope::element is symmetric, cholDec zeroes and '
             'counts dependent pivots; (bounded, labelled as such in the evidence) in-place LDL\' and the sparse inverse of the real extracted '
             'code equal the dense formulas EXACTLY on exactly representable inputs (dim 2 quick; dim 3, all six row-band shapes, thorough). '
             'N Q N = N for arbitrary real matrices, the projector identities and the XML cov-mat are not decided.',
        design_ref='DESIGN.md 5 (C03)',
        note=TRUST + '; the bounded tier relies on IEEE exactness for small-integer inputs with power-of-two pivots and is never counted as proved',
        technique='contract-based deductive verification (CBMC dfcc contracts with ghost tags) + bounded CBMC check of the extracted kernels on exact inputs'),
    'C14': dict(
        category='proof',
        text='Partial: ONE clause of the property is a per-function statement and is under contract -- "an observation is excluded for a gross '
             'absolute term exactly when its positional misclosure exceeds tol-abs". The positional misclosure m_T [mm] is written by hand per '
             'observation type (lengths: |observed - computed| * 1000; angular types: |b| * sight length / (10*R2G), slope length for the zenith '
             'angle, for an angle the LONGER arm as the documentation says). Proved on the extracted TestAbsTermVisitor (13 visit overloads, '
             'setFromTo, check, value), LocalNetwork::test_abs_term, the flag loop of project_equations and remove_huge_abs_terms: each visit '
             'hands exactly m_T to check; flagged <=> m_T > tol-abs (strictly); the observation tested is revised_obs_[i-1] with its own from/to; '
             'the point map is not modified; an observation is set passive exactly when it is flagged, nothing else is touched. KNOWN FINDING '
             '(printed on every run, not suppressed elsewhere): after project_equations() the test reads the HOMOGENISED right-hand side, so with '
             'non-unit weights removal and listing disagree with the criterion; its repair changes an archived result and was reverted. NOT '
             'decided: everything else in C14 (removed points listed with a reason, equality with the run on the reduced input) relates complete runs.',
        design_ref='DESIGN.md 5 (C13, C14), 10.10',
        note=TRUST + '; sqrt/hypot/fabs enter as symbols with assumed contracts; Vec::operator() through the index contract of unit matvec_index; accept() is a 13-way dispatch stub; which observations survive revision (all points have xy) is checked syntactically on local_revision.cpp on every run',
        technique='contract-based deductive verification (CBMC dfcc contracts; cvc5 for the value identities, SAT for structure; concrete sample companions labelled bounded)'),
    'C15': dict(
        category='proof',
        text='Matrix library under contract: the packed/banded index maps of Vec, Mat, SymMat, CovMat, BandMat (real operator()/operator[] '
             'bodies) are overflow-free and in bounds (CBMC, d <= 2^15 stated) and bijective/symmetric/layout-correct over mathematical '
             'integers (z3, unbounded, on expressions translated mechanically from the extracted text); MemRep keeps its ownership '
             'invariant through every constructor, assignment, move, resize and destructor for all size pairs, copies are independent of '
             'their source, negative sizes raise; CovMat::reset(d,b) yields the requested shape (all index fields and the packed size '
             'belong to (d,b)) from ANY earlier shape; element-wise kernels (scale, add, sub, mul, dot, set_all) raise exactly on '
             'non-conforming operands, stay inside the operands under every aliasing and add/sub are exact element-wise; SVD row tables '
             '(min_x, reset_UWV) are memory-safe; CovMat::cholDec / CovMat::solve / SymMat::cholDec / SymMat::solve (thorough) are '
             'memory-safe, framed and terminate for ALL dimensions and band widths (unbounded loop contracts over opaque row-offset tables '
             'whose closed forms are proved by z3), cholDec refuses exactly the non-positive (or NaN) pivots, solve raises BadRank for a '
             'right-hand side of the wrong dimension. Mat::invert (Gauss-Jordan with full pivoting): every loop body is under contract '
             'block by block for symbolic N <= 2^15 -- the row/column index vectors stay permutations through the pivot swaps, the pivot is '
             'the largest remaining element, Singular is raised exactly for |pivot| <= tol, the permutation-undo steps keep perm/inv_perm '
             'mutually inverse, all accesses in range -- but the check that COMPOSES the blocks for the whole function runs out of memory '
             'and is not registered (partial proof, stated). Bounded only: inv(A) A = I EXACTLY on exact-arithmetic inputs A = P U for ALL '
             'permutations P, d <= 3 (quick; six of the 24 for d = 4 thorough); CovMat::cholDec/solve exact on dim <= 3 (thorough); reset '
             'among shapes <= 8 (quick companion). SVD reconstruction, Moore-Penrose conditions, inv(A)A = I are not decided (floating '
             'point, iterative).',
        design_ref='DESIGN.md 5 (C15)',
        note=TRUST + '; libc memcpy enters through an assumed contract (regions valid and disjoint, contents copied at a ghost index)',
        technique='contract-based deductive verification (CBMC dfcc contracts; z3 integer lemmas on the extracted index expressions)'),
    'C12': dict(
        category='proof',
        text='str2xml under contract (loop contract, input length up to 1e9): the output contains no raw < or >, every & starts one of the '
             'five predefined entities, and each input byte contributes a segment that XML-unescapes to exactly that byte (so the reader '
             'gets the description back); Utf8::length never reads at or beyond length() and counts code points of well-formed UTF-8; the '
             "result reader's <point> handlers start every point from a cleared record (no coordinate or index leaks from the previous "
             'point). gama-local-deformation: the index maps t1/t2 built by GamaLocalDeformation::init pair, entry by entry, the epoch-1 '
             'and epoch-2 covariance positions of the SAME coordinate of the SAME common point (x, y, then z; coordinates adjusted in one '
             'epoch only contribute nothing). Bounded end-to-end round trip for all strings of <= 4 bytes (quick) / 6 bytes (thorough). '
             'That EVERY user string passes through str2xml (point ids are streamed raw), the full reader round trip, agreement with the '
             'HTML/text/Octave outputs, compare-xyz and the numerical part of deformation are not decided.',
        design_ref='DESIGN.md 5 (C12)',
        note=TRUST + '; std::string is lowered to a length-carrying byte buffer whose append model asserts the 6n output bound',
        technique='contract-based deductive verification (CBMC dfcc function + loop contracts on the extracted escaping loop)'),
    'C18': dict(
        category='proof',
        text='Literal recognisers (real intfloat.h through the C++ front end): IsFloat/IsInteger equal the reference automata of the '
             'documented grammars for ALL byte strings up to 8 (quick) / 12 (thorough) bytes, never read outside the buffer, and every '
             '<cctype> argument is in its ISO domain; gon2deg/rad2dms/dms2rad: field ranges (minutes 0..59, seconds < 60 also AFTER '
             'rounding to the printed precision, carry into minutes/degrees), results in the half-open circle; deg2gon: sign and field '
             'validity of sexagesimal literals (a negative literal with zero degrees stays negative); bearing_distance: d >= 0, coincident '
             'points give (0,0) without calling atan2, bearing in [0, 2pi) given an assumed atan2 range; Ellipsoid::xyz2blh on the rotation '
             'axis returns the pole of the right hemisphere. Ellipsoid round trips off the axis (sin/cos/atan chains) and the bearing '
             'antisymmetry itself are not decided.',
        design_ref='DESIGN.md 5 (C18)',
        note=TRUST + '; assumed contracts: sqrt (>= 0, 0 iff 0), atan2 in [-pi, pi], ostream<< rounds half-even at the set precision; isspace/isdigit are the C-locale ASCII classes',
        technique='contract-based deductive verification (CBMC: C++ front end on the real header for all strings up to L; dfcc contracts on extracted angle code)'),
}

NA = {
    'C01': 'optimality of a floating-point least-squares solve up to conditioning is a real-analysis statement; no contract language available here has reals and CBMC cannot bit-blast the solvers beyond 3x3 (DESIGN.md 5/C01)',
    'C02': 'four-way relational numerical agreement between algorithms with different tolerances; not a property of one call or one data structure (its discrete fragments are decided under C16/C20/C04)',
    'C06': 'whole-program convergence of iterated linearisation and approximate-coordinate search; no per-function contract carries it',
    'C07': 'metamorphic relation between two complete runs on two input files; not expressible as a function contract',
    'C08': 'relation between runs with different constraint sets, numerical',
    'C13': 'export -> parse -> adjust fixed point is a whole-program history property',
    'C17': 'accuracy of exp/log/pow based approximations; CBMC has no semantics for transcendental functions, an assumed contract would assume the property',
    'C19': 'whole-program property of gama-g3 (parser + model + linearisation + solver + writer)',
}

NOT_BUILT = 'contract units for this property are not built yet (DESIGN.md 8 build order); not claimed until they run'


def main():
    props = [json.loads(l) for l in open(os.path.join(VERIF, 'properties.jsonl'))]
    checks = []
    na = []
    for p in props:
        pid = p['id']
        if pid in CLAIMED:
            c = CLAIMED[pid]
            checks.append({
                'property_id': pid,
                'quick_cmd': './check %s quick' % pid,
                'thorough_cmd': './check %s thorough' % pid,
                'evidence_file': '/verif/evidence/%s.json' % pid,
                'replay_cmd_template': './check --replay {path}',
                'engine': 'gv',
                'level_claimed': {'category': c['category'], 'text': c['text'], 'design_ref': c['design_ref']},
                'level_note': c['note'],
                'technique': c['technique'],
            })
        else:
            na.append({'property_id': pid, 'reason': NA.get(pid, NOT_BUILT)})
    m = {
        'version': 1,
        'setup_cmd': 'python3 gv/run.py --selftest',
        'hooks': {'guard': 'GAMA_VERIF',
                  'enable': 'none needed: contracts are sidecar files under /verif/units, injected into the text extracted from /repo at check time; no hook code exists in /repo',
                  'baseline_off_cmd': 'cd /repo && cmake --build _build && ctest --test-dir _build -j8 --timeout 900',
                  'source_commits': [], 'add_only': True},
        'engines': [{'name': 'gv', 'path': '/verif/gv/run.py',
                     'serves_properties': sorted(CLAIMED),
                     'kind_free_text': 'extractor (route X) + CBMC 6.11 contract instrumentation driver + z3 integer lemmas + native replay'}],
        'checks': checks,
        'not_applicable': na,
        'notes': 'Technique family: contract-based deductive verification of the real code (CBMC code contracts). '
                 'Bounded stand-ins are labelled bounded in the evidence and never counted as proved. '
                 'Genuine defects repaired by fix: commits are listed in known_findings.txt.',
    }
    json.dump(m, open(os.path.join(VERIF, 'MANIFEST.json'), 'w'), indent=1)
    print('MANIFEST.json written: %d claimed, %d not applicable' % (len(checks), len(na)))


if __name__ == '__main__':
    main()
