// cov-mat dimension vs number of observations in <obs>: parse + adjust through the real classes
#include <gnu_gama/local/network.h>
#include <gnu_gama/xml/gkfparser.h>
#include <gnu_gama/local/language.h>
#include <fstream>
#include <sstream>
#include <iostream>
using namespace GNU_gama::local;
int main(int argc, char** argv)
{
  set_gama_language(en);
  std::ifstream f(argv[1]); std::stringstream ss; ss << f.rdbuf(); std::string s = ss.str();
  LocalNetwork net;
  try {
    GKFparser p(net);
    p.xml_parse(s.c_str(), s.size(), 1);
    std::cout << "accepted by the parser\n";
    net.set_algorithm("gso");
    net.solve();
    std::cout << "adjusted: " << net.degrees_of_freedom() << " degrees of freedom," << " done\n";
  }
  catch (const GNU_gama::Exception::parser& e) { std::cout << "refused: line " << e.line << " : " << e.what() << "\n"; return 3; }
  catch (const GNU_gama::Exception::base& e)   { std::cout << "exception: " << e.what() << "\n"; return 4; }
  catch (...) { std::cout << "unknown exception\n"; return 5; }
  return 0;
}
