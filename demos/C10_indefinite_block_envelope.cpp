#include <gnu_gama/adj/adj.h>
#include <gnu_gama/adj/adj_input_data.h>
#include <cstdio>
#include <cmath>
using namespace GNU_gama;
static AdjInputData* mk(){
  AdjInputData* d = new AdjInputData;
  SparseMatrix<>* S = new SparseMatrix<>(4, 3, 2);
  S->new_row(); S->add_element(1,1);
  S->new_row(); S->add_element(1,2);
  S->new_row(); S->add_element(1,1); S->add_element(1,2);
  d->set_mat(S);
  BlockDiagonal<>* bd = new BlockDiagonal<>(2, 4);
  double b1[3] = {1, 2, 1};          // block [[1,2],[2,1]] : indefinite (band 1, dim 2)
  bd->add_block(2, 1, b1);
  double b2[1] = {1};
  bd->add_block(1, 0, b2);
  d->set_cov(bd);
  Vec<> rhs(3); rhs(1)=1; rhs(2)=2; rhs(3)=3.1; d->set_rhs(rhs);
  return d;
}
int main(){
  const char* names[4] = {"envelope","gso","svd","cholesky"};
  Adj::algorithm algs[4] = {Adj::envelope, Adj::gso, Adj::svd, Adj::cholesky};
  int accepted = 0;
  for (int k=0;k<4;k++){
    Adj adj; adj.set_algorithm(algs[k]); adj.set(mk());
    try { const Vec<>& x = adj.x(); std::printf("%-9s: ACCEPTED the indefinite covariance block, x = %g %g\n", names[k], x(1), x(2)); accepted++; }
    catch (const Exception::matvec& e) { std::printf("%-9s: refused, matvec error %d (%s)\n", names[k], e.error(), e.what()); }
    catch (...) { std::printf("%-9s: refused (other exception)\n", names[k]); }
  }
  return accepted ? 1 : 0;
}
