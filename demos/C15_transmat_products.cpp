#include <matvec/matvec.h>
#include <matvec/transmat.h>
#include <cmath>
#include <cstdio>
using namespace GNU_gama;
template <class M> static void fill(M& A, int seed) { for (int i=1;i<=A.rows();i++) for (int j=1;j<=A.cols();j++) A(i,j) = ((i*7 + j*3 + seed) % 11) - 5; }
int main()
{
  int bad = 0;
  for (int m=1;m<=4;m++) for (int k=1;k<=4;k++) for (int n=1;n<=4;n++) {
    Mat<> A(k,m), B(n,k);                 // trans(A) is m x k, trans(B) is k x n
    fill(A,1); fill(B,2);
    Mat<> R;
    try { R = trans(A)*trans(B); } catch (...) { std::printf("trans(%dx%d)*trans(%dx%d): exception\n",k,m,n,k); bad++; continue; }
    double err = 0; bool shape = R.rows()==m && R.cols()==n;
    if (shape) for (int i=1;i<=m;i++) for (int j=1;j<=n;j++) { double s=0; for (int l=1;l<=k;l++) s += A(l,i)*B(j,l); err = std::fmax(err, std::fabs(s-R(i,j))); }
    if (!shape || err > 1e-12) { if (bad < 4) std::printf("trans(%dx%d)*trans(%dx%d): result %dx%d, max error %g\n",k,m,n,k,(int)R.rows(),(int)R.cols(),err); bad++; }
  }
  for (int m=1;m<=4;m++) for (int n=1;n<=4;n++) {
    Mat<> A(n,m); fill(A,3);              // trans(A) is m x n ; v (m) * trans(A) -> n
    Vec<> v(m); for (int i=1;i<=m;i++) v(i) = i-2;
    Vec<> r;
    try { r = v*trans(A); } catch (...) { std::printf("Vec(%d)*trans(%dx%d): exception\n",m,n,m); bad++; continue; }
    double err=0; bool shape = r.dim()==n;
    if (shape) for (int j=1;j<=n;j++) { double s=0; for (int i=1;i<=m;i++) s += v(i)*A(j,i); err = std::fmax(err, std::fabs(s-r(j))); }
    if (!shape || err > 1e-12) { if (bad < 8) std::printf("Vec(%d)*trans(%dx%d): result dim %d (expected %d), max error %g\n",m,n,m,(int)r.dim(),n,err); bad++; }
  }
  std::printf("%d wrong products\n", bad);
  return bad != 0;
}
