#include <gnu_gama/ellipsoid.h>
#include <gnu_gama/ellipsoids.h>
#include <cmath>
#include <cstdio>
using namespace GNU_gama;
int main()
{
  int bad = 0;
  for (int id = 0; id < 100; id++) {
    Ellipsoid e;
    if (set(&e, gama_ellipsoid(id))) continue;     // unknown id
    for (int s = -1; s <= 1; s += 2) {
      double x, y, z, b, l, h;
      e.blh2xyz(s*M_PI/2, 0.3, 100.0, x, y, z);
      e.xyz2blh(x, y, z, b, l, h);
      bool ok = std::fabs(b - s*M_PI/2) < 1e-9 && std::fabs(h - 100.0) < 1e-3;
      if (!ok) { bad++; std::printf("%-28s pole %+d: x=%.3g y=%.3g z=%.3f -> B=%.17g H=%.17g\n", gama_ellipsoid_caption[id], s, x, y, z, b, h); }
    }
  }
  std::printf("%d pole round trips fail\n", bad);
  return bad != 0;
}
