#include <gnu_gama/latlong.h>
#include <cmath>
#include <cstdio>
#include <string>
int main()
{
  int bad = 0;
  const double cases[] = { (10 + 59/60.0 + 59.99999999/3600.0), (0 + 0/60.0 + 59.9996/3600.0), -(45 + 59/60.0 + 59.99996/3600.0), (89 + 59/60.0 + 59.999999/3600.0) };
  const int precs[] = { 7, 3, 4, 2 };
  for (int k = 0; k < 4; k++) {
    std::string s = GNU_gama::latitude(cases[k]*M_PI/180, precs[k]);
    // seconds field = text after the second '-' separator that follows a digit
    std::string::size_type p = s.rfind('-');
    double sec = std::stod(s.substr(p + 1));
    int min = std::stoi(s.substr(p - 2, 2));
    bool wrong = sec >= 60 || min >= 60;
    std::printf("latitude(%.10f deg, prec %d) = \"%s\"%s\n", cases[k], precs[k], s.c_str(), wrong ? "   <-- seconds field is 60" : "");
    if (wrong) bad++;
  }
  std::printf("%d of 4 outputs carry an invalid field\n", bad);
  return bad != 0;
}
