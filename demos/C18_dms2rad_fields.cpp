#include <gnu_gama/gon2deg.h>
#include <cmath>
#include <cstdio>
int main()
{
  // d.mmss literals: degrees + minutes/100 + seconds/10000
  int bad = 0, n = 0;
  for (int d = 0; d < 360; d += 7)
    for (int m = 0; m < 60; m++)
      for (int s = 0; s < 60; s += 1) {
        double dms = d + m/100.0 + s/10000.0;
        double want = (d + m/60.0 + s/3600.0) * M_PI/180;
        double got = GNU_gama::dms2rad(dms);
        n++;
        if (std::fabs(got - want) > 1e-9) { if (bad < 4) std::printf("dms2rad(%.4f) = %.12f rad, expected %.12f (off by %.1f\")\n", dms, got, want, (got-want)*180/M_PI*3600); bad++; }
      }
  std::printf("%d of %d d.mmss values decoded wrongly\n", bad, n);
  double r = GNU_gama::dms2rad(0.29);
  std::printf("dms2rad(0.29) = %.10f deg (29' is %.10f)\n", r*180/M_PI, 29/60.0);
  return bad != 0;
}
