/* Sidecar contracts for LocalNetwork::remove_inconsistency / return_inconsistency (lib/gnu_gama/local/network.cpp).
   Property C05 quantifies over "any axes orientation/handedness": an inconsistent combination of axes and angle
   handedness is adjusted in the mirrored system (y -> -y for points and Y / Ydiff observations) and mirrored back for
   output.  Whatever the HISTORY of calls (C04), the data must be mirrored exactly when the object says so:

       I:  the mirror has been applied an odd number of times  <=>  removed_inconsistency_

   (otherwise observations measured clockwise are linearised with counter-clockwise bearings: wrong signs in the design
   matrix).  Contract of each function, from an ARBITRARY state satisfying I:
     remove: mirrors once and sets the flag iff the system is inconsistent and not yet mirrored; otherwise nothing;
     return: mirrors once and clears the flag iff the flag is set; otherwise nothing -- in particular a call with
             nothing to return does NOT mirror.
   Both keep I; both call consistent() at most once and never change its answer.                                  */

//@ prelude
#include <stdbool.h>
int gv_exc;
struct LocalNetwork {
  bool removed_inconsistency_;
  bool gv_consistent;     /* ghost: the answer of consistent() in this state */
  bool gv_mirrored;       /* ghost: parity of the number of mirrorings applied so far */
  int  gv_mirror_calls;   /* ghost: mirrorings applied by THIS call */
};
#define INV(N) ((N)->gv_mirrored == (N)->removed_inconsistency_)
static bool LocalNetwork_consistent(const struct LocalNetwork *self) { return self->gv_consistent; }
static void LocalNetwork_change_y_signs(struct LocalNetwork *self)
{
  self->gv_mirrored = !self->gv_mirrored;
  self->gv_mirror_calls = self->gv_mirror_calls + 1;
}
//@ end

//@ contract LocalNetwork_remove_inconsistency
__CPROVER_requires(__CPROVER_rw_ok(self, sizeof(*self)) && INV(self) && self->gv_mirror_calls == 0)
__CPROVER_assigns(self->removed_inconsistency_, self->gv_mirrored, self->gv_mirror_calls)
__CPROVER_ensures(INV(self))
__CPROVER_ensures((!self->gv_consistent && !__CPROVER_old(self->removed_inconsistency_))
                  ? (self->gv_mirror_calls == 1 && self->removed_inconsistency_)
                  : (self->gv_mirror_calls == 0 && self->removed_inconsistency_ == __CPROVER_old(self->removed_inconsistency_)))
//@ entry LocalNetwork_remove_inconsistency
GV_CANARY("LocalNetwork_remove_inconsistency entry");
//@ end

//@ contract LocalNetwork_return_inconsistency
__CPROVER_requires(__CPROVER_rw_ok(self, sizeof(*self)) && INV(self) && self->gv_mirror_calls == 0)
__CPROVER_assigns(self->removed_inconsistency_, self->gv_mirrored, self->gv_mirror_calls)
__CPROVER_ensures(INV(self))
__CPROVER_ensures(__CPROVER_old(self->removed_inconsistency_)
                  ? (self->gv_mirror_calls == 1 && !self->removed_inconsistency_)
                  : (self->gv_mirror_calls == 0 && !self->removed_inconsistency_))
//@ entry LocalNetwork_return_inconsistency
GV_CANARY("LocalNetwork_return_inconsistency entry");
//@ end

//@ harness
static void mk(struct LocalNetwork *N)
{
  __CPROVER_assume(INV(N));
  N->gv_mirror_calls = 0;
}
void h_remove(void) { struct LocalNetwork N; mk(&N); LocalNetwork_remove_inconsistency(&N); GV_CANARY("h_remove end"); }
void h_return(void) { struct LocalNetwork N; mk(&N); LocalNetwork_return_inconsistency(&N); GV_CANARY("h_return end"); }
//@ end
