/* Sidecar contracts for the REGULARISATION STATE of SVD<double,int> (lib/matvec/svd.h)          properties C04 (and the C20 boundary clause)

     the tail of SVD::svd()            `decomposed = 1; set_inv_W(); if (defect > 0) { minV = V_; if (minx == subset) min_subset_x(); }`
                                       (the braced block is extracted; the header statements are part of the matched header text)
     SVD::min_x()                      back to "regularise on all unknowns"
     SVD::min_x(Index n, Index list[]) regularise on a subset of the unknowns
     SVD::min_subset_x()               guard (defect == 0: nothing; defect > n_min: BadRegularization) + the re-orthogonalisation sweep
     SVD::reset(A), reset(A, w), clear()
     SVD::tol(Float)                   (thorough tier; FAILS on the tree: finding, exclusion predicate GV_EXCL_SVD_TOL_AFTER_DECOMPOSITION)

   GHOST TAGS.  The payload of a matrix is opaque here; every Mat carries a ghost tag saying WHICH mathematical object its payload is:
       T_NONE   not a result of the current decomposition
       T_RAW    the right singular vectors exactly as the decomposition of the CURRENT input (ghost gv_dec) produced them.  This is also
                the answer for minx == all: the pseudo-inverse built from the raw V is the minimum-norm solution over all unknowns and no
                code path transforms V for minx == all  ("REG_ALL" == RAW).
       T_REG    V regularised on the subset list of request epoch gv_ep (ghost SVD::gv_epoch counts the calls of min_x(n, list))
       T_PART   a regularisation sweep was started on it and aborted by BadRegularization (neither raw nor regularised)
   The decomposition (not under contract: Golub-Reinsch sweep, stub = harness of svd_tail) produces T_RAW; `A = B` between matrices copies
   the tag; the sweep inside min_subset_x turns T_RAW into T_REG(current epoch) and ASSERTS at its start that it is given T_RAW.

   REPRESENTATION INVARIANT
       INV_BASE:  shapes; the request is well-formed (minx == subset ==> a list exists);
                  decomposed && defect != 0  ==>  tag(minV) == RAW of the current decomposition      "the saved copy is the UNREGULARISED V"
       INV_TAGS:  decomposed ==> tag(V_) == (defect != 0 && minx == subset ? REG(current epoch) : RAW)   "V_ matches the current minx/list"
       INV_TAGW:  as INV_TAGS, but after a BadRegularization RAW / PART are tolerated in subset mode (LocalNetwork::null_space relies on
                  defect()/lindep() being answerable after the exception, so `decomposed` stays set).
   Every function is checked from an ARBITRARY state satisfying INV_BASE && INV_TAGW; it must re-establish INV_BASE, and INV_TAGS whenever it
   returns normally.  "What a fresh object would hold": a fresh object with the same request goes decomposition -> RAW -> svd_tail, whose
   contract yields exactly INV_TAGS; so INV_TAGS after min_x() / min_x(n, list) is the C04 clause.
   Only contracts, ghost declarations, stubs and harnesses live here; the bodies are extracted from /repo on every run. */

//@ prelude
typedef double Float;
typedef int Index;
#define Float(...) ((double)(__VA_ARGS__ + 0))
#define Index(...) ((int)(__VA_ARGS__ + 0))
#define MAXDIM 1000000
#define MAXEPOCH 1000000000000L

int gv_exc;
Index gv_k0;     /* ghost index (forall-introduction over list entries) */

enum { T_NONE, T_RAW, T_REG, T_PART };
/* matvec storage, value-opaque: shape + begin() + ghost length of the block + ghost tag */
struct Mat  { Index rows, cols; Float *p; long gv_len; int gv_kind; long gv_dec; long gv_ep; };
struct VecF { Index dim; Float *p; };
enum { all, subset };

struct SVD {
  Index m, n;
  struct Mat  U_;
  struct VecF W_;
  struct Mat  V_;
  Index decomposed;
  Float W_tol;
  struct VecF inv_W_;
  int minx;
  Index defect;
  Index n_min;
  Index *list_min;
  struct Mat minV;
  Float *W;
  Float *inv_W;
  Float **U;
  Float **V;
  /* ghost */
  long gv_dec;      /* identity of the current input: bumped by reset(A) / clear() */
  long gv_epoch;    /* identity of the current subset request: bumped by min_x(n, list) */
};

#define OLD(e) __CPROVER_old(e)
#define MAT_OK(M) ((M)->gv_len >= 0 && (M)->gv_len <= (long)MAXDIM * 64 && (M)->rows >= 0 && (M)->rows <= MAXDIM && (M)->cols >= 0 && (M)->cols <= MAXDIM && \
                   ((M)->gv_len == 0 ? (M)->p == NULL : __CPROVER_rw_ok((M)->p, (size_t)(M)->gv_len * sizeof(Float))))
#define VEC_OK(v) ((v)->dim >= 0 && (v)->dim <= MAXDIM && ((v)->dim == 0 ? (v)->p == NULL : __CPROVER_rw_ok((v)->p, (size_t)(v)->dim * sizeof(Float))))
#define LIST_OK(s) ((s)->list_min != NULL && (s)->n_min >= 0 && (s)->n_min <= MAXDIM && __CPROVER_rw_ok((s)->list_min, (size_t)(s)->n_min * sizeof(Index)))
#define REQ_OK(s)  (((s)->minx == all || (s)->minx == subset) && ((s)->list_min == NULL || LIST_OK(s)) && ((s)->minx != subset || (s)->list_min != NULL))
#define VTAB_OK(s) (__CPROVER_rw_ok((s)->V, ((size_t)(s)->n + 1) * sizeof(Float *)))
#define UTAB_OK(s) (__CPROVER_rw_ok((s)->U, ((size_t)(s)->m + 1) * sizeof(Float *)))
#define SHAPE_OK(s) (0 <= (s)->n && (s)->n <= MAXDIM && 0 <= (s)->m && (s)->m <= MAXDIM &&                                            \
                     MAT_OK(&(s)->U_) && MAT_OK(&(s)->V_) && MAT_OK(&(s)->minV) && VEC_OK(&(s)->W_) && VEC_OK(&(s)->inv_W_) &&          \
                     (s)->U_.rows == (s)->m && (s)->U_.cols == (s)->n && (s)->V_.rows == (s)->n && (s)->V_.cols == (s)->n &&            \
                     (s)->W_.dim == (s)->n && (s)->inv_W_.dim == (s)->n &&                                                             \
                     ((s)->V == NULL ? !(s)->decomposed : VTAB_OK(s)) && ((s)->U == NULL ? !(s)->decomposed : UTAB_OK(s)) &&             \
                     (!(s)->decomposed || (0 <= (s)->defect && (s)->defect <= (s)->n)))
/* ghost counters stay far from overflow: fewer than 1e12 resets / subset requests per object (precondition only) */
#define EPOCH_OK(s) (0 <= (s)->gv_dec && (s)->gv_dec < MAXEPOCH && 0 <= (s)->gv_epoch && (s)->gv_epoch < MAXEPOCH)
#define V_IS(s, k)  ((s)->V_.gv_kind == (k) && (s)->V_.gv_dec == (s)->gv_dec)
#define V_RAW(s)    V_IS(s, T_RAW)
#define V_REG(s)    (V_IS(s, T_REG) && (s)->V_.gv_ep == (s)->gv_epoch)
#define MINV_RAW(s) ((s)->minV.gv_kind == T_RAW && (s)->minV.gv_dec == (s)->gv_dec && (s)->minV.rows == (s)->n && (s)->minV.cols == (s)->n && \
                     (s)->minV.gv_len == (s)->V_.gv_len)
#define INV_BASE(s) (SHAPE_OK(s) && REQ_OK(s) && (!((s)->decomposed && (s)->defect != 0) || MINV_RAW(s)))
#define NEEDS_REG(s) ((s)->defect != 0 && (s)->minx == subset)
#define INV_TAGS(s) (!(s)->decomposed || (NEEDS_REG(s) ? V_REG(s) : V_RAW(s)))
#define INV_TAGW(s) (!(s)->decomposed || (NEEDS_REG(s) ? (V_REG(s) || V_RAW(s) || V_IS(s, T_PART)) : V_RAW(s)))
#define V_TAG_KEPT(s) ((s)->V_.gv_kind == OLD((s)->V_.gv_kind) && (s)->V_.gv_dec == OLD((s)->V_.gv_dec) && (s)->V_.gv_ep == OLD((s)->V_.gv_ep))

static inline Float *gv_mat_begin(const struct Mat *M) { return M->p; }
static inline Index gv_mat_rows(const struct Mat *M) { return M->rows; }
static inline Index gv_mat_cols(const struct Mat *M) { return M->cols; }
/* Mat::operator=(const Mat&) as MemRep::operator= does it (memrep.h): shape copied; same length: elements copied in place; other length: a new
   block (nullptr if the source is empty).  The element values are opaque; WHICH object they are travels with the ghost tag. */
static inline void gv_mat_assign(struct Mat *d, const struct Mat *s)
{
  if (d == s) return;
  d->rows = s->rows;
  d->cols = s->cols;
  d->gv_kind = s->gv_kind; d->gv_dec = s->gv_dec; d->gv_ep = s->gv_ep;
  if (d->gv_len == s->gv_len) return;
  d->gv_len = s->gv_len;
  if (s->gv_len > 0) { d->p = malloc((size_t)s->gv_len * sizeof(Float)); __CPROVER_assume(d->p != NULL); }
  else d->p = NULL;
}
/* Mat::reset(r, c) / reset(): a block for r*c elements (length opaque, empty iff a dimension is 0); the payload is no result of anything */
static inline void gv_mat_reset(struct Mat *M, Index r, Index c)
{
  __CPROVER_assert(r >= 0 && c >= 0 && r <= MAXDIM && c <= MAXDIM, "Mat::reset(r, c): 0 <= r, c");
  long len;
  __CPROVER_assume(0 <= len && len <= (long)MAXDIM * 64 && ((r == 0 || c == 0) == (len == 0)));
  M->rows = r; M->cols = c; M->gv_len = len;
  if (len > 0) { M->p = malloc((size_t)len * sizeof(Float)); __CPROVER_assume(M->p != NULL); } else M->p = NULL;
  M->gv_kind = T_NONE;
}
static inline void gv_mat_reset0(struct Mat *M) { M->rows = 0; M->cols = 0; M->gv_len = 0; M->p = NULL; M->gv_kind = T_NONE; }
static inline void gv_vec_reset(struct VecF *v, Index n)
{
  __CPROVER_assert(n >= 0 && n <= MAXDIM, "Vec::reset(n): 0 <= n");
  v->dim = n;
  if (n > 0) { v->p = malloc((size_t)n * sizeof(Float)); __CPROVER_assume(v->p != NULL); } else v->p = NULL;
}
static inline void gv_vec_reset0(struct VecF *v) { v->dim = 0; v->p = NULL; }
static inline Float gv_vec_get(const struct VecF *v, Index i)
{
  __CPROVER_assert(1 <= i && i <= v->dim, "Vec::operator(): 1 <= i <= dim");
  Float r; return r;
}
/* element access through the row tables and the 1-based vector views: V[i][j] == V_(i,j), U[i][j] == U_(i,j), inv_W[k] == inv_W_(k).
   Value-opaque (every access yields a fresh symbolic value); the well-formedness of the tables themselves is the subject of units/svd_minx. */
Float gv_vcell;
static inline Float *gv_Vat(const struct SVD *self, Index i, Index j)
{
  __CPROVER_assert(self->V != NULL, "V[i][j]: the row table of V exists");
  __CPROVER_assert(1 <= i && i <= self->n && 1 <= j && j <= self->n, "V[i][j] == V_(i,j): 1 <= i, j <= n");
  Float v; gv_vcell = v; return &gv_vcell;
}
static inline Float *gv_Uat(const struct SVD *self, Index i, Index j)
{
  __CPROVER_assert(self->U != NULL, "U[i][j]: the row table of U exists");
  __CPROVER_assert(1 <= i && i <= self->m && 1 <= j && j <= self->n, "U[i][j] == U_(i,j): 1 <= i <= m, 1 <= j <= n");
  Float v; gv_vcell = v; return &gv_vcell;
}
static inline Float gv_invW(const struct SVD *self, Index k)
{
  __CPROVER_assert(1 <= k && k <= self->inv_W_.dim, "inv_W[k] == inv_W_(k): 1 <= k <= dim");
  Float v; return v;
}
static inline Float gv_sqrt_total(Float x) { Float r; return r; }   /* IEEE sqrt is total (NaN for negative / NaN arguments); value opaque */

/* reset_UWV(): ASSUMED contract, the one proved on the real body in units/svd_minx (check reset_UWV): fresh tables of m+1 / n+1 row pointers */
void SVD_reset_UWV(struct SVD *self)
__CPROVER_requires(0 <= self->n && self->n <= MAXDIM && 0 <= self->m && self->m <= MAXDIM && MAT_OK(&self->V_) && MAT_OK(&self->U_))
__CPROVER_requires(self->U == NULL || __CPROVER_rw_ok(self->U, sizeof(Float *)))
__CPROVER_requires(self->V == NULL || __CPROVER_rw_ok(self->V, sizeof(Float *)))
__CPROVER_assigns(self->W, self->inv_W, self->U, self->V)
__CPROVER_frees(self->U, self->V)
__CPROVER_ensures(__CPROVER_is_fresh(self->V, ((size_t)self->n + 1) * sizeof(Float *)) && __CPROVER_is_fresh(self->U, ((size_t)self->m + 1) * sizeof(Float *)))
;

/* set_inv_W(): ASSUMED contract (numeric body, not under contract): recounts the singular values below W_tol * max -- any count in [0, n] */
void SVD_set_inv_W(struct SVD *self)
__CPROVER_requires(0 <= self->n && self->n <= MAXDIM)
__CPROVER_assigns(self->defect, self->W_tol, gv_vcell)
__CPROVER_ensures(0 <= self->defect && self->defect <= self->n)
;

/* arbitrary SVD object satisfying INV_BASE && INV_TAGW */
static void gv_mk_mat(struct Mat *M)
{
  long len;
  __CPROVER_assume(0 <= len && len <= (long)MAXDIM * 64);
  M->gv_len = len;
  M->p = len == 0 ? NULL : malloc((size_t)len * sizeof(Float));
  __CPROVER_assume(len == 0 || M->p != NULL);
}
static void gv_mk_vec(struct VecF *v)
{
  __CPROVER_assume(0 <= v->dim && v->dim <= MAXDIM);
  v->p = v->dim == 0 ? NULL : malloc((size_t)v->dim * sizeof(Float));
  __CPROVER_assume(v->dim == 0 || v->p != NULL);
}
static void mk_svd(struct SVD *S)
{
  _Bool notabv, notabu, nolist;
  gv_mk_mat(&S->U_); gv_mk_mat(&S->V_); gv_mk_mat(&S->minV); gv_mk_vec(&S->W_); gv_mk_vec(&S->inv_W_);
  __CPROVER_assume(0 <= S->n && S->n <= MAXDIM && 0 <= S->m && S->m <= MAXDIM && 0 <= S->n_min && S->n_min <= MAXDIM);
  S->V = notabv ? NULL : malloc(((size_t)S->n + 1) * sizeof(Float *));
  S->U = notabu ? NULL : malloc(((size_t)S->m + 1) * sizeof(Float *));
  __CPROVER_assume((notabv || S->V != NULL) && (notabu || S->U != NULL));
  S->list_min = nolist ? NULL : malloc((size_t)S->n_min * sizeof(Index));
  __CPROVER_assume(nolist || S->list_min != NULL);
  gv_exc = 0;
  __CPROVER_assume(INV_BASE(S) && INV_TAGW(S) && EPOCH_OK(S));
}
//@ end

/* ------------------------------------------------------------------------------------------------------------------------------- */
/* THE TAIL OF svd():  state at the '{' of the block: the decomposition has just produced V_ (RAW), decomposed == 1, set_inv_W() has counted
   defect > 0; minV is whatever an earlier input left there.  Afterwards the saved copy is the UNREGULARISED V and V_ matches the request. */
//@ contract SVD_svd_tail
__CPROVER_requires(gv_exc == 0 && EPOCH_OK(self) && SHAPE_OK(self) && REQ_OK(self))
__CPROVER_requires(self->decomposed == 1 && self->defect > 0 && self->V != NULL && V_RAW(self))
__CPROVER_assigns(self->minV, self->V_.gv_kind, self->V_.gv_ep, gv_exc, gv_vcell)
__CPROVER_ensures(gv_exc == 0 || gv_exc == GV_BadRegularization)
__CPROVER_ensures(INV_BASE(self))
__CPROVER_ensures(gv_exc == 0 ==> INV_TAGS(self))
__CPROVER_ensures(gv_exc != 0 ==> INV_TAGW(self))
//@ entry SVD_svd_tail
GV_CANARY("SVD_svd_tail entry");
//@ end

/* min_x(): afterwards V_ is what a fresh object with minx == all holds: the raw V of the current decomposition */
//@ contract SVD_min_x
__CPROVER_requires(gv_exc == 0 && EPOCH_OK(self) && INV_BASE(self) && INV_TAGW(self))
__CPROVER_assigns(self->minx, self->V, self->V_; self->V_.gv_len > 0: __CPROVER_object_whole(self->V_.p))
__CPROVER_frees(self->V)
__CPROVER_ensures(gv_exc == 0)
__CPROVER_ensures(self->minx == all)
__CPROVER_ensures(INV_BASE(self) && INV_TAGS(self))
__CPROVER_ensures(self->decomposed ==> V_RAW(self))
//@ entry SVD_min_x
GV_CANARY("SVD_min_x entry");
//@ loop SVD_min_x 1
__CPROVER_assigns(i, __CPROVER_object_whole(self->V))
__CPROVER_loop_invariant(2 <= i && i <= GV_MAX(self->n, 1) + 1)
__CPROVER_decreases((long)GV_MAX(self->n, 1) + 1 - i)
//@ end

/* min_x(n, list): the request is recorded (a new request epoch) and V_ is what a fresh object given this list holds: REG(new epoch), made
   from the RAW copy -- or RAW itself while nothing is decomposed / the matrix is regular */
//@ contract SVD_min_x_list
__CPROVER_requires(gv_exc == 0 && EPOCH_OK(self) && INV_BASE(self) && INV_TAGW(self))
__CPROVER_requires(0 <= n && n <= MAXDIM && __CPROVER_r_ok(list, (size_t)n * sizeof(Index)))
__CPROVER_assigns(self->minx, self->n_min, self->list_min, self->V, self->V_, self->gv_epoch, gv_exc, gv_vcell;
                  self->V_.gv_len > 0: __CPROVER_object_whole(self->V_.p))
__CPROVER_frees(self->list_min, self->V)
__CPROVER_ensures(gv_exc == 0 || gv_exc == GV_BadRegularization)
__CPROVER_ensures(self->gv_epoch == OLD(self->gv_epoch) + 1)
__CPROVER_ensures(self->minx == subset && self->n_min == n && self->list_min != NULL)
__CPROVER_ensures((0 <= gv_k0 && gv_k0 < n) ==> self->list_min[gv_k0] == list[gv_k0])
__CPROVER_ensures(INV_BASE(self))
__CPROVER_ensures(gv_exc == 0 ==> INV_TAGS(self))
__CPROVER_ensures(gv_exc != 0 ==> (self->decomposed && self->defect != 0 && INV_TAGW(self)))
//@ entry SVD_min_x_list
GV_CANARY("SVD_min_x_list entry");
self->gv_epoch++;     /* ghost: a new subset request -- nothing regularised for an earlier list may be taken for an answer to this one */
//@ loop SVD_min_x_list 1
__CPROVER_assigns(i, __CPROVER_object_whole(self->list_min))
__CPROVER_loop_invariant(0 <= i && i <= n && ((0 <= gv_k0 && gv_k0 < i) ==> self->list_min[gv_k0] == list[gv_k0]))
__CPROVER_decreases((long)n - i)
//@ loop SVD_min_x_list 2
__CPROVER_assigns(i, __CPROVER_object_whole(self->V))
__CPROVER_loop_invariant(2 <= i && i <= GV_MAX(self->n, 1) + 1)
__CPROVER_decreases((long)GV_MAX(self->n, 1) + 1 - i)
//@ end

/* min_subset_x():  defect == 0: nothing to do.  defect > n_min ("too few constrained coordinates for the defect"): BadRegularization from the
   precondition test, V_ untouched.  With AT LEAST as many constrained coordinates as the defect the test lets the sweep run: an exception can
   then only come from inside the sweep (constraints that do not span the null space), which has already marked V_ as T_PART. */
//@ contract SVD_min_subset_x
__CPROVER_requires(gv_exc == 0 && SHAPE_OK(self) && self->decomposed && LIST_OK(self) && self->V != NULL)
__CPROVER_requires(self->defect == 0 || self->defect > self->n_min || V_RAW(self))
__CPROVER_assigns(gv_exc, gv_vcell, self->V_.gv_kind, self->V_.gv_ep)
__CPROVER_ensures(gv_exc == 0 || gv_exc == GV_BadRegularization)
__CPROVER_ensures(self->defect == 0 ==> (gv_exc == 0 && V_TAG_KEPT(self)))
__CPROVER_ensures(self->defect > self->n_min ==> (gv_exc == GV_BadRegularization && V_TAG_KEPT(self)))
__CPROVER_ensures((0 < self->defect && self->defect <= self->n_min) ==> ((gv_exc == 0 && V_REG(self)) || (gv_exc == GV_BadRegularization && V_IS(self, T_PART))))
//@ entry SVD_min_subset_x
GV_CANARY("SVD_min_subset_x entry");
//@ pre SVD_min_subset_x 1
__CPROVER_assert(V_RAW(self), "C04: the regularisation sweep starts from the UNREGULARISED V of the current decomposition (tag RAW)");
self->V_.gv_kind = T_PART;
//@ at SVD_min_subset_x done
self->V_.gv_kind = T_REG; self->V_.gv_ep = self->gv_epoch;
//@ at SVD_min_subset_x im1
GV_INST(0 <= i && i < self->n_min, 1 <= im && im <= self->n);
//@ at SVD_min_subset_x im2
GV_INST(0 <= i && i < self->n_min, 1 <= im && im <= self->n);
//@ loop SVD_min_subset_x 1
__CPROVER_assigns(k, s, im, gv_vcell, gv_exc)
__CPROVER_loop_invariant(1 <= k && k <= self->n + 1 && gv_exc == 0)
__CPROVER_decreases((long)self->n + 1 - k)
//@ loop SVD_min_subset_x 2
__CPROVER_assigns(i, s, im, Vimk, gv_vcell)
__CPROVER_loop_invariant(0 <= i && i <= self->n_min)
__CPROVER_decreases((long)self->n_min - i)
//@ loop SVD_min_subset_x 3
__CPROVER_assigns(i, gv_vcell)
__CPROVER_loop_invariant(1 <= i && i <= self->n + 1)
__CPROVER_decreases((long)self->n + 1 - i)
//@ loop SVD_min_subset_x 4
__CPROVER_assigns(j, s, im, gv_vcell)
__CPROVER_loop_invariant(1 <= j && j <= self->n + 1)
__CPROVER_decreases((long)self->n + 1 - j)
//@ loop SVD_min_subset_x 5
__CPROVER_assigns(i, s, im, gv_vcell)
__CPROVER_loop_invariant(0 <= i && i <= self->n_min)
__CPROVER_decreases((long)self->n_min - i)
//@ loop SVD_min_subset_x 6
__CPROVER_assigns(i, gv_vcell)
__CPROVER_loop_invariant(1 <= i && i <= self->n + 1)
__CPROVER_decreases((long)self->n + 1 - i)
//@ end

/* reset(A): a new input.  Nothing of the old decomposition may be taken for a result (decomposed == 0), the shapes follow A, and the
   regularisation REQUEST survives (minx, list_min, n_min, gv_epoch are not assignable): "after the object has been reset and given the same
   input again" it is in the state of a fresh object with the same request. */
//@ contract SVD_reset
__CPROVER_requires(gv_exc == 0 && EPOCH_OK(self) && INV_BASE(self) && INV_TAGW(self) && MAT_OK(A__p))
__CPROVER_requires(self->U == NULL || __CPROVER_rw_ok(self->U, sizeof(Float *)))
__CPROVER_requires(self->V == NULL || __CPROVER_rw_ok(self->V, sizeof(Float *)))
__CPROVER_assigns(self->m, self->n, self->W_, self->V_, self->inv_W_, self->U_, self->W, self->inv_W, self->U, self->V, self->decomposed, self->gv_dec)
__CPROVER_frees(self->U, self->V)
__CPROVER_ensures(gv_exc == 0 && __CPROVER_return_value == self)
__CPROVER_ensures(!self->decomposed && self->gv_dec == OLD(self->gv_dec) + 1)
__CPROVER_ensures(self->m == A__p->rows && self->n == A__p->cols)
__CPROVER_ensures(INV_BASE(self) && INV_TAGS(self) && self->V != NULL && self->U != NULL)
//@ entry SVD_reset
GV_CANARY("SVD_reset entry");
self->gv_dec++;       /* ghost: a new input -- no tag of the old decomposition denotes a result any more */
//@ end

/* reset(A, w): reset(A), then the rows of U are scaled */
//@ contract SVD_reset_w
__CPROVER_requires(gv_exc == 0 && EPOCH_OK(self) && INV_BASE(self) && INV_TAGW(self) && MAT_OK(A__p) && VEC_OK(w__p) && w__p->dim == A__p->rows)
__CPROVER_requires(self->U == NULL || __CPROVER_rw_ok(self->U, sizeof(Float *)))
__CPROVER_requires(self->V == NULL || __CPROVER_rw_ok(self->V, sizeof(Float *)))
__CPROVER_assigns(self->m, self->n, self->W_, self->V_, self->inv_W_, self->U_, self->W, self->inv_W, self->U, self->V, self->decomposed, self->gv_dec, gv_vcell)
__CPROVER_frees(self->U, self->V)
__CPROVER_ensures(gv_exc == 0 && __CPROVER_return_value == self)
__CPROVER_ensures(!self->decomposed && self->gv_dec == OLD(self->gv_dec) + 1)
__CPROVER_ensures(self->m == A__p->rows && self->n == A__p->cols)
__CPROVER_ensures(INV_BASE(self) && INV_TAGS(self))
//@ entry SVD_reset_w
GV_CANARY("SVD_reset_w entry");
//@ loop SVD_reset_w 1
__CPROVER_assigns(i, wi, gv_vcell)
__CPROVER_loop_invariant(1 <= i && i <= A__p->rows + 1)
__CPROVER_decreases((long)A__p->rows + 1 - i)
//@ loop SVD_reset_w 2
__CPROVER_assigns(j, gv_vcell)
__CPROVER_loop_invariant(1 <= j && j <= A__p->cols + 1)
__CPROVER_decreases((long)A__p->cols + 1 - j)
//@ end

/* clear(): the empty object; nothing is a result */
//@ contract SVD_clear
__CPROVER_requires(gv_exc == 0 && EPOCH_OK(self) && INV_BASE(self) && INV_TAGW(self))
__CPROVER_requires(self->U == NULL || __CPROVER_rw_ok(self->U, sizeof(Float *)))
__CPROVER_requires(self->V == NULL || __CPROVER_rw_ok(self->V, sizeof(Float *)))
__CPROVER_assigns(self->m, self->n, self->W_, self->V_, self->inv_W_, self->U_, self->minV, self->U, self->V, self->decomposed, self->gv_dec)
__CPROVER_frees(self->U, self->V)
__CPROVER_ensures(gv_exc == 0 && __CPROVER_return_value == self)
__CPROVER_ensures(!self->decomposed && self->m == 0 && self->n == 0 && self->U == NULL && self->V == NULL)
__CPROVER_ensures(self->minV.gv_kind == T_NONE && self->V_.gv_kind == T_NONE)
__CPROVER_ensures(INV_BASE(self) && INV_TAGS(self))
//@ entry SVD_clear
GV_CANARY("SVD_clear entry");
self->gv_dec++;
//@ end

/* tol(t): a configuration change, like min_x: afterwards the object must be in the state of a fresh object with that tolerance, i.e. the
   invariant holds for the NEW defect.  The body recounts the defect of an already decomposed object but neither saves minV nor regularises V_.
   Exclusion predicate of the finding: -DGV_EXCL_SVD_TOL_AFTER_DECOMPOSITION (tol is set before the decomposition only). */
//@ contract SVD_tol
__CPROVER_requires(gv_exc == 0 && EPOCH_OK(self) && INV_BASE(self) && INV_TAGW(self))
#ifdef GV_EXCL_SVD_TOL_AFTER_DECOMPOSITION
__CPROVER_requires(!self->decomposed)
#endif
__CPROVER_assigns(self->W_tol, self->defect, gv_vcell)
__CPROVER_ensures(gv_exc == 0 && INV_BASE(self) && INV_TAGW(self))
//@ entry SVD_tol
GV_CANARY("SVD_tol entry");
//@ end

//@ harness
void h_tol(void)
{
  struct SVD S; mk_svd(&S);
  Float t;
  Index w_decomposed = S.decomposed, w_defect = S.defect;
  SVD_tol(&S, t);
  GV_CANARY("h_tol end");
}
void h_svd_tail(void)
{
  struct SVD S; mk_svd(&S);
  /* the part of svd() in front of the block (stub; its statements `decomposed = 1; set_inv_W();` are part of the matched header):
     V_ is the raw result of decomposing the current input, the defect has been counted and is positive; minV is left arbitrary */
  struct Mat oldminV; gv_mk_mat(&oldminV);
  __CPROVER_assume(oldminV.rows >= 0 && oldminV.rows <= MAXDIM && oldminV.cols >= 0 && oldminV.cols <= MAXDIM);
  S.minV = oldminV;
  S.decomposed = 1;
  S.V_.gv_kind = T_RAW; S.V_.gv_dec = S.gv_dec;
  __CPROVER_assume(S.V != NULL && S.U != NULL && 0 < S.defect && S.defect <= S.n);
  __CPROVER_assume(SHAPE_OK(&S) && REQ_OK(&S));
  Index w_minx = S.minx, w_defect = S.defect, w_n_min = S.n_min;
  SVD_svd_tail(&S);
  GV_CANARY("h_svd_tail end");
}
void h_min_x_all(void)
{
  struct SVD S; mk_svd(&S);
  Index w_decomposed = S.decomposed, w_defect = S.defect, w_minx = S.minx;
  SVD_min_x(&S);
  GV_CANARY("h_min_x_all end");
}
void h_min_x_list(void)
{
  struct SVD S; mk_svd(&S);
  Index n, k0;
  __CPROVER_assume(0 <= n && n <= MAXDIM);
  Index *list = malloc((size_t)n * sizeof(Index));
  __CPROVER_assume(list != NULL);
  gv_k0 = k0;
  Index w_decomposed = S.decomposed, w_defect = S.defect, w_minx = S.minx, w_list_n = n;
  SVD_min_x_list(&S, n, list);
  GV_CANARY("h_min_x_list end");
}
void h_min_subset_x(void)
{
  struct SVD S; mk_svd(&S);
  __CPROVER_assume(S.decomposed && S.list_min != NULL && S.V != NULL);
  __CPROVER_assume(S.defect == 0 || S.defect > S.n_min || V_RAW(&S));
  Index w_defect = S.defect, w_n_min = S.n_min;
  SVD_min_subset_x(&S);
  GV_CANARY("h_min_subset_x end");
}
static void mk_input(struct Mat *A)
{
  gv_mk_mat(A);
  __CPROVER_assume(MAT_OK(A));
}
void h_reset(void)
{
  struct SVD S; mk_svd(&S);
  struct Mat A; mk_input(&A);
  Index w_rows = A.rows, w_cols = A.cols, w_m = S.m, w_n = S.n;
  _Bool never; __CPROVER_assume(!never);
  if (never) SVD_reset_UWV(&S);      /* keeps the replaced callee in the program when a changed reset() no longer calls it */
  SVD_reset(&S, &A);
  GV_CANARY("h_reset end");
}
void h_reset_w(void)
{
  struct SVD S; mk_svd(&S);
  struct Mat A; mk_input(&A);
  struct VecF w; gv_mk_vec(&w);
  __CPROVER_assume(w.dim == A.rows);
  _Bool never; __CPROVER_assume(!never);
  if (never) SVD_reset_UWV(&S);
  SVD_reset_w(&S, &A, &w);
  GV_CANARY("h_reset_w end");
}
void h_clear(void)
{
  struct SVD S; mk_svd(&S);
  SVD_clear(&S);
  GV_CANARY("h_clear end");
}
//@ end
