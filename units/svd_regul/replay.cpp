// Native replay for unit "svd_regul": the regularisation state of the real SVD<double,int> (lib/matvec/svd.h), through its public API
// (private members are only READ, to evaluate the representation invariant).  Each check re-evaluates its oracle on a small free levelling
// network; the symbolic counterexample of the contract check is a tag state, the replay runs the call history that produces such a state.
// exit 1 = violation reproduces, 0 = does not reproduce, 2 = no replay for this check.
#include <cmath>
#include <cstdio>
#include <string>
#include <sys/wait.h>
#include <unistd.h>
#define private public
#include <matvec/svd.h>
#undef private
#include "gv_replay.h"

using namespace GNU_gama;
typedef Mat<double, int, Exception::matvec> MAT;

// free levelling chain with a loop: n heights, defect 1
static MAT chain(int n)
{
  MAT A(n + 1, n); A.set_zero();
  for (int i = 1; i < n; i++) { A(i, i) = -1; A(i, i + 1) = 1; }
  A(n, 1) = -1; A(n, n) = 1;
  A(n + 1, 1) = -1; A(n + 1, 3) = 1;
  return A;
}
// two disconnected lines {1,2,3} and {4,5}: defect 2
static MAT two_lines()
{
  const int ft[][2] = {{1, 2}, {2, 3}, {1, 3}, {4, 5}, {4, 5}};
  MAT A(5, 5); A.set_zero();
  for (int i = 0; i < 5; i++) { A(i + 1, ft[i][0]) = -1; A(i + 1, ft[i][1]) = 1; }
  return A;
}
static double maxdiff(const MAT& a, const MAT& b)
{
  if (a.rows() != b.rows() || a.cols() != b.cols()) return 1e300;
  double d = 0;
  for (int i = 1; i <= a.rows(); i++) for (int j = 1; j <= a.cols(); j++) d = std::fmax(d, std::fabs(a(i, j) - b(i, j)));
  return d;
}
static double qdiff(SVD<>& a, SVD<>& b, int n)
{
  double d = 0;
  for (int i = 1; i <= n; i++) for (int j = 1; j <= n; j++) d = std::fmax(d, std::fabs(a.q_xx(i, j) - b.q_xx(i, j)));
  return d;
}

// svd_tail: the subset is requested BEFORE the decomposition; afterwards minV must be the raw V (what a fresh object with minx == all holds)
static int check_svd_tail()
{
  const int n = 6; MAT A = chain(n);
  SVD<> raw(A); raw.nullity();
  SVD<> s(A); int l[2] = {1, 2}; s.min_x(2, l); int d = s.nullity();
  double dm = maxdiff(s.minV, raw.V_);
  s.min_x();
  double dq = qdiff(s, raw, n);
  std::printf("chain of %d heights, defect %d: min_x({1,2}); decompose: |minV - raw V| = %.3g; then min_x(): |q_xx - q_xx(fresh, all)| = %.3g -> %s\n", n, d, dm, dq,
              (dm > 1e-12 || dq > 1e-9) ? "THE SAVED COPY IS NOT THE UNREGULARISED V" : "ok");
  return (dm > 1e-12 || dq > 1e-9) ? 1 : 0;
}
static int check_min_x_all()
{
  const int n = 6; MAT A = chain(n);
  SVD<> raw(A); raw.nullity();
  SVD<> s(A); s.nullity(); int l[2] = {1, 2}; s.min_x(2, l); s.min_x();
  double dv = maxdiff(s.V_, raw.V_);
  std::printf("decompose; min_x({1,2}); min_x(): |V - raw V| = %.3g, minx = %d -> %s\n", dv, (int)s.minx, (dv > 1e-12 || s.minx != 0) ? "V IS NOT WHAT A FRESH OBJECT WITH minx == all HOLDS" : "ok");
  return (dv > 1e-12 || s.minx != 0) ? 1 : 0;
}
static int check_min_x_list()
{
  const int n = 6; MAT A = chain(n);
  int l12[2] = {1, 2}, l3[1] = {3};
  SVD<> fresh(A); fresh.min_x(2, l12); fresh.nullity();
  SVD<> s(A); s.nullity(); s.min_x(1, l3); s.min_x(2, l12);
  double dq = qdiff(s, fresh, n), dm = maxdiff(s.minV, SVD<>(A).SVD_V());
  bool bad = dq > 1e-9 || dm > 1e-12 || s.minx != 1 || s.n_min != 2 || s.list_min[0] != 1 || s.list_min[1] != 2;
  std::printf("decompose; min_x({3}); min_x({1,2}): |q_xx - q_xx(fresh object given {1,2})| = %.3g, |minV - raw V| = %.3g -> %s\n", dq, dm, bad ? "HISTORY DEPENDENT" : "ok");
  return bad ? 1 : 0;
}
// boundary of the guard: exactly as many constrained coordinates as the defect IS adjusted; fewer is refused
static int check_min_subset_x()
{
  int rc = 0;
  { MAT A = chain(6); SVD<> s(A); int l[1] = {2}; s.min_x(1, l);
    try { int d = s.nullity(); std::printf("defect %d, 1 constrained unknown: adjusted -> ok\n", d); }
    catch (const Exception::matvec& e) { std::printf("defect 1, 1 constrained unknown: %s raised -> A WELL-POSED REGULARISATION IS REFUSED\n", e.what()); rc = 1; } }
  { MAT A = two_lines(); SVD<> s(A); int l[2] = {1, 4}; s.min_x(2, l);
    try { int d = s.nullity(); std::printf("defect %d, 2 constrained unknowns (one per component): adjusted -> ok\n", d); }
    catch (const Exception::matvec& e) { std::printf("defect 2, 2 constrained unknowns: %s raised -> A WELL-POSED REGULARISATION IS REFUSED\n", e.what()); rc = 1; } }
  { MAT A = two_lines(); SVD<> s(A); int l[1] = {1}; s.min_x(1, l);
    try { s.nullity(); std::printf("defect 2, 1 constrained unknown: NO exception -> TOO FEW CONSTRAINED COORDINATES NOT DIAGNOSED\n"); rc = 1; }
    catch (const Exception::matvec& e) { std::printf("defect 2, 1 constrained unknown: refused (%s) -> ok\n", e.what()); } }
  if (rc) std::printf("SVD::min_subset_x: BadRegularization is not raised exactly when the defect exceeds the number of constrained coordinates (see the cases above)\n");
  return rc;
}
static int check_reset()
{
  MAT A1 = chain(6), A2 = two_lines();
  SVD<> s(A1); s.nullity(); s.reset(A2);
  bool bad = s.decomposed != 0 || s.n != 5 || s.m != 5 || s.V_.rows() != 5;
  int d = s.nullity(); SVD<> f(A2); int df = f.nullity();
  std::printf("decompose(A1); reset(A2): decomposed = %d, n = %d; nullity %d (fresh %d) -> %s\n", (int)bad, s.n, d, df, (bad || d != df) ? "STALE RESULT" : "ok");
  return (bad || d != df) ? 1 : 0;
}
static int check_clear()
{
  SVD<> s(chain(6)); s.nullity(); s.clear();
  bool bad = s.decomposed != 0 || s.n != 0 || s.m != 0 || s.U != nullptr || s.V != nullptr || s.minV.rows() != 0;
  std::printf("decompose; clear(): %s\n", bad ? "NOT THE EMPTY OBJECT" : "ok");
  return bad ? 1 : 0;
}
// tol(t) after the decomposition: the defect is recounted, minV was never saved
static int check_tol()
{
  std::fflush(stdout);
  pid_t pid = fork();
  if (pid == 0) {
    MAT A(3, 3); A.set_zero(); A(1, 1) = 1; A(2, 2) = 1; A(3, 3) = 1e-3;
    SVD<> s(A); int d0 = s.nullity(); s.tol(1e-2); int d1 = s.nullity();
    bool bad = s.decomposed && d1 != 0 && (s.minV.rows() != s.n);
    std::printf("diag(1,1,1e-3): nullity %d; tol(1e-2): nullity %d, decomposed = %d, minV is %d x %d -> %s\n", d0, d1, (int)s.decomposed, s.minV.rows(), s.minV.cols(),
                bad ? "NO UNREGULARISED COPY FOR THE NEW DEFECT (min_x(n, list) restores V from it)" : "ok");
    std::fflush(stdout);
    int l[1] = {3};
    try { s.min_x(1, l); } catch (...) {}
    _exit(bad ? 1 : 0);
  }
  int st = 0; waitpid(pid, &st, 0);
  if (WIFSIGNALED(st)) { std::printf("tol(1e-2); min_x(1,{3}) on the decomposed object: killed by signal %d\n", WTERMSIG(st)); return 1; }
  return WEXITSTATUS(st);
}

int main(int argc, char** argv)
{
  if (argc < 3) return 2;
  std::setvbuf(stdout, nullptr, _IONBF, 0);
  std::string c = argv[2];
  if (c == "svd_tail") return check_svd_tail();
  if (c == "min_x_all") return check_min_x_all();
  if (c == "min_x_list") return check_min_x_list();
  if (c == "min_subset_x") return check_min_subset_x();
  if (c == "reset" || c == "reset_w") return check_reset();
  if (c == "clear") return check_clear();
  if (c == "tol") return check_tol();
  std::printf("no native replay for check %s\n", c.c_str());
  return 2;
}
