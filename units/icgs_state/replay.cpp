// Native replay for unit "icgs_state": the bookkeeping state of the real class ICGS (lib/gnu_gama/adj/icgs.cpp), through its public API.
// exit 1 = violation reproduces, 0 = does not reproduce, 2 = no replay for this check.
#include <cstdio>
#include <set>
#include <string>
#include <vector>
#include <gnu_gama/adj/icgs.h>
#include "gv_replay.h"

using namespace GNU_gama;

// block matrix (A b; E 0) stored by columns, as AdjGSO::solve builds it
static std::vector<double> block(int M, int N, const double* A /* row major */, const double* b)
{
  std::vector<double> d((M + N) * (N + 1));
  double* p = d.data();
  for (int c = 1; c <= N + 1; c++)
    for (int r = 1; r <= M + N; r++)
      *p++ = c <= N ? (r <= M ? A[(r - 1) * N + (c - 1)] : (r - M == c ? 1 : 0)) : (r <= M ? -b[r - 1] : 0);
  return d;
}
static const double LOOP3[9] = {-1, 1, 0, 0, -1, 1, -1, 0, 1};   // levelling loop: 3 unknowns, defect 1
static const double RHS3[3] = {1, 2, -3};

static void show(const char* what, const std::set<int>& s)
{
  std::printf("%s {", what);
  for (int i : s) std::printf(" %d", i);
  std::printf(" }");
}
// min_x(n, list) on a re-used object: the subset must be EXACTLY the new list
static int check_min_x_list()
{
  ICGS g;
  int l12[2] = {1, 2}, l3[1] = {3};
  g.min_x(2, l12);
  g.min_x(1, l3);
  bool bad = g.min_x_indices != std::set<int>{3};
  show("min_x({1,2}); min_x({3}): subset =", g.min_x_indices);
  std::printf(" -> %s\n", bad ? "ELEMENTS OF AN EARLIER REQUEST ARE LEFT OVER" : "ok");
  return bad ? 1 : 0;
}
// request "all" after a subset request: icgs2 must work with exactly {1..N1}
static int check_icgs2_all()
{
  std::vector<double> d = block(3, 3, LOOP3, RHS3);
  ICGS g;
  int l[2] = {2, 7};
  g.min_x(2, l);
  g.min_x();
  g.reset(d.data(), 3, 3, 3, 1); g.icgs1(); g.icgs2();
  bool bad = g.min_x_indices != std::set<int>{1, 2, 3};
  show("min_x({2,7}); min_x(); solve (N1 = 3, defect 1): subset used =", g.min_x_indices);
  std::printf(" -> %s\n", bad ? "NOT THE SET OF ALL UNKNOWNS" : "ok");
  return bad ? 1 : 0;
}
static int check_min_x()
{
  std::vector<double> d = block(3, 3, LOOP3, RHS3), e = d;
  int l[1] = {3};
  ICGS g; g.min_x(1, l); g.min_x(); g.reset(d.data(), 3, 3, 3, 1); g.icgs1(); g.icgs2();
  ICGS f;                            f.reset(e.data(), 3, 3, 3, 1); f.icgs1(); f.icgs2();
  bool bad = false;
  for (int i = 0; i < 3; i++) if (g.unknowns_begin()[i] != f.unknowns_begin()[i]) bad = true;
  std::printf("min_x({3}); min_x(); solve: x = %g %g %g, fresh object: x = %g %g %g -> %s\n", g.unknowns_begin()[0], g.unknowns_begin()[1], g.unknowns_begin()[2],
              f.unknowns_begin()[0], f.unknowns_begin()[1], f.unknowns_begin()[2], bad ? "HISTORY DEPENDENT" : "ok");
  return bad ? 1 : 0;
}
static int check_reset()
{
  std::vector<double> d = block(3, 3, LOOP3, RHS3);
  ICGS g;
  int l[1] = {3};
  g.min_x(1, l);
  g.reset(d.data(), 3, 3);
  int m1, n1, m2, n2; g.blocks(m1, n1, m2, n2);
  bool bad = m1 != 3 || n1 != 3 || m2 != 3 || n2 != 1 || g.min_x_indices != std::set<int>{3};
  std::printf("min_x({3}); reset(d, 3, 3): blocks %d %d %d %d, ", m1, n1, m2, n2);
  show("subset =", g.min_x_indices);
  std::printf(" -> %s\n", bad ? "WRONG BLOCK SIZES / THE REQUEST DID NOT SURVIVE" : "ok");
  return bad ? 1 : 0;
}
static int check_icgs1()
{
  // 4 unknowns, unknown 4 unobserved, unknowns 1..3 a levelling loop: columns 3 and 4 are dependent
  const double A[12] = {-1, 1, 0, 0, 0, -1, 1, 0, -1, 0, 1, 0};
  std::vector<double> d = block(3, 4, A, RHS3);
  ICGS g; g.reset(d.data(), 3, 4, 4, 1); g.icgs1();
  bool bad = g.defect() != (int)g.lindep_columns.size() || g.defect() > 4 || g.error() != 0;
  for (int c : g.lindep_columns) if (c < 1 || c > 4) bad = true;
  show("icgs1 (N1 = 4): dependent columns", g.lindep_columns);
  std::printf(", defect() = %d, error() = %d -> %s\n", g.defect(), g.error(), bad ? "NOT A SET OF COLUMNS OF THE DESIGN MATRIX" : "ok");
  return bad ? 1 : 0;
}

int main(int argc, char** argv)
{
  if (argc < 3) return 2;
  std::setvbuf(stdout, nullptr, _IONBF, 0);
  std::string c = argv[2];
  if (c == "min_x_list") return check_min_x_list();
  if (c == "icgs2_all") return check_icgs2_all();
  if (c == "min_x") return check_min_x();
  if (c == "reset") return check_reset();
  if (c == "icgs1") return check_icgs1();
  std::printf("no native replay for check %s\n", c.c_str());
  return 2;
}
