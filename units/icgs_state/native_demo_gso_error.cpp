// build: g++ -std=c++14 -O1 -I/repo/lib native_demo_gso_error.cpp /repo/lib/gnu_gama/adj/icgs.cpp -o /tmp/gso_err && /tmp/gso_err
// C20: "too few constrained coordinates for the defect" -- every algorithm must diagnose it.
// two disconnected levelling lines {1,2,3} and {4,5}: defect 2; regularisation subset {1} (one coordinate < defect)
#include <matvec/matvec.h>
#include <gnu_gama/adj/adj_gso.h>
#include <gnu_gama/adj/adj_svd.h>
#include <gnu_gama/adj/adj_chol.h>
#include <iostream>
#include <cmath>
using namespace GNU_gama;
typedef Mat<double,int,Exception::matvec> MAT;
typedef Vec<double,int,Exception::matvec> VEC;
template <typename S> void run(const char* name, const MAT& A, const VEC& b, int n, int* sub)
{
  try {
    S s; s.reset(A, b); s.min_x(n, sub);
    VEC x = s.unknowns();
    std::cout << name << ": NO exception; defect=" << s.defect() << " x =";
    for (int i=1;i<=x.dim();i++) std::cout << " " << x(i);
    std::cout << "\n";
  } catch (const Exception::matvec& e) {
    std::cout << name << ": exception error()=" << e.error() << " (" << e.what() << ")" << (e.error()==Exception::BadRegularization ? " = BadRegularization":"") << "\n";
  }
}
int main()
{
  const int ft[][2] = {{1,2},{2,3},{1,3},{4,5},{4,5}};
  const double v[] = {1.01, 2.02, 3.02, 0.51, 0.49};
  MAT A(5,5); A.set_zero(); VEC b(5);
  for (int i=0;i<5;i++){ A(i+1,ft[i][0])=-1; A(i+1,ft[i][1])=1; b(i+1)=v[i]; }
  int one[] = {1};
  std::cout << "--- defect 2, subset {1} (insufficient)\n";
  run<AdjSVD<double,int,Exception::matvec>>("svd     ", A,b,1,one);
  run<AdjCholDec<double,int,Exception::matvec>>("cholesky", A,b,1,one);
  run<AdjGSO<double,int,Exception::matvec>>("gso     ", A,b,1,one);
  int two[] = {1,2};
  std::cout << "--- defect 2, subset {1,2} (two coordinates, same component: does not span)\n";
  run<AdjSVD<double,int,Exception::matvec>>("svd     ", A,b,2,two);
  run<AdjCholDec<double,int,Exception::matvec>>("cholesky", A,b,2,two);
  run<AdjGSO<double,int,Exception::matvec>>("gso     ", A,b,2,two);
  // the ICGS object itself knows
  {
    int M=5,N=5; double* d = new double[(M+N)*(N+1)]; double* p=d;
    for (int c=1;c<=N+1;c++) for (int r=1;r<=M+N;r++) { if (c<=N) *p++ = r<=M ? A(r,c) : (r-M==c?1:0); else *p++ = r<=M ? -b(r) : 0; }
    ICGS g; g.min_x(1, one); g.reset(d,M,N,N,1); g.icgs1(); g.icgs2();
    std::cout << "ICGS: defect()=" << g.defect() << " error()=" << g.error() << "  (never consulted by AdjGSO::solve)\n";
    delete[] d;
  }
}
