// build: g++ -std=c++14 -O1 -I/repo/lib native_demo_reset_flag.cpp /repo/lib/gnu_gama/adj/icgs.cpp -o /tmp/icgs_flag && /tmp/icgs_flag
// ICGS::reset() ends with icgs1_is_ready = true although nothing has been orthogonalised and `lindep` is still the set of the PREVIOUS input;
// icgs2() trusts the flag (`if (!icgs1_is_ready) icgs1();`).
#include <gnu_gama/adj/icgs.h>
#include <iostream>
using namespace GNU_gama;
static void fill(double* d, int M, int N, const double* A /*row major MxN*/, const double* b)
{
  double* p = d;
  for (int c=1;c<=N+1;c++) for (int r=1;r<=M+N;r++) { if (c<=N) *p++ = r<=M ? A[(r-1)*N+(c-1)] : (r-M==c?1:0); else *p++ = r<=M ? -b[r-1] : 0; }
}
int main()
{
  const int M=3, N=3;
  const double S[9] = {-1,1,0, 0,-1,1, -1,0,1};   // levelling loop: rank 2, defect 1
  const double R[9] = { 1,0,0, 0,1,0, 0,0,1};     // regular
  const double b[3] = {1,2,3};
  double d1[(M+N)*(N+1)], d2[(M+N)*(N+1)], d3[(M+N)*(N+1)];
  fill(d1,M,N,S,b); fill(d2,M,N,R,b); fill(d3,M,N,R,b);
  ICGS used;  used.reset(d1,M,N,N,1); used.icgs1(); used.icgs2();
  std::cout << "object A, singular input, icgs1+icgs2 : defect()=" << used.defect() << "\n";
  used.reset(d2,M,N,N,1);                     // new, REGULAR input
  std::cout << "object A after reset(regular input)  : defect()=" << used.defect() << "  (stale: belongs to the previous input)\n";
  used.icgs2();                               // trusts icgs1_is_ready
  std::cout << "object A after icgs2()               : defect()=" << used.defect() << " x = " << used.unknowns_begin()[0] << " " << used.unknowns_begin()[1] << " " << used.unknowns_begin()[2] << "\n";
  ICGS fresh; fresh.reset(d3,M,N,N,1); fresh.icgs1(); fresh.icgs2();
  std::cout << "fresh object, same regular input, icgs1+icgs2: defect()=" << fresh.defect() << " x = " << fresh.unknowns_begin()[0] << " " << fresh.unknowns_begin()[1] << " " << fresh.unknowns_begin()[2] << "\n";
}
