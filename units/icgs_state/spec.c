/* Sidecar contracts for the bookkeeping state of class ICGS (lib/gnu_gama/adj/icgs.cpp, icgs.h), the engine of AdjGSO      properties C04, C20

     ICGS::min_x()                        regularise on all unknowns
     ICGS::min_x(int n, int list[])       regularise on a subset
     the block `if (min_x_use_all) { minx.clear(); for (i = 1..N1) minx.insert(i); }` of ICGS::icgs2()
     ICGS::reset(double*, int, int, int, int)
     ICGS::icgs1()                        bookkeeping only: the double orthogonalisation sweep of one column (`for (iter...)`) is CUT and
                                          replaced by a stub (see unit.json, trusted_base)

   std::set<int> is lowered to a GHOST SET SUMMARY at one arbitrary ghost element gv_g0 (forall-introduction over the elements):
       struct gv_set { has_g0 }            has_g0  <=>  gv_g0 is a member
       clear(): has_g0 = 0;  insert(x): if (x == gv_g0) has_g0 = 1          -- this IS the semantics of std::set for the question "is g0 in it"
   For `lindep` the summary also carries the number of elements `card` (insert of a NEW element adds one; newness is known to the stub only for
   g0 itself, so the stub of lindep.insert additionally ASSERTS that the inserted values are strictly increasing -- then every insert is new)
   and a ghost tag `gv_problem` saying for which input (reset epoch) the set was computed.

   C04 clause for min_x(n, list): afterwards the set holds EXACTLY the elements of list --
       (a) list[k0] == g0 ==> member(g0)          for the arbitrary ghost index k0
       (b) member(g0) ==> some list[w] == g0      w = ghost witness recorded where the element is inserted
   so nothing is left over from an earlier call on a re-used solver object.
   C20 clause for icgs1(): lindep_columns is a subset of [1, N1] and defect() (== lindep.size(), icgs.h) <= N1; error() == 0 afterwards.
   Only contracts, ghost declarations, stubs and harnesses live here; the bodies are extracted from /repo on every run. */

//@ prelude
#define MAXDIM 1000000
#define MAXEPOCH 1000000000000L
int gv_exc;
int gv_g0;       /* the ghost element */
int gv_k0;       /* ghost index into list (forall-introduction) */
int gv_wit;      /* ghost witness index: where g0 was inserted from */

struct gv_set { _Bool has_g0; int card; int gv_last; long gv_problem; };

struct ICGS {
  double *A;
  bool internal_data;
  int M1, N1, M2, N2, M12, N12;
  double **column;
  double **row;
  double *p_ak;
  double tolerance;
  struct gv_set lindep;
  bool icgs1_is_ready;
  bool min_x_use_all;
  struct gv_set minx;
  int error_icgs2_defect;
  /* ghost */
  long gv_problem;     /* identity of the current input: bumped by reset() */
};
#define OLD(e) __CPROVER_old(e)

/* std::set<int> minx */
static inline void gv_set_clear(struct gv_set *s) { s->has_g0 = 0; }
static inline void gv_set_insert(struct gv_set *s, int x) { if (x == gv_g0) s->has_g0 = 1; }
/* std::set<int> lindep of ICGS *self: only indices of columns of the design matrix may be flagged (C20) */
static inline void gv_lindep_clear(struct ICGS *self) { self->lindep.has_g0 = 0; self->lindep.card = 0; self->lindep.gv_last = 0; self->lindep.gv_problem = self->gv_problem; }
static inline void gv_lindep_insert(struct ICGS *self, int x)
{
  __CPROVER_assert(1 <= x && x <= self->N1, "C20: a column flagged as linearly dependent is a column of the design matrix: 1 <= x <= N1");
  __CPROVER_assert(x > self->lindep.gv_last, "lindep.insert: the flagged columns come in increasing order (every insert is a new element)");
  self->lindep.gv_last = x;
  self->lindep.card++;
  if (x == gv_g0) self->lindep.has_g0 = 1;
}
static inline int gv_lindep_size(const struct ICGS *self) { return self->lindep.card; }

/* numeric kernels of ICGS (value-opaque stubs; their bodies are not under contract here) and column access */
static inline double *gv_col(const struct ICGS *self, int j)
{
  __CPROVER_assert(self->column != NULL, "column[j]: the column table exists (reset was called)");
  __CPROVER_assert(1 <= j && j <= self->N12, "column[j]: 1 <= j <= N12");
  double *p; return p;
}
static inline double ICGS_norm1st(const struct ICGS *self, double *r) { double v; return v; }
static inline void ICGS_cscale1st(struct ICGS *self, double *col, double sc) {}
static inline void ICGS_ccopy1st(struct ICGS *self, double *from, double *to) {}
/* the CUT region of icgs1(): `for (int iter=1; iter<=2; iter++) { r_jk = <p,q_j>;  p -= q_j*r_jk  (j = 1..jmax) }` works on p_ak, rjk and column[1..jmax] only */
static inline void gv_icgs1_sweep(struct ICGS *self, int k, int jmax, double *rjk)
{
  __CPROVER_assert(self->p_ak != NULL && rjk != NULL, "orthogonalisation sweep: work space exists");
  __CPROVER_assert(0 <= jmax && jmax <= self->N1 && jmax < k, "orthogonalisation sweep: columns 1..jmax precede column k and belong to the first block");
}

#define DIMS_OK(s) (0 <= (s)->M1 && (s)->M1 <= MAXDIM && 0 <= (s)->N1 && (s)->N1 <= MAXDIM && 0 <= (s)->M2 && (s)->M2 <= MAXDIM && 0 <= (s)->N2 && (s)->N2 <= MAXDIM && \
                    (s)->M12 == (s)->M1 + (s)->M2 && (s)->N12 == (s)->N1 + (s)->N2)
#define TABS_OK(s) (((s)->column == NULL || __CPROVER_rw_ok((s)->column, sizeof(double *))) && ((s)->row == NULL || __CPROVER_rw_ok((s)->row, sizeof(double *))) && \
                    ((s)->p_ak == NULL || __CPROVER_rw_ok((s)->p_ak, sizeof(double))) && (!(s)->internal_data || (s)->A == NULL || __CPROVER_rw_ok((s)->A, sizeof(double))))
#define EPOCH_OK(s) (0 <= (s)->gv_problem && (s)->gv_problem < MAXEPOCH)

static void mk_icgs(struct ICGS *G)
{
  _Bool nocol, norow, nopak, noA;
  __CPROVER_assume(DIMS_OK(G) && EPOCH_OK(G));
  G->column = nocol ? NULL : malloc(((size_t)G->N12 + 1) * sizeof(double *));
  G->row = norow ? NULL : malloc(((size_t)G->M12 + 1) * sizeof(double *));
  G->p_ak = nopak ? NULL : malloc(((size_t)G->M12 + 1) * sizeof(double));
  G->A = noA ? NULL : malloc(sizeof(double));
  __CPROVER_assume((nocol || G->column != NULL) && (norow || G->row != NULL) && (nopak || G->p_ak != NULL) && (noA || G->A != NULL));
  gv_exc = 0;
}
//@ end

/* min_x(): the request becomes "all unknowns" (icgs2 rebuilds minx = {1..N1} from it, see icgs2_all) */
//@ contract ICGS_min_x
__CPROVER_assigns(self->min_x_use_all)
__CPROVER_ensures(self->min_x_use_all)
//@ entry ICGS_min_x
GV_CANARY("ICGS_min_x entry");
//@ end

/* min_x(n, list): the request becomes EXACTLY the set of the elements of list */
//@ contract ICGS_min_x_list
__CPROVER_requires(n <= MAXDIM && __CPROVER_r_ok(list, (size_t)GV_MAX(n, 0) * sizeof(int)))
__CPROVER_assigns(self->min_x_use_all, self->minx, gv_wit)
__CPROVER_ensures(!self->min_x_use_all)
__CPROVER_ensures((0 <= gv_k0 && gv_k0 < n && list[gv_k0] == gv_g0) ==> self->minx.has_g0)
__CPROVER_ensures(self->minx.has_g0 ==> (0 <= gv_wit && gv_wit < n && list[gv_wit] == gv_g0))
//@ entry ICGS_min_x_list
GV_CANARY("ICGS_min_x_list entry");
//@ loop ICGS_min_x_list 1
__CPROVER_assigns(i, self->minx, gv_wit)
__CPROVER_loop_invariant(0 <= i && i <= GV_MAX(n, 0) &&
                         ((0 <= gv_k0 && gv_k0 < i && list[gv_k0] == gv_g0) ==> self->minx.has_g0) &&
                         (self->minx.has_g0 ==> (0 <= gv_wit && gv_wit < i && list[gv_wit] == gv_g0)))
__CPROVER_decreases((long)GV_MAX(n, 0) - i)
//@ tail ICGS_min_x_list 1
if (list[i] == gv_g0) gv_wit = i;     /* ghost: remember where g0 came from */
//@ end

/* icgs2(), request "all": minx becomes exactly {1..N1} whatever an earlier request / an earlier (larger) problem left in it */
//@ contract ICGS_icgs2_all
__CPROVER_requires(0 <= self->N1 && self->N1 <= MAXDIM)
__CPROVER_assigns(self->minx)
__CPROVER_ensures(self->minx.has_g0 == (1 <= gv_g0 && gv_g0 <= self->N1))
//@ entry ICGS_icgs2_all
GV_CANARY("ICGS_icgs2_all entry");
//@ loop ICGS_icgs2_all 1
__CPROVER_assigns(i, self->minx)
__CPROVER_loop_invariant(1 <= i && i <= self->N1 + 1 && self->minx.has_g0 == (1 <= gv_g0 && gv_g0 < i))
__CPROVER_decreases((long)self->N1 + 1 - i)
//@ end

/* reset(a, m1, n1, m2, n2): a new input.  Block sizes follow the arguments (defaults n2 = 1, m2 = n1), fresh 1-based pointer tables over a,
   the object does not own a.  The regularisation REQUEST (min_x_use_all, minx) is not assignable: it survives, as for a fresh object that
   was given the same request.
   -DGV_STRICT_ICGS_READY adds the clause that follows from the way icgs2() uses the flag (`if (!icgs1_is_ready) icgs1();`):
   icgs1_is_ready ==> the dependent-column set belongs to the CURRENT input.  reset() sets the flag although lindep is still the old set. */
//@ contract ICGS_reset
__CPROVER_requires(EPOCH_OK(self) && TABS_OK(self))
__CPROVER_requires(a != NULL && 0 <= m1 && m1 <= MAXDIM && 0 <= n1 && n1 <= MAXDIM && 0 <= m2 && m2 <= MAXDIM && 0 <= n2 && n2 <= MAXDIM)
__CPROVER_assigns(self->icgs1_is_ready, self->M1, self->M2, self->N1, self->N2, self->M12, self->N12, self->A, self->internal_data, self->column, self->row, self->gv_problem)
__CPROVER_frees(self->A, self->column, self->row)
__CPROVER_ensures(self->M1 == m1 && self->N1 == n1 && self->M2 == (m2 == 0 ? n1 : m2) && self->N2 == (n2 == 0 ? 1 : n2) && DIMS_OK(self))
__CPROVER_ensures(self->A == a && !self->internal_data)
__CPROVER_ensures(__CPROVER_is_fresh(self->column, ((size_t)self->N12 + 1) * sizeof(double *)) && __CPROVER_is_fresh(self->row, ((size_t)self->M12 + 1) * sizeof(double *)))
__CPROVER_ensures(self->column[0] == NULL && self->row[0] == NULL && (self->N12 < 1 || self->column[1] == a) && (self->M12 < 1 || self->row[1] == a))
__CPROVER_ensures(self->gv_problem == OLD(self->gv_problem) + 1)
#ifdef GV_STRICT_ICGS_READY
__CPROVER_ensures(self->icgs1_is_ready ==> self->lindep.gv_problem == self->gv_problem)
#endif
//@ entry ICGS_reset
GV_CANARY("ICGS_reset entry");
self->gv_problem++;     /* ghost: a new input */
//@ loop ICGS_reset 1
__CPROVER_assigns(j, t, __CPROVER_object_whole(self->column))
__CPROVER_loop_invariant(1 <= j && j <= self->N12 + 1 && self->column[0] == NULL && (j != 1 || t == a) && (j < 2 || self->column[1] == a))
__CPROVER_decreases((long)self->N12 + 1 - j)
//@ loop ICGS_reset 2
__CPROVER_assigns(i, t, __CPROVER_object_whole(self->row))
__CPROVER_loop_invariant(1 <= i && i <= self->M12 + 1 && self->row[0] == NULL && (i != 1 || t == a) && (i < 2 || self->row[1] == a))
__CPROVER_decreases((long)self->M12 + 1 - i)
//@ end

/* icgs1(): afterwards the dependent-column set is the one of the CURRENT input, a subset of [1, N1] (asserted at every insert), its size
   defect() <= N1, no second-pass error is recorded, the flag is set and the work space has M12+1 elements */
//@ contract ICGS_icgs1
__CPROVER_requires(EPOCH_OK(self) && DIMS_OK(self) && TABS_OK(self) && self->column != NULL)
__CPROVER_requires(self->M1 >= 1 && self->N1 >= 1)
__CPROVER_assigns(self->lindep, self->icgs1_is_ready, self->error_icgs2_defect, self->p_ak)
__CPROVER_frees(self->p_ak)
__CPROVER_ensures(self->icgs1_is_ready && self->error_icgs2_defect == 0)
__CPROVER_ensures(self->lindep.gv_problem == self->gv_problem)
__CPROVER_ensures(self->lindep.has_g0 ==> (1 <= gv_g0 && gv_g0 <= self->N1))
__CPROVER_ensures(0 <= self->lindep.card && self->lindep.card <= self->N1)
__CPROVER_ensures(__CPROVER_is_fresh(self->p_ak, ((size_t)self->M12 + 1) * sizeof(double)))
//@ entry ICGS_icgs1
GV_CANARY("ICGS_icgs1 entry");
//@ loop ICGS_icgs1 1
__CPROVER_assigns(k, self->lindep)
__CPROVER_loop_invariant(2 <= k && k <= self->N12 + 1 && self->lindep.gv_problem == self->gv_problem &&
                         0 <= self->lindep.card && self->lindep.card <= GV_MIN(k - 1, self->N1) &&
                         0 <= self->lindep.gv_last && self->lindep.gv_last < k &&
                         (self->lindep.has_g0 ==> (1 <= gv_g0 && gv_g0 <= self->N1)))
__CPROVER_decreases((long)self->N12 + 1 - k)
//@ end

//@ harness
void h_min_x(void)
{
  struct ICGS G; mk_icgs(&G);
  ICGS_min_x(&G);
  GV_CANARY("h_min_x end");
}
void h_min_x_list(void)
{
  struct ICGS G; mk_icgs(&G);       /* arbitrary earlier state: G.minx.has_g0 is unconstrained (the object is re-used) */
  int n, g0, k0, w;
  __CPROVER_assume(n <= MAXDIM);
  int *list = malloc((size_t)GV_MAX(n, 0) * sizeof(int));
  __CPROVER_assume(list != NULL);
  gv_g0 = g0; gv_k0 = k0; gv_wit = w;
  _Bool w_was_member = G.minx.has_g0;
  ICGS_min_x_list(&G, n, list);
  GV_CANARY("h_min_x_list end");
}
void h_icgs2_all(void)
{
  struct ICGS G; mk_icgs(&G);
  int g0; gv_g0 = g0;
  ICGS_icgs2_all(&G);
  GV_CANARY("h_icgs2_all end");
}
void h_reset(void)
{
  struct ICGS G; mk_icgs(&G);
  int m1, n1, m2, n2;
  double *a;
  a = malloc(sizeof(double)); __CPROVER_assume(a != NULL);
  ICGS_reset(&G, a, m1, n1, m2, n2);
  GV_CANARY("h_reset end");
}
void h_icgs1(void)
{
  struct ICGS G; mk_icgs(&G);
  int g0; gv_g0 = g0;
  ICGS_icgs1(&G);
  GV_CANARY("h_icgs1 end");
}
//@ end
