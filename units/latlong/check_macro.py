#!/usr/bin/env python3
"""pre-step of unit latlong: RAD_TO_DEG in the repository is the text the prelude defines (args: repo, scratch dir)"""
import re, sys
t = open(sys.argv[1] + '/lib/gnu_gama/radian.h').read()
m = re.search(r'#define\s+RAD_TO_DEG\s+(.*)', t)
if not m or re.sub(r'\s+', '', m.group(1)) != '180.0/M_PI':
    print('RAD_TO_DEG is %r, the unit expects 180.0/M_PI' % (m.group(1) if m else None)); sys.exit(1)
