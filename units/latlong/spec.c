/* Sidecar contract for the sexagesimal formatter of lib/gnu_gama/latlong.cpp (latitude()/longitude() both return
   latlong(rad, prec); gama-g3 prints point positions with it), property C18: "sexagesimal ... strings ... with valid field
   ranges ... all angles incl. negatives and values whose seconds round up".  The arithmetic prefix and the carry are the
   repository's text; the two std::ostringstream passages are stubs with the assumed contract of unit gon2deg.
   On the tree as found there was no carry: latitude(10 deg 59' 59.99999999", 7) printed "10-59-60.0000000"
   (demos/C18_latlong_seconds.cpp).                                                                                  */

//@ prelude
#include <stdbool.h>
#ifndef M_PI
#define M_PI 3.14159265358979323846264338327950288419716939937510
#endif
#define RAD_TO_DEG 180.0/M_PI   /* exactly the text of lib/gnu_gama/radian.h (checked by the pre-step) */
int gv_exc;
struct gv_dms { int d, m; double sec; bool negative; };
#define GV_ROUNDS_TO_60(sec, prec)                                                                             \
  ((prec) == 0 ? (sec) >= 59.5 : (prec) == 1 ? (sec) >= 59.95 : (prec) == 2 ? (sec) >= 59.995                   \
   : (prec) == 3 ? (sec) >= 59.9995 : (prec) == 4 ? (sec) >= 59.99995 : (prec) == 5 ? (sec) >= 59.999995         \
   : (prec) == 6 ? (sec) >= 59.9999995 : (prec) == 7 ? (sec) >= 59.99999995 : (sec) >= 59.999999995)
int gv_d0, gv_m0; double gv_s0;     /* ghost: the fields before the round-up test */
static inline bool gv_prints_60(double sec, int prec)
{
  __CPROVER_assert(0 <= sec && sec < 60, "seconds value in [0, 60) before the round-up test");
  return GV_ROUNDS_TO_60(sec, prec);
}
static inline struct gv_dms gv_print_dms(int d, int m, double sec, bool negative, int prec)
{
  __CPROVER_assert(d >= 0, "degrees field is non-negative (the sign is placed separately)");
  __CPROVER_assert(0 <= m && m <= 59, "minutes field in 0..59");
  __CPROVER_assert(0 <= sec && sec < 60, "seconds value in [0, 60) before formatting");
  __CPROVER_assert(!GV_ROUNDS_TO_60(sec, prec), "printed seconds field < 60 (does not round up to 60.0..0 at prec decimals)");
  __CPROVER_assert(GV_ROUNDS_TO_60(gv_s0, prec) ? (sec == 0 && (long)d * 60 + m == (long)gv_d0 * 60 + gv_m0 + 1)
                                                : (sec == gv_s0 && d == gv_d0 && m == gv_m0),
                   "the printed fields are the computed angle rounded to prec decimals of a second (carry of exactly one minute)");
  struct gv_dms r; r.d = d; r.m = m; r.sec = sec; r.negative = negative;
  return r;
}
//@ end

//@ contract latlong
__CPROVER_requires(rad >= -7 && rad <= 7 && 0 <= prec && prec <= 8)
__CPROVER_assigns(gv_d0, gv_m0, gv_s0)
__CPROVER_ensures(__CPROVER_return_value.negative == (__CPROVER_old(rad) < 0))
__CPROVER_ensures(0 <= __CPROVER_return_value.d && __CPROVER_return_value.d <= 402)
__CPROVER_ensures(0 <= __CPROVER_return_value.m && __CPROVER_return_value.m <= 59)
__CPROVER_ensures(0 <= __CPROVER_return_value.sec && __CPROVER_return_value.sec < 60 && !GV_ROUNDS_TO_60(__CPROVER_return_value.sec, prec))
//@ entry latlong
GV_CANARY("latlong entry");
//@ at latlong precarry
gv_d0 = d; gv_m0 = m; gv_s0 = rad;   /* ghost capture only */
//@ end

//@ harness
void h_latlong(void)
{
  double rad; int prec;
  __CPROVER_assume(rad >= -7 && rad <= 7 && 0 <= prec && prec <= 8);
  double w_rad = rad; int w_prec = prec;
  struct gv_dms r = latlong(rad, prec);
  GV_CANARY("h_latlong end");
}
//@ end
