/* Sidecar contracts for lib/gnu_gama/sparse/sbdiagonal.h  (BlockDiagonal<double,int>, UpperBlockDiagonal<double,int>:
   the instantiation used by AdjInputData, Homogenization, LocalNetwork).  Bodies are extracted from /repo on every run. */

//@ prelude
#include <string.h>
#include <limits.h>
typedef double Float;
typedef int Index;
#define FSZ ((long)sizeof(Float))
#define PSZ ((long)sizeof(Float *))
_Static_assert(sizeof(Float) == 8 && sizeof(Index) == 4 && sizeof(Float *) == 8, "element sizes");
/* CBMC 6.11's memcpy model loses values on objects typed T[k] by a sizeof-annotated allocation size (measured in
   units/smatrix); allocations are therefore written with literal element sizes. */
#define GV_SZ_Float 8ul
#define GV_SZ_Index 4ul
#undef GV_NEW
#define GV_NEW(T, n) ((T *)gv_new((size_t)(n) * GV_SZ_##T))
#define GV_NEWP(n) ((Float **)gv_new((size_t)(n) * 8ul))

#ifndef GV_MAXD
#define GV_MAXD 32768
#endif
#define MAXD GV_MAXD          /* block dimension bound (stated precondition): bdim*(bwidth+1) must not overflow int */
#define MAXB 1000000        /* number of blocks */
#define MAXF 1000000000L    /* number of stored floats */
#define MAXSZ 2147483645    /* total dimension: UpperBlockDiagonal allocates dim()+2 row pointers */

struct BlockDiagonal {
  Index   blocks_;
  Float  *nonz_;
  Index   ncnt_;
  Index   size_;
  Index  *dim_;
  Index  *width_;
  Float **begin_;
  long    gv_bcap;   /* ghost: block capacity given to init() */
  long    gv_fcap;   /* ghost: float capacity given to init() */
};
struct UpperBlockDiagonal {
  const struct BlockDiagonal *blockd;
  const Float **row;
};

int   gv_exc;
Index gv_b0;   /* ghost block index */
Index gv_k0;   /* ghost element index inside a block */
Index gv_r0;   /* ghost global row index (UpperBlockDiagonal) */
long  gv_acc;  /* ghost: floats passed by the row walk of the current block */
long  gv_rows; /* ghost: rows of the blocks already walked */
#define FEQ(a, b) ((a) == (b) || ((a) != (a) && (b) != (b)))

/* number of stored elements of a symmetric band block: dim d, bandwidth w (0 <= w < d), upper rows
   row i (1-based) holds min(w, d-i)+1 elements */
#define NFORM(d, w) ((d) * ((w) + 1) - (w) * ((w) + 1) / 2)

/* floats passed after i rows (0 <= i <= d) of a block: closed form of  sum_{k=1..i} min(w+1, d-k+1) */
#define PFORM(d, w, i) ((i) <= (d) - (w) ? (i) * ((w) + 1) : NFORM(d, w) - ((d) - (i)) * ((d) - (i) + 1) / 2)

#define WF_SHAPE(B)                                                                                        \
  (0 <= (B)->blocks_ && (B)->blocks_ <= (B)->gv_bcap && (B)->gv_bcap <= MAXB &&                             \
   0 <= (B)->ncnt_ && (B)->ncnt_ <= (B)->gv_fcap && (B)->gv_fcap <= MAXF && 0 <= (B)->size_ && (B)->size_ <= MAXSZ && \
   __CPROVER_rw_ok((B)->dim_, ((B)->gv_bcap + 1) * sizeof(Index)) &&                                        \
   __CPROVER_rw_ok((B)->width_, ((B)->gv_bcap + 1) * sizeof(Index)) &&                                      \
   __CPROVER_rw_ok((B)->begin_, ((B)->gv_bcap + 2) * sizeof(Float *)) &&                                    \
   __CPROVER_rw_ok((B)->nonz_, (B)->gv_fcap * sizeof(Float)) &&                                             \
   !SAME((B)->nonz_, (B)->begin_) && !SAME((B)->nonz_, (B)->dim_) && !SAME((B)->nonz_, (B)->width_) &&      \
   !SAME((B)->begin_, (B)->dim_) && !SAME((B)->begin_, (B)->width_) && !SAME((B)->dim_, (B)->width_) &&     \
   OFF((B)->nonz_) == 0 && SAME((B)->begin_[1], (B)->nonz_) && OFF((B)->begin_[1]) == 0 &&                  \
   SAME((B)->begin_[(B)->blocks_ + 1], (B)->nonz_) && OFF((B)->begin_[(B)->blocks_ + 1]) == FSZ * (B)->ncnt_)

/* block fact, 1 <= b <= blocks_ : legal (dim,width) and the block occupies exactly NFORM floats inside nonz_ */
#define WF_BLOCK(B, b)                                                                                     \
  (1 <= (B)->dim_[b] && (B)->dim_[b] <= MAXD && 0 <= (B)->width_[b] && (B)->width_[b] < (B)->dim_[b] &&     \
   SAME((B)->begin_[b], (B)->nonz_) && SAME((B)->begin_[(b) + 1], (B)->nonz_) && OFF((B)->begin_[b]) >= 0 &&\
   OFF((B)->begin_[b]) % FSZ == 0 &&                                                                        \
   OFF((B)->begin_[(b) + 1]) == OFF((B)->begin_[b]) + FSZ * NFORM((B)->dim_[b], (B)->width_[b]) && \
   OFF((B)->begin_[(b) + 1]) <= FSZ * (B)->ncnt_)
#define BLK_IN(B, b) (1 <= (b) && (b) <= (B)->blocks_)

static void mk_bd(struct BlockDiagonal *B)
{
  long bc, fc;
  Index nb, nc, sz;
  __CPROVER_assume(0 <= nb && nb <= bc && bc <= MAXB && 0 <= nc && nc <= fc && fc <= MAXF && 0 <= sz && sz <= MAXSZ);
  B->gv_bcap = bc; B->gv_fcap = fc; B->blocks_ = nb; B->ncnt_ = nc; B->size_ = sz;
  B->dim_ = malloc((bc + 1) * 4ul);
  B->width_ = malloc((bc + 1) * 4ul);
  B->begin_ = malloc((bc + 2) * 8ul);
  B->nonz_ = malloc(fc * 8ul);
  __CPROVER_assume(B->dim_ && B->width_ && B->begin_ && B->nonz_);
  __CPROVER_assume(B->begin_[1] == B->nonz_ && B->begin_[nb + 1] == B->nonz_ + nc);
}
//@ end

/* ---- init(blcks, floats): empty well-formed matrix with the requested capacities ---- */
//@ contract BlockDiagonal_init
__CPROVER_requires(__CPROVER_rw_ok(self, sizeof(struct BlockDiagonal)))
__CPROVER_requires(0 <= blcks && blcks <= MAXB && 0 <= floats && floats <= MAXF)
__CPROVER_assigns(__CPROVER_object_whole(self))
__CPROVER_ensures(WF_SHAPE(self) && self->blocks_ == 0 && self->ncnt_ == 0 && self->size_ == 0 &&
                  self->gv_bcap == blcks && self->gv_fcap == floats)
//@ entry BlockDiagonal_init
GV_CANARY("BlockDiagonal_init entry");
self->gv_bcap = blcks;
self->gv_fcap = floats;
//@ end

/* ---- add_block(bdim, bwidth, mem).  Preconditions NOT checked by the code (nothing is thrown): a free block slot,
        room for N floats, 0 <= bwidth < bdim.  N = bdim*(bwidth+1) - bwidth*(bwidth+1)/2 is computed in int:
        bdim <= 2^15 is the stated bound under which it cannot overflow.                                     ---- */
//@ contract BlockDiagonal_add_block
__CPROVER_requires(__CPROVER_rw_ok(self, sizeof(struct BlockDiagonal)))
__CPROVER_requires(WF_SHAPE(self) && self->blocks_ < self->gv_bcap)
__CPROVER_requires(1 <= bdim && bdim <= MAXD && 0 <= bwidth && bwidth < bdim)
__CPROVER_requires(self->ncnt_ + NFORM(bdim, bwidth) <= self->gv_fcap && (long)self->size_ + bdim <= MAXSZ)
__CPROVER_requires(__CPROVER_r_ok(mem, NFORM(bdim, bwidth) * sizeof(Float)) && !SAME(mem, self->nonz_) &&
                   !SAME(mem, self) && !SAME(mem, self->begin_) && !SAME(mem, self->dim_) && !SAME(mem, self->width_))
__CPROVER_requires(BLK_IN(self, gv_b0) ==> WF_BLOCK(self, gv_b0))
__CPROVER_assigns(self->blocks_, self->size_, self->ncnt_, __CPROVER_object_whole(self->begin_), __CPROVER_object_whole(self->nonz_),
                  __CPROVER_object_whole(self->dim_), __CPROVER_object_whole(self->width_))
__CPROVER_ensures(WF_SHAPE(self))
__CPROVER_ensures(self->blocks_ == __CPROVER_old(self->blocks_) + 1 && self->size_ == __CPROVER_old(self->size_) + bdim &&
                  self->ncnt_ == __CPROVER_old(self->ncnt_) + NFORM(bdim, bwidth))
__CPROVER_ensures(BLK_IN(self, gv_b0) ==> WF_BLOCK(self, gv_b0))
__CPROVER_ensures(self->dim_[self->blocks_] == bdim && self->width_[self->blocks_] == bwidth &&
                  OFF(self->begin_[self->blocks_]) == FSZ * __CPROVER_old(self->ncnt_))
__CPROVER_ensures((0 <= gv_k0 && gv_k0 < NFORM(bdim, bwidth)) ==> FEQ(self->begin_[self->blocks_][gv_k0], mem[gv_k0]))
//@ entry BlockDiagonal_add_block
GV_CANARY("BlockDiagonal_add_block entry");
//@ end

/* ---- accessors ---- */
//@ contract BlockDiagonal_blocks
__CPROVER_requires(__CPROVER_r_ok(self, sizeof(struct BlockDiagonal)))
__CPROVER_assigns()
__CPROVER_ensures(__CPROVER_return_value == self->blocks_)
//@ entry BlockDiagonal_blocks
GV_CANARY("BlockDiagonal_blocks entry");
//@ contract BlockDiagonal_dim0
__CPROVER_requires(__CPROVER_r_ok(self, sizeof(struct BlockDiagonal)))
__CPROVER_assigns()
__CPROVER_ensures(__CPROVER_return_value == self->size_)
//@ entry BlockDiagonal_dim0
GV_CANARY("BlockDiagonal_dim0 entry");
//@ contract BlockDiagonal_dimi
__CPROVER_requires(WF_SHAPE(self) && BLK_IN(self, i))
__CPROVER_assigns()
__CPROVER_ensures(__CPROVER_return_value == self->dim_[i])
//@ entry BlockDiagonal_dimi
GV_CANARY("BlockDiagonal_dimi entry");
//@ contract BlockDiagonal_width
__CPROVER_requires(WF_SHAPE(self) && BLK_IN(self, i))
__CPROVER_assigns()
__CPROVER_ensures(__CPROVER_return_value == self->width_[i])
//@ entry BlockDiagonal_width
GV_CANARY("BlockDiagonal_width entry");
//@ contract BlockDiagonal_begin
__CPROVER_requires(WF_SHAPE(self) && BLK_IN(self, i) && WF_BLOCK(self, i))
__CPROVER_assigns()
__CPROVER_ensures(__CPROVER_return_value == self->begin_[i] && SAME(__CPROVER_return_value, self->nonz_) &&
                  0 <= OFF(__CPROVER_return_value) && OFF(__CPROVER_return_value) <= FSZ * self->ncnt_)
//@ entry BlockDiagonal_begin
GV_CANARY("BlockDiagonal_begin entry");
//@ contract BlockDiagonal_end
__CPROVER_requires(WF_SHAPE(self) && BLK_IN(self, i) && WF_BLOCK(self, i))
__CPROVER_assigns()
__CPROVER_ensures(__CPROVER_return_value == self->begin_[i + 1] && SAME(__CPROVER_return_value, self->nonz_) &&
                  OFF(__CPROVER_return_value) == OFF(self->begin_[i]) + FSZ * NFORM(self->dim_[i], self->width_[i]) &&
                  OFF(__CPROVER_return_value) <= FSZ * self->ncnt_)
//@ entry BlockDiagonal_end
GV_CANARY("BlockDiagonal_end entry");
//@ contract BlockDiagonal_begin_c
__CPROVER_requires(WF_SHAPE(self) && BLK_IN(self, i) && WF_BLOCK(self, i))
__CPROVER_assigns()
__CPROVER_ensures(__CPROVER_return_value == self->begin_[i])
//@ entry BlockDiagonal_begin_c
GV_CANARY("BlockDiagonal_begin_c entry");
//@ end

/* ---- UpperBlockDiagonal(bd): row pointer table of the upper band factor.
        U1  memory safety for all layouts: row[] has dim()+2 slots, the walk writes slots 1 .. dim()+1 only --
            this needs  sum of block dimensions == dim()  (ghost prefix fact gv_rows, see SIZE_IS_SUM below);
        U2  row i of a block holds min(width, dim-i)+1 floats (row_width), every row is non-empty;
        U3  the rows of a block tile it exactly: the walk of block b ends at begin(b+1).  The sum of the row widths
            is kept in the ghost accumulator gv_acc (linear); that it equals NFORM(dim,width) is the nonlinear
            identity proved by z3 (lemma check `layout_lemmas`): the invariant states gv_acc == PFORM(dim,width,i-1)
            with the closed form PFORM, and uses the z3-proved step identity at the current row.               ---- */
//@ contract UpperBlockDiagonal_ctor
__CPROVER_requires(__CPROVER_rw_ok(self, sizeof(struct UpperBlockDiagonal)) && __CPROVER_r_ok(bd, sizeof(struct BlockDiagonal)))
__CPROVER_requires(WF_SHAPE(bd) && !SAME(self, bd))
__CPROVER_assigns(__CPROVER_object_whole(self), gv_acc, gv_rows)
__CPROVER_ensures(self->blockd == bd)
__CPROVER_ensures(bd->size_ == 0 ==> self->row == NULL)
__CPROVER_ensures(bd->size_ > 0 ==> __CPROVER_rw_ok(self->row, ((long)bd->size_ + 2) * sizeof(Float *)))
//@ entry UpperBlockDiagonal_ctor
GV_CANARY("UpperBlockDiagonal_ctor entry");
self->blockd = bd; self->row = 0;      /* the constructor's member-initialiser list  : blockd(bd), row(0)  */
//@ pre UpperBlockDiagonal_ctor 1
gv_rows = 0;
//@ loop UpperBlockDiagonal_ctor 1
__CPROVER_assigns(r, b, gv_acc, gv_rows, __CPROVER_object_whole(self->row))
__CPROVER_loop_invariant(1 <= b && b <= bd->blocks_ + 1 && r == gv_rows && 0 <= r && r <= bd->size_ &&
                         (b == bd->blocks_ + 1 ==> r == bd->size_) && gv_rows + (bd->blocks_ + 1 - b) <= bd->size_)
__CPROVER_decreases((long)bd->blocks_ + 1 - b)
//@ head UpperBlockDiagonal_ctor 1
GV_INST(BLK_IN(bd, b), WF_BLOCK(bd, b));
/* dim() is the sum of the block dimensions (maintained by add_block: size_ += bdim), in prefix form: the rows of
   blocks 1..b never exceed dim(), and the last block ends exactly at dim() */
GV_INST(BLK_IN(bd, b), gv_rows + bd->dim_[b] + (bd->blocks_ - b) <= bd->size_ && (b == bd->blocks_ ==> gv_rows + bd->dim_[b] == bd->size_));
gv_acc = 0;
//@ tail UpperBlockDiagonal_ctor 1
__CPROVER_assert(gv_acc == NFORM(dim, width), "U3: the rows of block b tile it exactly (sum of row widths == N)");
__CPROVER_assert(SAME(mem, bd->nonz_) && OFF(mem) == OFF(bd->begin_[b + 1]), "U3: the row walk of block b ends at begin(b+1)");
gv_rows += dim;
//@ loop UpperBlockDiagonal_ctor 2
__CPROVER_assigns(i, row_width, r, mem, gv_acc, __CPROVER_object_whole(self->row))
__CPROVER_loop_invariant(1 <= i && i <= dim + 1 && r == gv_rows + (i - 1) && SAME(mem, bd->nonz_) &&
                         gv_acc == PFORM(dim, width, i - 1) && 0 <= gv_acc &&
                         OFF(mem) == OFF(bd->begin_[b]) + FSZ * gv_acc)
__CPROVER_decreases((long)dim + 1 - i)
//@ head UpperBlockDiagonal_ctor 2
/* z3-proved identity (layout_lemmas: P_step): PFORM(d,w,i) == PFORM(d,w,i-1) + min(w+1, d-i+1)  for 1 <= i <= d, 0 <= w < d */
GV_INST(1 <= i && i <= dim && 0 <= width && width < dim,
        PFORM(dim, width, i) == PFORM(dim, width, i - 1) + GV_MIN(width + 1, dim - i + 1));
//@ tail UpperBlockDiagonal_ctor 2
__CPROVER_assert(row_width == GV_MIN(width, dim - i) + 1 && row_width >= 1, "U2: row i holds min(width, dim-i)+1 floats");
gv_acc += row_width;
//@ end

//@ harness
void h_init(void)
{
  struct BlockDiagonal B;
  Index nb, nf;
  __CPROVER_assume(0 <= nb && nb <= MAXB && 0 <= nf && nf <= MAXF);
  BlockDiagonal_init(&B, nb, nf);
  GV_CANARY("h_init end");
}

void h_add_block(void)
{
  struct BlockDiagonal B;
  mk_bd(&B);
  Index d, w, b0, k0;
  __CPROVER_assume(B.blocks_ < B.gv_bcap && 1 <= d && d <= MAXD && 0 <= w && w < d);
  Index N = NFORM(d, w);
  __CPROVER_assume(B.ncnt_ + N <= B.gv_fcap && (long)B.size_ + d <= MAXSZ);
  Float *mem = malloc((size_t)N * 8ul);
  __CPROVER_assume(mem);
  gv_b0 = b0; gv_k0 = k0;
  __CPROVER_assume(BLK_IN(&B, gv_b0) ==> WF_BLOCK(&B, gv_b0));
  BlockDiagonal_add_block(&B, d, w, mem);
  GV_CANARY("h_add_block end");
}

void h_access(void)
{
  struct BlockDiagonal B;
  mk_bd(&B);
  Index i;
  __CPROVER_assume(BLK_IN(&B, i) && WF_BLOCK(&B, i));
  Index nb = BlockDiagonal_blocks(&B), sz = BlockDiagonal_dim0(&B), d = BlockDiagonal_dimi(&B, i), w = BlockDiagonal_width(&B, i);
  Float *b = BlockDiagonal_begin(&B, i), *e = BlockDiagonal_end(&B, i);
  const Float *cb = BlockDiagonal_begin_c(&B, i);
  __CPROVER_assert(cb == b && SAME(e, b) && OFF(b) <= OFF(e), "begin(i) <= end(i), const and non-const begin agree");
  GV_CANARY("h_access end");
}

void h_upper(void)
{
  struct BlockDiagonal B;
  mk_bd(&B);
  struct UpperBlockDiagonal U;
  UpperBlockDiagonal_ctor(&U, &B);
  GV_CANARY("h_upper end");
}
//@ end
