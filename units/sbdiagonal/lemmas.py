#!/usr/bin/env python3
"""z3 (Int sort, mathematical integers) lemmas for the band-block layout of BlockDiagonal / UpperBlockDiagonal.
   argv[1] = generated C file of the unit, argv[2] = repository root.
   The formula N is taken from the EXTRACTED text of BlockDiagonal::add_block in the generated C file and the
   closed forms NFORM / PFORM from the unit's spec prelude (same file), translated token by token:
   + - * ( ), integer '/' -> floor division on a proved non-negative dividend, 'c ? a : b' -> If."""
import re
import sys
from z3 import Int, IntVal, If, And, Or, Not, Implies, Solver, unsat, ForAll

cfile = sys.argv[1]
text = open(cfile).read()

def fail(msg):
    print('lemma script: ' + msg)
    sys.exit(2)

m = re.search(r'Index\s+N\s*=\s*([^;]+);', text)
if not m:
    fail('statement "Index N = ...;" not found in the extracted add_block')
n_code = m.group(1)
m = re.search(r'#define\s+NFORM\(d,\s*w\)\s*(.+)', text)
if not m:
    fail('NFORM macro not found')
n_spec = m.group(1).strip()
m = re.search(r'#define\s+PFORM\(d,\s*w,\s*i\)\s*(.+)', text)
if not m:
    fail('PFORM macro not found')
p_spec = m.group(1).strip()

side = []   # side conditions: dividends of '/' must be non-negative (then C '/' == floor division)

def tr(expr, env):
    """translate a C integer expression over + - * / ( ) ?: <= and identifiers of env into z3"""
    e = expr
    e = re.sub(r'\bself->\w+\b', lambda mm: fail('unexpected member ' + mm.group(0)), e)
    e = re.sub(r'NFORM\(d,\s*w\)', '(' + n_spec + ')', e)
    toks = re.findall(r'\d+|[A-Za-z_]\w*|<=|[-+*/()?:]', e)
    if ''.join(toks) != re.sub(r'\s+', '', e):
        fail('untranslatable token in %r' % expr)
    pos = [0]
    def peek():
        return toks[pos[0]] if pos[0] < len(toks) else None
    def eat(t=None):
        x = peek()
        if t is not None and x != t:
            fail('expected %r in %r' % (t, expr))
        pos[0] += 1
        return x
    def cond():
        a = rel()
        if peek() == '?':
            eat('?'); x = cond(); eat(':'); y = cond()
            return If(a, x, y)
        return a
    def rel():
        a = add()
        if peek() == '<=':
            eat(); b = add(); return a <= b
        return a
    def add():
        a = mul()
        while peek() in ('+', '-'):
            o = eat(); b = mul(); a = a + b if o == '+' else a - b
        return a
    def mul():
        a = atom()
        while peek() in ('*', '/'):
            o = eat(); b = atom()
            if o == '*':
                a = a * b
            else:
                side.append((a, b))
                a = a / b          # z3 Int division; equals C division when a >= 0 and b > 0 (side condition)
        return a
    def atom():
        x = eat()
        if x == '(':
            v = cond(); eat(')'); return v
        if x == '-':
            return -atom()
        if re.match(r'\d+$', x):
            return IntVal(int(x))
        if x in env:
            return env[x]
        fail('unknown identifier %r in %r' % (x, expr))
    v = cond()
    if pos[0] != len(toks):
        fail('trailing tokens in %r' % expr)
    return v

d, w, i = Int('d'), Int('w'), Int('i')
dom = And(1 <= d, 0 <= w, w < d)
Ncode = tr(n_code, {'bdim': d, 'bwidth': w})
Nspec = tr(n_spec, {'d': d, 'w': w})
P = lambda ii: tr(p_spec, {'d': d, 'w': w, 'i': ii})
Pi, Pim1, P0, Pd = P(i), P(i - 1), P(IntVal(0)), P(d)
mn = If(w + 1 <= d - i + 1, w + 1, d - i + 1)
# evenness of w(w+1) (needed for exact halving) is given to z3 as a case split w = 2q or w = 2q+1
q = Int('q')
par = Or(w == 2 * q, w == 2 * q + 1)

def prove(name, hyp, concl):
    s = Solver()
    s.set('timeout', 60000)
    s.add(hyp, par, Not(concl))
    r = s.check()
    print('LEMMA %s: %s' % (name, 'proved' if r == unsat else 'FAILED (%s)' % r))

prove('N_code_equals_NFORM', dom, Ncode == Nspec)
prove('N_at_least_dim', dom, Nspec >= d)
prove('N_is_rows_times_band_minus_triangle', dom, 2 * Nspec == 2 * d * (w + 1) - w * (w + 1))
prove('P_zero', dom, P0 == 0)
prove('P_step', And(dom, 1 <= i, i <= d), Pi == Pim1 + mn)
prove('P_full_is_N', dom, Pd == Nspec)
prove('P_monotone_bounded', And(dom, 0 <= i, i <= d), And(0 <= Pi, Pi <= Nspec))
prove('row_width_positive', And(dom, 1 <= i, i <= d), mn >= 1)
sc_ok = True
for k, (a, b) in enumerate(side):
    s = Solver(); s.set('timeout', 60000)
    s.add(dom, 0 <= i, i <= d, Not(And(a >= 0, b > 0)))
    if s.check() != unsat:
        sc_ok = False
print('LEMMA division_side_conditions: %s' % ('proved' if sc_ok else 'FAILED'))
