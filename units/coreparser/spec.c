/* Sidecar contracts for lib/gnu_gama/xml/baseparser.cpp : CoreParser::toDouble / toInteger / toIndex  (C11-U2, the
   gating of atof/atoi by the recognisers).  Bodies are extracted from /repo on every run. */

//@ prelude
#include <limits.h>
struct gv_str { long len; char *buf; };
int gv_exc;
#define MAXLEN 1000000L

/* ghost state published by the recogniser stubs */
const struct gv_str *gv_rec_arg;   /* the string the recogniser was last asked about */
bool   gv_rec_accept;              /* its verdict */
double gv_lit_abs;                 /* magnitude of the accepted literal (unbounded: any number of digits) */
bool   gv_lit_neg;
int    gv_conv_calls;              /* number of atof/atoi calls */
long   gv_k0;                      /* ghost index into the string (forall-introduction / existential witness) */

static inline const char *gvs_begin(const struct gv_str *s) { return s->buf; }
static inline const char *gvs_end(const struct gv_str *s) { return s->buf + s->len; }

static inline bool gv_recognise(const struct gv_str *s)
{
  int a, g;
  bool acc = (a != 0);             /* (canonical 0/1 values: an uninitialised _Bool may carry any bit pattern) */
  bool neg = (g != 0);
  double mag;
  __CPROVER_assume(mag >= 0);      /* may be +inf: atof returns HUGE_VAL for a literal beyond the double range */
  /* a negative literal contains a '-': the witness position is the harness-chosen ghost index gv_k0 */
  __CPROVER_assume(!neg || (0 <= gv_k0 && gv_k0 < s->len && s->buf[gv_k0] == '-'));
  gv_rec_arg = s;
  gv_rec_accept = acc;
  gv_lit_abs = mag;
  gv_lit_neg = neg;
  return acc;
}
#define gv_IsFloat(s) gv_recognise(s)
/* an integer literal denotes an integral value (doubles >= 2^52 are all integral) */
#define GV_INTEGRAL(x) ((x) >= 4503599627370496.0 || (x) == (double)(long long)(x))
static inline bool gv_IsInteger(const struct gv_str *s)
{
  bool acc = gv_recognise(s);
  __CPROVER_assume(GV_INTEGRAL(gv_lit_abs));
  return acc;
}
#define GV_ISFINITE(x) __CPROVER_isfinited(x)
#define GV_UCHAR(x) ((unsigned char)((x) & 0xFF))
/* the accepted literal is representable in int: -2147483648 .. 2147483647 */
#define GV_LIT_FITS_INT (gv_lit_neg ? gv_lit_abs <= 2147483648.0 : gv_lit_abs <= 2147483647.0)
#define GV_LIT_VALUE (gv_lit_neg ? -gv_lit_abs : gv_lit_abs)

static inline double gv_atof(const struct gv_str *s)
{
  __CPROVER_assert(gv_rec_arg == s && gv_rec_accept, "atof is reached only on a string that IsFloat accepted");
  gv_conv_calls++;
  return gv_lit_neg ? -gv_lit_abs : gv_lit_abs;
}

static inline int gv_atoi(const struct gv_str *s)
{
  __CPROVER_assert(gv_rec_arg == s && gv_rec_accept, "atoi is reached only on a string that IsInteger accepted");
  __CPROVER_assert(GV_LIT_FITS_INT, "atoi: the accepted literal is representable in int (otherwise undefined, C11 7.22.1p1)");
  gv_conv_calls++;
  int v;
  __CPROVER_assume(!GV_LIT_FITS_INT || (double)v == GV_LIT_VALUE);   /* assumed contract: the value of the literal */
  return v;
}

static inline int gv_isspace(int c)
{
  __CPROVER_assert(c >= -1 && c <= 255, "isspace argument inside the ctype table domain");
  return c == ' ' || (c >= 9 && c <= 13);
}
static inline int gv_isdigit(int c)
{
  __CPROVER_assert(c >= -1 && c <= 255, "isdigit argument inside the ctype table domain");
  return c >= '0' && c <= '9';
}
#define WF_STR(s) (__CPROVER_r_ok(s, sizeof(struct gv_str)) && 0 <= (s)->len && (s)->len <= MAXLEN && __CPROVER_r_ok((s)->buf, (s)->len))
#define GHOSTS gv_rec_arg, gv_rec_accept, gv_lit_abs, gv_lit_neg, gv_conv_calls
//@ end

/* toDouble: true exactly when IsFloat accepts s AND the literal has a finite value (gv_lit_abs is the magnitude atof
   returns: +inf for a literal like 1e999 that overflows double -- a number the later stages cannot use, e.g. the
   reduction of an angle to one turn); then d is that value; otherwise d is untouched.  atof is called only on an
   accepted string. */
//@ contract CoreParser_toDouble
__CPROVER_requires(WF_STR(s) && __CPROVER_w_ok(d__p, sizeof(double)))
__CPROVER_assigns(*d__p, GHOSTS)
__CPROVER_ensures(gv_rec_arg == s && __CPROVER_return_value == (gv_rec_accept && __CPROVER_isfinited(gv_lit_abs)))
__CPROVER_ensures(__CPROVER_return_value ==> __CPROVER_isfinited(*d__p))
__CPROVER_ensures(gv_lit_abs >= 0 && (!gv_lit_neg || (0 <= gv_k0 && gv_k0 < s->len && s->buf[gv_k0] == '-')))   /* facts of the recogniser stub, passed on to callers that use this contract */
__CPROVER_ensures(__CPROVER_return_value ==> (*d__p == (gv_lit_neg ? -gv_lit_abs : gv_lit_abs) && gv_conv_calls == __CPROVER_old(gv_conv_calls) + 1))
__CPROVER_ensures(!__CPROVER_return_value ==> (gv_conv_calls == __CPROVER_old(gv_conv_calls) + (gv_rec_accept ? 1 : 0) &&
                  (*d__p == __CPROVER_old(*d__p) || __CPROVER_old(*d__p) != __CPROVER_old(*d__p))))
//@ entry CoreParser_toDouble
#if GV_HSEL == 1
GV_CANARY("CoreParser_toDouble entry");
#endif
//@ end

/* toInteger: true exactly when IsInteger accepts s AND the literal is representable in int; then value is the value
   of the literal; otherwise value is untouched; no conversion function is called on a refused string. */
//@ contract CoreParser_toInteger
__CPROVER_requires(WF_STR(s) && __CPROVER_w_ok(value__p, sizeof(int)))
__CPROVER_assigns(*value__p, GHOSTS)
__CPROVER_ensures(gv_rec_arg == s && __CPROVER_return_value == (gv_rec_accept && GV_LIT_FITS_INT))
__CPROVER_ensures(__CPROVER_return_value ==> (double)*value__p == GV_LIT_VALUE)
__CPROVER_ensures(!__CPROVER_return_value ==> *value__p == __CPROVER_old(*value__p))
__CPROVER_ensures(!gv_rec_accept ==> gv_conv_calls == __CPROVER_old(gv_conv_calls))
//@ entry CoreParser_toInteger
GV_CANARY("CoreParser_toInteger entry");
//@ end

/* toIndex: reads only inside the string; true only if every byte is a digit or white space and toDouble accepts;
   then index is the value of the literal, which must fit an int (the conversion double -> int is an obligation). */
//@ contract CoreParser_toIndex
__CPROVER_requires(WF_STR(s) && __CPROVER_w_ok(index__p, sizeof(int)))
__CPROVER_assigns(*index__p, GHOSTS)
__CPROVER_ensures(__CPROVER_return_value ==> (gv_rec_arg == s && gv_rec_accept && !gv_lit_neg))
__CPROVER_ensures(__CPROVER_return_value ==> (*index__p >= 0 && (double)*index__p <= gv_lit_abs && gv_lit_abs < (double)*index__p + 1))
__CPROVER_ensures(!__CPROVER_return_value ==> *index__p == __CPROVER_old(*index__p))
//@ entry CoreParser_toIndex
GV_CANARY("CoreParser_toIndex entry");
const char *const gv_b = s->buf;
//@ loop CoreParser_toIndex 1
__CPROVER_assigns(i)
__CPROVER_loop_invariant(SAME(i, gv_b) && OFF(gv_b) <= OFF(i) && OFF(i) <= OFF(gv_b) + s->len &&
                         ((0 <= gv_k0 && gv_k0 < OFF(i) - OFF(gv_b)) ==> gv_b[gv_k0] != '-'))
__CPROVER_decreases(OFF(gv_b) + s->len - OFF(i))
//@ end

//@ harness
static struct gv_str *mk_str(void)
{
  long n;
  __CPROVER_assume(0 <= n && n <= MAXLEN);
  long k0;
  gv_k0 = k0;
  struct gv_str *s = malloc(sizeof(struct gv_str));
  __CPROVER_assume(s);
  s->len = n;
  s->buf = malloc(n);
  __CPROVER_assume(s->buf);
  return s;
}
#if GV_HSEL == 1
void h_toDouble(void)
{
  struct gv_str *s = mk_str();
  double d;
  bool r = CoreParser_toDouble(s, &d);
  GV_CANARY("h_toDouble end");
}
#endif
#if GV_HSEL == 2
void h_toInteger(void)
{
  struct gv_str *s = mk_str();
  int v;
  bool r = CoreParser_toInteger(s, &v);
  GV_CANARY("h_toInteger end");
}
#endif
#if GV_HSEL == 3
void h_toIndex(void)
{
  struct gv_str *s = mk_str();
  int v;
  bool r = CoreParser_toIndex(s, &v);
  GV_CANARY("h_toIndex end");
}
#endif
//@ end
