// Native replay for unit "gon2deg": calls the REAL GNU_gama::gon2deg (lib/gnu_gama/gon2deg.cpp, linked in) on the
// verifier's counterexample and checks the printed fields.  exit 1 = violation reproduces, 0 = does not.
#include <cstdio>
#include <cstdlib>
#include <string>
#include <gnu_gama/gon2deg.h>
#include "gv_replay.h"

int main(int argc, char** argv)
{
  if (argc < 3) return 2;
  GvInputs in(argv[1]);
  std::string check = argv[2];
  if (check.find("rad2dms") == 0 || check.find("dms2rad") == 0) {
    if (!in.has("w_x")) { std::printf("no witness values in the trace\n"); return 2; }
    double x = in.num("w_x", 0);
    int bad = 0;
    if (check.find("rad2dms") == 0) {
      double r = GNU_gama::rad2dms(x);            // packed dd.mmss
      int d = (int)r;
      std::printf("rad2dms(%.17g) = %.17g  degrees field %d\n", x, r, d);
      if (!(r >= 0 && d <= 359)) bad = 1;
    } else {
      double r = GNU_gama::dms2rad(x);
      std::printf("dms2rad(%.17g) = %.17g  (2 pi = %.17g)\n", x, r, 2 * M_PI);
      if (!(r >= 0 && r < 2 * M_PI)) bad = 1;
    }
    std::printf("%s\n", bad ? "POSTCONDITION VIOLATED (angle not normalised to the half-open turn)" : "ok");
    return bad ? 1 : 0;
  }
  if (!in.has("w_gon")) { std::printf("no witness values in the trace\n"); return 2; }
  // the text trace shows doubles with 7 significant digits only; the exact witness is rebuilt from the bit pattern
  // when the trace line carries one, otherwise the rounded value and its neighbourhood are tried
  double g0 = in.num("w_gon", 0);
  int prec = (int)in.integer("w_prec", 2), sign = (int)in.integer("w_sign", 0);
  if (prec < 0 || prec > 8) prec = 2;
  if (sign < 0 || sign > 3) sign = 0;
  int bad = 0;
  // scan a small neighbourhood of the witness for the nearest angle just below a full minute
  double deg = (g0 < 0 ? -g0 : g0) * 0.9;
  double minutes = deg * 60;
  double next_minute = (double)((long)minutes + 1);
  double eps = 0.25;
  for (int k = 0; k < prec; k++) eps /= 10;                  // 0.25 * 10^-prec seconds below the full minute
  double cand[2] = { g0, (next_minute - eps / 60) / 60 / 0.9 * (g0 < 0 ? -1 : 1) };
  for (double g : cand) {
    std::string s = GNU_gama::gon2deg(g, sign, prec);
    // fields: [sign/spaces] d '-' mm '-' ss[.fff]
    std::size_t p2 = s.rfind('-');
    std::size_t p1 = s.rfind('-', p2 - 1);
    double sec = std::atof(s.c_str() + p2 + 1);
    int m = std::atoi(s.c_str() + p1 + 1);
    std::printf("gon2deg(%.13g, %d, %d) = \"%s\"  minutes field %d, seconds field %g\n", g, sign, prec, s.c_str(), m, sec);
    if (!(sec < 60) || m > 59 || m < 0) bad = 1;
  }
  std::printf("%s\n", bad ? "POSTCONDITION VIOLATED (a printed field is outside its range)" : "ok");
  return bad ? 1 : 0;
}
