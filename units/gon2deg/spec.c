/* Sidecar contracts for lib/gnu_gama/gon2deg.cpp : gon2deg (arithmetic prefix)   (property C18-U2).
   The body is extracted from /repo on every run; the ostringstream tail is replaced by the stub gv_print_dms. */

//@ prelude
double gv_dec_d, gv_dec_m, gv_dec_s;   /* ghost: fields decoded by dms2rad */
int gv_exc;
struct gv_dms {       /* what the formatting tail is given / what the string shows */
  int    d, m;
  double sec;         /* seconds value handed to operator<< */
  bool   negative;
  bool   shows_60;    /* the printed seconds field reads 60.0..0 */
};

/* 60 - 0.5*10^-prec : a seconds value at or above this prints as 60 when rounded to prec decimals */
#define GV_ROUNDS_TO_60(sec, prec)                                                                             \
  ((prec) == 0 ? (sec) >= 59.5 : (prec) == 1 ? (sec) >= 59.95 : (prec) == 2 ? (sec) >= 59.995                   \
   : (prec) == 3 ? (sec) >= 59.9995 : (prec) == 4 ? (sec) >= 59.99995 : (prec) == 5 ? (sec) >= 59.999995         \
   : (prec) == 6 ? (sec) >= 59.9999995 : (prec) == 7 ? (sec) >= 59.99999995 : (sec) >= 59.999999995)

#ifndef M_PI
#define M_PI 3.14159265358979323846264338327950288419716939937510   /* as in gnu_gama/gon2deg.h */
#endif
/* observation points of rad2dms / dms2rad (injected in front of the return statement) */
#define GV_OBS_DMS(d, m, sec) do {                                                                             \
    __CPROVER_assert((d) >= 0 && (d) <= 359, "rad2dms: degrees field in 0..359 (angle normalised to [0, 360))");   \
    __CPROVER_assert((m) >= 0 && (m) <= 59, "rad2dms: minutes field in 0..59");                                    \
    __CPROVER_assert((sec) >= 0 && (sec) < 60, "rad2dms: seconds value in [0, 60)");                               \
    __CPROVER_assert((d) == (double)(int)(d) && (m) == (double)(int)(m), "rad2dms: degrees and minutes fields are integers"); \
  } while (0)
#define GV_OBS_RAD(r) do {                                                                                     \
    __CPROVER_assert((r) >= 0, "dms2rad: result >= 0");                                                            \
    __CPROVER_assert((r) < 2 * M_PI, "dms2rad: result < 2 pi (angle normalised to [0, 2 pi))");                    \
  } while (0)
double gv_gon0;        /* ghost: |gon| on entry */
int gv_d0, gv_m0;      /* ghost: the fields before the round-up test (captured at `ostringstream sec;`) */
double gv_s0;
int gv_exp_d, gv_exp_m; /* ghost: expected fields at a tabulated input (h_points) */
double gv_exp_sec;

/* stub of the first formatting passage (the seconds printed alone, then `compare(0, 2, "60") == 0`): assumed
   contract, see unit.json trusted_base.  For 0 <= sec < 60 the text starts with "60" iff it rounds up to 60.0..0. */
static inline bool gv_prints_60(double sec, int prec)
{
  __CPROVER_assert(0 <= sec && sec < 60, "seconds value in [0, 60) before the round-up test");
  __CPROVER_assert(0 <= prec && prec <= 8, "precision in 0..8");
  return GV_ROUNDS_TO_60(sec, prec);
}

/* stub of the formatting tail (assumed contract, see unit.json trusted_base).  The obligations of property C18
   ("valid field ranges", "values whose seconds round up") are asserted on what the real prefix hands over. */
static inline struct gv_dms gv_print_dms(int d, int m, double sec, bool negative, int sign, int prec)
{
  __CPROVER_assert(d >= 0, "degrees field is non-negative (the sign is printed separately)");
  __CPROVER_assert(0 <= m && m <= 59, "minutes field in 0..59");
  __CPROVER_assert(0 <= sec && sec < 60, "seconds value in [0, 60) before formatting");
#if GV_PART == 1
  /* what is printed is the sexagesimal ROUNDING of the computed angle gv_d0-gv_m0-gv_s0 at prec decimals: unchanged when
     the seconds do not round up to 60, otherwise exactly one minute more (in minutes: d*60+m) and zero seconds */
  __CPROVER_assert(GV_ROUNDS_TO_60(gv_s0, prec) ? (sec == 0 && (long)d * 60 + m == (long)gv_d0 * 60 + gv_m0 + 1)
                                                : (sec == gv_s0 && d == gv_d0 && m == gv_m0),
                   "the printed fields are the computed angle rounded to prec decimals of a second (carry of exactly one minute)");
  __CPROVER_assert(!GV_ROUNDS_TO_60(sec, prec), "printed seconds field < 60 (does not round up to 60.0..0 at prec decimals)");
#endif
#if GV_PART == 2
  /* value at concrete inputs (harness h_points): the fields are the sexagesimal digits of 0.9*|gon| degrees */
  __CPROVER_assert(d == gv_exp_d, "degrees field is floor(0.9*|gon|) at the tabulated input");
  __CPROVER_assert(m == gv_exp_m, "minutes field is floor(60*frac(degrees)) at the tabulated input");
  __CPROVER_assert(sec - gv_exp_sec <= 1e-3 && gv_exp_sec - sec <= 1e-3, "seconds value is 60*frac(minutes) within 0.001\" at the tabulated input");
#endif
  struct gv_dms r;
  r.d = d;
  r.m = m;
  r.sec = sec;
  r.negative = negative;
  r.shows_60 = GV_ROUNDS_TO_60(sec, prec);
  return r;
}
//@ end

//@ contract gon2deg
__CPROVER_requires(gon >= -4e6 && gon <= 4e6)
__CPROVER_requires(0 <= prec && prec <= 8 && 0 <= sign && sign <= 3)
__CPROVER_assigns(gv_gon0, gv_d0, gv_m0, gv_s0)
__CPROVER_ensures(__CPROVER_return_value.negative == (__CPROVER_old(gon) < 0))
__CPROVER_ensures(0 <= __CPROVER_return_value.d && __CPROVER_return_value.d <= 3600001)
__CPROVER_ensures(0 <= __CPROVER_return_value.m && __CPROVER_return_value.m <= 59)
__CPROVER_ensures(0 <= __CPROVER_return_value.sec && __CPROVER_return_value.sec < 60)
//@ entry gon2deg
GV_CANARY("gon2deg entry");
gv_gon0 = gon < 0 ? -gon : gon;
//@ end

//@ at gon2deg precarry
gv_d0 = d; gv_m0 = m; gv_s0 = gon;   /* ghost capture only */
//@ entry rad2dms
GV_CANARY("rad2dms entry");
//@ entry dms2rad
GV_CANARY("dms2rad entry");
//@ end

//@ at dms2rad fields
gv_dec_d = d; gv_dec_m = m; gv_dec_s = dms;   /* ghost: the three fields as decoded, just before they are combined */
//@ harness
void h_rad2dms(void)
{
  double rad;
  __CPROVER_assume(rad >= -4 * M_PI && rad <= 4 * M_PI);
  double w_x = rad;
  double r = rad2dms(rad);
  GV_CANARY("h_rad2dms end");
}

/* d.mmss is a DECIMAL notation for degrees, minutes, seconds: the literal D.MMSS means D degrees MM minutes SS seconds.
   For every such literal with integer fields the fields that dms2rad decodes are the written ones (C18: "valid field
   ranges", "convert into each other and back").  On the tree as found 0.29 (stored as 0.28999999999999998) was read as
   28 minutes 100 seconds: 1445 of 187200 literals were 40" off (demos/C18_dms2rad_fields.cpp). */
void h_dms2rad_fields(void)
{
  int D, M, S, neg;
  __CPROVER_assume(0 <= D && D <= 359 && 0 <= M && M <= 59 && 0 <= S && S <= 59 && (neg == 0 || neg == 1));
  double lit = D + M / 100.0 + S / 10000.0;
  int w_D = D, w_M = M, w_S = S;
  double r = dms2rad(neg ? -lit : lit);
  __CPROVER_assert(gv_dec_d == D, "dms2rad: the degrees decoded are the degrees written");
  __CPROVER_assert(gv_dec_m == M, "dms2rad: the minutes decoded are the minutes written (0..59)");
  __CPROVER_assert(gv_dec_s >= 0 && gv_dec_s < 60 && gv_dec_s - S < 1e-6 && S - gv_dec_s < 1e-6,
                   "dms2rad: the seconds decoded are the seconds written, inside [0, 60)");
  GV_CANARY("h_dms2rad_fields end");
}
void h_dms2rad(void)
{
  double dms;
  __CPROVER_assume(dms >= -720 && dms <= 720);
  double w_x = dms;
  double r = dms2rad(dms);
  GV_CANARY("h_dms2rad end");
}
void h_gon2deg(void)
{
  double gon;
  int sign, prec;
  __CPROVER_assume(gon >= -4e6 && gon <= 4e6);
  __CPROVER_assume(0 <= prec && prec <= 8 && 0 <= sign && sign <= 3);
  double w_gon = gon;
  int w_prec = prec, w_sign = sign;
  struct gv_dms r = gon2deg(gon, sign, prec);
  GV_CANARY("h_gon2deg end");
}

/* value check at 12 concrete inputs; expected fields computed with exact rational arithmetic (python fractions)
   from degrees = 0.9*|gon|; none of them is within 0.2" of a field boundary */
static const struct { double gon; int d, m; double sec; } gv_points[12] = {
  { 123.456, 111, 6, 37.440000 },
  { -399.123, 359, 12, 38.520000 },
  { 0.001, 0, 0, 3.240000 },
  { 3999999.76, 3599999, 47, 2.400000 },
  { -217.0331, 195, 19, 47.244000 },
  { 66.6666, 59, 59, 59.784000 },
  { 1.2345678, 1, 6, 39.999672 },
  { -0.04321, 0, 2, 20.000400 },
  { 250.75432, 225, 40, 43.996800 },
  { 399.98765, 359, 59, 19.986000 },
  { 2000000.3333, 1800000, 17, 59.892000 },
  { -1234567.891, 1111111, 6, 6.840000 },
};

void h_points(void)
{
  int k, sign, prec;
  __CPROVER_assume(0 <= k && k < 12);
  __CPROVER_assume(0 <= prec && prec <= 8 && 0 <= sign && sign <= 3);
  gv_exp_d = gv_points[k].d;
  gv_exp_m = gv_points[k].m;
  gv_exp_sec = gv_points[k].sec;
  if (GV_ROUNDS_TO_60(gv_exp_sec, prec)) {   /* sexagesimal rounding: 59.99.." at prec decimals is the next full minute */
    gv_exp_sec = 0;
    if (++gv_exp_m == 60) { gv_exp_m = 0; ++gv_exp_d; }
  }
  int w_prec = prec;
  double w_gon = gv_points[k].gon;
  struct gv_dms r = gon2deg(gv_points[k].gon, sign, prec);
  __CPROVER_assert(r.negative == (gv_points[k].gon < 0), "sign flag follows the sign of the input");
  GV_CANARY("h_points end");
}

/* rad2dms / dms2rad at concrete inputs; expected values computed with 50-digit decimal arithmetic from the
   definitions (degrees = rad*180/pi mod 360 packed as dd.mmss; radians = (d + m/60 + s/3600) pi/180 mod 2 pi);
   no point is near a field boundary */
static const double gv_rad2dms_pts[6][2] = {
  { 1.0, 57.174480624709638 }, { -2.5, 216.453798438225903 }, { 4.0, 229.105922498838538 },
  { 0.123456, 7.042462792004152 }, { 7.5, 69.430604685322265 }, { -0.001, 359.563373519375318 } };
static const double gv_dms2rad_pts[7][2] = {
  { 90.3015, 1.579595695107035 }, { -45.1020, 5.494781298959259 }, { 200.0001, 3.490663352125470 },
  { 359.5959, 6.283180459042775 }, { -359.5959, 0.000004848136811 }, { 400.3030, 0.707003791162036 },
  { 0.2945, 0.008653924207805 } };

void h_angle_points(void)
{
  int k, j;
  __CPROVER_assume(0 <= k && k < 6 && 0 <= j && j < 7);
  double a = rad2dms(gv_rad2dms_pts[k][0]);
  __CPROVER_assert(a - gv_rad2dms_pts[k][1] <= 1e-9 && gv_rad2dms_pts[k][1] - a <= 1e-9, "rad2dms value at the tabulated input (dd.mmss packing of rad*180/pi mod 360)");
  double b = dms2rad(gv_dms2rad_pts[j][0]);
  __CPROVER_assert(b - gv_dms2rad_pts[j][1] <= 1e-9 && gv_dms2rad_pts[j][1] - b <= 1e-9, "dms2rad value at the tabulated input ((d + m/60 + s/3600) pi/180 mod 2 pi)");
  GV_CANARY("h_angle_points end");
}
//@ end
