/* Sidecar contracts for the TAIL of GNU_gama::local::LocalNetwork::vyrovnani_ (lib/gnu_gama/local/network.cpp), property C09:
     "each standard deviation is the actual reference deviation times the square root of the corresponding cofactor ...
      and for uncorrelated observations residual cofactors are 1/p - q_L".
   The two statement blocks at the end of vyrovnani_ that fill `sigma_L` (standard deviation of the adjusted observation) and
   `vahkopr` (weight coefficient of the residual) are extracted verbatim from /repo on every run (header = statement prefix followed
   by '{', as units/adj_full_lazy does for a block of AdjCholDec::solve), together with the real weight_obs(), Vec::operator(),
   Vec::reset and MemRep::resize.  Only contracts, ghost state, callee stubs and harnesses live here.

   THE MATHEMATICS.  The solver works on the homogenised system (rows scaled by sqrt(p_n), p_n = (m0_apr / stdDev_n)^2), so
   least_squares->q_bb(n,n) =: h_n is the n-th diagonal element of the projector onto the column space, 0 <= h_n <= 1, and
       cofactor of the adjusted observation   q_L(n) = h_n / p_n
       standard deviation                     sigma_L(n) = m0 * sqrt(q_L(n)) = (m0 / m0_apr) * sqrt(h_n) * stdDev_n
       weight coefficient of the residual     q_v(n) = 1/p_n - q_L(n) = (1 - h_n) / p_n          (>= 0 mathematically)
   where observation n is the n-th ACTIVE observation in cluster order, i.e. revised_obs_[n-1] (revision_observations), the
   observation whose equation is row n of the design matrix.

   DATA MODEL (ASSUMED, established by revision_observations() and Cluster::update(), see unit.json trusted_base):
     all observation lists concatenated in cluster order are the ghost sequence  flat[0 .. nall);
     cluster c owns the slice  flat[clb[c] .. clb[c+1])  (clb = ghost array of ncl+1 begin offsets, clb[0] == 0, clb[ncl] == nall);
     a std::list<Cluster*>::const_iterator is lowered to a pointer into clb (the cluster IS its slice);
     Observation* is an opaque handle; active() and stdDev() are uninterpreted functions ACT(h), SD(h) of the handle;
     apre[j] = number of active observations among flat[0..j)  (ghost prefix count);   apre[nall] == pocmer_;
     Cluster::activeObs() of cluster c == apre[clb[c+1]] - apre[clb[c]]                (Cluster::update);
     ACT(flat[j]) ==> revised_obs_[apre[j]] == flat[j]                                  (revision_observations);
     revised_obs_ has exactly pocmer_ entries.
   Universally quantified facts are used quantifier-free: GV_INST(index in range, FACT(index)) at the point of use. */

//@ prelude
typedef double Float;
typedef int Index;
typedef int ObsRef;                           /* opaque handle of an Observation object */

struct Vec { Float *rep; Index sz; };         /* MemRep: rep, sz  (Vec = VecBase = MatVecBase = MemRep, no further data) */
struct AdjBase { int gv_solver_kind; };
typedef int ClusterSlice;                           /* a cluster seen through an iterator p: observation_list = flat[p[0] .. p[1]) */
struct ObsData { int ncl; int *gv_clb; };           /* clusters (std::list<Cluster*>) in list order: ncl + 1 begin offsets */

struct LocalNetwork {
  struct AdjBase *least_squares;
  int     pocmer_;
  double  m_0_apr_;
  struct Vec sigma_L;
  struct Vec vahkopr;
  bool    tst_vyrovnani_;
  struct ObsData OD;
  ObsRef *revised_obs_;        /* std::vector<Observation*>: pocmer_ entries */
  /* ghost */
  ObsRef *gv_flat;             /* all observation lists, concatenated in cluster order */
  int     gv_nall;
  int    *gv_apre;             /* gv_nall + 1 prefix counts of active observations */
};

int gv_exc;
#define MAXOBS 10000000
#define MAXCL  1000000
#define ISZ ((long)sizeof(int))
#define FSZ ((long)sizeof(Float))
#define SAME_D(a, b) ((a) == (b) || ((a) != (a) && (b) != (b)))

/* ---- uninterpreted attributes of the opaque objects ---------------------------------------------------- */
_Bool  __CPROVER_uninterpreted_act(ObsRef);          /* Observation::active()  */
double __CPROVER_uninterpreted_sd(ObsRef);           /* Observation::stdDev()  */
double __CPROVER_uninterpreted_qbb(int, int);        /* AdjBase::q_bb(i,j) of the CURRENT adjustment */
double __CPROVER_uninterpreted_sqrt(double);         /* libm sqrt as a function of its argument */
#define ACT(h)    __CPROVER_uninterpreted_act(h)
#define SD(h)     __CPROVER_uninterpreted_sd(h)
#define QBB(i, j) __CPROVER_uninterpreted_qbb((i), (j))
#define SQRT(x)   __CPROVER_uninterpreted_sqrt(x)

/* magnitudes: "moderate" positive numbers, so that the weight (m0_apr/stdDev)^2 neither overflows nor underflows to 0 */
#define MODERATE(x) ((x) >= 1e-50 && (x) <= 1e50)

/* ---- IEEE operations as TAGGED operations ----------------------------------------------------------------------
   gv_fdiv(a,b) performs the real IEEE division AND states that its result is the value of the uninterpreted function
   FDIV at (a,b).  "IEEE division is a function of its operands" is a fact, so the statement excludes no execution
   (interpret FDIV as the IEEE division); it lets postconditions name the value (a/b) as the TERM FDIV(a,b) without
   bit-blasting a second divider (measured: `result == a/b` recomputed in a postcondition does not terminate in 300 s,
   the term form takes < 1 s).  Range obligations (divisor != 0, result > 0) are decided on the real circuit. */
double __CPROVER_uninterpreted_fdiv(double, double);
double __CPROVER_uninterpreted_fmul(double, double);
double __CPROVER_uninterpreted_fsub(double, double);
#define FDIV(a, b) __CPROVER_uninterpreted_fdiv((a), (b))
#define FMUL(a, b) __CPROVER_uninterpreted_fmul((a), (b))
#define FSUB(a, b) __CPROVER_uninterpreted_fsub((a), (b))
/* the tag is bit-exact (+0 and -0 are different operands of the uninterpreted function); NaN payloads are not distinguished */
#define SAME_BITS(a, b) (((a) == (b) && __CPROVER_signd(a) == __CPROVER_signd(b)) || ((a) != (a) && (b) != (b)))
static double gv_fdiv(double a, double b)
{
  __CPROVER_assert(b != 0, "floating-point division: the divisor is not zero");
  double r = a / b;
  __CPROVER_assume(SAME_BITS(r, FDIV(a, b)));
  return r;
}
static double gv_fmul(double a, double b)
{
  double r = a * b;
  __CPROVER_assume(SAME_BITS(r, FMUL(a, b)) && SAME_BITS(r, FMUL(b, a)));     /* IEEE multiplication is commutative */
  return r;
}
static double gv_fsub(double a, double b)
{
  double r = a - b;
  __CPROVER_assume(SAME_BITS(r, FSUB(a, b)));
  return r;
}

int gv_stddev_calls, gv_qbb_calls, gv_m0_calls;
double gv_m0;                  /* ghost: the value m_0() returns for the current adjustment */

/* Observation::active(): pure */
static bool Observation_active(ObsRef h) { return ACT(h); }
/* Observation::stdDev() == sqrt(covariance_matrix(i,i)): ASSUMED a moderate positive number */
static double Observation_stdDev(ObsRef h)
{
  gv_stddev_calls++;
  __CPROVER_assume(MODERATE(SD(h)));
  return SD(h);
}
/* AdjBase::q_bb(i,j): ASSUMED contract -- may be asked only while the adjustment flag is true, for observation indices of the
   adjusted system; the diagonal is a non-negative finite number (solver units / C03) */
static double gvs_q_bb(struct LocalNetwork *self, struct AdjBase *ls, int i, int j)
{
  __CPROVER_assert(ls != NULL && ls == self->least_squares, "q_bb: the solver object exists");
  __CPROVER_assert(self->tst_vyrovnani_, "q_bb is read only while the adjustment flag is true");
  __CPROVER_assert(1 <= i && i <= self->pocmer_ && 1 <= j && j <= self->pocmer_, "q_bb: 1 <= i,j <= number of observations");
  gv_qbb_calls++;
  __CPROVER_assume(QBB(i, i) >= 0 && QBB(i, i) <= 1e100);
  __CPROVER_assume(QBB(i, j) == QBB(i, j) && QBB(i, j) >= -1e100 && QBB(i, j) <= 1e100);
  return QBB(i, j);
}
/* sqrt: ASSUMED contract of a correctly rounded square root: a function of its argument; defined for x >= 0 (obligation);
   r >= 0, r == 0 iff x == 0, finite for finite x */
static double gv_sqrt_rec(double x)
{
  __CPROVER_assert(x >= 0, "sqrt argument is non-negative (and not NaN)");
  __CPROVER_assume(SQRT(x) >= 0 && (x > 0 ? SQRT(x) > 0 : SQRT(x) == 0) && (!(x < 1.0 / 0.0) || SQRT(x) <= 1e155));
  return SQRT(x);
}
/* m_0() called from INSIDE vyrovnani_: it re-enters vyrovnani_ (degrees_of_freedom / trans_VWV), which returns at once only if
   the adjustment flag is already true (otherwise: unbounded recursion) -- obligation at the call site.  Value: the ghost gv_m0,
   ASSUMED (contract enforced in unit statistics, check m_0) a finite number >= 0 */
static double gvs_m_0(struct LocalNetwork *self)
{
  __CPROVER_assert(self->tst_vyrovnani_, "m_0() inside vyrovnani_ is called only after the adjustment flag has been set");
  gv_m0_calls++;
  __CPROVER_assume(gv_m0 >= 0 && gv_m0 <= 1e100);
  return gv_m0;
}

/* std::list iteration as a walk over the ghost sequences (begin/end of the sequence model) */
static const ClusterSlice *gv_clusters_begin(const struct LocalNetwork *self) { return self->OD.gv_clb; }
static const ClusterSlice *gv_clusters_end(const struct LocalNetwork *self) { return self->OD.gv_clb + self->OD.ncl; }
static const ObsRef *gv_obslist_begin(const struct LocalNetwork *self, const ClusterSlice *c) { return self->gv_flat + c[0]; }
static const ObsRef *gv_obslist_end(const struct LocalNetwork *self, const ClusterSlice *c) { return self->gv_flat + c[1]; }
/* Cluster::activeObs(): ASSUMED contract (Cluster::update) -- the number of active observations of the cluster's list */
static int Cluster_activeObs(const struct LocalNetwork *self, const ClusterSlice *c) { return self->gv_apre[c[1]] - self->gv_apre[c[0]]; }

/* ---- well-formedness ---------------------------------------------------------------------------------------- */
#define VEC_WF(v) ((v).sz >= 0 && (v).sz <= MAXOBS && __CPROVER_DYNAMIC_OBJECT((v).rep) && OFF((v).rep) == 0 && \
                   __CPROVER_OBJECT_SIZE((v).rep) == (size_t)(v).sz * sizeof(Float) && __CPROVER_rw_ok((v).rep, (size_t)(v).sz * sizeof(Float)))
#define NET_SHAPE(N)                                                                                                  \
  (__CPROVER_rw_ok(N, sizeof(*(N))) && (N)->least_squares != NULL && (N)->pocmer_ >= 0 && (N)->pocmer_ <= MAXOBS &&    \
   MODERATE((N)->m_0_apr_) && VEC_WF((N)->sigma_L) && VEC_WF((N)->vahkopr) &&                                         \
   __CPROVER_r_ok((N)->revised_obs_, (size_t)(N)->pocmer_ * sizeof(ObsRef)) &&                                        \
   (N)->gv_nall >= 0 && (N)->gv_nall <= MAXOBS && (N)->OD.ncl >= 0 && (N)->OD.ncl <= MAXCL &&                         \
   __CPROVER_r_ok((N)->OD.gv_clb, ((size_t)(N)->OD.ncl + 1) * sizeof(int)) &&                                         \
   __CPROVER_r_ok((N)->gv_flat, (size_t)(N)->gv_nall * sizeof(ObsRef)) &&                                             \
   __CPROVER_r_ok((N)->gv_apre, ((size_t)(N)->gv_nall + 1) * sizeof(int)) &&                                          \
   (N)->gv_apre[0] == 0 && (N)->gv_apre[(N)->gv_nall] == (N)->pocmer_ &&                                              \
   (N)->OD.gv_clb[0] == 0 && (N)->OD.gv_clb[(N)->OD.ncl] == (N)->gv_nall)
/* forall j in [0, nall): */
#define FLAT_WF(N, j)                                                                                                 \
  ((N)->gv_apre[j] >= 0 && (N)->gv_apre[j] <= (N)->pocmer_ && (N)->gv_apre[(j) + 1] == (N)->gv_apre[j] + (ACT((N)->gv_flat[j]) ? 1 : 0) &&              \
   (N)->gv_apre[(j) + 1] <= (N)->pocmer_ && (!ACT((N)->gv_flat[j]) || (N)->revised_obs_[(N)->gv_apre[j]] == (N)->gv_flat[j]))
/* forall 0 <= a <= b <= nall: the prefix count is monotone (consequence of its definition) */
#define APRE_MONO(N, a, b) ((N)->gv_apre[a] <= (N)->gv_apre[b])
/* forall j in [0, nall]: */
#define APRE_RANGE(N, j) (0 <= (N)->gv_apre[j] && (N)->gv_apre[j] <= (N)->pocmer_)
/* forall c in [0, ncl): */
#define CL_WF(N, c) (0 <= (N)->OD.gv_clb[c] && (N)->OD.gv_clb[c] <= (N)->OD.gv_clb[(c) + 1] && (N)->OD.gv_clb[(c) + 1] <= (N)->gv_nall)

/* ---- ghost indices (forall-introduction) and the TERMS the property dictates ------------------------------------ */
int    gv_k0;                  /* an observation index 1..pocmer_ (residual-cofactor block) */
int    gv_j0;                  /* a position in flat (sigma_L block); n0 = apre[j0] + 1 when ACT(flat[j0]) */
/* weight of observation k:  p_k = (m0_apr / stdDev_k)^2 */
#define P_TERM(N, k) FDIV((N)->m_0_apr_, SD((N)->revised_obs_[(k) - 1]))
#define W_TERM(N, k) FMUL(P_TERM(N, k), P_TERM(N, k))
/* residual cofactor of observation k:  (1 - q_bb(k,k)) / p_k */
#define QV_TERM(N, k) FDIV(FSUB(1.0, QBB((k), (k))), W_TERM(N, k))
#define CLAMP_NEG(x) ((x) >= 0 || (x) != (x) ? (x) : 0)       /* the value itself unless it is negative */
/* standard deviation of the adjusted observation at flat position j (number n = apre[j]+1):
   (m0 / m0_apr) * sqrt(q_bb(n,n)) * stdDev, in any association order of the product */
#define MM_TERM(N)    FDIV(gv_m0, (N)->m_0_apr_)
#define R_TERM(N, j)  SQRT(QBB((N)->gv_apre[j] + 1, (N)->gv_apre[j] + 1))
#define S_TERM(N, j)  SD((N)->gv_flat[j])
#define SIG_IS_EXPECTED(N, j, x) (SAME_D((x), FMUL(FMUL(MM_TERM(N), R_TERM(N, j)), S_TERM(N, j))) || \
                                  SAME_D((x), FMUL(FMUL(MM_TERM(N), S_TERM(N, j)), R_TERM(N, j))) || \
                                  SAME_D((x), FMUL(FMUL(R_TERM(N, j), S_TERM(N, j)), MM_TERM(N))))
//@ end

/* ---- real element access / storage management of the matvec library (verified in units matvec_index, memrep) ----- */
//@ contract Vec_at
__CPROVER_requires(__CPROVER_r_ok(self, sizeof(*self)))
__CPROVER_assigns()
__CPROVER_ensures(__CPROVER_return_value == self->rep + (n - 1))
//@ end

/* ---- weight of observation i: p_i = (m0_apr / stdDev_i)^2, stdDev of revised_obs_[i-1] -------------------------- */
//@ contract LocalNetwork_weight_obs
__CPROVER_requires(NET_SHAPE(self) && 1 <= i && i <= self->pocmer_ && 0 <= gv_stddev_calls && gv_stddev_calls <= MAXOBS)
__CPROVER_assigns(gv_stddev_calls)
__CPROVER_ensures(SAME_D(__CPROVER_return_value, W_TERM(self, i)))
__CPROVER_ensures(__CPROVER_return_value > 0 && __CPROVER_return_value <= 1e300)     /* a usable divisor */
__CPROVER_ensures(gv_stddev_calls == __CPROVER_old(gv_stddev_calls) + 1)
//@ entry LocalNetwork_weight_obs
GV_CANARY("LocalNetwork_weight_obs entry");
//@ end

/* ---- residual cofactors: vahkopr(i) = (1 - h_i)/p_i, clamped at 0 only when negative ---------------------------- */
//@ contract LocalNetwork_vyrovnani_wcoef_block
__CPROVER_requires(NET_SHAPE(self) && self->tst_vyrovnani_ && gv_exc == 0 && gv_qbb_calls == 0 && gv_stddev_calls == 0)
__CPROVER_assigns(self->vahkopr.rep, self->vahkopr.sz, __CPROVER_object_whole(self->vahkopr.rep), gv_stddev_calls, gv_qbb_calls, gv_exc)
__CPROVER_frees(self->vahkopr.rep)
/* dimension: one element per observation */
__CPROVER_ensures(gv_exc == 0 && self->vahkopr.sz == self->pocmer_ && (self->pocmer_ > 0 ==> VEC_WF(self->vahkopr)))
/* element k0 belongs to observation k0:  q_v = (1 - q_bb(k0,k0)) / p_k0;  a clamp may act ONLY on negative values */
__CPROVER_ensures((1 <= gv_k0 && gv_k0 <= self->pocmer_) ==> SAME_D(self->vahkopr.rep[gv_k0 - 1], CLAMP_NEG(QV_TERM(self, gv_k0))))
/* every observation is visited exactly once: one cofactor and one weight per observation */
__CPROVER_ensures(gv_qbb_calls == __CPROVER_old(gv_qbb_calls) + self->pocmer_ && gv_stddev_calls == __CPROVER_old(gv_stddev_calls) + self->pocmer_)
/* nothing else of the network changes */
__CPROVER_ensures(self->pocmer_ == __CPROVER_old(self->pocmer_) && self->tst_vyrovnani_)
//@ entry LocalNetwork_vyrovnani_wcoef_block
GV_CANARY("LocalNetwork_vyrovnani_wcoef_block entry");
const int gv_qbb0 = gv_qbb_calls, gv_sd0 = gv_stddev_calls;
double gv_e_qv = 0;        /* ghost: the value the property dictates for element k0 (invariants must be call-free) */
if (1 <= gv_k0 && gv_k0 <= self->pocmer_) gv_e_qv = CLAMP_NEG(QV_TERM(self, gv_k0));
//@ loop LocalNetwork_vyrovnani_wcoef_block 1
__CPROVER_assigns(i, gv_stddev_calls, gv_qbb_calls; self->pocmer_ > 0: __CPROVER_object_whole(self->vahkopr.rep))
__CPROVER_loop_invariant(1 <= i && i <= self->pocmer_ + 1 && gv_qbb_calls == gv_qbb0 + (i - 1) && gv_stddev_calls == gv_sd0 + (i - 1) &&
                         ((1 <= gv_k0 && gv_k0 < i) ==> SAME_D(self->vahkopr.rep[gv_k0 - 1], gv_e_qv)))
__CPROVER_decreases((long)self->pocmer_ + 1 - i)
//@ end

/* ---- standard deviations of the adjusted observations ------------------------------------------------------------ */
//@ contract LocalNetwork_vyrovnani_sigmaL_block
__CPROVER_requires(NET_SHAPE(self) && self->tst_vyrovnani_ && gv_exc == 0 && gv_m0_calls == 0 && gv_qbb_calls == 0 && gv_stddev_calls == 0)
__CPROVER_requires((0 <= gv_j0 && gv_j0 < self->gv_nall) ==> FLAT_WF(self, gv_j0))
__CPROVER_assigns(self->sigma_L.rep, self->sigma_L.sz, __CPROVER_object_whole(self->sigma_L.rep), gv_stddev_calls, gv_qbb_calls, gv_m0_calls, gv_exc)
__CPROVER_frees(self->sigma_L.rep)
__CPROVER_ensures(gv_exc == 0 && self->sigma_L.sz == self->pocmer_ && (self->pocmer_ > 0 ==> VEC_WF(self->sigma_L)))
/* the ghost observation flat[j0], if active, is observation number n0 = apre[j0]+1 (= revised_obs_[n0-1]); element n0 of sigma_L is
   (m0/m0_apr) * sqrt(q_bb(n0,n0)) * stdDev(that observation), in one of the three association orders of the product */
__CPROVER_ensures((0 <= gv_j0 && gv_j0 < self->gv_nall && ACT(self->gv_flat[gv_j0])) ==> SIG_IS_EXPECTED(self, gv_j0, self->sigma_L.rep[self->gv_apre[gv_j0]]))
/* one cofactor per ACTIVE observation (every slot 1..pocmer_ is visited exactly once), the reference deviation asked once */
__CPROVER_ensures(gv_qbb_calls == self->pocmer_ && gv_m0_calls == 1)
__CPROVER_ensures(self->pocmer_ == __CPROVER_old(self->pocmer_) && self->tst_vyrovnani_)
//@ entry LocalNetwork_vyrovnani_sigmaL_block
GV_CANARY("LocalNetwork_vyrovnani_sigmaL_block entry");
/* ghost: is the ghost observation flat[j0] active, its slot n0-1 = apre[j0], and the three admissible values (invariants must be call-free) */
_Bool gv_j0_act = 0; int gv_slot0 = 0; double gv_e0 = 0, gv_e1 = 0, gv_e2 = 0;
if (0 <= gv_j0 && gv_j0 < self->gv_nall && ACT(self->gv_flat[gv_j0])) {
  gv_j0_act = 1;
  gv_slot0 = self->gv_apre[gv_j0];
  gv_e0 = FMUL(FMUL(MM_TERM(self), R_TERM(self, gv_j0)), S_TERM(self, gv_j0));
  gv_e1 = FMUL(FMUL(MM_TERM(self), S_TERM(self, gv_j0)), R_TERM(self, gv_j0));
  gv_e2 = FMUL(FMUL(R_TERM(self, gv_j0), S_TERM(self, gv_j0)), MM_TERM(self));
}
#define SIG_OK(x) (SAME_D((x), gv_e0) || SAME_D((x), gv_e1) || SAME_D((x), gv_e2))
int gv_c = 0;          /* ghost: index of the cluster `cit` points to */
int gv_pos = 0;        /* ghost: flat position where that cluster begins (== clb[gv_c]) */
int gv_end = 0;        /* ghost: flat position where it ends (== clb[gv_c+1]) */
int gv_j = 0;          /* ghost: flat position of the observation `i` points to */
//@ loop LocalNetwork_vyrovnani_sigmaL_block 1
__CPROVER_assigns(cit, ind_0, gv_c, gv_pos, gv_end, gv_j, gv_qbb_calls, gv_stddev_calls; self->pocmer_ > 0: __CPROVER_object_whole(self->sigma_L.rep))
__CPROVER_loop_invariant(0 <= gv_c && gv_c <= self->OD.ncl && SAME(cit, self->OD.gv_clb) && OFF(cit) == ISZ * gv_c &&
                         0 <= gv_pos && gv_pos <= self->gv_nall && gv_pos == self->OD.gv_clb[gv_c] && 0 <= ind_0 && ind_0 <= self->pocmer_ && ind_0 == self->gv_apre[gv_pos] &&
                         gv_qbb_calls == ind_0 &&
                         ((gv_j0_act && gv_j0 < gv_pos) ==> SIG_OK(self->sigma_L.rep[gv_slot0])))
__CPROVER_decreases((long)self->OD.ncl - gv_c)
//@ head LocalNetwork_vyrovnani_sigmaL_block 1
GV_ANCHOR(cit, self->OD.gv_clb + gv_c);
GV_INST(0 <= gv_c && gv_c < self->OD.ncl, CL_WF(self, gv_c));
gv_end = self->OD.gv_clb[gv_c + 1];
GV_INST(0 <= gv_end && gv_end <= self->gv_nall, APRE_RANGE(self, gv_end));
if (gv_pos <= gv_j0 && gv_j0 < gv_end)   /* a cluster without active observations contains no active observation */
  GV_INST(0 <= gv_pos && gv_j0 + 1 <= gv_end && gv_end <= self->gv_nall, APRE_MONO(self, gv_pos, gv_j0) && APRE_MONO(self, gv_j0 + 1, gv_end));
//@ tail LocalNetwork_vyrovnani_sigmaL_block 1
gv_pos = gv_end;
gv_c++;
//@ pre LocalNetwork_vyrovnani_sigmaL_block 2
gv_j = gv_pos;
//@ loop LocalNetwork_vyrovnani_sigmaL_block 2
__CPROVER_assigns(i, n, gv_j, gv_qbb_calls, gv_stddev_calls; self->pocmer_ > 0: __CPROVER_object_whole(self->sigma_L.rep))
__CPROVER_loop_invariant(gv_pos <= gv_j && gv_j <= gv_end && SAME(i, self->gv_flat) && OFF(i) == ISZ * gv_j &&
                         1 <= n && n <= self->pocmer_ + 1 && n - 1 == self->gv_apre[gv_j] && gv_qbb_calls == n - 1 &&
                         ((gv_j0_act && gv_j0 < gv_j) ==> SIG_OK(self->sigma_L.rep[gv_slot0])))
__CPROVER_decreases((long)gv_end - gv_j)
//@ head LocalNetwork_vyrovnani_sigmaL_block 2
GV_ANCHOR(i, self->gv_flat + gv_j);
GV_INST(0 <= gv_j && gv_j < self->gv_nall, FLAT_WF(self, gv_j));
if (0 <= gv_j0 && gv_j0 < gv_j) GV_INST(gv_j0 + 1 <= gv_j && gv_j <= self->gv_nall, APRE_MONO(self, gv_j0 + 1, gv_j));
//@ tail LocalNetwork_vyrovnani_sigmaL_block 2
gv_j++;
//@ end

//@ harness
static void mk_vec(struct Vec *v)
{
  __CPROVER_assume(v->sz >= 0 && v->sz <= MAXOBS);
  v->rep = malloc((size_t)v->sz * sizeof(Float));     /* an empty vector is represented by an empty block (README) */
  __CPROVER_assume(v->rep != NULL);
}
static void mk_net(struct LocalNetwork *N, struct AdjBase *ls)
{
  struct LocalNetwork any;
  *N = any;
  N->least_squares = ls;
  mk_vec(&N->sigma_L);
  mk_vec(&N->vahkopr);
  __CPROVER_assume(N->pocmer_ >= 0 && N->pocmer_ <= MAXOBS && N->gv_nall >= 0 && N->gv_nall <= MAXOBS && N->OD.ncl >= 0 && N->OD.ncl <= MAXCL);
  N->revised_obs_ = malloc((size_t)N->pocmer_ * sizeof(ObsRef));
  N->OD.gv_clb = malloc(((size_t)N->OD.ncl + 1) * sizeof(int));
  N->gv_flat = malloc((size_t)N->gv_nall * sizeof(ObsRef));
  N->gv_apre = malloc(((size_t)N->gv_nall + 1) * sizeof(int));
  __CPROVER_assume(N->revised_obs_ && N->OD.gv_clb && N->gv_flat && N->gv_apre);
  gv_exc = 0;
  gv_qbb_calls = gv_stddev_calls = gv_m0_calls = 0;
  __CPROVER_assume(NET_SHAPE(N));
}
void h_weight_obs(void)
{
  struct LocalNetwork N; struct AdjBase ls;
  mk_net(&N, &ls);
  int i;
  __CPROVER_assume(1 <= i && i <= N.pocmer_);
  double w = LocalNetwork_weight_obs(&N, i);
  GV_CANARY("h_weight_obs end");
}
void h_wcoef(void)
{
  struct LocalNetwork N; struct AdjBase ls;
  mk_net(&N, &ls);
  __CPROVER_assume(N.tst_vyrovnani_);
  int k0;
  gv_k0 = k0;
  LocalNetwork_vyrovnani_wcoef_block(&N);
  GV_CANARY("h_wcoef end");
}
void h_sigmaL(void)
{
  struct LocalNetwork N; struct AdjBase ls;
  mk_net(&N, &ls);
  __CPROVER_assume(N.tst_vyrovnani_);
  gv_m0_calls = 0;
  int j0;
  gv_j0 = j0;
  if (0 <= j0 && j0 < N.gv_nall)
    __CPROVER_assume(FLAT_WF(&N, j0));
  LocalNetwork_vyrovnani_sigmaL_block(&N);
  GV_CANARY("h_sigmaL end");
}
//@ end
