// Native demonstration (C09/C04, found while deriving the contract of the sigma_L block): sigma_L caches m_0() at adjustment time;
// set_m_0_apriori()/set_m_0_aposteriori()/apriori_m_0(m) change the reference deviation without update(): stdev_obs(i) stays stale.
// Build: OBJS=$(find /repo/_build/CMakeFiles/libgama.dir -name "*.o"); g++ -std=c++14 -I/repo/lib native_demo_stale_sigma_L.cpp $OBJS -lexpat
#include <gnu_gama/local/network.h>
#include <gnu_gama/xml/gkfparser.h>
#include <gnu_gama/local/language.h>
#include <cstdio>
#include <cstring>
using namespace GNU_gama::local;
static const char* gkf =
"<?xml version=\"1.0\" ?>\n<gama-local xmlns=\"http://www.gnu.org/software/gama/gama-local\">\n"
"<network axes-xy=\"ne\" angles=\"left-handed\">\n<parameters sigma-apr=\"10\" conf-pr=\"0.95\" tol-abs=\"1000\" sigma-act=\"apriori\"/>\n"
"<points-observations distance-stdev=\"5.0\">\n<point id=\"A\" x=\"0\" y=\"0\" fix=\"xy\"/>\n<point id=\"B\" x=\"100\" y=\"0\" fix=\"xy\"/>\n"
"<point id=\"C\" x=\"0\" y=\"100\" fix=\"xy\"/>\n<point id=\"P\" x=\"40\" y=\"30\" adj=\"xy\"/>\n"
"<obs from=\"P\">\n<distance to=\"A\" val=\"50.001\"/>\n<distance to=\"B\" val=\"67.083\"/>\n<distance to=\"C\" val=\"80.620\"/>\n</obs>\n"
"</points-observations>\n</network>\n</gama-local>\n";
int main()
{
  set_gama_language(en);
  LocalNetwork net; GKFparser p(net); p.xml_parse(gkf, std::strlen(gkf), 1);
  net.set_algorithm("gso");
  net.solve();
  std::printf("apriori     : m_0=%.6f unknown_stdev(1)=%.6f stdev_obs(1)=%.6f  ratio stdev_obs/(m0*sqrt(qbb/p))=%.6f\n", net.m_0(), net.unknown_stdev(1), net.stdev_obs(1),
              net.stdev_obs(1)/(net.m_0()*std::sqrt(net.qbb(1,1)/net.weight_obs(1))));
  net.set_m_0_aposteriori();          // no update(): the adjustment stays "valid"
  std::printf("aposteriori : m_0=%.6f unknown_stdev(1)=%.6f stdev_obs(1)=%.6f  ratio stdev_obs/(m0*sqrt(qbb/p))=%.6f  is_adjusted=%d\n", net.m_0(), net.unknown_stdev(1), net.stdev_obs(1),
              net.stdev_obs(1)/(net.m_0()*std::sqrt(net.qbb(1,1)/net.weight_obs(1))), (int)net.is_adjusted());
  LocalNetwork n2; GKFparser p2(n2); p2.xml_parse(gkf, std::strlen(gkf), 1); n2.set_algorithm("gso"); n2.set_m_0_aposteriori(); n2.solve();
  std::printf("fresh apost.: m_0=%.6f unknown_stdev(1)=%.6f stdev_obs(1)=%.6f\n", n2.m_0(), n2.unknown_stdev(1), n2.stdev_obs(1));
  return 0;
}
