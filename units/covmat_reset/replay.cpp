// Native replay for unit covmat_reset: rebuilds the verifier's witness (old shape d0,b0; requested shape d,b) with the real
// CovMat<> of /repo and re-evaluates the postcondition "after reset(d,b) the object is a d x d band matrix of width b whose
// every in-band element is addressable and distinct".  exit 1 = violation reproduces, 0 = does not, 2 = no witness.
#include <cstdio>
#include <set>
#include <matvec/covmat.h>
#include "gv_replay.h"

int main(int argc, char** argv)
{
  if (argc < 2) return 2;
  GvInputs in(argv[1]);
  if (!in.has("d0") || !in.has("d")) { std::printf("no witness values in the trace\n"); return 2; }
  const int d0 = (int)in.integer("d0", 0), b0 = (int)in.integer("b0", 0), d = (int)in.integer("d", 0), b = (int)in.integer("b", 0);
  if (d0 < 0 || d < 0 || d0 > 4096 || d > 4096) { std::printf("witness too large to replay natively\n"); return 2; }
  GNU_gama::CovMat<> C(d0, b0);
  C.reset(d, b);
  int bad = 0;
  if ((int)C.dim() != d || (int)C.bandWidth() != b) bad = 1;
  std::printf("CovMat(%d,%d).reset(%d,%d): object reports dim %d band %d\n", d0, b0, d, b, (int)C.dim(), (int)C.bandWidth());
  if (!bad) {
    try {
      std::set<const double*> seen;
      for (int r = 1; r <= d; r++)
        for (int s = r; s <= d && s <= r + b; s++) {
          const double* p = &C(r, s);
          if (p < C.begin() || p >= C.end() || !seen.insert(p).second) bad = 1;
        }
      if ((long)seen.size() != (long)(C.end() - C.begin())) bad = 1;
    } catch (...) { std::printf("element access inside the band raised an exception\n"); bad = 1; }
  }
  std::printf("reset gives the requested shape: %s\n", bad ? "POSTCONDITION VIOLATED" : "ok");
  return bad;
}
