/* Sidecar contract for CovMat<Float,Index,Exc>::reset(Index d, Index b) (lib/matvec/covmat.h), property C15:
   "sequences of reset/resize between different sizes" and "banded storage index arithmetic".

   CONTRACT (from the property, not from the code): whatever well-formed shape the object had before, after
   reset(d, b) it IS a d x d band matrix of band width b: every field the index arithmetic of operator() /
   operator[] reads (row_, col_, band_, band_1, dim_b) belongs to (d, b) and the buffer holds exactly the packed
   upper band d*(b+1) - b*(b+1)/2 -- i.e. the representation invariant WF_COV (units/matvec_index/matvec_spec.h,
   the precondition under which the accessors are verified) holds FOR THE REQUESTED SHAPE.  A reset that keeps
   any field of the old shape (e.g. because only the packed size was compared) violates it.                    */

//@ prelude
#include "../matvec_index/matvec_spec.h"
int gv_exc;

/* MemRep::resize(nsz): ASSUMED here, verified on the extracted body in unit memrep (check resize) */
void MemRep_resize(struct MemRep *self, Index nsz)
__CPROVER_requires(__CPROVER_rw_ok(self, sizeof(struct MemRep)) && WF_MEM(self) && gv_exc == 0)
__CPROVER_assigns(self->rep, self->sz, gv_exc)
/* as a REPLACED contract the block must be introduced with is_fresh (rw_ok in an assumed postcondition gives the havocked
   pointer no object); it implies WF_MEM */
__CPROVER_ensures(self->sz >= 0 && (self->sz > 0 ==> __CPROVER_is_fresh(self->rep, self->sz * sizeof(Float))))
__CPROVER_ensures(nsz >= 0 ==> (gv_exc == 0 && self->sz == nsz))
__CPROVER_ensures(nsz < 0 ==> gv_exc != 0);

/* MemRep::size(): one-line getter `return sz;` (contract text shared with unit memrep, where the body is verified) */
Index MemRep_size(const struct MemRep *self)
MV_CONTRACT_MemRep_size;

#define SHAPE_OK(d, b) (0 <= (d) && (d) <= MAXD && 0 <= (b) && ((b) < (d) || ((b) == 0 && (d) == 0)))
//@ end

//@ contract CovMat_dim
__CPROVER_requires(__CPROVER_r_ok(self, sizeof(struct CovMat)))
__CPROVER_assigns()
__CPROVER_ensures(__CPROVER_return_value == self->base.row_)
//@ entry CovMat_dim
GV_CANARY("CovMat_dim entry");
//@ end

//@ contract CovMat_reset
__CPROVER_requires(__CPROVER_rw_ok(self, sizeof(struct CovMat)) && WF_COV(self) && gv_exc == 0)
__CPROVER_requires(SHAPE_OK(d, b))
__CPROVER_assigns(self->base.row_, self->base.col_, self->band_, self->band_1, self->dim_b, self->base.mem.rep,
                  self->base.mem.sz, gv_exc)
/* the object has the requested shape ... */
__CPROVER_ensures(gv_exc == 0 && self->base.row_ == d && self->base.col_ == d && self->band_ == b)
/* ... and is well formed for it (derived fields and packed size belong to (d, b)) */
__CPROVER_ensures(WF_COV(self))
//@ entry CovMat_reset
GV_CANARY("CovMat_reset entry");
//@ end

//@ harness
static void mk_mem(struct MemRep *M, Index n)
{
  M->sz = n;
  M->rep = NULL;
  if (n > 0) {
    M->rep = malloc((size_t)n * sizeof(Float));
    __CPROVER_assume(M->rep != NULL);
  }
}
/* an ARBITRARY well-formed CovMat: any earlier shape (d0, b0), hence any history of resets */
static void mk_cov(struct CovMat *A)
{
  Index d0, b0;
  __CPROVER_assume(SHAPE_OK(d0, b0));
#ifdef GV_SMALL
  __CPROVER_assume(d0 <= GV_SMALL);
#endif
  A->base.row_ = A->base.col_ = d0;
  A->band_ = b0;
  A->band_1 = b0 + 1;
  A->dim_b = d0 - b0;
  mk_mem(&A->base.mem, d0 * (b0 + 1) - b0 * (b0 + 1) / 2);
}
void h_dim(void)
{
  struct CovMat A;
  mk_cov(&A);
  Index n = CovMat_dim(&A);
  GV_CANARY("h_dim end");
}
void h_reset(void)
{
  struct CovMat A;
  mk_cov(&A);
  Index d, b;
#ifdef GV_SMALL
  __CPROVER_assume(d <= GV_SMALL);
#endif
  Index gv_sz0 = MemRep_size(&A.base.mem);   /* keeps the getter's contract in the binary when the body does not call it */
  gv_exc = 0;
  CovMat_reset(&A, d, b);
  GV_CANARY("h_reset end");
}
//@ end
