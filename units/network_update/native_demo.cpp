// Native demonstration for unit network_update (C04): public LocalNetwork accessors of adjusted results
// without a lazy guard.  Build: g++ -std=c++14 -I/repo/lib demo_net.cpp libgama.a -lexpat
#include <gnu_gama/local/network.h>
#include <gnu_gama/xml/gkfparser.h>
#include <gnu_gama/local/language.h>
#include <cstdio>
#include <cstring>
#include <string>
using namespace GNU_gama::local;

static const char* gkf =
"<?xml version=\"1.0\" ?>\n"
"<gama-local xmlns=\"http://www.gnu.org/software/gama/gama-local\">\n"
"<network axes-xy=\"ne\" angles=\"left-handed\">\n"
"<parameters sigma-apr=\"10\" conf-pr=\"0.95\" tol-abs=\"1000\" sigma-act=\"apriori\"/>\n"
"<points-observations distance-stdev=\"5.0\">\n"
"<point id=\"A\" x=\"0\" y=\"0\" fix=\"xy\"/>\n"
"<point id=\"B\" x=\"100\" y=\"0\" fix=\"xy\"/>\n"
"<point id=\"C\" x=\"0\" y=\"100\" fix=\"xy\"/>\n"
"<point id=\"P\" x=\"40\" y=\"30\" adj=\"xy\"/>\n"
"<obs from=\"P\">\n"
"<distance to=\"A\" val=\"50.001\"/>\n"
"<distance to=\"B\" val=\"67.083\"/>\n"
"<distance to=\"C\" val=\"80.620\"/>\n"
"</obs>\n"
"</points-observations>\n"
"</network>\n"
"</gama-local>\n";

int main(int argc, char** argv)
{
  set_gama_language(en);
  const char* alg = argc > 2 ? argv[2] : "envelope";
  std::string mode = argc > 1 ? argv[1] : "stale";
  LocalNetwork net;
  GKFparser p(net);
  p.xml_parse(gkf, std::strlen(gkf), 1);
  net.set_algorithm(alg);

  if (mode == "fresh_qxx") {           // ask a cofactor first
    std::printf("fresh object, first question qxx(1,1) ...\n"); std::fflush(stdout);
    double q = net.qxx(1,1);
    std::printf("qxx(1,1) = %.6g\n", q);
    net.solve();
    std::printf("after solve(): qxx(1,1) = %.6g\n", net.qxx(1,1));
    return 0;
  }
  if (mode == "fresh_stdev_obs") {
    std::printf("fresh object, first question stdev_obs(1) ...\n"); std::fflush(stdout);
    double s = net.stdev_obs(1);
    std::printf("stdev_obs(1) = %.6g\n", s);
    return 0;
  }
  // history: solve, then change the input (one observation made passive), notify, ask without solve()
  net.solve();
  double q1 = net.qxx(1,1), s1 = net.stdev_obs(1), w1 = net.wcoef_res(1);
  std::printf("adjusted (3 distances): is_adjusted=%d qxx(1,1)=%.9g stdev_obs(1)=%.9g wcoef_res(1)=%.9g dof=%d\n",
              net.is_adjusted(), q1, s1, w1, net.degrees_of_freedom());
  net.ptr_obs(3)->set_passive();
  net.update_observations();
  double q2 = net.qxx(1,1), s2 = net.stdev_obs(1), w2 = net.wcoef_res(1);
  std::printf("after set_passive(obs 3)+update_observations(): is_adjusted=%d qxx(1,1)=%.9g stdev_obs(1)=%.9g wcoef_res(1)=%.9g   <- asked BEFORE solve()\n",
              net.is_adjusted(), q2, s2, w2);
  int dof = net.degrees_of_freedom();       // a guarded accessor: triggers the re-adjustment
  double q3 = net.qxx(1,1), s3 = net.stdev_obs(1), w3 = net.wcoef_res(1);
  std::printf("same object, same input, asked AFTER degrees_of_freedom() (=%d):       qxx(1,1)=%.9g stdev_obs(1)=%.9g wcoef_res(1)=%.9g\n", dof, q3, s3, w3);
  bool differs = (q2 != q3) || (s2 != s3) || (w2 != w3);
  std::printf("%s\n", differs ? "HISTORY DEPENDENCE: the same question on the same input has two answers" : "no difference");
  return differs ? 1 : 0;
}
