/* Sidecar contracts for the invalidation cascade LocalNetwork::update and the lazy public accessors of
   lib/gnu_gama/local/network.h / network.cpp (property C04: every quantity has one value whatever was asked
   before; DESIGN.md 5 C04-U6).  Function bodies are extracted from /repo on every run. */

//@ prelude
#include "netmodel.h"
//@ end

/* ------------------------------------------------------------------------------------------------ */
/* matvec getters used by the accessors (extracted, not stubbed) */
//@ contract Mat_rows
__CPROVER_requires(__CPROVER_r_ok(self, sizeof(*self)))
__CPROVER_assigns()
__CPROVER_ensures(__CPROVER_return_value == self->row_)
//@ contract Mat_cols
__CPROVER_requires(__CPROVER_r_ok(self, sizeof(*self)))
__CPROVER_assigns()
__CPROVER_ensures(__CPROVER_return_value == self->col_)
//@ contract Vec_at_const
__CPROVER_requires(__CPROVER_r_ok(self, sizeof(*self)))
__CPROVER_requires(1 <= n && n <= self->sz && __CPROVER_r_ok(self->rep, (size_t)self->sz * sizeof(Float)))
__CPROVER_assigns()
__CPROVER_ensures(__CPROVER_return_value == self->rep[n - 1] || self->rep[n - 1] != self->rep[n - 1])
//@ entry Vec_at_const
GV_CANARY("Vec_at_const entry");
//@ end

/* ------------------------------------------------------------------------------------------------ */
/* update(X): clears the validity flag of stage X and of every stage downstream of X, nothing upstream;
   hence the validity chain is preserved from every chain-satisfying state.  The stage order is derived
   from who consumes what: vyrovnani_ <- project_equations <- revision_observations <- revision_points. */
//@ contract LocalNetwork_update
__CPROVER_requires(__CPROVER_rw_ok(self, sizeof(*self)))
__CPROVER_requires(Points <= etapa && etapa <= Adjustment)
__CPROVER_assigns(self->tst_redbod_, self->tst_redmer_, self->tst_rov_opr_, self->tst_vyrovnani_)
/* downstream (and own) stages cleared */
__CPROVER_ensures(!self->tst_vyrovnani_)
__CPROVER_ensures(etapa <= Residuals ==> !self->tst_rov_opr_)
__CPROVER_ensures(etapa <= Observations ==> !self->tst_redmer_)
__CPROVER_ensures(etapa <= Points ==> !self->tst_redbod_)
/* upstream stages untouched */
__CPROVER_ensures(etapa >= Adjustment ==> self->tst_rov_opr_ == __CPROVER_old(self->tst_rov_opr_))
__CPROVER_ensures(etapa >= Residuals ==> self->tst_redmer_ == __CPROVER_old(self->tst_redmer_))
__CPROVER_ensures(etapa >= Observations ==> self->tst_redbod_ == __CPROVER_old(self->tst_redbod_))
/* chain preserved */
__CPROVER_ensures(CHAIN4(__CPROVER_old(self->tst_redbod_), __CPROVER_old(self->tst_redmer_), __CPROVER_old(self->tst_rov_opr_),
                         __CPROVER_old(self->tst_vyrovnani_)) ==> CHAIN(self))
//@ entry LocalNetwork_update
GV_CANARY("LocalNetwork_update entry");
//@ end

/* the four public wrappers: update_X() invalidates exactly like update(X) (update replaced by its contract) */
//@ contract LocalNetwork_update_points
__CPROVER_requires(__CPROVER_rw_ok(self, sizeof(*self)))
__CPROVER_assigns(self->tst_redbod_, self->tst_redmer_, self->tst_rov_opr_, self->tst_vyrovnani_)
__CPROVER_ensures(!self->tst_redbod_ && !self->tst_redmer_ && !self->tst_rov_opr_ && !self->tst_vyrovnani_)
//@ entry LocalNetwork_update_points
GV_CANARY("LocalNetwork_update_points entry");
//@ contract LocalNetwork_update_observations
__CPROVER_requires(__CPROVER_rw_ok(self, sizeof(*self)))
__CPROVER_assigns(self->tst_redbod_, self->tst_redmer_, self->tst_rov_opr_, self->tst_vyrovnani_)
__CPROVER_ensures(self->tst_redbod_ == __CPROVER_old(self->tst_redbod_) && !self->tst_redmer_ && !self->tst_rov_opr_ && !self->tst_vyrovnani_)
//@ entry LocalNetwork_update_observations
GV_CANARY("LocalNetwork_update_observations entry");
//@ contract LocalNetwork_update_residuals
__CPROVER_requires(__CPROVER_rw_ok(self, sizeof(*self)))
__CPROVER_assigns(self->tst_redbod_, self->tst_redmer_, self->tst_rov_opr_, self->tst_vyrovnani_)
__CPROVER_ensures(self->tst_redbod_ == __CPROVER_old(self->tst_redbod_) && self->tst_redmer_ == __CPROVER_old(self->tst_redmer_) &&
                  !self->tst_rov_opr_ && !self->tst_vyrovnani_)
//@ entry LocalNetwork_update_residuals
GV_CANARY("LocalNetwork_update_residuals entry");
//@ contract LocalNetwork_update_adjustment
__CPROVER_requires(__CPROVER_rw_ok(self, sizeof(*self)))
__CPROVER_assigns(self->tst_redbod_, self->tst_redmer_, self->tst_rov_opr_, self->tst_vyrovnani_)
__CPROVER_ensures(self->tst_redbod_ == __CPROVER_old(self->tst_redbod_) && self->tst_redmer_ == __CPROVER_old(self->tst_redmer_) &&
                  self->tst_rov_opr_ == __CPROVER_old(self->tst_rov_opr_) && !self->tst_vyrovnani_)
//@ entry LocalNetwork_update_adjustment
GV_CANARY("LocalNetwork_update_adjustment entry");
//@ end

/* Setters of the reference standard deviation (C04 "answers do not depend on the history of queries", C09 "each standard
   deviation is the ACTUAL reference deviation times the square root of the cofactor"): sigma_L is formed in the tail of
   vyrovnani_ with the factor m_0()/m_0_apr_ of that moment, the weights p = (m_0_apr_/stdev)^2 enter the project equations.
   Hence changing the TYPE must invalidate the adjustment stage, changing the a priori VALUE the project equations (and what
   follows); upstream stages stay valid.  On the tree as found none of them invalidated anything: solve(); set_m_0_aposteriori();
   stdev_obs(1) stayed 4.6177 where a fresh object gives 0.5091 (units/vyrovnani_tail/native_demo_stale_sigma_L.cpp). */
//@ contract LocalNetwork_set_m_0_apriori
__CPROVER_requires(__CPROVER_rw_ok(self, sizeof(*self)))
__CPROVER_assigns(self->typ_m_0_, self->tst_redbod_, self->tst_redmer_, self->tst_rov_opr_, self->tst_vyrovnani_)
__CPROVER_ensures(self->typ_m_0_ == apriorni_ && !self->tst_vyrovnani_)
__CPROVER_ensures(self->tst_redbod_ == __CPROVER_old(self->tst_redbod_) && self->tst_redmer_ == __CPROVER_old(self->tst_redmer_) &&
                  self->tst_rov_opr_ == __CPROVER_old(self->tst_rov_opr_))
//@ entry LocalNetwork_set_m_0_apriori
GV_CANARY("LocalNetwork_set_m_0_apriori entry");
//@ contract LocalNetwork_set_m_0_aposteriori
__CPROVER_requires(__CPROVER_rw_ok(self, sizeof(*self)))
__CPROVER_assigns(self->typ_m_0_, self->tst_redbod_, self->tst_redmer_, self->tst_rov_opr_, self->tst_vyrovnani_)
__CPROVER_ensures(self->typ_m_0_ == empiricka_ && !self->tst_vyrovnani_)
__CPROVER_ensures(self->tst_redbod_ == __CPROVER_old(self->tst_redbod_) && self->tst_redmer_ == __CPROVER_old(self->tst_redmer_) &&
                  self->tst_rov_opr_ == __CPROVER_old(self->tst_rov_opr_))
//@ entry LocalNetwork_set_m_0_aposteriori
GV_CANARY("LocalNetwork_set_m_0_aposteriori entry");
//@ contract LocalNetwork_apriori_m_0_set
__CPROVER_requires(__CPROVER_rw_ok(self, sizeof(*self)))
__CPROVER_assigns(self->m_0_apr_, self->tst_redbod_, self->tst_redmer_, self->tst_rov_opr_, self->tst_vyrovnani_)
__CPROVER_ensures((self->m_0_apr_ == m || m != m) && !self->tst_rov_opr_ && !self->tst_vyrovnani_)
__CPROVER_ensures(self->tst_redbod_ == __CPROVER_old(self->tst_redbod_) && self->tst_redmer_ == __CPROVER_old(self->tst_redmer_))
//@ entry LocalNetwork_apriori_m_0_set
GV_CANARY("LocalNetwork_apriori_m_0_set entry");
//@ end

/* ------------------------------------------------------------------------------------------------ */
/* Lazy accessors.  Common contract shape (ACC): from any state satisfying the representation invariant,
   the invariant holds again on return; on normal return the stage whose result is reported is valid
   (the stage stubs' contracts say "valid" == freshly computed or unchanged since it was computed);
   adjusted results are read from the solver only through the AdjBase stubs, whose precondition is
   "adjustment flag true now" (checked at every call site).  An exception of a stage propagates. */
//@ contract LocalNetwork_points_count
__CPROVER_requires(__CPROVER_rw_ok(self, sizeof(*self)) && gv_exc == 0 && NET_INV(self) && self == gv_net)
__CPROVER_assigns(NET_STAGE_FRAME(self))
__CPROVER_ensures(gv_exc == 0 && self->tst_redbod_ && __CPROVER_return_value == self->pocbod_)
__CPROVER_ensures(__CPROVER_old(self->tst_redbod_) ==> (NET_FLAGS_UNCHANGED(self) && __CPROVER_return_value == __CPROVER_old(self->pocbod_)))
//@ entry LocalNetwork_points_count
GV_CANARY("LocalNetwork_points_count entry");

//@ contract LocalNetwork_huge_abs_terms
__CPROVER_requires(__CPROVER_rw_ok(self, sizeof(*self)) && gv_exc == 0 && NET_INV(self) && self == gv_net)
__CPROVER_assigns(NET_STAGE_FRAME(self))
__CPROVER_ensures(NET_INV(self))
__CPROVER_ensures(gv_exc == 0 ==> (self->tst_rov_opr_ && __CPROVER_return_value == self->vybocujici_abscl_))
__CPROVER_ensures(__CPROVER_old(self->tst_rov_opr_) ==> (gv_exc == 0 && NET_FLAGS_UNCHANGED(self) && __CPROVER_return_value == __CPROVER_old(self->vybocujici_abscl_)))
//@ entry LocalNetwork_huge_abs_terms
GV_CANARY("LocalNetwork_huge_abs_terms entry");

//@ contract LocalNetwork_unknowns_count
__CPROVER_requires(__CPROVER_rw_ok(self, sizeof(*self)) && gv_exc == 0 && NET_INV(self) && self == gv_net)
__CPROVER_assigns(NET_STAGE_FRAME(self))
__CPROVER_ensures(NET_INV(self))
__CPROVER_ensures(gv_exc == 0 ==> (self->tst_rov_opr_ && __CPROVER_return_value == self->A.col_))
__CPROVER_ensures(__CPROVER_old(self->tst_rov_opr_) ==> (gv_exc == 0 && NET_FLAGS_UNCHANGED(self) && __CPROVER_return_value == __CPROVER_old(self->A.col_)))
//@ entry LocalNetwork_unknowns_count
GV_CANARY("LocalNetwork_unknowns_count entry");

//@ contract LocalNetwork_observations_count
__CPROVER_requires(__CPROVER_rw_ok(self, sizeof(*self)) && gv_exc == 0 && NET_INV(self) && self == gv_net)
__CPROVER_assigns(NET_STAGE_FRAME(self))
__CPROVER_ensures(NET_INV(self))
__CPROVER_ensures(gv_exc == 0 ==> (self->tst_rov_opr_ && __CPROVER_return_value == self->A.row_))
__CPROVER_ensures(__CPROVER_old(self->tst_rov_opr_) ==> (gv_exc == 0 && NET_FLAGS_UNCHANGED(self) && __CPROVER_return_value == __CPROVER_old(self->A.row_)))
//@ entry LocalNetwork_observations_count
GV_CANARY("LocalNetwork_observations_count entry");

//@ contract LocalNetwork_solve
__CPROVER_requires(__CPROVER_rw_ok(self, sizeof(*self)) && gv_exc == 0 && NET_INV(self) && self == gv_net)
__CPROVER_assigns(NET_STAGE_FRAME(self))
__CPROVER_ensures(NET_INV(self))
__CPROVER_ensures(gv_exc == 0 ==> (self->tst_vyrovnani_ && __CPROVER_return_value != NULL))
__CPROVER_ensures(__CPROVER_old(self->tst_vyrovnani_) ==> (gv_exc == 0 && NET_FLAGS_UNCHANGED(self)))
//@ entry LocalNetwork_solve
GV_CANARY("LocalNetwork_solve entry");

//@ contract LocalNetwork_residuals
__CPROVER_requires(__CPROVER_rw_ok(self, sizeof(*self)) && gv_exc == 0 && NET_INV(self) && self == gv_net)
__CPROVER_assigns(NET_STAGE_FRAME(self))
__CPROVER_ensures(NET_INV(self))
__CPROVER_ensures(gv_exc == 0 ==> (self->tst_vyrovnani_ && __CPROVER_return_value == &self->r))
__CPROVER_ensures(__CPROVER_old(self->tst_vyrovnani_) ==> (gv_exc == 0 && NET_FLAGS_UNCHANGED(self) && self->r.rep == __CPROVER_old(self->r.rep)))
//@ entry LocalNetwork_residuals
GV_CANARY("LocalNetwork_residuals entry");

//@ contract LocalNetwork_trans_VWV
__CPROVER_requires(__CPROVER_rw_ok(self, sizeof(*self)) && gv_exc == 0 && NET_INV(self) && self == gv_net)
__CPROVER_assigns(NET_STAGE_FRAME(self))
__CPROVER_ensures(NET_INV(self))
__CPROVER_ensures(gv_exc == 0 ==> (self->tst_vyrovnani_ && (__CPROVER_return_value == self->suma_pvv_ || self->suma_pvv_ != self->suma_pvv_)))
__CPROVER_ensures(__CPROVER_old(self->tst_vyrovnani_) ==> (gv_exc == 0 && NET_FLAGS_UNCHANGED(self) &&
                  (__CPROVER_return_value == __CPROVER_old(self->suma_pvv_) || __CPROVER_return_value != __CPROVER_return_value)))
//@ entry LocalNetwork_trans_VWV
GV_CANARY("LocalNetwork_trans_VWV entry");

//@ contract LocalNetwork_degrees_of_freedom
__CPROVER_requires(__CPROVER_rw_ok(self, sizeof(*self)) && gv_exc == 0 && NET_INV(self) && self == gv_net)
__CPROVER_assigns(NET_STAGE_FRAME(self))
__CPROVER_ensures(NET_INV(self))
__CPROVER_ensures(gv_exc == 0 ==> self->tst_vyrovnani_)
__CPROVER_ensures(__CPROVER_old(self->tst_vyrovnani_) ==> (gv_exc == 0 && NET_FLAGS_UNCHANGED(self)))
//@ entry LocalNetwork_degrees_of_freedom
GV_CANARY("LocalNetwork_degrees_of_freedom entry");

//@ contract LocalNetwork_is_adjusted
__CPROVER_requires(__CPROVER_r_ok(self, sizeof(*self)))
__CPROVER_assigns()
__CPROVER_ensures(__CPROVER_return_value == self->tst_vyrovnani_)
//@ entry LocalNetwork_is_adjusted
GV_CANARY("LocalNetwork_is_adjusted entry");
//@ end

/* ------------------------------------------------------------------------------------------------ */
/* Public accessors of ADJUSTED results that contain no lazy guard in their body.  Same contract shape:
   callable in any invariant-satisfying state (that is what "whatever was asked before" quantifies over);
   the obligation "adjustment flag true at the read" is the precondition of the AdjBase stubs / of the
   Vec element access (index inside the vector as dimensioned by the last adjustment). */
//@ contract LocalNetwork_qxx
__CPROVER_requires(__CPROVER_rw_ok(self, sizeof(*self)) && gv_exc == 0 && NET_INV(self) && self == gv_net)
__CPROVER_assigns(NET_STAGE_FRAME(self))
__CPROVER_ensures(NET_INV(self))
__CPROVER_ensures(gv_exc == 0 ==> self->tst_vyrovnani_)
//@ entry LocalNetwork_qxx
GV_CANARY("LocalNetwork_qxx entry");
//@ contract LocalNetwork_qbb
__CPROVER_requires(__CPROVER_rw_ok(self, sizeof(*self)) && gv_exc == 0 && NET_INV(self) && self == gv_net)
__CPROVER_assigns(NET_STAGE_FRAME(self))
__CPROVER_ensures(NET_INV(self))
__CPROVER_ensures(gv_exc == 0 ==> self->tst_vyrovnani_)
//@ entry LocalNetwork_qbb
GV_CANARY("LocalNetwork_qbb entry");
//@ contract LocalNetwork_qbx
__CPROVER_requires(__CPROVER_rw_ok(self, sizeof(*self)) && gv_exc == 0 && NET_INV(self) && self == gv_net)
__CPROVER_assigns(NET_STAGE_FRAME(self))
__CPROVER_ensures(NET_INV(self))
__CPROVER_ensures(gv_exc == 0 ==> self->tst_vyrovnani_)
//@ entry LocalNetwork_qbx
GV_CANARY("LocalNetwork_qbx entry");
//@ contract LocalNetwork_cond
__CPROVER_requires(__CPROVER_rw_ok(self, sizeof(*self)) && gv_exc == 0 && NET_INV(self) && self == gv_net)
__CPROVER_assigns(NET_STAGE_FRAME(self))
__CPROVER_ensures(NET_INV(self))
__CPROVER_ensures(gv_exc == 0 ==> self->tst_vyrovnani_)
//@ entry LocalNetwork_cond
GV_CANARY("LocalNetwork_cond entry");
//@ contract LocalNetwork_lindep
__CPROVER_requires(__CPROVER_rw_ok(self, sizeof(*self)) && gv_exc == 0 && NET_INV(self) && self == gv_net)
__CPROVER_assigns(NET_STAGE_FRAME(self))
__CPROVER_ensures(NET_INV(self))
__CPROVER_ensures(gv_exc == 0 ==> self->tst_vyrovnani_)
//@ entry LocalNetwork_lindep
GV_CANARY("LocalNetwork_lindep entry");
//@ contract LocalNetwork_stdev_obs
__CPROVER_requires(__CPROVER_rw_ok(self, sizeof(*self)) && gv_exc == 0 && NET_INV(self) && NET_MEM(self) && self == gv_net)
__CPROVER_requires(i >= 1 && i == gv_obs_index && (self->tst_vyrovnani_ ==> i <= self->pocmer_))
__CPROVER_assigns(NET_STAGE_FRAME(self))
__CPROVER_ensures(NET_INV(self))
__CPROVER_ensures(gv_exc == 0 ==> self->tst_vyrovnani_)
//@ entry LocalNetwork_stdev_obs
GV_CANARY("LocalNetwork_stdev_obs entry");
//@ contract LocalNetwork_wcoef_res
__CPROVER_requires(__CPROVER_rw_ok(self, sizeof(*self)) && gv_exc == 0 && NET_INV(self) && NET_MEM(self) && self == gv_net)
__CPROVER_requires(i >= 1 && i == gv_obs_index && (self->tst_vyrovnani_ ==> i <= self->pocmer_))
__CPROVER_assigns(NET_STAGE_FRAME(self))
__CPROVER_ensures(NET_INV(self))
__CPROVER_ensures(gv_exc == 0 ==> self->tst_vyrovnani_)
//@ entry LocalNetwork_wcoef_res
GV_CANARY("LocalNetwork_wcoef_res entry");
//@ end

//@ harness
#define H_NET(hname, call)                                                                   \
  void hname(void)                                                                           \
  {                                                                                          \
    struct LocalNetwork N;                                                                   \
    struct AdjBase ls;                                                                       \
    mk_network(&N, &ls);                                                                     \
    int i, j;                                                                                \
    GV_EXCL_ASSUME;                                                                          \
    call;                                                                                    \
    GV_CANARY(#hname " end");                                                                \
  }
/* exclusion predicate of the finding "accessor of adjusted results without lazy guard": asked while adjusted */
#ifdef GV_EXCL_UNGUARDED
#define GV_EXCL_ASSUME __CPROVER_assume(N.tst_vyrovnani_)
#else
#define GV_EXCL_ASSUME
#endif
#define OBS_INDEX __CPROVER_assume(i >= 1 && (!N.tst_redmer_ || i <= N.pocmer_))

void h_update(void)
{
  struct LocalNetwork N;           /* every field arbitrary, chain NOT assumed: the contract states the implication */
  Update e;
  __CPROVER_assume(Points <= e && e <= Adjustment);
  LocalNetwork_update(&N, e);
  GV_CANARY("h_update end");
}
void h_vec_at(void)
{
  struct Vec v;
  Index n;
  __CPROVER_assume(v.sz >= 0 && v.sz <= 10000000);
  v.rep = malloc((size_t)v.sz * sizeof(Float));
  __CPROVER_assume(v.rep && 1 <= n && n <= v.sz);
  Vec_at_const(&v, n);
  GV_CANARY("h_vec_at end");
}
/* arbitrary flags (no invariant needed) for the wrappers */
#define H_RAW(hname, call) void hname(void) { struct LocalNetwork N; call; GV_CANARY(#hname " end"); }
H_RAW(h_update_points, LocalNetwork_update_points(&N))
H_RAW(h_update_observations, LocalNetwork_update_observations(&N))
H_RAW(h_update_residuals, LocalNetwork_update_residuals(&N))
H_RAW(h_update_adjustment, LocalNetwork_update_adjustment(&N))
H_RAW(h_is_adjusted, LocalNetwork_is_adjusted(&N))
H_RAW(h_set_m_0_apriori, LocalNetwork_set_m_0_apriori(&N))
H_RAW(h_set_m_0_aposteriori, LocalNetwork_set_m_0_aposteriori(&N))
void h_apriori_m_0_set(void) { struct LocalNetwork N; double m; LocalNetwork_apriori_m_0_set(&N, m); GV_CANARY("h_apriori_m_0_set end"); }

H_NET(h_points_count, LocalNetwork_points_count(&N))
H_NET(h_huge_abs_terms, LocalNetwork_huge_abs_terms(&N))
H_NET(h_unknowns_count, LocalNetwork_unknowns_count(&N))
H_NET(h_observations_count, LocalNetwork_observations_count(&N))
H_NET(h_solve, LocalNetwork_solve(&N))
H_NET(h_residuals, LocalNetwork_residuals(&N))
H_NET(h_trans_VWV, LocalNetwork_trans_VWV(&N))
H_NET(h_degrees_of_freedom, LocalNetwork_degrees_of_freedom(&N))

H_NET(h_qxx, LocalNetwork_qxx(&N, i, j))
H_NET(h_qbb, LocalNetwork_qbb(&N, i, j))
H_NET(h_qbx, LocalNetwork_qbx(&N, i, j))
H_NET(h_cond, LocalNetwork_cond(&N))
H_NET(h_lindep, LocalNetwork_lindep(&N, i))
H_NET(h_stdev_obs, OBS_INDEX; LocalNetwork_stdev_obs(&N, i))
H_NET(h_wcoef_res, OBS_INDEX; LocalNetwork_wcoef_res(&N, i))
//@ end
