/* Unit-local model shared by the network-level units (network_update, statistics, null_space):
   a C struct with exactly the data members of GNU_gama::local::LocalNetwork that the functions under contract
   touch, and contract stubs (declarations with ASSUMED contracts, no bodies) for the heavy stages and for the
   virtual interface AdjBase.  No gama function body is copied here. */
#ifndef GV_NETMODEL_H
#define GV_NETMODEL_H

typedef double Float;
typedef int Index;

struct Vec { Float *rep; Index sz; };                         /* MemRep: rep, sz */
struct Mat { Float *rep; Index sz; Index row_; Index col_; }; /* MatBase: row_, col_ */
struct AdjBase { int gv_solver_kind; };                       /* opaque solver object behind the virtual interface */

typedef enum Update { Points, Observations, Residuals, Adjustment } Update;
enum ApEm_ { apriorni_, empiricka_ };

struct LocalNetwork {
  struct AdjBase *least_squares;
  int    pocbod_;
  bool   tst_redbod_;
  int    pocmer_;
  bool   tst_redmer_;
  double m_0_apr_;
  double konf_pr_;
  double tol_abs_;
  int    typ_m_0_;          /* enum ApEm_; int so that the "neither" branch is reachable */
  bool   tst_rov_opr_;
  bool   vybocujici_abscl_;
  int    pocet_neznamych_;
  struct Mat A;
  struct Vec r;
  struct Vec sigma_L;
  struct Vec vahkopr;
  double suma_pvv_;
  bool   tst_vyrovnani_;
};

int gv_exc;                         /* exception in flight (rule R11) */
struct LocalNetwork *gv_net;        /* ghost: the network whose solver the AdjBase stubs belong to */
int gv_obs_index;                   /* ghost: an observation index the caller promises to be valid in the ADJUSTED network */
int gv_defect;                      /* ghost: the value AdjBase::defect() reports for the current adjustment */

/* validity chain: a stage is valid only if every stage it consumes is valid
   (vyrovnani_ consumes project_equations consumes revision_observations consumes revision_points) */
#define CHAIN4(pts, obs, eqs, adj) ((!(adj) || (eqs)) && (!(eqs) || (obs)) && (!(obs) || (pts)))
#define CHAIN(N) CHAIN4((N)->tst_redbod_, (N)->tst_redmer_, (N)->tst_rov_opr_, (N)->tst_vyrovnani_)

/* representation invariant of the lazily staged network object:
   - the validity chain;
   - project equations valid ==> a solver object exists (project_equations passed its dynamic_cast);
   - adjustment valid ==> the result vectors have the dimension of the observation list */
#define VEC_WF(v) ((v).sz >= 0 && (v).sz <= 10000000 && __CPROVER_rw_ok((v).rep, (size_t)(v).sz * sizeof(Float))) /* class invariant of Vec (matvec units) */
#define NET_INV(N)                                                                                         \
  (CHAIN(N) && ((N)->tst_rov_opr_ ==> ((N)->least_squares != NULL && (N)->A.row_ == (N)->pocmer_ &&       \
                                       (N)->pocmer_ >= 0 && (N)->pocmer_ <= 10000000 && (N)->A.col_ >= 0 && (N)->A.col_ <= 10000000)) && \
   ((N)->tst_vyrovnani_ ==> ((N)->r.sz == (N)->pocmer_ && (N)->sigma_L.sz == (N)->pocmer_ && (N)->vahkopr.sz == (N)->pocmer_ && \
                             (N)->suma_pvv_ >= 0 && (N)->suma_pvv_ <= 1e300 /* a sum of squares: non-negative, finite, not NaN */)))
/* memory part (class invariant of the three result vectors); required only where elements are read */
#define NET_MEM(N) (VEC_WF((N)->r) && VEC_WF((N)->sigma_L) && VEC_WF((N)->vahkopr))

/* frame of the stage functions: every field a (re)computation of revision / equations / adjustment may write */
#define NET_STAGE_FRAME(N)                                                                                 \
  gv_exc, (N)->tst_redbod_, (N)->tst_redmer_, (N)->tst_rov_opr_, (N)->tst_vyrovnani_, (N)->pocbod_,        \
  (N)->pocmer_, (N)->vybocujici_abscl_, (N)->pocet_neznamych_, (N)->A, (N)->r, (N)->sigma_L, (N)->vahkopr, \
  (N)->suma_pvv_

#define NET_FLAGS_UNCHANGED(N)                                                                             \
  ((N)->tst_redbod_ == __CPROVER_old((N)->tst_redbod_) && (N)->tst_redmer_ == __CPROVER_old((N)->tst_redmer_) && \
   (N)->tst_rov_opr_ == __CPROVER_old((N)->tst_rov_opr_) && (N)->tst_vyrovnani_ == __CPROVER_old((N)->tst_vyrovnani_))

/* ---- ASSUMED contracts of the heavy stages (bodies are container / visitor code that is not lowered) ----
   Each mirrors the flag protocol of the body in network.cpp: early return when the stage is valid; otherwise
   the stage (and, lazily, the stages it consumes) is made valid and update(next stage) is called. */

/* revision_points(): `if (tst_redbod_) return; ...; tst_redbod_ = true; update(Observations);`  (does not throw) */
void LocalNetwork_revision_points(struct LocalNetwork *self)
__CPROVER_requires(__CPROVER_rw_ok(self, sizeof(*self)))
__CPROVER_assigns(self->tst_redbod_, self->tst_redmer_, self->tst_rov_opr_, self->tst_vyrovnani_, self->pocbod_)
__CPROVER_ensures(self->tst_redbod_)
__CPROVER_ensures(__CPROVER_old(self->tst_redbod_) ? (NET_FLAGS_UNCHANGED(self) && self->pocbod_ == __CPROVER_old(self->pocbod_))
                                                    : (!self->tst_redmer_ && !self->tst_rov_opr_ && !self->tst_vyrovnani_))
;

/* project_equations(): `if (tst_rov_opr_) return; if (!tst_redmer_) revision_observations(); ...;
   tst_rov_opr_ = true; update(Adjustment);`  throws UNKNOWN_ALGORITHM when no solver object is set. */
void LocalNetwork_project_equations(struct LocalNetwork *self)
__CPROVER_requires(__CPROVER_rw_ok(self, sizeof(*self)) && gv_exc == 0 && NET_INV(self))
__CPROVER_assigns(NET_STAGE_FRAME(self))
__CPROVER_ensures(NET_INV(self))
__CPROVER_ensures(__CPROVER_old(self->tst_rov_opr_) ==>
                  (gv_exc == 0 && NET_FLAGS_UNCHANGED(self) && self->A.col_ == __CPROVER_old(self->A.col_) &&
                   self->A.row_ == __CPROVER_old(self->A.row_) && self->vybocujici_abscl_ == __CPROVER_old(self->vybocujici_abscl_)))
__CPROVER_ensures(gv_exc == 0 ==> (self->tst_rov_opr_ && self->tst_redmer_ && self->tst_redbod_))
__CPROVER_ensures((gv_exc == 0 && !__CPROVER_old(self->tst_rov_opr_)) ==> !self->tst_vyrovnani_)
;

/* vyrovnani_(): `if (tst_vyrovnani_) return; do { project_equations(); ... tst_vyrovnani_ = true; ... } while (!tst_vyrovnani_);
   r = ...; suma_pvv_ = ...; sigma_L, vahkopr`.  May throw (no unknowns / observations / points, solver exceptions).
   On an exception nothing is promised about the flags beyond the representation invariant. */
void LocalNetwork_vyrovnani_(struct LocalNetwork *self)
__CPROVER_requires(__CPROVER_rw_ok(self, sizeof(*self)) && gv_exc == 0 && NET_INV(self))
__CPROVER_assigns(NET_STAGE_FRAME(self))
__CPROVER_ensures(NET_INV(self))
__CPROVER_ensures(__CPROVER_old(self->tst_vyrovnani_) ==>
                  (gv_exc == 0 && NET_FLAGS_UNCHANGED(self) && self->suma_pvv_ == __CPROVER_old(self->suma_pvv_) &&
                   self->A.col_ == __CPROVER_old(self->A.col_) && self->A.row_ == __CPROVER_old(self->A.row_) &&
                   self->pocmer_ == __CPROVER_old(self->pocmer_) && self->r.rep == __CPROVER_old(self->r.rep) &&
                   self->sigma_L.rep == __CPROVER_old(self->sigma_L.rep) && self->vahkopr.rep == __CPROVER_old(self->vahkopr.rep)))
__CPROVER_ensures(gv_exc == 0 ==> (self->tst_vyrovnani_ && self->tst_rov_opr_ && self->tst_redmer_ && self->tst_redbod_))
/* caller-side promise (stdev_obs / wcoef_res take an observation index of the adjusted network) and validity of the
   recomputed result vectors */
__CPROVER_ensures(gv_exc == 0 ==> gv_obs_index <= self->pocmer_)
__CPROVER_ensures((gv_exc == 0 && !__CPROVER_old(self->tst_vyrovnani_)) ==>
                  (self->pocmer_ >= 0 && self->pocmer_ <= 10000000 &&
                   __CPROVER_is_fresh(self->r.rep, (size_t)self->pocmer_ * sizeof(Float)) &&
                   __CPROVER_is_fresh(self->sigma_L.rep, (size_t)self->pocmer_ * sizeof(Float)) &&
                   __CPROVER_is_fresh(self->vahkopr.rep, (size_t)self->pocmer_ * sizeof(Float))))
;

/* ---- ASSUMED contracts of the virtual interface AdjBase (solver side is verified by the solver units) ----
   Every query of ADJUSTED results states, as its precondition, the obligation of this unit:
   the solver object exists and the network's adjustment flag is true at the time of the read. */
#define LS_READ_OK(ls) ((ls) != NULL && gv_net != NULL && (ls) == gv_net->least_squares && gv_net->tst_vyrovnani_)

Index AdjBase_defect(struct AdjBase *ls)
__CPROVER_requires(LS_READ_OK(ls))
__CPROVER_assigns()
__CPROVER_ensures(__CPROVER_return_value == gv_defect && 0 <= gv_defect && gv_defect <= gv_net->A.col_)
;
const struct Vec *AdjBase_unknowns(struct AdjBase *ls)
__CPROVER_requires(LS_READ_OK(ls))
__CPROVER_assigns()
__CPROVER_ensures(__CPROVER_return_value != NULL)
;
Float AdjBase_q_xx(struct AdjBase *ls, Index i, Index j)
__CPROVER_requires(LS_READ_OK(ls))
__CPROVER_assigns()
;
Float AdjBase_q_bb(struct AdjBase *ls, Index i, Index j)
__CPROVER_requires(LS_READ_OK(ls))
__CPROVER_assigns()
;
Float AdjBase_q_bx(struct AdjBase *ls, Index i, Index j)
__CPROVER_requires(LS_READ_OK(ls))
__CPROVER_assigns()
;
Float AdjBase_cond(struct AdjBase *ls)
__CPROVER_requires(LS_READ_OK(ls))
__CPROVER_assigns()
;
bool AdjBase_lindep(struct AdjBase *ls, Index i)
__CPROVER_requires(LS_READ_OK(ls))
__CPROVER_assigns()
;

/* harness helper: an arbitrary network object satisfying the representation invariant */
/* keeps every contract stub in the symbol table even if a (mutated) body no longer calls it, so that
   --replace-call-with-contract does not abort with "function not found" (never called) */
void gv_keep_refs(void)
{
  LocalNetwork_revision_points(NULL);
  LocalNetwork_project_equations(NULL);
  LocalNetwork_vyrovnani_(NULL);
  AdjBase_defect(NULL);
  AdjBase_unknowns(NULL);
  AdjBase_q_xx(NULL, 0, 0);
  AdjBase_q_bb(NULL, 0, 0);
  AdjBase_q_bx(NULL, 0, 0);
  AdjBase_cond(NULL);
  AdjBase_lindep(NULL, 0);
}

static void mk_vec(struct Vec *v)
{
  __CPROVER_assume(v->sz >= 0 && v->sz <= 10000000);
  v->rep = malloc((size_t)v->sz * sizeof(Float));
  __CPROVER_assume(v->rep != NULL);
}
static void mk_network(struct LocalNetwork *N, struct AdjBase *ls)
{
  struct LocalNetwork any;
  *N = any;
  bool has_ls;
  N->least_squares = has_ls ? ls : NULL;
  mk_vec(&N->r);
  mk_vec(&N->sigma_L);
  mk_vec(&N->vahkopr);
  __CPROVER_assume(NET_INV(N));
  gv_net = N;
  gv_exc = 0;
}
#endif
