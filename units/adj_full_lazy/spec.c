/* Sidecar contracts for the lazy-solve discipline of the "full" (dense) solvers  -- property C04
     lib/gnu_gama/adj/adj_basefull.h   AdjBaseFull::{reset, unknowns, residuals, sum_of_squares}
     lib/gnu_gama/adj/adj_chol.h       AdjCholDec::{defect, lindep, q_xx, q_bb, q_bx, T, dot, min_x(), min_x(n,list), ~AdjCholDec, init,
                                                    the block of solve() that rebuilds minx_i}
     lib/gnu_gama/adj/adj_gso.h        AdjGSO::{reset, defect, lindep, q_xx, q_bb, q_bx, min_x(), min_x(n,x), ~AdjGSO}
     lib/gnu_gama/adj/adj_svd.h        AdjSVD::{reset, defect, lindep, q_xx, q_bb, q_bx, min_x(), min_x(n,x)}
   Only contracts, ghost declarations, callee stubs and harnesses live here; the bodies are extracted from /repo on every run.

   THE PROPERTY (C04): "every quantity a solver can be asked for has one value: the same whatever was asked before ... compared against
   the value obtained from a fresh object asked only that question".  For a lazily solved object this is the discipline

       ghost gv_results_valid  ==  "the result fields (x, r, nullity, flags, cofactor factors) are the answer for the CURRENT input and
                                    the CURRENT regularisation request", i.e. solve() has run since the last reset()/min_x*()
       representation invariant INV:  is_solved ==> gv_results_valid
       obligation for every public query, from an ARBITRARY state satisfying INV:  a result field is read only while
       gv_results_valid holds (the guard is asserted inside GV_RES / GV_RESP / the payload accessors), and INV still holds on return.

   gv_results_valid is set only by the contract of solve(); it is cleared (ghost statement in the `entry` block, i.e. before the first
   statement of the body) by everything that changes the input (reset) or the regularisation request (min_x, min_x(n,list)).  */

//@ prelude
typedef double Float;
typedef int Index;
#define Float(...) ((double)(__VA_ARGS__ + 0))
#define Index(...) ((int)(__VA_ARGS__ + 0))
#define MAXDIM 1000000

int gv_exc;
_Bool gv_results_valid;   /* ghost, see the header comment */
Index gv_k0;              /* ghost index (forall-introduction) */

/* value-opaque payload types of matvec: only identity matters here */
struct Mat    { int gv_tag; };
struct Vec    { int gv_tag; };
struct SymMat { int gv_tag; };
struct VecI   { int gv_tag; };

/* guarded reads of result fields: scalar (value) and vector (address, for `return x;` of a `const Vec&` function) */
#define GV_RES(f)  (__CPROVER_assert(gv_results_valid, "C04: result field " #f " is read only after solve() has run since the last reset/min_x"), self->f)
#define GV_RESP(f) (__CPROVER_assert(gv_results_valid, "C04: result vector " #f " is handed out only after solve() has run since the last reset/min_x"), &self->f)

/* value-opaque payload: an uninitialised local is a fresh symbolic value for CBMC */
static inline Float gv_nondet_Float(void) { Float v; return v; }
static inline Index gv_nondet_Index(void) { Index v; return v; }

static inline Float gv_vec_dot(const struct Vec *a, const struct Vec *b)
{
  __CPROVER_assert(a != NULL && b != NULL, "Vec::dot on existing vectors");
  __CPROVER_assert(gv_results_valid, "C04: payload of a result vector is read only while the results are valid");
  return gv_nondet_Float();
}
static inline Float gv_mat_get(const struct Mat *m, Index i, Index j)
{
  __CPROVER_assert(m != NULL, "input matrix exists (reset(A,b) was called)");
  return gv_nondet_Float();
}
/* local `Vec<Float,Index,Exc> aq(N)`: 1-based, bounds-checked */
struct gv_lvec { Index dim; Float *p; };
static inline struct gv_lvec gv_lvec_new(Index n)
{
  struct gv_lvec v;
  __CPROVER_assert(n >= 0, "Vec(n): n >= 0");
  v.dim = n;
  v.p = malloc((size_t)n * sizeof(Float));
  __CPROVER_assume(v.p != NULL);
  return v;
}
static inline Float *gv_lvec_at(struct gv_lvec *v, Index i)
{
  __CPROVER_assert(1 <= i && i <= v->dim, "Vec::operator(): 1 <= i <= dim");
  return v->p + (i - 1);
}

/* ---------------------------------------------------------------- AdjBaseFull */
struct AdjBaseFull {
  const struct Mat *pA;
  const struct Vec *pb;
  struct Vec x, r;          /* RESULT fields */
  bool is_solved;
};
#define BF_INPUT(s) ((s)->pA != NULL && (s)->pb != NULL)
#define BF_INV(s)   (!(s)->is_solved || gv_results_valid)

/* ---------------------------------------------------------------- AdjCholDec */
enum { ALL, SUBSET };
struct AdjCholDec {
  const struct Mat *pA;
  const struct Vec *pb;
  struct Vec x, r;          /* RESULT */
  bool is_solved;
  Index M, N;               /* RESULT: set by solve() from A */
  struct VecI perm, invp;   /* RESULT */
  struct SymMat mat;        /* RESULT */
  struct Vec rhs;           /* RESULT */
  Float s_tol;
  Index nullity;            /* RESULT */
  Index N0;                 /* RESULT */
  struct Vec x0;            /* RESULT */
  struct SymMat Q0;         /* RESULT */
  int minx_t;               /* regularisation request */
  Index minx_n;
  Index *minx_i;
  struct Mat G;             /* RESULT */
};
/* shape of valid results (what the stub of solve() promises; needed so that `k<=N; k++` cannot overflow) */
#define CH_RES_OK(s) (0 <= (s)->N && (s)->N <= MAXDIM && 0 <= (s)->M && (s)->M <= MAXDIM && 0 <= (s)->nullity && (s)->nullity <= (s)->N && \
                      (s)->N0 == (s)->N - (s)->nullity)
#define CH_INV(s)    ((!(s)->is_solved || gv_results_valid) && (!gv_results_valid || CH_RES_OK(s)))
/* heap discipline: the index list is absent (NULL, and then empty) or a live heap block holding minx_n indices */
#define CH_HEAP_OK(s) ((s)->minx_n >= 0 && (s)->minx_n <= MAXDIM && \
                       ((s)->minx_i == NULL ? (s)->minx_n == 0 : __CPROVER_rw_ok((s)->minx_i, (size_t)(s)->minx_n * sizeof(Index))))
#define CH_INPUT(s)  ((s)->pA != NULL && (s)->pb != NULL)
#define CH_SOLVE_ASSIGNS(s) (s)->is_solved, (s)->M, (s)->N, (s)->perm, (s)->invp, (s)->mat, (s)->rhs, (s)->s_tol, (s)->nullity, (s)->N0, \
                            (s)->x0, (s)->Q0, (s)->minx_n, (s)->minx_i, (s)->G, (s)->x, (s)->r, gv_results_valid, gv_exc

static inline Float gv_Q0(const struct AdjCholDec *self, Index i, Index j)
{
  __CPROVER_assert(gv_results_valid, "C04: cofactor factor Q0 is read only after solve() has run since the last reset/min_x");
  return gv_nondet_Float();
}
static inline Float gv_G(const struct AdjCholDec *self, Index i, Index j)
{
  __CPROVER_assert(gv_results_valid, "C04: null-space basis G is read only after solve() has run since the last reset/min_x");
  return gv_nondet_Float();
}
static inline Index gv_invp(const struct AdjCholDec *self, Index i)
{
  __CPROVER_assert(gv_results_valid, "C04: inverse permutation invp is read only after solve() has run since the last reset/min_x");
  return gv_nondet_Index();
}

static const struct Mat gv_the_A;
static const struct Vec gv_the_b;

/* ---- callee stubs (contracts only; replaced by --replace-call-with-contract) ---- */
void AdjBaseFull_solve(struct AdjBaseFull *self)
__CPROVER_requires(gv_exc == 0 && BF_INPUT(self))
__CPROVER_assigns(self->is_solved, self->x, self->r, gv_results_valid, gv_exc)
__CPROVER_ensures(self->is_solved && gv_results_valid)
__CPROVER_ensures(gv_exc == 0 || gv_exc == GV_BadRegularization)
;

void AdjCholDec_solve(struct AdjCholDec *self)
__CPROVER_requires(gv_exc == 0 && CH_INPUT(self) && CH_HEAP_OK(self))
__CPROVER_assigns(CH_SOLVE_ASSIGNS(self))
__CPROVER_ensures(self->is_solved && gv_results_valid && CH_RES_OK(self))
__CPROVER_ensures(gv_exc == 0 || gv_exc == GV_BadRegularization)
__CPROVER_ensures(0 <= self->minx_n && self->minx_n <= MAXDIM)
__CPROVER_ensures((self->minx_i == __CPROVER_old(self->minx_i) && self->minx_n == __CPROVER_old(self->minx_n)) ||
                  __CPROVER_is_fresh(self->minx_i, (size_t)self->minx_n * sizeof(Index)))
;


/* ---------------------------------------------------------------- AdjGSO (non-legacy branch: ICGS) */
struct ICGS { int gv_tag; };
struct AdjGSO {
  const struct Mat *pA;     /* common initial sequence with struct AdjBaseFull (the C++ base-class subobject) */
  const struct Vec *pb;
  struct Vec x, r;          /* RESULT */
  bool is_solved;
  struct Mat A_;
  struct ICGS icgs;         /* RESULT: orthogonalised columns, set of dependent columns; also holds the regularisation request */
  double *icgs_data;        /* RESULT storage: NULL or a live heap block */
};
#define GS_INV(s)     (!(s)->is_solved || gv_results_valid)
#define GS_INPUT(s)   ((s)->pA != NULL && (s)->pb != NULL)
#define GS_HEAP_OK(s) ((s)->icgs_data == NULL || __CPROVER_rw_ok((s)->icgs_data, sizeof(double)))
#define GS_SOLVE_ASSIGNS(s) (s)->is_solved, (s)->x, (s)->r, (s)->A_, (s)->icgs, (s)->icgs_data, gv_results_valid, gv_exc

void AdjGSO_solve(struct AdjGSO *self)
__CPROVER_requires(gv_exc == 0 && GS_INPUT(self) && GS_HEAP_OK(self))
__CPROVER_assigns(GS_SOLVE_ASSIGNS(self))
__CPROVER_ensures(self->is_solved && gv_results_valid && gv_exc == 0)
__CPROVER_ensures(self->icgs_data == __CPROVER_old(self->icgs_data) || __CPROVER_is_fresh(self->icgs_data, sizeof(double)))
;
/* ICGS members used by AdjGSO (icgs.h / icgs.cpp), as contract stubs: the three accessors read what icgs1()/icgs2() computed */
static inline Index gv_icgs_defect(const struct AdjGSO *self)
{
  __CPROVER_assert(gv_results_valid, "C04: ICGS::defect() (size of the dependent-column set) is read only after solve() has run since the last reset/min_x");
  return gv_nondet_Index();
}
static inline bool gv_icgs_lindep(const struct AdjGSO *self, Index i)
{
  __CPROVER_assert(gv_results_valid, "C04: ICGS::lindep_columns is read only after solve() has run since the last reset/min_x");
  return gv_nondet_Index() != 0;
}
static inline void gv_icgs_min_x(struct AdjGSO *self) { self->icgs.gv_tag = gv_nondet_Index(); }
static inline void gv_icgs_min_x_list(struct AdjGSO *self, Index n, Index *x)
{
  __CPROVER_assert(n <= 0 || __CPROVER_r_ok(x, (size_t)n * sizeof(Index)), "ICGS::min_x(n, list): list holds n indices");
  self->icgs.gv_tag = gv_nondet_Index();
}

/* ---------------------------------------------------------------- AdjSVD */
struct SVD { const struct Mat *gv_A;   /* ghost: the matrix this SVD object was last reset() with */
             int gv_tag; };
struct AdjSVD {
  const struct Mat *pA;     /* common initial sequence with struct AdjBaseFull */
  const struct Vec *pb;
  struct Vec x, r;          /* RESULT */
  bool is_solved;
  struct SVD svd;           /* self-validating sub-object (SVD::nullity/lindep/q_* call svd() themselves) */
};
/* the SVD sub-object answers for the matrix it was reset with: it must be the current input */
#define SV_INV(s)   ((!(s)->is_solved || gv_results_valid) && (s)->svd.gv_A == (s)->pA)
#define SV_INPUT(s) ((s)->pA != NULL && (s)->pb != NULL)
#define SV_SOLVE_ASSIGNS(s) (s)->is_solved, (s)->x, (s)->r, (s)->svd, gv_results_valid, gv_exc

void AdjSVD_solve(struct AdjSVD *self)
__CPROVER_requires(gv_exc == 0 && SV_INPUT(self))
__CPROVER_assigns(SV_SOLVE_ASSIGNS(self))
__CPROVER_ensures(self->is_solved && gv_results_valid && self->svd.gv_A == self->pA)
__CPROVER_ensures(gv_exc == 0 || gv_exc == GV_BadRegularization)
;
static inline void gv_svd_reset(struct AdjSVD *self, const struct Mat *A) { self->svd.gv_A = A; self->svd.gv_tag = gv_nondet_Index(); }
#define GV_SVD_GUARD __CPROVER_assert(self->svd.gv_A == self->pA, "C04: the SVD object that is asked holds the current input matrix")
static inline Index gv_svd_nullity(struct AdjSVD *self) { GV_SVD_GUARD; self->svd.gv_tag = gv_nondet_Index(); return gv_nondet_Index(); }
static inline bool  gv_svd_lindep(struct AdjSVD *self, Index i) { GV_SVD_GUARD; self->svd.gv_tag = gv_nondet_Index(); return gv_nondet_Index() != 0; }
static inline Float gv_svd_q_xx(struct AdjSVD *self, Index i, Index j) { GV_SVD_GUARD; self->svd.gv_tag = gv_nondet_Index(); return gv_nondet_Float(); }
static inline Float gv_svd_q_bb(struct AdjSVD *self, Index i, Index j) { GV_SVD_GUARD; self->svd.gv_tag = gv_nondet_Index(); return gv_nondet_Float(); }
static inline Float gv_svd_q_bx(struct AdjSVD *self, Index i, Index j) { GV_SVD_GUARD; self->svd.gv_tag = gv_nondet_Index(); return gv_nondet_Float(); }
static inline void gv_svd_min_x(struct AdjSVD *self) { self->svd.gv_tag = gv_nondet_Index(); }
static inline void gv_svd_min_x_list(struct AdjSVD *self, Index n, Index *x)
{
  __CPROVER_assert(n <= 0 || __CPROVER_r_ok(x, (size_t)n * sizeof(Index)), "SVD::min_x(n, list): list holds n indices");
  self->svd.gv_tag = gv_nondet_Index();
}

/* arbitrary AdjCholDec state satisfying the representation invariant */
static void mk_chol(struct AdjCholDec *S)
{
  _Bool nolist;
  Index n;
  __CPROVER_assume(0 <= n && n <= MAXDIM);
  S->pA = &gv_the_A;
  S->pb = &gv_the_b;
  S->minx_n = nolist ? 0 : n;
  S->minx_i = nolist ? NULL : malloc((size_t)n * sizeof(Index));
  __CPROVER_assume(nolist || S->minx_i != NULL);
  __CPROVER_assume(S->minx_t == ALL || S->minx_t == SUBSET);
  gv_exc = 0;
  __CPROVER_assume(CH_INV(S));
}
//@ end

/* ================================================================ AdjBaseFull ================================================= */

//@ contract AdjBaseFull_reset
__CPROVER_requires(gv_exc == 0 && BF_INV(self) && A__p != NULL && b__p != NULL)
__CPROVER_assigns(self->pA, self->pb, self->is_solved, gv_results_valid)
__CPROVER_ensures(BF_INV(self))
__CPROVER_ensures(self->pA == A__p && self->pb == b__p && !gv_results_valid)
//@ entry AdjBaseFull_reset
GV_CANARY("AdjBaseFull_reset entry");
gv_results_valid = 0;   /* ghost: the input changes; nothing computed so far answers the new input */
//@ end

//@ contract AdjBaseFull_unknowns
__CPROVER_requires(gv_exc == 0 && BF_INPUT(self) && BF_INV(self))
__CPROVER_assigns(self->is_solved, self->x, self->r, gv_results_valid, gv_exc)
__CPROVER_ensures(BF_INV(self))
__CPROVER_ensures(gv_exc == 0 ==> (__CPROVER_return_value == &self->x && gv_results_valid && self->is_solved))
//@ entry AdjBaseFull_unknowns
GV_CANARY("AdjBaseFull_unknowns entry");
//@ end

//@ contract AdjBaseFull_residuals
__CPROVER_requires(gv_exc == 0 && BF_INPUT(self) && BF_INV(self))
__CPROVER_assigns(self->is_solved, self->x, self->r, gv_results_valid, gv_exc)
__CPROVER_ensures(BF_INV(self))
__CPROVER_ensures(gv_exc == 0 ==> (__CPROVER_return_value == &self->r && gv_results_valid && self->is_solved))
//@ entry AdjBaseFull_residuals
GV_CANARY("AdjBaseFull_residuals entry");
//@ end

//@ contract AdjBaseFull_sum_of_squares
__CPROVER_requires(gv_exc == 0 && BF_INPUT(self) && BF_INV(self))
__CPROVER_assigns(self->is_solved, self->x, self->r, gv_results_valid, gv_exc)
__CPROVER_ensures(BF_INV(self))
__CPROVER_ensures(gv_exc == 0 ==> (gv_results_valid && self->is_solved))
//@ entry AdjBaseFull_sum_of_squares
GV_CANARY("AdjBaseFull_sum_of_squares entry");
//@ end

/* ================================================================ AdjCholDec ================================================== */
/* every query: INV and heap discipline preserved; the value returned was computed from valid result fields */

//@ contract AdjCholDec_defect
__CPROVER_requires(gv_exc == 0 && CH_INPUT(self) && CH_INV(self) && CH_HEAP_OK(self))
__CPROVER_assigns(CH_SOLVE_ASSIGNS(self))
__CPROVER_ensures(CH_INV(self) && CH_HEAP_OK(self))
__CPROVER_ensures(gv_results_valid && self->is_solved)
__CPROVER_ensures(gv_exc == 0 ==> __CPROVER_return_value == self->nullity)
//@ entry AdjCholDec_defect
GV_CANARY("AdjCholDec_defect entry");
//@ end

//@ contract AdjCholDec_lindep
__CPROVER_requires(gv_exc == 0 && CH_INPUT(self) && CH_INV(self) && CH_HEAP_OK(self))
__CPROVER_assigns(CH_SOLVE_ASSIGNS(self))
__CPROVER_ensures(CH_INV(self) && CH_HEAP_OK(self))
__CPROVER_ensures(gv_results_valid && self->is_solved)
//@ entry AdjCholDec_lindep
GV_CANARY("AdjCholDec_lindep entry");
//@ end

/* T(i,j): private helper of q_xx/q_bx; reads the result fields nullity, G and the regularisation list */
//@ contract AdjCholDec_T
__CPROVER_requires(gv_results_valid && CH_RES_OK(self) && CH_HEAP_OK(self))
__CPROVER_assigns()
//@ entry AdjCholDec_T
GV_CANARY("AdjCholDec_T entry");
//@ loop AdjCholDec_T 1
__CPROVER_assigns(k, t)
__CPROVER_loop_invariant(0 <= k && k <= self->minx_n)
__CPROVER_decreases((long)self->minx_n - k)
//@ loop AdjCholDec_T 2
__CPROVER_assigns(c, t)
__CPROVER_loop_invariant(1 <= c && c <= self->nullity + 1)
__CPROVER_decreases((long)self->nullity + 1 - c)
//@ end

//@ contract AdjCholDec_q_xx
__CPROVER_requires(gv_exc == 0 && CH_INPUT(self) && CH_INV(self) && CH_HEAP_OK(self))
__CPROVER_assigns(CH_SOLVE_ASSIGNS(self))
__CPROVER_ensures(CH_INV(self) && CH_HEAP_OK(self))
__CPROVER_ensures(gv_results_valid && self->is_solved)
//@ entry AdjCholDec_q_xx
GV_CANARY("AdjCholDec_q_xx entry");
//@ loop AdjCholDec_q_xx 1
__CPROVER_assigns(k, s)
__CPROVER_loop_invariant(1 <= k && k <= self->N + 1)
__CPROVER_decreases((long)self->N + 1 - k)
//@ loop AdjCholDec_q_xx 2
__CPROVER_assigns(n, q)
__CPROVER_loop_invariant(1 <= n && n <= self->N + 1)
__CPROVER_decreases((long)self->N + 1 - n)
//@ end

//@ contract AdjCholDec_q_bb
__CPROVER_requires(gv_exc == 0 && CH_INPUT(self) && CH_INV(self) && CH_HEAP_OK(self))
__CPROVER_assigns(CH_SOLVE_ASSIGNS(self))
__CPROVER_ensures(CH_INV(self) && CH_HEAP_OK(self))
__CPROVER_ensures(gv_results_valid && self->is_solved)
//@ entry AdjCholDec_q_bb
GV_CANARY("AdjCholDec_q_bb entry");
//@ loop AdjCholDec_q_bb 1
__CPROVER_assigns(k, s, __CPROVER_object_whole(aq.p))
__CPROVER_loop_invariant(1 <= k && k <= self->N + 1)
__CPROVER_decreases((long)self->N + 1 - k)
//@ loop AdjCholDec_q_bb 2
__CPROVER_assigns(l, s)
__CPROVER_loop_invariant(1 <= l && l <= self->N + 1)
__CPROVER_decreases((long)self->N + 1 - l)
//@ loop AdjCholDec_q_bb 3
__CPROVER_assigns(c, s)
__CPROVER_loop_invariant(1 <= c && c <= self->N + 1)
__CPROVER_decreases((long)self->N + 1 - c)
//@ end

//@ contract AdjCholDec_q_bx
__CPROVER_requires(gv_exc == 0 && CH_INPUT(self) && CH_INV(self) && CH_HEAP_OK(self))
__CPROVER_assigns(CH_SOLVE_ASSIGNS(self))
__CPROVER_ensures(CH_INV(self) && CH_HEAP_OK(self))
__CPROVER_ensures(gv_results_valid && self->is_solved)
//@ entry AdjCholDec_q_bx
GV_CANARY("AdjCholDec_q_bx entry");
//@ loop AdjCholDec_q_bx 1
__CPROVER_assigns(k, s)
__CPROVER_loop_invariant(1 <= k && k <= self->N + 1)
__CPROVER_decreases((long)self->N + 1 - k)
//@ loop AdjCholDec_q_bx 2
__CPROVER_assigns(k, s, __CPROVER_object_whole(aq.p))
__CPROVER_loop_invariant(1 <= k && k <= self->N + 1)
__CPROVER_decreases((long)self->N + 1 - k)
//@ loop AdjCholDec_q_bx 3
__CPROVER_assigns(l, s)
__CPROVER_loop_invariant(1 <= l && l <= self->N + 1)
__CPROVER_decreases((long)self->N + 1 - l)
//@ loop AdjCholDec_q_bx 4
__CPROVER_assigns(k, s)
__CPROVER_loop_invariant(1 <= k && k <= self->N + 1)
__CPROVER_decreases((long)self->N + 1 - k)
//@ end

/* min_x(): "all unknowns are used in the regularisation".  It overwrites minx_t/minx_n (read by T() for q_xx/q_bx and by solve()). */
//@ contract AdjCholDec_min_x
__CPROVER_requires(gv_exc == 0 && CH_INV(self) && CH_HEAP_OK(self))
__CPROVER_assigns(self->minx_t, self->minx_n, self->minx_i, self->is_solved, gv_results_valid)
__CPROVER_frees(self->minx_i)
__CPROVER_ensures((!self->is_solved || gv_results_valid))
__CPROVER_ensures(CH_HEAP_OK(self))
__CPROVER_ensures(self->minx_t == ALL && gv_exc == 0)
//@ entry AdjCholDec_min_x
GV_CANARY("AdjCholDec_min_x entry");
gv_results_valid = 0;   /* ghost: the regularisation request changes; x and the cofactors computed under the old one are not its answer */
//@ end

//@ contract AdjCholDec_min_x_list
__CPROVER_requires(gv_exc == 0 && CH_INV(self) && CH_HEAP_OK(self))
__CPROVER_requires(0 <= n && n <= MAXDIM && __CPROVER_r_ok(minx, (size_t)n * sizeof(Index)))
__CPROVER_assigns(self->minx_t, self->minx_n, self->minx_i, self->is_solved, gv_results_valid)
__CPROVER_frees(self->minx_i)
__CPROVER_ensures((!self->is_solved || gv_results_valid))
__CPROVER_ensures(CH_HEAP_OK(self))
__CPROVER_ensures(self->minx_t == SUBSET && self->minx_n == n && gv_exc == 0)
__CPROVER_ensures((0 <= gv_k0 && gv_k0 < n) ==> self->minx_i[gv_k0] == minx[gv_k0])
//@ entry AdjCholDec_min_x_list
GV_CANARY("AdjCholDec_min_x_list entry");
gv_results_valid = 0;   /* ghost: the regularisation request changes */
//@ loop AdjCholDec_min_x_list 1
__CPROVER_assigns(i, __CPROVER_object_whole(self->minx_i))
__CPROVER_loop_invariant(0 <= i && i <= n && ((0 <= gv_k0 && gv_k0 < i) ==> self->minx_i[gv_k0] == minx[gv_k0]))
__CPROVER_decreases((long)n - i)
//@ end

//@ contract AdjCholDec_dtor
__CPROVER_requires(CH_HEAP_OK(self))
__CPROVER_assigns()
__CPROVER_frees(self->minx_i)
//@ entry AdjCholDec_dtor
GV_CANARY("AdjCholDec_dtor entry");
//@ end

/* init(): called by the only constructor; must establish the heap part of the representation invariant */
//@ contract AdjCholDec_init
__CPROVER_assigns(self->s_tol, self->nullity, self->minx_t, self->minx_i, self->minx_n, self->N0)
__CPROVER_ensures(CH_HEAP_OK(self))
__CPROVER_ensures(self->minx_t == ALL && self->minx_i == NULL && self->nullity == 0)
//@ entry AdjCholDec_init
GV_CANARY("AdjCholDec_init entry");
//@ end

/* the block `if (minx_t == ALL && minx_n != N) { ... }` of solve(): the only place where solve() touches the heap block minx_i */
//@ contract AdjCholDec_solve_minx_block
__CPROVER_requires(CH_HEAP_OK(self) && 0 <= self->N && self->N <= MAXDIM)
__CPROVER_assigns(self->minx_n, self->minx_i)
__CPROVER_frees(self->minx_i)
__CPROVER_ensures(CH_HEAP_OK(self) && self->minx_n == self->N)
__CPROVER_ensures((0 <= gv_k0 && gv_k0 < self->N) ==> self->minx_i[gv_k0] == gv_k0 + 1)
//@ entry AdjCholDec_solve_minx_block
GV_CANARY("AdjCholDec_solve_minx_block entry");
//@ loop AdjCholDec_solve_minx_block 1
__CPROVER_assigns(i, __CPROVER_object_whole(self->minx_i))
__CPROVER_loop_invariant(1 <= i && i <= self->N + 1 && ((0 <= gv_k0 && gv_k0 < i - 1) ==> self->minx_i[gv_k0] == gv_k0 + 1))
__CPROVER_decreases((long)self->N + 1 - i)
//@ end

//@ contract AdjCholDec_dot
__CPROVER_requires(CH_HEAP_OK(self) && M__p != NULL)
__CPROVER_assigns()
//@ entry AdjCholDec_dot
GV_CANARY("AdjCholDec_dot entry");
//@ loop AdjCholDec_dot 1
__CPROVER_assigns(r, k, s)
__CPROVER_loop_invariant(0 <= k && k <= self->minx_n)
__CPROVER_decreases((long)self->minx_n - k)
//@ end


/* ================================================================ AdjGSO ====================================================== */
/* AdjBaseFull::reset as a callee of AdjGSO::reset / AdjSVD::reset: replaced by its own contract (verified in check base_reset) */

//@ contract AdjGSO_reset
__CPROVER_requires(gv_exc == 0 && GS_INV(self) && GS_HEAP_OK(self) && A__p != NULL && b__p != NULL)
__CPROVER_assigns(self->pA, self->pb, self->is_solved, gv_results_valid)
__CPROVER_ensures(GS_INV(self) && GS_HEAP_OK(self))
__CPROVER_ensures(self->pA == A__p && self->pb == b__p && !gv_results_valid)
//@ entry AdjGSO_reset
GV_CANARY("AdjGSO_reset entry");
//@ end

//@ contract AdjGSO_defect
__CPROVER_requires(gv_exc == 0 && GS_INPUT(self) && GS_INV(self) && GS_HEAP_OK(self))
__CPROVER_assigns(GS_SOLVE_ASSIGNS(self))
__CPROVER_ensures(GS_INV(self) && GS_HEAP_OK(self))
__CPROVER_ensures(gv_results_valid && self->is_solved)
//@ entry AdjGSO_defect
GV_CANARY("AdjGSO_defect entry");
//@ end

//@ contract AdjGSO_lindep
__CPROVER_requires(gv_exc == 0 && GS_INPUT(self) && GS_INV(self) && GS_HEAP_OK(self))
__CPROVER_assigns(GS_SOLVE_ASSIGNS(self))
__CPROVER_ensures(GS_INV(self) && GS_HEAP_OK(self))
__CPROVER_ensures(gv_results_valid && self->is_solved)
//@ entry AdjGSO_lindep
GV_CANARY("AdjGSO_lindep entry");
//@ end

//@ contract AdjGSO_min_x
__CPROVER_requires(gv_exc == 0 && GS_INV(self) && GS_HEAP_OK(self))
__CPROVER_assigns(self->icgs, self->is_solved, gv_results_valid)
__CPROVER_ensures((!self->is_solved || gv_results_valid))
__CPROVER_ensures(GS_HEAP_OK(self) && gv_exc == 0)
//@ entry AdjGSO_min_x
GV_CANARY("AdjGSO_min_x entry");
gv_results_valid = 0;   /* ghost: the regularisation request changes */
//@ end

//@ contract AdjGSO_min_x_list
__CPROVER_requires(gv_exc == 0 && GS_INV(self) && GS_HEAP_OK(self))
__CPROVER_requires(0 <= n && n <= MAXDIM && __CPROVER_r_ok(x, (size_t)n * sizeof(Index)))
__CPROVER_assigns(self->icgs, self->is_solved, gv_results_valid)
__CPROVER_ensures((!self->is_solved || gv_results_valid))
__CPROVER_ensures(GS_HEAP_OK(self) && gv_exc == 0)
//@ entry AdjGSO_min_x_list
GV_CANARY("AdjGSO_min_x_list entry");
gv_results_valid = 0;   /* ghost: the regularisation request changes */
//@ end

//@ contract AdjGSO_dtor
__CPROVER_requires(GS_HEAP_OK(self))
__CPROVER_assigns()
__CPROVER_frees(self->icgs_data)
//@ entry AdjGSO_dtor
GV_CANARY("AdjGSO_dtor entry");
//@ end

/* ================================================================ AdjSVD ====================================================== */
//@ contract AdjSVD_reset
__CPROVER_requires(gv_exc == 0 && (!self->is_solved || gv_results_valid) && A__p != NULL && b__p != NULL)
__CPROVER_assigns(self->pA, self->pb, self->is_solved, self->svd, gv_results_valid)
__CPROVER_ensures(SV_INV(self))
__CPROVER_ensures(self->pA == A__p && self->pb == b__p && !gv_results_valid)
//@ entry AdjSVD_reset
GV_CANARY("AdjSVD_reset entry");
//@ end

//@ contract AdjSVD_defect
__CPROVER_requires(gv_exc == 0 && SV_INPUT(self) && SV_INV(self))
__CPROVER_assigns(SV_SOLVE_ASSIGNS(self))
__CPROVER_ensures(SV_INV(self))
//@ entry AdjSVD_defect
GV_CANARY("AdjSVD_defect entry");
//@ end

//@ contract AdjSVD_lindep
__CPROVER_requires(gv_exc == 0 && SV_INPUT(self) && SV_INV(self))
__CPROVER_assigns(SV_SOLVE_ASSIGNS(self))
__CPROVER_ensures(SV_INV(self))
//@ entry AdjSVD_lindep
GV_CANARY("AdjSVD_lindep entry");
//@ end

//@ contract AdjSVD_q_xx
__CPROVER_requires(gv_exc == 0 && SV_INPUT(self) && SV_INV(self))
__CPROVER_assigns(SV_SOLVE_ASSIGNS(self))
__CPROVER_ensures(SV_INV(self))
//@ entry AdjSVD_q_xx
GV_CANARY("AdjSVD_q_xx entry");
//@ end

//@ contract AdjSVD_q_bb
__CPROVER_requires(gv_exc == 0 && SV_INPUT(self) && SV_INV(self))
__CPROVER_assigns(SV_SOLVE_ASSIGNS(self))
__CPROVER_ensures(SV_INV(self))
//@ entry AdjSVD_q_bb
GV_CANARY("AdjSVD_q_bb entry");
//@ end

//@ contract AdjSVD_q_bx
__CPROVER_requires(gv_exc == 0 && SV_INPUT(self) && SV_INV(self))
__CPROVER_assigns(SV_SOLVE_ASSIGNS(self))
__CPROVER_ensures(SV_INV(self))
//@ entry AdjSVD_q_bx
GV_CANARY("AdjSVD_q_bx entry");
//@ end

/* SVD::min_x* re-regularise V eagerly, so the cofactors asked through svd.q_* follow the new request; AdjSVD's cached x and r do not */
//@ contract AdjSVD_min_x
__CPROVER_requires(gv_exc == 0 && SV_INV(self))
__CPROVER_assigns(self->svd.gv_tag, self->is_solved, gv_results_valid, gv_exc)
__CPROVER_ensures(SV_INV(self))
//@ entry AdjSVD_min_x
GV_CANARY("AdjSVD_min_x entry");
gv_results_valid = 0;   /* ghost: the regularisation request changes */
//@ end

//@ contract AdjSVD_min_x_list
__CPROVER_requires(gv_exc == 0 && SV_INV(self))
__CPROVER_requires(0 <= n && n <= MAXDIM && __CPROVER_r_ok(x, (size_t)n * sizeof(Index)))
__CPROVER_assigns(self->svd.gv_tag, self->is_solved, gv_results_valid, gv_exc)
__CPROVER_ensures(SV_INV(self))
//@ entry AdjSVD_min_x_list
GV_CANARY("AdjSVD_min_x_list entry");
gv_results_valid = 0;   /* ghost: the regularisation request changes */
//@ end

//@ harness
/* ---- harnesses: arbitrary invariant-satisfying state, one call ---- */
static void mk_base(struct AdjBaseFull *S)
{
  S->pA = &gv_the_A;
  S->pb = &gv_the_b;
  gv_exc = 0;
  __CPROVER_assume(BF_INV(S));
}
void h_base_reset(void)
{
  struct AdjBaseFull S; mk_base(&S);
  struct Mat A2; struct Vec b2;
  AdjBaseFull_reset(&S, &A2, &b2);
  GV_CANARY("h_base_reset end");
}
void h_base_unknowns(void)
{
  struct AdjBaseFull S; mk_base(&S);
  AdjBaseFull_unknowns(&S);
  GV_CANARY("h_base_unknowns end");
}
void h_base_residuals(void)
{
  struct AdjBaseFull S; mk_base(&S);
  AdjBaseFull_residuals(&S);
  GV_CANARY("h_base_residuals end");
}
void h_base_sum_of_squares(void)
{
  struct AdjBaseFull S; mk_base(&S);
  AdjBaseFull_sum_of_squares(&S);
  GV_CANARY("h_base_sum_of_squares end");
}

void h_chol_defect(void)
{
  struct AdjCholDec S; mk_chol(&S);
  _Bool w_is_solved = S.is_solved, w_valid = gv_results_valid;   /* witness values for replay.cpp */
  AdjCholDec_defect(&S);
  GV_CANARY("h_chol_defect end");
}
void h_chol_lindep(void)
{
  struct AdjCholDec S; mk_chol(&S);
  Index n;
  AdjCholDec_lindep(&S, n);
  GV_CANARY("h_chol_lindep end");
}
void h_chol_T(void)
{
  struct AdjCholDec S; mk_chol(&S);
  __CPROVER_assume(gv_results_valid);
  Index i, j;
  AdjCholDec_T(&S, i, j);
  GV_CANARY("h_chol_T end");
}
void h_chol_q_xx(void)
{
  struct AdjCholDec S; mk_chol(&S);
  Index i, j;
  AdjCholDec_q_xx(&S, i, j);
  GV_CANARY("h_chol_q_xx end");
}
void h_chol_q_bb(void)
{
  struct AdjCholDec S; mk_chol(&S);
  Index i, j;
  AdjCholDec_q_bb(&S, i, j);
  GV_CANARY("h_chol_q_bb end");
}
void h_chol_q_bx(void)
{
  struct AdjCholDec S; mk_chol(&S);
  Index i, j;
  _Bool w_is_solved = S.is_solved, w_valid = gv_results_valid;
  AdjCholDec_q_bx(&S, i, j);
  GV_CANARY("h_chol_q_bx end");
}
void h_chol_min_x(void)
{
  struct AdjCholDec S; mk_chol(&S);
  _Bool w_is_solved = S.is_solved, w_haslist = S.minx_i != NULL;
  AdjCholDec_min_x(&S);
  GV_CANARY("h_chol_min_x end");
}
void h_chol_min_x_list(void)
{
  struct AdjCholDec S; mk_chol(&S);
  Index n, k0;
  __CPROVER_assume(0 <= n && n <= MAXDIM);
  Index *list = malloc((size_t)n * sizeof(Index));
  __CPROVER_assume(list != NULL);
  gv_k0 = k0;
  _Bool w_is_solved = S.is_solved;
  AdjCholDec_min_x_list(&S, n, list);
  GV_CANARY("h_chol_min_x_list end");
}
void h_chol_dtor(void)
{
  struct AdjCholDec S; mk_chol(&S);
  AdjCholDec_dtor(&S);
  GV_CANARY("h_chol_dtor end");
}
void h_chol_init(void)
{
  struct AdjCholDec S;          /* raw storage: every field indeterminate, as in `new AdjCholDec` */
  AdjCholDec_init(&S);
  GV_CANARY("h_chol_init end");
}
void h_chol_solve_minx_block(void)
{
  struct AdjCholDec S; mk_chol(&S);
  Index k0;
  gv_k0 = k0;
  __CPROVER_assume(0 <= S.N && S.N <= MAXDIM);
  AdjCholDec_solve_minx_block(&S);
  GV_CANARY("h_chol_solve_minx_block end");
}
void h_chol_dot(void)
{
  struct AdjCholDec S; mk_chol(&S);
  Index i, j;
  AdjCholDec_dot(&S, &S.G, i, j);
  GV_CANARY("h_chol_dot end");
}

static void mk_gso(struct AdjGSO *S)
{
  _Bool nodata;
  S->pA = &gv_the_A;
  S->pb = &gv_the_b;
  S->icgs_data = nodata ? NULL : malloc(sizeof(double));
  __CPROVER_assume(nodata || S->icgs_data != NULL);
  gv_exc = 0;
  __CPROVER_assume(GS_INV(S));
}
void h_gso_reset(void)
{
  struct AdjGSO S; mk_gso(&S);
  struct Mat A2; struct Vec b2;
  AdjGSO_reset(&S, &A2, &b2);
  GV_CANARY("h_gso_reset end");
}
void h_gso_defect(void)
{
  struct AdjGSO S; mk_gso(&S);
  _Bool w_is_solved = S.is_solved;
  if (0) AdjGSO_solve(&S);   /* keeps the stub's symbol: the unchanged body does not call solve(), a repaired one will */
  AdjGSO_defect(&S);
  GV_CANARY("h_gso_defect end");
}
void h_gso_lindep(void)
{
  struct AdjGSO S; mk_gso(&S);
  Index i;
  _Bool w_is_solved = S.is_solved;
  if (0) AdjGSO_solve(&S);
  AdjGSO_lindep(&S, i);
  GV_CANARY("h_gso_lindep end");
}
void h_gso_min_x(void)
{
  struct AdjGSO S; mk_gso(&S);
  _Bool w_is_solved = S.is_solved;
  AdjGSO_min_x(&S);
  GV_CANARY("h_gso_min_x end");
}
void h_gso_min_x_list(void)
{
  struct AdjGSO S; mk_gso(&S);
  Index n;
  __CPROVER_assume(0 <= n && n <= MAXDIM);
  Index *list = malloc((size_t)n * sizeof(Index));
  __CPROVER_assume(list != NULL);
  _Bool w_is_solved = S.is_solved;
  AdjGSO_min_x_list(&S, n, list);
  GV_CANARY("h_gso_min_x_list end");
}
void h_gso_dtor(void)
{
  struct AdjGSO S; mk_gso(&S);
  AdjGSO_dtor(&S);
  GV_CANARY("h_gso_dtor end");
}

static void mk_svd(struct AdjSVD *S)
{
  S->pA = &gv_the_A;
  S->pb = &gv_the_b;
  gv_exc = 0;
  __CPROVER_assume(SV_INV(S));
}
void h_svd_reset(void)
{
  struct AdjSVD S; mk_svd(&S);
  struct Mat A2; struct Vec b2;
  AdjSVD_reset(&S, &A2, &b2);
  GV_CANARY("h_svd_reset end");
}
void h_svd_defect(void) { struct AdjSVD S; mk_svd(&S); AdjSVD_defect(&S); GV_CANARY("h_svd_defect end"); }
void h_svd_lindep(void) { struct AdjSVD S; mk_svd(&S); Index i; AdjSVD_lindep(&S, i); GV_CANARY("h_svd_lindep end"); }
void h_svd_q_xx(void) { struct AdjSVD S; mk_svd(&S); Index i, j; AdjSVD_q_xx(&S, i, j); GV_CANARY("h_svd_q_xx end"); }
void h_svd_q_bb(void) { struct AdjSVD S; mk_svd(&S); Index i, j; AdjSVD_q_bb(&S, i, j); GV_CANARY("h_svd_q_bb end"); }
void h_svd_q_bx(void) { struct AdjSVD S; mk_svd(&S); Index i, j; AdjSVD_q_bx(&S, i, j); GV_CANARY("h_svd_q_bx end"); }
void h_svd_min_x(void)
{
  struct AdjSVD S; mk_svd(&S);
  _Bool w_is_solved = S.is_solved;
  AdjSVD_min_x(&S);
  GV_CANARY("h_svd_min_x end");
}
void h_svd_min_x_list(void)
{
  struct AdjSVD S; mk_svd(&S);
  Index n;
  __CPROVER_assume(0 <= n && n <= MAXDIM);
  Index *list = malloc((size_t)n * sizeof(Index));
  __CPROVER_assume(list != NULL);
  _Bool w_is_solved = S.is_solved;
  AdjSVD_min_x_list(&S, n, list);
  GV_CANARY("h_svd_min_x_list end");
}
//@ end
