// Native replay for unit "adj_full_lazy" (property C04): each failing obligation of the unit is a statement about ONE call from an
// arbitrary state; the native witness is the shortest public-API history that reaches such a state on the real classes and shows two
// different answers to the same question (fresh object vs. object with a history), or a heap error.
// exit 1 = violation reproduces on the current tree, 0 = does not reproduce, 2 = no replay for this check.
#include <cmath>
#include <cstdio>
#include <cstdlib>
#include <cstring>
#include <new>
#include <set>
#include <string>
#include <sys/wait.h>
#include <unistd.h>

// ---- tracking allocator for new[] / delete[]: reports a second delete[] of the same block instead of corrupting the heap
static std::set<void*>* gv_live = nullptr;
static std::set<void*>* gv_dead = nullptr;
static int gv_double_free = 0;
static bool gv_track = false;
void* operator new[](std::size_t n)
{
  void* p = std::malloc(n ? n : 1);
  if (!p) throw std::bad_alloc();
  if (gv_track) { gv_track = false; gv_live->insert(p); gv_dead->erase(p); gv_track = true; }
  return p;
}
void operator delete[](void* p) noexcept
{
  if (!p) return;
  if (gv_track) {
    gv_track = false;
    if (gv_dead->count(p) && !gv_live->count(p)) { gv_double_free++; gv_track = true; return; }   // second delete[]: count, do not free
    gv_live->erase(p); gv_dead->insert(p);
    gv_track = true;
    return;                                   // keep the block (so that its address is not reused while tracking)
  }
  std::free(p);
}
void operator delete[](void* p, std::size_t) noexcept { operator delete[](p); }

#define private public        // replay only: chol_init reads the private member minx_n after construction
#define protected public
#include <gnu_gama/adj/adj_chol.h>
#include <gnu_gama/adj/adj_gso.h>
#include <gnu_gama/adj/adj_svd.h>
#undef private
#undef protected
#include "gv_replay.h"

using namespace GNU_gama;
typedef Mat<double, int, Exception::matvec> M;
typedef Vec<double, int, Exception::matvec> V;
typedef AdjCholDec<double, int, Exception::matvec> Chol;
typedef AdjGSO<double, int, Exception::matvec> Gso;
typedef AdjSVD<double, int, Exception::matvec> Svd;

// levelling loop of three heights, only height differences observed: rank defect 1
static void mk(M& A, V& b)
{
  A.reset(3, 3); A.set_zero(); b.reset(3);
  A(1, 1) = -1; A(1, 2) = 1; b(1) = 1.0;
  A(2, 2) = -1; A(2, 3) = 1; b(2) = 2.0;
  A(3, 1) = -1; A(3, 3) = 1; b(3) = 3.1;
}
static bool differ(double a, double b) { return std::fabs(a - b) > 1e-9 * (1 + std::fabs(a) + std::fabs(b)); }

template <class S> static int fresh_defect(const char* name)
{
  M A; V b; mk(A, b);
  S s; s.reset(A, b);
  int d0 = s.defect();
  s.unknowns();
  int d1 = s.defect();
  std::printf("%s: fresh object defect() = %d, after unknowns() defect() = %d -> %s\n", name, d0, d1, d0 != d1 ? "HISTORY DEPENDENT" : "ok");
  return d0 != d1;
}
template <class S> static int fresh_lindep(const char* name)
{
  M A; V b; mk(A, b);
  S s; s.reset(A, b);
  int n0 = 0; for (int i = 1; i <= 3; i++) n0 += s.lindep(i);
  s.unknowns();
  int n1 = 0; for (int i = 1; i <= 3; i++) n1 += s.lindep(i);
  std::printf("%s: fresh object flags %d unknowns as dependent, after unknowns() %d -> %s\n", name, n0, n1, n0 != n1 ? "HISTORY DEPENDENT" : "ok");
  return n0 != n1;
}
// list of length 3 (= number of unknowns) so that SVD::min_x(n, list) is not hit by its own table overrun (unit svd_minx)
template <class S> static int stale_after_min_x_list(const char* name)
{
  M A; V b; mk(A, b);
  int list[3] = {3, 3, 3};
  S f; f.reset(A, b); f.min_x(3, list); V xf = f.unknowns();
  S s; s.reset(A, b); s.unknowns(); s.min_x(3, list); V xh = s.unknowns();
  bool bad = differ(xf(1), xh(1)) || differ(xf(2), xh(2)) || differ(xf(3), xh(3));
  std::printf("%s: min_x({3}) on a fresh object: x = (%.4f %.4f %.4f); history unknowns(); min_x({3}); unknowns(): x = (%.4f %.4f %.4f) -> %s\n",
              name, xf(1), xf(2), xf(3), xh(1), xh(2), xh(3), bad ? "HISTORY DEPENDENT" : "ok");
  return bad;
}
template <class S> static int stale_after_min_x_all(const char* name)
{
  M A; V b; mk(A, b);
  int list[3] = {3, 3, 3};
  S f; f.reset(A, b); f.min_x(); V xf = f.unknowns();
  S s; s.reset(A, b); s.min_x(3, list); s.unknowns(); s.min_x(); V xh = s.unknowns();
  bool bad = differ(xf(1), xh(1)) || differ(xf(2), xh(2)) || differ(xf(3), xh(3));
  std::printf("%s: min_x() on a fresh object: x = (%.4f %.4f %.4f); history min_x({3}); unknowns(); min_x(); unknowns(): x = (%.4f %.4f %.4f) -> %s\n",
              name, xf(1), xf(2), xf(3), xh(1), xh(2), xh(3), bad ? "HISTORY DEPENDENT" : "ok");
  return bad;
}

static int chol_q_bx()
{
  M A; V b; mk(A, b);
  Chol f; f.reset(A, b); double q0 = f.q_bx(1, 1);
  Chol s; s.reset(A, b); s.unknowns(); double q1 = s.q_bx(1, 1);
  std::printf("cholesky: fresh object q_bx(1,1) = %.6f, after unknowns() q_bx(1,1) = %.6f -> %s\n", q0, q1, differ(q0, q1) ? "HISTORY DEPENDENT" : "ok");
  return differ(q0, q1);
}
static int chol_min_x()
{
  int bad = 0;
  std::set<void*> live, dead; gv_live = &live; gv_dead = &dead; gv_double_free = 0;
  gv_track = true;
  {
    M A; V b; mk(A, b);
    Chol f; f.reset(A, b); f.min_x(); double qf = f.q_xx(1, 1);
    Chol s; s.reset(A, b); s.unknowns(); double q0 = s.q_xx(1, 1); s.min_x(); double q1 = s.q_xx(1, 1);
    std::printf("cholesky: q_xx(1,1) fresh (min_x all) = %.6f; unknowns(); q_xx = %.6f; then min_x(); q_xx = %.6f -> %s\n", qf, q0, q1,
                differ(qf, q1) ? "HISTORY DEPENDENT" : "ok");
    bad |= differ(qf, q1);
  }
  gv_double_free = 0;
  {
    M A; V b; mk(A, b);
    int l[1] = {3};
    Chol s; s.reset(A, b); s.min_x(1, l); s.min_x();
  }   // destructor
  gv_track = false;
  std::printf("cholesky: min_x(1,{3}); min_x(); ~AdjCholDec(): %d block(s) passed to delete[] twice -> %s\n", gv_double_free, gv_double_free ? "DOUBLE FREE" : "ok");
  bad |= gv_double_free != 0;
  return bad;
}
static int chol_init()
{
  // `new AdjCholDec` in recycled storage: every byte of the storage is 3 before construction
  alignas(16) static unsigned char buf[sizeof(Chol)];
  int three = 3;
  for (std::size_t k = 0; k + sizeof(int) <= sizeof(buf); k += sizeof(int)) std::memcpy(buf + k, &three, sizeof(int));
  Chol* s = new (buf) Chol;
  int n = s->minx_n;
  std::printf("cholesky: after construction minx_n = %d (minx_i = %p) -> %s\n", n, (void*)s->minx_i, n != 0 ? "minx_n NOT INITIALISED by init()" : "ok");
  int crashed = 0;
  if (n != 0) {
    pid_t pid = fork();
    if (pid == 0) {
      M A; V b; mk(A, b);            // 3 unknowns, defect 1: solve() skips the rebuild of minx_i because minx_n == N and reads minx_i[k]
      s->reset(A, b);
      s->unknowns();
      _exit(0);
    }
    int st = 0; waitpid(pid, &st, 0);
    crashed = WIFSIGNALED(st);
    std::printf("cholesky: unknowns() on that object: %s\n", crashed ? "child process killed by a signal (null list dereferenced in dot())" : "no crash");
  }
  s->~Chol();
  return n != 0;
}

int main(int argc, char** argv)
{
  if (argc < 3) return 2;
  std::setvbuf(stdout, nullptr, _IONBF, 0);
  std::string c = argv[2];
  if (c == "chol_defect") return fresh_defect<Chol>("cholesky");
  if (c == "gso_defect") return fresh_defect<Gso>("gso");
  if (c == "gso_lindep") return fresh_lindep<Gso>("gso");
  if (c == "chol_q_bx") return chol_q_bx();
  if (c == "chol_min_x") return chol_min_x();
  if (c == "chol_init") return chol_init();
  if (c == "chol_min_x_list") return stale_after_min_x_list<Chol>("cholesky");
  if (c == "gso_min_x_list") return stale_after_min_x_list<Gso>("gso");
  if (c == "svd_min_x_list") return stale_after_min_x_list<Svd>("svd");
  if (c == "gso_min_x") return stale_after_min_x_all<Gso>("gso");
  if (c == "svd_min_x") return stale_after_min_x_all<Svd>("svd");
  std::printf("no native replay for check %s\n", c.c_str());
  return 2;
}
