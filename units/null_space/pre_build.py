#!/usr/bin/env python3
"""pre hook of unit null_space.   args: <repo> <scratchdir>

gv/extract.py refuses `try` blocks.  This hook (1) copies lib/gnu_gama/local/network.cpp of the repository under
verification into the scratch directory, rewriting -- inside LocalNetwork::null_space() only -- the single
    try { S } catch (const MatVecException& vs) { H }
by the exception-state form of lowering rule R11 (DESIGN.md 4.1):
    { S }  if (gv_exc != 0 && !GV_IS_MATVEC(gv_exc)) return GV_RET;          // not caught by this handler: propagates
           if (gv_exc != 0) { const int vs = gv_exc; gv_exc = 0; H }          // caught; `throw;` re-raises vs
and then (2) runs the ordinary extractor (gv/extract.py build_unit) on that copy with the unit's "xfunctions" and
contracts.c.  Nothing else of the function is touched; every step must match exactly once or the hook fails (exit != 0
-> the driver reports an extraction break, exit 2)."""
import json
import os
import re
import sys

repo, sdir = sys.argv[1], sys.argv[2]
here = os.path.dirname(os.path.abspath(__file__))
sys.path.insert(0, os.path.join(here, '..', '..', 'gv'))
import extract  # noqa: E402

REL = 'lib/gnu_gama/local/network.cpp'


def fail(msg):
    print('null_space pre hook: ' + msg)
    sys.exit(2)


try:
    raw = open(os.path.join(repo, REL), encoding='utf-8', errors='replace').read()
except OSError as e:
    fail(str(e))
src = extract.strip_comments(raw)
m = re.search(r'int\s+LocalNetwork::null_space\s*\(\s*\)\s*\{', src)
if not m:
    fail('int LocalNetwork::null_space() not found')
ob = m.end() - 1
cb = extract.match_close(src, ob, '{', '}')
body = src[ob + 1:cb]
if len(re.findall(r'\btry\b', body)) != 1 or len(re.findall(r'\bcatch\b', body)) != 1:
    fail('expected exactly one try and one catch in null_space()')
t = re.search(r'\btry\s*\{', body)
tb_open = t.end() - 1
tb_close = extract.match_close(body, tb_open, '{', '}')
c = re.compile(r'\s*catch\s*\(\s*const\s+MatVecException\s*&\s*(\w+)\s*\)\s*\{').match(body, tb_close + 1)
if not c:
    fail('catch (const MatVecException& <name>) expected right after the try block')
var = c.group(1)
hb_open = c.end() - 1
hb_close = extract.match_close(body, hb_open, '{', '}')
S = body[tb_open + 1:tb_close]
H = body[hb_open + 1:hb_close]
H, n1 = re.subn(r'\b%s\s*\.\s*error\s*\(\s*\)' % var, var, H)
H, n2 = re.subn(r'\bthrow\s*;', '{ gv_exc = %s; return GV_RET; }' % var, H)
if n1 < 1 or n2 < 1:
    fail('handler does not have the expected `%s.error()` / `throw;` form' % var)
new_body = (body[:t.start()] + '{' + S + '}\n  if (gv_exc != 0 && !GV_IS_MATVEC(gv_exc)) return GV_RET;\n'
            + '  if (gv_exc != 0) { const int %s = gv_exc; gv_exc = 0;' % var + H + '}' + body[hb_close + 1:])
lowered = src[:ob + 1] + new_body + src[cb:]
pre = os.path.join(sdir, 'null_space_pre_repo')
os.makedirs(os.path.dirname(os.path.join(pre, REL)), exist_ok=True)
open(os.path.join(pre, REL), 'w').write(lowered)

unit = json.load(open(os.path.join(here, 'unit.json')))
unit['functions'] = unit['xfunctions']
unit['spec'] = 'contracts.c'
try:
    info, fires, _ = extract.build_unit(pre, here, unit, os.path.join(sdir, unit['name'] + '.c'))
except extract.ExtractionBreak as e:
    fail('extraction break: %s' % e)
json.dump({'functions': info, 'fires': fires}, open(os.path.join(sdir, 'null_space.extract.json'), 'w'), indent=1)
print('null_space: try/catch lowered, %d function(s) extracted' % len(info))
