// Native demonstration for unit null_space (C20): reason recorded when a height unknown is flagged as dependent
#include <gnu_gama/local/network.h>
#include <gnu_gama/xml/gkfparser.h>
#include <gnu_gama/local/language.h>
#include <cstdio>
#include <fstream>
#include <sstream>
using namespace GNU_gama::local;
int main(int argc, char** argv)
{
  set_gama_language(en);
  std::ifstream f(argv[1]); std::stringstream ss; ss << f.rdbuf(); std::string t = ss.str();
  LocalNetwork net;
  GKFparser p(net);
  p.xml_parse(t.c_str(), t.size(), 1);
  net.set_algorithm(argc > 2 ? argv[2] : "envelope");
  const char* names[] = {"rm_missing_xyz","rm_missing_xy","rm_missing_z","rm_singular_xy","rm_singular_z","rm_huge_cov_xyz","rm_huge_cov_xy","rm_huge_cov_z"};
  try { int d = net.null_space(); std::printf("null_space() = %d\n", d); }
  catch (const GNU_gama::local::Exception& e) { std::printf("null_space() threw: %s\n", e.what()); }
  catch (...) { std::printf("null_space() threw\n"); }
  auto c = net.removed_code.begin();
  int bad = 0;
  for (auto i = net.removed_points.begin(); i != net.removed_points.end(); ++i, ++c) {
    std::printf("removed point %s  reason %s\n", i->str().c_str(), names[*c]);
    if (*c == LocalNetwork::rm_missing_z) bad++;
  }
  return bad ? 1 : 0;
}
