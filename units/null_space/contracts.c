/* Sidecar contracts for LocalNetwork::null_space (lib/gnu_gama/local/network.cpp), property C20 / DESIGN.md 5 C20-U5:
   on BadRegularization exactly ONE point -- the owner of the FIRST flagged unknown -- is removed with the reason that
   matches the unknown's type, then the function recurses; any other exception propagates; each recursion has strictly
   fewer usable points.  The body is extracted from /repo on every run (try/catch lowered by pre_build.py). */

//@ prelude
typedef double Float;
typedef int Index;
typedef int PointID;                 /* opaque key */
struct AdjBase { int gv_kind; };
struct Mat { Index row_, col_; };
struct LocalPoint { PointID gv_id; };
enum rm_points { rm_missing_xyz, rm_missing_xy, rm_missing_z, rm_singular_xy, rm_singular_z, rm_huge_cov_xyz, rm_huge_cov_xy, rm_huge_cov_z };

struct LocalNetwork {
  struct AdjBase *least_squares;
  bool tst_redbod_, tst_redmer_, tst_rov_opr_, tst_vyrovnani_;
  struct Mat A;
};

int gv_exc;
#define GV_IS_MATVEC(c) ((c) >= GV_BadRank && (c) <= GV_StreamError)   /* codes of GNU_gama::Exception::matvec */

/* ghost description of the singular situation */
int     gv_first;        /* smallest i with lindep(i), 0 if no unknown is flagged */
char    gv_type;         /* unknown_type(gv_first) */
PointID gv_pid;          /* unknown_pointid(gv_first) */
int     gv_defect;       /* least_squares->defect() */
int     gv_usable;       /* termination measure: number of points still usable in the adjustment */
/* ghost record of what the function did */
int     gv_removed_calls, gv_removed_rm, gv_unused_xy_calls, gv_unused_z_calls;
PointID gv_removed_id, gv_unused_id;
bool    gv_recursed;
int     gv_depth, gv_bound;      /* recursion bookkeeping: set in the entry block */
struct LocalPoint gv_point;

#define ALL_FLAGS_FALSE(N) (!(N)->tst_redbod_ && !(N)->tst_redmer_ && !(N)->tst_rov_opr_ && !(N)->tst_vyrovnani_)
#define NS_GHOST gv_removed_calls, gv_removed_rm, gv_unused_xy_calls, gv_unused_z_calls, gv_removed_id, gv_unused_id, gv_usable

/* ASSUMED contract of vyrovnani_() as seen by null_space: it either succeeds (all stages valid) or raises some
   exception.  BadRegularization is raised with project equations valid (it comes from the solver after
   tst_vyrovnani_ = true) and -- solver contract of C20-U1..U4, assumed here unless GV_NO_FLAG_ASSUMPTION -- with at
   least one unknown flagged by lindep(). */
void NS_vyrovnani_(struct LocalNetwork *self)
__CPROVER_requires(__CPROVER_rw_ok(self, sizeof(*self)) && gv_exc == 0)
__CPROVER_assigns(gv_exc, self->tst_redbod_, self->tst_redmer_, self->tst_rov_opr_, self->tst_vyrovnani_, self->A, gv_first, gv_type, gv_pid, gv_defect)
__CPROVER_ensures(gv_exc == 0 ==> (self->tst_vyrovnani_ && self->tst_rov_opr_ && self->least_squares != NULL))
__CPROVER_ensures(gv_exc == GV_BadRegularization ==> (self->tst_rov_opr_ && self->least_squares != NULL && self->A.col_ >= 1 &&
                                                      self->A.col_ <= 10000000 && 0 <= gv_first && gv_first <= self->A.col_))
#ifndef GV_NO_FLAG_ASSUMPTION
__CPROVER_ensures(gv_exc == GV_BadRegularization ==> gv_first >= 1)
#endif
#ifdef GV_EXCL_Z_REASON
__CPROVER_ensures(gv_type != 'Z')      /* exclusion predicate of the finding "height unknown removed with reason rm_missing_z" */
#endif
__CPROVER_ensures(gv_type == 'X' || gv_type == 'Y' || gv_type == 'Z' || gv_type == 'R')   /* the types project_equations assigns */
__CPROVER_ensures(gv_exc >= 0 && gv_exc <= GV_OtherExc)
;
int NS_unknowns_count(struct LocalNetwork *self)
__CPROVER_requires(__CPROVER_r_ok(self, sizeof(*self)) && self->tst_rov_opr_)     /* otherwise it would rebuild the equations */
__CPROVER_assigns()
__CPROVER_ensures(__CPROVER_return_value == self->A.col_)
;
bool NS_lindep(struct LocalNetwork *self, int i)
__CPROVER_requires(__CPROVER_r_ok(self, sizeof(*self)) && self->least_squares != NULL && 1 <= i && i <= self->A.col_)
__CPROVER_assigns()
__CPROVER_ensures((gv_first == 0 || i < gv_first) ==> !__CPROVER_return_value)
__CPROVER_ensures(i == gv_first ==> __CPROVER_return_value)
;
char NS_unknown_type(const struct LocalNetwork *self, int i)
__CPROVER_requires(1 <= i && i <= self->A.col_)
__CPROVER_assigns()
__CPROVER_ensures(i == gv_first ==> __CPROVER_return_value == gv_type)
__CPROVER_ensures(__CPROVER_return_value == 'X' || __CPROVER_return_value == 'Y' || __CPROVER_return_value == 'Z' || __CPROVER_return_value == 'R')
;
PointID NS_unknown_pointid(const struct LocalNetwork *self, int i)
__CPROVER_requires(1 <= i && i <= self->A.col_)
__CPROVER_assigns()
__CPROVER_ensures(i == gv_first ==> __CPROVER_return_value == gv_pid)
;
static struct LocalPoint *NS_PD_at(struct LocalNetwork *self, PointID id) { gv_point.gv_id = id; return &gv_point; }
static void NS_set_unused_xy(struct LocalPoint *p) { gv_unused_xy_calls++; gv_unused_id = p->gv_id; }
static void NS_set_unused_z(struct LocalPoint *p) { gv_unused_z_calls++; gv_unused_id = p->gv_id; }
/* removed(id, rm): records the point and the reason and calls update(Points) (network.h); the owner of an unknown
   is a usable point, so the number of usable points drops by one and stays >= 0 */
static void NS_removed(struct LocalNetwork *self, PointID id, int rm)
{
  gv_removed_calls++;
  gv_removed_id = id;
  gv_removed_rm = rm;
  __CPROVER_assume(gv_usable >= 1);
  gv_usable--;
  self->tst_redbod_ = self->tst_redmer_ = self->tst_rov_opr_ = self->tst_vyrovnani_ = false;
}
int NS_defect(struct AdjBase *ls)
__CPROVER_requires(ls != NULL)
__CPROVER_assigns()
__CPROVER_ensures(__CPROVER_return_value == gv_defect)
;
void gv_keep_refs(void)
{
  LocalNetwork_null_space_rec(NULL); NS_vyrovnani_(NULL); NS_unknowns_count(NULL); NS_lindep(NULL, 0); NS_unknown_type(NULL, 0); NS_unknown_pointid(NULL, 0); NS_defect(NULL);
}

/* what must hold at the moment of the recursive call (depth 1): exactly one removal, of the owner of the first
   flagged unknown, with the reason that matches the unknown's type; everything invalidated; strictly fewer usable points */
#define REASON_OK ((gv_type == 'Z') ? (gv_removed_rm == rm_singular_z && gv_unused_z_calls == 1 && gv_unused_xy_calls == 0) \
                                    : (gv_removed_rm == rm_singular_xy && gv_unused_xy_calls == 1 && gv_unused_z_calls == 0))
#define REC_PRE(self) (gv_exc == 0 && gv_first >= 1 && gv_removed_calls == 1 && gv_removed_id == gv_pid && gv_unused_id == gv_pid && \
                       REASON_OK && ALL_FLAGS_FALSE(self) && gv_usable >= 0 && gv_usable < gv_bound)
#define NS_CONTRACT \
  __CPROVER_requires(__CPROVER_rw_ok(self, sizeof(*self)) && gv_exc == 0 && gv_usable >= 0) \
  __CPROVER_requires(gv_depth == 0 ? (gv_removed_calls == 0 && gv_unused_xy_calls == 0 && gv_unused_z_calls == 0 && !gv_recursed) : REC_PRE(self)) \
  __CPROVER_assigns(gv_exc, self->tst_redbod_, self->tst_redmer_, self->tst_rov_opr_, self->tst_vyrovnani_, self->A, gv_first, gv_type, gv_pid, \
                    gv_defect, NS_GHOST, gv_recursed, gv_depth, gv_bound, gv_point) \
  __CPROVER_ensures(__CPROVER_old(gv_depth) != 0 ==> gv_recursed) \
  __CPROVER_ensures((__CPROVER_old(gv_depth) == 0 && !gv_recursed) ==> gv_removed_calls == 0) \
  __CPROVER_ensures((__CPROVER_old(gv_depth) == 0 && !gv_recursed && gv_exc == 0) ==> (__CPROVER_return_value == gv_defect && self->tst_vyrovnani_)) \
  __CPROVER_ensures((__CPROVER_old(gv_depth) == 0 && !gv_recursed) ==> gv_exc != GV_BadRegularization)
/* the recursive call `return null_space();` is lowered to a call of this bodiless twin, which carries the SAME contract
   text (NS_CONTRACT) and is replaced by it: induction over the recursion depth, as --enforce-contract-rec would do */
int LocalNetwork_null_space_rec(struct LocalNetwork *self)
NS_CONTRACT
;
//@ end

/* Contract (macro NS_CONTRACT in the prelude).
   - a recursive call (depth 1) must find REC_PRE: exactly one removal, of the owner of the first flagged unknown, with
     the matching reason, every stage invalidated, strictly fewer usable points (termination measure);
   - top level without recursion: either the adjustment succeeded, the defect is returned and nothing was removed, or an
     exception other than BadRegularization propagates unchanged with nothing removed; BadRegularization never escapes
     and is never swallowed without a removal. */
//@ contract LocalNetwork_null_space
NS_CONTRACT
//@ entry LocalNetwork_null_space
GV_CANARY("LocalNetwork_null_space entry");
const int gv_top = (gv_depth == 0);
gv_bound = gv_usable;      /* termination measure at entry; the recursive call must see a strictly smaller value */
gv_depth = 1;
//@ pre LocalNetwork_null_space 1
const int gv_first0 = gv_first, gv_usable0 = gv_usable, gv_defect0 = gv_defect;
const char gv_type0 = gv_type;
const PointID gv_pid0 = gv_pid;
//@ loop LocalNetwork_null_space 1
__CPROVER_assigns(i, gv_exc, self->tst_redbod_, self->tst_redmer_, self->tst_rov_opr_, self->tst_vyrovnani_, self->A, gv_first, gv_type, gv_pid,
                  gv_defect, NS_GHOST, gv_recursed, gv_depth, gv_bound, gv_point)
__CPROVER_loop_invariant(self->A.col_ >= 1 && self->A.col_ <= 10000000 && 1 <= i && i <= self->A.col_ + 1 && 0 <= gv_first && gv_first <= self->A.col_ &&
                         gv_first == gv_first0 && gv_type == gv_type0 && gv_pid == gv_pid0 && gv_usable == gv_usable0 && gv_defect == gv_defect0 &&
                         (gv_first == 0 || i <= gv_first) && gv_exc == 0 && self->tst_rov_opr_ && self->least_squares != NULL &&
                         gv_removed_calls == (gv_top ? 0 : 1) && gv_depth == 1 && gv_bound == gv_usable && vs == GV_BadRegularization &&
                         (gv_top ==> (gv_unused_xy_calls == 0 && gv_unused_z_calls == 0 && !gv_recursed)))
__CPROVER_decreases(self->A.col_ + 1 - i)
//@ end

//@ harness
void h_null_space(void)
{
  struct LocalNetwork N;
  struct AdjBase ls;
  bool has;
  N.least_squares = has ? &ls : NULL;
  gv_exc = 0;
  gv_depth = 0;
  gv_recursed = false;
  gv_removed_calls = gv_unused_xy_calls = gv_unused_z_calls = 0;
  __CPROVER_assume(gv_usable >= 0);
  int w_ret = LocalNetwork_null_space(&N);
  GV_CANARY("h_null_space end");
}
//@ end
