/* C15-U4 (bounded part): CovMat::cholDec and CovMat::solve of lib/matvec/covmat.h, extracted from /repo on every run and
   executed by CBMC with all loops unwound for dim <= 3 and every band width b < dim, on inputs for which IEEE arithmetic
   is exact (A = L D L' built from small integers, pivots powers of two), so the oracle is an equality.
   Obligations: memory safety of the pointer walk inside the packed band buffer (every dereference, for these dims),
   BadRank for the empty matrix, NonPositiveDefinite exactly when some pivot is <= 0 ("rejects non-positive pivots"),
   in-situ result == (D on the diagonal, L' above it), solve(A x) == x.
   Element access from the harness and from solve goes through the extracted operator() / operator[] (rule R9).
   NOT covered here: the proof for all (dim, band) -- see the unit's report.                                        */

//@ prelude
#include "../matvec_index/matvec_spec.h"
int gv_exc;
#define NMAX 3
//@ end

//@ contract MemRep_begin
MV_CONTRACT_MemRep_begin
//@ contract MemRep_begin_const
MV_CONTRACT_MemRep_begin
//@ contract CovMat_row
MV_CONTRACT_CovMat_row
//@ contract CovMat_row_const
MV_CONTRACT_CovMat_row
//@ contract CovMat_at
MV_CONTRACT_CovMat_at
//@ contract CovMat_at_const
MV_CONTRACT_CovMat_at_const
//@ contract Vec_at
MV_CONTRACT_Vec_at
//@ entry CovMat_cholDec
GV_CANARY("CovMat_cholDec entry");
//@ entry CovMat_solve
GV_CANARY("CovMat_solve entry");
//@ end

//@ harness
static Index nondet_small(Index lo, Index hi)
{
  Index v;
  __CPROVER_assume(lo <= v && v <= hi);
  return v;
}

/* A = L D L' with L unit lower triangular of band width W, entries in -2..2, D = diag(dd); everything exact */
static Index gN, gW;
static Float gL[NMAX + 1][NMAX + 1], gD[NMAX + 1];

static void mk_cov(struct CovMat *A, Index N, Index W)
{
  A->base.row_ = A->base.col_ = N;
  A->band_ = W;
  A->band_1 = W + 1;
  A->dim_b = N - W;
  A->base.mem.sz = N * (W + 1) - W * (W + 1) / 2;
  A->base.mem.rep = malloc((size_t)A->base.mem.sz * sizeof(Float));
  __CPROVER_assume(A->base.mem.rep != NULL);
}

static void fill_ldl(struct CovMat *A, int positive)
{
  Index N = gN, W = gW;
  for (Index i = 1; i <= N; i++)
    for (Index j = 1; j <= N; j++)
      gL[i][j] = (i == j) ? 1.0 : (i > j && i - j <= W) ? (Float)nondet_small(-2, 2) : 0.0;
  for (Index i = 1; i <= N; i++) {
    Index e = positive ? nondet_small(0, 2) : nondet_small(-1, 2);
    gD[i] = (e == 0) ? 1.0 : (e == 1) ? 2.0 : (e == 2) ? 4.0 : (positive ? 1.0 : (Float)nondet_small(-1, 0));
  }
  for (Index i = 1; i <= N; i++)
    for (Index j = i; j <= N && j <= i + W; j++) {
      Float s = 0;
      for (Index k = 1; k <= i; k++) s += gL[i][k] * gD[k] * gL[j][k];
      gv_exc = 0;
      *CovMat_at(A, i, j) = s; /* the real non-const operator() */
    }
}

void h_choldec(void)
{
  struct CovMat A;
  gN = GV_N; /* one (dim, band) pair per check: with symbolic dim the unwound formula exceeds 16 GB */
  gW = GV_W;
  mk_cov(&A, gN, gW);
  fill_ldl(&A, GV_POSITIVE);
  gv_exc = 0;
  CovMat_cholDec(&A);
  if (gN == 0) {
    __CPROVER_assert(gv_exc == GV_BadRank, "cholDec of the empty matrix raises BadRank");
  } else {
    int nonpos = 0;
    for (Index i = 1; i <= gN; i++)
      if (gD[i] <= 0) nonpos = 1;
    __CPROVER_assert(nonpos ? gv_exc == GV_NonPositiveDefinite : gv_exc == 0,
                     "cholDec raises NonPositiveDefinite exactly when a pivot is <= 0");
    if (gv_exc == 0)
      for (Index i = 1; i <= gN; i++)
        for (Index j = i; j <= gN && j <= i + gW; j++) {
          Float v = CovMat_at_const(&A, i, j);
          __CPROVER_assert(v == (i == j ? gD[i] : gL[j][i]), "in-situ factor: D on the diagonal, L' above it (A == L D L' exactly)");
        }
  }
  GV_CANARY("h_choldec end");
}

void h_solve(void)
{
  struct CovMat A;
  struct Vec x;
  Float xs[NMAX + 1];
  gN = GV_N;
  gW = GV_W;
  mk_cov(&A, gN, gW);
  fill_ldl(&A, 1);
  x.mem.sz = gN;
  x.mem.rep = malloc((size_t)gN * sizeof(Float));
  __CPROVER_assume(x.mem.rep != NULL);
  for (Index i = 1; i <= gN; i++) xs[i] = (Float)nondet_small(-2, 2);
  for (Index i = 1; i <= gN; i++) { /* rhs = A xs */
    Float s = 0;
    for (Index j = 1; j <= gN; j++) s += CovMat_at_const(&A, i, j) * xs[j];
    x.mem.rep[i - 1] = s;
  }
  gv_exc = 0;
  CovMat_cholDec(&A);
  __CPROVER_assert(gv_exc == 0, "positive definite input is factored");
  CovMat_solve(&A, &x);
  for (Index i = 1; i <= gN; i++)
    __CPROVER_assert(x.mem.rep[i - 1] == xs[i], "solve(A x) == x exactly");
  GV_CANARY("h_solve end");
}
//@ end
