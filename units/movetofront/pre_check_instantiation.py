#!/usr/bin/env python3
"""The harness proves MoveToFront for N=3.  Abort (extraction break) if the repository instantiates another N."""
import re, subprocess, sys, os
repo = sys.argv[1]
bad = []
for root, _, files in os.walk(os.path.join(repo, 'lib')):
    for f in files:
        if not f.endswith(('.h', '.cpp')) or f == 'movetofront.h':
            continue
        t = open(os.path.join(root, f), errors='replace').read()
        for m in re.finditer(r'MoveToFront\s*<\s*([^,>]+)\s*,', t):
            if m.group(1).strip() != '3':
                bad.append('%s: MoveToFront<%s,...>' % (f, m.group(1)))
if bad:
    print('unexpected instantiation: ' + '; '.join(bad))
    sys.exit(1)
