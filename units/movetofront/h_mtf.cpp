// Route P harness: the REAL, unmodified lib/gnu_gama/movetofront.h compiled by CBMC's C++ front end.
// CBMC's C++ mode has no contract syntax, so the contract is enforced by the harness:
//   assume(representation invariant of an ARBITRARY state); call; assert(postcondition).
// MoveToFront<3,int,int> is the only instantiation in the repository (adj_envelope.h: indbuf).
#define private public          // harness needs the abstract view (key_, buf_, active); header text is untouched
#include <gnu_gama/movetofront.h>
#undef private

typedef GNU_gama::MoveToFront<3, int, int> MTF;
int nondet_int();
unsigned long nondet_ulong();

// representation invariant: active <= 3, active keys pairwise distinct, buf_ is a permutation of {b0,b0+1,b0+2}
static bool inv(const MTF& m, int b0)
{
  if (m.active > 3) return false;
  for (unsigned i = 0; i < m.active; i++)
    for (unsigned j = i + 1; j < m.active; j++)
      if (m.key_[i] == m.key_[j]) return false;
  bool seen[3] = {false, false, false};
  for (unsigned i = 0; i < 3; i++) {
    int d = m.buf_[i] == b0 ? 0 : m.buf_[i] == b0 + 1 ? 1 : m.buf_[i] == b0 + 2 ? 2 : -1;
    if (d < 0 || seen[d]) return false;
    seen[d] = true;
  }
  return true;
}

void h_get()
{
  int b0 = nondet_int();
  __CPROVER_assume(b0 >= 0 && b0 < 1000);
  MTF m(b0);                       // constructor: buf_ = b0, b0+1, b0+2 ; active = 0
  __CPROVER_assert(m.active == 0 && m.buf_[0] == b0 && m.buf_[1] == b0 + 1 && m.buf_[2] == b0 + 2,
                   "constructor: empty view, buffers b0..b0+2");
  // arbitrary invariant-satisfying state (not only states reachable from the constructor)
  for (int i = 0; i < 3; i++) { m.key_[i] = nondet_int(); m.buf_[i] = nondet_int(); }
  m.active = nondet_ulong();
  __CPROVER_assume(inv(m, b0));
  MTF old = m;
  int key = nondet_int();

  std::pair<int, bool> r = m.get(key);

  // --- postconditions -------------------------------------------------------------------------
  bool was = false; unsigned pos = 3;
  for (unsigned i = 0; i < old.active; i++) if (old.key_[i] == key) { was = true; pos = i; }
  __CPROVER_assert(r.second == was, "get: good <=> key was an active key");
  __CPROVER_assert(inv(m, b0), "get: representation invariant preserved (distinct keys, buffers a permutation)");
  __CPROVER_assert(m.key_[0] == key && m.buf_[0] == r.first, "get: key is at the front with the returned buffer");
  if (was) {
    __CPROVER_assert(r.first == old.buf_[pos], "get(hit): returns the buffer previously associated with key");
    __CPROVER_assert(m.active == old.active, "get(hit): number of active slots unchanged");
    for (unsigned i = 0; i < old.active; i++)
      if (i != pos) {       // every other association survives, order preserved
        unsigned ni = i < pos ? i + 1 : i;
        __CPROVER_assert(m.key_[ni] == old.key_[i] && m.buf_[ni] == old.buf_[i], "get(hit): other associations preserved in order");
      }
  } else if (old.active < 3) {
    __CPROVER_assert(m.active == old.active + 1, "get(miss, not full): one more active slot");
    __CPROVER_assert(r.first == old.buf_[old.active], "get(miss, not full): hands out a never-used buffer");
    for (unsigned i = 0; i < old.active; i++)
      __CPROVER_assert(m.key_[i + 1] == old.key_[i] && m.buf_[i + 1] == old.buf_[i], "get(miss, not full): all associations preserved");
  } else {
    __CPROVER_assert(m.active == 3, "get(miss, full): still full");
    __CPROVER_assert(r.first == old.buf_[2], "get(miss, full): evicts the least recently used slot");
    for (unsigned i = 0; i < 2; i++)
      __CPROVER_assert(m.key_[i + 1] == old.key_[i] && m.buf_[i + 1] == old.buf_[i], "get(miss, full): the two most recent associations preserved");
  }
  __CPROVER_assert(m.size() == 3, "size() is N");
  m.erase();
  __CPROVER_assert(m.active == 0 && inv(m, b0), "erase: empty view, buffers kept");
  __CPROVER_assert(0, "GV_CANARY h_get end");
}

// second access in the same state returns the same buffer (idempotence of a hit): the cache hands out one
// buffer per key for as long as the key stays active
void h_get_twice()
{
  int b0 = nondet_int();
  __CPROVER_assume(b0 >= 0 && b0 < 1000);
  MTF m(b0);
  for (int i = 0; i < 3; i++) { m.key_[i] = nondet_int(); m.buf_[i] = nondet_int(); }
  m.active = nondet_ulong();
  __CPROVER_assume(inv(m, b0));
  int k1 = nondet_int(), k2 = nondet_int();
  std::pair<int, bool> a = m.get(k1);
  std::pair<int, bool> b = m.get(k2);
  std::pair<int, bool> c = m.get(k1);
  __CPROVER_assert(c.second, "k1 is still cached after one other access (capacity 3)");
  __CPROVER_assert(c.first == a.first, "k1 keeps its buffer across another access");
  __CPROVER_assert(k1 == k2 || b.first != a.first, "two different active keys never share a buffer");
  __CPROVER_assert(0, "GV_CANARY h_get_twice end");
}
