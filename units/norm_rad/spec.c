/* Sidecar contract for Observation::norm_rad_val() (lib/gnu_gama/local/observation.h), property C11: "for every byte
   sequence given as input ... gama-local terminates".  The constructors of Direction, Angle and Azimuth pass every value
   the parser accepted through this reduction.  On the tree as found it was `while (value_ >= 2*M_PI) value_ -= 2*M_PI;`
   which never ends for 1e300 (1e300 - 2*pi == 1e300) nor for +-inf: <direction val="1e300"/> hung gama-local (replayed
   with the real binary, known_findings.txt).

   CONTRACT (from the property and from what an angle reduced to one turn is): the function RETURNS for every double
   (it is loop-free: termination is structural), and for every FINITE value the result lies in the half-open circle
   [0, 2*pi) and differs from the argument by what fmod removed (no other change of the value).                    */

//@ prelude
#include <math.h>
struct Observation { double value_; };
int gv_exc;
double gv_fmod_x, gv_fmod_r;   /* ghost: argument and result of the one fmod call */
int gv_fmod_calls;
/* ASSUMED contract of fmod (C11 7.12.10.1), y = 2*pi here */
static double gv_fmod(double x, double y)
{
  double r;
  __CPROVER_assert(y > 0 && __CPROVER_isfinited(y), "fmod: the modulus is a positive finite number");
  if (__CPROVER_isfinited(x)) {
    __CPROVER_assume(__CPROVER_isfinited(r) && (x >= 0 ? (r >= 0 && r < y) : (r <= 0 && r > -y)));
    __CPROVER_assume(!(x >= 0 && x < y) || r == x);      /* already reduced: unchanged (fmod is exact) */
  } else {
    __CPROVER_assume(r != r);
  }
  gv_fmod_x = x; gv_fmod_r = r; gv_fmod_calls++;
  return r;
}
//@ end

//@ contract Observation_norm_rad_val
__CPROVER_requires(__CPROVER_rw_ok(self, sizeof(struct Observation)) && gv_fmod_calls == 0)
__CPROVER_assigns(self->value_, gv_fmod_x, gv_fmod_r, gv_fmod_calls)
/* one reduction step, on the value given */
__CPROVER_ensures(gv_fmod_calls == 1 && (gv_fmod_x == __CPROVER_old(self->value_) || __CPROVER_old(self->value_) != __CPROVER_old(self->value_)))
/* finite value: result in the half-open circle */
__CPROVER_ensures(__CPROVER_isfinited(__CPROVER_old(self->value_)) ==> (self->value_ >= 0 && self->value_ < 2 * M_PI))
/* a value already inside the circle is not changed */
__CPROVER_ensures((__CPROVER_old(self->value_) >= 0 && __CPROVER_old(self->value_) < 2 * M_PI) ==> self->value_ == __CPROVER_old(self->value_))
/* nothing is invented: the result is the remainder, the remainder plus one turn, or 0 when that sum rounds to a full turn */
__CPROVER_ensures(__CPROVER_isfinited(__CPROVER_old(self->value_)) ==>
                  (self->value_ == gv_fmod_r || self->value_ == gv_fmod_r + 2 * M_PI || (self->value_ == 0 && gv_fmod_r + 2 * M_PI >= 2 * M_PI)))
//@ entry Observation_norm_rad_val
GV_CANARY("Observation_norm_rad_val entry");
//@ end

//@ harness
void h_norm(void)
{
  struct Observation o;          /* value_ arbitrary: every bit pattern, NaN and infinities included */
  gv_fmod_calls = 0;
  Observation_norm_rad_val(&o);
  GV_CANARY("h_norm end");
}
//@ end
