// Native demonstration for unit singular_coords (C20): LocalNetwork::singular_coords does not recognise a point whose x or y column of
// the design matrix is ZERO (a point determined by one distance exactly along a coordinate axis): aa > 0, bb == 0, ab == 0 gives
// D = 1 - 0/sqrt(0) = NaN and `NaN < 1e-12` is false.  The same point turned by 45 degrees (parallel columns) or by -45 degrees
// (anti-parallel columns) is recognised.  (The point is later removed by the fallback null_space() / lindep of the solver.)
// Build:  OBJS=$(find /repo/_build/CMakeFiles/libgama.dir -name '*.o'); g++ -std=c++14 -I/repo/lib native_demo.cpp $OBJS -lexpat
#include <gnu_gama/local/network.h>
#include <gnu_gama/xml/gkfparser.h>
#include <gnu_gama/local/language.h>
#include <cstdio>
#include <string>
using namespace GNU_gama::local;

static std::string gkf(const char* px, const char* py)
{
  return std::string(
  "<?xml version=\"1.0\" ?>\n<gama-local xmlns=\"http://www.gnu.org/software/gama/gama-local\">\n"
  "<network axes-xy=\"ne\" angles=\"left-handed\">\n"
  "<parameters sigma-apr=\"10\" conf-pr=\"0.95\" tol-abs=\"1000\" sigma-act=\"apriori\" />\n"
  "<points-observations distance-stdev=\"5\">\n"
  "<point id=\"A\" x=\"0\" y=\"0\" fix=\"xy\" />\n<point id=\"B\" x=\"100\" y=\"0\" fix=\"xy\" />\n"
  "<point id=\"C\" x=\"50\" y=\"80\" adj=\"xy\" />\n"
  "<point id=\"P\" x=\"") + px + "\" y=\"" + py + "\" adj=\"xy\" />\n"
  "<obs from=\"A\"><distance to=\"C\" val=\"94.34\" /></obs>\n<obs from=\"B\"><distance to=\"C\" val=\"94.34\" /></obs>\n"
  "<obs from=\"A\"><distance to=\"B\" val=\"100.0\" /></obs>\n<obs from=\"B\"><distance to=\"P\" val=\"100.01\" /></obs>\n"
  "</points-observations>\n</network>\n</gama-local>\n";
}
static int run(const char* what, const char* px, const char* py)
{
  LocalNetwork net;
  GKFparser p(net);
  std::string s = gkf(px, py);
  p.xml_parse(s.c_str(), s.size(), 1);
  net.set_algorithm("gso");
  net.project_equations();                      // prepareProjectEquations(); if (singular_coords(A)) ...
  int n = (int)net.removed_points.size();
  std::printf("%-44s removed by singular_coords: %d\n", what, n);
  return n;
}
int main()
{
  set_gama_language(en);
  int axis = run("P = B + (100, 0)   (y column zero)", "200", "0");
  int diag = run("P = B + 100 (cos45, sin45)   (parallel)", "170.71", "70.71");
  int anti = run("P = B + 100 (cos45,-sin45)   (anti-parallel)", "170.71", "-70.71");
  std::printf("expected 1 1 1, observed %d %d %d -> %s\n", axis, diag, anti, (axis == 1 && diag == 1 && anti == 1) ? "ok" : "DEFECT REPRODUCED");
  return !(axis == 1 && diag == 1 && anti == 1);
}
