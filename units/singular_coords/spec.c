/* Sidecar contracts for GNU_gama::local::LocalNetwork::singular_coords (lib/gnu_gama/local/network.cpp), property C20
   ("coordinates with a single determining element ... gama-local says so"; mechanism "removal of points with ... singular
   covariances: LocalNetwork::singular_coords").

   singular_coords(A) walks over the points; for a free, active xy point with unknowns (indx, indy) it forms, over the rows of the
   (homogenised) design matrix, aa = <a,a>, ab = <a,b>, bb = <b,b> of the two columns and decides from
         D = 1 - |ab| / sqrt(aa*bb) = 1 - |cos(a,b)|
   whether the two columns are (anti)parallel (D < 1e-12): then x and y of the point cannot be separated, the point is removed.

   UNDER CONTRACT: the per-point body of that walk (the block of the `for (PointData::iterator ...)` statement), extracted verbatim
   from /repo on every run; `continue` is lowered to `return`.  The std::map iteration itself is not lowered (one map entry is the
   parameter `i`).  LocalPoint's one-line status functions are extracted from lpoint.h.

   CONTRACT (from the mathematics, not from the code):
     P1  a fixed or inactive point is left alone;
     P2  an active free point without both unknown indices is removed (it cannot be adjusted);
     P3  otherwise the verdict is a function of |cos|: it is SYMMETRIC in the sign of the dot product -- two runs whose column sums
         satisfy aa' = aa, bb' = bb, ab' = -ab give the same verdict (check `symmetry`, a ghost pair of runs of the real code);
     P4  D is a number (not NaN) and D <= 1; no division by zero;
     P5  a point with a zero column (aa == 0 or bb == 0: one coordinate does not occur in any equation) is undetermined: removed;
     P6  removed  <=>  D < 1e-12; removal = result true, xy status bits cleared, removed(id, rm_singular_xy) called exactly once;
         a point that is kept is not touched;
     P7  memory safety: rows 1..A.rows(), columns = the point's unknown indices within 1..A.cols();
         every row is read exactly once, `a` from column index_x and `b` from column index_y.  */

//@ prelude
typedef double Float;
typedef int Index;
typedef int PointID;                                      /* opaque key */
int gv_exc;

struct Mat { Index row_, col_; };                          /* MatBase: row_, col_ (elements through the stub gvs_A) */
struct LocalPoint { int ix_, iy_, pst_; };                 /* the members the extracted functions touch */
struct PDentry { PointID first; struct LocalPoint second; };   /* std::pair<const PointID, LocalPoint> */
struct LocalNetwork { int gv_dummy; };
/* LocalPoint status bits (anonymous enum of lpoint.h; values checked by the lpoint checks below through the real bodies) */
enum { unused_ = 0, xy_fixed_ = 1, xy_adjusted_ = 2, xy_constrained_ = 4, z_fixed_ = 8, z_adjusted_ = 16, z_constrained_ = 32,
       active_xy_ = xy_fixed_ | xy_adjusted_ | xy_constrained_, active_z_ = z_fixed_ | z_adjusted_ | z_constrained_ };
enum rm_points { rm_missing_xyz, rm_missing_xy, rm_missing_z, rm_singular_xy, rm_singular_z, rm_huge_cov_xyz, rm_huge_cov_xy, rm_huge_cov_z };

#define MAXROWS 10000000
#define MAXCOLS 10000000
#define SAME_BITS(a, b) (((a) == (b) && __CPROVER_signd(a) == __CPROVER_signd(b)) || ((a) != (a) && (b) != (b)))
#define GV_SWAP(x, y) do { double gv_t_ = (x); (x) = (y); (y) = gv_t_; } while (0)

/* ---- design matrix elements: ASSUMED contract of Mat::operator()(r,c) const (index arithmetic verified in unit matvec_index):
   defined for 1 <= r <= rows, 1 <= c <= cols (obligation at the call site); the element is a function of (r,c);
   ASSUMED magnitude: 0 or 2^-66 <= |a| <= 2^66 (a coefficient of a homogenised observation equation) */
double __CPROVER_uninterpreted_ael(int, int);
#define AEL(r, c) __CPROVER_uninterpreted_ael((r), (c))
#define EL_LO 0x1p-66
#define EL_HI 0x1p66
#define SQ_LO 0x1p-132
#define SQ_HI 0x1p132
static Index Mat_rows(const struct Mat *A) { return A->row_; }        /* one-line getter `return row_;` */
int gv_ael_calls, gv_col_a, gv_col_b;    /* ghost: number of element reads; column of the last odd / even read */
static double gvs_A(const struct Mat *A, int r, int c)
{
  if (gv_ael_calls % 2 == 0) gv_col_a = c; else gv_col_b = c;
  gv_ael_calls++;
  __CPROVER_assert(1 <= r && r <= A->row_, "A(r,c): 1 <= r <= rows");
  __CPROVER_assert(1 <= c && c <= A->col_, "A(r,c): 1 <= c <= cols (the point's unknown index is a column of the design matrix)");
  double v = AEL(r, c);
  __CPROVER_assume(v == 0 || (v >= EL_LO && v <= EL_HI) || (v <= -EL_LO && v >= -EL_HI));
  return v;
}

/* ---- removed(id, reason): stub that records the call (std::list push_back + update(Points) are not lowered) */
int gv_removed_calls; PointID gv_removed_id; int gv_removed_rm;
static void gvs_removed(struct LocalNetwork *self, PointID id, int rm)
{
  gv_removed_calls++;
  gv_removed_id = id;
  gv_removed_rm = rm;
}

/* ---- tagged IEEE operations (see units/vyrovnani_tail/spec.c): the real operation is performed and its result is additionally
   NAMED by an uninterpreted function of the operands, so that two runs with bit-identical operands have bit-identical results by
   congruence instead of by comparing two bit-blasted dividers */
double __CPROVER_uninterpreted_fdiv(double, double);
double __CPROVER_uninterpreted_fmul(double, double);
double __CPROVER_uninterpreted_fsub(double, double);
double __CPROVER_uninterpreted_sqrt(double);
static double gv_fdiv(double a, double b)
{
  __CPROVER_assert(b != 0, "floating-point division: the divisor is not zero");
  double r = a / b;
  __CPROVER_assume(SAME_BITS(r, __CPROVER_uninterpreted_fdiv(a, b)));
  return r;
}
static double gv_fmul(double a, double b)
{
  double r = a * b;
  __CPROVER_assume(SAME_BITS(r, __CPROVER_uninterpreted_fmul(a, b)));
  return r;
}
static double gv_fsub(double a, double b)
{
  double r = a - b;
  __CPROVER_assume(SAME_BITS(r, __CPROVER_uninterpreted_fsub(a, b)));
  return r;
}
static double gv_fabs(double x) { return __CPROVER_fabs(x); }      /* std::abs(double): clears the sign bit */
/* sqrt: ASSUMED contract of a correctly rounded square root: a function of its argument, defined for x >= 0 (obligation);
   r >= 0; r == 0 iff x == 0; finite for finite x */
static double gv_sqrt_f(double x)
{
  __CPROVER_assert(x >= 0, "sqrt argument is non-negative (and not NaN)");
  double r = __CPROVER_uninterpreted_sqrt(x);
  __CPROVER_assume(r >= 0 && (x > 0 ? r > 0 : r == 0) && (!(x < 1.0 / 0.0) || r < 1.0 / 0.0));
  return r;
}

/* ---- ghost record of the decision (written at the injection point in front of `if (D < 1e-12)`) */
int gv_reached;                 /* the numeric test was evaluated */
double gv_aa, gv_ab, gv_bb;     /* the column sums the test used (after the swap: gv_aa = max, gv_bb = min) */
double gv_D;

#define PT_FLAGGED(i, res) ((res) && ((i)->second.pst_ & active_xy_) == 0 && gv_removed_calls == 1 && gv_removed_id == (i)->first && gv_removed_rm == rm_singular_xy)
#define PT_KEPT(i, res, res0, pst0) ((res) == (res0) && (i)->second.pst_ == (pst0) && gv_removed_calls == 0)
//@ end

/* ---- LocalPoint one-liners (real bodies) ------------------------------------------------------------------------ */
//@ contract LocalPoint_fixed_xy
__CPROVER_requires(__CPROVER_r_ok(self, sizeof(*self)))
__CPROVER_assigns()
__CPROVER_ensures(__CPROVER_return_value == ((self->pst_ & xy_fixed_) != 0))
//@ entry LocalPoint_fixed_xy
GV_CANARY("LocalPoint_fixed_xy entry");
//@ contract LocalPoint_active_xy
__CPROVER_requires(__CPROVER_r_ok(self, sizeof(*self)))
__CPROVER_assigns()
__CPROVER_ensures(__CPROVER_return_value == ((self->pst_ & active_xy_) != 0))
//@ entry LocalPoint_active_xy
GV_CANARY("LocalPoint_active_xy entry");
//@ end

/* ---- the per-point body ------------------------------------------------------------------------------------------ */
//@ contract LocalNetwork_singular_coords_point
__CPROVER_requires(__CPROVER_rw_ok(self, sizeof(*self)) && __CPROVER_r_ok(A__p, sizeof(*A__p)) && __CPROVER_rw_ok(i, sizeof(*i)) && __CPROVER_rw_ok(result__p, sizeof(bool)))
__CPROVER_requires(0 <= A__p->row_ && A__p->row_ <= MAXROWS && 0 <= A__p->col_ && A__p->col_ <= MAXCOLS)
/* the point's unknown indices are 0 (none) or columns of the design matrix (project_equations numbers them 1..cols) */
__CPROVER_requires(0 <= i->second.ix_ && i->second.ix_ <= A__p->col_ && 0 <= i->second.iy_ && i->second.iy_ <= A__p->col_)
__CPROVER_requires(gv_removed_calls == 0 && gv_reached == 0 && gv_exc == 0 && gv_ael_calls == 0)
__CPROVER_assigns(*result__p, i->second.pst_, gv_removed_calls, gv_removed_id, gv_removed_rm, gv_reached, gv_aa, gv_ab, gv_bb, gv_D, gv_ael_calls, gv_col_a, gv_col_b)
/* P1 */
__CPROVER_ensures(((__CPROVER_old(i->second.pst_) & xy_fixed_) != 0 || (__CPROVER_old(i->second.pst_) & active_xy_) == 0) ==>
                  (PT_KEPT(i, *result__p, __CPROVER_old(*result__p), __CPROVER_old(i->second.pst_)) && !gv_reached))
/* P2 */
__CPROVER_ensures(((__CPROVER_old(i->second.pst_) & xy_fixed_) == 0 && (__CPROVER_old(i->second.pst_) & active_xy_) != 0 &&
                   (i->second.ix_ == 0 || i->second.iy_ == 0)) ==> (PT_FLAGGED(i, *result__p) && !gv_reached))
/* P6 */
__CPROVER_ensures(((__CPROVER_old(i->second.pst_) & xy_fixed_) == 0 && (__CPROVER_old(i->second.pst_) & active_xy_) != 0 &&
                   i->second.ix_ != 0 && i->second.iy_ != 0) ==>
                  (gv_reached == 1 && (gv_D < 1e-12 ? PT_FLAGGED(i, *result__p) : PT_KEPT(i, *result__p, __CPROVER_old(*result__p), __CPROVER_old(i->second.pst_)))))
/* P4 */
__CPROVER_ensures(gv_reached ==> (gv_D == gv_D && gv_D <= 1))
/* P5 */
__CPROVER_ensures((gv_reached && (gv_aa == 0 || gv_bb == 0)) ==> PT_FLAGGED(i, *result__p))
/* P7 */
__CPROVER_ensures(gv_reached ==> (gv_ael_calls == 2 * A__p->row_ && (A__p->row_ >= 1 ==> (gv_col_a == i->second.ix_ && gv_col_b == i->second.iy_))))
/* the z status bits and the indices are never touched */
__CPROVER_ensures((i->second.pst_ & active_z_) == (__CPROVER_old(i->second.pst_) & active_z_) && i->second.ix_ == __CPROVER_old(i->second.ix_) && i->second.iy_ == __CPROVER_old(i->second.iy_))
//@ entry LocalNetwork_singular_coords_point
GV_CANARY("LocalNetwork_singular_coords_point entry");
double a, b, aa, ab, bb, D;          /* locals of singular_coords declared in front of the walk */
int indx, indy, r;
//@ loop LocalNetwork_singular_coords_point 1
__CPROVER_assigns(r, a, b, aa, ab, bb, gv_ael_calls, gv_col_a, gv_col_b)
__CPROVER_loop_invariant(1 <= r && r <= A__p->row_ + 1 && gv_ael_calls == 2 * (r - 1) && (r > 1 ==> (gv_col_a == indx && gv_col_b == indy)) &&
                         aa >= 0 && aa <= (double)(r - 1) * SQ_HI && (aa == 0 || aa >= SQ_LO) &&
                         bb >= 0 && bb <= (double)(r - 1) * SQ_HI && (bb == 0 || bb >= SQ_LO) &&
                         ab >= -(double)(r - 1) * SQ_HI && ab <= (double)(r - 1) * SQ_HI)
__CPROVER_decreases((long)A__p->row_ + 1 - r)
//@ at LocalNetwork_singular_coords_point decision
gv_reached++; gv_aa = aa; gv_ab = ab; gv_bb = bb; gv_D = D;
//@ end

//@ harness
static void mk_point(struct Mat *A, struct PDentry *e)
{
  __CPROVER_assume(0 <= A->row_ && A->row_ <= MAXROWS && 0 <= A->col_ && A->col_ <= MAXCOLS);
  __CPROVER_assume(0 <= e->second.ix_ && e->second.ix_ <= A->col_ && 0 <= e->second.iy_ && e->second.iy_ <= A->col_);
  gv_removed_calls = 0; gv_reached = 0; gv_exc = 0; gv_ael_calls = 0;
}
void h_point(void)
{
  struct LocalNetwork N; struct Mat A; struct PDentry e; bool result;
  mk_point(&A, &e);
  LocalNetwork_singular_coords_point(&N, &A, &e, &result);
  GV_CANARY("h_point end");
}
void h_lp_fixed(void) { struct LocalPoint p; bool b = LocalPoint_fixed_xy(&p); GV_CANARY("h_lp_fixed end"); }
void h_lp_active(void) { struct LocalPoint p; bool b = LocalPoint_active_xy(&p); GV_CANARY("h_lp_active end"); }
/* P3: a ghost pair of runs of the real code on the same point.  goto-instrument allows one top-level call of an enforced function,
   so the pair is a wrapper function (harness text, no gama code) whose contract is enforced; the per-point body is called twice as
   ordinary code (its loop contract applied).  The pair is SELECTED by the relation between the column sums the two runs used
   (aa' = aa, bb' = bb, ab' = -ab, bit for bit): antecedent of the postcondition. */
double gv1_aa, gv1_ab, gv1_bb, gv1_D, gv2_aa, gv2_ab, gv2_bb, gv2_D; int gv1_calls, gv2_calls, gv1_reached, gv2_reached;
void gv_symm_pair(struct LocalNetwork *N, const struct Mat *A1, const struct Mat *A2, struct PDentry *e1, struct PDentry *e2, bool *r1, bool *r2)
__CPROVER_requires(__CPROVER_rw_ok(N, sizeof(*N)) && __CPROVER_r_ok(A1, sizeof(*A1)) && __CPROVER_r_ok(A2, sizeof(*A2)) && __CPROVER_rw_ok(e1, sizeof(*e1)) &&
                   __CPROVER_rw_ok(e2, sizeof(*e2)) && __CPROVER_rw_ok(r1, sizeof(bool)) && __CPROVER_rw_ok(r2, sizeof(bool)))
__CPROVER_requires(0 <= A1->row_ && A1->row_ <= MAXROWS && 0 <= A1->col_ && A1->col_ <= MAXCOLS && 0 <= A2->row_ && A2->row_ <= MAXROWS && A2->col_ == A1->col_)
/* the same active free point with both unknowns, the same `result` so far */
__CPROVER_requires(e1->first == e2->first && e1->second.pst_ == e2->second.pst_ && e1->second.ix_ == e2->second.ix_ && e1->second.iy_ == e2->second.iy_ && *r1 == *r2)
__CPROVER_requires((e1->second.pst_ & xy_fixed_) == 0 && (e1->second.pst_ & active_xy_) != 0 && 1 <= e1->second.ix_ && e1->second.ix_ <= A1->col_ && 1 <= e1->second.iy_ && e1->second.iy_ <= A1->col_)
__CPROVER_requires(gv_exc == 0)
__CPROVER_assigns(*r1, *r2, e1->second.pst_, e2->second.pst_, gv_removed_calls, gv_removed_id, gv_removed_rm, gv_reached, gv_aa, gv_ab, gv_bb, gv_D, gv_ael_calls, gv_col_a, gv_col_b,
                  gv1_aa, gv1_ab, gv1_bb, gv1_D, gv2_aa, gv2_ab, gv2_bb, gv2_D, gv1_calls, gv2_calls, gv1_reached, gv2_reached)
__CPROVER_ensures(gv1_reached == 1 && gv2_reached == 1)
__CPROVER_ensures((SAME_BITS(gv2_aa, gv1_aa) && SAME_BITS(gv2_bb, gv1_bb) && SAME_BITS(gv2_ab, -gv1_ab)) ==>
                  (*r1 == *r2 && e1->second.pst_ == e2->second.pst_ && gv1_calls == gv2_calls && SAME_BITS(gv1_D, gv2_D)))
{
  GV_CANARY("gv_symm_pair entry");
  gv_removed_calls = 0; gv_reached = 0; gv_ael_calls = 0;
  LocalNetwork_singular_coords_point(N, A1, e1, r1);
  gv1_aa = gv_aa; gv1_ab = gv_ab; gv1_bb = gv_bb; gv1_D = gv_D; gv1_calls = gv_removed_calls; gv1_reached = gv_reached;
  gv_removed_calls = 0; gv_reached = 0; gv_ael_calls = 0;
  LocalNetwork_singular_coords_point(N, A2, e2, r2);
  gv2_aa = gv_aa; gv2_ab = gv_ab; gv2_bb = gv_bb; gv2_D = gv_D; gv2_calls = gv_removed_calls; gv2_reached = gv_reached;
}
void h_symmetry(void)
{
  struct LocalNetwork N; struct Mat A1, A2; struct PDentry e1, e2; bool r1, r2;
  mk_point(&A1, &e1);
  __CPROVER_assume(0 <= A2.row_ && A2.row_ <= MAXROWS && A2.col_ == A1.col_);
  __CPROVER_assume((e1.second.pst_ & xy_fixed_) == 0 && (e1.second.pst_ & active_xy_) != 0 && e1.second.ix_ != 0 && e1.second.iy_ != 0);
  e2 = e1; r2 = r1;
  gv_symm_pair(&N, &A1, &A2, &e1, &e2, &r1, &r2);
  GV_CANARY("h_symmetry end");
}
//@ end
