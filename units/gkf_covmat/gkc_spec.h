/* Proof vocabulary of unit gkf_covmat: the band of a <cov-mat dim="d" band="b"> in the order the GKF format lists it
   (upper band by rows: (1,1) (1,2) .. (1,1+b) (2,2) ..), its element count, and the two nonlinear facts about that
   count which CBMC cannot decide for symbolic d, b (measured elsewhere in this framework: every back end times out).
   Only specification text lives here: no gama function body.

   LEMMA FUNCTIONS (same idiom as units/matvec_index/matvec_spec.h): a nonlinear fact enters a CBMC check only as the
   contract of a body-less `gv_lemma_*` function (call replaced by its contract: precondition ASSERTED, conclusion
   assumed).  Every lemma declared below is parsed from THIS text by lemmas.py and proved by z3 over mathematical
   integers, unbounded (check "lemmas"); the clause GV_MACHINE_BOUND(...) is the stated dimension bound that makes
   machine arithmetic equal mathematical arithmetic (CBMC overflow obligations on the lemma expressions at every use)
   and is skipped by z3 (so the lemma is proved without it).                                                          */
#ifndef GKC_SPEC_H
#define GKC_SPEC_H

/* stated bound on the dimension of one covariance matrix: the bound under which units/matvec_index verifies the
   CovMat accessors, and under which idim*(iband+1) fits an int (46340 would be the largest such value) */
#define GKC_MAXDIM 32768
#ifndef GV_MACHINE_BOUND
#define GV_MACHINE_BOUND(x) (x)
#endif

/* the element count the FORMAT documents (doc/gama-local.texi, and the property statement): dim*(band+1) - band*(band+1)/2 */
#define GKC_TOTAL(d, b) ((d) * ((b) + 1) - (b) * ((b) + 1) / 2)

/* (r,c) is a position of the upper band of a d x d matrix with band width b */
#define GKC_INBAND(d, b, r, c) (1 <= (r) && (r) <= (d) && (r) <= (c) && (c) <= (r) + (b) && (c) <= (d))
/* the position after (r,c) in the documented order; after the last one: (d+1,d+1) */
#define GKC_NEXT_SAME_ROW(d, b, r, c) ((c) + 1 <= (r) + (b) && (c) + 1 <= (d))

/* number of band positions from (r,c) to the end, in closed form:  m = d-r+1 rows are left;
   rows r.. own b+1 elements each until only b+1 rows are left, which own b+1, b, .., 1 */
#define GKC_M(d, r) ((d) - (r) + 1)
#define GKC_ROWS_REM(d, b, r)                                                                                  \
  (GKC_M(d, r) <= (b) + 1 ? GKC_M(d, r) * (GKC_M(d, r) + 1) / 2                                                \
                          : (GKC_M(d, r) - ((b) + 1)) * ((b) + 1) + ((b) + 1) * ((b) + 2) / 2)
#define GKC_REM_CLOSED(d, b, r, c) (GKC_ROWS_REM(d, b, r) - ((c) - (r)))
#ifdef GKC_REM_OPAQUE
/* CBMC never evaluates the closed form (nonlinear in symbolic d, b, r: no back end decides it).  In the CBMC checks
   r |-> GKC_ROWS_REM(d, b, r) for the ONE matrix of the call (d == gv_tab_d, b == gv_tab_b) is an OPAQUE TABLE with
   arbitrary content, so a CBMC proof that mentions GKC_REM holds for EVERY table that satisfies the lemma instances
   used; z3 (lemmas.py runs cpp on this header alone, without GKC_REM_OPAQUE, which only the prelude of spec.c
   defines) proves that the closed form is such a table.  No function contract of the unit mentions GKC_REM: it only
   occurs in the loop invariant of finish_cov and in the lemma statements. */
/* an extern array of unbounded size that is defined nowhere: CBMC gives it arbitrary content and treats reads with
   its array theory (functional consistency only) -- i.e. an uninterpreted function int -> int, never written */
extern int gv_rows_rem[__CPROVER_constant_infinity_uint];
extern int gv_tab_d, gv_tab_b;
#define GKC_TAB_FOR(d, b) ((d) == gv_tab_d && (b) == gv_tab_b)
#define GKC_REM(d, b, r, c) ((long)gv_rows_rem[r] - ((c) - (r)))
#else
#define GKC_TAB_FOR(d, b) (0 == 0)
#define GKC_REM(d, b, r, c) GKC_REM_CLOSED(d, b, r, c)
#endif

#pragma CPROVER check push
#pragma CPROVER check enable "signed-overflow"
#pragma CPROVER check enable "div-by-zero"
/* the documented count is the number of band positions from (1,1) on.
   This lemma is USED INLINE in finish_cov (GV_INST(hypothesis, conclusion) on the program's own variables, i.e. assert
   the hypothesis, assume the conclusion -- exactly what replacing a call of the lemma function by its contract does):
   passed through a function parameter, idim*(iband+1) would be a second 32-bit multiplier that the SAT solver has to
   prove equivalent to the program's (measured: > 100 s); on the program's variables CBMC shares the expression. */
#define GKC_LEMMA_TOTAL_HYP(d, b) (0 <= (b) && (b) < (d) && GKC_TAB_FOR(d, b))
#define GKC_LEMMA_TOTAL_CONCL(d, b) (GKC_TOTAL(d, b) == GKC_REM(d, b, 1, 1) && GKC_REM(d, b, 1, 1) >= 1)
void gv_lemma_cov_total(int d, int b)
__CPROVER_requires(GV_MACHINE_BOUND(d <= 32768))
__CPROVER_requires(GKC_LEMMA_TOTAL_HYP(d, b))
__CPROVER_assigns()
__CPROVER_ensures(GKC_LEMMA_TOTAL_CONCL(d, b));

/* GKC_REM really counts: at a band position at least that position is left, and stepping to the next position
   (same row, or the diagonal element of the next row) leaves exactly one less; with GKC_REM(d,b,d+1,d+1) == 0
   (lemma cov_end) this determines GKC_REM by induction along the documented order */
void gv_lemma_cov_step(int d, int b, int r, int c)
__CPROVER_requires(GV_MACHINE_BOUND(d <= 32768))
__CPROVER_requires(0 <= b && b < d && 1 <= r && r <= d && r <= c && c <= r + b && c <= d && GKC_TAB_FOR(d, b))
__CPROVER_assigns()
__CPROVER_ensures(GKC_REM(d, b, r, c) >= 1)
__CPROVER_ensures((c + 1 <= r + b && c + 1 <= d) ==> GKC_REM(d, b, r, c + 1) == GKC_REM(d, b, r, c) - 1)
__CPROVER_ensures(!(c + 1 <= r + b && c + 1 <= d) ==> GKC_REM(d, b, r + 1, r + 1) == GKC_REM(d, b, r, c) - 1)
__CPROVER_ensures((r == d && c == d) ==> GKC_REM(d, b, r, c) == 1);

void gv_lemma_cov_end(int d, int b)
__CPROVER_requires(GV_MACHINE_BOUND(d <= 32768))
__CPROVER_requires(0 <= b && b < d && GKC_TAB_FOR(d, b))
__CPROVER_assigns()
__CPROVER_ensures(GKC_REM(d, b, d + 1, d + 1) == 0);
#pragma CPROVER check pop

#endif
