#!/usr/bin/env python3
"""z3 proofs of the gv_lemma_* statements of units/gkf_covmat/gkc_spec.h (check "lemmas" of unit gkf_covmat).

usage: python3-vt lemmas.py <generated C file> <repo>          (both arguments unused: nothing of gama is involved)

Nothing about the band arithmetic is written down here.  The script
  1. runs the C preprocessor over gkc_spec.h, so that the lemma text is exactly what goto-cc compiles (macros GKC_REM,
     GKC_TOTAL, ... expanded); GV_MACHINE_BOUND(x) is kept as a marker and NOT used as a hypothesis;
  2. parses every `void gv_lemma_*(int ..) __CPROVER_requires(..) .. __CPROVER_ensures(..);` declaration with a small
     recursive-descent parser for C integer expressions (+ - * / unary - ! comparisons && || ?: and CBMC's ==>);
  3. proves each ensures clause from the requires clauses over z3 Int (mathematical integers, unbounded).
Every integer division generates the side condition "dividend >= 0 and divisor > 0" under the path condition it is
evaluated in (short-circuit operators and ?: open path conditions); z3 must prove these too, so C's truncating
division and the mathematical floor division agree wherever the lemma text divides.
Output: one line 'LEMMA <name>: proved' / 'LEMMA <name>: FAILED <model>' per obligation.
Exit 0 all proved, 1 some failed, 2 could not translate.
"""
import os
import re
import subprocess
import sys

import z3

HERE = os.path.dirname(os.path.abspath(__file__))


class Untranslatable(Exception):
    pass


TOK = re.compile(r'\s*(?:(\d+)|([A-Za-z_]\w*)|(==>|<=|>=|==|!=|&&|\|\||[-+*/<>!?:(),]))')


def lex(text):
    toks, i = [], 0
    while i < len(text):
        m = TOK.match(text, i)
        if not m:
            if text[i:].strip() == '':
                break
            raise Untranslatable('unexpected character %r' % text[i:i + 20])
        i = m.end()
        if m.group(1):
            toks.append(('num', int(m.group(1))))
        elif m.group(2):
            toks.append(('id', m.group(2)))
        else:
            toks.append(('op', m.group(3)))
    return toks


class Parser:
    """evaluates while parsing; values are z3 Int or Bool terms; self.sides collects (path condition, fact) pairs"""

    def __init__(self, toks, env, pc):
        self.t, self.i, self.env = toks, 0, env
        self.pc = list(pc)
        self.sides = []

    def peek(self):
        return self.t[self.i] if self.i < len(self.t) else ('eof', None)

    def take(self, op=None):
        k = self.peek()
        if op is not None and k != ('op', op):
            raise Untranslatable('expected %r, found %r' % (op, k))
        self.i += 1
        return k

    @staticmethod
    def b(v):
        return v if z3.is_bool(v) else v != 0

    @staticmethod
    def n(v):
        return z3.If(v, z3.IntVal(1), z3.IntVal(0)) if z3.is_bool(v) else v

    def under(self, cond, fn):
        self.pc.append(cond)
        try:
            return fn()
        finally:
            self.pc.pop()

    def implies(self):                       # a ==> b   (right associative, lowest precedence)
        a = self.cond()
        if self.peek() == ('op', '==>'):
            self.take()
            ab = self.b(a)
            r = self.under(ab, self.implies)
            return z3.Implies(ab, self.b(r))
        return a

    def cond(self):                          # a ? x : y
        a = self.lor()
        if self.peek() == ('op', '?'):
            self.take()
            ab = self.b(a)
            x = self.under(ab, self.implies)
            self.take(':')
            y = self.under(z3.Not(ab), self.cond)
            if z3.is_bool(x) and z3.is_bool(y):
                return z3.If(ab, x, y)
            return z3.If(ab, self.n(x), self.n(y))
        return a

    def lor(self):
        a = self.land()
        while self.peek() == ('op', '||'):
            self.take()
            ab = self.b(a)
            r = self.under(z3.Not(ab), self.land)
            a = z3.Or(ab, self.b(r))
        return a

    def land(self):
        a = self.eq()
        while self.peek() == ('op', '&&'):
            self.take()
            ab = self.b(a)
            r = self.under(ab, self.eq)
            a = z3.And(ab, self.b(r))
        return a

    def eq(self):
        a = self.rel()
        while self.peek() in (('op', '=='), ('op', '!=')):
            op = self.take()[1]
            r = self.rel()
            if z3.is_bool(a) and z3.is_bool(r):
                a = (a == r) if op == '==' else (a != r)
            else:
                a = (self.n(a) == self.n(r)) if op == '==' else (self.n(a) != self.n(r))
        return a

    def rel(self):
        a = self.add()
        while self.peek() in (('op', '<'), ('op', '>'), ('op', '<='), ('op', '>=')):
            op = self.take()[1]
            r = self.n(self.add())
            a = self.n(a)
            a = {'<': a < r, '>': a > r, '<=': a <= r, '>=': a >= r}[op]
        return a

    def add(self):
        a = self.mul()
        while self.peek() in (('op', '+'), ('op', '-')):
            op = self.take()[1]
            r = self.n(self.mul())
            a = self.n(a) + r if op == '+' else self.n(a) - r
        return a

    def mul(self):
        a = self.unary()
        while self.peek() in (('op', '*'), ('op', '/')):
            op = self.take()[1]
            r = self.n(self.unary())
            a = self.n(a)
            if op == '*':
                a = a * r
            else:
                # C division truncates, z3 Int division floors: equal iff dividend >= 0 and divisor > 0 -- proved as a side condition
                self.sides.append((list(self.pc), z3.And(a >= 0, r > 0)))
                a = a / r
        return a

    def unary(self):
        k = self.peek()
        if k == ('op', '-'):
            self.take()
            return -self.n(self.unary())
        if k == ('op', '+'):
            self.take()
            return self.n(self.unary())
        if k == ('op', '!'):
            self.take()
            return z3.Not(self.b(self.unary()))
        if k == ('op', '('):
            self.take()
            v = self.implies()
            self.take(')')
            return v
        if k[0] == 'num':
            self.take()
            return z3.IntVal(k[1])
        if k[0] == 'id':
            self.take()
            if self.peek() == ('op', '('):
                raise Untranslatable('call of %s inside a lemma' % k[1])
            if k[1] not in self.env:
                raise Untranslatable('unknown identifier %s' % k[1])
            return self.env[k[1]]
        raise Untranslatable('unexpected token %r' % (k,))


def evaluate(text, env, pc):
    p = Parser(lex(text), env, pc)
    v = p.implies()
    if p.peek()[0] != 'eof':
        raise Untranslatable('trailing tokens in %r' % text)
    return Parser.b(v), p.sides


def balanced(text, i):
    """text[i] == '(' ; index of the matching ')'"""
    depth = 0
    while i < len(text):
        if text[i] == '(':
            depth += 1
        elif text[i] == ')':
            depth -= 1
            if depth == 0:
                return i
        i += 1
    raise Untranslatable('unbalanced parentheses')


RESULTS = []


def check(hyps, goal, timeout_ms):
    s = z3.Solver()
    s.set('timeout', timeout_ms)
    for h in hyps:
        s.add(h)
    s.add(z3.Not(goal))
    r = s.check()
    return r, (s.model() if r == z3.sat else None)


def prove(name, hyps, goal, ints=()):
    """direct attempt first; if z3 gives up (x*(x+1)/2 needs a parity argument), split on the parity of every lemma
    parameter: v == 2k or v == 2k+1 with a fresh k covers all integers, so proving every case proves the lemma"""
    r, model = check(hyps, goal, 10000)
    if r == z3.unknown and ints:
        import itertools
        r = z3.unsat
        for bits in itertools.product((0, 1), repeat=len(ints)):
            case = [v == 2 * z3.Int('half_%s' % v) + bit for v, bit in zip(ints, bits)]
            rc, model = check(hyps + case, goal, 60000)
            if rc != z3.unsat:
                r = rc
                break
    if r == z3.unsat:
        print('LEMMA %s: proved' % name)
        RESULTS.append(True)
    else:
        why = str(model) if r == z3.sat else 'unknown (z3 gave up)'
        print('LEMMA %s: FAILED %s' % (name, ' '.join(why.split())))
        RESULTS.append(False)


def main():
    hdr = os.path.join(HERE, 'gkc_spec.h')
    cp = subprocess.run(['cpp', '-P', '-DGV_MACHINE_BOUND(x)=GV_MB(x)', hdr], stdout=subprocess.PIPE, stderr=subprocess.PIPE, text=True)
    if cp.returncode != 0:
        raise Untranslatable('cpp failed: ' + cp.stderr[-300:])
    text = re.sub(r'(?m)^\s*#pragma[^\n]*\n', '', cp.stdout)
    nlem = 0
    for m in re.finditer(r'\bvoid\s+(gv_lemma_\w+)\s*\(([^)]*)\)', text):
        name = m.group(1)
        params = []
        for p in m.group(2).split(','):
            w = re.findall(r'\w+', p)
            if len(w) != 2 or w[0] != 'int':
                raise Untranslatable('lemma %s: parameter %r is not a plain int' % (name, p))
            params.append(w[1])
        env = {p: z3.Int(name[9:] + '_' + p) for p in params}
        j = m.end()
        hyps, goals = [], []
        while True:
            mm = re.compile(r'\s*(__CPROVER_\w+)\s*\(').match(text, j)
            if not mm:
                break
            k = balanced(text, mm.end() - 1)
            kind, body = mm.group(1), text[mm.end():k]
            j = k + 1
            if kind == '__CPROVER_requires':
                if re.match(r'\s*GV_MB\s*\(', body):
                    continue                   # machine-arithmetic bound: NOT a hypothesis of the mathematical proof
                h, sides = evaluate(body, env, [])
                for n_, (pc, fact) in enumerate(sides, 1):
                    prove('%s.requires.division_is_exact_and_defined.%d' % (name, n_), hyps + pc, fact, list(env.values()))
                hyps.append(h)
            elif kind == '__CPROVER_ensures':
                goals.append(body)
            elif kind != '__CPROVER_assigns':
                raise Untranslatable('clause %s in lemma %s' % (kind, name))
        if not re.match(r'\s*;', text[j:]):
            raise Untranslatable('lemma %s is not a body-less declaration' % name)
        if not goals:
            raise Untranslatable('lemma %s has no ensures clause' % name)
        for n_, g in enumerate(goals, 1):
            goal, sides = evaluate(g, env, [])
            for s_, (pc, fact) in enumerate(sides, 1):
                prove('%s.ensures.%d.division_is_exact_and_defined.%d' % (name, n_, s_), hyps + pc, fact, list(env.values()))
            prove('%s.ensures.%d' % (name, n_), hyps, goal, list(env.values()))
        nlem += 1
    if nlem < 3:
        raise Untranslatable('only %d gv_lemma declarations found in gkc_spec.h' % nlem)
    return 0 if all(RESULTS) else 1


if __name__ == '__main__':
    try:
        sys.exit(main())
    except Untranslatable as e:
        print('lemmas.py: cannot translate: %s' % e)
        sys.exit(2)
