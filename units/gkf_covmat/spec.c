/* Sidecar contracts for the covariance-matrix accumulator of the GKF input parser (property C11):
     GKFparser::process_cov(const char** atts)    <cov-mat dim=".." band=".."> opened       (lib/gnu_gama/xml/gkfparser.cpp)
     GKFparser::finish_cov(CovMat& cov_mat)       the collected text is turned into the band of cov_mat
     CoreParser::error                            (lib/gnu_gama/xml/baseparser.cpp; same contract as units/gkf_automaton,
                                                   plus the return value the callers hand on)
   Only contracts, ghost state, callee stubs and harnesses live here; every body under contract is extracted from
   /repo on every run.  Enumerator values come from gkf_enums.h (pre hook gen_enums.py), the band arithmetic and its
   z3-proved lemmas from gkc_spec.h.

   std::string is lowered to a small C model:
     cov_mat_data            -> the two byte pointers self->cov_mat_data_b / _e  (begin(), end()); ="" sets end = begin
     local `string w`        -> a length counter (size_t); w += *i reads the byte (checked) and counts it
     nam/val/sdim/sband      -> const char* values that are only copied, compared with literals and handed to toIndex */

//@ prelude
#include <limits.h>
#include "gkf_enums.h"
#define GKC_REM_OPAQUE 1 /* CBMC sees r |-> GKC_ROWS_REM(d,b,r) as an opaque table, see gkc_spec.h */
#include "gkc_spec.h"
typedef void *XML_Parser;
typedef const char *GKC_string;

/* the data members of CoreParser / GKFparser that the accumulator reads or writes */
struct GKFparser {
  XML_Parser parser;
  int  state;               /* CoreParser::state                                  */
  int  errLineNumber;       /* CoreParser::errLineNumber                          */
  int  errCode;             /* CoreParser::errCode: 0 = no error recorded         */
  int  idim, iband;         /* GKFparser::idim, iband: announced dimension / band; idim == 0 <=> no <cov-mat> pending */
  const char *cov_mat_data_b;   /* GKFparser::cov_mat_data (std::string) as [begin, end) */
  const char *cov_mat_data_e;
};
/* CovMat seen from the parser: the dimension and band it was reset to (its storage and accessors: units/matvec_index) */
struct GKC_CovMat { int dim, band; };

int gv_exc;
unsigned long gv_line;          /* ghost: the line expat is at during this handler call, >= 1 */
static unsigned long XML_GetCurrentLineNumber(XML_Parser p) { (void)p; return gv_line; }
static void GKC_errString_assign(struct GKFparser *self) { (void)self; }     /* errString = std::string(text) */

#define GKF_SELF_OK(p) __CPROVER_rw_ok((p), sizeof(struct GKFparser))
#define GKF_STATE_OK(s) (0 <= (s) && (s) <= state_stop)
#define GKF_INV(p) ((p)->errCode == 0 || (p)->state == state_error)
#define GKF_DIAG(p) ((p)->errCode != 0 && (p)->errLineNumber == (int)gv_line)
#define GKF_LINE_OK (gv_line >= 1 && gv_line <= (unsigned long)INT_MAX)

/* class invariant of the accumulator BETWEEN clusters: no covariance matrix is pending.  GKFparser's constructor
   establishes it (idim = 0, cov_mat_data default constructed); only process_obs clears idim again, process_hdiffs /
   process_coords / process_vectors rely on it: a stale idim makes finish_hdiffs read a covariance matrix that the
   document never supplied, a stale cov_mat_data prepends the previous cluster's numbers to the next matrix. */
#define GKC_IDLE(p) ((p)->idim == 0 && (p)->cov_mat_data_b == (p)->cov_mat_data_e)
/* announced dimensions are usable: what process_cov must leave when it accepts, what finish_cov needs */
#define GKC_DIMS_OK(p) (1 <= (p)->idim && 0 <= (p)->iband && (p)->iband < (p)->idim)
/* the string model is a byte range of one live object */
#define GKC_STR_OK(p) (SAME((p)->cov_mat_data_b, (p)->cov_mat_data_e) &&                                      \
                       0 <= OFF((p)->cov_mat_data_b) && OFF((p)->cov_mat_data_b) <= OFF((p)->cov_mat_data_e) && \
                       __CPROVER_r_ok((p)->cov_mat_data_b, OFF((p)->cov_mat_data_e) - OFF((p)->cov_mat_data_b)))

/* ---- <cctype> isspace: ANY classification of the 384 admissible arguments, but a function (the same answer for
   the same byte during one call); the argument must be inside the glibc table domain -128 .. 255 ---------------- */
struct gv_ctype_tab { bool t[384]; };
struct gv_ctype_tab gv_space;
static int gv_isspace(int c)
{
  __CPROVER_assert(c >= -128 && c <= 255, "isspace argument inside the classifier table");
  return gv_space.t[c + 128];
}

/* ---- ghost state of one finish_cov call ------------------------------------------------------------------------ */
int gv_tab_d, gv_tab_b;
int gv_total;                 /* number of elements the announced band holds                                         */
int gv_words;                 /* white-space separated words found in cov_mat_data so far                            */
int gv_writes;                /* elements stored into the matrix so far                                              */
int gv_td_failed;             /* some word was refused by toDouble                                                   */
int gv_scan_done;             /* the scan loop ended (at the end of the data)                                        */
int gv_exp_row, gv_exp_col;   /* SPEC: the band position the next element belongs to (documented order)              */
int gv_state0, gv_errline0;   /* state / errLineNumber at entry                                                      */

/* CoreParser::toDouble(const string&, double&): true and a value, or false and d untouched (baseparser.cpp:85);
   which words are numbers is decided in unit intfloat -- here: any answer */
static bool GKC_toDouble(const struct GKFparser *self, size_t w, double *d)
{
  bool ok;
  double v;
  (void)self;
  __CPROVER_assert(w > 0, "toDouble is only asked about non-empty words");
  if (ok) *d = v; else gv_td_failed = 1;
  return ok;
}
/* w += *i */
static void GKC_push_back(size_t *w, char c) { (void)c; *w = *w + 1; }
/* cov_mat_data = "" */
static void GKC_string_clear(struct GKFparser *self) { self->cov_mat_data_e = self->cov_mat_data_b; }

/* CovMat::reset(d, b): precondition = representation invariant WF_COV of units/matvec_index/matvec_spec.h */
static void GKC_CovMat_reset(struct GKC_CovMat *m, int d, int b)
{
  __CPROVER_assert(0 <= b && b < d && d <= GKC_MAXDIM, "CovMat::reset(d,b) is given 0 <= b < d <= 2^15 (WF_COV: what the CovMat accessors are verified under)");
  m->dim = d;
  m->band = b;
}
/* Float& CovMat::operator()(r, c) = v: precondition EXACTLY "inside the stored band" (covmat.h:145 throws BadIndex
   outside it, which nobody catches between expat's C frames; its body is verified in units/matvec_index).
   The SPEC side (gv_exp_*) walks the band in the documented order, so "each position exactly once" is checked too. */
static void GKC_CovMat_set(struct GKC_CovMat *m, int r, int c, double v)
{
  (void)v;
  __CPROVER_assert(GKC_INBAND(m->dim, m->band, r, c), "CovMat::operator()(row,col): 1 <= row <= col <= min(row+band, dim), inside the band");
  __CPROVER_assert(r == gv_exp_row && c == gv_exp_col, "elements are stored in the documented order: every band position exactly once");
  if (GKC_NEXT_SAME_ROW(m->dim, m->band, r, c)) gv_exp_col = c + 1;
  else { gv_exp_row = r + 1; gv_exp_col = r + 1; }
  gv_writes = gv_writes + 1;
}

/* ---- process_cov: attribute strings ---------------------------------------------------------------------------- */
static const char gv_empty_str[1] = "";
#define GKC_EMPTY gv_empty_str                     /* a default constructed std::string */
#define GKC_MAXATTS 1024
const char **gv_atts0;                             /* ghost: the attribute vector expat handed over */
int gv_natts;                                      /* ghost: number of name/value pairs in it       */
/* expat's protocol for `atts`: name, value, name, value, ..., NULL -- all entries before the terminator non-null */
#define GKC_ATTS_OK(a) (0 <= gv_natts && gv_natts <= GKC_MAXATTS && OFF(a) == 0 &&                            \
                        __CPROVER_r_ok((a), (2 * (size_t)gv_natts + 1) * sizeof(char *)) && (a)[2 * gv_natts] == NULL)
#define PSZ ((long)sizeof(char *))
/* std::string(const char*) */
static GKC_string GKC_string_of(const char *p)
{
  __CPROVER_assert(p != NULL, "std::string(const char*) is given a non-null pointer");
  return p;
}
/* s == "literal": exact for a string that was never assigned, any answer otherwise */
static bool GKC_streq(GKC_string s, const char *lit)
{
  bool any;
  if (s == GKC_EMPTY) return lit[0] == 0;
  return any;
}
#define GKC_isNegative(i) ((i) < 0)               /* lib/matvec/unsigned.h:31, Index = int */
/* CoreParser::toIndex(const string&, int&) (baseparser.cpp:114): false and index untouched, or true and
   index = static_cast<int>(atof(..)) -- ANY int (white space and digits only, but "99999999999" is such a string).
   Exclusion predicate of the finding "the announced dimension is not bounded": the converted value is <= 2^15. */
int gv_ti_n;                   /* ghost: successful toIndex conversions of this call, their targets and values */
int *gv_ti_target[2];
int gv_ti_val[2];
static bool GKC_toIndex(const struct GKFparser *self, GKC_string s, int *index)
{
  bool ok;
  int v;
  (void)self; (void)s;
  if (ok) {
    if (gv_ti_n >= 0 && gv_ti_n < 2) { gv_ti_target[gv_ti_n] = index; gv_ti_val[gv_ti_n] = v; }
    if (gv_ti_n < 1000) gv_ti_n = gv_ti_n + 1;
  }
#ifdef GV_EXCL_COV_DIM_UNBOUNDED
  __CPROVER_assume(v <= GKC_MAXDIM);
#endif
  if (ok) *index = v;
  return ok;
}

int GKC_error(struct GKFparser *self);
//@ end

/* ------------------------------------------------------------------------------------------------ */
/* CoreParser::error: first error wins, the error state is entered, the line comes from expat, returns 1 */
//@ contract GKC_error
__CPROVER_requires(GKF_SELF_OK(self))
__CPROVER_requires(GKF_INV(self))
__CPROVER_requires(GKF_LINE_OK)
__CPROVER_assigns(self->state, self->errCode, self->errLineNumber)
__CPROVER_ensures(__CPROVER_return_value == 1)
__CPROVER_ensures(self->state == state_error)
__CPROVER_ensures(self->errCode != 0)
__CPROVER_ensures(__CPROVER_old(self->errCode) != 0 ==>
                  (self->errCode == __CPROVER_old(self->errCode) &&
                   self->errLineNumber == __CPROVER_old(self->errLineNumber)))
__CPROVER_ensures(__CPROVER_old(self->errCode) == 0 ==> self->errLineNumber == (int)gv_line)
//@ entry GKC_error
GV_CANARY("GKC_error entry");
//@ end

/* ------------------------------------------------------------------------------------------------ */
/* process_cov: <cov-mat dim band> is accepted with usable dimensions, or refused with a located diagnostic.
   Reads of the attribute vector stay inside it.                                                       */
//@ contract GKC_process_cov
__CPROVER_requires(GKF_SELF_OK(self))
__CPROVER_requires(self->errCode == 0 && self->state != state_error && GKF_LINE_OK)
__CPROVER_requires(GKC_ATTS_OK(atts) && gv_atts0 == atts && gv_ti_n == 0)
__CPROVER_assigns(self->state, self->errCode, self->errLineNumber, self->idim, self->iband, gv_state0, gv_errline0,
                  gv_ti_n, gv_ti_target[0], gv_ti_target[1], gv_ti_val[0], gv_ti_val[1])
__CPROVER_ensures(__CPROVER_return_value == 0 || __CPROVER_return_value == 1)
/* accepted: nothing recorded, the automaton is not moved, and the dimensions are those of a band matrix */
__CPROVER_ensures(__CPROVER_return_value == 0 ==>
                  (self->errCode == 0 && self->state == __CPROVER_old(self->state) &&
                   self->errLineNumber == __CPROVER_old(self->errLineNumber) && GKC_DIMS_OK(self)))
/* ... which are the two numbers toIndex converted, one into idim and one into iband */
__CPROVER_ensures(__CPROVER_return_value == 0 ==>
                  (gv_ti_n == 2 &&
                   ((gv_ti_target[0] == &self->idim && gv_ti_target[1] == &self->iband &&
                     self->idim == gv_ti_val[0] && self->iband == gv_ti_val[1]) ||
                    (gv_ti_target[0] == &self->iband && gv_ti_target[1] == &self->idim &&
                     self->iband == gv_ti_val[0] && self->idim == gv_ti_val[1]))))
/* ... whose element count idim*(iband+1) fits an int (finish_cov and CovMat::reset compute it in int); exact criterion,
   no overflow on the specification side: for positive ints  idim*(iband+1) <= INT_MAX  <=>  idim <= INT_MAX/(iband+1) */
__CPROVER_ensures(__CPROVER_return_value == 0 ==> self->idim <= 2147483647 / (self->iband + 1))
/* refused: located diagnostic */
__CPROVER_ensures(__CPROVER_return_value != 0 ==> (self->state == state_error && GKF_DIAG(self)))
//@ entry GKC_process_cov
GV_CANARY("GKC_process_cov entry");
gv_state0 = self->state;
gv_errline0 = self->errLineNumber;
//@ loop GKC_process_cov 1
__CPROVER_assigns(atts, nam, val, sdim, sband, self->state, self->errCode, self->errLineNumber)
__CPROVER_loop_invariant(SAME(atts, gv_atts0) && 0 <= OFF(atts) && OFF(atts) <= 2 * PSZ * gv_natts &&
                         OFF(atts) % (2 * PSZ) == 0 &&
                         self->errCode == 0 && self->state == gv_state0 &&
                         self->errLineNumber == gv_errline0)
__CPROVER_decreases(2 * PSZ * gv_natts - OFF(atts))
//@ head GKC_process_cov 1
/* expat: every entry before the terminator is a non-null C string; instantiated at the value slot of this pair */
GV_INST(OFF(atts) + PSZ < 2 * PSZ * gv_natts, atts[1] != NULL);
//@ end

/* ------------------------------------------------------------------------------------------------ */
/* finish_cov: the collected text becomes the band of cov_mat.                                         */
//@ contract GKC_finish_cov
__CPROVER_requires(GKF_SELF_OK(self) && __CPROVER_rw_ok(cov_mat, sizeof(struct GKC_CovMat)))
__CPROVER_requires(self->errCode == 0 && self->state != state_error && GKF_LINE_OK)
__CPROVER_requires(GKC_DIMS_OK(self) && self->idim <= GKC_MAXDIM && GKC_TAB_FOR(self->idim, self->iband))
__CPROVER_requires(GKC_STR_OK(self))
__CPROVER_requires(gv_words == 0 && gv_writes == 0 && gv_td_failed == 0 && gv_scan_done == 0 &&
                   gv_exp_row == 1 && gv_exp_col == 1)
__CPROVER_assigns(self->state, self->errCode, self->errLineNumber, self->idim, self->cov_mat_data_e,
                  __CPROVER_object_whole(cov_mat), gv_total, gv_words, gv_writes, gv_td_failed, gv_scan_done,
                  gv_exp_row, gv_exp_col, gv_state0, gv_errline0)
__CPROVER_ensures(__CPROVER_return_value == 0 || __CPROVER_return_value == 1)
/* the matrix is dimensioned as announced */
__CPROVER_ensures(cov_mat->dim == __CPROVER_old(self->idim) && cov_mat->band == __CPROVER_old(self->iband))
/* E1 refused => located diagnostic */
__CPROVER_ensures(__CPROVER_return_value != 0 ==> (self->state == state_error && GKF_DIAG(self)))
/* E2 accepted => nothing recorded, automaton not moved */
__CPROVER_ensures(__CPROVER_return_value == 0 ==>
                  (self->errCode == 0 && self->state == __CPROVER_old(self->state) &&
                   self->errLineNumber == __CPROVER_old(self->errLineNumber)))
/* E3 accepted => exactly dim*(band+1) - band*(band+1)/2 elements were stored (each band position once, in order:
      asserted store by store in GKC_CovMat_set), every word of the text became one, and all of the text was read */
/*    gv_total is the ghost the entry block below sets to GKC_TOTAL(idim, iband), the documented count.  (Restating that
      here as `gv_total == GKC_TOTAL(old idim, old iband)` is a 32-bit multiplier equivalence CBMC needs > 100 s for.) */
__CPROVER_ensures(__CPROVER_return_value == 0 ==>
                  (gv_writes == gv_total && gv_words == gv_total && gv_td_failed == 0 && gv_scan_done == 1 &&
                   gv_exp_row == __CPROVER_old(self->idim) + 1))
/* E4 refused only for a reason: malformed element, one element too many, or too few when the text is exhausted
      (documents that follow the format are accepted) */
__CPROVER_ensures(__CPROVER_return_value != 0 ==>
                  (gv_td_failed == 1 || (gv_writes == gv_total && gv_words == gv_total + 1) ||
                   (gv_scan_done == 1 && gv_writes < gv_total)))
/* E5 accepted => "no covariance matrix pending" is re-established for the next cluster */
__CPROVER_ensures(__CPROVER_return_value == 0 ==> GKC_IDLE(self))
//@ entry GKC_finish_cov
GV_CANARY("GKC_finish_cov entry");
gv_total = GKC_TOTAL(self->idim, self->iband);
gv_state0 = self->state;
gv_errline0 = self->errLineNumber;
//@ loop GKC_finish_cov 1
__CPROVER_assigns(i, row, col, elements, gv_words, gv_writes, gv_td_failed, gv_exp_row, gv_exp_col,
                  self->state, self->errCode, self->errLineNumber)
__CPROVER_loop_invariant(SAME(i, self->cov_mat_data_b) && OFF(self->cov_mat_data_b) <= OFF(i) && OFF(i) <= OFF(self->cov_mat_data_e) &&
                         ((GKC_INBAND(self->idim, self->iband, row, col) && elements == GKC_REM(self->idim, self->iband, row, col)) ||
                          (row == self->idim + 1 && col == row && elements == 0)) &&
                         0 <= elements && elements <= gv_total && gv_writes == gv_total - elements &&
                         gv_exp_row == row && gv_exp_col == col && gv_words == gv_writes && gv_td_failed == 0 &&
                         self->errCode == 0 && self->state == gv_state0 && self->errLineNumber == gv_errline0)
__CPROVER_decreases(OFF(self->cov_mat_data_e) - OFF(i))
//@ post GKC_finish_cov 1
__CPROVER_assert(i == self->cov_mat_data_e, "the scan stops only at the end of the collected text");
gv_scan_done = 1;
/* a band position always has at least itself left: elements == 0 is reached only behind the last one */
if (GKC_INBAND(self->idim, self->iband, row, col)) gv_lemma_cov_step(self->idim, self->iband, row, col);
//@ pre GKC_finish_cov 2
const char *gv_i2 = i;
//@ loop GKC_finish_cov 2
__CPROVER_assigns(i)
__CPROVER_loop_invariant(SAME(i, self->cov_mat_data_b) && OFF(gv_i2) <= OFF(i) && OFF(i) <= OFF(self->cov_mat_data_e))
__CPROVER_decreases(OFF(self->cov_mat_data_e) - OFF(i))
//@ pre GKC_finish_cov 3
const char *gv_i3 = i;
//@ loop GKC_finish_cov 3
__CPROVER_assigns(i, w)
__CPROVER_loop_invariant(SAME(i, self->cov_mat_data_b) && OFF(gv_i3) <= OFF(i) && OFF(i) <= OFF(self->cov_mat_data_e) &&
                         w == (size_t)(OFF(i) - OFF(gv_i3)))
__CPROVER_decreases(OFF(self->cov_mat_data_e) - OFF(i))
//@ at GKC_finish_cov total
/* lemma gv_lemma_cov_total (gkc_spec.h, proved by z3) instantiated on the program's own variables */
GV_INST(self->idim <= GKC_MAXDIM && GKC_LEMMA_TOTAL_HYP(self->idim, self->iband),
        GKC_LEMMA_TOTAL_CONCL(self->idim, self->iband));
//@ at GKC_finish_cov word
if (w != 0) gv_words = gv_words + 1;      /* placed in front of `if (w.size())`: a non-empty word was found */
//@ at GKC_finish_cov store
gv_lemma_cov_step(self->idim, self->iband, row, col);
//@ end

/* ------------------------------------------------------------------------------------------------ */
//@ harness
#define GKC_STATIC_FACTS \
  __CPROVER_assert(state_error == 0, "state_error is 0 (BaseParser::xml_parse tests state == 0, CoreParser::error assigns 0)")

static void mk_parser(struct GKFparser *P)
{
  struct GKFparser any;
  struct gv_ctype_tab anytab;
  *P = any;
  gv_space = anytab;                       /* any classification of the bytes, fixed for the call */
  __CPROVER_assume(GKF_STATE_OK(P->state));
  __CPROVER_assume(GKF_LINE_OK);
}

void h_error(void)
{
  struct GKFparser P;
  GKC_STATIC_FACTS;
  __CPROVER_assume(GKF_INV(&P));
  __CPROVER_assume(GKF_LINE_OK);
  GKC_error(&P);
  GV_CANARY("h_error end");
}

void h_process_cov(void)
{
  struct GKFparser P;
  int n;
  GKC_STATIC_FACTS;
  mk_parser(&P);
  __CPROVER_assume(P.state != state_error && P.errCode == 0);      /* any idim, iband, cov_mat_data */
  __CPROVER_assume(0 <= n && n <= GKC_MAXATTS);
  const char **atts = malloc((2 * (size_t)n + 1) * sizeof(char *));
  __CPROVER_assume(atts != NULL);
  atts[2 * n] = NULL;                                              /* expat's terminator */
  gv_natts = n;
  gv_atts0 = atts;
  gv_ti_n = 0;
  int r = GKC_process_cov(&P, atts);
  __CPROVER_assert(r != 0 || GKC_DIMS_OK(&P), "accepted <cov-mat>: 1 <= dim, 0 <= band < dim");
  GV_CANARY("h_process_cov end");
}

void h_finish_cov(void)
{
  struct GKFparser P;
  struct GKC_CovMat M;
  size_t n;
  GKC_STATIC_FACTS;
  mk_parser(&P);
  __CPROVER_assume(P.state != state_error && P.errCode == 0);
  __CPROVER_assume(GKC_DIMS_OK(&P) && P.idim <= GKC_MAXDIM);
#ifdef GV_DIM_MAX
  __CPROVER_assume(P.idim <= GV_DIM_MAX);
#endif
  gv_tab_d = P.idim; gv_tab_b = P.iband;   /* gv_rows_rem is the opaque table of THIS matrix */
  char *text = malloc(n);                  /* the collected character data: any bytes, any length (0: empty object) */
  __CPROVER_assume(text != NULL);
  P.cov_mat_data_b = text;
  P.cov_mat_data_e = text + n;
  gv_words = 0; gv_writes = 0; gv_td_failed = 0; gv_scan_done = 0; gv_exp_row = 1; gv_exp_col = 1;
  int w_dim = P.idim, w_band = P.iband;    /* witness variables for replay */
  int r = GKC_finish_cov(&P, &M);
  /* the invariant once more at the call site: after an accepted matrix a cluster without <cov-mat> sees none */
  __CPROVER_assert(r != 0 || (P.idim == 0 && P.cov_mat_data_b == P.cov_mat_data_e),
                   "after an accepted <cov-mat> no covariance matrix is pending (idim == 0, cov_mat_data empty)");
  GV_CANARY("h_finish_cov end");
}
//@ end
