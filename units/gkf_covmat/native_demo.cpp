// Native demonstration of the finding of unit gkf_covmat (check process_cov, obligation "idim <= GKC_MAXDIM") on the
// real GKFparser (not part of any check).  Build: the source list is "replay_sources" of units/gkf_automaton/unit.json:
//   g++ -std=c++14 -g -fsanitize=address,undefined -I/repo/lib native_demo.cpp <replay_sources> -o native_demo
//   ./native_demo 2 1            accepted (control)
//   ./native_demo 70000 69999    observed: signed integer overflow 70000*70000 at gkfparser.cpp:1222 and covmat.h:120
//                                (UBSan), then SEGV in CovMat::cholDec (covmat.h:189) called from finish_obs (:1048);
//                                the released gama-local binary dies with SIGSEGV (exit 139) on the same document
//   ./native_demo 46341 46340    smallest dimension whose element count overflows int
// expected: refused with an error that names line 9 (or accepted and dimensioned correctly).
#include <cstdio>
#include <sstream>
#include <string>
#include <gnu_gama/local/network.h>
#include <gnu_gama/xml/gkfparser.h>
#include <gnu_gama/local/language.h>
using namespace GNU_gama::local;

int main(int argc, char** argv)
{
  if (argc != 3) { std::fprintf(stderr, "usage: native_demo <dim> <band>\n"); return 2; }
  set_gama_language(en);
  std::string doc =
    "<?xml version=\"1.0\" ?>\n"
    "<gama-local xmlns=\"http://www.gnu.org/software/gama/gama-local\">\n"
    "<network>\n"
    "<points-observations>\n"
    "<point id=\"A\" x=\"0\" y=\"0\" fix=\"xy\"/>\n"
    "<point id=\"B\" adj=\"xy\"/>\n"
    "<point id=\"C\" adj=\"xy\"/>\n"
    "<obs from=\"A\"><distance to=\"B\" val=\"14.1\" stdev=\"1\"/><distance to=\"C\" val=\"28.3\" stdev=\"1\"/>\n"
    "<cov-mat dim=\"" + std::string(argv[1]) + "\" band=\"" + std::string(argv[2]) + "\">1 0 1</cov-mat>\n"
    "</obs>\n"
    "<obs from=\"B\"><distance to=\"C\" val=\"14.1\" stdev=\"1\"/></obs>\n"
    "</points-observations>\n"
    "</network>\n"
    "</gama-local>\n";
  LocalNetwork lnet;
  GKFparser gkf(lnet);
  try {
    std::istringstream in(doc);
    std::string line;
    while (std::getline(in, line)) { line += '\n'; gkf.xml_parse(line.c_str(), (int)line.size(), 0); }
    gkf.xml_parse("", 0, 1);
    std::printf("accepted\n");
  }
  catch (const ParserException& e) { std::printf("refused: line %d : %s\n", e.line, e.what()); return 3; }
  return 0;
}
