/* UNUSED DRAFT (not read by the extractor; the unit uses spec.c).  Transpose contracts extended by the clauses
   T4 (ghost entry (r0,g,v) of the input is stored as (g,r0,v) at gv_j0 inside row g of the result) and T5 (column
   indices of the result lie in [1,rows_]), with a second ghost column h, the placement assertion D at the named
   injection point `place` (unit.json: "inject": [["tcind\\[j\\] = r;", "place"]]) and a -DGV_T45 switch.
   Status: the generated formula exhausts 24 GB (and 34 GB) in CBMC's propositional reduction even with
   GV_T45=0, HIN=0 and the injection compiled out; the cause was not isolated.  Kept for a later round. */
/* Sidecar contracts for lib/gnu_gama/sparse/smatrix.h  (SparseMatrix<double,int>, the only instantiation in
   gama: network.cpp, adj_input_data.h, homogenization.h, dataparser_adj.cpp, g3_model_linearization.cpp).
   Only contracts, ghost declarations and harnesses live here; bodies are extracted from /repo on every run. */

//@ prelude
#include <string.h>
#include <limits.h>
typedef double Float;
typedef int Index;
#define FSZ ((long)sizeof(Float))
#define ISZ ((long)sizeof(Index))
#define MAXIDX 2147483643         /* INT_MAX-4: transpose allocates cols_+4 row pointers (int arithmetic) */
#define MAXNNZ 1000000000L        /* capacity bound (stated precondition): 2*ncnt_ must not overflow int */

struct SparseMatrix {
  Index  rows_, cols_;
  Float *nonz;
  Index *cind;
  Index *rptr;
  Index *rptr1;
  Index  rcnt_, rnxt_, ncnt_;
  long   gv_cap;   /* ghost: number of elements allocated for nonz and for cind (the object does not store it) */
  long   gv_rsz;   /* ghost: number of Index slots allocated for rptr */
};

/* CBMC 6.11: memcpy's library model (array_copy/array_replace through a char[n] temporary) does not propagate values
   into or out of objects that malloc typed as T[k] (allocation size written k*sizeof(T)) -- measured: spurious
   "not copied" for int and double alike, while byte-typed objects (size written k*sz with sz a variable) work.  The
   checks that run memcpy (-DGV_UNTYPED=1) therefore allocate byte-typed objects; this changes no behaviour, only
   CBMC's internal object type. */
_Static_assert(sizeof(Float) == 8 && sizeof(Index) == 4, "element sizes");
#define GV_SZ_Float 8ul     /* literals, NOT sizeof: a sizeof-annotated factor makes CBMC type the object */
#define GV_SZ_Index 4ul
#if GV_UNTYPED
#undef GV_NEW
#define GV_NEW(T, n) ((T *)gv_new((size_t)(n) * GV_SZ_##T))
#define GV_ALLOC(T, n) ((T *)malloc((size_t)(n) * GV_SZ_##T))
#else
#define GV_ALLOC(T, n) ((T *)malloc((size_t)(n) * sizeof(T)))
#endif

#ifdef GV_BOUNDED
#define GV_CANARY_U(tag) ((void)0)     /* function not reached by the bounded harness: no reachability canary */
#else
#define GV_CANARY_U(tag) GV_CANARY(tag)
#endif
int   gv_exc;
Index gv_r0;     /* ghost row index    (forall-introduction / -elimination over rows)    */
Index gv_e0;     /* ghost entry index  (forall-introduction / -elimination over entries) */

/* equality of stored values; memcpy / assignment keep NaNs NaN */
#define FEQ(a, b) ((a) == (b) || ((a) != (a) && (b) != (b)))

/* Well-formedness, quantifier-free part.  The real row base is 1: row r occupies [rptr[r], rptr[r+1]),
   rptr[0] is never written by the class, rptr1 == rptr+1.  rows_ is the declared number of rows, rcnt_ the
   number of rows started so far by new_row(); rnxt_ == rcnt_+1 always. */
#define WF_SHAPE(S)                                                                                       \
  ((S)->rows_ >= 0 && (S)->rows_ <= MAXIDX && (S)->cols_ >= 0 && (S)->cols_ <= MAXIDX &&                  \
   0 <= (S)->rcnt_ && (S)->rcnt_ <= (S)->rows_ && (S)->rnxt_ == (S)->rcnt_ + 1 &&                         \
   0 <= (S)->ncnt_ && (S)->ncnt_ <= (S)->gv_cap && (S)->gv_cap <= MAXNNZ &&                               \
   (S)->gv_rsz >= (long)(S)->rows_ + 2 && (S)->gv_rsz <= (long)MAXIDX + 4 &&                              \
   __CPROVER_rw_ok((S)->nonz, (S)->gv_cap * sizeof(Float)) &&                                             \
   __CPROVER_rw_ok((S)->cind, (S)->gv_cap * sizeof(Index)) &&                                             \
   __CPROVER_rw_ok((S)->rptr, (S)->gv_rsz * sizeof(Index)) &&                                             \
   SAME((S)->rptr1, (S)->rptr) && OFF((S)->rptr1) == OFF((S)->rptr) + ISZ &&                              \
   ((S)->rcnt_ == 0 ? (S)->ncnt_ == 0 : ((S)->rptr[1] == 0 && (S)->rptr[(S)->rcnt_ + 1] == (S)->ncnt_)))

/* the same without the last conjunct (first and last row pointer) */
#define WF_SHAPE_BUT_LAST(S)                                                                              \
  ((S)->rows_ >= 0 && (S)->rows_ <= MAXIDX && (S)->cols_ >= 0 && (S)->cols_ <= MAXIDX &&                  \
   0 <= (S)->rcnt_ && (S)->rcnt_ <= (S)->rows_ && (S)->rnxt_ == (S)->rcnt_ + 1 &&                         \
   0 <= (S)->ncnt_ && (S)->ncnt_ <= (S)->gv_cap && (S)->gv_cap <= MAXNNZ &&                               \
   (S)->gv_rsz >= (long)(S)->rows_ + 2 && (S)->gv_rsz <= (long)MAXIDX + 4 &&                              \
   __CPROVER_rw_ok((S)->nonz, (S)->gv_cap * sizeof(Float)) &&                                             \
   __CPROVER_rw_ok((S)->cind, (S)->gv_cap * sizeof(Index)) &&                                             \
   __CPROVER_rw_ok((S)->rptr, (S)->gv_rsz * sizeof(Index)) &&                                             \
   SAME((S)->rptr1, (S)->rptr) && OFF((S)->rptr1) == OFF((S)->rptr) + ISZ)

/* row fact, for 1 <= r <= rcnt_ : monotone row pointers inside the stored range */
#define WF_ROW(S, r) (0 <= (S)->rptr[r] && (S)->rptr[r] <= (S)->rptr[(r) + 1] && (S)->rptr[(r) + 1] <= (S)->ncnt_)
/* entry fact, for 0 <= e < ncnt_ : column index inside [1, cols_] */
#define WF_ENT(S, e) (1 <= (S)->cind[e] && (S)->cind[e] <= (S)->cols_)

#define GV_CLAMP(x, lo, hi) ((x) < (lo) ? (lo) : ((x) > (hi) ? (hi) : (x)))   /* keeps __CPROVER_old(a[ghost]) in bounds */
#define ROW_IN(S, r) (1 <= (r) && (r) <= (S)->rcnt_)
#define ENT_IN(S, e) (0 <= (e) && (e) < (S)->ncnt_)

/* lowered `new SparseMatrix(a,b,c)` : allocate the object, run the (extracted) constructor */
void SparseMatrix_ctor3(struct SparseMatrix *self, Index floats, Index rows, Index cols);
static struct SparseMatrix *gv_new_SparseMatrix3(Index floats, Index rows, Index cols)
{
  struct SparseMatrix *p = (struct SparseMatrix *)gv_new(sizeof(struct SparseMatrix));
  SparseMatrix_ctor3(p, floats, rows, cols);
  return p;
}

/* lowered `new SparseMatrix(this)` (the private constructor used by transpose) */
void SparseMatrix_ctorT(struct SparseMatrix *self, const struct SparseMatrix *sm);
static struct SparseMatrix *gv_new_SparseMatrixT(const struct SparseMatrix *sm)
{
  struct SparseMatrix *p = (struct SparseMatrix *)gv_new(sizeof(struct SparseMatrix));
  SparseMatrix_ctorT(p, sm);
  return p;
}

/* ---- ghost state of the transpose proof (counting sort) ----------------------------------------------------
   gv_c0   ghost column g in [1, cols_]   (arbitrary: every statement about "column g" is a statement for all columns)
   gv_seq  ghost array of ncnt_+1 ints, the SUFFIX COUNT of column g:  gv_seq[q] = #{ e >= q : cind[e] == g }.
           It is a definition (such an array exists and is unique for every cind and g); its defining recurrence
           SEQ_AX(q) is instantiated at range-checked positions, the base facts gv_seq[ncnt_] == 0 and
           0 <= gv_seq[0] <= ncnt_ are harness/contract preconditions.
   gv_ltm, gv_eqm   ghost counters filled by the counting loop: #{cind < g-1}, #{cind == g-1}                 */
Index  gv_c0;
Index *gv_seq;
Index  gv_ltm, gv_eqm;
Index  gv_c1;            /* second ghost column h != g (arbitrary); only its two counts are tracked */
Index  gv_lth, gv_eqh;   /* ghost counters filled by the counting loop: #{cind < h}, #{cind == h} */
Index  gv_f0;            /* ghost position in the result (entry fact of the result, T5) */
Index  gv_j0;            /* ghost: position at which the ghost entry gv_e0 of ghost row gv_r0 is stored in the result */
#define SEQ_AX(S, q)                                                                                      \
  (0 <= gv_seq[(q) + 1] && gv_seq[(q) + 1] <= (S)->ncnt_ - ((q) + 1) &&                                   \
   gv_seq[q] == gv_seq[(q) + 1] + ((S)->cind[q] == gv_c0 ? 1 : 0))
#define GIN(S) (1 <= gv_c0 && gv_c0 <= (S)->cols_)
#ifdef GV_NOH
#define HIN(S) 0
#else
#define HIN(S) (1 <= gv_c1 && gv_c1 <= (S)->cols_ && gv_c1 != gv_c0)
#endif
/* the ghost entry: e0 lies in row r0 and in column g */
#define EIN(S) (GIN(S) && ROW_IN(S, gv_r0) && (S)->rptr[gv_r0] <= gv_e0 && gv_e0 < (S)->rptr[gv_r0 + 1] && ENT_IN(S, gv_e0) && \
                (S)->cind[gv_e0] == gv_c0)
/* ... has been placed (loop-local names tcind/tnonz/trptr of transpose) */
#define PLACED(S) (LTG <= gv_j0 && gv_j0 < trptr[gv_c0 + 1] && tcind[gv_j0] == gv_r0 && FEQ(tnonz[gv_j0], (S)->nonz[gv_e0]))
/* the clauses T4/T5 (reads of the result arrays at ghost positions) are proved by a check of their own (-DGV_T45=1):
   together with T1-T3 the formula exceeds the 24 GB solver limit */
#if GV_T45
#define T45(x) (x)
#else
#define T45(x) 1
#endif
#define SEQ0 (gv_seq[0])
#define LTG ((long)gv_ltm + gv_eqm)                      /* #{cind < g}: start of row g in the result */

/* harness helper: an arbitrary matrix satisfying WF_SHAPE; row / entry facts are per ghost index */
static void mk_sm(struct SparseMatrix *S)
{
  Index r, c, rc, n;
  long cap, rsz;
  __CPROVER_assume(0 <= r && r <= MAXIDX && 0 <= c && c <= MAXIDX && 0 <= rc && rc <= r);
  __CPROVER_assume(0 <= n && n <= cap && cap <= MAXNNZ && rsz >= (long)r + 2 && rsz <= (long)MAXIDX + 4);
  S->rows_ = r; S->cols_ = c; S->rcnt_ = rc; S->rnxt_ = rc + 1; S->ncnt_ = n;
  S->gv_cap = cap; S->gv_rsz = rsz;
  S->nonz = GV_ALLOC(Float, cap);
  S->cind = GV_ALLOC(Index, cap);
  S->rptr = GV_ALLOC(Index, rsz);
  __CPROVER_assume(S->nonz && S->cind && S->rptr);
  S->rptr1 = S->rptr + 1;
  __CPROVER_assume(rc == 0 ? n == 0 : (S->rptr[1] == 0 && S->rptr[rc + 1] == n));
}
//@ end

/* ------------------------------------------------------------------------------------------------ */
/* SparseMatrix(floats, rows, cols): an empty, well-formed matrix with the requested capacity.       */
//@ contract SparseMatrix_ctor3
__CPROVER_requires(__CPROVER_rw_ok(self, sizeof(struct SparseMatrix)))
__CPROVER_requires(0 <= floats && floats <= MAXNNZ && 0 <= rows && rows <= MAXIDX && 0 <= cols && cols <= MAXIDX)
__CPROVER_assigns(__CPROVER_object_whole(self))
__CPROVER_ensures(WF_SHAPE(self))
__CPROVER_ensures(self->rows_ == rows && self->cols_ == cols && self->rcnt_ == 0 && self->ncnt_ == 0 && self->gv_cap == floats)
__CPROVER_ensures(!SAME(self->nonz, self->cind) && !SAME(self->nonz, self->rptr) && !SAME(self->cind, self->rptr))
//@ entry SparseMatrix_ctor3
GV_CANARY("SparseMatrix_ctor3 entry");
self->gv_cap = floats;            /* ghost bookkeeping of the two allocation sizes */
self->gv_rsz = (long)rows + 2;
//@ end

/* ------------------------------------------------------------------------------------------------ */
/* new_row(): starts row rcnt_+1 as an empty row.  Precondition (NOT checked by the code, nothing is thrown):
   fewer rows started than declared -- otherwise rptr[rows_+2] is written, one past the allocation.      */
//@ contract SparseMatrix_new_row
__CPROVER_requires(__CPROVER_rw_ok(self, sizeof(struct SparseMatrix)))
__CPROVER_requires(WF_SHAPE(self))
__CPROVER_requires(self->rcnt_ < self->rows_)
__CPROVER_requires(ROW_IN(self, gv_r0) ==> WF_ROW(self, gv_r0))
__CPROVER_assigns(self->rcnt_, self->rnxt_, __CPROVER_object_whole(self->rptr))
__CPROVER_ensures(WF_SHAPE(self))
__CPROVER_ensures(self->rcnt_ == __CPROVER_old(self->rcnt_) + 1)
__CPROVER_ensures(ROW_IN(self, gv_r0) ==> WF_ROW(self, gv_r0))
__CPROVER_ensures(self->rptr[self->rcnt_] == self->ncnt_ && self->rptr[self->rcnt_ + 1] == self->ncnt_)   /* the new row is empty */
__CPROVER_ensures((1 <= gv_r0 && gv_r0 < self->rcnt_) ==> self->rptr[gv_r0] == __CPROVER_old(self->rptr[GV_CLAMP(gv_r0, 0, self->rcnt_)]))
//@ entry SparseMatrix_new_row
GV_CANARY("SparseMatrix_new_row entry");
//@ end

/* ------------------------------------------------------------------------------------------------ */
/* add_element(e,k): appends (k,e) to the row started last.  Preconditions (NOT checked by the code):
   a row has been started; ncnt_ < capacity -- otherwise nonz[cap]/cind[cap] are written past the buffers.
   The column range 1 <= k <= cols_ is not needed for memory safety here (network.cpp fills a matrix declared
   with cols = 0 and fixes cols in replicate()); it is what keeps the entry fact WF_ENT.                   */
//@ contract SparseMatrix_add_element
__CPROVER_requires(__CPROVER_rw_ok(self, sizeof(struct SparseMatrix)))
__CPROVER_requires(WF_SHAPE(self))
__CPROVER_requires(self->rcnt_ >= 1 && self->ncnt_ < self->gv_cap)
__CPROVER_requires(ROW_IN(self, gv_r0) ==> WF_ROW(self, gv_r0))
__CPROVER_requires(ENT_IN(self, gv_e0) ==> WF_ENT(self, gv_e0))
__CPROVER_assigns(self->ncnt_, __CPROVER_object_whole(self->rptr), __CPROVER_object_whole(self->nonz), __CPROVER_object_whole(self->cind))
__CPROVER_ensures(WF_SHAPE(self))
__CPROVER_ensures(self->ncnt_ == __CPROVER_old(self->ncnt_) + 1 && self->rcnt_ == __CPROVER_old(self->rcnt_))
__CPROVER_ensures(ROW_IN(self, gv_r0) ==> WF_ROW(self, gv_r0))
__CPROVER_ensures((1 <= k && k <= self->cols_ && ENT_IN(self, gv_e0)) ==> WF_ENT(self, gv_e0))
__CPROVER_ensures(self->cind[self->ncnt_ - 1] == k && FEQ(self->nonz[self->ncnt_ - 1], e))               /* the entry is stored last */
__CPROVER_ensures((0 <= gv_e0 && gv_e0 < self->ncnt_ - 1) ==>
                  (self->cind[gv_e0] == __CPROVER_old(self->cind[GV_CLAMP(gv_e0, 0, self->ncnt_)]) &&
                   FEQ(self->nonz[gv_e0], __CPROVER_old(self->nonz[GV_CLAMP(gv_e0, 0, self->ncnt_)]))))
__CPROVER_ensures((1 <= gv_r0 && gv_r0 <= self->rcnt_) ==> self->rptr[gv_r0] == __CPROVER_old(self->rptr[GV_CLAMP(gv_r0, 0, self->rcnt_)]))   /* row starts unchanged */
//@ entry SparseMatrix_add_element
GV_CANARY("SparseMatrix_add_element entry");
//@ end

/* ------------------------------------------------------------------------------------------------ */
/* replicate(new_n,new_r,new_c): a well-formed copy in disjoint fresh storage with equal rows and entries.
   Preconditions (NOT checked by the code): new_n >= ncnt_ and new_r >= rcnt_ (the memcpy sizes).        */
//@ contract SparseMatrix_replicate3
__CPROVER_requires(__CPROVER_r_ok(self, sizeof(struct SparseMatrix)))
__CPROVER_requires(WF_SHAPE(self))
__CPROVER_requires(self->ncnt_ <= new_n && new_n <= MAXNNZ && self->rcnt_ <= new_r && new_r <= MAXIDX && 0 <= new_c && new_c <= MAXIDX)
__CPROVER_assigns()
__CPROVER_ensures(__CPROVER_rw_ok(__CPROVER_return_value, sizeof(struct SparseMatrix)) && !SAME(__CPROVER_return_value, self))
__CPROVER_ensures(WF_SHAPE(__CPROVER_return_value))
__CPROVER_ensures(__CPROVER_return_value->rows_ == new_r && __CPROVER_return_value->cols_ == new_c &&
                  __CPROVER_return_value->rcnt_ == self->rcnt_ && __CPROVER_return_value->ncnt_ == self->ncnt_ &&
                  __CPROVER_return_value->gv_cap == new_n)
__CPROVER_ensures(!SAME(__CPROVER_return_value->nonz, self->nonz) && !SAME(__CPROVER_return_value->cind, self->cind) &&
                  !SAME(__CPROVER_return_value->rptr, self->rptr) && !SAME(__CPROVER_return_value->nonz, self) &&
                  !SAME(__CPROVER_return_value->cind, self) && !SAME(__CPROVER_return_value->rptr, self))
__CPROVER_ensures((1 <= gv_r0 && gv_r0 <= self->rcnt_ + 1) ==> __CPROVER_return_value->rptr[gv_r0] == self->rptr[gv_r0])
__CPROVER_ensures((ROW_IN(self, gv_r0) && WF_ROW(self, gv_r0)) ==> WF_ROW(__CPROVER_return_value, gv_r0))
__CPROVER_ensures(ENT_IN(self, gv_e0) ==> (__CPROVER_return_value->cind[gv_e0] == self->cind[gv_e0] &&
                                           FEQ(__CPROVER_return_value->nonz[gv_e0], self->nonz[gv_e0])))
//@ entry SparseMatrix_replicate3
GV_CANARY_U("SparseMatrix_replicate3 entry");
//@ end

/* replicate(): the same with the matrix's own sizes */
//@ contract SparseMatrix_replicate0
__CPROVER_requires(__CPROVER_r_ok(self, sizeof(struct SparseMatrix)))
__CPROVER_requires(WF_SHAPE(self))
__CPROVER_assigns()
__CPROVER_ensures(__CPROVER_rw_ok(__CPROVER_return_value, sizeof(struct SparseMatrix)) && !SAME(__CPROVER_return_value, self))
__CPROVER_ensures(WF_SHAPE(__CPROVER_return_value))
__CPROVER_ensures(__CPROVER_return_value->rows_ == self->rows_ && __CPROVER_return_value->cols_ == self->cols_ &&
                  __CPROVER_return_value->rcnt_ == self->rcnt_ && __CPROVER_return_value->ncnt_ == self->ncnt_)
__CPROVER_ensures(!SAME(__CPROVER_return_value->nonz, self->nonz) && !SAME(__CPROVER_return_value->cind, self->cind) &&
                  !SAME(__CPROVER_return_value->rptr, self->rptr))
__CPROVER_ensures((1 <= gv_r0 && gv_r0 <= self->rcnt_ + 1) ==> __CPROVER_return_value->rptr[gv_r0] == self->rptr[gv_r0])
__CPROVER_ensures((ROW_IN(self, gv_r0) && WF_ROW(self, gv_r0)) ==> WF_ROW(__CPROVER_return_value, gv_r0))
__CPROVER_ensures(ENT_IN(self, gv_e0) ==> (__CPROVER_return_value->cind[gv_e0] == self->cind[gv_e0] &&
                                           FEQ(__CPROVER_return_value->nonz[gv_e0], self->nonz[gv_e0])))
//@ entry SparseMatrix_replicate0
GV_CANARY_U("SparseMatrix_replicate0 entry");
//@ end

/* ------------------------------------------------------------------------------------------------ */
/* accessors of a started row i: pointers into the stored range, begin <= end, size = end - begin    */
//@ contract SparseMatrix_begin
__CPROVER_requires(WF_SHAPE(self) && ROW_IN(self, i) && WF_ROW(self, i))
__CPROVER_assigns()
__CPROVER_ensures(SAME(__CPROVER_return_value, self->nonz) && OFF(__CPROVER_return_value) == OFF(self->nonz) + FSZ * self->rptr[i])
//@ entry SparseMatrix_begin
GV_CANARY_U("SparseMatrix_begin entry");
//@ contract SparseMatrix_end
__CPROVER_requires(WF_SHAPE(self) && ROW_IN(self, i) && WF_ROW(self, i))
__CPROVER_assigns()
__CPROVER_ensures(SAME(__CPROVER_return_value, self->nonz) && OFF(__CPROVER_return_value) == OFF(self->nonz) + FSZ * self->rptr[i + 1])
//@ entry SparseMatrix_end
GV_CANARY_U("SparseMatrix_end entry");
//@ contract SparseMatrix_ibegin
__CPROVER_requires(WF_SHAPE(self) && ROW_IN(self, i) && WF_ROW(self, i))
__CPROVER_assigns()
__CPROVER_ensures(SAME(__CPROVER_return_value, self->cind) && OFF(__CPROVER_return_value) == OFF(self->cind) + ISZ * self->rptr[i])
//@ entry SparseMatrix_ibegin
GV_CANARY_U("SparseMatrix_ibegin entry");
//@ contract SparseMatrix_iend
__CPROVER_requires(WF_SHAPE(self) && ROW_IN(self, i) && WF_ROW(self, i))
__CPROVER_assigns()
__CPROVER_ensures(SAME(__CPROVER_return_value, self->cind) && OFF(__CPROVER_return_value) == OFF(self->cind) + ISZ * self->rptr[i + 1])
//@ entry SparseMatrix_iend
GV_CANARY_U("SparseMatrix_iend entry");
//@ contract SparseMatrix_size
__CPROVER_requires(WF_SHAPE(self) && ROW_IN(self, i) && WF_ROW(self, i))
__CPROVER_assigns()
__CPROVER_ensures(__CPROVER_return_value == self->rptr[i + 1] - self->rptr[i] && __CPROVER_return_value >= 0)
//@ entry SparseMatrix_size
GV_CANARY_U("SparseMatrix_size entry");
//@ end

/* ------------------------------------------------------------------------------------------------ */
/* SparseMatrix(const SparseMatrix* sm): storage for the transpose (contents not initialised)         */
//@ contract SparseMatrix_ctorT
__CPROVER_requires(__CPROVER_rw_ok(self, sizeof(struct SparseMatrix)) && __CPROVER_r_ok(sm, sizeof(struct SparseMatrix)))
__CPROVER_requires(WF_SHAPE(sm))
__CPROVER_assigns(__CPROVER_object_whole(self))
__CPROVER_ensures(self->rows_ == sm->cols_ && self->cols_ == sm->rows_ && self->rcnt_ == sm->cols_ &&
                  self->rnxt_ == sm->cols_ + 1 && self->ncnt_ == sm->ncnt_)
__CPROVER_ensures(__CPROVER_rw_ok(self->nonz, sm->ncnt_ * sizeof(Float)) && __CPROVER_rw_ok(self->cind, sm->ncnt_ * sizeof(Index)) &&
                  __CPROVER_rw_ok(self->rptr, ((long)sm->cols_ + 4) * sizeof(Index)))
//@ entry SparseMatrix_ctorT
GV_CANARY("SparseMatrix_ctorT entry");
self->gv_cap = sm->ncnt_;
self->gv_rsz = (long)sm->cols_ + 4;
//@ end

/* ------------------------------------------------------------------------------------------------ */
/* transpose(): counting sort by column.  Proof in ghost-column form (see the prelude):
     T1  memory safety for EVERY well-formed, completely filled input (rcnt_ == rows_); uses exactly cind in [1,cols_];
     T2  the result is well-formed with rows/cols swapped and the same number of entries;
     T3  row g of the result has exactly as many entries as column g has in the input (= gv_seq[0]) and starts
         at #{cind < g}.
   Quantified invariants.  Three facts are needed at a column other than the ghost column g; each is a loop
   invariant that the same check proves for the arbitrary column g and is instantiated (GV_INST, range-checked) at
   the column/slot in use:
     B2(x,i)  0 <= trptr[x+2] <= i                     counting loop, slot about to be incremented  (overflow)
     K(k)     0 <= trptr[k] <= ncnt_                   prefix-sum loop, the two slots added         (overflow)
     Q(x)     0 <= trptr[x+1] < ncnt_ when an entry of column x is about to be placed              (bounds)
   and the prefix-sum loop proves "slot g+1 ends as #{cind < g}" by induction on the column: the statement for
   column g-1 (slot g holds #{cind < g-1} once passed) is instantiated, the statement for g is the invariant.     */
//@ contract SparseMatrix_transpose
__CPROVER_requires(__CPROVER_r_ok(self, sizeof(struct SparseMatrix)))
__CPROVER_requires(WF_SHAPE(self) && self->rcnt_ == self->rows_)
__CPROVER_requires(self->cols_ >= 1 ==> GIN(self))
__CPROVER_requires(__CPROVER_rw_ok(gv_seq, ((long)self->ncnt_ + 1) * sizeof(Index)))
__CPROVER_requires(gv_seq[self->ncnt_] == 0 && 0 <= gv_seq[0] && gv_seq[0] <= self->ncnt_)
__CPROVER_requires(!SAME(gv_seq, self) && !SAME(gv_seq, self->nonz) && !SAME(gv_seq, self->cind) && !SAME(gv_seq, self->rptr))
__CPROVER_assigns(gv_ltm, gv_eqm, gv_lth, gv_eqh, gv_j0)
__CPROVER_ensures(__CPROVER_rw_ok(__CPROVER_return_value, sizeof(struct SparseMatrix)) && !SAME(__CPROVER_return_value, self))
__CPROVER_ensures(__CPROVER_return_value->rows_ == self->cols_ && __CPROVER_return_value->cols_ == self->rows_ &&
                  __CPROVER_return_value->rcnt_ == self->cols_ && __CPROVER_return_value->ncnt_ == self->ncnt_)
/* WF_SHAPE of the result; its last conjunct rptr[rows+1] == ncnt_ is the statement T3 for the last column */
__CPROVER_ensures(WF_SHAPE_BUT_LAST(__CPROVER_return_value))
__CPROVER_ensures(self->cols_ == 0 ==> self->ncnt_ == 0)
__CPROVER_ensures(self->cols_ >= 1 ==> __CPROVER_return_value->rptr[1] == 0)
__CPROVER_ensures((GIN(self) && gv_c0 == self->cols_) ==> __CPROVER_return_value->rptr[self->cols_ + 1] == self->ncnt_)
__CPROVER_ensures(GIN(self) ==> WF_ROW(__CPROVER_return_value, gv_c0))
__CPROVER_ensures(GIN(self) ==> (__CPROVER_return_value->rptr[gv_c0] == LTG &&
                                __CPROVER_return_value->rptr[gv_c0 + 1] - __CPROVER_return_value->rptr[gv_c0] == gv_seq[0]))
/* T4  every entry survives: the ghost entry e0 = (r0, g, v) of the input is the entry (g, r0, v) of the result, stored
       at gv_j0 inside row g of the result */
__CPROVER_ensures(T45(EIN(self) ==> (__CPROVER_return_value->rptr[gv_c0] <= gv_j0 && gv_j0 < __CPROVER_return_value->rptr[gv_c0 + 1] &&
                                __CPROVER_return_value->cind[gv_j0] == gv_r0 &&
                                FEQ(__CPROVER_return_value->nonz[gv_j0], self->nonz[gv_e0]))))
/* T5  entry fact of the result: every position f0 of row g of the result holds a column index in [1, rows_] */
__CPROVER_ensures(T45((GIN(self) && __CPROVER_return_value->rptr[gv_c0] <= gv_f0 && gv_f0 < __CPROVER_return_value->rptr[gv_c0 + 1]) ==>
                  (1 <= __CPROVER_return_value->cind[gv_f0] && __CPROVER_return_value->cind[gv_f0] <= self->rows_)))
__CPROVER_ensures(!SAME(__CPROVER_return_value->nonz, self->nonz) && !SAME(__CPROVER_return_value->cind, self->cind) &&
                  !SAME(__CPROVER_return_value->rptr, self->rptr))
//@ entry SparseMatrix_transpose
GV_CANARY("SparseMatrix_transpose entry");
if (self->ncnt_ > 0) GV_INST(ENT_IN(self, 0), WF_ENT(self, 0));      /* an entry exists ==> cols_ >= 1 */

//@ loop SparseMatrix_transpose 1
__CPROVER_assigns(i, __CPROVER_object_whole(trptr))
__CPROVER_loop_invariant(0 <= i && i <= trows_ + 3 && (i > 1 ==> trptr[1] == 0) && (i > 2 ==> trptr[2] == 0) &&
                         (GIN(self) ==> ((i > gv_c0 + 1 ==> trptr[gv_c0 + 1] == 0) && (i > gv_c0 + 2 ==> trptr[gv_c0 + 2] == 0))))
__CPROVER_decreases((long)trows_ + 3 - i)

//@ pre SparseMatrix_transpose 2
gv_ltm = 0; gv_eqm = 0; gv_lth = 0; gv_eqh = 0;
//@ loop SparseMatrix_transpose 2
__CPROVER_assigns(i, __CPROVER_object_whole(trptr), gv_ltm, gv_eqm, gv_lth, gv_eqh)
__CPROVER_loop_invariant(0 <= i && i <= self->ncnt_ && trptr[1] == 0 && trptr[2] == 0 &&
                         0 <= gv_ltm && 0 <= gv_eqm && 0 <= gv_lth && 0 <= gv_eqh && (long)gv_lth + gv_eqh <= i &&
                         (GIN(self) ==> (0 <= gv_seq[i] && gv_seq[i] <= SEQ0 &&
                                         trptr[gv_c0 + 2] == SEQ0 - gv_seq[i] &&
                                         trptr[gv_c0 + 1] == gv_eqm && (gv_c0 <= 2 ==> gv_ltm == 0) && (gv_c0 == 1 ==> gv_eqm == 0) &&
                                         LTG + (SEQ0 - gv_seq[i]) <= i && (gv_c0 == trows_ ==> LTG + (SEQ0 - gv_seq[i]) == i) &&
                                         (HIN(self) ==> (gv_c0 < gv_c1 ? LTG + (SEQ0 - gv_seq[i]) <= gv_lth
                                                                       : (long)gv_lth + gv_eqh <= LTG)))))
__CPROVER_decreases((long)self->ncnt_ - i)
//@ head SparseMatrix_transpose 2
GV_INST(ENT_IN(self, i), WF_ENT(self, i));
if (GIN(self)) GV_INST(ENT_IN(self, i), SEQ_AX(self, i));
/* quantified invariant B2 at the slot about to be incremented (proved above for slots g+1 and g+2) */
if (!(GIN(self) && (self->cind[i] == gv_c0 || self->cind[i] == gv_c0 - 1)))
  GV_INST(1 <= self->cind[i] && self->cind[i] <= trows_, 0 <= trptr[self->cind[i] + 2] && trptr[self->cind[i] + 2] <= i);
//@ tail SparseMatrix_transpose 2
if (GIN(self)) { if (self->cind[i] == gv_c0 - 1) gv_eqm++; else if (self->cind[i] < gv_c0 - 1) gv_ltm++; }
if (HIN(self)) { if (self->cind[i] == gv_c1) gv_eqh++; else if (self->cind[i] < gv_c1) gv_lth++; }

//@ loop SparseMatrix_transpose 3
__CPROVER_assigns(i, __CPROVER_object_whole(trptr))
__CPROVER_loop_invariant(3 <= i && i <= GV_MAX(3, trows_ + 2) && trptr[1] == 0 && trptr[2] == 0 &&
                         (GIN(self) ==> (trptr[gv_c0 + 1] == (gv_c0 + 1 < i ? LTG : gv_eqm) &&
                                         trptr[gv_c0 + 2] == (gv_c0 + 2 < i ? LTG + SEQ0 : SEQ0))))
__CPROVER_decreases((long)trows_ + 2 - i)
//@ head SparseMatrix_transpose 3
/* quantified invariant K at the two slots added */
GV_INST(3 <= i && i <= trows_ + 1, 0 <= trptr[i] && trptr[i] <= self->ncnt_ && 0 <= trptr[i - 1] && trptr[i - 1] <= self->ncnt_);
/* induction on the column: the statement of this loop's invariant for column g-1 (its slot g is final once passed) */
if (GIN(self) && gv_c0 >= 3) GV_INST(3 <= gv_c0 && gv_c0 <= trows_, gv_c0 < i ==> trptr[gv_c0] == gv_ltm);

//@ loop SparseMatrix_transpose 4
__CPROVER_assigns(r, irb, ire, k, j, gv_j0, __CPROVER_object_whole(trptr), __CPROVER_object_whole(tcind), __CPROVER_object_whole(tnonz))
__CPROVER_loop_invariant(1 <= r && r <= self->rows_ + 1 && trptr[1] == 0 &&
                         (self->rows_ >= 1 ==> (ire == self->rptr[r] && 0 <= ire && ire <= self->ncnt_)) &&
                         (GIN(self) ==> (0 <= gv_seq[self->rows_ >= 1 ? ire : 0] && gv_seq[self->rows_ >= 1 ? ire : 0] <= SEQ0 &&
                                         trptr[gv_c0 + 1] == LTG + SEQ0 - gv_seq[self->rows_ >= 1 ? ire : 0] &&
                                         T45((LTG <= gv_f0 && gv_f0 < trptr[gv_c0 + 1]) ==> (1 <= tcind[gv_f0] && tcind[gv_f0] <= self->rows_)))) &&
                         T45((EIN(self) && r > gv_r0) ==> PLACED(self)))
__CPROVER_decreases((long)self->rows_ + 1 - r)
//@ head SparseMatrix_transpose 4
GV_INST(ROW_IN(self, r), WF_ROW(self, r));

//@ loop SparseMatrix_transpose 5
__CPROVER_assigns(irb, k, j, gv_j0, __CPROVER_object_whole(trptr), __CPROVER_object_whole(tcind), __CPROVER_object_whole(tnonz))
__CPROVER_loop_invariant(self->rptr[r] <= irb && irb <= ire && trptr[1] == 0 &&
                         (GIN(self) ==> (0 <= gv_seq[irb] && gv_seq[irb] <= SEQ0 && trptr[gv_c0 + 1] == LTG + SEQ0 - gv_seq[irb] &&
                                         T45((LTG <= gv_f0 && gv_f0 < trptr[gv_c0 + 1]) ==> (1 <= tcind[gv_f0] && tcind[gv_f0] <= self->rows_)))) &&
                         T45((EIN(self) && (r > gv_r0 || (r == gv_r0 && irb > gv_e0))) ==> PLACED(self)))
__CPROVER_decreases((long)ire - irb)
//@ head SparseMatrix_transpose 5
GV_INST(ENT_IN(self, irb), WF_ENT(self, irb));
if (GIN(self)) GV_INST(ENT_IN(self, irb), SEQ_AX(self, irb));
/* quantified invariants Q (placement in bounds) and D (placement of column x outside the range of column g) at the
   column of the entry being placed; both are proved for the arbitrary column g: Q by the bounds checks of the two
   stores, D by the assertion at the injection point `place` (there with the second arbitrary column h in the role
   that g plays here: #{cind<h} = gv_lth, #{cind==h} = gv_eqh) */
if (!(GIN(self) && self->cind[irb] == gv_c0))
  GV_INST(1 <= self->cind[irb] && self->cind[irb] <= trows_,
          0 <= trptr[self->cind[irb] + 1] && trptr[self->cind[irb] + 1] < self->ncnt_ &&
          (GIN(self) ==> (self->cind[irb] < gv_c0 ? trptr[self->cind[irb] + 1] < LTG : trptr[self->cind[irb] + 1] >= LTG + SEQ0)));
//@ at SparseMatrix_transpose place
#ifndef GV_NOAT
if (GIN(self) && self->cind[irb] == gv_c0) {
  if (HIN(self))
    __CPROVER_assert(gv_c0 < gv_c1 ? j < gv_lth : j >= (long)gv_lth + gv_eqh,
                     "D: an entry of column g is never placed inside the result range of another column h");
  if (r == gv_r0 && irb == gv_e0) gv_j0 = j;      /* ghost: where the ghost entry e0 goes */
}
#endif

//@ post SparseMatrix_transpose 4
/* T3 for column g-1 (start of row g = end of row g-1), proved by this same check for the arbitrary column */
if (GIN(self) && gv_c0 >= 2) GV_INST(2 <= gv_c0 && gv_c0 <= trows_, trptr[gv_c0] == LTG);
//@ end

//@ harness
void h_ctor3(void)
{
  struct SparseMatrix S;
  Index f, r, c;
  __CPROVER_assume(0 <= f && f <= MAXNNZ && 0 <= r && r <= MAXIDX && 0 <= c && c <= MAXIDX);
  SparseMatrix_ctor3(&S, f, r, c);
  GV_CANARY("h_ctor3 end");
}

void h_new_row(void)
{
  struct SparseMatrix S;
  mk_sm(&S);
  Index r0;
  gv_r0 = r0;
  __CPROVER_assume(S.rcnt_ < S.rows_);
  __CPROVER_assume(ROW_IN(&S, gv_r0) ==> WF_ROW(&S, gv_r0));
  SparseMatrix_new_row(&S);
  GV_CANARY("h_new_row end");
}

void h_add_element(void)
{
  struct SparseMatrix S;
  mk_sm(&S);
  Index r0, e0, k;
  Float e;
  gv_r0 = r0; gv_e0 = e0;
  __CPROVER_assume(S.rcnt_ >= 1 && S.ncnt_ < S.gv_cap);
  __CPROVER_assume(ROW_IN(&S, gv_r0) ==> WF_ROW(&S, gv_r0));
  __CPROVER_assume(ENT_IN(&S, gv_e0) ==> WF_ENT(&S, gv_e0));
  SparseMatrix_add_element(&S, e, k);
  GV_CANARY("h_add_element end");
}

void h_replicate(void)
{
  struct SparseMatrix S;
  mk_sm(&S);
  Index r0, e0, nn, nr, nc;
  gv_r0 = r0; gv_e0 = e0;
  __CPROVER_assume(S.ncnt_ <= nn && nn <= MAXNNZ && S.rcnt_ <= nr && nr <= MAXIDX && 0 <= nc && nc <= MAXIDX);
  struct SparseMatrix *R = SparseMatrix_replicate3(&S, nn, nr, nc);
  __CPROVER_assert((ENT_IN(&S, gv_e0) && 1 <= S.cind[gv_e0] && S.cind[gv_e0] <= nc) ==> WF_ENT(R, gv_e0),
                   "an entry whose column is inside the new column count satisfies the entry fact of the copy");
  GV_CANARY("h_replicate end");
}

void h_replicate0(void)
{
  struct SparseMatrix S;
  mk_sm(&S);
  Index r0, e0;
  gv_r0 = r0; gv_e0 = e0;
  struct SparseMatrix *R = SparseMatrix_replicate0(&S);
  GV_CANARY("h_replicate0 end");
}

void h_transpose(void)
{
  struct SparseMatrix S;
  mk_sm(&S);
  Index c0;
  __CPROVER_assume(S.rcnt_ == S.rows_);                 /* completely filled */
  Index c1, r0, e0, f0;
  gv_c0 = c0; gv_c1 = c1; gv_r0 = r0; gv_e0 = e0; gv_f0 = f0;      /* all ghost indices arbitrary */
  __CPROVER_assume(S.cols_ >= 1 ==> GIN(&S));
  gv_seq = GV_ALLOC(Index, (long)S.ncnt_ + 1);          /* the ghost suffix-count array of column gv_c0 */
  __CPROVER_assume(gv_seq);
  __CPROVER_assume(gv_seq[S.ncnt_] == 0 && 0 <= gv_seq[0] && gv_seq[0] <= S.ncnt_);
  struct SparseMatrix *T = SparseMatrix_transpose(&S);
  GV_CANARY("h_transpose end");
}

#ifdef GV_BOUNDED
/* ---- bounded cross-check (no contracts, loops unwound): all matrices with rows, cols <= 3 and nnz <= 4, built
   through the extracted constructor / new_row / add_element.  Oracle: the multiset of (row, column, value) triples. */
static int gv_count(const struct SparseMatrix *M, Index r, Index c, Float v)
{
  int n = 0;
  for (Index rr = 1; rr <= M->rows_; rr++)
    for (Index e = M->rptr[rr]; e < M->rptr[rr + 1]; e++)
      if (rr == r && M->cind[e] == c && M->nonz[e] == v) n++;
  return n;
}
static void gv_assert_wf(const struct SparseMatrix *M)
{
  __CPROVER_assert(M->rcnt_ == M->rows_ && M->rnxt_ == M->rows_ + 1, "bounded: result is completely filled");
  __CPROVER_assert(M->rows_ == 0 ? M->ncnt_ == 0 : (M->rptr[1] == 0 && M->rptr[M->rows_ + 1] == M->ncnt_), "bounded: first/last row pointer");
  for (Index r = 1; r <= M->rows_; r++)
    __CPROVER_assert(0 <= M->rptr[r] && M->rptr[r] <= M->rptr[r + 1] && M->rptr[r + 1] <= M->ncnt_, "bounded: row pointers monotone");
  for (Index e = 0; e < M->ncnt_; e++)
    __CPROVER_assert(1 <= M->cind[e] && M->cind[e] <= M->cols_, "bounded: column indices in range");
}
void h_transpose_rt(void)
{
  Index rows, cols;
  rows = GV_RT_ROWS; cols = GV_RT_COLS;
  struct SparseMatrix A;
  SparseMatrix_ctor3(&A, GV_RT_NNZ, rows, cols);
  for (Index r = 1; r <= rows; r++) {
    SparseMatrix_new_row(&A);
    while (A.ncnt_ < GV_RT_NNZ && cols >= 1) {
      _Bool more; Index c; Float v;
      if (!more) break;
      __CPROVER_assume(1 <= c && c <= cols && v == v);
      SparseMatrix_add_element(&A, v, c);
    }
  }
  /* arbitrary triple (r0,c0,v0): equal counts for EVERY triple is equality of the entry multisets */
  Index r0, c0; Float v0;
  __CPROVER_assume(v0 == v0);
  int nA = gv_count(&A, r0, c0, v0);
  struct SparseMatrix *T = SparseMatrix_transpose(&A);
  __CPROVER_assert(T->rows_ == cols && T->cols_ == rows && T->ncnt_ == A.ncnt_, "bounded: transpose swaps rows/cols, keeps nnz");
  gv_assert_wf(T);
  __CPROVER_assert(nA == gv_count(T, c0, r0, v0), "bounded: (r,c,v) occurs in A exactly as often as (c,r,v) in transpose(A)");
  struct SparseMatrix *TT = SparseMatrix_transpose(T);
  __CPROVER_assert(TT->rows_ == rows && TT->cols_ == cols && TT->ncnt_ == A.ncnt_, "bounded: double transpose restores the shape");
  gv_assert_wf(TT);
  __CPROVER_assert(nA == gv_count(TT, r0, c0, v0), "bounded: transpose(transpose(A)) has exactly the entries of A");
  for (Index r = 1; r <= A.rows_; r++) {
    __CPROVER_assert(TT->rptr[r + 1] - TT->rptr[r] == A.rptr[r + 1] - A.rptr[r], "bounded: double transpose keeps every row length");
    for (Index e = TT->rptr[r]; e + 1 < TT->rptr[r + 1]; e++)
      __CPROVER_assert(TT->cind[e] <= TT->cind[e + 1], "bounded: rows of a double transpose are sorted by column");
  }
  GV_CANARY("h_transpose_rt end");
}

#endif

void h_access(void)
{
  struct SparseMatrix S;
  mk_sm(&S);
  Index i;
  __CPROVER_assume(ROW_IN(&S, i) && WF_ROW(&S, i));
  Float *b = SparseMatrix_begin(&S, i), *e = SparseMatrix_end(&S, i);
  Index *ib = SparseMatrix_ibegin(&S, i), *ie = SparseMatrix_iend(&S, i);
  Index n = SparseMatrix_size(&S, i);
  __CPROVER_assert(OFF(b) >= 0 && OFF(b) <= OFF(e) && OFF(e) <= S.ncnt_ * FSZ, "begin(i) <= end(i) inside the stored values");
  __CPROVER_assert(OFF(ib) >= 0 && OFF(ib) <= OFF(ie) && OFF(ie) <= S.ncnt_ * ISZ, "ibegin(i) <= iend(i) inside the stored indices");
  __CPROVER_assert(e - b == n && ie - ib == n, "size(i) == end(i)-begin(i) == iend(i)-ibegin(i)");
  GV_CANARY("h_access end");
}
//@ end
