// evaluation order in LocalNetwork::unknown_stdev / stdev_res:  m_0()*sqrt(<adjusted result>)
#include <gnu_gama/local/network.h>
#include <gnu_gama/xml/gkfparser.h>
#include <gnu_gama/local/language.h>
#include <cstdio>
#include <cstring>
#include <string>
#include <cmath>
using namespace GNU_gama::local;
static std::string gkf(const char* act) {
 return std::string("<?xml version=\"1.0\" ?>\n<gama-local xmlns=\"http://www.gnu.org/software/gama/gama-local\">\n"
 "<network axes-xy=\"ne\" angles=\"left-handed\">\n<parameters sigma-apr=\"10\" conf-pr=\"0.95\" tol-abs=\"1000\" sigma-act=\"") + act + "\"/>\n"
 "<points-observations distance-stdev=\"5.0\">\n"
 "<point id=\"A\" x=\"0\" y=\"0\" fix=\"xy\"/>\n<point id=\"B\" x=\"100\" y=\"0\" fix=\"xy\"/>\n<point id=\"C\" x=\"0\" y=\"100\" fix=\"xy\"/>\n"
 "<point id=\"P\" x=\"40\" y=\"30\" adj=\"xy\"/>\n<obs from=\"P\">\n<distance to=\"A\" val=\"50.001\"/>\n<distance to=\"B\" val=\"67.083\"/>\n<distance to=\"C\" val=\"80.620\"/>\n</obs>\n"
 "</points-observations>\n</network>\n</gama-local>\n";
}
int main(int argc, char** argv)
{
  set_gama_language(en);
  std::string mode = argc > 1 ? argv[1] : "aposteriori";
  std::string what = argc > 2 ? argv[2] : "unknown_stdev";
  LocalNetwork net;
  GKFparser p(net);
  std::string t = gkf(mode.c_str());
  p.xml_parse(t.c_str(), t.size(), 1);
  net.set_algorithm("envelope");
  std::printf("%s, fresh object, first question %s(1) ...\n", mode.c_str(), what.c_str()); std::fflush(stdout);
  double v = what == "unknown_stdev" ? net.unknown_stdev(1) : net.stdev_res(1);
  std::printf("  first answer  %.9g (is_adjusted=%d)\n", v, net.is_adjusted());
  double w = what == "unknown_stdev" ? net.unknown_stdev(1) : net.stdev_res(1);
  std::printf("  second answer %.9g\n", w);
  return (v == w) ? 0 : 1;
}
