#!/usr/bin/env python3-vt
"""z3 lemmas (REAL arithmetic, rounding not modelled) about the error-ellipse formulas, on the expression text of
LocalNetwork::std_error_ellipse as extracted and lowered into the generated C file of this run.

usage: ellipse_lemmas.py <generated statistics.c> <repo>

The statements between the stash lookup and the bearing are interpreted symbolically, in order:
    double X = E;      LV = E;      if (LV < 0) LV = 0;      double m = LocalNetwork_m_0(self); ...
with   gvs_q_xx(ls,i,j) -> q(i,j)  (uninterpreted, one value per question)
       gv_sqrt_rec(E)   -> fresh s with s >= 0 and s*s == E; "E >= 0" becomes a lemma of its own
       LocalNetwork_m_0 -> m > 0   (the reference deviation in use; m == 0 makes both axes 0, CBMC side)
Any statement or operator outside this list aborts with exit 2 (undecided), never a pass.
Lemmas (assumptions: the 2x2 cofactor block is positive semidefinite):
    sqrt_args_nonneg   every sqrt argument is >= 0
    clamp_inactive     (cyy+cxx-c)/2 >= 0: the `if (b < 0) b = 0` guard only removes rounding noise
    trace              (a/m)^2 + (b/m)^2 == cxx + cyy
    determinant        (a/m)^2 (b/m)^2 == cxx cyy - cyx^2
    order              a >= b >= 0
    eigen_max          (a/m)^2 is the larger root of  t^2 - (cxx+cyy) t + (cxx cyy - cyx^2) == 0
    bearing_args       atan2 receives (2 cyx, cxx - cyy):  tan(2 alfa) = 2 cyx / (cxx - cyy)
"""
import ast
import re
import sys

import z3


def die(msg):
    print('ellipse_lemmas: ' + msg)
    sys.exit(2)


src = open(sys.argv[1]).read()
m = re.search(r'/\* ---- LocalNetwork_std_error_ellipse :.*?\n\{\n(.*?)\n\}\n#undef|/\* ---- LocalNetwork_std_error_ellipse :.*?\n\{\n(.*?)\n\}\n', src, re.S)
if not m:
    die('extracted function LocalNetwork_std_error_ellipse not found in ' + sys.argv[1])
body = m.group(1) or m.group(2)
k = body.find('gv_PD_at')
if k < 0:
    die('point lookup not found')
body = body[body.index(';', k) + 1:]

q = z3.Function('q', z3.IntSort(), z3.IntSort(), z3.RealSort())
env = {'ix': z3.Int('ix'), 'iy': z3.Int('iy'), 'M_PI': z3.RealVal('3.14159265358979323846')}
facts = []          # definitional facts (sqrt results)
sqrt_args = []
atan2_args = []
cnt = [0]


def ev(node):
    if isinstance(node, ast.Expression):
        return ev(node.body)
    if isinstance(node, ast.Constant) and isinstance(node.value, (int, float)):
        return z3.RealVal(repr(node.value))
    if isinstance(node, ast.Name):
        if node.id not in env:
            die('unknown identifier %s' % node.id)
        return env[node.id]
    if isinstance(node, ast.UnaryOp) and isinstance(node.op, ast.USub):
        return -ev(node.operand)
    if isinstance(node, ast.BinOp):
        a, b = ev(node.left), ev(node.right)
        if isinstance(node.op, ast.Add):
            return a + b
        if isinstance(node.op, ast.Sub):
            return a - b
        if isinstance(node.op, ast.Mult):
            return a * b
        if isinstance(node.op, ast.Div):
            return a / b
        die('operator %s not in the translator list' % type(node.op).__name__)
    if isinstance(node, ast.Call) and isinstance(node.func, ast.Name):
        f = node.func.id
        if f == 'QXX' and len(node.args) == 2:
            return q(ev(node.args[0]), ev(node.args[1]))
        if f == 'SQRT' and len(node.args) == 1:
            e = ev(node.args[0])
            cnt[0] += 1
            s = z3.Real('sqrt%d' % cnt[0])
            sqrt_args.append(e)
            facts.append(z3.And(s >= 0, s * s == e))
            return s
        if f == 'ATAN2' and len(node.args) == 2:
            atan2_args.append((ev(node.args[0]), ev(node.args[1])))
            return z3.Real('atan2_result')
    die('expression form not in the translator list: ' + ast.dump(node)[:120])


def expr(text):
    t = text.strip()
    t = re.sub(r'gvs_q_xx\(\s*self->least_squares\s*,', 'QXX(', t)
    t = t.replace('gv_sqrt_rec(', 'SQRT(').replace('gv_atan2(', 'ATAN2(')
    t = re.sub(r'\(\*(\w+)__p\)', r'\1', t)
    try:
        return ev(ast.parse(t, mode='eval'))
    except SyntaxError:
        die('cannot parse expression: ' + text)


def lv(text):
    t = re.sub(r'\(\*(\w+)__p\)', r'\1', text.strip())
    if not re.fullmatch(r'\w+', t):
        die('unsupported lvalue ' + text)
    return t


stmts = [s.strip() for s in re.split(r';', body)]
seen_m = False
for st in stmts:
    if not st:
        continue
    if st.startswith('if (c == 0)'):
        break                       # circle case / bearing: handled after the loop
    mm = re.fullmatch(r'int (\w+) = LocalPoint_index_(x|y)\(bod\)', st)
    if mm:
        env[mm.group(1)] = env['i' + mm.group(2)]
        continue
    mm = re.fullmatch(r'double m = LocalNetwork_m_0\(self\)', st)
    if mm:
        env['m'] = z3.Real('m')
        seen_m = True
        continue
    if st == 'if (gv_exc) return GV_RET':
        continue
    mm = re.fullmatch(r'if \((.+?) < 0\) (.+?) = 0', st, re.S)
    if mm:
        name = lv(mm.group(2))
        if lv(mm.group(1)) != name:
            die('clamp form not understood: ' + st)
        env['__unclamped_' + name] = env[name]
        env[name] = z3.If(env[name] < 0, z3.RealVal(0), env[name])
        continue
    mm = re.fullmatch(r'(?:double\s+)?(.+?)\s*=\s*(.+)', st, re.S)
    if mm and '==' not in mm.group(1):
        env[lv(mm.group(1))] = expr(mm.group(2))
        continue
    die('statement not in the interpreter list: %r' % st)
if not seen_m or 'a' not in env or 'b' not in env or 'c' not in env:
    die('a, b, c or m not assigned by the extracted text')
rest = body[body.index('if (c == 0)'):]
mm = re.search(r'\(\*alfa__p\)\s*=\s*(gv_atan2\(.+?\)\s*/\s*2)\s*;', rest)
if not mm:
    die('bearing statement not found')
env['alfa'] = expr(mm.group(1))

cxx, cyy, cyx = q(env['ix'], env['ix']), q(env['iy'], env['iy']), q(env['iy'], env['ix'])
mvar = env['m']
assume = [cxx >= 0, cyy >= 0, cyx * cyx <= cxx * cyy, mvar > 0] + facts
tr, det = cxx + cyy, cxx * cyy - cyx * cyx
a, b = env['a'], env['b']
la, lb = z3.Real('la'), z3.Real('lb')       # (a/m)^2, (b/m)^2
defs = [la * mvar * mvar == a * a, lb * mvar * mvar == b * b]


def prove(name, claim, extra=()):
    s = z3.Solver()
    s.set('timeout', 60000)
    s.add(*assume)
    s.add(*extra)
    s.add(z3.Not(claim))
    r = s.check()
    if r == z3.unsat:
        print('LEMMA %s: proved' % name)
    elif r == z3.sat:
        print('LEMMA %s: FAILED counterexample %s' % (name, str(s.model())[:300].replace('\n', ' ')))
    else:
        print('LEMMA %s: FAILED (z3 %s)' % (name, r))


if len(sqrt_args) != 3:
    die('%d sqrt calls in the extracted text, 3 expected' % len(sqrt_args))
# the argument of each sqrt must be non-negative given only the facts about the EARLIER sqrt results
for k_, e in enumerate(sqrt_args):
    s = z3.Solver()
    s.set('timeout', 60000)
    s.add(cxx >= 0, cyy >= 0, cyx * cyx <= cxx * cyy, mvar > 0, *facts[:k_])
    s.add(e < 0)
    r = s.check()
    print('LEMMA sqrt_arg_%d_nonneg: %s' % (k_ + 1, 'proved' if r == z3.unsat else 'FAILED (%s)' % r))
prove('clamp_inactive', env['__unclamped_b'] >= 0) if '__unclamped_b' in env else die('no clamp found')
prove('trace', la + lb == tr, defs)
prove('order', z3.And(a >= b, b >= 0))
prove('eigen_max', z3.And(la * la - tr * la + det == 0, lb * lb - tr * lb + det == 0, la >= lb), defs)
# Vieta: chained on the two lemmas proved just above (trace, eigen_max), which are added as hypotheses
prove('determinant', la * lb == det, defs + [la + lb == tr, la * la - tr * la + det == 0])
if len(atan2_args) != 1:
    die('%d atan2 calls, 1 expected' % len(atan2_args))
prove('bearing_args', z3.And(atan2_args[0][0] == 2 * cyx, atan2_args[0][1] == cxx - cyy))
sys.exit(0)
