// search for a network whose error-ellipse bearing is returned as exactly pi (instead of 0), and conf_pr(NaN)
#include <gnu_gama/local/network.h>
#include <gnu_gama/xml/gkfparser.h>
#include <gnu_gama/local/language.h>
#include <cstdio>
#include <cmath>
#include <string>
#include <sstream>
#include <limits>
using namespace GNU_gama::local;
int main()
{
  set_gama_language(en);
  int hits = 0, tried = 0;
  for (int px = 50; px <= 50 && hits < 3; px += 7)
    for (int py = 3; py <= 97 && hits < 3; py += 1)
      for (int k = 0; k < 3 && hits < 3; k++) {
        std::ostringstream g;
        g.precision(12);
        double dA = std::hypot(px, py), dB = std::hypot(100.0 - px, py), dC = std::hypot(px, 100.0 - py), dD = std::hypot(100.0-px, 100.0-py);
        g << "<?xml version=\"1.0\" ?>\n<gama-local xmlns=\"http://www.gnu.org/software/gama/gama-local\">\n<network axes-xy=\"ne\" angles=\"left-handed\">\n"
          << "<parameters sigma-apr=\"10\" conf-pr=\"0.95\" tol-abs=\"1000\" sigma-act=\"apriori\"/>\n<points-observations distance-stdev=\"5.0\">\n"
          << "<point id=\"A\" x=\"0\" y=\"0\" fix=\"xy\"/>\n<point id=\"B\" x=\"100\" y=\"0\" fix=\"xy\"/>\n<point id=\"C\" x=\"0\" y=\"100\" fix=\"xy\"/>\n<point id=\"D\" x=\"100\" y=\"100\" fix=\"xy\"/>\n"
          << "<point id=\"P\" x=\"" << px << "\" y=\"" << py << "\" adj=\"xy\"/>\n<obs from=\"P\">\n"
          << "<distance to=\"A\" val=\"" << dA << "\"/>\n<distance to=\"B\" val=\"" << dB << "\"/>\n";
        if (k >= 1) g << "<distance to=\"C\" val=\"" << dC << "\"/>\n";
        if (k >= 2) g << "<distance to=\"D\" val=\"" << dD << "\"/>\n";
        g << "</obs>\n</points-observations>\n</network>\n</gama-local>\n";
        std::string t = g.str();
        LocalNetwork net;
        GKFparser p(net);
        p.xml_parse(t.c_str(), t.size(), 1);
        net.set_algorithm("envelope");
        try { net.solve(); } catch (...) { continue; }
        double a, b, alfa;
        net.std_error_ellipse(PointID("P"), a, b, alfa);
        tried++;
        if (alfa >= M_PI) {
          hits++;
          int ix = net.PD[PointID("P")].index_x(), iy = net.PD[PointID("P")].index_y();
          std::printf("P=(%d,%d) %d distances: a=%.6g b=%.6g alfa=%.17g (M_PI=%.17g) cxx=%.17g cyy=%.17g cyx=%.17g\n", px, py, 2 + k, a, b, alfa, M_PI,
                      net.qxx(ix, ix), net.qxx(iy, iy), net.qxx(iy, ix));
        }
      }
  std::printf("%d networks adjusted, %d with bearing == pi\n", tried, hits);
  LocalNetwork n2;
  bool thrown = false;
  try { n2.conf_pr(std::numeric_limits<double>::quiet_NaN()); } catch (...) { thrown = true; }
  std::printf("conf_pr(NaN): %s, conf_pr() = %g\n", thrown ? "rejected" : "ACCEPTED", n2.conf_pr());
  return hits ? 1 : 0;
}
