/* Sidecar contracts for the statistics of GNU_gama::local::LocalNetwork (network.cpp / network.h), property C09
   "reported statistics are consistent with the adjustment they describe" (DESIGN.md 5 C09).  Clause by clause:
     degrees of freedom = observations - unknowns + defect                       -> degrees_of_freedom
     a posteriori reference deviation = sqrt(v'Pv / dof)                         -> m_0, m_0_aposteriori_value
     standard deviation = actual reference deviation * sqrt(cofactor)            -> unknown_stdev, stdev_res
     coefficient = Normal or Student selected by the reference-deviation type    -> conf_int_coef
     conf-pr in (0,1)                                                            -> conf_pr
     ellipse axes / bearing = eigen-decomposition of the 2x2 cofactor block      -> std_error_ellipse
   Bodies are extracted from /repo on every run; vyrovnani_, the solver interface, Normal, Student, sqrt, atan2
   are stubs with assumed contracts. */

//@ prelude
#include "../network_update/netmodel.h"

/* ---- ghost recorders for the special functions --------------------------------------------------- */
int    gv_normal_calls, gv_student_calls;
double gv_normal_arg, gv_normal_ret;
double gv_student_arg, gv_student_ret;
int    gv_student_n;

static double gv_Normal(double alfa)
{
  gv_normal_calls++;
  gv_normal_arg = alfa;
  double r;
  __CPROVER_assume(r == r);
  gv_normal_ret = r;
  return r;
}
static double gv_Student(double alfa, int N)
{
  gv_student_calls++;
  gv_student_arg = alfa;
  gv_student_n = N;
  double r;
  __CPROVER_assume(r == r);
  gv_student_ret = r;
  return r;
}

/* sqrt: assumed contract of a correctly rounded IEEE-754 square root (trusted base), with a record of the
   first four calls.  For 0 <= x < +inf:  r >= 0;  r == 0 iff x == 0;  r*r is within 4 eps (relative) of x for
   x in the normal range [1e-290, 1e290];  monotone with respect to the previous call. */
#define SQRT_REL_OK(x, r) ((r) * (r) >= (x) * (1 - 4 * DBL_EPSILON) && (r) * (r) <= (x) * (1 + 4 * DBL_EPSILON))
int    gv_sqrt_calls;
double gv_sqrt_arg[4], gv_sqrt_ret[4];
static double gv_sqrt_rec(double x)
{
  __CPROVER_assert(x >= 0, "sqrt argument is non-negative (and not NaN)");
  double r;
  __CPROVER_assume(r >= 0 && (x > 0 ? r > 0 : r == 0));
#ifdef GV_SQRT_REL
  __CPROVER_assume(!(x >= 1e-290 && x <= 1e290) || SQRT_REL_OK(x, r));
#endif
  __CPROVER_assume(!(x < 1.0 / 0.0) || r < 1.0 / 0.0);
  if (gv_sqrt_calls >= 1 && gv_sqrt_calls <= 4) {
    double px = gv_sqrt_arg[gv_sqrt_calls - 1], pr = gv_sqrt_ret[gv_sqrt_calls - 1];
    __CPROVER_assume((x >= px ? r >= pr : r <= pr) && (x == px ? r == pr : 1));
  }
  if (gv_sqrt_calls >= 0 && gv_sqrt_calls < 4) {
    gv_sqrt_arg[gv_sqrt_calls] = x;
    gv_sqrt_ret[gv_sqrt_calls] = r;
  }
  gv_sqrt_calls++;
  return r;
}
/* recorded division (lowering of `trans_VWV()/nadb`): same IEEE operation, operands and quotient kept in ghosts */
double gv_div_num, gv_div_q;
int    gv_div_den, gv_div_calls;
static double gv_div_rec(double x, int n)
{
  double q = x / n;
  gv_div_num = x;
  gv_div_den = n;
  gv_div_q = q;
  gv_div_calls++;
  return q;
}
/* recorded product (lowering of `m_0()*sqrt(..)`): same IEEE operation, operands and product kept in ghosts */
double gv_wcoef_val;               /* ghost: the value of vahkopr(i) */
double gv_mul_a, gv_mul_b, gv_mul_p;
int    gv_mul_calls;
static double gv_mul_rec(double x, double y)
{
  double p = x * y;
  gv_mul_a = x;
  gv_mul_b = y;
  gv_mul_p = p;
  gv_mul_calls++;
  return p;
}
/* C++ leaves the evaluation order of the operands of `*` unspecified; both orders are checked (GV_EVAL_RL);
   an exception raised by the first operand propagates before the second one is evaluated (rule R11) */
#ifdef GV_EVAL_RL
#define GV_MUL(x, y) ({ double gv_y_ = (y); if (gv_exc) return GV_RET; double gv_x_ = (x); if (gv_exc) return GV_RET; gv_mul_rec(gv_x_, gv_y_); })
#else
#define GV_MUL(x, y) ({ double gv_x_ = (x); if (gv_exc) return GV_RET; double gv_y_ = (y); if (gv_exc) return GV_RET; gv_mul_rec(gv_x_, gv_y_); })
#endif
static double gv_fabs(double x) { return x < 0 ? -x : x; }

/* atan2: assumed range contract; arguments recorded */
#ifndef M_PI
#define M_PI 3.14159265358979323846
#endif
double gv_atan2_y, gv_atan2_x, gv_atan2_ret;
int    gv_atan2_calls;
static double gv_atan2(double y, double x)
{
  __CPROVER_assert(y == y && x == x, "atan2 arguments are numbers");
  double r;
  __CPROVER_assume(r >= -M_PI && r <= M_PI);
#ifdef GV_EXCL_ALFA_PI
  __CPROVER_assume(!(r < 0 && r / 2 + M_PI >= M_PI));   /* exclusion predicate of the bearing == pi finding */
#endif
  gv_atan2_calls++;
  gv_atan2_y = y;
  gv_atan2_x = x;
  gv_atan2_ret = r;
  return r;
}

/* ---- cofactors: one value per question (an uninterpreted function of the indices) ------------------ */
double __CPROVER_uninterpreted_qxx(int, int);
#define QXX(i, j) __CPROVER_uninterpreted_qxx((i), (j))
int gv_qxx_unguarded;      /* ghost: number of cofactor reads made while the adjustment flag was false */
static double gvs_q_xx(struct AdjBase *ls, int i, int j)
{
  __CPROVER_assert(ls != NULL, "least_squares is non-null when q_xx is read");
  __CPROVER_assert(gv_net->tst_vyrovnani_, "cofactor q_xx is read only while the adjustment flag is true");
  return QXX(i, j);
}

/* ---- ellipse: minimal point model -------------------------------------------------------------------- */
typedef int PointID;                                     /* opaque key */
struct ellipse_par { double GVF_a, GVF_b, GVF_alfa; };   /* ellipse_par: a, b, alfa */
struct LocalPoint { int index_x_f, index_y_f; };
struct LocalPoint gv_point;                              /* the point PD[cb] */
const struct ellipse_par *gv_stash;                      /* result of stashed_ellipses.find(cb): NULL == end() */
static const struct ellipse_par *gv_stash_find(struct LocalNetwork *self, PointID cb) { return gv_stash; }
static const struct LocalPoint *gv_PD_at(struct LocalNetwork *self, PointID cb) { return &gv_point; }
#define LocalPoint_index_x(p) ((p)->index_x_f)           /* rule R13: one-line getters as fields */
#define LocalPoint_index_y(p) ((p)->index_y_f)

#define STAT_PRE(self) (__CPROVER_rw_ok(self, sizeof(*self)) && gv_exc == 0 && NET_INV(self) && self == gv_net && \
                        self->m_0_apr_ > 0 && self->m_0_apr_ < 1e100 /* sigma-apr > 0 (quantifier of C09) */)
#define DOF(self) (self->A.row_ - self->A.col_ + gv_defect)
#define SAME_D(a, b) ((a) == (b) || ((a) != (a) && (b) != (b)))   /* equal doubles (NaN == NaN) */

#define EK(self) (APOST_POS(self) ? 1 : 0)   /* m_0() a posteriori consumes one sqrt call between c and the axes */
#define CXX QXX(gv_point.index_x_f, gv_point.index_x_f)
#define CYY QXX(gv_point.index_y_f, gv_point.index_y_f)
#define CYX QXX(gv_point.index_y_f, gv_point.index_x_f)
#define QUOT_AT(k) (gv_div_calls == 1 && gv_div_num == self->suma_pvv_ && gv_div_den == DOF(self) && gv_sqrt_arg[k] == gv_div_q)
#define ABSD(x) ((x) < 0 ? -(x) : (x))
#define APOST_POS(self) (self->typ_m_0_ == empiricka_ && DOF(self) > 0)
/* "standard deviation = actual reference deviation * sqrt(cofactor)" in terms of the recorded sqrt calls */
#define STDEV_POST(COF)                                                                                          \
  __CPROVER_ensures(gv_exc == 0 ==> (gv_mul_calls == 1 && SAME_D(__CPROVER_return_value, gv_mul_p)))             \
  __CPROVER_ensures((gv_exc == 0 && self->typ_m_0_ == apriorni_) ==>                                             \
                    (gv_sqrt_calls == 1 && gv_sqrt_arg[0] == (COF) && gv_mul_a == self->m_0_apr_ && gv_mul_b == gv_sqrt_ret[0])) \
  __CPROVER_ensures((gv_exc == 0 && APOST_POS(self)) ==>                                                         \
                    (gv_sqrt_calls == 2 &&                                                                       \
                     ((QUOT_AT(0) && gv_sqrt_arg[1] == (COF) && gv_mul_a == gv_sqrt_ret[0] && gv_mul_b == gv_sqrt_ret[1]) || \
                      (QUOT_AT(1) && gv_sqrt_arg[0] == (COF) && gv_mul_a == gv_sqrt_ret[1] && gv_mul_b == gv_sqrt_ret[0])))) \
  __CPROVER_ensures((gv_exc == 0 && self->typ_m_0_ == empiricka_ && DOF(self) <= 0) ==>                          \
                    (gv_mul_a == 0 && gv_sqrt_arg[0] == (COF) && gv_mul_b == gv_sqrt_ret[0] && __CPROVER_return_value == 0))

/* contract stub of m_0() for its callers (the contract is the one enforced on the extracted m_0 below) */
#define M0_CONTRACT                                                                                              \
  __CPROVER_requires(STAT_PRE(self))                                                                             \
  __CPROVER_assigns(NET_STAGE_FRAME(self), gv_sqrt_calls, __CPROVER_object_whole(gv_sqrt_arg), __CPROVER_object_whole(gv_sqrt_ret), gv_div_num, gv_div_q, gv_div_den, gv_div_calls) \
  __CPROVER_ensures(NET_INV(self))                                                                               \
  __CPROVER_ensures((self->typ_m_0_ != apriorni_ && self->typ_m_0_ != empiricka_) ==> gv_exc != 0)               \
  __CPROVER_ensures((gv_exc == 0 && self->typ_m_0_ == apriorni_) ==>                                             \
                    (__CPROVER_return_value == self->m_0_apr_ && NET_FLAGS_UNCHANGED(self) && gv_sqrt_calls == __CPROVER_old(gv_sqrt_calls))) \
  __CPROVER_ensures((gv_exc == 0 && self->typ_m_0_ == empiricka_) ==> self->tst_vyrovnani_)                      \
  __CPROVER_ensures((gv_exc == 0 && self->typ_m_0_ == empiricka_ && DOF(self) <= 0) ==>                          \
                    (__CPROVER_return_value == 0 && gv_sqrt_calls == __CPROVER_old(gv_sqrt_calls)))              \
  __CPROVER_ensures((gv_exc == 0 && self->typ_m_0_ == empiricka_ && DOF(self) > 0) ==>                           \
                    (gv_sqrt_calls == __CPROVER_old(gv_sqrt_calls) + 1 && __CPROVER_return_value >= 0))          \
  __CPROVER_ensures((gv_exc == 0 && self->typ_m_0_ == empiricka_ && DOF(self) > 0 && __CPROVER_old(gv_sqrt_calls) == 0) ==> \
                    ((gv_div_calls == 1 && gv_div_num == self->suma_pvv_ && gv_div_den == DOF(self) && gv_sqrt_arg[0] == gv_div_q) && __CPROVER_return_value == gv_sqrt_ret[0])) \
  __CPROVER_ensures(gv_exc == 0 ==> (__CPROVER_return_value >= 0 && __CPROVER_return_value < 1.0 / 0.0))

//@ end

/* ------------------------------------------------------------------------------------------------ */
//@ contract Mat_rows
__CPROVER_requires(__CPROVER_r_ok(self, sizeof(*self)))
__CPROVER_assigns()
__CPROVER_ensures(__CPROVER_return_value == self->row_)
//@ contract Mat_cols
__CPROVER_requires(__CPROVER_r_ok(self, sizeof(*self)))
__CPROVER_assigns()
__CPROVER_ensures(__CPROVER_return_value == self->col_)
//@ contract Vec_at_const
__CPROVER_requires(__CPROVER_r_ok(self, sizeof(*self)))
__CPROVER_requires(1 <= n && n <= self->sz && __CPROVER_r_ok(self->rep, (size_t)self->sz * sizeof(Float)))
__CPROVER_assigns()
__CPROVER_ensures(SAME_D(__CPROVER_return_value, self->rep[n - 1]))
//@ contract LocalNetwork_m_0_apriori
__CPROVER_requires(__CPROVER_r_ok(self, sizeof(*self)))
__CPROVER_assigns()
__CPROVER_ensures(__CPROVER_return_value == (self->typ_m_0_ == apriorni_))
//@ contract LocalNetwork_m_0_aposteriori
__CPROVER_requires(__CPROVER_r_ok(self, sizeof(*self)))
__CPROVER_assigns()
__CPROVER_ensures(__CPROVER_return_value == (self->typ_m_0_ == empiricka_))
//@ end

/* ---- clause 1: degrees of freedom = observations - unknowns + defect (exact integers) ---------------- */
//@ contract LocalNetwork_degrees_of_freedom
__CPROVER_requires(STAT_PRE(self))
__CPROVER_assigns(NET_STAGE_FRAME(self))
__CPROVER_ensures(NET_INV(self))
__CPROVER_ensures(gv_exc == 0 ==> (self->tst_vyrovnani_ && __CPROVER_return_value == self->A.row_ - self->A.col_ + gv_defect &&
                                   self->A.row_ == self->pocmer_ /* rows = number of (revised) observations */))
__CPROVER_ensures(__CPROVER_old(self->tst_vyrovnani_) ==> (gv_exc == 0 && NET_FLAGS_UNCHANGED(self) &&
                  self->A.row_ == __CPROVER_old(self->A.row_) && self->A.col_ == __CPROVER_old(self->A.col_) &&
                  SAME_D(self->suma_pvv_, __CPROVER_old(self->suma_pvv_))))
//@ entry LocalNetwork_degrees_of_freedom
GV_CANARY("LocalNetwork_degrees_of_freedom entry");

//@ contract LocalNetwork_trans_VWV
__CPROVER_requires(STAT_PRE(self))
__CPROVER_assigns(NET_STAGE_FRAME(self))
__CPROVER_ensures(NET_INV(self))
__CPROVER_ensures(gv_exc == 0 ==> (self->tst_vyrovnani_ && __CPROVER_return_value == self->suma_pvv_))
__CPROVER_ensures(__CPROVER_old(self->tst_vyrovnani_) ==> (gv_exc == 0 && NET_FLAGS_UNCHANGED(self) &&
                  self->A.row_ == __CPROVER_old(self->A.row_) && self->A.col_ == __CPROVER_old(self->A.col_) &&
                  __CPROVER_return_value == __CPROVER_old(self->suma_pvv_) && self->suma_pvv_ == __CPROVER_old(self->suma_pvv_)))
//@ entry LocalNetwork_trans_VWV
GV_CANARY("LocalNetwork_trans_VWV entry");
//@ end

/* ---- clause 2: reference deviation -------------------------------------------------------------------- */
//@ contract LocalNetwork_m_0
M0_CONTRACT
//@ entry LocalNetwork_m_0
GV_CANARY("LocalNetwork_m_0 entry");

//@ contract LocalNetwork_m_0_aposteriori_value
__CPROVER_requires(STAT_PRE(self))
__CPROVER_assigns(NET_STAGE_FRAME(self), gv_sqrt_calls, __CPROVER_object_whole(gv_sqrt_arg), __CPROVER_object_whole(gv_sqrt_ret), gv_div_num, gv_div_q, gv_div_den, gv_div_calls)
__CPROVER_ensures(NET_INV(self))
__CPROVER_ensures(gv_exc == 0 ==> self->tst_vyrovnani_)
__CPROVER_ensures((gv_exc == 0 && DOF(self) <= 0) ==> (__CPROVER_return_value == 0 && gv_sqrt_calls == __CPROVER_old(gv_sqrt_calls)))
__CPROVER_ensures((gv_exc == 0 && DOF(self) > 0 && __CPROVER_old(gv_sqrt_calls) == 0) ==>
                  (gv_sqrt_calls == 1 && (gv_div_calls == 1 && gv_div_num == self->suma_pvv_ && gv_div_den == DOF(self) && gv_sqrt_arg[0] == gv_div_q) &&
                   __CPROVER_return_value == gv_sqrt_ret[0] && __CPROVER_return_value >= 0))
//@ entry LocalNetwork_m_0_aposteriori_value
GV_CANARY("LocalNetwork_m_0_aposteriori_value entry");
//@ end

/* ---- clause 4: coefficient selected by the reference-deviation type ----------------------------------- */
//@ contract LocalNetwork_conf_int_coef
__CPROVER_requires(STAT_PRE(self) && gv_normal_calls == 0 && gv_student_calls == 0)
__CPROVER_requires(self->konf_pr_ > 0 && self->konf_pr_ < 1)        /* established by conf_pr(p) */
__CPROVER_assigns(NET_STAGE_FRAME(self), gv_normal_calls, gv_normal_arg, gv_normal_ret, gv_student_calls, gv_student_arg, gv_student_ret, gv_student_n)
__CPROVER_ensures(NET_INV(self))
__CPROVER_ensures((self->typ_m_0_ != apriorni_ && self->typ_m_0_ != empiricka_) ==> (gv_exc != 0 && gv_normal_calls == 0 && gv_student_calls == 0))
/* a priori: exactly one call Normal((1-p)/2), its value returned, Student not consulted */
__CPROVER_ensures(self->typ_m_0_ == apriorni_ ==>
                  (gv_exc == 0 && gv_normal_calls == 1 && gv_student_calls == 0 && gv_normal_arg == (1 - self->konf_pr_) / 2 &&
                   __CPROVER_return_value == gv_normal_ret && NET_FLAGS_UNCHANGED(self)))
/* a posteriori, dof > 0: exactly one call Student((1-p)/2, dof), its value returned, Normal not consulted */
__CPROVER_ensures((gv_exc == 0 && self->typ_m_0_ == empiricka_ && DOF(self) > 0) ==>
                  (gv_student_calls == 1 && gv_normal_calls == 0 && gv_student_arg == (1 - self->konf_pr_) / 2 &&
                   gv_student_n == DOF(self) && __CPROVER_return_value == gv_student_ret && self->tst_vyrovnani_))
/* a posteriori, dof <= 0: no coefficient exists; 0 (the reference deviation is 0 as well) */
__CPROVER_ensures((gv_exc == 0 && self->typ_m_0_ == empiricka_ && DOF(self) <= 0) ==>
                  (gv_student_calls == 0 && gv_normal_calls == 0 && __CPROVER_return_value == 0 && self->tst_vyrovnani_))
/* the probability handed over lies in (0, 1/2]  (1/2 only by rounding of 1-p for p < 2^-53: coefficient 0) */
__CPROVER_ensures(gv_normal_calls == 1 ==> (gv_normal_arg > 0 && gv_normal_arg <= 0.5))
__CPROVER_ensures(gv_student_calls == 1 ==> (gv_student_arg > 0 && gv_student_arg <= 0.5))
//@ entry LocalNetwork_conf_int_coef
GV_CANARY("LocalNetwork_conf_int_coef entry");

/* conf_pr(p): accepts exactly the p in the open interval (0,1); everything else (NaN included) is rejected
   and leaves the stored probability untouched */
//@ contract LocalNetwork_conf_pr
__CPROVER_requires(__CPROVER_rw_ok(self, sizeof(*self)) && gv_exc == 0)
__CPROVER_assigns(self->konf_pr_, gv_exc)
__CPROVER_ensures((0 < p && p < 1) ==> (gv_exc == 0 && self->konf_pr_ == p))
__CPROVER_ensures((p <= 0 || p >= 1) ==> (gv_exc != 0 && SAME_D(self->konf_pr_, __CPROVER_old(self->konf_pr_))))
__CPROVER_ensures(p != p ==> (gv_exc != 0 && SAME_D(self->konf_pr_, __CPROVER_old(self->konf_pr_))))
__CPROVER_ensures(gv_exc == 0 ==> (0 < self->konf_pr_ && self->konf_pr_ < 1))
//@ entry LocalNetwork_conf_pr
GV_CANARY("LocalNetwork_conf_pr entry");
//@ end

/* ---- clause 3: standard deviation = reference deviation * sqrt(cofactor) ------------------------------ */
//@ contract LocalNetwork_unknown_stdev
__CPROVER_requires(STAT_PRE(self) && gv_sqrt_calls == 0)
__CPROVER_requires(self->tst_rov_opr_ ==> (1 <= i && i <= self->A.col_))
__CPROVER_requires(QXX(i, i) >= 0 && QXX(i, i) < 1e100)            /* diagonal cofactor (solver units / C03) */
__CPROVER_assigns(NET_STAGE_FRAME(self), gv_sqrt_calls, __CPROVER_object_whole(gv_sqrt_arg), __CPROVER_object_whole(gv_sqrt_ret), gv_div_num, gv_div_q, gv_div_den, gv_div_calls, gv_mul_a, gv_mul_b, gv_mul_p, gv_mul_calls)
__CPROVER_ensures(NET_INV(self))
__CPROVER_ensures(gv_exc == 0 ==> self->tst_vyrovnani_)
STDEV_POST(QXX(i, i))
//@ entry LocalNetwork_unknown_stdev
GV_CANARY("LocalNetwork_unknown_stdev entry");
//@ end

/* wcoef_res(i) as seen by stdev_res: the read of the adjusted result vahkopr(i) is allowed only while the adjustment
   flag is true (obligation at the call site); its value is the ghost gv_wcoef_val.  Index / memory obligations of the
   element access are checked in unit network_update (vec_at, wcoef_res). */
//@ contract LocalNetwork_wcoef_res
__CPROVER_requires(__CPROVER_rw_ok(self, sizeof(*self)) && self == gv_net && gv_exc == 0 && NET_INV(self))
__CPROVER_assigns(NET_STAGE_FRAME(self))
__CPROVER_ensures(NET_INV(self))
__CPROVER_ensures(gv_exc == 0 ==> (self->tst_vyrovnani_ && __CPROVER_return_value == gv_wcoef_val))
/* when the call throws, C++ abandons the enclosing expression m_0()*sqrt(fabs(..)); the lowered C evaluates it and discards it: give it a harmless value */
__CPROVER_ensures(gv_exc != 0 ==> __CPROVER_return_value == 0)
__CPROVER_ensures(__CPROVER_old(self->tst_vyrovnani_) ==> (gv_exc == 0 && NET_FLAGS_UNCHANGED(self) && self->suma_pvv_ == __CPROVER_old(self->suma_pvv_) &&
                   self->A.col_ == __CPROVER_old(self->A.col_) && self->A.row_ == __CPROVER_old(self->A.row_) && self->pocmer_ == __CPROVER_old(self->pocmer_)))

//@ contract LocalNetwork_stdev_res
__CPROVER_requires(STAT_PRE(self) && gv_sqrt_calls == 0)
__CPROVER_requires(gv_wcoef_val == gv_wcoef_val && ABSD(gv_wcoef_val) < 1e100)   /* a weight coefficient is a finite number */
__CPROVER_assigns(NET_STAGE_FRAME(self), gv_sqrt_calls, __CPROVER_object_whole(gv_sqrt_arg), __CPROVER_object_whole(gv_sqrt_ret), gv_div_num, gv_div_q, gv_div_den, gv_div_calls, gv_mul_a, gv_mul_b, gv_mul_p, gv_mul_calls)
__CPROVER_ensures(NET_INV(self))
__CPROVER_ensures(gv_exc == 0 ==> self->tst_vyrovnani_)
STDEV_POST(ABSD(gv_wcoef_val))
//@ entry LocalNetwork_stdev_res
GV_CANARY("LocalNetwork_stdev_res entry");
//@ end

/* ---- clause 5: error ellipse = eigen-decomposition of the 2x2 cofactor block -------------------------- */
/* lambda_max = (cxx+cyy+c)/2, lambda_min = (cxx+cyy-c)/2 with c = sqrt((cxx-cyy)^2 + 4 cyx^2);
   a = m sqrt(lambda_max), b = m sqrt(lambda_min); bearing alfa = atan2(2 cyx, cxx-cyy)/2 reduced mod pi. */
//@ contract LocalNetwork_std_error_ellipse
__CPROVER_requires(STAT_PRE(self) && gv_sqrt_calls == 0 && gv_atan2_calls == 0)
__CPROVER_requires(__CPROVER_w_ok(a__p, sizeof(double)) && __CPROVER_w_ok(b__p, sizeof(double)) && __CPROVER_w_ok(alfa__p, sizeof(double)))
__CPROVER_requires(gv_stash == NULL || __CPROVER_r_ok(gv_stash, sizeof(*gv_stash)))
/* the point is an adjusted xy point of the current adjustment */
__CPROVER_requires(gv_stash == NULL ==> (self->tst_vyrovnani_ && 1 <= gv_point.index_x_f && gv_point.index_x_f <= self->A.col_ &&
                                          1 <= gv_point.index_y_f && gv_point.index_y_f <= self->A.col_))
/* its 2x2 cofactor block is positive semidefinite with moderate magnitudes (solver units / C03) */
__CPROVER_requires(CXX >= 0 && CYY >= 0 && CXX <= 1e100 && CYY <= 1e100 && CYX >= -1e100 && CYX <= 1e100 && CYX * CYX <= CXX * CYY)
__CPROVER_assigns(NET_STAGE_FRAME(self), *a__p, *b__p, *alfa__p, gv_sqrt_calls, __CPROVER_object_whole(gv_sqrt_arg),
                  __CPROVER_object_whole(gv_sqrt_ret), gv_div_num, gv_div_q, gv_div_den, gv_div_calls, gv_atan2_calls, gv_atan2_y, gv_atan2_x, gv_atan2_ret)
__CPROVER_ensures(NET_INV(self))
/* stashed ellipse: returned verbatim, nothing computed */
__CPROVER_ensures(gv_stash != NULL ==> (gv_exc == 0 && SAME_D(*a__p, gv_stash->GVF_a) && SAME_D(*b__p, gv_stash->GVF_b) &&
                                        SAME_D(*alfa__p, gv_stash->GVF_alfa) && gv_sqrt_calls == 0))
#if GV_ELLIPSE_PART == 1
/* call structure: cofactors are read (flag-guarded, see gvs_q_xx), three square roots (discriminant, lambda_max,
   lambda_min) plus the one inside m_0() a posteriori; both semi-axes are non-negative numbers; a posteriori with
   dof <= 0 both are 0.  (The algebra of the formulas is the z3 check ellipse_algebra on the same extracted text.) */
__CPROVER_ensures((gv_stash == NULL && gv_exc == 0) ==> (gv_sqrt_calls == 3 + EK(self) && *a__p >= 0 && *b__p >= 0))
__CPROVER_ensures((gv_stash == NULL && gv_exc == 0 && APOST_POS(self)) ==> QUOT_AT(1))
__CPROVER_ensures((gv_stash == NULL && gv_exc == 0 && self->typ_m_0_ == empiricka_ && DOF(self) <= 0) ==> (*a__p == 0 && *b__p == 0))
__CPROVER_ensures((gv_stash == NULL && self->typ_m_0_ != apriorni_ && self->typ_m_0_ != empiricka_) ==> gv_exc != 0)
#endif
#if GV_ELLIPSE_PART == 2
/* bearing: 0 for a circle (c == 0); otherwise half the atan2 of (2 cyx, cxx - cyy), reduced into [0, pi] */
__CPROVER_ensures((gv_stash == NULL && gv_exc == 0 && gv_sqrt_ret[0] == 0) ==> (*alfa__p == 0 && gv_atan2_calls == 0))
__CPROVER_ensures((gv_stash == NULL && gv_exc == 0 && gv_sqrt_ret[0] != 0) ==>
                  (gv_atan2_calls == 1 && *alfa__p == (gv_atan2_ret / 2 < 0 ? gv_atan2_ret / 2 + M_PI : gv_atan2_ret / 2)))
__CPROVER_ensures((gv_stash == NULL && gv_exc == 0) ==> (0 <= *alfa__p && *alfa__p <= M_PI))
#endif
#if GV_ELLIPSE_PART == 3
/* the half-open range [0, pi) of DESIGN.md / a bearing of an undirected axis */
__CPROVER_ensures((gv_stash == NULL && gv_exc == 0) ==> (0 <= *alfa__p && *alfa__p < M_PI))
#endif
//@ entry LocalNetwork_std_error_ellipse
GV_CANARY("LocalNetwork_std_error_ellipse entry");
//@ end

//@ harness
/* stubs-with-contract for callers of m_0 (its contract is enforced on the extracted body in check m_0) */
#define H_STAT(hname, pre, call)                                                              \
  void hname(void)                                                                            \
  {                                                                                           \
    struct LocalNetwork N;                                                                    \
    struct AdjBase ls;                                                                        \
    mk_network(&N, &ls);                                                                      \
    __CPROVER_assume(N.m_0_apr_ > 0 && N.m_0_apr_ < 1e100);                                   \
    gv_normal_calls = gv_student_calls = gv_sqrt_calls = gv_atan2_calls = gv_div_calls = gv_mul_calls = 0;                  \
    int i, j;                                                                                 \
    double p;                                                                                 \
    pre;                                                                                      \
    call;                                                                                     \
    GV_CANARY(#hname " end");                                                                 \
  }
H_STAT(h_degrees_of_freedom, , int w_dof = LocalNetwork_degrees_of_freedom(&N))
H_STAT(h_trans_VWV, , double w_v = LocalNetwork_trans_VWV(&N))
H_STAT(h_m_0, , double w_m0 = LocalNetwork_m_0(&N))
H_STAT(h_m_0_aposteriori_value, , double w_m0 = LocalNetwork_m_0_aposteriori_value(&N))
H_STAT(h_conf_int_coef, __CPROVER_assume(N.konf_pr_ > 0 && N.konf_pr_ < 1), double w_c = LocalNetwork_conf_int_coef(&N))
#ifdef GV_EXCL_CONF_PR_NAN
#define CONF_PR_EXCL __CPROVER_assume(p == p)
#else
#define CONF_PR_EXCL
#endif
H_STAT(h_conf_pr, CONF_PR_EXCL, double w_p = p; LocalNetwork_conf_pr(&N, p))
#ifdef GV_EXCL_APRIORI_UNGUARDED
#define UNGUARDED_EXCL __CPROVER_assume(N.typ_m_0_ != apriorni_ || N.tst_vyrovnani_)
#else
#define UNGUARDED_EXCL
#endif
H_STAT(h_unknown_stdev, UNGUARDED_EXCL; __CPROVER_assume((!N.tst_rov_opr_ || (1 <= i && i <= N.A.col_)) && QXX(i, i) >= 0 && QXX(i, i) < 1e100),
       double w_s = LocalNetwork_unknown_stdev(&N, i))
H_STAT(h_stdev_res, UNGUARDED_EXCL; __CPROVER_assume(gv_wcoef_val == gv_wcoef_val && ABSD(gv_wcoef_val) < 1e100), double w_s = LocalNetwork_stdev_res(&N, i))

void h_ellipse(void)
{
  struct LocalNetwork N;
  struct AdjBase ls;
  mk_network(&N, &ls);
  __CPROVER_assume(N.m_0_apr_ > 0 && N.m_0_apr_ < 1e100);
  gv_normal_calls = gv_student_calls = gv_sqrt_calls = gv_atan2_calls = gv_div_calls = gv_mul_calls = 0;
  struct ellipse_par st;
  bool stashed;
  gv_stash = stashed ? &st : NULL;
  if (!stashed)
    __CPROVER_assume(N.tst_vyrovnani_ && 1 <= gv_point.index_x_f && gv_point.index_x_f <= N.A.col_ && 1 <= gv_point.index_y_f &&
                     gv_point.index_y_f <= N.A.col_);
  __CPROVER_assume(CXX >= 0 && CYY >= 0 && CXX <= 1e100 && CYY <= 1e100 && CYX >= -1e100 && CYX <= 1e100 && CYX * CYX <= CXX * CYY);
  double a, b, alfa;
  PointID cb;
  double w_cxx = CXX, w_cyy = CYY, w_cyx = CYX;
  LocalNetwork_std_error_ellipse(&N, cb, &a, &b, &alfa);
  GV_CANARY("h_ellipse end");
}
//@ end
