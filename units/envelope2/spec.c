/* Sidecar contracts for lib/gnu_gama/adj/envelope.h, second unit: the functions that BUILD an envelope
   (Envelope<double,int>::inverse, copy, set(bands), set(sparse matrix, graph, ordering)).
   Only contracts, ghost declarations and harnesses live here; the bodies are extracted from /repo on every run.

   Structure invariant (ghost-index form, same WF_ROW as units/envelope, plus the facts the builders establish):
     WF_SHAPE(E)      dimensions in range, diag_/xenv_ allocated; env_ allocated unless the profile is empty
     WF_ENDS(E)       xenv_[1] == env_ and xenv_[dim_+1] == env_ + env_size   (rows tile env_ exactly)
     WF_ROW(E, r)     row r lies inside env_, is ordered, aligned, and has at most r-1 elements      (1 <= r <= dim_)
     WF_MONO(E, r, s) r <= s  ==>  xenv_[r] <= xenv_[s]                                               (1 <= r, s <= dim_+1)
   The quantified facts are used at range-checked indices (GV_INST) and established for harness-chosen ghost indices. */

//@ prelude
typedef double Float;
typedef int Index;
#define Float(...) ((double)(__VA_ARGS__ + 0))   /* rule R3: Float() / Float(x) value construction */
#define Index(...) ((int)(__VA_ARGS__ + 0))

struct Envelope {
  Index   dim_;
  Index   defect_;
  Float  *diag_;
  Float  *env_;
  Float **xenv_;
  long    gv_env_size;   /* ghost: number of Floats in env_ (the C++ object does not store it) */
};
#define GV_ENV_DEFAULT { 0, 0, NULL, NULL, NULL, 0 }   /* the default member initialisers of class Envelope */

int   gv_exc;
Index gv_k0;    /* ghost row index (forall-introduction in postconditions)              */
Index gv_k1;    /* second ghost row index (monotonicity of non-adjacent row pointers)   */
long  gv_e0;    /* ghost element index inside a row / inside env_                       */
Index gv_n;     /* set(bands): number of rows handed in */
long  gv_m;     /* set(bands): number of envelope elements handed in */
long *gv_cum;   /* set(bands): ghost prefix sums of the band widths, gv_cum[0..gv_n] */
long  gv_o0, gv_l0;   /* names for the offset (in elements) and the length of ghost row gv_k0  */
#define FSZ ((long)sizeof(Float))
#define PSZ ((long)sizeof(Float *))
#define ISZ ((long)sizeof(Index))
#define MAXDIM 1000000
#define MAXENV 100000000L
#define FEQ(a, b) ((a) == (b) || ((a) != (a) && (b) != (b)))   /* copied value: NaN stays NaN */

/* signed / and % by 8 cost a full 64-bit divider circuit each in the SAT encoding: alignment is written with a bit mask,
   element offsets with a shift, the row-length bound with a multiplication (all exact for the non-negative offsets here) */
#define ALIGNED(x) ((((unsigned long)(x)) & 7ul) == 0)
#define ELOFF(p) ((long)(((unsigned long)__CPROVER_POINTER_OFFSET(p)) >> 3))
#define WF_ROW(E, r)                                                                                   \
  (SAME((E)->xenv_[r], (E)->env_) && SAME((E)->xenv_[(r) + 1], (E)->env_) &&                           \
   OFF((E)->xenv_[r]) >= 0 && OFF((E)->xenv_[r]) <= OFF((E)->xenv_[(r) + 1]) &&                        \
   OFF((E)->xenv_[(r) + 1]) <= (E)->gv_env_size * FSZ && ALIGNED(OFF((E)->xenv_[r])) &&                \
   ALIGNED(OFF((E)->xenv_[(r) + 1])) &&                                                                \
   OFF((E)->xenv_[(r) + 1]) - OFF((E)->xenv_[r]) <= FSZ * ((long)(r)-1))
#define ROWLEN(E, r) ((OFF((E)->xenv_[(r) + 1]) - OFF((E)->xenv_[r])) / FSZ)
#define ROW_IN(E, r) (1 <= (r) && (r) <= (E)->dim_)
#define PTR_IN(E, r) ((E)->dim_ >= 1 && 1 <= (r) && (r) <= (E)->dim_ + 1)

/* An empty profile has env_ == nullptr in the C++ object (inverse/copy/set leave it so when env_size == 0).  C++ defines
   nullptr - nullptr and nullptr + 0, which the code then computes (t += bw, e - b); the C front end reports them.  As in
   units/envelope the null profile is therefore REPRESENTED by the base of an empty heap object: the builders' ghost block
   `gvsize` maps a null env_ to such an object right after the allocation statement.  The representation is faithful because
   the code never dereferences, null-tests or (other than by delete[], a no-op on both) inspects an empty profile's pointer;
   a dereference of it is still reported (empty object: every access is out of bounds). */
#define ENV_OK(E) (__CPROVER_rw_ok((E)->env_, (E)->gv_env_size * sizeof(Float)))
static Float *gv_null_profile(void) { Float *p = malloc(0); __CPROVER_assume(p != NULL); return p; }
#define GV_SET_ENV_SIZE(S, n) do { (S)->gv_env_size = (n); if ((S)->env_ == NULL) (S)->env_ = gv_null_profile(); } while (0)
#define WF_SHAPE(E)                                                                                    \
  ((E)->dim_ >= 1 && (E)->dim_ <= MAXDIM && (E)->gv_env_size >= 0 && (E)->gv_env_size <= MAXENV &&     \
   __CPROVER_rw_ok((E)->diag_, (E)->dim_ * sizeof(Float)) &&                                           \
   __CPROVER_rw_ok((E)->xenv_, ((E)->dim_ + 2) * sizeof(Float *)) && ENV_OK(E))
#define WF_ENDS(E)                                                                                     \
  (SAME((E)->xenv_[1], (E)->env_) && OFF((E)->xenv_[1]) == 0 && OFF((E)->env_) == 0 &&                 \
   SAME((E)->xenv_[(E)->dim_ + 1], (E)->env_) && OFF((E)->xenv_[(E)->dim_ + 1]) == (E)->gv_env_size * FSZ)
#define WF_MONO(E, r, s) ((r) <= (s) ==> OFF((E)->xenv_[r]) <= OFF((E)->xenv_[s]))
#define WF_ALL0(E) ((E)->dim_ == 0 || (WF_SHAPE(E) && WF_ENDS(E)))

/* band widths handed to set(): band(r) = bend[r-1] in [0, r-1], gv_cum its prefix sums (non-decreasing, total gv_m) */
#define CUM_AX(bend, r) (0 <= (bend)[(r)-1] && (bend)[(r)-1] <= (r)-1 && 0 <= gv_cum[(r)-1] &&              \
                         gv_cum[r] == gv_cum[(r)-1] + (bend)[(r)-1] && gv_cum[r] <= gv_m)

/* the closed form that inverse() and copy() establish: row pointer r of S is row pointer r of C moved into S->env_ */
#define SHIFT(S, C, r) (SAME((S)->xenv_[r], (S)->env_) && OFF((S)->xenv_[r]) == OFF((C)->xenv_[r]))   /* C->xenv_[1] has offset 0: WF_ENDS(C) */
/* the same facts over row pointers that a ghost block has loaded once (fewer array reads for the solver) */
#define SHIFTP(S, sp, cp) (SAME(sp, (S)->env_) && OFF(sp) == OFF(cp))
#define ROWP(E, r, pb, pe)                                                                             \
  (SAME(pb, (E)->env_) && SAME(pe, (E)->env_) && OFF(pb) >= 0 && OFF(pb) <= OFF(pe) &&                 \
   OFF(pe) <= (E)->gv_env_size * FSZ && ALIGNED(OFF(pb)) && ALIGNED(OFF(pe)) &&                        \
   OFF(pe) - OFF(pb) <= FSZ * ((long)(r)-1))

/* forall-elimination of a fact that THIS function has established for an arbitrary ghost index earlier on (the object it
   speaks about is not assigned in between: it is in no later assigns clause) */
#define GV_INST_EST(range, fact) do { __CPROVER_assert(range, "instantiation index in range: " #range); \
                                      __CPROVER_assume(fact); } while (0)

/* Proof splitting.  dfcc (CBMC 6.11) instantiates every loop body twice (base case and step case), so the innermost bodies of
   inverse()'s depth-3 nest appear 8 times and the whole function does not fit into one SAT instance (> 24 GB).  The proof of
   Envelope_inverse is therefore split over two checks that use the SAME contract and the SAME loop contracts:
     GV_PART=1 (check inverse_a): everything except the BODY of loop 5 (which contains loop 6);
     GV_PART=2 (check inverse_b): everything except the BODIES of loops 3 and 4.
   GV_CUT ends the paths that enter a body which the other check verifies; the loop itself is still passed through its
   contract (havoc, assume invariant, exit condition), exactly as it is when its body has been verified.  Every loop body is
   verified in at least one check (loop 1 and the body of loop 2 in both); GV_BODY is a reachability canary for each body
   that a check does verify. */
#ifndef GV_PART
#define GV_PART 0
#endif
#define GV_CUT(part, tag) do { if (GV_PART == (part)) __CPROVER_assume(0); else GV_CANARY(tag); } while (0)


/* ---- models of the callee accessors used by set(sparse matrix, graph, ordering) ----------------------------------
   SparseMatrix::columns/rows/begin/end/ibegin, SparseMatrixGraph::nodes/begin/end (const_iterator is `const Index*`,
   begin(i) = adjncy + xadj(i)), SparseMatrixOrdering::perm/invp (1-based IntegerList).  They are one-line accessors
   of the real classes (verified as such in units/smatrix and units/smatrix_ordering); here they are inlined models
   over plain structs, listed under trusted_base. */
struct GvSM    { Index rows_, cols_; Float *nonz; Index *cind; Index *rptr; long gv_nnz; };
struct GvGraph { Index nodes_; const Index *adjncy; const Index *xadj; long gv_nadj; };
struct GvOrd   { Index n; const Index *perm; const Index *invp; };
typedef const Index *const_iterator;
static Index SM_columns(const struct GvSM *sm) { return sm->cols_; }
static Index SM_rows(const struct GvSM *sm) { return sm->rows_; }
static Float *SM_begin(const struct GvSM *sm, Index r) { return sm->nonz + sm->rptr[r]; }
static Float *SM_end(const struct GvSM *sm, Index r) { return sm->nonz + sm->rptr[r + 1]; }
static Index *SM_ibegin(const struct GvSM *sm, Index r) { return sm->cind + sm->rptr[r]; }
static Index G_nodes(const struct GvGraph *g) { return g->nodes_; }
static const Index *G_begin(const struct GvGraph *g, Index i) { return g->adjncy + g->xadj[i]; }
static const Index *G_end(const struct GvGraph *g, Index i) { return g->adjncy + g->xadj[i + 1]; }
static Index O_perm(const struct GvOrd *o, Index k) { return o->perm[k]; }
static Index O_invp(const struct GvOrd *o, Index k) { return o->invp[k]; }
/* structure facts of the three inputs, ghost-index form */
#define MAXSD 10000      /* set(sparse): dimension bound under which the int sum env_size provably stays <= MAXENV */
#define G_ROW(g, i) (0 <= (g)->xadj[i] && (g)->xadj[i] <= (g)->xadj[(i) + 1] && (g)->xadj[(i) + 1] <= (g)->gv_nadj)   /* 1 <= i <= nodes */
#define G_ENT(g, p) (1 <= (g)->adjncy[p] && (g)->adjncy[p] <= (g)->nodes_)                                         /* 0 <= p < nadj   */
#define O_PERM(o, k) (1 <= (o)->perm[k] && (o)->perm[k] <= (o)->n)                                                  /* 1 <= k <= n     */
#define O_INVP(o, k) (1 <= (o)->invp[k] && (o)->invp[k] <= (o)->n)                                                  /* 1 <= k <= n     */
/* gv_cum[r] is the prefix sum of the band widths r' - min_neighbour[r'] (bounds first: the products/sums below cannot overflow) */
#define CUMDEF(r, total) (1 <= gv_mn[r] && gv_mn[r] <= (r) && 0 <= gv_cum[(r)-1] && gv_cum[(r)-1] <= gv_cum[r] && gv_cum[r] <= (total) && \
                          gv_cum[r] == gv_cum[(r)-1] + ((r) - gv_mn[r]))
Index *gv_mn;     /* ghost alias of the local array min_neighbour (set right after its allocation) */

struct Envelope;
void Envelope_copy(struct Envelope *self, const struct Envelope *envelope);
void Envelope_inverse(struct Envelope *self, const struct Envelope *chol);

/* harness helper: an arbitrary envelope satisfying WF_ALL0; row facts are instantiated at use sites.
*/
static void mk_envelope(struct Envelope *E, int allow0)
{
  Index d;
  long es;
  __CPROVER_assume(d >= (allow0 ? 0 : 1) && d <= MAXDIM && es >= 0 && es <= MAXENV);
  E->dim_ = d;
  if (d == 0) { E->defect_ = 0; E->diag_ = NULL; E->env_ = NULL; E->xenv_ = NULL; E->gv_env_size = 0; return; }
  E->gv_env_size = es;
  E->diag_ = malloc(d * sizeof(Float));
  E->xenv_ = malloc(((long)d + 2) * sizeof(Float *));
  E->env_ = malloc(es * sizeof(Float));      /* es == 0: the null profile, represented by an empty object */
  __CPROVER_assume(E->diag_ && E->xenv_ && E->env_);
  __CPROVER_assume(WF_ENDS(E));
}
//@ end

/* ------------------------------------------------------------------------------------------------ */
/* element(i,j): same contract text as in units/envelope (it is verified there; the two checks here repeat that on this
   unit's extraction because inverse() replaces the calls by this contract). */
//@ contract Envelope_element
__CPROVER_requires(WF_SHAPE(self))
__CPROVER_requires(1 <= i && i <= self->dim_ && 1 <= j && j <= self->dim_)
__CPROVER_requires(WF_ROW(self, GV_MAX(i, j)))
__CPROVER_assigns()
__CPROVER_ensures(i == j ==> __CPROVER_return_value == self->diag_ + (i - 1))
__CPROVER_ensures((i != j && GV_MAX(i, j) - GV_MIN(i, j) > ROWLEN(self, GV_MAX(i, j))) ==> __CPROVER_return_value == NULL)
__CPROVER_ensures((i != j && GV_MAX(i, j) - GV_MIN(i, j) <= ROWLEN(self, GV_MAX(i, j))) ==>
                  __CPROVER_return_value == self->xenv_[GV_MAX(i, j) + 1] - (GV_MAX(i, j) - GV_MIN(i, j)))
//@ entry Envelope_element
GV_CANARY("Envelope_element entry");
//@ contract Envelope_element_const
__CPROVER_requires(WF_SHAPE(self))
__CPROVER_requires(1 <= i && i <= self->dim_ && 1 <= j && j <= self->dim_)
__CPROVER_requires(WF_ROW(self, GV_MAX(i, j)))
__CPROVER_assigns()
__CPROVER_ensures(i == j ==> __CPROVER_return_value == self->diag_ + (i - 1))
__CPROVER_ensures((i != j && GV_MAX(i, j) - GV_MIN(i, j) > ROWLEN(self, GV_MAX(i, j))) ==> __CPROVER_return_value == NULL)
__CPROVER_ensures((i != j && GV_MAX(i, j) - GV_MIN(i, j) <= ROWLEN(self, GV_MAX(i, j))) ==>
                  __CPROVER_return_value == self->xenv_[GV_MAX(i, j) + 1] - (GV_MAX(i, j) - GV_MIN(i, j)))
//@ entry Envelope_element_const
GV_CANARY("Envelope_element_const entry");
//@ end

/* ------------------------------------------------------------------------------------------------ */
/* copy(envelope): `// diag = env = xenv = 0; ... set before calling copy()` is the stated precondition.
   Establishes the structure invariant for the copy (closed form SHIFT at ghost indices), copies all values. */
//@ contract Envelope_copy
__CPROVER_requires(__CPROVER_rw_ok(self, sizeof(struct Envelope)) && self != envelope)
__CPROVER_requires(self->diag_ == NULL && self->env_ == NULL && self->xenv_ == NULL && self->gv_env_size == 0)
__CPROVER_requires(WF_ALL0(envelope))
__CPROVER_assigns(self->dim_, self->diag_, self->env_, self->xenv_, self->gv_env_size)
__CPROVER_ensures(self->dim_ == envelope->dim_)
__CPROVER_ensures(self->dim_ == 0 ==> (self->diag_ == NULL && self->env_ == NULL && self->xenv_ == NULL))
__CPROVER_ensures(self->dim_ > 0 ==> (WF_SHAPE(self) && WF_ENDS(self) && self->gv_env_size == envelope->gv_env_size))
__CPROVER_ensures(self->dim_ > 0 ==> (__CPROVER_is_freeable(self->diag_) && __CPROVER_is_freeable(self->xenv_) &&
                                      __CPROVER_is_freeable(self->env_)))
__CPROVER_ensures(self->dim_ > 0 ==> (!SAME(self->diag_, envelope->diag_) && !SAME(self->xenv_, envelope->xenv_) &&
                                      !SAME(self->env_, envelope->env_)))
__CPROVER_ensures(PTR_IN(self, gv_k0) ==> SHIFT(self, envelope, gv_k0))
__CPROVER_ensures(PTR_IN(self, gv_k1) ==> SHIFT(self, envelope, gv_k1))
__CPROVER_ensures(ROW_IN(self, gv_k0) ==> SHIFT(self, envelope, gv_k0 + 1))
__CPROVER_ensures(ROW_IN(self, gv_k0) ==> FEQ(self->diag_[gv_k0 - 1], envelope->diag_[gv_k0 - 1]))
__CPROVER_ensures((self->dim_ > 0 && 0 <= gv_e0 && gv_e0 < self->gv_env_size) ==> FEQ(self->env_[gv_e0], envelope->env_[gv_e0]))
//@ entry Envelope_copy
GV_CANARY("Envelope_copy entry");
//@ at Envelope_copy gvsize
#include "ghost_begin.h"
GV_SET_ENV_SIZE(self, env_size);
#include "ghost_end.h"
//@ loop Envelope_copy 1
#include "ghost_begin.h"
__CPROVER_assigns(i, t, d, cd, __CPROVER_object_whole(self->diag_), __CPROVER_object_whole(self->xenv_))
__CPROVER_loop_invariant(1 <= i && i <= self->dim_ + 1 && SAME(t, self->env_) &&
                         OFF(t) == OFF(envelope->xenv_[i]) &&
                         SAME(d, self->diag_) && OFF(d) == FSZ * ((long)i - 1) &&
                         SAME(cd, envelope->diag_) && OFF(cd) == OFF(envelope->diag_) + FSZ * ((long)i - 1) &&
                         (1 < i ==> (SAME(self->xenv_[1], self->env_) && OFF(self->xenv_[1]) == 0)) &&
                         ((1 <= gv_k0 && gv_k0 < i) ==> SHIFT(self, envelope, gv_k0)) &&
                         ((1 <= gv_k0 && gv_k0 < i - 1) ==> SHIFT(self, envelope, gv_k0 + 1)) &&
                         ((1 <= gv_k1 && gv_k1 < i) ==> SHIFT(self, envelope, gv_k1)) &&
                         ((1 <= gv_k0 && gv_k0 < i) ==> FEQ(self->diag_[gv_k0 - 1], envelope->diag_[gv_k0 - 1])))
__CPROVER_decreases((long)self->dim_ + 1 - i)
#include "ghost_end.h"
//@ head Envelope_copy 1
#include "ghost_begin.h"
GV_ANCHOR(d, self->diag_ + (i - 1));
GV_INST(1 <= i && i <= envelope->dim_, WF_ROW(envelope, i));
#include "ghost_end.h"
//@ loop Envelope_copy 2
#include "ghost_begin.h"
__CPROVER_assigns(i, e, ce, __CPROVER_object_whole(self->env_))
__CPROVER_loop_invariant(1 <= i && i <= env_size + 1 && SAME(e, self->env_) && OFF(e) == FSZ * ((long)i - 1) &&
                         SAME(ce, envelope->env_) && OFF(ce) == OFF(envelope->env_) + FSZ * ((long)i - 1) &&
                         ((0 <= gv_e0 && gv_e0 < i - 1) ==> FEQ(self->env_[gv_e0], envelope->env_[gv_e0])))
__CPROVER_decreases((long)env_size + 1 - i)
#include "ghost_end.h"
//@ head Envelope_copy 2
#include "ghost_begin.h"
GV_ANCHOR(e, self->env_ + (i - 1));
#include "ghost_end.h"
//@ end

/* ------------------------------------------------------------------------------------------------ */
/* inverse(chol): the sparse inverse restricted to the profile of the factor.  Structural contract (C03-U1, C16-U3):
   S1  memory safety and frame for all well-formed factor envelopes (symbolic dimension and profile);
   S2  the result has the row structure of the factor (closed form SHIFT: row pointer r of the result sits at the same
       offset as row pointer r of the factor, hence equal row lengths, WF_ROW, WF_ENDS, WF_MONO carry over);
   S3  whenever u = chol.element(..) is non-null, the matching z = element(..) is non-null (named assertions z1, z2
       and the dereference checks of *z);
   S4  a row whose pivot in chol is zero is zeroed entirely: diagonal and every stored element of the row.
   Ghost naming of the arbitrary row gv_k0: it starts gv_o0 elements into env_ and has gv_l0 elements; gv_e0 is an
   arbitrary element index.  Envelope::element/begin/end/diagonal/clear are inlined (their real bodies are part of this proof). */
//@ contract Envelope_inverse
__CPROVER_requires(__CPROVER_rw_ok(self, sizeof(struct Envelope)) && self != chol)
__CPROVER_requires(WF_ALL0(chol))
__CPROVER_requires((self->diag_ == NULL || __CPROVER_is_freeable(self->diag_)) &&
                   (self->env_ == NULL || __CPROVER_is_freeable(self->env_)) &&
                   (self->xenv_ == NULL || __CPROVER_is_freeable(self->xenv_)))
__CPROVER_requires(chol->dim_ == 0 || ((self->diag_ == NULL || (!SAME(self->diag_, chol->diag_) && !SAME(self->diag_, chol->env_) && !SAME(self->diag_, chol->xenv_))) &&
                                       (self->env_ == NULL || (!SAME(self->env_, chol->diag_) && !SAME(self->env_, chol->env_) && !SAME(self->env_, chol->xenv_))) &&
                                       (self->xenv_ == NULL || (!SAME(self->xenv_, chol->diag_) && !SAME(self->xenv_, chol->env_) && !SAME(self->xenv_, chol->xenv_)))))
/* instance of the structure invariant at the ghost row, and the names of its offset and length (the bounds lose nothing:
   for a row in range they follow from WF_ROW and WF_SHAPE, otherwise the two names are not used) */
__CPROVER_requires(0 <= gv_o0 && gv_o0 <= MAXENV && 0 <= gv_l0 && gv_l0 <= MAXENV)
__CPROVER_requires(ROW_IN(chol, gv_k0) ==> (WF_ROW(chol, gv_k0) && OFF(chol->xenv_[gv_k0]) == FSZ * gv_o0 &&
                                            OFF(chol->xenv_[gv_k0 + 1]) == FSZ * (gv_o0 + gv_l0)))
__CPROVER_assigns(self->dim_, self->defect_, self->diag_, self->env_, self->xenv_, self->gv_env_size)
__CPROVER_frees(self->diag_, self->env_, self->xenv_)
__CPROVER_ensures(self->dim_ == chol->dim_ && self->defect_ == 0)
__CPROVER_ensures(self->dim_ == 0 ==> (self->diag_ == NULL && self->env_ == NULL && self->xenv_ == NULL))
__CPROVER_ensures(self->dim_ > 0 ==> (WF_SHAPE(self) && WF_ENDS(self) && self->gv_env_size == chol->gv_env_size))
__CPROVER_ensures(self->dim_ > 0 ==> (__CPROVER_is_freeable(self->diag_) && __CPROVER_is_freeable(self->xenv_) && __CPROVER_is_freeable(self->env_)))
__CPROVER_ensures(self->dim_ > 0 ==> (!SAME(self->diag_, chol->diag_) && !SAME(self->xenv_, chol->xenv_) &&
                                      !SAME(self->env_, chol->env_)))
/* S2 */
__CPROVER_ensures(ROW_IN(self, gv_k0) ==> (SHIFT(self, chol, gv_k0) && SHIFT(self, chol, gv_k0 + 1)))
__CPROVER_ensures(ROW_IN(self, gv_k0) ==> (WF_ROW(self, gv_k0) && ROWLEN(self, gv_k0) == ROWLEN(chol, gv_k0)))
/* S4 */
__CPROVER_ensures((ROW_IN(self, gv_k0) && chol->diag_[gv_k0 - 1] == 0) ==>
                  (self->diag_[gv_k0 - 1] == 0 && ((0 <= gv_e0 && gv_e0 < gv_l0) ==> self->env_[gv_o0 + gv_e0] == 0)))
//@ entry Envelope_inverse
GV_CANARY("Envelope_inverse entry");
#include "ghost_begin.h"
const _Bool gv_zr = ROW_IN(chol, gv_k0) && chol->diag_[gv_k0 - 1] == 0;   /* the ghost row has a zero pivot */
const _Bool gv_ze = gv_zr && 0 <= gv_e0 && gv_e0 < gv_l0;                 /* ... and gv_e0 is one of its elements */
#include "ghost_end.h"
//@ at Envelope_inverse gvsize
#include "ghost_begin.h"
GV_SET_ENV_SIZE(self, env_size);
#include "ghost_end.h"
//@ loop Envelope_inverse 1
#include "ghost_begin.h"
__CPROVER_assigns(i, t, __CPROVER_object_whole(self->xenv_))
__CPROVER_loop_invariant(1 <= i && i <= self->dim_ + 1 && SAME(t, self->env_) && OFF(t) == OFF(chol->xenv_[i]) &&
                         (1 < i ==> (SAME(self->xenv_[1], self->env_) && OFF(self->xenv_[1]) == 0)) &&
                         ((1 <= gv_k0 && gv_k0 < i) ==> (SAME(self->xenv_[gv_k0], self->env_) && OFF(self->xenv_[gv_k0]) == FSZ * gv_o0)) &&
                         ((1 <= gv_k0 && gv_k0 < i - 1) ==> (SAME(self->xenv_[gv_k0 + 1], self->env_) && OFF(self->xenv_[gv_k0 + 1]) == FSZ * (gv_o0 + gv_l0))))
__CPROVER_decreases((long)self->dim_ + 1 - i)
#include "ghost_end.h"
//@ head Envelope_inverse 1
#include "ghost_begin.h"
GV_CANARY("Envelope_inverse loop 1 body");
const Float *const gv_cb1 = chol->xenv_[i], *const gv_ce1 = chol->xenv_[i + 1];
GV_INST(1 <= i && i <= chol->dim_, ROWP(chol, i, gv_cb1, gv_ce1));
#include "ghost_end.h"
//@ at Envelope_inverse built
#include "ghost_begin.h"
/* forall-introduction: the closed form holds at the arbitrary ghost row (pointers gv_k0 and gv_k0+1); self->xenv_ is in no
   assigns clause below, so GV_INST_EST may use the closed form at any range-checked index from here on */
__CPROVER_assert(ROW_IN(self, gv_k0) ==> SHIFT(self, chol, gv_k0), "established: closed form of row pointer gv_k0");
__CPROVER_assert(ROW_IN(self, gv_k0) ==> SHIFT(self, chol, gv_k0 + 1), "established: closed form of row pointer gv_k0+1");
Float *const gv_env = self->env_;
#include "ghost_end.h"
//@ loop Envelope_inverse 2
#include "ghost_begin.h"
__CPROVER_assigns(step, d, s, u, z, __CPROVER_object_whole(self->diag_), __CPROVER_object_whole(self->env_))
__CPROVER_loop_invariant(0 <= step && step <= self->dim_ &&
                         ((gv_zr && step < gv_k0) ==> self->diag_[gv_k0 - 1] == 0) &&
                         ((gv_ze && step < gv_k0) ==> gv_env[gv_o0 + gv_e0] == 0))
__CPROVER_decreases((long)step)
#include "ghost_end.h"
//@ head Envelope_inverse 2
#include "ghost_begin.h"
GV_CANARY("Envelope_inverse loop 2 body");
const Float *const gv_cb = chol->xenv_[step], *const gv_ce = chol->xenv_[step + 1];
GV_INST(1 <= step && step <= chol->dim_, ROWP(chol, step, gv_cb, gv_ce));
GV_INST_EST(1 <= step && step <= self->dim_, SHIFTP(self, self->xenv_[step], gv_cb) && SHIFTP(self, self->xenv_[step + 1], gv_ce));
if (gv_zr && step < gv_k0) {
  GV_INST(1 <= step + 1 && gv_k0 <= chol->dim_ + 1, OFF(gv_ce) <= FSZ * gv_o0);   /* WF_MONO(chol, step+1, gv_k0) */
}
const long gv_rb = gv_cb - chol->env_;   /* offset (in elements) of row `step` in env_ */
const long gv_re = gv_ce - chol->env_;   /* offset of its end */
#include "ghost_end.h"
//@ pre Envelope_inverse 3
#include "ghost_begin.h"
GV_ANCHOR(b, gv_env + gv_rb);
GV_ANCHOR(e, gv_env + gv_re);
#include "ghost_end.h"
//@ loop Envelope_inverse 3
#include "ghost_begin.h"
__CPROVER_assigns(b, __CPROVER_object_whole(self->env_))
__CPROVER_loop_invariant(SAME(b, e) && FSZ * gv_rb <= OFF(b) && OFF(b) <= OFF(e) && ALIGNED(OFF(e) - OFF(b)) &&
                         ((gv_ze && step < gv_k0) ==> gv_env[gv_o0 + gv_e0] == 0) &&
                         ((gv_ze && step == gv_k0 && FSZ * (gv_o0 + gv_e0) < OFF(b)) ==> gv_env[gv_o0 + gv_e0] == 0))
__CPROVER_decreases(OFF(e) - OFF(b))
#include "ghost_end.h"
//@ head Envelope_inverse 3
#include "ghost_begin.h"
GV_CUT(2, "Envelope_inverse loop 3 body");
GV_ANCHOR(b, e - (e - b));
#include "ghost_end.h"
//@ loop Envelope_inverse 4
#include "ghost_begin.h"
__CPROVER_assigns(n, k, d, u, z)
__CPROVER_loop_invariant(step + 1 <= k && k <= self->dim_ + 1 && n == k - step)
__CPROVER_decreases((long)self->dim_ + 1 - k)
#include "ghost_end.h"
//@ head Envelope_inverse 4
#include "ghost_begin.h"
GV_CUT(2, "Envelope_inverse loop 4 body");
const Float *const gv_cb4 = chol->xenv_[k], *const gv_ce4 = chol->xenv_[k + 1];
GV_INST(1 <= k && k <= chol->dim_, ROWP(chol, k, gv_cb4, gv_ce4));
GV_INST_EST(1 <= k && k <= self->dim_, SHIFTP(self, self->xenv_[k], gv_cb4) && SHIFTP(self, self->xenv_[k + 1], gv_ce4));
#include "ghost_end.h"
//@ at Envelope_inverse z1
#include "ghost_begin.h"
__CPROVER_assert(z != NULL, "S3: z = element(step,k) is non-null whenever u = chol.element(k,step) is");
/* anchors (assert the equality, then re-assign it): u and z come out of arrays whose contents CBMC's value-set analysis cannot
   track (harness-built resp. havocked by the contract of loop 1); the re-assignment gives them a base for the two reads below */
GV_ANCHOR(u, chol->env_ + (gv_ce4 - chol->env_) - (k - step));
GV_ANCHOR(z, gv_env + (gv_ce4 - chol->env_) - (k - step));
#include "ghost_end.h"
//@ pre Envelope_inverse 5
#include "ghost_begin.h"
GV_ANCHOR(b, gv_env + gv_rb);
GV_ANCHOR(e, gv_env + gv_re);
#include "ghost_end.h"
//@ loop Envelope_inverse 5
#include "ghost_begin.h"
__CPROVER_assigns(i, e, s, u, z, __CPROVER_object_whole(self->env_))
__CPROVER_loop_invariant(0 <= i && i <= step - 1 && SAME(e, self->env_) && FSZ * gv_rb <= OFF(e) &&
                         OFF(e) == FSZ * (gv_re - ((long)step - 1 - i)) &&
                         ((gv_ze && step < gv_k0) ==> gv_env[gv_o0 + gv_e0] == 0))
__CPROVER_decreases((long)i)
#include "ghost_end.h"
//@ head Envelope_inverse 5
#include "ghost_begin.h"
GV_CUT(1, "Envelope_inverse loop 5 body");
GV_ANCHOR(e, gv_env + gv_re - (step - 1 - i));
#include "ghost_end.h"
//@ loop Envelope_inverse 6
#include "ghost_begin.h"
__CPROVER_assigns(k, s, u, z)
__CPROVER_loop_invariant(i + 1 <= k && k <= self->dim_ + 1)
__CPROVER_decreases((long)self->dim_ + 1 - k)
#include "ghost_end.h"
//@ head Envelope_inverse 6
#include "ghost_begin.h"
GV_CANARY("Envelope_inverse loop 6 body");
const Float *const gv_cb6 = chol->xenv_[k], *const gv_ce6 = chol->xenv_[k + 1];
GV_INST(1 <= k && k <= chol->dim_, ROWP(chol, k, gv_cb6, gv_ce6));
GV_INST_EST(1 <= k && k <= self->dim_, SHIFTP(self, self->xenv_[k], gv_cb6) && SHIFTP(self, self->xenv_[k + 1], gv_ce6));
#include "ghost_end.h"
//@ at Envelope_inverse z2
#include "ghost_begin.h"
__CPROVER_assert(z != NULL, "S3: z = element(k,step) is non-null whenever u = chol.element(i,k) is");
GV_ANCHOR(u, chol->env_ + (gv_ce6 - chol->env_) - (k - i));
/* one anchor per base object, each of the form base + integer (a conditional POINTER makes CBMC read through byte offsets) */
if (k == step) { GV_ANCHOR(z, self->diag_ + (step - 1)); }
else { const long gv_zi = k < step ? gv_re - (step - k) : (gv_ce6 - chol->env_) - (k - step); GV_ANCHOR(z, gv_env + gv_zi); }
#include "ghost_end.h"
//@ end

/* ------------------------------------------------------------------------------------------------ */
/* set(b_diag, e_diag, b_env, e_env, b_bend, e_bend): build an envelope from a diagonal, the concatenated rows and the band
   widths.  The code checks NOTHING about the band widths (and never reads e_bend): it trusts that
       0 <= band(r) <= r-1   and   band(1) + ... + band(dim) == e_env - b_env.
   These are stated as preconditions over the ghost array gv_cum of prefix sums (gv_cum[r] = band(1)+...+band(r)), used at
   range-checked indices (CUM_AX).  Establishes the structure invariant: row pointer r is env_ + gv_cum[r-1], hence
   row length == band(r), rows inside env_, tiling exact; all values copied. */
//@ contract Envelope_set_bands
__CPROVER_requires(__CPROVER_rw_ok(self, sizeof(struct Envelope)))
__CPROVER_requires((self->diag_ == NULL || __CPROVER_is_freeable(self->diag_)) &&
                   (self->env_ == NULL || __CPROVER_is_freeable(self->env_)) &&
                   (self->xenv_ == NULL || __CPROVER_is_freeable(self->xenv_)))
/* the ranges handed in */
__CPROVER_requires(SAME(b_diag, e_diag) && OFF(e_diag) - OFF(b_diag) == FSZ * (long)gv_n && 0 <= gv_n && gv_n <= MAXDIM &&
                   __CPROVER_r_ok(b_diag, gv_n * sizeof(Float)))
__CPROVER_requires(SAME(b_env, e_env) && OFF(e_env) - OFF(b_env) == FSZ * gv_m && 0 <= gv_m && gv_m <= MAXENV &&
                   __CPROVER_r_ok(b_env, gv_m * sizeof(Float)))
__CPROVER_requires(__CPROVER_r_ok(b_bend, gv_n * sizeof(Index)))
/* clear() frees the old storage first: the inputs must not live in it */
__CPROVER_requires((self->diag_ == NULL || (!SAME(self->diag_, b_diag) && !SAME(self->diag_, b_env) && !SAME(self->diag_, b_bend))) &&
                   (self->env_ == NULL || (!SAME(self->env_, b_diag) && !SAME(self->env_, b_env) && !SAME(self->env_, b_bend))) &&
                   (self->xenv_ == NULL || (!SAME(self->xenv_, b_diag) && !SAME(self->xenv_, b_env) && !SAME(self->xenv_, b_bend))))
__CPROVER_requires(!SAME(self, b_diag) && !SAME(self, b_env) && !SAME(self, b_bend))
/* UNCHECKED BY THE CODE: consistency of the band widths (ghost prefix sums) */
__CPROVER_requires(__CPROVER_r_ok(gv_cum, ((long)gv_n + 1) * sizeof(long)) && gv_cum[0] == 0 && gv_cum[gv_n] == gv_m)
__CPROVER_requires((1 <= gv_k0 && gv_k0 <= gv_n) ==> CUM_AX(b_bend, gv_k0))
__CPROVER_assigns(self->dim_, self->defect_, self->diag_, self->env_, self->xenv_, self->gv_env_size)
__CPROVER_frees(self->diag_, self->env_, self->xenv_)
__CPROVER_ensures(self->dim_ == gv_n && self->defect_ == 0)
__CPROVER_ensures(self->dim_ == 0 ==> (self->diag_ == NULL && self->env_ == NULL && self->xenv_ == NULL))
__CPROVER_ensures(self->dim_ > 0 ==> (WF_SHAPE(self) && WF_ENDS(self) && self->gv_env_size == gv_m))
__CPROVER_ensures(self->dim_ > 0 ==> (__CPROVER_is_freeable(self->diag_) && __CPROVER_is_freeable(self->xenv_) && __CPROVER_is_freeable(self->env_)))
__CPROVER_ensures(ROW_IN(self, gv_k0) ==> (SAME(self->xenv_[gv_k0], self->env_) && OFF(self->xenv_[gv_k0]) == FSZ * gv_cum[gv_k0 - 1] &&
                                           SAME(self->xenv_[gv_k0 + 1], self->env_) && OFF(self->xenv_[gv_k0 + 1]) == FSZ * gv_cum[gv_k0]))
__CPROVER_ensures(ROW_IN(self, gv_k0) ==> (WF_ROW(self, gv_k0) && ROWLEN(self, gv_k0) == b_bend[gv_k0 - 1]))
__CPROVER_ensures(ROW_IN(self, gv_k0) ==> FEQ(self->diag_[gv_k0 - 1], b_diag[gv_k0 - 1]))
__CPROVER_ensures((self->dim_ > 0 && 0 <= gv_e0 && gv_e0 < gv_m) ==> FEQ(self->env_[gv_e0], b_env[gv_e0]))
//@ entry Envelope_set_bands
GV_CANARY("Envelope_set_bands entry");
#include "ghost_begin.h"
const Float *const gv_bdiag0 = b_diag;
const Float *const gv_benv0 = b_env;
const Index *const gv_bbend0 = b_bend;
#include "ghost_end.h"
//@ at Envelope_set_bands gvsize
#include "ghost_begin.h"
GV_SET_ENV_SIZE(self, env_size);
#include "ghost_end.h"
//@ loop Envelope_set_bands 1
#include "ghost_begin.h"
__CPROVER_assigns(i, t, d, b_diag, b_bend, __CPROVER_object_whole(self->diag_), __CPROVER_object_whole(self->xenv_))
__CPROVER_loop_invariant(1 <= i && i <= self->dim_ + 1 && 0 <= gv_cum[i - 1] && gv_cum[i - 1] <= gv_m && SAME(t, self->env_) && OFF(t) == FSZ * gv_cum[i - 1] &&
                         SAME(d, self->diag_) && OFF(d) == FSZ * ((long)i - 1) &&
                         SAME(b_diag, gv_bdiag0) && OFF(b_diag) == OFF(gv_bdiag0) + FSZ * ((long)i - 1) &&
                         SAME(b_bend, gv_bbend0) && OFF(b_bend) == OFF(gv_bbend0) + ISZ * ((long)i - 1) &&
                         (1 < i ==> (SAME(self->xenv_[1], self->env_) && OFF(self->xenv_[1]) == 0)) &&
                         ((1 <= gv_k0 && gv_k0 < i) ==> (0 <= gv_cum[gv_k0 - 1] && gv_cum[gv_k0 - 1] <= gv_m && SAME(self->xenv_[gv_k0], self->env_) && OFF(self->xenv_[gv_k0]) == FSZ * gv_cum[gv_k0 - 1])) &&
                         ((1 <= gv_k0 && gv_k0 < i - 1) ==> (0 <= gv_cum[gv_k0] && gv_cum[gv_k0] <= gv_m && SAME(self->xenv_[gv_k0 + 1], self->env_) && OFF(self->xenv_[gv_k0 + 1]) == FSZ * gv_cum[gv_k0])) &&
                         ((1 <= gv_k0 && gv_k0 < i) ==> FEQ(self->diag_[gv_k0 - 1], gv_bdiag0[gv_k0 - 1])))
__CPROVER_decreases((long)self->dim_ + 1 - i)
#include "ghost_end.h"
//@ head Envelope_set_bands 1
#include "ghost_begin.h"
GV_ANCHOR(d, self->diag_ + (i - 1));
GV_ANCHOR(b_diag, gv_bdiag0 + (i - 1));
GV_ANCHOR(b_bend, gv_bbend0 + (i - 1));
GV_INST(1 <= i && i <= gv_n, CUM_AX(gv_bbend0, i));
#include "ghost_end.h"
//@ loop Envelope_set_bands 2
#include "ghost_begin.h"
__CPROVER_assigns(e, b_env, __CPROVER_object_whole(self->env_))
__CPROVER_loop_invariant(SAME(b_env, gv_benv0) && OFF(gv_benv0) <= OFF(b_env) && OFF(b_env) <= OFF(e_env) &&
                         ALIGNED(OFF(b_env) - OFF(gv_benv0)) && SAME(e, self->env_) && OFF(e) == OFF(b_env) - OFF(gv_benv0) &&
                         ((0 <= gv_e0 && gv_e0 < gv_m && FSZ * gv_e0 < OFF(b_env) - OFF(gv_benv0)) ==> FEQ(self->env_[gv_e0], gv_benv0[gv_e0])))
__CPROVER_decreases(OFF(e_env) - OFF(b_env))
#include "ghost_end.h"
//@ head Envelope_set_bands 2
#include "ghost_begin.h"
GV_ANCHOR(e, self->env_ + (b_env - gv_benv0));
GV_ANCHOR(b_env, gv_benv0 + (b_env - gv_benv0));
#include "ghost_end.h"
//@ end

/* ------------------------------------------------------------------------------------------------ */
/* set(sm, graph, ordering): STRUCTURAL FIRST HALF ONLY (check set_sparse_structure).
   Verified: memory safety and frame of everything up to and including the two zero-fill loops (loops 1-7), and that the
   profile is well formed: 1 <= min_neighbour[r] <= r (hence band(r) = r - min_neighbour[r] <= r-1), row pointer r is
   env_ + gv_cum[r-1] with gv_cum the prefix sums of the band widths (ghost array filled in the tail of loop 4), rows tile
   env_ exactly, total size = sum(i - min_neighbour[i]).
   NOT verified (GV_CUT in the head of loop 8): the accumulation nest (loops 8-11), i.e. that every update
   `*element += fa*fb` at end(row) - (row - col) lands inside row `row`.  Its loop contracts below are placeholders.
   Preconditions the code does not check: graph->nodes() == sm->columns() == ordering size (min_neighbour is indexed by
   node), adjacency entries and permutation values in [1, n]. */
//@ end

//@ harness
void h_element(void)
{
  struct Envelope E;
  mk_envelope(&E, 0);
  Index i, j;
  __CPROVER_assume(1 <= i && i <= E.dim_ && 1 <= j && j <= E.dim_);
  __CPROVER_assume(WF_ROW(&E, GV_MAX(i, j)));
  Float *p = Envelope_element(&E, i, j);
  GV_CANARY("h_element end");
}

void h_element_const(void)
{
  struct Envelope E;
  mk_envelope(&E, 0);
  Index i, j;
  __CPROVER_assume(1 <= i && i <= E.dim_ && 1 <= j && j <= E.dim_);
  __CPROVER_assume(WF_ROW(&E, GV_MAX(i, j)));
  const Float *q = Envelope_element_const(&E, i, j);
  GV_CANARY("h_element_const end");
}

void h_copy(void)
{
  struct Envelope C;
  mk_envelope(&C, 1);
  struct Envelope Z = GV_ENV_DEFAULT;
  Index k0, k1; long e0;
  gv_k0 = k0; gv_k1 = k1; gv_e0 = e0;
  Envelope_copy(&Z, &C);
  GV_CANARY("h_copy end");
}

void h_set_bands(void)
{
  struct Envelope Z;
  _Bool fresh;
  if (fresh) { struct Envelope Z0 = GV_ENV_DEFAULT; Z = Z0; }
  else mk_envelope(&Z, 1);              /* an object that already holds an envelope: clear() frees it */
  Index n, k0; long m, e0;
  __CPROVER_assume(0 <= n && n <= MAXDIM && 0 <= m && m <= MAXENV);
  Float *dg = malloc(n * sizeof(Float)), *ev = malloc(m * sizeof(Float));
  Index *bw = malloc(n * sizeof(Index));
  long *cum = malloc(((long)n + 1) * sizeof(long));
  __CPROVER_assume(dg && ev && bw && cum);
  gv_n = n; gv_m = m; gv_cum = cum; gv_k0 = k0; gv_e0 = e0;
  __CPROVER_assume(cum[0] == 0 && cum[n] == m);
  if (1 <= k0 && k0 <= n) __CPROVER_assume(CUM_AX(bw, k0));
  gv_exc = 0;
  Envelope_set_bands(&Z, dg, dg + n, ev, ev + m, bw, bw + n);
  GV_CANARY("h_set_bands end");
}

void h_set_sparse(void)
{
  struct Envelope Z;
  _Bool fresh;
  if (fresh) { struct Envelope Z0 = GV_ENV_DEFAULT; Z = Z0; }
  else mk_envelope(&Z, 1);
  struct GvSM S; struct GvGraph G; struct GvOrd O;
  Index n, rows, k0; long nadj, nnz;
  __CPROVER_assume(0 <= n && n <= MAXSD && 0 <= rows && rows <= MAXDIM && 0 <= nadj && nadj <= MAXENV && 0 <= nnz && nnz <= MAXENV);
  S.rows_ = rows; S.cols_ = n; S.gv_nnz = nnz;
  S.nonz = malloc(nnz * sizeof(Float)); S.cind = malloc(nnz * sizeof(Index)); S.rptr = malloc(((long)rows + 2) * sizeof(Index));
  G.nodes_ = n; G.gv_nadj = nadj;
  Index *adj = malloc(nadj * sizeof(Index)), *xadj = malloc(((long)n + 2) * sizeof(Index));
  Index *perm = malloc(((long)n + 1) * sizeof(Index)), *invp = malloc(((long)n + 1) * sizeof(Index));
  long *cum = malloc(((long)n + 1) * sizeof(long));
  __CPROVER_assume(S.nonz && S.cind && S.rptr && adj && xadj && perm && invp && cum);
  G.adjncy = adj; G.xadj = xadj; O.n = n; O.perm = perm; O.invp = invp;
  gv_cum = cum; gv_k0 = k0;
  gv_exc = 0;
  Envelope_set_sparse(&Z, &S, &G, &O);
  GV_CANARY("h_set_sparse end");
}

void h_inverse(void)
{
  struct Envelope C;
  mk_envelope(&C, 1);
  struct Envelope Z;
  _Bool fresh;
  if (fresh) { struct Envelope Z0 = GV_ENV_DEFAULT; Z = Z0; }
  else mk_envelope(&Z, 1);              /* an object that already holds an envelope: clear() frees it */
  Index k0; long e0, o0, l0;
  __CPROVER_assume(0 <= o0 && o0 <= MAXENV && 0 <= l0 && l0 <= MAXENV);
  gv_k0 = k0; gv_e0 = e0; gv_o0 = o0; gv_l0 = l0;
  if (ROW_IN(&C, gv_k0))                /* instance of the structure invariant at the ghost row; names of its offset/length */
    __CPROVER_assume(WF_ROW(&C, gv_k0) && OFF(C.xenv_[gv_k0]) == FSZ * gv_o0 && OFF(C.xenv_[gv_k0 + 1]) == FSZ * (gv_o0 + gv_l0));
  gv_exc = 0;
  Envelope_inverse(&Z, &C);
  GV_CANARY("h_inverse end");
}
//@ end
