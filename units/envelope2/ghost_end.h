#pragma CPROVER check pop
