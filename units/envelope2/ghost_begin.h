/* ghost text (loop contracts, instantiations, anchors) is specification, not code under verification: no safety
   obligations are generated for its sub-expressions (the index of every instantiation is range-checked by GV_INST) */
#pragma CPROVER check push
#pragma CPROVER check disable "pointer"
#pragma CPROVER check disable "bounds"
#pragma CPROVER check disable "signed-overflow"
#pragma CPROVER check disable "conversion"
#pragma CPROVER check disable "pointer-primitive"
#pragma CPROVER check disable "div-by-zero"
#pragma CPROVER check disable "pointer-overflow"
