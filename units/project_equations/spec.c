/* Sidecar contracts for GNU_gama::local::LocalNetwork::project_equations() (lib/gnu_gama/local/network.cpp), property C05,
   mechanism "index assignment of unknowns on first use -- LocalLinearization (maxn), LocalNetwork::project_equations".

   The column of an unknown in the design matrix is the index stored in the point (index_x/index_y/index_z) or in the stand
   point (index_orientation).  Unit `linearization` proves the PER-OBSERVATION protocol of LocalLinearization: an index that is 0
   is assigned ++maxn on first use, a non-zero index is left alone and used as the column.  That protocol yields the columns
   1..maxn of ONE formation of the equations only if every index of every point / stand point that can take part has been set
   back to 0 before the observations are linearised again, and if afterwards the table unknowns_ (column -> which unknown) is
   filled from exactly those indices.  Both are done by project_equations():

       for (bod in PD)  if (b.active_xy() || b.active_z())  b.index_y() = b.index_x() = b.index_z() = 0;            (1)
       for (cl in OD.clusters)  if (StandPoint* standpoint = dynamic_cast<StandPoint*>(*cl))  standpoint->index_orientation(0);   (2)
       { LocalLinearization loclin(PD, m_0_apr_);  for (obs in revised_obs_) obs->accept(&loclin); ...
         pocet_neznamych_ = loclin.unknowns(); ... }
       unknowns_.resize(pocet_neznamych_);
       for (clptr in OD.clusters) if (StandPoint* standpoint = ...) if (test_orientation() && index_orientation()) {...'R'...}    (3a)
       for (i in PD) { if (b.active_xy()) { if (b.index_x()) {...'X'...}  if (b.index_y()) {...'Y'...} }
                       if (b.active_z() && b.index_z()) {...'Z'...} }                                                           (3b)
   and, after the adjustment, refine_approx_coordinates() reads the table back:
       for (i = 1..unknowns_count())  if (unknown_type(i) == 'X') {...x, y of the point...} else if 'Z' {...} else if 'R' {...}   (5)

   UNDER CONTRACT (all bodies are copied out of /repo on every run; nothing is copied by hand):
     (1)  LocalNetwork_pe_reset_point    the block of the first PointData walk, one map entry is the parameter `bod`
     (2)  LocalNetwork_pe_reset_cluster  the statement that is the body of the first ClusterList walk, `cl` is the parameter
     (3a) LocalNetwork_pe_fill_cluster   the statement that is the body of the second ClusterList walk, `clptr` is the parameter
     (3b) LocalNetwork_pe_fill_point     the block of the last PointData walk, `i` is the parameter
     (4)  gv_compose_hdiff / gv_compose_xdiff   COMPOSITION: the real reset body run over every point of a point map whose indices
          hold ARBITRARY stale values of an earlier formation, then a fresh LocalLinearization (maxn = 0) and ONE real
          linearisation step (LocalLinearization::h_diff -- uses index_z; ::xdiff -- uses index_x).
     (5)  LocalNetwork_refine_unknown    the statement that is the body of the walk of refine_approx_coordinates(), `i` is the parameter
          (contract in front of its block below)
   The std::map / std::list iteration itself is not lowered: "every element is visited" is by reading.  (2), (3a) and (5) are not
   braced blocks; they are located by pe_pre.py (see there) and lowered by the extractor's own extract_function.
   dynamic_cast<StandPoint*>(c) is lowered to a TAG TEST: struct Cluster carries a ghost tag, gv_dyn_StandPoint(c) returns c when the
   tag says StandPoint and a null pointer otherwise.

   CONTRACTS (from the property: "the coefficients gama puts into the design matrix equal the partial derivatives ... with respect to
   the free coordinates and the orientation" -- a coefficient is put into the COLUMN the index names, so the index must name, within
   the current formation, one column per unknown and the same column everywhere):
     R1  after (1): a point that can receive an unknown in this formation -- active_xy() or active_z() -- has
         index_x == index_y == index_z == 0; a point that is not active at all is left alone; nothing but the three indices changes.
     R2  after (2): a stand point has index_orientation() == 0; a cluster of another class is not touched.
     F1  after (3a): a stand point whose orientation has column k = index_orientation() != 0 is recorded as
         unknowns_[k-1] = { station, 'R', the stand point }; no other entry changes; every write is inside unknowns_[0..n-1].
     F2  after (3b): each coordinate of the point that has a column (index != 0) is recorded in ITS entry:
         unknowns_[index_x-1] = { id, 'X', 0 }, unknowns_[index_y-1] = { id, 'Y', 0 }, unknowns_[index_z-1] = { id, 'Z', 0 };
         coordinates with different indices never share an entry; no other entry changes; every write is inside unknowns_[0..n-1].
         Precondition (where it comes from): every non-zero index is in 1..n and the non-zero indices of one point are pairwise
         distinct -- n = pocet_neznamych_ = loclin.unknowns() = maxn, and unit `linearization` proves that every index assigned is
         fresh and within 1..maxn; unknowns_ has exactly n entries (unknowns_.resize(pocet_neznamych_)).
     C1  composition: the index each row entry uses is a FRESH one: within 1..maxn, maxn == number of free coordinates the
         observation depends on, never the stale value.

   HISTORY (F2).  Before commit bc694fa the 'X'/'Y' branch was guarded by `b.active_xy() && b.index_y()` only and then wrote
   unknowns_[b.index_x()-1] unconditionally.  x and y do NOT always get their columns together: LocalLinearization::x / ::xdiff assign
   index_x only, ::y / ::ydiff index_y only.  A free point whose only active xy observation is a Y had index_y != 0, index_x == 0:
   unknowns_[-1] was written (heap write in front of the vector's buffer; found while this contract was written -- on that text the
   obligation "pointer outside object bounds in self->unknowns_[index_x - 1]" and F2 for X fail, mutations.json m6 -- then reached with the real
   gama-local and a valid document: native_demo.gkf gave exit 139, native_demo.cpp under ASan heap-buffer-overflow WRITE at
   network.cpp:644); the mirror case (only X active) left the column of x without an entry.  F2 is therefore stated for ALL
   combinations of zero / non-zero indices, without any exclusion. */

//@ prelude
#include "pe_gen.h" /* generated from the repository by pe_pre.py: the status enum of LocalPoint (xy_adjusted_, active_xy_, ...) */

typedef int PointID; /* opaque key; the point map is modelled as an array indexed by the key */
int gv_exc;

struct LocalPoint {
  double x_, y_, z_;
  bool bxy_, bz_;
  int ix_, iy_, iz_;
  double x0_, y0_, z0_;
  int pst_;
};
struct PDentry { PointID first; struct LocalPoint second; }; /* std::pair<const PointID, LocalPoint> */
#define NPTS 3
struct PointData { struct PDentry e[NPTS]; };                /* std::map<PointID, LocalPoint> */

/* class hierarchy Cluster<Observation> <- StandPoint, flattened: the base part carries a ghost TAG that stands for the dynamic type */
enum { GV_TAG_StandPoint = 1, GV_TAG_OtherCluster = 2 };
struct Cluster { int gv_tag; };
struct StandPoint {
  struct Cluster gv_base;
  PointID station;
  double attr_or;
  bool test_or;
  int indx_or;
};
/* dynamic_cast<StandPoint*>(c) lowered to a tag test */
static struct StandPoint *gv_dyn_StandPoint(struct Cluster *c)
{
  return c->gv_tag == GV_TAG_StandPoint ? (struct StandPoint *)c : (struct StandPoint *)0;
}

struct Observation {
  const struct StandPoint *cluster;
  PointID from_, to_;
  double value_;
  double reduction_dh_;
};
struct LocalLinearization {
  long max_size;
  double rhs;
  double coeff[6];
  long index[6];
  long size;
  struct PointData *PD; /* PointData& PD */
  int maxn;
};
struct Unknown { /* LocalNetwork::Unknown */
  PointID pid;
  char type;
  struct StandPoint *ori;
};
struct LocalNetwork {
  struct PointData *PD;      /* PointData PD (member object; a pointer here so that LocalLinearization::PD can refer to the same map) */
  int pocet_neznamych_;
  struct Unknown *unknowns_; /* std::vector<Unknown>: operator[] is unchecked element access = C indexing, CBMC checks the bounds */
};

/* the std::map lookup PD[id]: an array of entries (assumption); a missing id would be INSERTED by std::map::operator[] */
static struct LocalPoint *PointData_at(struct PointData *pd, PointID id)
{
  __CPROVER_assert(0 <= id && id < NPTS, "point id is present in the point map");
  return &pd->e[id].second;
}

/* ---- the vector of adjusted unknowns `const Vec& x = least_squares->unknowns()`: ASSUMED contract of Vec::operator()(n) const
   (index arithmetic verified in unit matvec_index): defined for 1 <= n <= dim (obligation at the call site); the element is a
   function of n; ASSUMED: a finite number (a correction in mm / cc computed by the adjustment) */
struct Vec { int dim; };
double __CPROVER_uninterpreted_xv(int);
#define XV(k) __CPROVER_uninterpreted_xv(k)
int gv_xreads; /* ghost: number of element reads */
static double gvs_x(const struct Vec *v, int n)
{
  __CPROVER_assert(1 <= n && n <= v->dim, "x(n): 1 <= n <= dim (the index names an unknown of this adjustment)");
  gv_xreads++;
  double r = XV(n);
  __CPROVER_assume(-1e300 <= r && r <= 1e300);
  return r;
}

/* ---- tagged IEEE operations (idiom of units/vyrovnani_tail, singular_coords): the real operation is performed and its result is
   additionally NAMED by an uninterpreted function of the operands ("an IEEE operation is a function of its operands" excludes no
   execution), so that a postcondition can name the value a/b as the TERM FDIV(a,b) instead of building a second divider circuit
   (measured here: one `x(i)/1000 == x(i)/1000` over two circuits does not finish in 150 s on MiniSat, CaDiCaL or cvc5).
   gv_rad2gon(a) = a*R2G and gv_gon2rad(g) = g*G2R are evaluated with the repository's own macros (pe_gen.h). */
double __CPROVER_uninterpreted_fdiv(double, double);
double __CPROVER_uninterpreted_fadd(double, double);
double __CPROVER_uninterpreted_rad2gon(double);
double __CPROVER_uninterpreted_gon2rad(double);
#define FDIV(a, b) __CPROVER_uninterpreted_fdiv((a), (b))
#define FADD(a, b) __CPROVER_uninterpreted_fadd((a), (b))
#define RAD2GON(a) __CPROVER_uninterpreted_rad2gon(a)
#define GON2RAD(a) __CPROVER_uninterpreted_gon2rad(a)
#define SAME_BITS(a, b) (((a) == (b) && __CPROVER_signd(a) == __CPROVER_signd(b)) || ((a) != (a) && (b) != (b)))
static double gv_fdiv(double a, double b)
{
  __CPROVER_assert(b != 0, "floating-point division: the divisor is not zero");
  double r = a / b;
  __CPROVER_assume(SAME_BITS(r, FDIV(a, b)));
  return r;
}
static double gv_fadd(double a, double b)
{
  double r = a + b;
  __CPROVER_assume(SAME_BITS(r, FADD(a, b)));
  return r;
}
static double gv_rad2gon(double a)
{
  double r = a * R2G;
  __CPROVER_assume(SAME_BITS(r, RAD2GON(a)));
  return r;
}
static double gv_gon2rad(double g)
{
  double r = g * G2R;
  __CPROVER_assume(SAME_BITS(r, GON2RAD(g)));
  return r;
}

/* prototypes of extracted functions (definition order in the generated file is the unit.json order) */
bool LocalPoint_active_xy(const struct LocalPoint *self);
bool StandPoint_test_orientation(const struct StandPoint *self);
int StandPoint_index_orientation(const struct StandPoint *self);
void StandPoint_set_index_orientation(struct StandPoint *self, int n);

/* ---- vocabulary ---- */
#define MAXN 1000000000
#define ACT_XY(p) (((p)->pst_ & active_xy_) != 0)
#define ACT_Z(p) (((p)->pst_ & active_z_) != 0)
#define ACTIVE(p) (ACT_XY(p) || ACT_Z(p))
#define FREEXY(p) (((p)->pst_ & xy_adjusted_) != 0) /* free or constrained: the coordinates are unknowns */
#define FREEZ(p) (((p)->pst_ & z_adjusted_) != 0)
#define B2I(c) ((c) ? 1 : 0)
#define IS_SP(c) ((c)->gv_tag == GV_TAG_StandPoint)
#define AS_SP(c) ((struct StandPoint *)(c))

#define NET_OK(N) (__CPROVER_rw_ok((N), sizeof(struct LocalNetwork)) && __CPROVER_rw_ok((N)->PD, sizeof(struct PointData)) && \
                   0 <= (N)->pocet_neznamych_ && (N)->pocet_neznamych_ <= MAXN &&                                              \
                   __CPROVER_rw_ok((N)->unknowns_, (size_t)(N)->pocet_neznamych_ * sizeof(struct Unknown)))
#define IX_OK(N, ix) (0 <= (ix) && (ix) <= (N)->pocet_neznamych_)
#define DISTINCT(a, b) (((a) != 0 && (b) != 0) ==> (a) != (b))
#define ENTRY_IS(N, ix, id, ty, sp) ((N)->unknowns_[(ix)-1].pid == (id) && (N)->unknowns_[(ix)-1].type == (ty) && (N)->unknowns_[(ix)-1].ori == (sp))

/* frame of the table unknowns_, quantifier-free: the harness chooses an arbitrary entry gv_k0 and records its value gv_u0 */
int gv_k0;
struct Unknown gv_u0;
#define K0_SAME(N) ((N)->unknowns_[gv_k0].pid == gv_u0.pid && (N)->unknowns_[gv_k0].type == gv_u0.type && (N)->unknowns_[gv_k0].ori == gv_u0.ori)
#define K0_OK(N) (0 <= gv_k0 && gv_k0 < (N)->pocet_neznamych_ && K0_SAME(N))

/* refine_approx_coordinates: the unknown i and what it belongs to */
#define UTYPE(N, i) ((N)->unknowns_[(i)-1].type)
#define UPID(N, i) ((N)->unknowns_[(i)-1].pid)
#define UORI(N, i) ((N)->unknowns_[(i)-1].ori)
#define UPT(N, i) (&(N)->PD->e[UPID(N, i)].second)
#define CMAX 1e9
#define FIN(v, m) (-(m) <= (v) && (v) <= (m)) /* finite and bounded (false for NaN) */
#define DEQ(a, b) ((a) == (b) || ((a) != (a) && (b) != (b))) /* the same number, or both not a number */
#define SAME_PT_BUT_XY(p, q) (DEQ((p).z_, (q).z_) && (p).bz_ == (q).bz_ && (p).ix_ == (q).ix_ && (p).iy_ == (q).iy_ && (p).iz_ == (q).iz_ && (p).pst_ == (q).pst_)
#define SAME_PT_BUT_Z(p, q) (DEQ((p).x_, (q).x_) && DEQ((p).y_, (q).y_) && (p).bxy_ == (q).bxy_ && (p).ix_ == (q).ix_ && (p).iy_ == (q).iy_ && (p).iz_ == (q).iz_ && (p).pst_ == (q).pst_)
struct StandPoint gv_sp0; /* ghost: the stand point of unknown i before the call */
int gv_kp;               /* ghost: an arbitrary point of the map, chosen by the harness */
struct LocalPoint gv_p0; /* ghost: the point of unknown i before the call (recorded by the harness) */
struct PointData gv_pd0; /* ghost: the whole map before the call */

/* row of the design matrix as a set of indices */
#define HASIX1(L, k, ix) ((L)->size > (k) && (L)->index[k] == (ix))
#define HASIX(L, ix) (HASIX1(L, 0, ix) || HASIX1(L, 1, ix) || HASIX1(L, 2, ix) || HASIX1(L, 3, ix) || HASIX1(L, 4, ix) || HASIX1(L, 5, ix))
#define ROWIX_OK1(L, k) ((L)->size > (k) ==> (1 <= (L)->index[k] && (L)->index[k] <= (L)->maxn))
#define ROWIX_OK(L) (ROWIX_OK1(L, 0) && ROWIX_OK1(L, 1) && ROWIX_OK1(L, 2) && ROWIX_OK1(L, 3) && ROWIX_OK1(L, 4) && ROWIX_OK1(L, 5))
//@ end

/* ---- LocalPoint status functions (real bodies): what "active" means in the contracts below ---------------------------------- */
//@ contract LocalPoint_active_xy
__CPROVER_requires(__CPROVER_r_ok(self, sizeof(*self)))
__CPROVER_assigns()
__CPROVER_ensures(__CPROVER_return_value == ((self->pst_ & (xy_fixed_ | xy_adjusted_ | xy_constrained_)) != 0))
//@ entry LocalPoint_active_xy
GV_CANARY("LocalPoint_active_xy entry");
//@ contract LocalPoint_active_z
__CPROVER_requires(__CPROVER_r_ok(self, sizeof(*self)))
__CPROVER_assigns()
__CPROVER_ensures(__CPROVER_return_value == ((self->pst_ & (z_fixed_ | z_adjusted_ | z_constrained_)) != 0))
//@ entry LocalPoint_active_z
GV_CANARY("LocalPoint_active_z entry");
//@ end

/* ---- (1) reset of the point indices ------------------------------------------------------------------------------------------ */
//@ contract LocalNetwork_pe_reset_point
__CPROVER_requires(__CPROVER_rw_ok(bod, sizeof(*bod)))
__CPROVER_assigns(bod->second.ix_, bod->second.iy_, bod->second.iz_)
/* R1: every point that can receive an unknown starts the formation without any column */
__CPROVER_ensures(ACTIVE(&bod->second) ==> (bod->second.ix_ == 0 && bod->second.iy_ == 0 && bod->second.iz_ == 0))
/* a point that is not active at all is left alone */
__CPROVER_ensures(!ACTIVE(&bod->second) ==> (bod->second.ix_ == __CPROVER_old(bod->second.ix_) && bod->second.iy_ == __CPROVER_old(bod->second.iy_) &&
                                              bod->second.iz_ == __CPROVER_old(bod->second.iz_)))
//@ entry LocalNetwork_pe_reset_point
GV_CANARY("LocalNetwork_pe_reset_point entry");
//@ end

/* ---- (2) reset of the orientation index -------------------------------------------------------------------------------------- */
//@ contract LocalNetwork_pe_reset_cluster
__CPROVER_requires(__CPROVER_r_ok(cl, sizeof(*cl)) && __CPROVER_rw_ok(*cl, sizeof(struct Cluster)))
__CPROVER_requires(IS_SP(*cl) ==> __CPROVER_rw_ok(AS_SP(*cl), sizeof(struct StandPoint)))
__CPROVER_assigns(IS_SP(*cl): AS_SP(*cl)->indx_or)
/* R2 */
__CPROVER_ensures(IS_SP(*cl) ==> AS_SP(*cl)->indx_or == 0)
//@ entry LocalNetwork_pe_reset_cluster
GV_CANARY("LocalNetwork_pe_reset_cluster entry");
//@ end

/* ---- (3a) the orientation unknowns ------------------------------------------------------------------------------------------- */
//@ contract LocalNetwork_pe_fill_cluster
__CPROVER_requires(NET_OK(self) && __CPROVER_r_ok(clptr, sizeof(*clptr)) && __CPROVER_rw_ok(*clptr, sizeof(struct Cluster)))
__CPROVER_requires(IS_SP(*clptr) ==> (__CPROVER_rw_ok(AS_SP(*clptr), sizeof(struct StandPoint)) && IX_OK(self, AS_SP(*clptr)->indx_or)))
/* stated precondition: an orientation that has a column belongs to a stand point with an orientation value (LocalLinearization::direction
   reads sp->orientation(), which throws otherwise) whose station is a point of the map with active xy (LocalRevision::direction) */
__CPROVER_requires((IS_SP(*clptr) && AS_SP(*clptr)->indx_or != 0) ==>
                   (AS_SP(*clptr)->test_or && 0 <= AS_SP(*clptr)->station && AS_SP(*clptr)->station < NPTS && ACT_XY(&self->PD->e[AS_SP(*clptr)->station].second)))
__CPROVER_requires(K0_OK(self))
__CPROVER_assigns(__CPROVER_object_whole(self->unknowns_))
/* F1 */
__CPROVER_ensures((IS_SP(*clptr) && AS_SP(*clptr)->indx_or != 0) ==> ENTRY_IS(self, AS_SP(*clptr)->indx_or, AS_SP(*clptr)->station, 'R', AS_SP(*clptr)))
__CPROVER_ensures(!(IS_SP(*clptr) && AS_SP(*clptr)->indx_or != 0 && gv_k0 == AS_SP(*clptr)->indx_or - 1) ==> K0_SAME(self))
//@ entry LocalNetwork_pe_fill_cluster
GV_CANARY("LocalNetwork_pe_fill_cluster entry");
struct Unknown unknown; /* `Unknown unknown;` is declared in front of the walks: its value on entry is whatever the last element left */
//@ end

/* ---- (3b) the coordinate unknowns -------------------------------------------------------------------------------------------- */
//@ contract LocalNetwork_pe_fill_point
__CPROVER_requires(NET_OK(self) && __CPROVER_r_ok(i, sizeof(*i)))
/* every index that is used is 0 or a column 1..n of this formation; the columns of one point are pairwise distinct */
__CPROVER_requires(ACT_XY(&i->second) ==> (IX_OK(self, i->second.ix_) && IX_OK(self, i->second.iy_) && DISTINCT(i->second.ix_, i->second.iy_)))
__CPROVER_requires(ACT_Z(&i->second) ==> IX_OK(self, i->second.iz_))
__CPROVER_requires((ACT_XY(&i->second) && ACT_Z(&i->second)) ==> (DISTINCT(i->second.ix_, i->second.iz_) && DISTINCT(i->second.iy_, i->second.iz_)))
__CPROVER_requires(K0_OK(self))
__CPROVER_assigns(__CPROVER_object_whole(self->unknowns_))
/* F2: each coordinate that has a column is recorded in its own entry (x, y, z independently: any of the indices may be 0) */
__CPROVER_ensures((ACT_XY(&i->second) && i->second.ix_ != 0) ==> ENTRY_IS(self, i->second.ix_, i->first, 'X', (struct StandPoint *)0))
__CPROVER_ensures((ACT_XY(&i->second) && i->second.iy_ != 0) ==> ENTRY_IS(self, i->second.iy_, i->first, 'Y', (struct StandPoint *)0))
__CPROVER_ensures((ACT_Z(&i->second) && i->second.iz_ != 0) ==> ENTRY_IS(self, i->second.iz_, i->first, 'Z', (struct StandPoint *)0))
/* ... and ONLY then: no other entry changes (gv_k0 >= 0, so a zero index names no entry) */
__CPROVER_ensures(!((ACT_XY(&i->second) && (gv_k0 == i->second.ix_ - 1 || gv_k0 == i->second.iy_ - 1)) || (ACT_Z(&i->second) && gv_k0 == i->second.iz_ - 1)) ==> K0_SAME(self))
//@ entry LocalNetwork_pe_fill_point
GV_CANARY("LocalNetwork_pe_fill_point entry");
struct Unknown unknown; /* `Unknown unknown;` is declared in front of the walks: its value on entry is whatever the last element left */
//@ end

/* ---- (5) refine_approx_coordinates: the correction of unknown i is added to the coordinate / orientation it belongs to -------- */
/* LocalNetwork::refine_approx_coordinates() walks i = 1..unknowns_count() over the table unknowns_ that (3a)/(3b) filled: the adjusted
   unknown x(i) is a correction in mm (coordinates) or cc (orientation).  From the mathematics:
     'X' of point b (i == b.index_x()):  x_b += x(i)/1000 and, in the same step, y_b += x(b.index_y())/1000 -- the y correction is
                                         the unknown the point's OWN index_y names (index_y == index_x + 1 only when one observation
                                         assigned both; before commit f0c109c the code read x(i+1)); y unchanged if index_y == 0;
     'Z':  z_b += x(i)/1000;     'R':  orientation [gon] += x(i)/10000, stored in radians;     'Y': handled with 'X'.
   Stated precondition (what (3a)/(3b) establish, F1/F2): the entry i names a point of the map whose index of that type is i
   (R: a stand point with an orientation value); indices are 0 or within 1..n; x has n = unknowns_count() elements. */
//@ contract LocalNetwork_refine_unknown
__CPROVER_requires(NET_OK(self) && __CPROVER_r_ok(x__p, sizeof(*x__p)) && x__p->dim == self->pocet_neznamych_ && 1 <= i && i <= self->pocet_neznamych_)
__CPROVER_requires(gv_exc == 0 && gv_xreads == 0)
__CPROVER_requires((UTYPE(self, i) == 'X' || UTYPE(self, i) == 'Z') ==> (0 <= UPID(self, i) && UPID(self, i) < NPTS &&
                   FIN(UPT(self, i)->x_, CMAX) && FIN(UPT(self, i)->y_, CMAX) && FIN(UPT(self, i)->z_, CMAX)))
__CPROVER_requires(UTYPE(self, i) == 'X' ==> (UPT(self, i)->ix_ == i && IX_OK(self, UPT(self, i)->iy_)))
__CPROVER_requires(UTYPE(self, i) == 'Z' ==> UPT(self, i)->iz_ == i)
__CPROVER_requires(UTYPE(self, i) == 'R' ==> (__CPROVER_rw_ok(UORI(self, i), sizeof(struct StandPoint)) && UORI(self, i)->test_or && FIN(UORI(self, i)->attr_or, 1e6)))
__CPROVER_assigns(__CPROVER_object_whole(self->PD), gv_exc, gv_xreads;
                  UTYPE(self, i) == 'R': UORI(self, i)->attr_or, UORI(self, i)->test_or)
__CPROVER_ensures(gv_exc == 0)
/* X: both plane coordinates of the point, each from the unknown its own index names */
__CPROVER_ensures(UTYPE(self, i) == 'X' ==> UPT(self, i)->x_ == FADD(gv_p0.x_, FDIV(XV(i), 1000)))
__CPROVER_ensures((UTYPE(self, i) == 'X' && gv_p0.iy_ != 0) ==> UPT(self, i)->y_ == FADD(gv_p0.y_, FDIV(XV(gv_p0.iy_), 1000)))
__CPROVER_ensures((UTYPE(self, i) == 'X' && gv_p0.iy_ == 0) ==> UPT(self, i)->y_ == gv_p0.y_)
__CPROVER_ensures(UTYPE(self, i) == 'X' ==> (UPT(self, i)->bxy_ && SAME_PT_BUT_XY(*UPT(self, i), gv_p0) && gv_xreads == (gv_p0.iy_ != 0 ? 2 : 1)))
/* Z */
__CPROVER_ensures(UTYPE(self, i) == 'Z' ==> (UPT(self, i)->z_ == FADD(gv_p0.z_, FDIV(XV(i), 1000)) && UPT(self, i)->bz_ && SAME_PT_BUT_Z(*UPT(self, i), gv_p0) && gv_xreads == 1))
/* R: gon = rad * R2G, + cc/10000, back to radians = gon * G2R.  (FDIV, RAD2GON, GON2RAD: the IEEE results, named) */
__CPROVER_ensures(UTYPE(self, i) == 'R' ==> (UORI(self, i)->attr_or == GON2RAD(FADD(RAD2GON(gv_sp0.attr_or), FDIV(XV(i), 10000))) && UORI(self, i)->test_or && gv_xreads == 1))
/* nothing else moves: every other point (chosen by the harness: gv_kp) keeps every field; Y and unused entries change nothing */
__CPROVER_ensures((0 <= gv_kp && gv_kp < NPTS && !((UTYPE(self, i) == 'X' || UTYPE(self, i) == 'Z') && gv_kp == UPID(self, i))) ==>
                  (DEQ(self->PD->e[gv_kp].second.x_, gv_pd0.e[gv_kp].second.x_) && DEQ(self->PD->e[gv_kp].second.y_, gv_pd0.e[gv_kp].second.y_) &&
                   self->PD->e[gv_kp].second.bxy_ == gv_pd0.e[gv_kp].second.bxy_ && SAME_PT_BUT_XY(self->PD->e[gv_kp].second, gv_pd0.e[gv_kp].second)))
__CPROVER_ensures((UTYPE(self, i) != 'X' && UTYPE(self, i) != 'Z' && UTYPE(self, i) != 'R') ==> gv_xreads == 0)
//@ entry LocalNetwork_refine_unknown
GV_CANARY("LocalNetwork_refine_unknown entry");
//@ end

//@ harness
#include "pe_stmt_gen.h" /* (2) and (3a): generated by pe_pre.py through gv/extract.py:extract_function */

void h_lp_active_xy(void) { struct LocalPoint p; bool r = LocalPoint_active_xy(&p); GV_CANARY("h_lp_active_xy end"); }
void h_lp_active_z(void) { struct LocalPoint p; bool r = LocalPoint_active_z(&p); GV_CANARY("h_lp_active_z end"); }

/* The harnesses only build memory; every precondition is a `requires` of the enforced contract. */
static struct PointData gv_pd;
static struct LocalNetwork gv_N;
static struct StandPoint gv_sp;
static struct Cluster *gv_cl;

static void mk_net(void)
{
  struct PointData pd; /* nondeterministic contents: arbitrary status, arbitrary (stale) indices */
  struct StandPoint sp;
  int n;
  gv_pd = pd;
  gv_sp = sp;
  gv_cl = &gv_sp.gv_base;
  gv_N.PD = &gv_pd;
  __CPROVER_assume(0 <= n && n <= MAXN);
  gv_N.pocet_neznamych_ = n;
  gv_N.unknowns_ = malloc((size_t)n * sizeof(struct Unknown)); /* n == 0: an empty, non-null block */
  __CPROVER_assume(gv_N.unknowns_ != NULL);
  if (0 <= gv_k0 && gv_k0 < n) gv_u0 = gv_N.unknowns_[gv_k0];
  gv_exc = 0;
}

void h_reset_point(void)
{
  mk_net();
  int k;
  __CPROVER_assume(0 <= k && k < NPTS);
  LocalNetwork_pe_reset_point(&gv_N, &gv_pd.e[k]);
  GV_CANARY("h_reset_point end");
}
void h_reset_cluster(void)
{
  mk_net();
  LocalNetwork_pe_reset_cluster(&gv_N, &gv_cl);
  GV_CANARY("h_reset_cluster end");
}
void h_fill_cluster(void)
{
  mk_net();
  LocalNetwork_pe_fill_cluster(&gv_N, &gv_cl);
  GV_CANARY("h_fill_cluster end");
}
void h_fill_point(void)
{
  mk_net();
  int k;
  __CPROVER_assume(0 <= k && k < NPTS);
  LocalNetwork_pe_fill_point(&gv_N, &gv_pd.e[k]);
  GV_CANARY("h_fill_point end");
}

void h_refine_unknown(void)
{
  mk_net();
  struct Vec x;
  int i;
  /* memory only: the entry i of the table may name the harness's stand point */
  if (1 <= i && i <= gv_N.pocet_neznamych_) {
    if (gv_N.unknowns_[i - 1].type == 'R') gv_N.unknowns_[i - 1].ori = &gv_sp;
    int id = gv_N.unknowns_[i - 1].pid;
    if (0 <= id && id < NPTS) gv_p0 = gv_pd.e[id].second;
  }
  gv_pd0 = gv_pd;
  gv_sp0 = gv_sp;
  gv_xreads = 0;
  LocalNetwork_refine_unknown(&gv_N, &x, i);
  GV_CANARY("h_refine_unknown end");
}

/* ---- (4) composition: reset walk, fresh LocalLinearization, one linearisation step -----------------------------------------------
   goto-instrument enforces one contract per check, so the composition is a wrapper (harness text, no gama code) whose contract is
   enforced; the extracted bodies are called as ordinary code (NOT replaced by their contracts).  The walk over the map is written
   out for the NPTS entries of the model ("every element is visited" is by reading).  `L->maxn = 0` stands for the constructor
   initialiser `maxn(0)` of `LocalLinearization loclin(PD, m_0_apr_)` (its presence in the header is checked by pe_pre.py). */
#define F0 (&N->PD->e[0].second)
#define T0 (&N->PD->e[1].second)
#define COMPOSE_PRE                                                                                                                  \
  __CPROVER_requires(__CPROVER_rw_ok(N, sizeof(*N)) && __CPROVER_rw_ok(N->PD, sizeof(struct PointData)) && __CPROVER_rw_ok(L, sizeof(*L)) && \
                     __CPROVER_r_ok(ob, sizeof(*ob)) && L->PD == N->PD && !SAME(L, N->PD) && !SAME(ob, L) && !SAME(ob, N->PD) &&    \
                     ob->from_ == 0 && ob->to_ == 1 && gv_exc == 0)                                                                  \
  __CPROVER_assigns(__CPROVER_object_whole(N->PD), __CPROVER_object_whole(L))
/* C1, for the two unknowns (used, index) the observation depends on */
#define COMPOSE_POST(usedF, iF, usedT, iT)                                                                                           \
  __CPROVER_ensures(L->maxn == B2I(usedF) + B2I(usedT) && L->size == L->maxn && ROWIX_OK(L))                                         \
  __CPROVER_ensures((usedF) ==> (1 <= (iF) && (iF) <= L->maxn && HASIX(L, iF)))                                                      \
  __CPROVER_ensures((usedT) ==> (1 <= (iT) && (iT) <= L->maxn && HASIX(L, iT)))                                                      \
  __CPROVER_ensures(((usedF) && (usedT)) ==> (iF) != (iT))
#define COMPOSE_BODY(step)                                                                                                           \
  {                                                                                                                                  \
    LocalNetwork_pe_reset_point(N, &N->PD->e[0]);                                                                                    \
    LocalNetwork_pe_reset_point(N, &N->PD->e[1]);                                                                                    \
    LocalNetwork_pe_reset_point(N, &N->PD->e[2]);                                                                                    \
    L->maxn = 0;                                                                                                                     \
    step(L, ob);                                                                                                                     \
  }

void gv_compose_hdiff(struct LocalNetwork *N, struct LocalLinearization *L, const struct Observation *ob)
COMPOSE_PRE
COMPOSE_POST(FREEZ(F0), F0->iz_, FREEZ(T0), T0->iz_)
{
  GV_CANARY("gv_compose_hdiff entry");
  COMPOSE_BODY(LocalLinearization_h_diff)
}
void gv_compose_xdiff(struct LocalNetwork *N, struct LocalLinearization *L, const struct Observation *ob)
COMPOSE_PRE
COMPOSE_POST(FREEXY(F0), F0->ix_, FREEXY(T0), T0->ix_)
{
  GV_CANARY("gv_compose_xdiff entry");
  COMPOSE_BODY(LocalLinearization_xdiff)
}
static struct LocalLinearization gv_L;
static struct Observation gv_ob;
static void mk_lin(void)
{
  struct LocalLinearization L; /* nondeterministic: in particular maxn is whatever an earlier formation left */
  struct Observation ob;
  mk_net();
  gv_L = L;
  gv_ob = ob;
  gv_L.PD = &gv_pd;
  gv_ob.cluster = &gv_sp;
}
void h_compose_hdiff(void)
{
  mk_lin();
  gv_compose_hdiff(&gv_N, &gv_L, &gv_ob);
  GV_CANARY("h_compose_hdiff end");
}
void h_compose_xdiff(void)
{
  mk_lin();
  gv_compose_xdiff(&gv_N, &gv_L, &gv_ob);
  GV_CANARY("h_compose_xdiff end");
}
//@ end
