// Native regression demo for unit project_equations (C05, found through contract F2 of block (3b); repaired by /repo commit bc694fa).
//
// LocalNetwork::project_equations() recorded the x and y unknown of a point under `if (b.active_xy() && b.index_y())` and then wrote
// unknowns_[b.index_x()-1] unconditionally.  LocalLinearization::x / ::xdiff assign index_x only, ::y / ::ydiff index_y only, so a free
// point whose only ACTIVE plane observation is a Y has index_y != 0 and index_x == 0:  unknowns_[-1] = unknown  (a heap write 56 bytes in
// front of the vector's buffer).  The document below is valid: point P is observed by <coordinates> only, its observed x is 50 m away
// from the approximate x (gross error), y fits.  gama-local removes the outlying absolute term (X of P becomes passive, Y stays) and forms
// the equations again.  Before the repair: gama-local exit 139 (SIGSEGV in free()), this program under ASan: heap-buffer-overflow WRITE
// at network.cpp:644.  After the repair the point is recorded with its Y entry alone and singular_coords() removes it (rm_singular_xy).
//
// Build (plain):  OBJS=$(find /repo/_build/CMakeFiles/libgama.dir -name '*.o'); g++ -std=c++14 -I/repo/lib native_demo.cpp $OBJS -lexpat
// Build (ASan on network.cpp):  OBJS=$(find /repo/_build/CMakeFiles/libgama.dir -name '*.o' | grep -v 'local/network.cpp.o');
//                 g++ -std=c++14 -g -fsanitize=address -I/repo/lib native_demo.cpp /repo/lib/gnu_gama/local/network.cpp $OBJS -lexpat
// The same document as a file: native_demo.gkf  (/repo/_build/gama-local native_demo.gkf --text out.txt; echo $?)
#include <gnu_gama/local/network.h>
#include <gnu_gama/xml/gkfparser.h>
#include <gnu_gama/local/language.h>
#include <cstdio>
#include <string>
using namespace GNU_gama::local;

int main()
{
  set_gama_language(en);
  const std::string s =
  "<?xml version=\"1.0\" ?>\n<gama-local xmlns=\"http://www.gnu.org/software/gama/gama-local\">\n"
  "<network axes-xy=\"ne\" angles=\"left-handed\">\n"
  "<parameters sigma-apr=\"10\" conf-pr=\"0.95\" tol-abs=\"1000\" sigma-act=\"apriori\" />\n"
  "<points-observations distance-stdev=\"5\">\n"
  "<point id=\"A\" x=\"0\" y=\"0\" fix=\"xy\" />\n<point id=\"B\" x=\"100\" y=\"0\" fix=\"xy\" />\n"
  "<point id=\"C\" x=\"50\" y=\"80\" adj=\"xy\" />\n"
  "<obs from=\"A\"><distance to=\"C\" val=\"94.34\" /></obs>\n<obs from=\"B\"><distance to=\"C\" val=\"94.34\" /></obs>\n"
  "<coordinates><point id=\"P\" x=\"250.0\" y=\"300.001\" /><cov-mat dim=\"2\" band=\"0\">1 1</cov-mat></coordinates>\n"
  "<point id=\"P\" x=\"200\" y=\"300\" adj=\"xy\" />\n"     // after <coordinates>: the approximate x stays 200, the observed x is 250
  "</points-observations>\n</network>\n</gama-local>\n";
  LocalNetwork net;
  GKFparser p(net);
  p.xml_parse(s.c_str(), s.size(), 1);
  net.set_algorithm("envelope");
  const bool huge = net.huge_abs_terms();       // first formation of the equations: X of P has an absolute term of 5e4 mm
  net.remove_huge_abs_terms();                  // X of P becomes passive, Y of P stays active
  net.project_equations();                      // second formation: P has index_y != 0, index_x == 0
  const int n = net.unknowns_count();
  bool table_ok = true;
  for (int i = 1; i <= n; i++)
    {
      const char t = net.unknown_type(i);
      std::printf("unknown %d: type %c point '%s'\n", i, t ? t : '?', net.unknown_pointid(i).str().c_str());
      if ((t != 'X' && t != 'Y' && t != 'Z' && t != 'R') || net.unknown_pointid(i).str().empty()) table_ok = false;
    }
  bool p_removed = false;
  for (auto& id : net.removed_points) if (id.str() == "P") p_removed = true;
  const bool ok = huge && table_ok && n == 2 && p_removed;
  std::printf("outlying abs. term seen: %d, unknowns: %d, every column has a descriptor: %d, P removed as singular: %d -> %s\n",
              (int)huge, n, (int)table_ok, (int)p_removed, ok ? "ok" : "DEFECT REPRODUCED");
  return !ok;
}
