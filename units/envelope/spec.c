/* Sidecar contracts for lib/gnu_gama/adj/envelope.h  (Envelope<double,int>, the instantiation used by
   AdjEnvelope<double,int>).  Only contracts, ghost declarations and harnesses live here; the function
   bodies are extracted from /repo on every run. */

//@ prelude
typedef double Float;
typedef int Index;
#define Float(...) ((double)(__VA_ARGS__ + 0))   /* rule R3: Float() / Float(x) value construction */
#define Index(...) ((int)(__VA_ARGS__ + 0))

struct Envelope {
  Index   dim_;
  Index   defect_;
  Float  *diag_;
  Float  *env_;
  Float **xenv_;
  long    gv_env_size;   /* ghost: number of Floats in env_ (the C++ object does not store it) */
};

int gv_exc;
Index gv_k0;   /* ghost index for forall-introduction in postconditions */
Index gv_zeros; /* ghost: number of zeroed pivots (cholDec P2) */
Float gv_tol;   /* ghost: effective tolerance used by cholDec */
#define FSZ ((long)sizeof(Float))
#define GV_ABS_GE(x, t) ((x) >= (t) || -(x) >= (t))   /* |x| >= t without a call (invariants must be call-free) */
#define MAXDIM 1000000
#define MAXENV 100000000L

/* Structure invariant of the profile storage at row r (1 <= r <= dim_), written with offsets only:
   xenv_[r] and xenv_[r+1] point into env_, are ordered and aligned, and row r holds at most r-1 elements
   (a lower-triangular profile: row r has columns  r-len .. r-1). */
#define WF_ROW(E, r)                                                                                   \
  (SAME((E)->xenv_[r], (E)->env_) && SAME((E)->xenv_[(r) + 1], (E)->env_) &&                           \
   OFF((E)->xenv_[r]) >= 0 && OFF((E)->xenv_[r]) <= OFF((E)->xenv_[(r) + 1]) &&                        \
   OFF((E)->xenv_[(r) + 1]) <= (E)->gv_env_size * FSZ && OFF((E)->xenv_[r]) % FSZ == 0 &&              \
   OFF((E)->xenv_[(r) + 1]) % FSZ == 0 &&                                                              \
   (OFF((E)->xenv_[(r) + 1]) - OFF((E)->xenv_[r])) / FSZ <= (long)(r)-1)
#define ROWLEN(E, r) ((OFF((E)->xenv_[(r) + 1]) - OFF((E)->xenv_[r])) / FSZ)

/* shape part of the invariant (no quantifier needed) */
#define WF_SHAPE(E)                                                                                    \
  ((E)->dim_ >= 1 && (E)->dim_ <= MAXDIM && (E)->gv_env_size >= 0 && (E)->gv_env_size <= MAXENV &&     \
   __CPROVER_rw_ok((E)->diag_, (E)->dim_ * sizeof(Float)) &&                                           \
   __CPROVER_rw_ok((E)->xenv_, ((E)->dim_ + 2) * sizeof(Float *)) &&                                   \
   __CPROVER_rw_ok((E)->env_, (E)->gv_env_size * sizeof(Float)))

/* harness helper: an arbitrary envelope satisfying WF_SHAPE; row facts are instantiated at use sites */
static void mk_envelope(struct Envelope *E)
{
  Index d;
  long es;
  __CPROVER_assume(d >= 1 && d <= MAXDIM && es >= 0 && es <= MAXENV);
  E->dim_ = d;
  E->gv_env_size = es;
  E->diag_ = malloc(d * sizeof(Float));
  E->xenv_ = malloc(((long)d + 2) * sizeof(Float *));
  /* env_ is nullptr in the C++ object when es == 0; C++ defines nullptr-nullptr and nullptr+0, the C front end
     reports them, so the null profile is represented by the base of an empty object (stated assumption). */
  E->env_ = malloc(es * sizeof(Float));
  __CPROVER_assume(E->diag_ && E->xenv_ && E->env_);
}

/* harness helper: rhs with room for n Floats, either a separate object or a window of env_ (the aliasing
   that cholDec uses: the row being eliminated is the right-hand side) */
static Float *mk_rhs(struct Envelope *E, long n)
{
  if (n <= 0) { Float *any; return any; }
  if (GV_ALIAS) {
    long k;
    __CPROVER_assume(k >= 0 && k <= E->gv_env_size && n <= E->gv_env_size - k);
    return E->env_ + k;
  }
  Float *p = malloc(n * sizeof(Float));
  __CPROVER_assume(p);
  return p;
}
//@ end

/* ------------------------------------------------------------------------------------------------ */
//@ contract Envelope_lowerSolve
__CPROVER_requires(WF_SHAPE(self))
__CPROVER_requires(1 <= start && start <= stop + 1 && stop <= self->dim_)
__CPROVER_requires(stop >= start ==> __CPROVER_rw_ok(rhs, ((long)stop - start + 1) * sizeof(Float)))
__CPROVER_requires(stop >= start ==> (SAME(rhs, self->env_) || (!SAME(rhs, self->diag_) && !SAME(rhs, self->xenv_) && !SAME(rhs, self))))
__CPROVER_assigns(stop >= start: __CPROVER_object_whole(rhs))
//@ entry Envelope_lowerSolve
GV_CANARY("Envelope_lowerSolve entry");
Float *const gv_rhs0 = rhs;
//@ loop Envelope_lowerSolve 1
__CPROVER_assigns(row, b, e, x, s, rhs; stop >= start: __CPROVER_object_whole(gv_rhs0))
__CPROVER_loop_invariant(start + 1 <= row && row <= GV_MAX(stop, start) + 1 && SAME(rhs, gv_rhs0) &&
                         OFF(rhs) == OFF(gv_rhs0) + FSZ * ((long)row - start))
__CPROVER_decreases((long)stop + 1 - row)
//@ head Envelope_lowerSolve 1
GV_ANCHOR(rhs, gv_rhs0 + (row - start));
GV_INST(1 <= row && row <= self->dim_, WF_ROW(self, row));
//@ loop Envelope_lowerSolve 2
__CPROVER_assigns(x, e, s)
__CPROVER_loop_invariant(SAME(e, b) && OFF(b) <= OFF(e) && OFF(e) <= OFF(self->xenv_[row + 1]) &&
                         SAME(x, rhs0) && OFF(rhs0) <= OFF(x) && OFF(x) <= OFF(rhs) &&
                         (OFF(e) - OFF(b)) % FSZ == 0 && (OFF(x) - OFF(rhs0)) % FSZ == 0)
__CPROVER_decreases(OFF(e))
//@ end


/* ------------------------------------------------------------------------------------------------ */
/* diagonalSolve: rhs[k] /= d[k], and an EXACT zero where the pivot is zero (C16: "exact zeros on dependent
   pivots").  gv_k0 is a ghost index chosen by the harness (forall-introduction).                      */
//@ contract Envelope_diagonalSolve
__CPROVER_requires(WF_SHAPE(self))
__CPROVER_requires(stop >= 0 && stop <= self->dim_ && 1 <= start && start <= stop + 1)
__CPROVER_requires(stop >= start ==> __CPROVER_rw_ok(rhs, ((long)stop - start + 1) * sizeof(Float)))
__CPROVER_requires(stop >= start ==> (SAME(rhs, self->env_) || (!SAME(rhs, self->diag_) && !SAME(rhs, self->xenv_) && !SAME(rhs, self))))
__CPROVER_assigns(stop >= start: __CPROVER_object_whole(rhs))
__CPROVER_ensures((start <= gv_k0 && gv_k0 <= stop && self->diag_[gv_k0 - 1] == 0) ==> rhs[gv_k0 - start] == 0)
//@ entry Envelope_diagonalSolve
GV_CANARY("Envelope_diagonalSolve entry");
Float *const gv_rhs0 = rhs;
const Index gv_start0 = start;
//@ loop Envelope_diagonalSolve 1
__CPROVER_assigns(start, rhs, d; stop >= gv_start0: __CPROVER_object_whole(gv_rhs0))
__CPROVER_loop_invariant(gv_start0 <= start && start <= stop + 1 && SAME(rhs, gv_rhs0) &&
                         OFF(rhs) == OFF(gv_rhs0) + FSZ * ((long)start - gv_start0) && SAME(d, self->diag_) &&
                         OFF(d) == OFF(self->diag_) + FSZ * ((long)start - 1) &&
                         ((gv_start0 <= gv_k0 && gv_k0 < start && self->diag_[gv_k0 - 1] == 0) ==> gv_rhs0[gv_k0 - gv_start0] == 0))
__CPROVER_decreases((long)stop + 1 - start)
//@ head Envelope_diagonalSolve 1
GV_ANCHOR(rhs, gv_rhs0 + (start - 1 - gv_start0));
GV_ANCHOR(d, self->diag_ + (start - 2));
//@ end

/* ------------------------------------------------------------------------------------------------ */
/* upperSolve: rhs is indexed from row 1 (rhs[row-1] belongs to row), so it must hold `stop` elements. */
//@ contract Envelope_upperSolve
__CPROVER_requires(WF_SHAPE(self))
__CPROVER_requires(1 <= start && start <= stop && stop <= self->dim_)
__CPROVER_requires(__CPROVER_rw_ok(rhs, (long)stop * sizeof(Float)))
__CPROVER_requires(!SAME(rhs, self->env_) && !SAME(rhs, self->diag_) && !SAME(rhs, self->xenv_) && !SAME(rhs, self))
__CPROVER_assigns(__CPROVER_object_whole(rhs))
//@ entry Envelope_upperSolve
GV_CANARY("Envelope_upperSolve entry");
Float *const gv_rhs0 = rhs;
//@ loop Envelope_upperSolve 1
__CPROVER_assigns(row, b, e, col, rhs, __CPROVER_object_whole(gv_rhs0))
__CPROVER_loop_invariant(start - 1 <= row && row <= stop && SAME(rhs, gv_rhs0) &&
                         /* unsigned form: rhs is one-before-the-array when the loop exits with start == 1 */
                         __CPROVER_POINTER_OFFSET(rhs) + 8ul == __CPROVER_POINTER_OFFSET(gv_rhs0) + 8ul * (unsigned long)row)
__CPROVER_decreases((long)row - start + 1)
//@ head Envelope_upperSolve 1
GV_ANCHOR(rhs, gv_rhs0 + (row - 1));
GV_INST(1 <= row && row <= self->dim_, WF_ROW(self, row));
//@ loop Envelope_upperSolve 2
__CPROVER_assigns(b, col, __CPROVER_object_whole(gv_rhs0))
__CPROVER_loop_invariant(SAME(b, e) && OFF(self->xenv_[row]) <= OFF(b) && OFF(b) <= OFF(e) &&
                         (OFF(e) - OFF(b)) % FSZ == 0 && SAME(col, gv_rhs0) &&
                         OFF(col) == OFF(rhs) - (OFF(e) - OFF(b)))
__CPROVER_decreases(OFF(e) - OFF(b))
//@ head Envelope_upperSolve 2
GV_ANCHOR(col, rhs - (e - b));
//@ end

/* ------------------------------------------------------------------------------------------------ */
/* element(i,j): address of L(max,min) inside the profile, NULL exactly outside the row band, symmetric. */
//@ contract Envelope_element
__CPROVER_requires(WF_SHAPE(self))
__CPROVER_requires(1 <= i && i <= self->dim_ && 1 <= j && j <= self->dim_)
__CPROVER_requires(WF_ROW(self, GV_MAX(i, j)))
__CPROVER_assigns()
__CPROVER_ensures(i == j ==> __CPROVER_return_value == self->diag_ + (i - 1))
__CPROVER_ensures((i != j && GV_MAX(i, j) - GV_MIN(i, j) > ROWLEN(self, GV_MAX(i, j))) ==> __CPROVER_return_value == NULL)
__CPROVER_ensures((i != j && GV_MAX(i, j) - GV_MIN(i, j) <= ROWLEN(self, GV_MAX(i, j))) ==>
                  __CPROVER_return_value == self->xenv_[GV_MAX(i, j) + 1] - (GV_MAX(i, j) - GV_MIN(i, j)))
//@ entry Envelope_element
GV_CANARY("Envelope_element entry");
//@ contract Envelope_element_const
__CPROVER_requires(WF_SHAPE(self))
__CPROVER_requires(1 <= i && i <= self->dim_ && 1 <= j && j <= self->dim_)
__CPROVER_requires(WF_ROW(self, GV_MAX(i, j)))
__CPROVER_assigns()
__CPROVER_ensures(i == j ==> __CPROVER_return_value == self->diag_ + (i - 1))
__CPROVER_ensures((i != j && GV_MAX(i, j) - GV_MIN(i, j) > ROWLEN(self, GV_MAX(i, j))) ==> __CPROVER_return_value == NULL)
__CPROVER_ensures((i != j && GV_MAX(i, j) - GV_MIN(i, j) <= ROWLEN(self, GV_MAX(i, j))) ==>
                  __CPROVER_return_value == self->xenv_[GV_MAX(i, j) + 1] - (GV_MAX(i, j) - GV_MIN(i, j)))
//@ entry Envelope_element_const
GV_CANARY("Envelope_element_const entry");
//@ end


/* ------------------------------------------------------------------------------------------------ */
//@ contract Envelope_begin
__CPROVER_requires(__CPROVER_r_ok(self->xenv_ + i, sizeof(Float *)))
__CPROVER_assigns()
__CPROVER_ensures(__CPROVER_return_value == self->xenv_[i])
//@ contract Envelope_end
__CPROVER_requires(__CPROVER_r_ok(self->xenv_ + i + 1, sizeof(Float *)))
__CPROVER_assigns()
__CPROVER_ensures(__CPROVER_return_value == self->xenv_[i + 1])
//@ end

/* cholDec (in-place LDL').  Postconditions are taken from property C16 ("exact zeros on dependent pivots",
   "all rank deficiencies"):
   P1  every pivot is afterwards either an exact zero or at least tol in magnitude -- for EVERY row, row 1 included;
   P2  defect_ is the number of rows whose pivot was zeroed.  The count is defined by the ghost counter gv_zeros:
       it starts (just before the row loop) at [pivot 1 is zero] and is incremented at the end of the iteration of
       `row` iff diag_[row-1] == 0; P1's invariant shows that a pivot is never touched after its own iteration, so
       gv_zeros is the number of k with diag_[k-1] == 0 on return.
   lowerSolve/diagonalSolve are replaced by their contracts (they are verified separately above).      */
//@ contract Envelope_cholDec
__CPROVER_requires(WF_SHAPE(self))
__CPROVER_requires(tol == tol)                     /* not a NaN */
__CPROVER_assigns(self->defect_, gv_zeros, gv_tol, __CPROVER_object_whole(self->diag_), __CPROVER_object_whole(self->env_))
__CPROVER_ensures(gv_tol > 0 && (tol > 0 ==> gv_tol == tol))
__CPROVER_ensures((1 <= gv_k0 && gv_k0 <= self->dim_) ==>
                  (self->diag_[gv_k0 - 1] == 0 || GV_ABS_GE(self->diag_[gv_k0 - 1], gv_tol) || self->diag_[gv_k0 - 1] != self->diag_[gv_k0 - 1]))
__CPROVER_ensures(self->defect_ == gv_zeros && 0 <= self->defect_ && self->defect_ <= self->dim_)
//@ entry Envelope_cholDec
GV_CANARY("Envelope_cholDec entry");
//@ pre Envelope_cholDec 1
gv_tol = tol;
gv_zeros = (self->diag_[0] == 0) ? 1 : 0;
//@ loop Envelope_cholDec 1
__CPROVER_assigns(row, self->defect_, gv_zeros, __CPROVER_object_whole(self->diag_), __CPROVER_object_whole(self->env_))
__CPROVER_loop_invariant(2 <= row && row <= self->dim_ + 1 && self->defect_ == gv_zeros && 0 <= self->defect_ &&
                         self->defect_ <= row - 1 &&
                         ((1 <= gv_k0 && gv_k0 < row) ==>
                          (self->diag_[gv_k0 - 1] == 0 || GV_ABS_GE(self->diag_[gv_k0 - 1], tol) || self->diag_[gv_k0 - 1] != self->diag_[gv_k0 - 1])))
__CPROVER_decreases((long)self->dim_ + 1 - row)
//@ head Envelope_cholDec 1
GV_INST(1 <= row && row <= self->dim_, WF_ROW(self, row));
//@ tail Envelope_cholDec 1
if (self->diag_[row - 1] == 0) gv_zeros++;
//@ loop Envelope_cholDec 2
__CPROVER_assigns(b, d, s)
__CPROVER_loop_invariant(SAME(b, e) && OFF(self->xenv_[row]) <= OFF(b) && OFF(b) <= OFF(e) && (OFF(e) - OFF(b)) % FSZ == 0 &&
                         SAME(d, self->diag_) && OFF(d) == FSZ * ((long)start - 1) + (OFF(b) - OFF(self->xenv_[row])))
__CPROVER_decreases(OFF(e) - OFF(b))
//@ post Envelope_cholDec 2
GV_ANCHOR(d, self->diag_ + (row - 1));
//@ end

/* ---- functions used only by the BOUNDED numeric check (loops unwound, no loop contracts) ---------------- */
//@ entry Envelope_inverse
GV_CANARY("Envelope_inverse entry");
//@ end

//@ harness
void h_lowerSolve(void)
{
  struct Envelope E;
  mk_envelope(&E);
  Index start, stop;
  __CPROVER_assume(stop >= 0 && stop <= E.dim_ && 1 <= start && start <= stop + 1);
  Float *rhs = mk_rhs(&E, (long)stop - start + 1);
  Envelope_lowerSolve(&E, start, stop, rhs);
  GV_CANARY("h_lowerSolve end");
}

void h_diagonalSolve(void)
{
  struct Envelope E;
  mk_envelope(&E);
  Index start, stop, k0;
  __CPROVER_assume(stop >= 0 && stop <= E.dim_ && 1 <= start && start <= stop + 1);
  gv_k0 = k0;
  Float *rhs = mk_rhs(&E, (long)stop - start + 1);
  Envelope_diagonalSolve(&E, start, stop, rhs);
  GV_CANARY("h_diagonalSolve end");
}

void h_upperSolve(void)
{
  struct Envelope E;
  mk_envelope(&E);
  Index start, stop;
  __CPROVER_assume(1 <= start && start <= stop && stop <= E.dim_);
  Float *rhs = malloc((long)stop * sizeof(Float));
  __CPROVER_assume(rhs);
  Envelope_upperSolve(&E, start, stop, rhs);
  GV_CANARY("h_upperSolve end");
}

void h_element(void)
{
  struct Envelope E;
  mk_envelope(&E);
  Index i, j;
  __CPROVER_assume(1 <= i && i <= E.dim_ && 1 <= j && j <= E.dim_);
  __CPROVER_assume(WF_ROW(&E, GV_MAX(i, j)));
  Float *p = Envelope_element(&E, i, j);
  const Float *q = Envelope_element_const(&E, j, i);
  __CPROVER_assert(p == q, "element(i,j) and element(j,i) are the same address (symmetric storage)");
  __CPROVER_assert(p == NULL || (i == j ? SAME(p, E.diag_) : (SAME(p, E.env_) && OFF(p) >= OFF(E.xenv_[GV_MAX(i, j)]) && OFF(p) < OFF(E.xenv_[GV_MAX(i, j) + 1]))), "non-null element lies inside its row");
  GV_CANARY("h_element end");
}

void h_cholDec(void)
{
  struct Envelope E;
  mk_envelope(&E);
  Float tol;
  Index k0;
  __CPROVER_assume(tol == tol);
  gv_k0 = k0;
  Index w_dim = E.dim_;          /* witness variables: make the counterexample readable for replay.cpp */
  Float w_tol = tol, w_d0 = E.diag_[0];
  Envelope_cholDec(&E, tol);
  GV_CANARY("h_cholDec end");
}

void h_element_const(void)
{
  struct Envelope E;
  mk_envelope(&E);
  Index i, j;
  __CPROVER_assume(1 <= i && i <= E.dim_ && 1 <= j && j <= E.dim_);
  __CPROVER_assume(WF_ROW(&E, GV_MAX(i, j)));
  const Float *q = Envelope_element_const(&E, i, j);
  GV_CANARY("h_element_const end");
}

/* BOUNDED numeric check (C03 / C16): in-place LDL' and the sparse inverse on EXACTLY representable inputs.
   N = L D L' is built from small integers (|l| <= 2, d in {1,2,4}) inside a symbolic profile of dimension GV_BDIM, so
   every IEEE operation of cholDec/lowerSolve/diagonalSolve/inverse is exact and the oracle is ==:
     (1) cholDec recovers L and D, defect 0;   (2) Z = inverse(chol) satisfies (Z N)(i,j) == [i==j] for all i,j,
   where Z outside its profile is obtained from the recurrence's own symmetric accessor element(i,j) (NULL -> checked
   only inside the profile: rows of Z N restricted to stored entries use the full N).                          */
#ifndef GV_BDIM
#define GV_BDIM 3
#endif
#ifndef GV_BDMAX
#define GV_BDMAX 2
#endif
#ifndef GV_BLMAX
#define GV_BLMAX 2
#endif
#ifndef GV_LEN2
#define GV_LEN2 1
#endif
#ifndef GV_LEN3
#define GV_LEN3 2
#endif
static Float gvb_get(const struct Envelope *E, Index i, Index j)   /* symmetric read; 0 outside the profile */
{
  if (i == j) return E->diag_[i - 1];
  Index hi = i > j ? i : j, lo = i > j ? j : i;
  long len = E->xenv_[hi + 1] - E->xenv_[hi];
  if (hi - lo > len) return 0;
  return *(E->xenv_[hi + 1] - (hi - lo));
}
void h_bounded_ldl_inverse(void)
{
  enum { D = GV_BDIM, ES = GV_LEN2 + (GV_BDIM >= 3 ? GV_LEN3 : 0) };
  const Index len[5] = { 0, 0, GV_LEN2, GV_LEN3, 0 };      /* concrete row-band shape of this check (one check per shape) */
  Float L[D + 1][D + 1], dg[D + 1], Nfull[D + 1][D + 1];
  for (Index i = 1; i <= D; i++) {
    int dsel; __CPROVER_assume(dsel >= 0 && dsel <= GV_BDMAX);
    dg[i] = dsel == 0 ? 1.0 : dsel == 1 ? 2.0 : 4.0;
    for (Index j = 1; j <= D; j++) {
      int v; __CPROVER_assume(-GV_BLMAX <= v && v <= GV_BLMAX);
      L[i][j] = (j == i) ? 1.0 : (j < i && i - j <= len[i]) ? (Float)v : 0.0;
    }
  }
  for (Index i = 1; i <= D; i++)
    for (Index j = 1; j <= D; j++) { Float s = 0; for (Index k = 1; k <= D; k++) s += L[i][k] * dg[k] * L[j][k]; Nfull[i][j] = s; }
  struct Envelope E;
  E.dim_ = D; E.defect_ = 0; E.gv_env_size = ES;
  E.diag_ = malloc(D * sizeof(Float)); E.xenv_ = malloc((D + 2) * sizeof(Float *)); E.env_ = malloc(ES * sizeof(Float));
  __CPROVER_assume(E.diag_ && E.xenv_ && E.env_);
  Float *t = E.env_;
  for (Index i = 1; i <= D; i++) { E.diag_[i - 1] = Nfull[i][i]; E.xenv_[i] = t; for (Index j = i - len[i]; j < i; j++) *t++ = Nfull[i][j]; }
  E.xenv_[D + 1] = t;
  Float tol = 1e-8;
  Envelope_cholDec(&E, tol);
  __CPROVER_assert(E.defect_ == 0, "bounded: regular L D L' input has defect 0");
  for (Index i = 1; i <= D; i++) {
    __CPROVER_assert(E.diag_[i - 1] == dg[i], "bounded: cholDec recovers D exactly");
    for (Index j = i - len[i]; j < i; j++) __CPROVER_assert(gvb_get(&E, i, j) == L[i][j], "bounded: cholDec recovers L exactly");
  }
  struct Envelope Z; Z.dim_ = 0; Z.defect_ = 0; Z.diag_ = NULL; Z.env_ = NULL; Z.xenv_ = NULL; Z.gv_env_size = ES;
  gv_exc = 0;
  Envelope_inverse(&Z, &E);
  __CPROVER_assert(Z.dim_ == D, "bounded: inverse has the dimension of the factor");
  for (Index i = 1; i <= D; i++)
    __CPROVER_assert(Z.xenv_[i + 1] - Z.xenv_[i] == len[i], "bounded: inverse has the profile of the factor");
  /* Z is the inverse restricted to the profile.  The true inverse inv(N) = inv(L)' inv(D) inv(L) is computed here by the
     textbook dense formulas (exact on this input class) and compared entry by entry on the stored profile. */
  Float Li[D + 1][D + 1], Ninv[D + 1][D + 1];
  for (Index i = 1; i <= D; i++)
    for (Index j = 1; j <= D; j++) {
      if (j > i) { Li[i][j] = 0; continue; }
      if (j == i) { Li[i][j] = 1; continue; }
      Float s = 0; for (Index k = j; k < i; k++) s -= L[i][k] * Li[k][j];
      Li[i][j] = s;
    }
  for (Index i = 1; i <= D; i++)
    for (Index j = 1; j <= D; j++) { Float s = 0; for (Index k = 1; k <= D; k++) s += Li[k][i] * Li[k][j] / dg[k]; Ninv[i][j] = s; }
  for (Index i = 1; i <= D; i++) {
    __CPROVER_assert(Z.diag_[i - 1] == Ninv[i][i], "bounded: diagonal of the sparse inverse equals inv(N) exactly");
    for (Index j = i - len[i]; j < i; j++) __CPROVER_assert(gvb_get(&Z, i, j) == Ninv[i][j], "bounded: profile entry of the sparse inverse equals inv(N) exactly");
  }
  GV_CANARY("h_bounded_ldl_inverse end");
}
//@ end
