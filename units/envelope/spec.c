/* Sidecar contracts for lib/gnu_gama/adj/envelope.h  (Envelope<double,int>, the instantiation used by
   AdjEnvelope<double,int>).  Only contracts, ghost declarations and harnesses live here; the function
   bodies are extracted from /repo on every run. */

//@ prelude
typedef double Float;
typedef int Index;
#define Float(...) ((double)(__VA_ARGS__ + 0))   /* rule R3: Float() / Float(x) value construction */
#define Index(...) ((int)(__VA_ARGS__ + 0))

struct Envelope {
  Index   dim_;
  Index   defect_;
  Float  *diag_;
  Float  *env_;
  Float **xenv_;
  long    gv_env_size;   /* ghost: number of Floats in env_ (the C++ object does not store it) */
};

int gv_exc;
#define FSZ ((long)sizeof(Float))
#define MAXDIM 1000000
#define MAXENV 100000000L

/* Structure invariant of the profile storage at row r (1 <= r <= dim_), written with offsets only:
   xenv_[r] and xenv_[r+1] point into env_, are ordered and aligned, and row r holds at most r-1 elements
   (a lower-triangular profile: row r has columns  r-len .. r-1). */
#define WF_ROW(E, r)                                                                                   \
  (SAME((E)->xenv_[r], (E)->env_) && SAME((E)->xenv_[(r) + 1], (E)->env_) &&                           \
   OFF((E)->xenv_[r]) >= 0 && OFF((E)->xenv_[r]) <= OFF((E)->xenv_[(r) + 1]) &&                        \
   OFF((E)->xenv_[(r) + 1]) <= (E)->gv_env_size * FSZ && OFF((E)->xenv_[r]) % FSZ == 0 &&              \
   OFF((E)->xenv_[(r) + 1]) % FSZ == 0 &&                                                              \
   (OFF((E)->xenv_[(r) + 1]) - OFF((E)->xenv_[r])) / FSZ <= (long)(r)-1)
#define ROWLEN(E, r) ((OFF((E)->xenv_[(r) + 1]) - OFF((E)->xenv_[r])) / FSZ)

/* shape part of the invariant (no quantifier needed) */
#define WF_SHAPE(E)                                                                                    \
  ((E)->dim_ >= 1 && (E)->dim_ <= MAXDIM && (E)->gv_env_size >= 0 && (E)->gv_env_size <= MAXENV &&     \
   __CPROVER_rw_ok((E)->diag_, (E)->dim_ * sizeof(Float)) &&                                           \
   __CPROVER_rw_ok((E)->xenv_, ((E)->dim_ + 2) * sizeof(Float *)) &&                                   \
   ((E)->gv_env_size == 0 ? (E)->env_ == NULL : __CPROVER_rw_ok((E)->env_, (E)->gv_env_size * sizeof(Float))))

/* harness helper: an arbitrary envelope satisfying WF_SHAPE; row facts are instantiated at use sites */
static void mk_envelope(struct Envelope *E)
{
  Index d;
  long es;
  __CPROVER_assume(d >= 1 && d <= MAXDIM && es >= 0 && es <= MAXENV);
  E->dim_ = d;
  E->gv_env_size = es;
  E->diag_ = malloc(d * sizeof(Float));
  E->xenv_ = malloc(((long)d + 2) * sizeof(Float *));
  E->env_ = es ? malloc(es * sizeof(Float)) : NULL;
  __CPROVER_assume(E->diag_ && E->xenv_ && (es == 0 || E->env_));
}

/* harness helper: rhs with room for n Floats, either a separate object or a window of env_ (the aliasing
   that cholDec uses: the row being eliminated is the right-hand side) */
static Float *mk_rhs(struct Envelope *E, long n)
{
  if (n <= 0) { Float *any; return any; }
  if (GV_ALIAS) {
    long k;
    __CPROVER_assume(k >= 0 && k <= E->gv_env_size && n <= E->gv_env_size - k);
    return E->env_ + k;
  }
  Float *p = malloc(n * sizeof(Float));
  __CPROVER_assume(p);
  return p;
}
//@ end

/* ------------------------------------------------------------------------------------------------ */
//@ contract Envelope_lowerSolve
__CPROVER_requires(WF_SHAPE(self))
__CPROVER_requires(1 <= start && start <= stop + 1 && stop <= self->dim_)
__CPROVER_requires(stop >= start ==> __CPROVER_rw_ok(rhs, ((long)stop - start + 1) * sizeof(Float)))
__CPROVER_requires(stop >= start ==> (SAME(rhs, self->env_) || (!SAME(rhs, self->diag_) && !SAME(rhs, self->xenv_) && !SAME(rhs, self))))
__CPROVER_assigns(stop >= start: __CPROVER_object_whole(rhs))
//@ entry Envelope_lowerSolve
GV_CANARY("Envelope_lowerSolve entry");
Float *const gv_rhs0 = rhs;
//@ loop Envelope_lowerSolve 1
__CPROVER_assigns(row, b, e, x, s, rhs; stop >= start: __CPROVER_object_whole(gv_rhs0))
__CPROVER_loop_invariant(start + 1 <= row && row <= GV_MAX(stop, start) + 1 && SAME(rhs, gv_rhs0) &&
                         OFF(rhs) == OFF(gv_rhs0) + FSZ * ((long)row - start))
__CPROVER_decreases((long)stop + 1 - row)
//@ head Envelope_lowerSolve 1
GV_ANCHOR(rhs, gv_rhs0 + (row - start));
GV_INST(1 <= row && row <= self->dim_, WF_ROW(self, row));
//@ loop Envelope_lowerSolve 2
__CPROVER_assigns(x, e, s)
__CPROVER_loop_invariant(SAME(e, b) && OFF(b) <= OFF(e) && OFF(e) <= OFF(self->xenv_[row + 1]) &&
                         SAME(x, rhs0) && OFF(rhs0) <= OFF(x) && OFF(x) <= OFF(rhs) &&
                         (OFF(e) - OFF(b)) % FSZ == 0 && (OFF(x) - OFF(rhs0)) % FSZ == 0)
__CPROVER_decreases(OFF(e))
//@ end

//@ harness
void h_lowerSolve(void)
{
  struct Envelope E;
  mk_envelope(&E);
  Index start, stop;
  __CPROVER_assume(stop >= 0 && stop <= E.dim_ && 1 <= start && start <= stop + 1);
  Float *rhs = mk_rhs(&E, (long)stop - start + 1);
  Envelope_lowerSolve(&E, start, stop, rhs);
  GV_CANARY("h_lowerSolve end");
}
//@ end
