// Native replay for unit "envelope": rebuilds the verifier's counterexample through the public API of the
// real Envelope<double,int> and re-evaluates the postcondition.  exit 1 = violation reproduces, 0 = does not.
#include <cmath>
#include <limits>
#include <vector>
#include <gnu_gama/adj/envelope.h>
#include "gv_replay.h"

using Env = GNU_gama::Envelope<double, int>;

static int check_cholDec(int dim, double d0, double tol)
{
  if (dim < 1) dim = 1;
  if (dim > 8) dim = 8;                       // P1 for row 1 depends on diag[0] and tol only
  std::vector<double> diag(dim, 1.0);
  diag[0] = d0;
  std::vector<int> band(dim, 0);
  double dummy = 0;
  Env e(diag.data(), diag.data() + dim, &dummy, &dummy, band.data(), band.data() + dim);
  e.cholDec(tol);
  double teff = tol > 0 ? tol : std::sqrt(std::numeric_limits<double>::epsilon());
  int zeros = 0, bad = 0;
  for (int k = 1; k <= dim; k++) {
    const Env& ce = e;
    double d = ce.diagonal(k);
    if (d == 0) zeros++;
    else if (std::fabs(d) < teff) { bad++; std::printf("row %d: pivot %.17g is neither 0 nor >= tol %.17g\n", k, d, teff); }
  }
  if ((int)e.defect() != zeros) { bad++; std::printf("defect() = %d but %d pivots are zero\n", (int)e.defect(), zeros); }
  std::printf("cholDec(dim=%d, diag[0]=%.17g, tol=%.17g): %s\n", dim, d0, tol, bad ? "POSTCONDITION VIOLATED" : "ok");
  return bad ? 1 : 0;
}

// Directed search when the trace's witness does not reproduce: small families of profiles with one tiny / zero pivot.
static int search_cholDec()
{
  for (int dim = 1; dim <= 4; dim++)
    for (int k = 0; k < dim; k++)
      for (int shape = 0; shape < 2; shape++)      // 0: empty profile (diagonal matrix), 1: full profile
        for (int tiny = 0; tiny < 2; tiny++) {
          std::vector<double> diag(dim, 1.0), env;
          std::vector<int> band(dim, 0);
          diag[k] = tiny ? 1e-12 : 0.0;
          if (shape == 1) for (int r = 0; r < dim; r++) { band[r] = r; for (int c = 0; c < r; c++) env.push_back(0.0); }
          double dummy = 0;
          const double* eb = env.empty() ? &dummy : env.data();
          Env e(diag.data(), diag.data() + dim, eb, eb + env.size(), band.data(), band.data() + dim);
          e.cholDec();
          double teff = std::sqrt(std::numeric_limits<double>::epsilon());
          int zeros = 0, bad = 0;
          const Env& ce = e;
          for (int r = 1; r <= dim; r++) { double d = ce.diagonal(r); if (d == 0) zeros++; else if (std::fabs(d) < teff) bad++; }
          if ((int)e.defect() != zeros) bad++;
          if (bad) {
            std::printf("cholDec on diag(1,..,%g at row %d,..,1), dim %d, %s profile: pivot left at %.3g, defect() = %d, zero pivots = %d: POSTCONDITION VIOLATED\n",
                        diag[k], k + 1, dim, shape ? "full" : "empty", ce.diagonal(k + 1), (int)e.defect(), zeros);
            return 1;
          }
        }
  std::printf("directed search (dims 1..4, one tiny/zero pivot, empty/full profile): no violation\n");
  return 0;
}

int main(int argc, char** argv)
{
  if (argc < 3) return 2;
  GvInputs in(argv[1]);
  std::string check = argv[2];
  if (check == "cholDec") {
    if (in.has("w_d0") && check_cholDec((int)in.integer("w_dim", 2), in.num("w_d0", 0), in.num("w_tol", 0)) == 1) return 1;
    return search_cholDec();
  }
  std::printf("no native replay for check %s\n", check.c_str());
  return 2;
}
