// Native replay for unit "envelope": rebuilds the verifier's counterexample through the public API of the
// real Envelope<double,int> and re-evaluates the postcondition.  exit 1 = violation reproduces, 0 = does not.
#include <cmath>
#include <limits>
#include <vector>
#include <gnu_gama/adj/envelope.h>
#include "gv_replay.h"

using Env = GNU_gama::Envelope<double, int>;

static int check_cholDec(int dim, double d0, double tol)
{
  if (dim < 1) dim = 1;
  if (dim > 8) dim = 8;                       // P1 for row 1 depends on diag[0] and tol only
  std::vector<double> diag(dim, 1.0);
  diag[0] = d0;
  std::vector<int> band(dim, 0);
  double dummy = 0;
  Env e(diag.data(), diag.data() + dim, &dummy, &dummy, band.data(), band.data() + dim);
  e.cholDec(tol);
  double teff = tol > 0 ? tol : std::sqrt(std::numeric_limits<double>::epsilon());
  int zeros = 0, bad = 0;
  for (int k = 1; k <= dim; k++) {
    const Env& ce = e;
    double d = ce.diagonal(k);
    if (d == 0) zeros++;
    else if (std::fabs(d) < teff) { bad++; std::printf("row %d: pivot %.17g is neither 0 nor >= tol %.17g\n", k, d, teff); }
  }
  if ((int)e.defect() != zeros) { bad++; std::printf("defect() = %d but %d pivots are zero\n", (int)e.defect(), zeros); }
  std::printf("cholDec(dim=%d, diag[0]=%.17g, tol=%.17g): %s\n", dim, d0, tol, bad ? "POSTCONDITION VIOLATED" : "ok");
  return bad ? 1 : 0;
}

int main(int argc, char** argv)
{
  if (argc < 3) return 2;
  GvInputs in(argv[1]);
  std::string check = argv[2];
  if (check == "cholDec") {
    if (in.has("w_d0"))
      return check_cholDec((int)in.integer("w_dim", 2), in.num("w_d0", 0), in.num("w_tol", 0));
    std::printf("no witness values in the trace\n");
    return 2;
  }
  std::printf("no native replay for check %s\n", check.c_str());
  return 2;
}
