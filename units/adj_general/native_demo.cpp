// Native demonstration for unit adj_general (C04): GNU_gama::Adj answers through `least_squares` without the lazy guard.
// g++ -std=c++14 -g -fsanitize=address -I/repo/lib demo_adj.cpp /repo/lib/gnu_gama/adj/{adj.cpp,icgs.cpp,adj_input_data.cpp} ... -lexpat
#include <gnu_gama/adj/adj.h>
#include <gnu_gama/adj/adj_input_data.h>
#include <gnu_gama/sparse/smatrix.h>
#include <gnu_gama/sparse/sbdiagonal.h>
#include <cstdio>
#include <string>
using namespace GNU_gama;

static AdjInputData* problem(double w3)
{
  // 3 observations, 2 unknowns:  x1 = 1, x2 = 2, x1 + x2 = 3.3
  auto* A = new SparseMatrix<>(4, 3, 2);
  A->new_row(); A->add_element(1, 1);
  A->new_row(); A->add_element(1, 2);
  A->new_row(); A->add_element(1, 1); A->add_element(1, 2);
  auto* C = new BlockDiagonal<>(3, 3);
  double c1 = 1, c3 = w3;
  C->add_block(1, 0, &c1); C->add_block(1, 0, &c1); C->add_block(1, 0, &c3);
  Vec<> rhs(3); rhs(1) = 1; rhs(2) = 2; rhs(3) = 3.3;
  auto* d = new AdjInputData;
  d->set_mat(A); d->set_cov(C); d->set_rhs(rhs);
  return d;
}

int main(int argc, char** argv)
{
  std::string mode = argc > 1 ? argv[1] : "fresh_defect";
  Adj adj;
  AdjInputData* in = problem(1.0);
  adj.set(in);
  if (mode == "fresh_defect") { std::printf("set(input); first question defect() ...\n"); std::fflush(stdout); std::printf("defect = %d\n", adj.defect()); }
  if (mode == "fresh_q_xx")   { std::printf("set(input); first question q_xx(1,1) ...\n"); std::fflush(stdout); std::printf("q_xx = %g\n", adj.q_xx(1,1)); }
  if (mode == "fresh_q_bb")   { std::printf("set(input); first question q_bb(1,1) ...\n"); std::fflush(stdout); std::printf("q_bb = %g\n", adj.q_bb(1,1)); }
  if (mode == "after_x")      { adj.x(); std::printf("after x(): defect=%d q_xx(1,1)=%.6f q_bb(3,3)=%.6f\n", adj.defect(), adj.q_xx(1,1), adj.q_bb(3,3)); }
  if (mode == "new_input") {     // solve, then give a NEW input and ask a cofactor before x()
    adj.x();
    std::printf("input 1: q_xx(1,1)=%.6f\n", adj.q_xx(1,1));
    adj.set(problem(0.01));
    std::printf("set(input 2); q_xx(1,1) before x() ...\n"); std::fflush(stdout);
    std::printf("q_xx(1,1)=%.6f\n", adj.q_xx(1,1));
  }
  if (mode == "same_input") {    // "reset and given the same input again"
    adj.x();
    std::printf("q_xx(1,1)=%.6f; set(the same input) again; x() ...\n", adj.q_xx(1,1)); std::fflush(stdout);
    adj.set(in);
    adj.x();
    std::printf("q_xx(1,1)=%.6f\n", adj.q_xx(1,1));
  }
  if (mode == "switch_alg") {    // results after set_algorithm come from the solver of the previous algorithm
    adj.x();
    adj.set_algorithm(Adj::gso);
    std::printf("set_algorithm(gso) after envelope solve: get_algorithm()=%d, defect()=%d q_xx(1,1)=%.6f answered WITHOUT re-solving (x() not called)\n",
                (int)adj.get_algorithm(), adj.defect(), adj.q_xx(1,1));
  }
  return 0;
}
