/* Sidecar contracts for class GNU_gama::Adj (lib/gnu_gama/adj/adj.h, adj.cpp), property C04 / DESIGN.md 5 C04-U5:
   `least_squares` is non-null, alive and belongs to the CURRENT algorithm and the CURRENT input whenever it is
   dereferenced; set_algorithm / set(input) clear `solved` so that results are recomputed; no use of a deleted
   solver or input object.  Bodies are extracted from /repo on every run. */

//@ prelude
typedef double Float;
typedef int Index;
struct Vec { Float *rep; Index sz; };
enum algorithm { envelope, gso, svd, cholesky };

/* ghost-tagged opaque objects behind the pointers of Adj */
struct AdjInputData { bool gv_live; int gv_rows, gv_cols; };
struct AdjBase { int gv_alg; bool gv_live; const struct AdjInputData *gv_data; };

struct Adj {
  const struct AdjInputData *data;
  struct AdjBase *least_squares;
  bool   solved;
  int    algorithm_;
  int    n_obs_, n_par_;
  double rtr_;
  int    minx_dim;
  int   *minx;
  struct Vec x_;
  struct Vec r_;
};

int gv_exc;
struct Adj *gv_adj;     /* ghost: the Adj object the solver stubs are asked through */

/* representation invariant: `solved` means: a live solver of the current algorithm holds the adjustment of the
   current (live) input; a non-null pointer never dangles */
#define ADJ_INV(S)                                                                                        \
  (((S)->data == NULL || (S)->data->gv_live) && ((S)->least_squares == NULL || (S)->least_squares->gv_live) && \
   ((S)->solved ==> ((S)->data != NULL && (S)->least_squares != NULL && (S)->least_squares->gv_alg == (S)->algorithm_ && \
                     (S)->least_squares->gv_data == (S)->data)) &&                                        \
   envelope <= (S)->algorithm_ && (S)->algorithm_ <= cholesky)

/* the obligation of this unit, stated as the precondition of every virtual call through `least_squares` */
#define LS_USE_OK(ls)                                                                                     \
  ((ls) != NULL && (ls)->gv_live && (ls) == gv_adj->least_squares && gv_adj->solved &&                    \
   (ls)->gv_alg == gv_adj->algorithm_ && (ls)->gv_data == gv_adj->data)

int AdjB_defect(struct AdjBase *ls)
__CPROVER_requires(LS_USE_OK(ls))
__CPROVER_assigns()
;
double AdjB_q_xx(struct AdjBase *ls, int i, int j)
__CPROVER_requires(LS_USE_OK(ls))
__CPROVER_assigns()
;
double AdjB_q0_xx(struct AdjBase *ls, int i, int j)
__CPROVER_requires(LS_USE_OK(ls))
__CPROVER_assigns()
;

/* `delete data;` (Adj::init): the object must be alive when it is deleted */
static void gv_delete_input(const struct AdjInputData *p)
{
  if (p != NULL) {
    __CPROVER_assert(p->gv_live, "delete data: the input object is alive (no double delete)");
    ((struct AdjInputData *)p)->gv_live = false;
  }
}
static int AdjInputData_rows(const struct AdjInputData *p)
{
  __CPROVER_assert(p != NULL && p->gv_live, "data->A->rows(): the input object is alive (no use after delete)");
  return p->gv_rows;
}
static int AdjInputData_columns(const struct AdjInputData *p)
{
  __CPROVER_assert(p != NULL && p->gv_live, "data->A->columns(): the input object is alive (no use after delete)");
  return p->gv_cols;
}

/* ASSUMED contract of Adj::init_least_squares (heavy: solver construction, dense copy, homogenisation).
   It mirrors the body: `delete least_squares;` (must not already be deleted), a new solver of `algorithm_` is created,
   fed with `data` (must be alive) and solved; `solved = true`.  Results x_, r_, rtr_ are rewritten. */
void Adj_init_least_squares(struct Adj *self)
__CPROVER_requires(__CPROVER_rw_ok(self, sizeof(*self)) && gv_exc == 0)
__CPROVER_requires(self->data != NULL && self->data->gv_live)                         /* data->minx() is dereferenced */
__CPROVER_requires(self->least_squares == NULL || self->least_squares->gv_live)       /* delete least_squares */
__CPROVER_requires(envelope <= self->algorithm_ && self->algorithm_ <= cholesky)
__CPROVER_assigns(self->least_squares, self->solved, self->rtr_, self->x_, self->r_, self->minx, self->minx_dim, gv_exc;
                  self->least_squares != NULL: self->least_squares->gv_live)
__CPROVER_ensures(__CPROVER_old(self->least_squares) != NULL ==> !__CPROVER_old(self->least_squares)->gv_live)
__CPROVER_ensures(gv_exc == 0 ==> (__CPROVER_is_fresh(self->least_squares, sizeof(struct AdjBase)) && self->least_squares->gv_live &&
                                   self->least_squares->gv_alg == self->algorithm_ && self->least_squares->gv_data == self->data && self->solved))
;

/* sparse design matrix of the input (bounded model for q_bb: 4 rows, each with at most one non-zero) */
double gv_spv[4];
int    gv_spi[4];
int    gv_splen[4];
static double *SpA_begin(const struct AdjInputData *p, int k)
{
  __CPROVER_assert(p != NULL && p->gv_live, "data->A->begin(): the input object is alive");
  __CPROVER_assert(1 <= k && k <= 4, "row index in range");
  return gv_spv + (k - 1);
}
static double *SpA_end(const struct AdjInputData *p, int k)
{
  __CPROVER_assert(p != NULL && p->gv_live, "data->A->end(): the input object is alive");
  __CPROVER_assert(1 <= k && k <= 4, "row index in range");
  return gv_spv + (k - 1) + gv_splen[k - 1];
}
static int *SpA_ibegin(const struct AdjInputData *p, int k)
{
  __CPROVER_assert(p != NULL && p->gv_live, "data->A->ibegin(): the input object is alive");
  __CPROVER_assert(1 <= k && k <= 4, "row index in range");
  return gv_spi + (k - 1);
}

void gv_keep_refs(void)
{
  AdjB_defect(NULL);
  AdjB_q_xx(NULL, 0, 0);
  AdjB_q0_xx(NULL, 0, 0);
  Adj_init_least_squares(NULL);
}

#define ADJ_PRE(self) (__CPROVER_rw_ok(self, sizeof(*self)) && gv_exc == 0 && self == gv_adj && ADJ_INV(self))
//@ end

/* ---- queries that go straight to the solver -------------------------------------------------------- */
//@ contract Adj_defect
__CPROVER_requires(ADJ_PRE(self))
__CPROVER_requires(self->data != NULL)      /* an input has been set */
__CPROVER_assigns(self->least_squares, self->solved, self->rtr_, self->x_, self->r_, self->minx, self->minx_dim, gv_exc;
                  self->least_squares != NULL: self->least_squares->gv_live)
/* as for x(): the invariant is promised on normal return; init_least_squares may throw (assumed contract) */
__CPROVER_ensures(gv_exc == 0 ==> (ADJ_INV(self) && self->solved))
__CPROVER_ensures(__CPROVER_old(self->solved) ==> (gv_exc == 0 && self->least_squares == __CPROVER_old(self->least_squares)))
//@ entry Adj_defect
GV_CANARY("Adj_defect entry");

//@ contract Adj_q_xx
__CPROVER_requires(ADJ_PRE(self))
__CPROVER_requires(self->data != NULL)
__CPROVER_assigns(self->least_squares, self->solved, self->rtr_, self->x_, self->r_, self->minx, self->minx_dim, gv_exc;
                  self->least_squares != NULL: self->least_squares->gv_live)
/* as for x(): the invariant is promised on normal return; init_least_squares may throw (assumed contract) */
__CPROVER_ensures(gv_exc == 0 ==> (ADJ_INV(self) && self->solved))
__CPROVER_ensures(__CPROVER_old(self->solved) ==> (gv_exc == 0 && self->least_squares == __CPROVER_old(self->least_squares)))
//@ entry Adj_q_xx
GV_CANARY("Adj_q_xx entry");

//@ contract Adj_q_bb
__CPROVER_requires(ADJ_PRE(self))
__CPROVER_requires(self->data != NULL && 1 <= i && i <= 4 && 1 <= j && j <= 4)
__CPROVER_assigns(self->least_squares, self->solved, self->rtr_, self->x_, self->r_, self->minx, self->minx_dim, gv_exc;
                  self->least_squares != NULL: self->least_squares->gv_live)
/* as for x(): the invariant is promised on normal return; init_least_squares may throw (assumed contract) */
__CPROVER_ensures(gv_exc == 0 ==> (ADJ_INV(self) && self->solved))
__CPROVER_ensures(__CPROVER_old(self->solved) ==> (gv_exc == 0 && self->least_squares == __CPROVER_old(self->least_squares)))
//@ entry Adj_q_bb
GV_CANARY("Adj_q_bb entry");
//@ end

/* ---- lazily solved results ------------------------------------------------------------------------------ */
//@ contract Adj_x
__CPROVER_requires(ADJ_PRE(self))
__CPROVER_requires(self->data != NULL)
__CPROVER_assigns(self->least_squares, self->solved, self->rtr_, self->x_, self->r_, self->minx, self->minx_dim, gv_exc;
                  self->least_squares != NULL: self->least_squares->gv_live)
__CPROVER_ensures(gv_exc == 0 ==> (ADJ_INV(self) && self->solved && __CPROVER_return_value == &self->x_))
__CPROVER_ensures(__CPROVER_old(self->solved) ==> (gv_exc == 0 && self->least_squares == __CPROVER_old(self->least_squares)))
//@ entry Adj_x
GV_CANARY("Adj_x entry");

//@ contract Adj_r
__CPROVER_requires(ADJ_PRE(self))
__CPROVER_requires(self->data != NULL)
__CPROVER_assigns(self->least_squares, self->solved, self->rtr_, self->x_, self->r_, self->minx, self->minx_dim, gv_exc;
                  self->least_squares != NULL: self->least_squares->gv_live)
__CPROVER_ensures(gv_exc == 0 ==> (ADJ_INV(self) && self->solved && __CPROVER_return_value == &self->r_))
__CPROVER_ensures(__CPROVER_old(self->solved) ==> (gv_exc == 0 && self->least_squares == __CPROVER_old(self->least_squares)))
//@ entry Adj_r
GV_CANARY("Adj_r entry");
//@ end

/* ---- state changes --------------------------------------------------------------------------------------- */
/* set_algorithm(alg): a valid algorithm is recorded and the results are marked stale; anything else is refused
   and changes nothing */
//@ contract Adj_set_algorithm
__CPROVER_requires(ADJ_PRE(self))
__CPROVER_assigns(self->solved, self->algorithm_, gv_exc)
__CPROVER_ensures((envelope <= alg && alg <= cholesky) ==> (gv_exc == 0 && self->algorithm_ == alg && !self->solved))
__CPROVER_ensures(!(envelope <= alg && alg <= cholesky) ==>
                  (gv_exc != 0 && self->algorithm_ == __CPROVER_old(self->algorithm_) && self->solved == __CPROVER_old(self->solved)))
__CPROVER_ensures(ADJ_INV(self))
//@ entry Adj_set_algorithm
GV_CANARY("Adj_set_algorithm entry");

/* init(inp) (== set(inp)): the object now refers to `inp`, which is alive ("given the same input again" included),
   nothing is solved, dimensions are those of the input */
//@ contract Adj_init
__CPROVER_requires(ADJ_PRE(self))
__CPROVER_requires(inp == NULL || (__CPROVER_rw_ok(inp, sizeof(*inp)) && inp->gv_live))
__CPROVER_assigns(self->data, self->least_squares, self->solved, self->n_obs_, self->n_par_;
                  self->data != NULL: __CPROVER_object_whole(self->data))
__CPROVER_ensures(self->data == inp && !self->solved)
__CPROVER_ensures(inp != NULL ==> (inp->gv_live && self->n_obs_ == inp->gv_rows && self->n_par_ == inp->gv_cols))
__CPROVER_ensures(inp == NULL ==> (self->n_obs_ == 0 && self->n_par_ == 0))
__CPROVER_ensures(ADJ_INV(self))
//@ entry Adj_init
GV_CANARY("Adj_init entry");
//@ end

//@ harness
static struct AdjInputData gD1, gD2;
static struct AdjBase gL;
static void mk_adj(struct Adj *S)
{
  struct Adj any;
  *S = any;
  int wd, wl;
  S->data = (wd == 0) ? NULL : (wd == 1 ? &gD1 : &gD2);
  S->least_squares = wl ? &gL : NULL;
  __CPROVER_assume(ADJ_INV(S));
  __CPROVER_assume(gv_splen[0] >= 0 && gv_splen[0] <= 1 && gv_splen[1] >= 0 && gv_splen[1] <= 1 && gv_splen[2] >= 0 &&
                   gv_splen[2] <= 1 && gv_splen[3] >= 0 && gv_splen[3] <= 1);
  gv_adj = S;
  gv_exc = 0;
#ifdef GV_EXCL_ADJ_UNSOLVED
  __CPROVER_assume(S->solved);        /* exclusion predicate of the finding "solver queried before/without x()" */
#endif
}
#define H_ADJ(hname, pre, call) void hname(void) { struct Adj S; mk_adj(&S); int i, j; pre; call; GV_CANARY(#hname " end"); }
H_ADJ(h_defect, __CPROVER_assume(S.data != NULL), Adj_defect(&S))
H_ADJ(h_q_xx, __CPROVER_assume(S.data != NULL), Adj_q_xx(&S, i, j))
H_ADJ(h_q_bb, __CPROVER_assume(S.data != NULL && 1 <= i && i <= 4 && 1 <= j && j <= 4), Adj_q_bb(&S, i, j))
H_ADJ(h_x, __CPROVER_assume(S.data != NULL), Adj_x(&S))
H_ADJ(h_r, __CPROVER_assume(S.data != NULL), Adj_r(&S))
H_ADJ(h_set_algorithm, int alg, Adj_set_algorithm(&S, alg))
void h_init(void)
{
  struct Adj S;
  mk_adj(&S);
  int w;
  const struct AdjInputData *inp = (w == 0) ? NULL : (w == 1 ? &gD1 : &gD2);
  __CPROVER_assume(inp == NULL || inp->gv_live);
#ifdef GV_EXCL_SAME_INPUT
  __CPROVER_assume(inp == NULL || inp != S.data);   /* exclusion predicate of the finding "set(same input) deletes it" */
#endif
  Adj_init(&S, inp);
  GV_CANARY("h_init end");
}
//@ end
