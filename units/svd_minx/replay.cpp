// Native replay for unit "svd_minx": the row-pointer table of the real SVD<double,int> after min_x(n, list) / min_x() / reset_UWV().
// The class invariant "V has n+1 entries (member n) over an n x n V_" is re-evaluated on the real object; allocation sizes come from a
// recording operator new[] (every block is padded so that the overrun the replay demonstrates stays inside memory owned by the replay).
// exit 1 = violation reproduces, 0 = does not reproduce, 2 = no replay for this check.
#include <cstdio>
#include <cstdlib>
#include <cstring>
#include <map>
#include <new>
#include <string>
#include <sys/wait.h>
#include <unistd.h>

static std::map<void*, std::size_t>* gv_sizes = nullptr;
static bool gv_rec = false;
static const std::size_t PAD = 4096;
static double gv_sink[1 << 16];   // stray row pointers read from the padding land here
void* operator new[](std::size_t n)
{
  unsigned char* p = static_cast<unsigned char*>(std::malloc(n + PAD));
  if (!p) throw std::bad_alloc();
  std::size_t a = (n + 7) & ~std::size_t(7);
  std::memset(p + n, 0, a - n);
  for (std::size_t k = a; k + sizeof(double*) <= n + PAD; k += sizeof(double*)) { double* q = gv_sink + 256; std::memcpy(p + k, &q, sizeof q); }
  if (gv_rec) { gv_rec = false; (*gv_sizes)[p] = n; gv_rec = true; }
  return p;
}
void operator delete[](void* p) noexcept
{
  if (!p) return;
  if (gv_rec) { gv_rec = false; gv_sizes->erase(p); gv_rec = true; }
  std::free(p);
}
void operator delete[](void* p, std::size_t) noexcept { operator delete[](p); }

#define private public
#include <matvec/svd.h>
#undef private
#include "gv_replay.h"

using namespace GNU_gama;

static long table_entries(void* tab)
{
  auto it = gv_sizes->find(tab);
  return it == gv_sizes->end() ? -1 : (long)(it->second / sizeof(double*));
}

// 3 unknowns, rank 2 (levelling loop): decomposed, defect 1; then min_x(list_n, list) with list_n != 3
static int check_min_x_list(int list_n)
{
  if (list_n < 0 || list_n > 2) list_n = 1;
  Mat<> A(3, 3); A.set_zero();
  A(1, 1) = -1; A(1, 2) = 1; A(2, 2) = -1; A(2, 3) = 1; A(3, 1) = -1; A(3, 3) = 1;
  std::fflush(stdout);
  pid_t pid = fork();
  if (pid == 0) {
    SVD<> s(A);
    int d = s.nullity();
    int list[3] = {3, 3, 3};
    int rc = 0;
    try { s.min_x(list_n, list); } catch (...) { std::printf("(min_x raised an exception) "); }
    long have = table_entries(s.V);
    std::printf("SVD 3x3, defect %d, after min_x(%d, list): table V has %ld entries, the class needs n+1 = %d -> %s\n", d, list_n, have, s.n + 1,
                have < s.n + 1 ? "TABLE TOO SHORT (later V[i], i <= n, run past it)" : "ok");
    if (have < s.n + 1) rc = 1;
    std::fflush(stdout);
    _exit(rc);
  }
  int st = 0; waitpid(pid, &st, 0);
  if (WIFSIGNALED(st)) { std::printf("min_x(%d, list) on a decomposed singular system: killed by signal %d\n", list_n, WTERMSIG(st)); return 1; }
  return WEXITSTATUS(st);
}

// regular system (defect 0): subset request, then min_x()
static int check_min_x_all()
{
  Mat<> A(3, 3); A.set_zero(); A(1, 1) = 2; A(2, 2) = 3; A(3, 3) = 4; A(1, 2) = 1;
  SVD<> s(A);
  int list[3] = {1, 2, 3};
  double q0 = s.q_xx(1, 1);
  s.min_x(3, list);
  s.min_x();
  int r = s.V_.rows(), c = s.V_.cols();
  std::printf("SVD 3x3 regular (defect %d), q_xx(1,1) = %g; after min_x(3,list); min_x(): V_ is %d x %d, the class needs %d x %d -> %s\n",
              (int)s.defect, q0, r, c, s.n, s.n, (r != s.n || c != s.n) ? "V_ LOST (restored from a minV that was never filled); q_xx would read through a null row" : "ok");
  return (r != s.n || c != s.n) ? 1 : 0;
}

static int check_reset_UWV(int m, int n)
{
  if (m < 0 || m > 3) m = 0;
  if (n < 0 || n > 3) n = 0;
  if (m > 0 && n > 0) m = 0;
  Mat<> A(m, n);
  SVD<> s(A);
  s.reset_UWV();
  long hu = table_entries(s.U), hv = table_entries(s.V);
  bool bad = hu < 2 || hv < 2;   // the function stores U[1] and V[1] unconditionally
  std::printf("SVD of a %d x %d matrix: reset_UWV() allocates U with %ld and V with %ld entries and stores U[1], V[1] -> %s\n", m, n, hu, hv,
              bad ? "WRITE PAST A ONE-ENTRY TABLE" : "ok");
  return bad ? 1 : 0;
}

int main(int argc, char** argv)
{
  if (argc < 3) return 2;
  std::setvbuf(stdout, nullptr, _IONBF, 0);
  std::map<void*, std::size_t> sizes; gv_sizes = &sizes; gv_rec = true;
  GvInputs in(argv[1]);
  std::string c = argv[2];
  int rc = 2;
  if (c == "min_x_list") rc = check_min_x_list((int)in.integer("w_list_n", 1));
  else if (c == "min_x_all") rc = check_min_x_all();
  else if (c == "reset_UWV") rc = check_reset_UWV((int)in.integer("w_m", 0), (int)in.integer("w_n", 0));
  else std::printf("no native replay for check %s\n", c.c_str());
  gv_rec = false;
  return rc;
}
