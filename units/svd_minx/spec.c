/* Sidecar contracts for lib/matvec/svd.h: the row-pointer tables of SVD<double,int>  (properties C04, C15)

     SVD::min_x(Index n, Index list[])   regularise on a subset of the unknowns  (C04: "V restored from minV before re-regularising")
     SVD::min_x()                        regularise on all unknowns
     SVD::reset_UWV()                    builds the 1-based row-pointer tables U (m rows) and V (n rows)

   Representation invariant of the class (what every other member function relies on when it writes V[i][j], i = 1..n):
       V_ is the n x n matrix of right singular vectors (n = the MEMBER n = A.cols());
       V is a table of n+1 pointers, V[1] == V_.begin() - 1 and V[i+1] == V[i] + n   ("V[i][j] == V_(i,j)", comment in the source);
       after a decomposition with defect > 0, minV is a copy of V_ (same shape);
       a table exists only for n >= 1 (the zero-dimension overrun of reset_UWV itself is the subject of check reset_UWV).
   The contracts below demand that each function re-establishes this invariant; the payload (matrix elements) is opaque.
   Only contracts, ghost declarations, stubs and harnesses live here; the bodies are extracted from /repo on every run. */

//@ prelude
typedef double Float;
typedef int Index;
#define Float(...) ((double)(__VA_ARGS__ + 0))
#define Index(...) ((int)(__VA_ARGS__ + 0))
#define MAXDIM 1000000
#define PSZ ((long)sizeof(Float *))

int gv_exc;
Index gv_k0;     /* ghost index (forall-introduction over table rows / list entries) */

/* matvec storage, value-opaque: shape + begin() + ghost length of the block */
struct Mat  { Index rows, cols; Float *p; long gv_len; };
struct VecF { Index dim; Float *p; };
enum { all, subset };

struct SVD {
  Index m, n;
  struct Mat  U_;
  struct VecF W_;
  struct Mat  V_;
  Index decomposed;
  Float W_tol;
  struct VecF inv_W_;
  int minx;
  Index defect;
  Index n_min;
  Index *list_min;
  struct Mat minV;
  Float *W;
  Float *inv_W;
  Float **U;
  Float **V;
};

#define MAT_OK(M) ((M)->gv_len >= 0 && (M)->gv_len <= (long)MAXDIM * 64 && \
                   ((M)->gv_len == 0 ? (M)->p == NULL : __CPROVER_rw_ok((M)->p, (size_t)(M)->gv_len * sizeof(Float))))
/* the regularisation list: absent, or a live block of n_min indices */
#define LIST_OK(s) ((s)->list_min == NULL || ((s)->n_min >= 0 && (s)->n_min <= MAXDIM && __CPROVER_rw_ok((s)->list_min, (size_t)(s)->n_min * sizeof(Index))))
/* the table V: n+1 pointers (member n!) */
#define VTAB_OK(s) (__CPROVER_rw_ok((s)->V, ((size_t)(s)->n + 1) * sizeof(Float *)))
/* row facts, stated at an index (quantifier-free; used at the ghost index gv_k0) */
#define VTAB_FIRST(s)  ((s)->n < 1 || (s)->V[1] == (s)->V_.p - 1)
#define VTAB_ROW(s, k) (!(1 <= (k) && (k) < (s)->n) || (s)->V[(k) + 1] == (s)->V[(k)] + (s)->n)

/* the quantified part of the invariant, instantiated at one (ghost, arbitrary) row index */
#define VTAB_ROWS_AT(s, k) ((s)->V == NULL || (VTAB_FIRST(s) && VTAB_ROW(s, k)))

#define SVD_WF(s) (0 <= (s)->n && (s)->n <= MAXDIM && 0 <= (s)->m && (s)->m <= MAXDIM &&                                   \
                   MAT_OK(&(s)->V_) && MAT_OK(&(s)->minV) && (s)->V_.rows == (s)->n && (s)->V_.cols == (s)->n &&            \
                   ((s)->V == NULL ? !(s)->decomposed : ((s)->n >= 1 && VTAB_OK(s))) && LIST_OK(s) && (s)->defect >= 0 &&                    \
                   (!((s)->decomposed && (s)->defect > 0) ||                                                                \
                    ((s)->minV.rows == (s)->n && (s)->minV.cols == (s)->n && (s)->minV.gv_len == (s)->V_.gv_len)))

static inline Float *gv_mat_begin(const struct Mat *M) { return M->p; }
static inline Float *gv_vec_begin(const struct VecF *v) { return v->p; }
/* Mat::operator=(const Mat&) as MemRep::operator= does it (memrep.h): shape copied; same length: elements copied in place;
   other length: a new block (nullptr if the source is empty); element values are opaque here */
static inline void gv_mat_assign(struct Mat *d, const struct Mat *s)
{
  if (d == s) return;
  d->rows = s->rows;
  d->cols = s->cols;
  if (d->gv_len == s->gv_len) return;
  d->gv_len = s->gv_len;
  if (s->gv_len > 0) { d->p = malloc((size_t)s->gv_len * sizeof(Float)); __CPROVER_assume(d->p != NULL); }
  else d->p = NULL;
}

/* callee stub: SVD::min_subset_x() re-orthogonalises the null-space columns of V in place through V[i][k], i = 1..n (member n) */
void SVD_min_subset_x(struct SVD *self)
__CPROVER_requires(gv_exc == 0)
__CPROVER_requires(SVD_WF(self) && self->V != NULL)
__CPROVER_requires(VTAB_FIRST(self) && VTAB_ROW(self, gv_k0))
__CPROVER_requires(self->list_min != NULL)
__CPROVER_assigns(gv_exc; self->V_.gv_len > 0: __CPROVER_object_whole(self->V_.p))
__CPROVER_ensures(gv_exc == 0 || gv_exc == GV_BadRegularization)
;

/* arbitrary SVD object satisfying the representation invariant */
static void mk_svd(struct SVD *S)
{
  Index n, m, nl;
  long len, len2;
  _Bool notab, nolist;
  __CPROVER_assume(0 <= n && n <= MAXDIM && 0 <= m && m <= MAXDIM && 0 <= nl && nl <= MAXDIM);
  __CPROVER_assume(0 <= len && len <= (long)MAXDIM * 64 && 0 <= len2 && len2 <= (long)MAXDIM * 64);
  S->n = n;
  S->m = m;
  S->V_.rows = n; S->V_.cols = n; S->V_.gv_len = len;
  S->V_.p = len == 0 ? NULL : malloc((size_t)len * sizeof(Float));
  S->minV.gv_len = len2;
  S->minV.p = len2 == 0 ? NULL : malloc((size_t)len2 * sizeof(Float));
  __CPROVER_assume((len == 0 || S->V_.p != NULL) && (len2 == 0 || S->minV.p != NULL));
  S->V = notab ? NULL : malloc(((size_t)n + 1) * sizeof(Float *));
  __CPROVER_assume(notab || S->V != NULL);
  S->n_min = nl;
  S->list_min = nolist ? NULL : malloc((size_t)nl * sizeof(Index));
  __CPROVER_assume(nolist || S->list_min != NULL);
  __CPROVER_assume(S->minx == all || S->minx == subset);
  gv_exc = 0;
  __CPROVER_assume(SVD_WF(S));
}
//@ end

/* ------------------------------------------------------------------------------------------------------------------------------- */
/* min_x(n, list): afterwards the request is recorded (minx, n_min, copy of the list) and the class invariant holds again: V is a table
   over the MEMBER dimension.  GV_TABN is the bound of the table loop as the body spells it (defined by a lowering rule in unit.json): today `n`, the PARAMETER. */
//@ contract SVD_min_x_list
__CPROVER_requires(gv_exc == 0 && SVD_WF(self) && VTAB_ROWS_AT(self, gv_k0))
__CPROVER_requires(0 <= n && n <= MAXDIM && __CPROVER_r_ok(list, (size_t)n * sizeof(Index)))
__CPROVER_assigns(self->minx, self->n_min, self->list_min, self->V, self->V_, gv_exc;
                  self->V_.gv_len > 0: __CPROVER_object_whole(self->V_.p))
__CPROVER_frees(self->list_min, self->V)
__CPROVER_ensures(gv_exc == 0 || gv_exc == GV_BadRegularization)
__CPROVER_ensures(SVD_WF(self))
__CPROVER_ensures(VTAB_ROWS_AT(self, gv_k0) && ((self->decomposed && self->defect != 0) ==> self->V != NULL))
__CPROVER_ensures(self->minx == subset && self->n_min == n && self->list_min != NULL)
__CPROVER_ensures((0 <= gv_k0 && gv_k0 < n) ==> self->list_min[gv_k0] == list[gv_k0])
//@ entry SVD_min_x_list
GV_CANARY("SVD_min_x_list entry");
//@ loop SVD_min_x_list 1
__CPROVER_assigns(i, __CPROVER_object_whole(self->list_min))
__CPROVER_loop_invariant(0 <= i && i <= n && ((0 <= gv_k0 && gv_k0 < i) ==> self->list_min[gv_k0] == list[gv_k0]))
__CPROVER_decreases((long)n - i)
//@ loop SVD_min_x_list 2
__CPROVER_assigns(i, __CPROVER_object_whole(self->V))
__CPROVER_loop_invariant(2 <= i && i <= GV_MAX(GV_TABN, 1) + 1 && (GV_TABN < 1 || self->V[1] == self->V_.p - 1) &&
                         ((1 <= gv_k0 && gv_k0 < i - 1) ==> self->V[gv_k0 + 1] == self->V[gv_k0] + GV_TABN))
__CPROVER_decreases((long)GV_MAX(GV_TABN, 1) + 1 - i)
//@ end

/* min_x(): back to "all unknowns"; same invariant afterwards */
//@ contract SVD_min_x
__CPROVER_requires(gv_exc == 0 && SVD_WF(self) && VTAB_ROWS_AT(self, gv_k0))
__CPROVER_assigns(self->minx, self->V, self->V_; self->V_.gv_len > 0: __CPROVER_object_whole(self->V_.p))
__CPROVER_frees(self->V)
__CPROVER_ensures(gv_exc == 0)
__CPROVER_ensures(SVD_WF(self))
__CPROVER_ensures(VTAB_ROWS_AT(self, gv_k0))
__CPROVER_ensures(self->minx == all)
//@ entry SVD_min_x
GV_CANARY("SVD_min_x entry");
//@ loop SVD_min_x 1
__CPROVER_assigns(i, __CPROVER_object_whole(self->V))
__CPROVER_loop_invariant(2 <= i && i <= GV_MAX(GV_TABN, 1) + 1 && (GV_TABN < 1 || self->V[1] == self->V_.p - 1) &&
                         ((1 <= gv_k0 && gv_k0 < i - 1) ==> self->V[gv_k0 + 1] == self->V[gv_k0] + GV_TABN))
__CPROVER_decreases((long)GV_MAX(GV_TABN, 1) + 1 - i)
//@ end

/* reset_UWV(): called by reset(A) and svd() for every shape the class accepts -- property C15 quantifies over dimensions 0..N */
//@ contract SVD_reset_UWV
__CPROVER_requires(0 <= self->n && self->n <= MAXDIM && 0 <= self->m && self->m <= MAXDIM)
__CPROVER_requires(MAT_OK(&self->V_) && MAT_OK(&self->U_))
__CPROVER_requires(self->U == NULL || __CPROVER_rw_ok(self->U, sizeof(Float *)))
__CPROVER_requires(self->V == NULL || __CPROVER_rw_ok(self->V, sizeof(Float *)))
__CPROVER_assigns(self->W, self->inv_W, self->U, self->V)
__CPROVER_frees(self->U, self->V)
__CPROVER_ensures(VTAB_OK(self) && __CPROVER_rw_ok(self->U, ((size_t)self->m + 1) * sizeof(Float *)))
__CPROVER_ensures(VTAB_FIRST(self) && VTAB_ROW(self, gv_k0))
__CPROVER_ensures((self->m < 1 || self->U[1] == self->U_.p - 1) && (!(1 <= gv_k0 && gv_k0 < self->m) || self->U[gv_k0 + 1] == self->U[gv_k0] + self->n))
//@ entry SVD_reset_UWV
GV_CANARY("SVD_reset_UWV entry");
//@ loop SVD_reset_UWV 1
__CPROVER_assigns(i, __CPROVER_object_whole(self->U))
__CPROVER_loop_invariant(2 <= i && i <= GV_MAX(self->m, 1) + 1 && (self->m < 1 || self->U[1] == self->U_.p - 1) &&
                         ((1 <= gv_k0 && gv_k0 < i - 1) ==> self->U[gv_k0 + 1] == self->U[gv_k0] + self->n))
__CPROVER_decreases((long)GV_MAX(self->m, 1) + 1 - i)
//@ loop SVD_reset_UWV 2
__CPROVER_assigns(i, __CPROVER_object_whole(self->V))
__CPROVER_loop_invariant(2 <= i && i <= GV_MAX(self->n, 1) + 1 && (self->n < 1 || self->V[1] == self->V_.p - 1) &&
                         ((1 <= gv_k0 && gv_k0 < i - 1) ==> self->V[gv_k0 + 1] == self->V[gv_k0] + self->n))
__CPROVER_decreases((long)GV_MAX(self->n, 1) + 1 - i)
//@ end

//@ harness
void h_min_x_list(void)
{
  struct SVD S; mk_svd(&S);
  Index n, k0;
  __CPROVER_assume(0 <= n && n <= MAXDIM);
  Index *list = malloc((size_t)n * sizeof(Index));
  __CPROVER_assume(list != NULL);
  gv_k0 = k0;
  __CPROVER_assume(VTAB_ROWS_AT(&S, gv_k0));
  Index w_member_n = S.n, w_list_n = n, w_decomposed = S.decomposed, w_defect = S.defect;   /* witness values for replay.cpp */
  SVD_min_x_list(&S, n, list);
  GV_CANARY("h_min_x_list end");
}
void h_min_x_all(void)
{
  struct SVD S; mk_svd(&S);
  Index k0;
  gv_k0 = k0;
  __CPROVER_assume(VTAB_ROWS_AT(&S, gv_k0));
  Index w_member_n = S.n, w_decomposed = S.decomposed, w_defect = S.defect, w_minx = S.minx;
  SVD_min_x(&S);
  GV_CANARY("h_min_x_all end");
}
void h_reset_UWV(void)
{
  struct SVD S;
  Index n, m, k0;
  long lu, lv;
  _Bool nou, nov;
  __CPROVER_assume(0 <= n && n <= MAXDIM && 0 <= m && m <= MAXDIM);
  __CPROVER_assume(0 <= lu && lu <= (long)MAXDIM * 64 && 0 <= lv && lv <= (long)MAXDIM * 64);
  S.n = n; S.m = m;
  S.U_.gv_len = lu; S.U_.p = lu == 0 ? NULL : malloc((size_t)lu * sizeof(Float));
  S.V_.gv_len = lv; S.V_.p = lv == 0 ? NULL : malloc((size_t)lv * sizeof(Float));
  __CPROVER_assume((lu == 0 || S.U_.p != NULL) && (lv == 0 || S.V_.p != NULL));
  S.U = nou ? NULL : malloc(sizeof(Float *));
  S.V = nov ? NULL : malloc(sizeof(Float *));
  __CPROVER_assume((nou || S.U != NULL) && (nov || S.V != NULL));
  struct VecF w, iw;
  S.W_ = w; S.inv_W_ = iw;
  gv_k0 = k0;
  Index w_m = m, w_n = n;
  SVD_reset_UWV(&S);
  GV_CANARY("h_reset_UWV end");
}
//@ end
