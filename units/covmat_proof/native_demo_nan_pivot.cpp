// native demonstration against the real headers: CovMat::cholDec accepts NaN pivots (and, with a NaN on the diagonal,
// negative variances): `pivot <= Tol` is false for a NaN pivot and for a NaN tolerance.
#include <matvec/covmat.h>
#include <cmath>
#include <cstdio>
#include <limits>
using namespace GNU_gama;
static int run(const char* name, CovMat<>& C)
{
  int rejected = 0;
  try { C.cholDec(); } catch (const Exception::matvec& e) { rejected = e.error(); }
  std::printf("%-34s -> %s", name, rejected ? "exception" : "ACCEPTED (no exception); pivots:");
  if (rejected) std::printf(" %d\n", rejected); else { for (int i=1;i<=C.dim();i++) std::printf(" %g", C(i,i)); std::printf("\n"); }
  return rejected == 0;
}
int main()
{
  const double nan = std::numeric_limits<double>::quiet_NaN();
  int bad = 0;
  { CovMat<> C(1,0); C(1,1) = nan;                          bad += run("dim 1: [NaN]", C); }
  { CovMat<> C(2,0); C(1,1) = -1;  C(2,2) = nan;            bad += run("dim 2 diagonal: [-1, NaN]", C); }
  { CovMat<> C(3,0); C(1,1) = 0; C(2,2) = -4; C(3,3) = nan; bad += run("dim 3 diagonal: [0, -4, NaN]", C); }
  { CovMat<> C(2,1); C(1,1) = 4; C(1,2) = nan; C(2,2) = 9;  bad += run("dim 2 band 1: [[4,NaN],[NaN,9]]", C); }
  { CovMat<> C(2,0); C(1,1) = -1;  C(2,2) = 1;              bad += run("control: diagonal [-1, 1]", C); }
  { CovMat<> C(2,0); C(1,1) = nan; C(2,2) = 1;              bad += run("dim 2 diagonal: [NaN, 1]", C); }
  return bad ? 1 : 0;
}
