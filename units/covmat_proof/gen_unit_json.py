#!/usr/bin/env python3
"""writes /verif/units/covmat_proof/unit.json (scratch helper, not part of the unit)"""
import json

THROW = ["throw\\s+Exc\\s*\\(\\s*Exception::(\\w+)\\s*,(?:\\s*\"[^\"]*\")+\\s*\\)\\s*;", "{ gv_exc = GV_\\1; return GV_RET; }"]
COVM = ["band_", "band_1", "dim_b"]

ACC = [
    {"name": "Vec_at", "file": "lib/matvec/vecbase.h", "header": "Float& operator()(Index n)",
     "csig": "Float* Vec_at(struct Vec* self, Index n)", "members": [], "loops": 0,
     "rules": [["this->begin\\(\\)", "MemRep_begin(&self->mem)", 1], ["return\\s+([^;?]+);", "return &(\\1);", 1]]},
    {"name": "CovMat_row", "file": "lib/matvec/covmat.h", "header": "Float* operator[](Index row)",
     "csig": "Float* CovMat_row(struct CovMat* self, Index row)", "members": COVM, "loops": 0,
     "rules": [["this->begin\\(\\)", "MemRep_begin(&self->base.mem)", 1]]},
    {"name": "CovMat_row_const", "file": "lib/matvec/covmat.h", "header": "const Float* operator[](Index row) const",
     "csig": "const Float* CovMat_row_const(const struct CovMat* self, Index row)", "members": COVM, "loops": 0,
     "rules": [["this->begin\\(\\)", "MemRep_begin_const(&self->base.mem)", 1]]},
    {"name": "CovMat_at", "file": "lib/matvec/covmat.h", "header": "CovMat<Float, Index, Exc>::operator()(Index r, Index s)",
     "csig": "Float* CovMat_at(struct CovMat* self, Index r, Index s)", "members": COVM, "loops": 0, "ret": "NULL",
     "rules": [["operator\\[\\]\\(", "CovMat_row(self, ", 1], ["return\\s+([^;?]+);", "return &(\\1);", 1], THROW + [1]]},
    {"name": "CovMat_at_const", "file": "lib/matvec/covmat.h", "header": "CovMat<Float, Index, Exc>::operator()(Index r, Index s) const",
     "csig": "Float CovMat_at_const(const struct CovMat* self, Index r, Index s)", "members": COVM, "loops": 0,
     "rules": [["operator\\[\\]\\(", "CovMat_row_const(self, ", 1]]},
    {"name": "CovMat_solve", "file": "lib/matvec/covmat.h", "header": "CovMat<Float, Index, Exc>::solve(Vec<Float, Index, Exc>& rhs) const",
     "csig": "void CovMat_solve(const struct CovMat* self, struct Vec* rhs)", "members": COVM, "loops": 5,
     "rules": [["using\\s+namespace\\s+std\\s*;", ";", 1],
               ["operator\\(\\)\\(", "CVP_at_c(self, ", 1],
               ["operator\\[\\]\\(", "CVP_row_c(self, ", 2],
               ["\\brhs\\.dim\\(\\)", "rhs->mem.sz", 1],
               ["\\brhs\\(([^()]+)\\)", "(*Vec_at(rhs, \\1))", 5],
               ["(?<![\\w.])dim\\(\\)", "CovMat_dim(self)", 1],
               ["(?<![\\w.:])(?:std\\s*::\\s*)?min\\(", "GV_MIN(", 0],
               ["i>band_", "i > band_", 0]]},
]
SYM = [
    {"name": "SymMat_dim", "file": "lib/matvec/symmat.h", "header": "Index dim() const",
     "csig": "Index SymMat_dim(const struct SymMat* self)", "members": ["dim_", "idf_"], "loops": 0},
    {"name": "MemRep_end", "file": "lib/matvec/memrep.h", "header": "iterator end()",
     "csig": "Float* MemRep_end(struct MemRep* self)", "members": ["rep", "sz"], "loops": 0},
    {"name": "SymMat_solve", "file": "lib/matvec/symmat.h", "header": "void SymMat<Float, Index, Exc>::solve(Vec<Float, Index, Exc>& rhs) const",
     "csig": "void SymMat_solve(const struct SymMat* self, struct Vec* rhs)", "members": ["dim_", "idf_"], "loops": 4,
     "rules": [["const_iterator\\s+a\\b", "const Float *a", 1],
               ["typename\\s+Vec<Float, Index, Exc>::iterator\\s+b\\b", "Float *b", 1],
               ["this->begin\\(\\)", "MemRep_begin_const(&self->base.mem)", 2],
               ["\\brhs\\.dim\\(\\)", "rhs->mem.sz", 1],
               ["rhs\\.begin\\(\\)", "MemRep_begin(&rhs->mem)", 1],
               ["rhs\\.end\\(\\)", "MemRep_end(&rhs->mem)", 1],
               ["(?<![\\w.])dim\\(\\)", "SymMat_dim(self)", 1]],
     "inject": [["\\*b\\s*-=\\s*sum;\\s*\\*b\\+\\+", "fwd_diag"], ["--b;\\s*\\*b\\s*-=", "bwd_diag"]]},
    {"name": "SymMat_cholDec", "file": "lib/matvec/symmat.h", "header": "void SymMat<Float, Index, Exc>::cholDec()",
     "csig": "void SymMat_cholDec(struct SymMat* self)", "members": ["dim_", "idf_"], "loops": 3,
     "rules": [["this->begin\\(\\)", "MemRep_begin(&self->base.mem)", 1],
               ["(?<![\\w.])dim\\(\\)", "SymMat_dim(self)", 1],
               ["this->cholTol\\(\\)", "self->tol_", 1],
               ["std::sqrt", "gv_sqrt", 1],
               THROW + [1]],
     "inject": [["a\\[ip\\]\\s*=\\s*0\\s*;(?!\\s*\\}\\s*else)", "rank_zero"], ["if\\s*\\(\\s*x\\s*<=?\\s*0\\s*\\)", "rank_passed"]]},
]
functions = [
    {"name": "MemRep_begin", "file": "lib/matvec/memrep.h", "header": "iterator begin()",
     "csig": "Float* MemRep_begin(struct MemRep* self)", "members": ["rep", "sz"], "loops": 0},
    {"name": "MemRep_begin_const", "file": "lib/matvec/memrep.h", "header": "const_iterator begin() const",
     "csig": "const Float* MemRep_begin_const(const struct MemRep* self)", "members": ["rep", "sz"], "loops": 0},
    {"name": "CovMat_dim", "file": "lib/matvec/covmat.h", "header": "Index dim () const",
     "csig": "Index CovMat_dim(const struct CovMat* self)", "members": [], "loops": 0,
     "rules": [["this->row_", "self->base.row_", 1]]},
    {"name": "CovMat_bandWidth", "file": "lib/matvec/covmat.h", "header": "Index bandWidth() const",
     "csig": "Index CovMat_bandWidth(const struct CovMat* self)", "members": COVM, "loops": 0},
] + ACC + SYM + [
    {"name": "CovMat_cholDec", "file": "lib/matvec/covmat.h", "header": "CovMat<Float, Index, Exc>::cholDec()",
     "csig": "void CovMat_cholDec(struct CovMat* self)", "members": COVM, "loops": 5,
     "rules": [["using\\s+namespace\\s+std\\s*;", ";", 1],
               ["this->begin\\(\\)", "MemRep_begin(&self->base.mem)", 1],
               ["(?<![\\w.])dim\\(\\)", "CovMat_dim(self)", 1],
               ["(?<![\\w.])bandWidth\\(\\)", "CovMat_bandWidth(self)", 1],
               ["(?<![\\w.:])(?:std\\s*::\\s*)?max\\(", "CVP_STDMAX(", 0],
               ["(?<![\\w.:])(?:std\\s*::\\s*)?min\\(", "CVP_STDMIN(", 0],
               ["std::numeric_limits<Float>::epsilon\\(\\)", "GV_EPS", 1],
               ["std\\s*::\\s*abs\\(", "fabs(", 0],
               THROW + [2]],
     "inject": [["if\\s*\\(\\s*!\\s*\\(\\s*Tol\\s*>=\\s*0", "tolguard"], ["if\\s*\\([^;{}]*?\\bpivot\\s*=\\s*\\*B", "rowbody_begin"], ["\\}\\s*\\Z", "rowbody_end"]]},
    {"name": "CovMat_cholDec_row", "file": "lib/matvec/covmat.h", "header": "for (row=1; row<=N; row++)",
     "csig": "void CovMat_cholDec_row(struct CovMat* self, Float** B__p, Index N, Index W, Index row, Float Tol)",
     "members": [], "loops": 3,
     "rules": [["(?<![\\w.:])(?:std\\s*::\\s*)?min\\(", "CVP_STDMIN(", 0],
               ["(?<![\\w.>])B\\b", "(*B__p)", 6],
               ["std\\s*::\\s*abs\\(", "fabs(", 0],
               THROW + [1]],
     "inject": [["q\\s*=\\s*B\\[n\\]\\s*/\\s*pivot\\s*;", "elim_begin"], ["\\}\\s*B\\+\\+\\s*;", "elim_end"]]},
    {"name": "CovMat_cholDec_elim", "file": "lib/matvec/covmat.h", "header": "n++)",
     "csig": "void CovMat_cholDec_elim(struct CovMat* self, Float* B, Float** p__p, Index N, Index W, Index row, Index k, Index n, Float pivot)",
     "members": [], "loops": 1,
     "rules": [["(?<![\\w.:])(?:std\\s*::\\s*)?min\\(", "CVP_STDMIN(", 0],
               ["(?<![\\w.>])p\\b", "(*p__p)", 2]],
     "inject": [["p\\s*\\+=", "after_cols"]]},
]

OB = ["--object-bits", "12"]
LEM_COV = ["cvp_lemma_first", "cvp_lemma_step", "cvp_lemma_end", "cvp_lemma_mono"]

checks = [
    {"name": "lemmas", "kind": "z3", "script": "lemmas.py", "min_obligations": 30, "timeout": 300, "tier": "quick",
     "level": "proof"},
    {"name": "covmat_cholDec", "kind": "dfcc", "entry": "h_covmat_cholDec", "enforce": ["CovMat_cholDec"],
     "replace": ["CovMat_cholDec_row"], "defines": ["CVP_OUTLINE=1"],
     "loops": 2, "min_obligations": 100, "timeout": 900, "tier": "quick", "level": "proof",
     "properties": ["C15", "C10"], "extra_flags": OB},
    {"name": "covmat_cholDec_elim", "kind": "dfcc", "entry": "h_covmat_cholDec_elim", "enforce": ["CovMat_cholDec_elim"],
     "defines": ["CVP_OUTLINE=1"],
     "loops": 1, "min_obligations": 50, "timeout": 900, "tier": "quick", "level": "proof",
     "properties": ["C15"], "extra_flags": OB},
    {"name": "covmat_cholDec_row", "kind": "dfcc", "entry": "h_covmat_cholDec_row", "enforce": ["CovMat_cholDec_row"],
     "replace": ["CovMat_cholDec_elim"], "defines": ["CVP_OUTLINE=1"],
     "loops": 2, "min_obligations": 100, "timeout": 900, "tier": "quick", "level": "proof",
     "properties": ["C15", "C10"], "extra_flags": OB},
]

def acc(name, entry, enforce, const, replace=()):
    return {"name": name, "kind": "dfcc", "entry": entry, "enforce": [enforce], "replace": list(replace),
            "defines": ["CVP_CONST=%d" % const], "loops": 0, "loop_contracts": False, "min_obligations": 8,
            "timeout": 900, "tier": "quick", "level": "proof", "properties": ["C15"], "extra_flags": OB}
checks += [
    acc("covmat_row_tab", "h_covmat_row", "CovMat_row", 0),
    acc("covmat_row_const_tab", "h_covmat_row", "CovMat_row_const", 1),
    acc("covmat_at_tab", "h_covmat_at", "CovMat_at", 0, ["CovMat_row"]),
    acc("covmat_at_const_tab", "h_covmat_at", "CovMat_at_const", 1, ["CovMat_row_const"]),
    {"name": "covmat_solve", "kind": "dfcc", "entry": "h_covmat_solve", "enforce": ["CovMat_solve"],
     "replace": [], "defines": ["CVP_OUTLINE=1", "CVP_CONFORMING=1"],
     "loops": 5, "min_obligations": 100, "timeout": 900, "tier": "quick", "level": "proof",
     "properties": ["C15"], "extra_flags": OB},
    {"name": "covmat_solve_anydim", "kind": "dfcc", "entry": "h_covmat_solve", "enforce": ["CovMat_solve"],
     "replace": [], "defines": ["CVP_OUTLINE=1", "CVP_CONFORMING=0"],
     "loops": 5, "min_obligations": 100, "timeout": 900, "tier": "quick", "level": "proof",
     "properties": ["C15"], "extra_flags": OB},
]

checks += [
    {"name": "symmat_cholDec", "kind": "dfcc", "entry": "h_symmat_cholDec", "enforce": ["SymMat_cholDec"],
     "replace": [], "defines": ["CVP_OUTLINE=1"],
     "loops": 3, "min_obligations": 100, "timeout": 900, "tier": "quick", "level": "proof",
     "properties": ["C15"], "extra_flags": OB},
]

for nm, conf in (("symmat_solve", 1),):
    checks.append({"name": nm, "kind": "dfcc", "entry": "h_symmat_solve", "enforce": ["SymMat_solve"],
     "replace": [], "defines": ["CVP_OUTLINE=1", "CVP_CONFORMING=%d" % conf],
     "loops": 4, "min_obligations": 100, "timeout": 3000, "tier": "thorough", "level": "proof",
     "properties": ["C15"], "extra_flags": OB})
UNFINISHED = [
    {"name": "symmat_solve_anydim", "kind": "dfcc", "entry": "h_symmat_solve", "enforce": ["SymMat_solve"],
     "replace": [], "defines": ["CVP_OUTLINE=1", "CVP_CONFORMING=0"], "loops": 4, "timeout": 3000, "tier": "thorough",
     "extra_flags": OB, "properties": ["C15"],
     "reason": "same harness as symmat_solve without the conformity assumption (finding: SymMat::solve does not compare rhs.dim() with dim(), demonstrated natively under ASan by native_demo_solve_nonconforming.cpp symmat); not run to completion in the time available (symmat_solve itself needs ~670 s); exclusion define GV_EXCL_SOLVE_NONCONFORMING"},
    {"name": "covmat_cholDec_monolithic", "kind": "dfcc", "entry": "h_covmat_cholDec", "enforce": ["CovMat_cholDec"],
     "defines": [], "loops": 5, "extra_flags": OB,
     "reason": "the function without -DCVP_OUTLINE (five loop contracts in one check): dfcc instruments each loop body twice, the innermost of the three nested loops 8 times; 900 s / 19 GB without an answer. Replaced by the three outlined checks covmat_cholDec / covmat_cholDec_row / covmat_cholDec_elim"},
    {"name": "adj_choldec / adj_forwardSubstitution", "reason": "Adj::choldec and Adj::forwardSubstitution (third priority) not started; the stubs CVP_at / CVP_at_c with the table contracts proved in covmat_at*_tab are what they would be lowered onto"},
]

unit = {
    "name": "covmat_proof",
    "properties": ["C15"],
    "trusted_base": [
        "CBMC 6.11 C front end, pointer and IEEE-754 models",
        "z3 (Int sort) for the cvp_lemma_* statements of cvp_spec.h (closed forms of the packed layouts)",
        "units/gkf_covmat/lemmas.py: expression parser / prover reused by lemmas.py",
        "malloc never fails",
    ],
    "assumptions": [
        "Index=int, Float=double, Exc=Exception::matvec (the instantiation gama uses)",
        "dimensions <= 2^15 (stated precondition, as in unit matvec_index)",
        "CovMat(d,b): 0 <= b < d, or the empty matrix; the buffer holds off(d+1) = d(b+1)-b(b+1)/2 elements (lemma cvp_lemma_size)",
        "std::max / std::min are lowered to their libstdc++ definitions ((a<b)?b:a, (b<a)?b:a), which differ from GV_MAX/GV_MIN on NaN operands",
        "pointer-overflow-check is off (DESIGN section 3 item 6)",
        "the empty matrix (MemRep(0): rep == nullptr) is represented by an empty non-null object; harness buffers are allocated into a local pointer first (CBMC value-set precision, see mk_cov)",
        "SymMat(n): the buffer holds tri(n+1) = n(n+1)/2 elements (lemma cvp_lemma_tri_size)",
        "CovMat_cholDec is proved in three outlined pieces (spec.c, OUTLINING): the row-loop body and the elimination-loop body are extracted as blocks and cut out of the enclosing text by the preprocessor under -DCVP_OUTLINE; the headers of the outlined loops are pinned (a change there is an extraction break, exit 2)",
        "CVP_row_c / CVP_at_c / CVP_at: the table contracts of CovMat::operator[] / operator() applied as bodies (proved against the real accessors in covmat_row*_tab / covmat_at*_tab)",
    ],
    "common_rules": [THROW + [0]],
    "functions": functions,
    "checks": checks,
    "checks_unfinished": UNFINISHED,
    "checks_unfinished_note": "NOT registered (the driver ignores this key)",
}
json.dump(unit, open('/verif/units/covmat_proof/unit.json', 'w'), indent=1)
print('ok', len(functions), 'functions', len(checks), 'checks')
