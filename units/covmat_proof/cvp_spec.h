/* Proof vocabulary of unit covmat_proof: the implicit storage layouts of CovMat (upper band by rows) and SymMat (lower
   triangle by rows) and the nonlinear facts about them which CBMC cannot decide for symbolic dimensions (measured in
   units/matvec_index: every back end times out already at d <= 512).  Only specification text lives here: no gama
   function body.

   DEFINITION OF THE LAYOUTS (lib/matvec/covmat.h header comment, lib/matvec/symmat.h):
     CovMat(d,b): row r (1-based) owns the elements (r,r) .. (r, min(r+b, d)), i.e. CVP_LEN(d,b,r) = min(b, d-r)+1 of
       them; rows follow one another:  off(1) = 0,  off(r+1) = off(r) + CVP_LEN(d,b,r);  d(b+1) - b(b+1)/2 elements.
     SymMat(n):   row i owns (i,1) .. (i,i):  tri(1) = 0,  tri(i+1) = tri(i) + i;  n(n+1)/2 elements.

   OPAQUE TABLES (idiom of units/gkf_covmat/gkc_spec.h).  CBMC never evaluates the closed forms.  In the CBMC checks
   r |-> off(r) of the ONE matrix of the call (d == cvp_tab_d, b == cvp_tab_b) and i |-> tri(i) are OPAQUE TABLES with
   arbitrary content (extern arrays of unbounded size defined nowhere: CBMC's array theory gives functional
   consistency only, i.e. an uninterpreted function int -> int that is never written), so a CBMC proof that mentions
   CVP_OFF / CVP_TRI holds for EVERY table satisfying the lemma instances used.  z3 (lemmas.py runs cpp on this header
   alone, without CVP_OPAQUE, which only the prelude of spec.c defines) proves that the closed forms are such tables:
   they satisfy the defining recurrences (first/step), end at the documented element count (size), are monotone, and the
   CovMat one is the expression CovMat::operator[] computes (oprow; the extracted operator[] itself is tied to the same
   recurrence by unit matvec_index, lemmas CovMat.row_first_is_0 / row_step_is_rowlength / row_end_is_size).

   LEMMAS: a nonlinear fact enters a CBMC check only as an instance of a `cvp_lemma_*` statement (hypothesis ASSERTED,
   conclusion assumed, on the program's own variables; see CVP_USE_* below).  GV_MACHINE_BOUND(...) marks the stated
   dimension bound under which the lemma's own integer expressions do not overflow (CBMC overflow obligations at every
   use); z3 proves the lemma over mathematical integers WITHOUT it.                                                  */
#ifndef CVP_SPEC_H
#define CVP_SPEC_H

#ifndef GV_MACHINE_BOUND
#define GV_MACHINE_BOUND(x) (x)
#endif
#define CVP_MAXD 32768          /* stated precondition: dimensions <= 2^15 (same bound as unit matvec_index) */
#define CVP_MAXSZ 1073741824    /* 2^30 >= d(b+1) - b(b+1)/2 and >= n(n+1)/2 under that bound (lemmas *_end) */

#define CVP_MIN(a, b) ((a) < (b) ? (a) : (b))
#define CVP_LEN(d, b, r) (CVP_MIN(b, (d) - (r)) + 1)                 /* elements of row r of CovMat(d,b) */
#define CVP_SIZE(d, b) ((d) * ((b) + 1) - (b) * ((b) + 1) / 2)       /* documented element count of CovMat(d,b) */
#define CVP_TRISIZE(n) ((n) * ((n) + 1) / 2)                         /* documented element count of SymMat(n) */

/* closed forms (z3 only) */
#define CVP_T(d, b, r) ((r) - 1 - ((d) - (b)))
#define CVP_OFF_CLOSED(d, b, r)                                                                            \
  ((r) - 1 > (d) - (b) ? ((r) - 1) * ((b) + 1) - CVP_T(d, b, r) * (CVP_T(d, b, r) + 1) / 2 : ((r) - 1) * ((b) + 1))
#define CVP_TRI_CLOSED(i) ((i) * ((i) - 1) / 2)

#ifdef CVP_OPAQUE
extern int cvp_rowoff[__CPROVER_constant_infinity_uint];
extern int cvp_tri[__CPROVER_constant_infinity_uint];
extern int cvp_tab_d, cvp_tab_b;
#define CVP_TAB_FOR(d, b) ((d) == cvp_tab_d && (b) == cvp_tab_b)
#define CVP_OFF(d, b, r) ((long)cvp_rowoff[r])   /* long: the lemma statements add to it; no int wrap-around in spec text */
#define CVP_TRI(i) ((long)cvp_tri[i])
#else
#define CVP_TAB_FOR(d, b) (0 == 0)
#define CVP_OFF(d, b, r) CVP_OFF_CLOSED(d, b, r)
#define CVP_TRI(i) CVP_TRI_CLOSED(i)
#endif

/* Every lemma is stated once, as a pair of macros <L>_HYP / <L>_CONCL, and used in two ways from the same text:
     - as the body-less declaration `void cvp_lemma_<l>(int ...) requires(HYP) ensures(CONCL);` which lemmas.py proves with z3;
     - inline in the CBMC checks through CVP_USE_<L>(...) = GV_INST(bound && HYP, CONCL) on the program's own variables,
       i.e. assert the hypothesis, assume the conclusion -- exactly what replacing a call of the lemma function by its
       contract does, without dfcc's per-call write-set machinery (measured here: dfcc duplicates every loop body for
       its base case, so an instantiation inside a loop nest of depth 3 is instrumented 8 times). */
#pragma CPROVER check push
#pragma CPROVER check enable "signed-overflow"
#pragma CPROVER check enable "div-by-zero"

/* ---- CovMat(d,b), 0 <= b < d ---------------------------------------------------------------------------------- */
#define CVP_COV_DOM(d, b) (0 <= (b) && (b) < (d) && CVP_TAB_FOR(d, b))

#define CVP_L_FIRST_HYP(d, b) CVP_COV_DOM(d, b)
#define CVP_L_FIRST_CONCL(d, b) (CVP_OFF(d, b, 1) == 0)
void cvp_lemma_first(int d, int b)
__CPROVER_requires(GV_MACHINE_BOUND(d <= 32768))
__CPROVER_requires(CVP_L_FIRST_HYP(d, b))
__CPROVER_assigns()
__CPROVER_ensures(CVP_L_FIRST_CONCL(d, b));

/* the recurrence, and every row lies inside the buffer that ends at off(d+1) */
#define CVP_L_STEP_HYP(d, b, r) (CVP_COV_DOM(d, b) && 1 <= (r) && (r) <= (d))
#define CVP_L_STEP_CONCL(d, b, r)                                                                              \
  (CVP_OFF(d, b, r) >= 0 && CVP_OFF(d, b, (r) + 1) == CVP_OFF(d, b, r) + CVP_LEN(d, b, r) &&                   \
   CVP_OFF(d, b, (r) + 1) <= CVP_OFF(d, b, (d) + 1))
void cvp_lemma_step(int d, int b, int r)
__CPROVER_requires(GV_MACHINE_BOUND(d <= 32768))
__CPROVER_requires(CVP_L_STEP_HYP(d, b, r))
__CPROVER_assigns()
__CPROVER_ensures(CVP_L_STEP_CONCL(d, b, r));

/* the table ends at a count that fits an int with room to spare (the dimension bound is a genuine hypothesis here) */
#define CVP_L_END_HYP(d, b) ((d) <= 32768 && CVP_COV_DOM(d, b))
#define CVP_L_END_CONCL(d, b) (1 <= CVP_OFF(d, b, (d) + 1) && CVP_OFF(d, b, (d) + 1) <= 1073741824)
void cvp_lemma_end(int d, int b)
__CPROVER_requires(CVP_L_END_HYP(d, b))
__CPROVER_assigns()
__CPROVER_ensures(CVP_L_END_CONCL(d, b));

/* ... which is the documented element count (what the constructor and reset() allocate: unit matvec_index, lemmas
   CovMat.ctor/reset.size_is_the_documented_element_count).  Not used by the CBMC checks (they state the buffer size
   as off(d+1)); it is the link between that statement and WF_COV of matvec_spec.h. */
void cvp_lemma_size(int d, int b)
__CPROVER_requires(GV_MACHINE_BOUND(d <= 32768))
__CPROVER_requires(CVP_COV_DOM(d, b))
__CPROVER_assigns()
__CPROVER_ensures(CVP_OFF(d, b, d + 1) == CVP_SIZE(d, b));

#define CVP_L_MONO_HYP(d, b, r1, r2) (CVP_COV_DOM(d, b) && 1 <= (r1) && (r1) <= (r2) && (r2) <= (d) + 1)
#define CVP_L_MONO_CONCL(d, b, r1, r2)                                                                         \
  (0 <= CVP_OFF(d, b, r1) && CVP_OFF(d, b, r1) <= CVP_OFF(d, b, r2) &&                                          \
   ((r1) < (r2) ==> CVP_OFF(d, b, r1) + CVP_LEN(d, b, r1) <= CVP_OFF(d, b, r2)))
void cvp_lemma_mono(int d, int b, int r1, int r2)
__CPROVER_requires(GV_MACHINE_BOUND(d <= 32768))
__CPROVER_requires(CVP_L_MONO_HYP(d, b, r1, r2))
__CPROVER_assigns()
__CPROVER_ensures(CVP_L_MONO_CONCL(d, b, r1, r2));

/* off(r) is the offset CovMat::operator[](r) computes from the stored fields band_1 = b+1 and dim_b = d-b
   (the expression MV_COV_ROWOFF of matvec_spec.h) */
#define CVP_L_OPROW_HYP(d, b, b1, db, r) (CVP_COV_DOM(d, b) && (b1) == (b) + 1 && (db) == (d) - (b) && 1 <= (r) && (r) <= (d))
#define CVP_L_OPROW_CONCL(d, b, b1, db, r)                                                                     \
  (((r) - 1 <= (db) ==> CVP_OFF(d, b, r) == ((r) - 1) * (b1)) &&                                               \
   ((r) - 1 > (db) ==> CVP_OFF(d, b, r) == ((r) - 1) * (b1) - ((r) - 1 - (db)) * ((r) - 1 - (db) + 1) / 2))
void cvp_lemma_oprow(int d, int b, int b1, int db, int r)
__CPROVER_requires(GV_MACHINE_BOUND(d <= 32768))
__CPROVER_requires(CVP_L_OPROW_HYP(d, b, b1, db, r))
__CPROVER_assigns()
__CPROVER_ensures(CVP_L_OPROW_CONCL(d, b, b1, db, r));

/* ---- SymMat(n) --------------------------------------------------------------------------------------------------- */
#define CVP_L_TRI_FIRST_HYP(n) (0 <= (n))
#define CVP_L_TRI_FIRST_CONCL(n) (CVP_TRI(1) == 0)
void cvp_lemma_tri_first(int n)
__CPROVER_requires(CVP_L_TRI_FIRST_HYP(n))
__CPROVER_assigns()
__CPROVER_ensures(CVP_L_TRI_FIRST_CONCL(n));

#define CVP_L_TRI_STEP_HYP(n, i) (1 <= (i) && (i) <= (n))
#define CVP_L_TRI_STEP_CONCL(n, i) \
  (CVP_TRI(i) >= 0 && CVP_TRI((i) + 1) == CVP_TRI(i) + (i) && CVP_TRI((i) + 1) <= CVP_TRI((n) + 1))
void cvp_lemma_tri_step(int n, int i)
__CPROVER_requires(GV_MACHINE_BOUND(n <= 32768))
__CPROVER_requires(CVP_L_TRI_STEP_HYP(n, i))
__CPROVER_assigns()
__CPROVER_ensures(CVP_L_TRI_STEP_CONCL(n, i));

#define CVP_L_TRI_END_HYP(n) ((n) <= 32768 && 1 <= (n))
#define CVP_L_TRI_END_CONCL(n) (1 <= CVP_TRI((n) + 1) && CVP_TRI((n) + 1) <= 1073741824)
void cvp_lemma_tri_end(int n)
__CPROVER_requires(CVP_L_TRI_END_HYP(n))
__CPROVER_assigns()
__CPROVER_ensures(CVP_L_TRI_END_CONCL(n));

void cvp_lemma_tri_size(int n)
__CPROVER_requires(GV_MACHINE_BOUND(n <= 32768))
__CPROVER_requires(0 <= n)
__CPROVER_assigns()
__CPROVER_ensures(CVP_TRI(n + 1) == CVP_TRISIZE(n));

#define CVP_L_TRI_MONO_HYP(n, i1, i2) (1 <= (i1) && (i1) <= (i2) && (i2) <= (n) + 1)
#define CVP_L_TRI_MONO_CONCL(n, i1, i2) \
  (CVP_TRI(i1) <= CVP_TRI(i2) && ((i1) < (i2) ==> CVP_TRI(i1) + (i1) <= CVP_TRI(i2)))
void cvp_lemma_tri_mono(int n, int i1, int i2)
__CPROVER_requires(GV_MACHINE_BOUND(n <= 32768))
__CPROVER_requires(CVP_L_TRI_MONO_HYP(n, i1, i2))
__CPROVER_assigns()
__CPROVER_ensures(CVP_L_TRI_MONO_CONCL(n, i1, i2));

/* tri(i) + j - 1 is the offset SymMat::operator()(i,j), i >= j, computes: i*(i-1)/2 + j-1 (MV_SYM_OFF of matvec_spec.h) */
#define CVP_L_TRI_OP_HYP(n, i) (1 <= (i) && (i) <= (n) + 1)
#define CVP_L_TRI_OP_CONCL(n, i) (CVP_TRI(i) == (i) * ((i) - 1) / 2)
void cvp_lemma_tri_op(int n, int i)
__CPROVER_requires(GV_MACHINE_BOUND(n <= 32768))
__CPROVER_requires(CVP_L_TRI_OP_HYP(n, i))
__CPROVER_assigns()
__CPROVER_ensures(CVP_L_TRI_OP_CONCL(n, i));
#pragma CPROVER check pop

/* inline use (CBMC checks only; GV_INST of include/gv.h: assert the first argument, assume the second) */
#define CVP_USE_FIRST(d, b) GV_INST((d) <= CVP_MAXD && CVP_L_FIRST_HYP(d, b), CVP_L_FIRST_CONCL(d, b))
#define CVP_USE_STEP(d, b, r) GV_INST((d) <= CVP_MAXD && CVP_L_STEP_HYP(d, b, r), CVP_L_STEP_CONCL(d, b, r))
#define CVP_USE_END(d, b) GV_INST(CVP_L_END_HYP(d, b), CVP_L_END_CONCL(d, b))
#define CVP_USE_MONO(d, b, r1, r2) GV_INST((d) <= CVP_MAXD && CVP_L_MONO_HYP(d, b, r1, r2), CVP_L_MONO_CONCL(d, b, r1, r2))
#define CVP_USE_OPROW(d, b, b1, db, r) GV_INST((d) <= CVP_MAXD && CVP_L_OPROW_HYP(d, b, b1, db, r), CVP_L_OPROW_CONCL(d, b, b1, db, r))
#define CVP_USE_TRI_FIRST(n) GV_INST(CVP_L_TRI_FIRST_HYP(n), CVP_L_TRI_FIRST_CONCL(n))
#define CVP_USE_TRI_STEP(n, i) GV_INST((n) <= CVP_MAXD && CVP_L_TRI_STEP_HYP(n, i), CVP_L_TRI_STEP_CONCL(n, i))
#define CVP_USE_TRI_END(n) GV_INST(CVP_L_TRI_END_HYP(n), CVP_L_TRI_END_CONCL(n))
#define CVP_USE_TRI_MONO(n, i1, i2) GV_INST((n) <= CVP_MAXD && CVP_L_TRI_MONO_HYP(n, i1, i2), CVP_L_TRI_MONO_CONCL(n, i1, i2))
#define CVP_USE_TRI_OP(n, i) GV_INST((n) <= CVP_MAXD && CVP_L_TRI_OP_HYP(n, i), CVP_L_TRI_OP_CONCL(n, i))

#endif
