/* C15-U4 (proof part; replaces the bounded stand-in of unit covmat_chol for everything except the numerical identity
   L D L' = A): UNBOUNDED contract proofs -- symbolic dimension d <= 2^15 and band width b, loop contracts on every loop --
   for the band / packed Cholesky code of lib/matvec, bodies extracted from /repo on every run.

     CovMat::cholDec()          check covmat_cholDec
   Obligations per function: (a) memory safety and frame, (b) the exception behaviour demanded by C10/C15 and the sign of
   the pivots left behind, (c) termination (decreases clause on every loop).

   LAYOUT.  The code walks the packed buffer with running pointers / running indices; the row starts are not stored
   anywhere.  They are the OPAQUE TABLES of cvp_spec.h: cvp_rowoff[r] = offset of the diagonal element of row r of
   CovMat(d,b), cvp_tri[i] = offset of (i,1) of SymMat(n).  Facts about the tables enter only through cvp_lemma_*
   calls (replaced by their contracts; proved by z3 on the closed forms, check "lemmas").

   std::max / std::min are lowered to their libstdc++ definitions (CVP_STDMAX / CVP_STDMIN) because GV_MAX / GV_MIN
   treat a NaN operand differently, and NaN is exactly where the pivot test of cholDec matters.                    */

//@ prelude
#include "../matvec_index/matvec_spec.h"
#define CVP_OPAQUE 1
#include "cvp_spec.h"
int gv_exc;
Index gv_k0;     /* ghost index for forall-introduction ("every pivot") */
Index gv_wrow;   /* ghost: row whose pivot was being tested (witness of a NonPositiveDefinite exit) */
Float gv_tol;    /* ghost: the tolerance the pivots were compared with */
Float gv_q;      /* ghost: the scale (largest diagonal element) the tolerance was derived from */
Float gv_d0;     /* ghost: diagonal element of row gv_k0 as the scaling pass read it */

#define CVP_STDMAX(a, b) ((a) < (b) ? (b) : (a))   /* std::max(a,b): "if (a < b) return b; return a;" */
#define CVP_STDMIN(a, b) ((b) < (a) ? (b) : (a))   /* std::min(a,b): "if (b < a) return b; return a;" */
#define TAB(r) ((long)cvp_rowoff[r])
#define REP(A) ((A)->base.mem.rep)

/* Exclusion predicate of the finding "a NaN pivot is accepted" (see the report / known_findings): the value under
   test is a number.  Empty unless the exclusion pass defines GV_EXCL_COVMAT_NAN_PIVOT. */
#ifdef GV_EXCL_COVMAT_NAN_PIVOT
#define CVP_EXCL_NOT_NAN(x) __CPROVER_assume((x) == (x))
#else
#define CVP_EXCL_NOT_NAN(x)
#endif

/* CovMat(d,b): 0 <= b < d <= 2^15 (or the empty matrix), the stored fields are consistent, and the buffer holds
   off(d+1) elements -- the documented count d(b+1) - b(b+1)/2 (cvp_lemma_size) */
#define CVP_WF_COV(A)                                                                                          \
  (0 <= (A)->base.row_ && (A)->base.row_ <= CVP_MAXD && (A)->base.col_ == (A)->base.row_ && 0 <= (A)->band_ && \
   ((A)->band_ < (A)->base.row_ || ((A)->band_ == 0 && (A)->base.row_ == 0)) &&                                \
   (A)->band_1 == (A)->band_ + 1 && (A)->dim_b == (A)->base.row_ - (A)->band_ &&                               \
   CVP_TAB_FOR((A)->base.row_, (A)->band_) &&                                                                  \
   (A)->base.mem.sz == ((A)->base.row_ == 0 ? 0 : TAB((A)->base.row_ + 1)) && 0 <= (A)->base.mem.sz &&         \
   (A)->base.mem.sz <= CVP_MAXSZ &&                                                                            \
   ((A)->base.mem.sz > 0 ==> __CPROVER_rw_ok(REP(A), (A)->base.mem.sz * sizeof(Float))))

/* harness helper: an arbitrary CovMat(d,b) with arbitrary contents */
static void mk_cov(struct CovMat *A)
{
  Index d, b;
  __CPROVER_assume(0 <= d && d <= CVP_MAXD && 0 <= b && (b < d || (b == 0 && d == 0)));
  __CPROVER_assume(CVP_TAB_FOR(d, b));
  A->base.row_ = A->base.col_ = d;
  A->band_ = b;
  A->band_1 = b + 1;
  A->dim_b = d - b;
  Index sz = (d == 0) ? 0 : TAB(d + 1);
  __CPROVER_assume(0 <= sz && sz <= CVP_MAXSZ);          /* cvp_lemma_end */
  A->base.mem.sz = sz;
  /* The block is allocated into a LOCAL pointer first and is never NULL: with `field = malloc(..)` or with a NULL
     alternative CBMC's value sets fall back to byte-wise extraction for every `B[l]` / `p[l]` and the array theory
     constraints explode (measured: > 16 GB).  The empty matrix (MemRep(0): rep == nullptr) is represented by an empty
     object; cholDec returns before touching it (stated in the unit's assumptions). */
  Float *m = malloc((size_t)sz * sizeof(Float));
  __CPROVER_assume(m != NULL);
  A->base.mem.rep = m;
}
//@ end

//@ contract MemRep_begin
MV_CONTRACT_MemRep_begin
//@ contract MemRep_begin_const
MV_CONTRACT_MemRep_begin
//@ end

/* ------------------------------------------------------------------------------------------------------------------
   CovMat::cholDec  (in-situ L D L' of the band matrix)

   (a) reads and writes stay inside the buffer (CBMC pointer/bounds obligations on the extracted body); nothing but the
       buffer and the exception state is assigned (the matrix header is not).
   (b) E1  BadRank  <=>  the matrix is empty.
       E2  no other exception than BadRank / NonPositiveDefinite.
       E3  NonPositiveDefinite  ==>  there is a row (witness gv_wrow) whose pivot -- the value in its diagonal position
           at the moment it is reached, and still there on exit -- is not greater than the tolerance.
       E4  normal return  ==>  EVERY diagonal position (ghost index gv_k0) holds a pivot greater than the tolerance,
           and the tolerance is >= 0: all pivots of the factorisation are positive, which is what "positive definite"
           means (C10: a matrix that is not positive definite is rejected; C15: the factorisation exists).
           E3 + E4: NonPositiveDefinite <=> some pivot met is not greater than the tolerance.
       E5  the tolerance is derived from a scale gv_q that is >= 0 and >= every diagonal element of the input.
   (c) decreases clauses on the five loops.                                                                        */
//@ contract CovMat_cholDec
__CPROVER_requires(CVP_WF_COV(self))
__CPROVER_requires(gv_exc == 0)
__CPROVER_assigns(gv_exc, gv_wrow, gv_tol, gv_q, gv_d0; self->base.mem.sz > 0: __CPROVER_object_whole(self->base.mem.rep))
__CPROVER_ensures((self->base.row_ == 0) == (gv_exc == GV_BadRank))
__CPROVER_ensures(gv_exc == 0 || gv_exc == GV_BadRank || gv_exc == GV_NonPositiveDefinite)
__CPROVER_ensures(gv_exc == GV_NonPositiveDefinite ==>
                  (1 <= gv_wrow && gv_wrow <= self->base.row_ && REP(self)[TAB(gv_wrow)] <= gv_tol))
__CPROVER_ensures((gv_exc == 0 && 1 <= gv_k0 && gv_k0 <= self->base.row_) ==>
                  (REP(self)[TAB(gv_k0)] > gv_tol && gv_tol >= 0 && REP(self)[TAB(gv_k0)] > 0))
__CPROVER_ensures((gv_exc != GV_BadRank && 1 <= gv_k0 && gv_k0 <= self->base.row_) ==> (gv_q >= 0 && gv_q >= gv_d0))
//@ entry CovMat_cholDec
GV_CANARY("CovMat_cholDec entry");
//@ pre CovMat_cholDec 1
CVP_USE_FIRST(N, W);
CVP_USE_END(N, W);
//@ loop CovMat_cholDec 1
__CPROVER_assigns(n, row, q, k, gv_d0)
__CPROVER_loop_invariant(1 <= row && row <= N + 1 && n == TAB(row) && q >= 0 &&
                         ((1 <= gv_k0 && gv_k0 < row) ==> q >= gv_d0))
__CPROVER_decreases((long)N + 1 - row)
//@ head CovMat_cholDec 1
CVP_USE_STEP(N, W, row);
CVP_EXCL_NOT_NAN(B[n]);
if (row == gv_k0) gv_d0 = B[n];
//@ pre CovMat_cholDec 2
gv_tol = Tol;
gv_q = q;
//@ loop CovMat_cholDec 2
__CPROVER_assigns(row, B, p, k, n, l, q, pivot, gv_exc, gv_wrow, __CPROVER_object_whole(REP(self)))
__CPROVER_loop_invariant(1 <= row && row <= N + 1 && SAME(B, REP(self)) && OFF(B) == OFF(REP(self)) + FSZ * TAB(row) &&
                         gv_exc == 0 && ((1 <= gv_k0 && gv_k0 < row) ==> REP(self)[TAB(gv_k0)] > Tol))
__CPROVER_decreases((long)N + 1 - row)
//@ head CovMat_cholDec 2
GV_ANCHOR(B, REP(self) + TAB(row));
CVP_USE_STEP(N, W, row);
if (1 <= gv_k0 && gv_k0 <= row) CVP_USE_MONO(N, W, gv_k0, row);
gv_wrow = row;
CVP_EXCL_NOT_NAN(*B);
//@ tail CovMat_cholDec 2
__CPROVER_assert(pivot > Tol, "an accepted pivot is greater than the tolerance (a NaN is not)");
//@ loop CovMat_cholDec 3
__CPROVER_assigns(n, l, q, p, __CPROVER_object_whole(REP(self)))
__CPROVER_loop_invariant(1 <= n && n <= k + 1 && SAME(p, REP(self)) &&
                         OFF(p) + FSZ * n == OFF(REP(self)) + FSZ * TAB(row + n) && OFF(p) >= OFF(B) + FSZ * k &&
                         ((1 <= gv_k0 && gv_k0 < row) ==> REP(self)[TAB(gv_k0)] > Tol) &&
                         MV_SAMEVAL(REP(self)[TAB(row)], pivot))
__CPROVER_decreases((long)k + 1 - n)
//@ head CovMat_cholDec 3
GV_ANCHOR(p, REP(self) + (TAB(row + n) - n));
CVP_USE_STEP(N, W, row + n);
//@ loop CovMat_cholDec 4
__CPROVER_assigns(l, __CPROVER_object_whole(REP(self)))
__CPROVER_loop_invariant(n <= l && l <= k + 1 &&
                         ((1 <= gv_k0 && gv_k0 < row) ==> REP(self)[TAB(gv_k0)] > Tol) &&
                         MV_SAMEVAL(REP(self)[TAB(row)], pivot))
__CPROVER_decreases((long)k + 1 - l)
//@ pre CovMat_cholDec 5
const Index gv_kk = k;
//@ loop CovMat_cholDec 5
__CPROVER_assigns(k, B, __CPROVER_object_whole(REP(self)))
__CPROVER_loop_invariant(0 <= k && k <= gv_kk && SAME(B, REP(self)) &&
                         OFF(B) == OFF(REP(self)) + FSZ * ((long)TAB(row) + 1 + gv_kk - k) &&
                         ((1 <= gv_k0 && gv_k0 < row) ==> REP(self)[TAB(gv_k0)] > Tol) &&
                         MV_SAMEVAL(REP(self)[TAB(row)], pivot))
__CPROVER_decreases(k)
//@ head CovMat_cholDec 5
GV_ANCHOR(B, REP(self) + (TAB(row) + 1 + gv_kk - k));
//@ end

//@ harness
void h_covmat_cholDec(void)
{
  struct CovMat A;
  mk_cov(&A);
  Index k0;
  gv_k0 = k0;
  gv_exc = 0;
  Index w_dim = A.base.row_, w_band = A.band_;           /* witness variables for the replay */
  CovMat_cholDec(&A);
  GV_CANARY("h_covmat_cholDec end");
}
//@ end
