/* C15-U4 (proof part; replaces the bounded stand-in of unit covmat_chol for everything except the numerical identity
   L D L' = A): UNBOUNDED contract proofs -- symbolic dimension d <= 2^15 and band width b, loop contracts on every loop --
   for the band / packed Cholesky code of lib/matvec, bodies extracted from /repo on every run.

     CovMat::cholDec()          checks covmat_cholDec (scaling pass + row loop), covmat_cholDec_row (one pass of the row
                                loop), covmat_cholDec_elim (one pass of the elimination loop)   -- see OUTLINING below
     CovMat::operator[] / ()    checks covmat_row*_tab, covmat_at*_tab (table form of the accessor contracts)
     CovMat::solve(Vec&)        checks covmat_solve (conforming rhs), covmat_solve_anydim (any rhs: FAILS, finding)
     SymMat::cholDec()          check symmat_cholDec
     SymMat::solve(Vec&)        check symmat_solve (thorough)
   Obligations per function: (a) memory safety and frame, (b) the exception behaviour demanded by C10/C15 and the sign of
   the pivots left behind, (c) termination (decreases clause on every loop).

   LAYOUT.  The code walks the packed buffer with running pointers / running indices; the row starts are not stored
   anywhere.  They are the OPAQUE TABLES of cvp_spec.h: cvp_rowoff[r] = offset of the diagonal element of row r of
   CovMat(d,b), cvp_tri[i] = offset of (i,1) of SymMat(n).  Facts about the tables enter only through cvp_lemma_*
   calls (replaced by their contracts; proved by z3 on the closed forms, check "lemmas").

   std::max / std::min are lowered to their libstdc++ definitions (CVP_STDMAX / CVP_STDMIN) because GV_MAX / GV_MIN
   treat a NaN operand differently, and NaN is exactly where the pivot test of cholDec matters.                    */

//@ prelude
#include "../matvec_index/matvec_spec.h"
#define CVP_OPAQUE 1
#include "cvp_spec.h"
int gv_exc;
Index gv_k0;     /* ghost index for forall-introduction ("every pivot") */
Index gv_wrow;   /* ghost: row whose pivot was being tested (witness of a NonPositiveDefinite exit) */
Float gv_tol;    /* ghost: the tolerance the pivots were compared with */
Float gv_q;      /* ghost: the scale (largest diagonal element) the tolerance was derived from */
Float gv_d0;     /* ghost: diagonal element of row gv_k0 as the scaling pass read it */
int gv_allnum;   /* ghost: every diagonal element the scaling pass read is a number (not a NaN) */

#define CVP_STDMAX(a, b) ((a) < (b) ? (b) : (a))   /* std::max(a,b): "if (a < b) return b; return a;" */
#define CVP_STDMIN(a, b) ((b) < (a) ? (b) : (a))   /* std::min(a,b): "if (b < a) return b; return a;" */
#define TAB(r) ((long)cvp_rowoff[r])
#define REP(A) ((A)->base.mem.rep)

/* Exclusion predicate of the finding "a NaN pivot is accepted" (see the report / known_findings): the value under
   test is a number.  Empty unless the exclusion pass defines GV_EXCL_COVMAT_NAN_PIVOT. */
#ifdef GV_EXCL_COVMAT_NAN_PIVOT
#define CVP_EXCL_NOT_NAN(x) __CPROVER_assume((x) == (x))
#define CVP_EXCL_ALLNUM && gv_allnum == 1   /* proved as part of the invariant, not assumed: no NaN was met */
#else
#define CVP_EXCL_NOT_NAN(x)
#define CVP_EXCL_ALLNUM
#endif

/* ---- proof text of ONE PASS of the row loop of CovMat::cholDec, shared by the block CovMat_cholDec_row (BX = *B__p)
   and by the monolithic function (BX = B).  Variables of the code: N, W, row, Tol, p, k, l, n, pivot, q. --------------- */
/* at the start of a pass: the layout facts of this row, and a snapshot of the pivot of row gv_k0 accepted earlier */
#define CVP_ROW_ENTRY(BX)                                                                                  \
  CVP_USE_STEP(N, W, row);                                                                                 \
  if (1 <= gv_k0 && gv_k0 <= row) CVP_USE_MONO(N, W, gv_k0, row);                                          \
  const Float gv_v0 = (1 <= gv_k0 && gv_k0 < row) ? REP(self)[TAB(gv_k0)] : 0;                             \
  Index gv_elims = 0; /* ghost: rows eliminated in this pass */                                            \
  CVP_EXCL_NOT_NAN(*(BX));                                                                                 \
  CVP_EXCL_NOT_NAN(Tol);
/* what the inner loops keep: the earlier pivot and this row's pivot stay where they are */
#define CVP_ROW_KEEPS                                                                                      \
  (((1 <= gv_k0 && gv_k0 < row) ==> MV_SAMEVAL(REP(self)[TAB(gv_k0)], gv_v0)) && MV_SAMEVAL(REP(self)[TAB(row)], pivot))
/* for (n=1; n<=k; n++): p + n is the diagonal element of row+n */
#define CVP_ROW_LOOP1(BX)                                                                                  \
  __CPROVER_assigns(n, l, q, p, gv_elims, __CPROVER_object_whole(REP(self)))                               \
  __CPROVER_loop_invariant(1 <= n && n <= k + 1 && gv_elims == n - 1 && SAME(p, REP(self)) &&                                   \
                           OFF(p) + FSZ * n == OFF(REP(self)) + FSZ * TAB(row + n) && OFF(p) >= OFF(BX) + FSZ * k && \
                           CVP_ROW_KEEPS)                                                                  \
  __CPROVER_decreases((long)k + 1 - n)
#define CVP_ROW_HEAD1(BX)                                                                                  \
  GV_ANCHOR(p, REP(self) + (TAB(row + n) - n));                                                            \
  CVP_USE_STEP(N, W, row + n);
/* for (l=n; l<=k; l++) p[l] -= q*B[l] */
#define CVP_ROW_LOOP2(BX)                                                                                  \
  __CPROVER_assigns(l, __CPROVER_object_whole(REP(self)))                                                  \
  __CPROVER_loop_invariant(n <= l && l <= k + 1 && CVP_ROW_KEEPS)                                          \
  __CPROVER_decreases((long)k + 1 - l)
/* for (; k; k--) *B++ /= pivot   (gv_kk = k before the loop) */
#define CVP_ROW_LOOP3(BX)                                                                                  \
  __CPROVER_assigns(k, BX, __CPROVER_object_whole(REP(self)))                                              \
  __CPROVER_loop_invariant(0 <= k && k <= gv_kk && SAME(BX, REP(self)) &&                                  \
                           OFF(BX) == OFF(REP(self)) + FSZ * (TAB(row) + 1 + gv_kk - k) && CVP_ROW_KEEPS)  \
  __CPROVER_decreases(k)
#define CVP_ROW_HEAD3(BX) GV_ANCHOR(BX, REP(self) + (TAB(row) + 1 + gv_kk - k));
#define CVP_ROW_TAIL1 gv_elims = gv_elims + 1;
#define CVP_ROW_AFTER1 \
  __CPROVER_assert(gv_elims == k, "every row coupled to the pivot row (row+1 .. row+k) has been eliminated");
#define CVP_ROW_EXIT(BX)                                                                                   \
  __CPROVER_assert(pivot > Tol, "an accepted pivot is greater than the tolerance (a NaN is not)");

/* CovMat(d,b): 0 <= b < d <= 2^15 (or the empty matrix), the stored fields are consistent, and the buffer holds
   off(d+1) elements -- the documented count d(b+1) - b(b+1)/2 (cvp_lemma_size) */
#define CVP_WF_COV(A)                                                                                          \
  (0 <= (A)->base.row_ && (A)->base.row_ <= CVP_MAXD && (A)->base.col_ == (A)->base.row_ && 0 <= (A)->band_ && \
   ((A)->band_ < (A)->base.row_ || ((A)->band_ == 0 && (A)->base.row_ == 0)) &&                                \
   (A)->band_1 == (A)->band_ + 1 && (A)->dim_b == (A)->base.row_ - (A)->band_ &&                               \
   CVP_TAB_FOR((A)->base.row_, (A)->band_) &&                                                                  \
   (A)->base.mem.sz == ((A)->base.row_ == 0 ? 0 : TAB((A)->base.row_ + 1)) && 0 <= (A)->base.mem.sz &&         \
   (A)->base.mem.sz <= CVP_MAXSZ &&                                                                            \
   ((A)->base.mem.sz > 0 ==> __CPROVER_rw_ok(REP(A), (A)->base.mem.sz * sizeof(Float))))

/* ---- contracts of the CovMat accessors IN TERMS OF THE TABLE (linear for CBMC).  They are proved against the extracted
   operator[] / operator() bodies by the checks covmat_row*_tab / covmat_at*_tab (lemma oprow: the table is the
   expression operator[] computes) and are what CovMat::solve and the Adj routines see of the accessors. ------------- */
#define CVP_CONTRACT_CovMat_row                                                                            \
  __CPROVER_requires(CVP_WF_COV(self) && 1 <= row && row <= self->base.row_) __CPROVER_assigns()           \
  __CPROVER_ensures(__CPROVER_return_value == REP(self) + TAB(row))
#define CVP_LO(r, s) ((r) > (s) ? (s) : (r))
#define CVP_HI(r, s) ((r) > (s) ? (r) : (s))
#define CVP_INBAND(self, r, s) (CVP_HI(r, s) - CVP_LO(r, s) <= (self)->band_)
#define CVP_ELEM(self, r, s) (TAB(CVP_LO(r, s)) + (CVP_HI(r, s) - CVP_LO(r, s)))   /* offset of element (r,s) inside the band */
#define CVP_CONTRACT_CovMat_at_const                                                                       \
  __CPROVER_requires(CVP_WF_COV(self) && 1 <= r && r <= self->base.row_ && 1 <= s && s <= self->base.row_) \
  __CPROVER_assigns()                                                                                      \
  __CPROVER_ensures(CVP_INBAND(self, r, s) ==> (0 <= CVP_ELEM(self, r, s) && CVP_ELEM(self, r, s) < self->base.mem.sz && \
                    MV_SAMEVAL(__CPROVER_return_value, REP(self)[CVP_ELEM(self, r, s)])))                  \
  __CPROVER_ensures(!CVP_INBAND(self, r, s) ==> __CPROVER_return_value == 0)
#define CVP_CONTRACT_CovMat_at                                                                             \
  __CPROVER_requires(CVP_WF_COV(self) && 1 <= r && r <= self->base.row_ && 1 <= s && s <= self->base.row_) \
  __CPROVER_requires(gv_exc == 0)                                                                          \
  __CPROVER_assigns(gv_exc)                                                                                \
  __CPROVER_ensures(CVP_INBAND(self, r, s) ==> (gv_exc == 0 && 0 <= CVP_ELEM(self, r, s) &&                \
                    CVP_ELEM(self, r, s) < self->base.mem.sz && __CPROVER_return_value == REP(self) + CVP_ELEM(self, r, s))) \
  __CPROVER_ensures(!CVP_INBAND(self, r, s) ==> gv_exc == GV_BadIndex)
/* The same contracts APPLIED AS BODIES (stubs of callees for CovMat::solve and the Adj routines): the precondition is
   asserted, and the value returned is the one the ensures clause determines uniquely.  dfcc's own contract replacement
   returns a nondeterministic pointer constrained by an assumption; a dereference of it makes CBMC case-split over every
   object of the program (measured on CovMat::solve: 42 byte-wise extractions, > 15 GB), and a write through it lets
   symbolic execution run away.  WF(self) is the caller's own precondition and self is never assigned by the callers. */
static inline const Float *CVP_row_c(const struct CovMat *self, Index row)
{
  __CPROVER_assert(1 <= row && row <= self->base.row_, "operator[]: row index in 1..dim (precondition of the accessor)");
  return REP(self) + TAB(row);
}
static inline Float CVP_at_c(const struct CovMat *self, Index r, Index s)
{
  __CPROVER_assert(1 <= r && r <= self->base.row_ && 1 <= s && s <= self->base.row_,
                   "operator() const: indices in 1..dim (precondition of the accessor)");
  if (!CVP_INBAND(self, r, s)) return 0;
  return REP(self)[CVP_ELEM(self, r, s)];
}
static inline Float *CVP_at(struct CovMat *self, Index r, Index s)
{
  __CPROVER_assert(1 <= r && r <= self->base.row_ && 1 <= s && s <= self->base.row_,
                   "operator(): indices in 1..dim (precondition of the accessor)");
  __CPROVER_assert(gv_exc == 0, "operator(): no exception in flight");
  if (!CVP_INBAND(self, r, s)) { gv_exc = GV_BadIndex; return NULL; }
  return REP(self) + CVP_ELEM(self, r, s);
}

/* lemma instances the accessor proofs use (entry blocks) */
#define CVP_ROW_PROOF CVP_USE_OPROW(self->base.row_, self->band_, self->band_1, self->dim_b, row);
#define CVP_AT_PROOF  CVP_USE_STEP(self->base.row_, self->band_, CVP_LO(r, s));

/* ---- CovMat::solve: conformity of the right-hand side; exclusion predicate of the finding "solve does not check it" */
#ifdef GV_EXCL_SOLVE_NONCONFORMING
#define CVP_EXCL_CONFORMING(A, v) __CPROVER_assume((v)->mem.sz == (A)->base.row_)
#define CVP_EXCL_CONFORMING_SYM(A, v) __CPROVER_assume((v)->mem.sz == (A)->dim_)
#else
#define CVP_EXCL_CONFORMING(A, v)
#define CVP_EXCL_CONFORMING_SYM(A, v)
#endif
#define CVP_RHS_OK(A, v)                                                                                   \
  (WF_MEM(&(v)->mem) && (v)->mem.sz <= CVP_MAXD && !SAME((v), (A)) && !SAME((v)->mem.rep, (A)) && !SAME((v)->mem.rep, (v)) && \
   !SAME((v)->mem.rep, REP(A)) && !SAME(REP(A), (v)))

/* ---- SymMat(n): lower triangle by rows; TRI(i) = offset of element (i,1) ------------------------------------------- */
#define TRI(i) ((long)cvp_tri[i])
#define CVP_WF_SYM(A)                                                                                      \
  (0 <= (A)->dim_ && (A)->dim_ <= CVP_MAXD && (A)->base.row_ == (A)->dim_ && (A)->base.col_ == (A)->dim_ && \
   (A)->base.mem.sz == ((A)->dim_ == 0 ? 0 : TRI((A)->dim_ + 1)) && 0 <= (A)->base.mem.sz &&               \
   (A)->base.mem.sz <= CVP_MAXSZ && __CPROVER_rw_ok(REP(A), (A)->base.mem.sz * sizeof(Float)))
Index gv_zeros;  /* ghost: pivots zeroed by the rank test of SymMat::cholDec */
Index gv_wi;     /* ghost: row whose pivot passed the rank test last (witness of BadRank) */
Float gv_wx;     /* ghost: that pivot */
long gv_pos;     /* ghost: an arbitrary offset into the buffer (frame of one inner pass: only element (i,j) is written) */
static void mk_sym(struct SymMat *A)
{
  Index d;
  __CPROVER_assume(0 <= d && d <= CVP_MAXD);
  A->dim_ = A->base.row_ = A->base.col_ = d;
  Index sz = (d == 0) ? 0 : cvp_tri[d + 1];
  __CPROVER_assume(0 <= sz && sz <= CVP_MAXSZ);          /* cvp_lemma_tri_end */
  A->base.mem.sz = sz;
  Float *m = malloc((size_t)sz * sizeof(Float));         /* local first, never NULL: see mk_cov */
  __CPROVER_assume(m != NULL);
  A->base.mem.rep = m;
}

/* harness helper: an arbitrary CovMat(d,b) with arbitrary contents */
static void mk_cov(struct CovMat *A)
{
  Index d, b;
  __CPROVER_assume(0 <= d && d <= CVP_MAXD && 0 <= b && (b < d || (b == 0 && d == 0)));
  __CPROVER_assume(CVP_TAB_FOR(d, b));
  A->base.row_ = A->base.col_ = d;
  A->band_ = b;
  A->band_1 = b + 1;
  A->dim_b = d - b;
  Index sz = (d == 0) ? 0 : TAB(d + 1);
  __CPROVER_assume(0 <= sz && sz <= CVP_MAXSZ);          /* cvp_lemma_end */
  A->base.mem.sz = sz;
  /* The block is allocated into a LOCAL pointer first and is never NULL: with `field = malloc(..)` or with a NULL
     alternative CBMC's value sets fall back to byte-wise extraction for every `B[l]` / `p[l]` and the array theory
     constraints explode (measured: > 16 GB).  The empty matrix (MemRep(0): rep == nullptr) is represented by an empty
     object; cholDec returns before touching it (stated in the unit's assumptions). */
  Float *m = malloc((size_t)sz * sizeof(Float));
  __CPROVER_assume(m != NULL);
  A->base.mem.rep = m;
}
//@ end

//@ contract MemRep_begin
MV_CONTRACT_MemRep_begin
//@ contract MemRep_begin_const
MV_CONTRACT_MemRep_begin
//@ contract Vec_at
MV_CONTRACT_Vec_at
//@ contract CovMat_row
CVP_CONTRACT_CovMat_row
//@ entry CovMat_row
GV_CANARY("CovMat_row entry");
CVP_ROW_PROOF
//@ contract CovMat_row_const
CVP_CONTRACT_CovMat_row
//@ entry CovMat_row_const
GV_CANARY("CovMat_row_const entry");
CVP_ROW_PROOF
//@ contract CovMat_at
CVP_CONTRACT_CovMat_at
//@ entry CovMat_at
GV_CANARY("CovMat_at entry");
CVP_AT_PROOF
//@ contract CovMat_at_const
CVP_CONTRACT_CovMat_at_const
//@ entry CovMat_at_const
GV_CANARY("CovMat_at_const entry");
CVP_AT_PROOF
//@ end

/* ------------------------------------------------------------------------------------------------------------------
   CovMat::cholDec  (in-situ L D L' of the band matrix)

   (a) reads and writes stay inside the buffer (CBMC pointer/bounds obligations on the extracted body); nothing but the
       buffer and the exception state is assigned (the matrix header is not).
   (b) E1  BadRank  <=>  the matrix is empty.
       E2  no other exception than BadRank / NonPositiveDefinite.
       E3  NonPositiveDefinite  ==>  there is a row (witness gv_wrow) whose pivot -- the value in its diagonal position
           at the moment it is reached, and still there on exit -- is not greater than the tolerance.
       E4  normal return  ==>  EVERY diagonal position (ghost index gv_k0) holds a pivot greater than the tolerance,
           and the tolerance is >= 0: all pivots of the factorisation are positive, which is what "positive definite"
           means (C10: a matrix that is not positive definite is rejected; C15: the factorisation exists).
           E3 + E4: NonPositiveDefinite <=> some pivot met is not greater than the tolerance.
       E5  the tolerance is derived from a scale gv_q that is >= 0 and >= every diagonal element of the input
           (stated for inputs whose diagonal consists of numbers: ghost flag gv_allnum; no number is >= a NaN).
   (c) decreases clauses on the five loops.

   OUTLINING.  dfcc (CBMC 6.11) instruments every loop twice (base case + step), so the body of the innermost of the
   three nested loops is instrumented 8 times; the monolithic check does not finish (900 s, 19 GB).  The proof is
   therefore split at the row loop, without editing any executable text:
     * CovMat_cholDec_row is the BODY OF THE ROW LOOP, extracted from /repo as a block (unit.json header
       "for (row=1; row<=N; row++)"; the loop's working variables p, k, l, n, pivot, q become its locals, B is passed by
       reference), with its own contract (check covmat_cholDec_row: the three inner loops);
     * in check covmat_cholDec (-DCVP_OUTLINE) the same text inside CovMat_cholDec is cut out by the preprocessor
       between the injection points `rowbody_begin` / `rowbody_end` (pinned by the extractor to the first statement of
       the row loop's body and to its closing brace) and replaced by ONE CALL of CovMat_cholDec_row, which dfcc replaces
       by the contract proved in the other check.  R11: `if (gv_exc) return;` follows the call.
     Without -DCVP_OUTLINE the generated file is the monolithic function with the same loop contracts.           */
//@ contract CovMat_cholDec
__CPROVER_requires(CVP_WF_COV(self))
__CPROVER_requires(gv_exc == 0)
__CPROVER_assigns(gv_exc, gv_wrow, gv_tol, gv_q, gv_d0, gv_allnum; self->base.mem.sz > 0: __CPROVER_object_whole(self->base.mem.rep))
__CPROVER_ensures((self->base.row_ == 0) == (gv_exc == GV_BadRank))
__CPROVER_ensures(gv_exc == 0 || gv_exc == GV_BadRank || gv_exc == GV_NonPositiveDefinite)
/* refused: the diagonal gives no usable tolerance (a diagonal element is not a number), or there is a witness row whose
   pivot is not greater than the tolerance */
__CPROVER_ensures(gv_exc == GV_NonPositiveDefinite ==>
                  (!(gv_tol >= 0) || (1 <= gv_wrow && gv_wrow <= self->base.row_ && !(REP(self)[TAB(gv_wrow)] > gv_tol))))
__CPROVER_ensures((gv_exc == 0 && 1 <= gv_k0 && gv_k0 <= self->base.row_) ==>
                  (REP(self)[TAB(gv_k0)] > gv_tol && gv_tol >= 0 && REP(self)[TAB(gv_k0)] > 0))
__CPROVER_ensures((gv_exc != GV_BadRank && gv_allnum && 1 <= gv_k0 && gv_k0 <= self->base.row_) ==> (gv_q >= 0 && gv_q >= gv_d0))
//@ entry CovMat_cholDec
GV_CANARY("CovMat_cholDec entry");
//@ pre CovMat_cholDec 1
CVP_USE_FIRST(N, W);
CVP_USE_END(N, W);
gv_allnum = 1;
//@ loop CovMat_cholDec 1
__CPROVER_assigns(n, row, q, k, gv_d0, gv_allnum)
__CPROVER_loop_invariant(1 <= row && row <= N + 1 && n == TAB(row) && (gv_allnum == 0 || gv_allnum == 1) CVP_EXCL_ALLNUM &&
                         (gv_allnum ==> (q >= 0 && ((1 <= gv_k0 && gv_k0 < row) ==> q >= gv_d0))))
__CPROVER_decreases((long)N + 1 - row)
//@ head CovMat_cholDec 1
CVP_USE_STEP(N, W, row);
CVP_EXCL_NOT_NAN(B[n]);
if (B[n] != B[n]) gv_allnum = 0;
if (row == gv_k0) gv_d0 = B[n];
//@ at CovMat_cholDec tolguard
gv_tol = Tol;
gv_q = q;
//@ pre CovMat_cholDec 2
__CPROVER_assert(Tol >= 0, "the tolerance is a number >= 0");
//@ loop CovMat_cholDec 2
__CPROVER_assigns(row, B, p, k, n, l, q, pivot, gv_exc, gv_wrow, __CPROVER_object_whole(REP(self)))
__CPROVER_loop_invariant(1 <= row && row <= N + 1 && SAME(B, REP(self)) && OFF(B) == OFF(REP(self)) + FSZ * TAB(row) &&
                         gv_exc == 0 && 0 <= TAB(row) && TAB(row) <= TAB(N + 1) &&
                         ((1 <= gv_k0 && gv_k0 < row) ==>
                          (0 <= TAB(gv_k0) && TAB(gv_k0) < TAB(row) && REP(self)[TAB(gv_k0)] > Tol)))
__CPROVER_decreases((long)N + 1 - row)
//@ head CovMat_cholDec 2
GV_ANCHOR(B, REP(self) + TAB(row));
gv_wrow = row;
#ifdef CVP_OUTLINE
CVP_USE_STEP(N, W, row);
#else
CVP_ROW_ENTRY(B)
#endif
//@ at CovMat_cholDec rowbody_begin
#ifdef CVP_OUTLINE
CovMat_cholDec_row(self, &B, N, W, row, Tol);
if (gv_exc) return;
#else
//@ at CovMat_cholDec rowbody_end
#endif
//@ loop CovMat_cholDec 3
CVP_ROW_LOOP1(B)
//@ head CovMat_cholDec 3
CVP_ROW_HEAD1(B)
//@ loop CovMat_cholDec 4
CVP_ROW_LOOP2(B)
//@ tail CovMat_cholDec 3
CVP_ROW_TAIL1
//@ pre CovMat_cholDec 5
CVP_ROW_AFTER1
const Index gv_kk = k;
//@ loop CovMat_cholDec 5
CVP_ROW_LOOP3(B)
//@ head CovMat_cholDec 5
CVP_ROW_HEAD3(B)
//@ post CovMat_cholDec 5
CVP_ROW_EXIT(B)
//@ end

/* ------------------------------------------------------------------------------------------------------------------
   CovMat_cholDec_row: one pass of the row loop of CovMat::cholDec (block extraction, see OUTLINING above).
   On entry B points to the diagonal element of `row`.  Either the pivot is refused (NonPositiveDefinite, nothing
   written) or rows row .. row+k are updated and B points to the diagonal element of row+1.
     R1  only NonPositiveDefinite can be raised, and it is raised  <=>  the pivot is <= Tol;
     R2  normal return ==> the pivot left in the diagonal position is > Tol  (a number greater than the tolerance);
     R3  normal return ==> B has advanced to row+1;
     R4  the diagonal positions of rows <= row are not written (ghost index gv_k0), so pivots accepted earlier stay.   */
//@ contract CovMat_cholDec_row
__CPROVER_requires(CVP_WF_COV(self) && N == self->base.row_ && W == self->band_ && 1 <= row && row <= N)
__CPROVER_requires(gv_exc == 0)
__CPROVER_requires(__CPROVER_rw_ok(B__p, sizeof(Float *)) && !SAME(B__p, self) && !SAME(B__p, REP(self)))
__CPROVER_requires(SAME(*B__p, REP(self)) && OFF(*B__p) == OFF(REP(self)) + FSZ * TAB(row))
__CPROVER_assigns(gv_exc, *B__p, __CPROVER_object_whole(REP(self)))
__CPROVER_ensures(gv_exc == 0 || gv_exc == GV_NonPositiveDefinite)
/* from the property, not from the comparison the code happens to use: a pivot is ACCEPTED iff it is greater than the
   tolerance -- a pivot (or tolerance) that is not a number is not */
__CPROVER_ensures((gv_exc == GV_NonPositiveDefinite) == !(__CPROVER_old(REP(self)[TAB(row)]) > Tol))
__CPROVER_ensures(gv_exc == GV_NonPositiveDefinite ==> MV_SAMEVAL(REP(self)[TAB(row)], __CPROVER_old(REP(self)[TAB(row)])))
__CPROVER_ensures(gv_exc == 0 ==> REP(self)[TAB(row)] > Tol)
__CPROVER_ensures(gv_exc == 0 ==> (SAME(*B__p, REP(self)) && OFF(*B__p) == OFF(REP(self)) + FSZ * TAB(row + 1)))
__CPROVER_ensures((1 <= gv_k0 && gv_k0 < row) ==> MV_SAMEVAL(REP(self)[TAB(gv_k0)], __CPROVER_old(REP(self)[TAB(gv_k0)])))
//@ entry CovMat_cholDec_row
GV_CANARY("CovMat_cholDec_row entry");
Float *p;                 /* the row loop's working variables (declared at the top of cholDec; each is assigned before */
Index k, l, n;            /* it is read in a pass -- were one not, its value here is arbitrary and the proof covers it) */
Float pivot, q;
CVP_ROW_ENTRY((*B__p))
//@ loop CovMat_cholDec_row 1
CVP_ROW_LOOP1((*B__p))
//@ head CovMat_cholDec_row 1
CVP_ROW_HEAD1((*B__p))
//@ at CovMat_cholDec_row elim_begin
#ifdef CVP_OUTLINE
CovMat_cholDec_elim(self, (*B__p), &p, N, W, row, k, n, pivot);
#else
//@ at CovMat_cholDec_row elim_end
#endif
//@ loop CovMat_cholDec_row 2
CVP_ROW_LOOP2((*B__p))
//@ tail CovMat_cholDec_row 1
CVP_ROW_TAIL1
//@ pre CovMat_cholDec_row 3
CVP_ROW_AFTER1
const Index gv_kk = k;
//@ loop CovMat_cholDec_row 3
CVP_ROW_LOOP3((*B__p))
//@ head CovMat_cholDec_row 3
CVP_ROW_HEAD3((*B__p))
//@ post CovMat_cholDec_row 3
CVP_ROW_EXIT((*B__p))
//@ end

/* ------------------------------------------------------------------------------------------------------------------
   CovMat_cholDec_elim: one pass of the loop `for (n=1; n<=k; n++)` inside the row pass (second level of OUTLINING: the
   body of that loop is extracted as a block, header "for (n=1; n<=k; n++)", and cut out of CovMat_cholDec_row between
   the injection points elim_begin / elim_end under -DCVP_OUTLINE).  Row row+n is updated with the multiple q of row
   `row`; p + n is the diagonal element of row+n on entry and p + (n+1) that of row+n+1 on exit.  Working variables q, l
   become locals; p is passed by reference; B, k, n, pivot are only read.                                            */
//@ contract CovMat_cholDec_elim
__CPROVER_requires(CVP_WF_COV(self) && N == self->base.row_ && W == self->band_ && 1 <= row && row <= N)
__CPROVER_requires(k == CVP_STDMIN(W, N - row) && 1 <= n && n <= k)
__CPROVER_requires(SAME(B, REP(self)) && OFF(B) == OFF(REP(self)) + FSZ * TAB(row))
__CPROVER_requires(__CPROVER_rw_ok(p__p, sizeof(Float *)) && !SAME(p__p, self) && !SAME(p__p, REP(self)))
__CPROVER_requires(SAME(*p__p, REP(self)) && OFF(*p__p) + FSZ * n == OFF(REP(self)) + FSZ * TAB(row + n) &&
                   OFF(*p__p) >= OFF(B) + FSZ * k)
__CPROVER_assigns(*p__p, __CPROVER_object_whole(REP(self)))
__CPROVER_ensures(SAME(*p__p, REP(self)) && OFF(*p__p) + FSZ * (n + 1) == OFF(REP(self)) + FSZ * TAB(row + n + 1) &&
                  OFF(*p__p) >= OFF(B) + FSZ * k)
__CPROVER_ensures(MV_SAMEVAL(REP(self)[TAB(row)], __CPROVER_old(REP(self)[TAB(row)])))
__CPROVER_ensures((1 <= gv_k0 && gv_k0 < row) ==> MV_SAMEVAL(REP(self)[TAB(gv_k0)], __CPROVER_old(REP(self)[TAB(gv_k0)])))
//@ entry CovMat_cholDec_elim
GV_CANARY("CovMat_cholDec_elim entry");
Float q;                  /* working variables of the pass (declared at the top of cholDec, assigned before they are read) */
Index l;
CVP_USE_STEP(N, W, row);
CVP_USE_STEP(N, W, row + n);
if (1 <= gv_k0 && gv_k0 <= row) CVP_USE_MONO(N, W, gv_k0, row);
const Float gv_v0 = (1 <= gv_k0 && gv_k0 < row) ? REP(self)[TAB(gv_k0)] : 0;
const Float gv_p0 = REP(self)[TAB(row)];
Index gv_cols = 0;        /* ghost: elements of row+n updated */
GV_ANCHOR((*p__p), REP(self) + (TAB(row + n) - n));
//@ loop CovMat_cholDec_elim 1
__CPROVER_assigns(l, gv_cols, __CPROVER_object_whole(REP(self)))
__CPROVER_loop_invariant(n <= l && l <= k + 1 && gv_cols == l - n &&
                         ((1 <= gv_k0 && gv_k0 < row) ==> MV_SAMEVAL(REP(self)[TAB(gv_k0)], gv_v0)) &&
                         MV_SAMEVAL(REP(self)[TAB(row)], gv_p0))
__CPROVER_decreases((long)k + 1 - l)
//@ tail CovMat_cholDec_elim 1
gv_cols = gv_cols + 1;
//@ at CovMat_cholDec_elim after_cols
__CPROVER_assert(gv_cols == k - n + 1, "every element (row+n, row+n .. row+k) inside the band has been updated");
//@ end

/* ------------------------------------------------------------------------------------------------------------------
   CovMat::solve(rhs)  (forward substitution, division by D, backward substitution with the factor left by cholDec)

   (a) every element of the factor is read through operator() / operator[] with indices in 1..dim and, for the
       pointer walk `*m++` of the backward pass, inside row i; every element of rhs is accessed with an index in
       1..rhs.dim(); nothing but the elements of rhs is assigned (frame: the matrix is not written).
   (b) C15: "non-conforming operands raise an exception instead of reading outside the operands":
       rhs.dim() != dim()  ==>  BadRank;   rhs.dim() == dim()  ==>  no exception.
   (c) decreases clauses on the five loops.
   operator[] / operator() are the stubs CVP_row_c / CVP_at_c (their table contracts applied as bodies, proved against
   the real accessors in covmat_row*_tab / covmat_at*_tab); Vec::operator() is the extracted body, inlined.                                                                                           */
//@ contract CovMat_solve
__CPROVER_requires(CVP_WF_COV(self) && CVP_RHS_OK(self, rhs) && gv_exc == 0)
__CPROVER_assigns(gv_exc, __CPROVER_object_whole(rhs->mem.rep))
__CPROVER_ensures(rhs->mem.sz != self->base.row_ ==> gv_exc == GV_BadRank)
__CPROVER_ensures(rhs->mem.sz == self->base.row_ ==> gv_exc == 0)
//@ entry CovMat_solve
GV_CANARY("CovMat_solve entry");
const Index gv_dim = self->base.row_;
//@ loop CovMat_solve 1
__CPROVER_assigns(i, j, s, __CPROVER_object_whole(rhs->mem.rep))
__CPROVER_loop_invariant(2 <= i && i <= GV_MAX(gv_dim, 1) + 1)
__CPROVER_decreases((long)gv_dim + 1 - i)
//@ loop CovMat_solve 2
__CPROVER_assigns(j, s)
__CPROVER_loop_invariant(1 <= j && j <= i)
__CPROVER_decreases((long)i - j)
//@ loop CovMat_solve 3
__CPROVER_assigns(i, __CPROVER_object_whole(rhs->mem.rep))
__CPROVER_loop_invariant(1 <= i && i <= gv_dim + 1)
__CPROVER_decreases((long)gv_dim + 1 - i)
//@ head CovMat_solve 3
CVP_USE_STEP(gv_dim, self->band_, i);
//@ loop CovMat_solve 4
__CPROVER_assigns(i, k, m, s, __CPROVER_object_whole(rhs->mem.rep))
__CPROVER_loop_invariant(-1 <= i && i <= gv_dim - 1)
__CPROVER_decreases((long)i)
//@ head CovMat_solve 4
CVP_USE_STEP(gv_dim, self->band_, i);
//@ loop CovMat_solve 5
__CPROVER_assigns(k, m, s)
__CPROVER_loop_invariant(i + 1 <= k && k <= GV_MIN(i + self->band_, gv_dim) + 1 && SAME(m, REP(self)) &&
                         OFF(m) == OFF(REP(self)) + FSZ * (TAB(i) + (k - i)))
__CPROVER_decreases((long)GV_MIN(i + self->band_, gv_dim) + 1 - k)
//@ head CovMat_solve 5
GV_ANCHOR(m, REP(self) + (TAB(i) + (k - i)));
//@ end

/* ------------------------------------------------------------------------------------------------------------------
   SymMat::cholDec  (in-situ rank-revealing Cholesky A = L L' of the packed lower triangle; used by AdjCholDec)

   (a) every access a[k] (a = begin() - 1, 1-based) stays inside the packed buffer of n(n+1)/2 elements; nothing but the
       buffer, idf_ and the exception state is assigned.
   (b) the only exception is BadRank, raised iff a pivot x passes the rank test x > diag*tol and is negative (witness row
       gv_wi); on normal return idf_ is the number of pivots the rank test zeroed (ghost counter gv_zeros, 0 <= idf_ <= n)
       and EVERY diagonal element (ghost index gv_k0) is a number >= 0: an exact zero where the rank test failed, the
       square root of a non-negative pivot otherwise.
   (c) decreases clauses on the three loops.
   Index bookkeeping of the code: ip = TRI(i) + j - 1 (element (i,j) is a[ip+1]), ir = TRI(j) + (k - iq) walks row j.   */
//@ contract SymMat_cholDec
__CPROVER_requires(CVP_WF_SYM(self) && gv_exc == 0)
__CPROVER_assigns(gv_exc, gv_zeros, gv_wi, gv_wx, self->idf_, __CPROVER_object_whole(REP(self)))
__CPROVER_ensures(gv_exc == 0 || gv_exc == GV_BadRank)
__CPROVER_ensures(gv_exc == GV_BadRank ==> (1 <= gv_wi && gv_wi <= self->dim_ && gv_wx < 0))
__CPROVER_ensures(gv_exc == 0 ==> (self->idf_ == gv_zeros && 0 <= self->idf_ && self->idf_ <= self->dim_))
__CPROVER_ensures((gv_exc == 0 && 1 <= gv_k0 && gv_k0 <= self->dim_) ==> REP(self)[TRI(gv_k0 + 1) - 1] >= 0)
//@ entry SymMat_cholDec
GV_CANARY("SymMat_cholDec entry");
gv_zeros = 0;
//@ pre SymMat_cholDec 1
CVP_USE_TRI_FIRST(n);
if (n >= 1) CVP_USE_TRI_END(n);
//@ loop SymMat_cholDec 1
__CPROVER_assigns(i, j, k, ip, iq, ir, x, diag, gv_exc, gv_zeros, gv_wi, gv_wx, self->idf_, __CPROVER_object_whole(REP(self)))
__CPROVER_loop_invariant(1 <= i && i <= n + 1 && ip == TRI(i) && gv_exc == 0 && self->idf_ == gv_zeros &&
                         0 <= gv_zeros && gv_zeros <= i - 1 && 0 <= TRI(i) && TRI(i) <= TRI(n + 1) &&
                         ((1 <= gv_k0 && gv_k0 < i) ==>
                          (1 <= TRI(gv_k0 + 1) && TRI(gv_k0 + 1) <= TRI(i) && REP(self)[TRI(gv_k0 + 1) - 1] >= 0)))
__CPROVER_decreases((long)n + 1 - i)
//@ head SymMat_cholDec 1
CVP_USE_TRI_STEP(n, i);
//@ loop SymMat_cholDec 2
__CPROVER_assigns(j, k, ip, ir, x, diag, gv_exc, gv_zeros, gv_wi, gv_wx, self->idf_, __CPROVER_object_whole(REP(self)))
__CPROVER_loop_invariant(1 <= j && j <= i + 1 && ip == TRI(i) + (j - 1) && ir == TRI(j) && gv_exc == 0 &&
                         self->idf_ == gv_zeros && 0 <= gv_zeros && gv_zeros <= (i - 1) + (j > i ? 1 : 0) &&
                         ((1 <= gv_k0 && gv_k0 < i) ==> REP(self)[TRI(gv_k0 + 1) - 1] >= 0) &&
                         ((gv_k0 == i && j > i) ==> REP(self)[TRI(i + 1) - 1] >= 0))
__CPROVER_decreases((long)i + 1 - j)
//@ head SymMat_cholDec 2
CVP_USE_TRI_STEP(n, j);
if (j < i) CVP_USE_TRI_MONO(n, j + 1, i);
const Float gv_snap = (0 <= gv_pos && gv_pos < self->base.mem.sz) ? REP(self)[gv_pos] : 0;
const long gv_elem = TRI(i) + (j - 1);   /* offset of element (i,j) */
//@ tail SymMat_cholDec 2
__CPROVER_assert((0 <= gv_pos && gv_pos < self->base.mem.sz && gv_pos != gv_elem) ==> MV_SAMEVAL(REP(self)[gv_pos], gv_snap),
                 "the pass for (i,j) writes element (i,j) of the packed triangle and no other");
//@ loop SymMat_cholDec 3
__CPROVER_assigns(k, ir, x)
__CPROVER_loop_invariant(iq <= k && k <= ip + 1 && ir == TRI(j) + (k - iq))
__CPROVER_decreases((long)ip + 1 - k)
//@ at SymMat_cholDec rank_zero
gv_zeros = gv_zeros + 1;
//@ at SymMat_cholDec rank_passed
gv_wi = i;          /* placed in front of the statement `if (x < 0) throw ...` (inside the braces of the rank-test branch) */
gv_wx = x;
//@ end

/* ------------------------------------------------------------------------------------------------------------------
   SymMat::solve(rhs)  (forward and backward substitution with the factor left by SymMat::cholDec)
   Same obligations as CovMat::solve: (a) the walk `*a++` of the forward pass and the direct index a[j(j-1)/2+i-1] of
   the backward pass stay inside the packed buffer (lemma tri_op: TRI(j) is the product the code computes), b stays
   inside rhs, only rhs is assigned; (b) C15: rhs.dim() != dim() ==> BadRank; (c) decreases on the four loops.      */
//@ contract SymMat_solve
__CPROVER_requires(CVP_WF_SYM(self) && CVP_RHS_OK(self, rhs) && gv_exc == 0)
__CPROVER_assigns(gv_exc, __CPROVER_object_whole(rhs->mem.rep))
__CPROVER_ensures(rhs->mem.sz != self->dim_ ==> gv_exc == GV_BadRank)
__CPROVER_ensures(rhs->mem.sz == self->dim_ ==> gv_exc == 0)
//@ entry SymMat_solve
GV_CANARY("SymMat_solve entry");
Float *const gv_r0 = rhs->mem.rep;
//@ pre SymMat_solve 1
CVP_USE_TRI_FIRST(N);
//@ loop SymMat_solve 1
__CPROVER_assigns(i, j, a, b, sum, __CPROVER_object_whole(gv_r0))
__CPROVER_loop_invariant(1 <= i && i <= N + 1 && SAME(a, REP(self)) && OFF(a) == OFF(REP(self)) + FSZ * TRI(i))
__CPROVER_decreases((long)N + 1 - i)
//@ head SymMat_solve 1
GV_ANCHOR(a, REP(self) + TRI(i));
CVP_USE_TRI_STEP(N, i);
//@ loop SymMat_solve 2
__CPROVER_assigns(j, a, b, sum)
__CPROVER_loop_invariant(1 <= j && j <= i && SAME(a, REP(self)) && OFF(a) == OFF(REP(self)) + FSZ * (TRI(i) + (j - 1)) &&
                         SAME(b, gv_r0) && OFF(b) == OFF(gv_r0) + FSZ * ((long)j - 1))
__CPROVER_decreases((long)i - j)
//@ head SymMat_solve 2
GV_ANCHOR(a, REP(self) + (TRI(i) + (j - 1)));
GV_ANCHOR(b, gv_r0 + (j - 1));
//@ at SymMat_solve fwd_diag
GV_ANCHOR(a, REP(self) + (TRI(i) + (i - 1)));
GV_ANCHOR(b, gv_r0 + (i - 1));
//@ loop SymMat_solve 3
__CPROVER_assigns(i, j, b, sum, __CPROVER_object_whole(gv_r0))
__CPROVER_loop_invariant(0 <= i && i <= N)
__CPROVER_decreases((long)i)
//@ loop SymMat_solve 4
__CPROVER_assigns(j, b, sum)
__CPROVER_loop_invariant(i <= j && j <= N && SAME(b, gv_r0) && OFF(b) == OFF(gv_r0) + FSZ * (long)j)
__CPROVER_decreases((long)j - i)
//@ head SymMat_solve 4
GV_ANCHOR(b, gv_r0 + j);
CVP_USE_TRI_OP(N, j);
CVP_USE_TRI_STEP(N, j);
//@ at SymMat_solve bwd_diag
GV_ANCHOR(b, gv_r0 + i);
CVP_USE_TRI_OP(N, i);
CVP_USE_TRI_STEP(N, i);
//@ end

//@ harness
void h_covmat_cholDec(void)
{
  struct CovMat A;
  mk_cov(&A);
  Index k0;
  gv_k0 = k0;
  gv_exc = 0;
  Index w_dim = A.base.row_, w_band = A.band_;           /* witness variables for the replay */
  CovMat_cholDec(&A);
  GV_CANARY("h_covmat_cholDec end");
}

void h_covmat_cholDec_row(void)
{
  struct CovMat A;
  mk_cov(&A);
  Index row, k0;
  Float Tol;
  __CPROVER_assume(1 <= row && row <= A.base.row_);
  gv_k0 = k0;
  gv_exc = 0;
  Float *B = REP(&A) + TAB(row);
  Index w_dim = A.base.row_, w_band = A.band_, w_row = row;
  Float w_tol = Tol;
  CovMat_cholDec_row(&A, &B, A.base.row_, A.band_, row, Tol);
  GV_CANARY("h_covmat_cholDec_row end");
}

void h_covmat_cholDec_elim(void)
{
  struct CovMat A;
  mk_cov(&A);
  Index row, k0, k, n;
  Float pivot;
  __CPROVER_assume(1 <= row && row <= A.base.row_);
  __CPROVER_assume(k == CVP_STDMIN(A.band_, A.base.row_ - row) && 1 <= n && n <= k);
  gv_k0 = k0;
  gv_exc = 0;
  Float *B = REP(&A) + TAB(row);
  Float *p = REP(&A) + (TAB(row + n) - n);
  __CPROVER_assume(TAB(row + n) - n >= TAB(row) + k);     /* the caller's loop invariant: OFF(p) >= OFF(B) + FSZ*k */
  CovMat_cholDec_elim(&A, B, &p, A.base.row_, A.band_, row, k, n, pivot);
  GV_CANARY("h_covmat_cholDec_elim end");
}

/* harness helper: an arbitrary vector of arbitrary dimension (allocated into a local first, see mk_cov) */
static void mk_vec(struct Vec *v)
{
  Index n;
  __CPROVER_assume(0 <= n && n <= CVP_MAXD);
  v->mem.sz = n;
  Float *m = malloc((size_t)n * sizeof(Float));
  __CPROVER_assume(m != NULL);
  v->mem.rep = m;
}

void h_covmat_row(void)
{
  struct CovMat A;
  mk_cov(&A);
  Index row;
  __CPROVER_assume(1 <= row && row <= A.base.row_);
#if CVP_CONST
  const Float *p = CovMat_row_const(&A, row);
#else
  Float *p = CovMat_row(&A, row);
#endif
  GV_CANARY("h_covmat_row end");
}

void h_covmat_at(void)
{
  struct CovMat A;
  mk_cov(&A);
  Index r, s;
  __CPROVER_assume(1 <= r && r <= A.base.row_ && 1 <= s && s <= A.base.row_);
  gv_exc = 0;
#if CVP_CONST
  Float v = CovMat_at_const(&A, r, s);
#else
  Float *p = CovMat_at(&A, r, s);
#endif
  GV_CANARY("h_covmat_at end");
}

void h_covmat_solve(void)
{
  struct CovMat A;
  struct Vec x;
  mk_cov(&A);
  mk_vec(&x);
#if CVP_CONFORMING
  __CPROVER_assume(x.mem.sz == A.base.row_);           /* check covmat_solve: conforming operands */
#endif
  CVP_EXCL_CONFORMING(&A, &x);                           /* check covmat_solve_anydim: empty unless the exclusion pass */
  gv_exc = 0;
  Index w_dim = A.base.row_, w_band = A.band_, w_rhsdim = x.mem.sz;
  CovMat_solve(&A, &x);
  GV_CANARY("h_covmat_solve end");
}

void h_symmat_cholDec(void)
{
  struct SymMat A;
  mk_sym(&A);
  Float tol;
  A.tol_ = tol;
  Index k0;
  long pos;
  gv_k0 = k0;
  gv_pos = pos;
  gv_exc = 0;
  Index w_dim = A.dim_;
  SymMat_cholDec(&A);
  GV_CANARY("h_symmat_cholDec end");
}

void h_symmat_solve(void)
{
  struct SymMat A;
  struct Vec x;
  mk_sym(&A);
  mk_vec(&x);
#if CVP_CONFORMING
  __CPROVER_assume(x.mem.sz == A.dim_);
#endif
  CVP_EXCL_CONFORMING_SYM(&A, &x);
  gv_exc = 0;
  Index w_dim = A.dim_, w_rhsdim = x.mem.sz;
  SymMat_solve(&A, &x);
  GV_CANARY("h_symmat_solve end");
}
//@ end
