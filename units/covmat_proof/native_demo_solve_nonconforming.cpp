// native demonstration against the real headers (g++ -fsanitize=address): CovMat::solve(rhs) and SymMat::solve(rhs) do not
// compare rhs.dim() with dim(); a shorter right-hand side is read and written beyond its buffer.
// Property C15: "non-conforming operands raise an exception instead of reading outside the operands".
#include <matvec/covmat.h>
#include <matvec/symmat.h>
#include <cstdio>
#include <cstring>
using namespace GNU_gama;
int main(int argc, char** argv)
{
  const bool sym = argc > 1 && !std::strcmp(argv[1], "symmat");
  Vec<> v(1);
  v(1) = 1;
  try {
    if (sym) {
      SymMat<> S(3);
      S(1,1) = 4; S(2,1) = 1; S(2,2) = 4; S(3,1) = 0; S(3,2) = 1; S(3,3) = 4;
      S.cholDec();
      S.solve(v);                       // dim 3, rhs dim 1
    } else {
      CovMat<> C(3,1);
      C(1,1) = 4; C(1,2) = 1; C(2,2) = 4; C(2,3) = 1; C(3,3) = 4;
      C.cholDec();
      C.solve(v);                       // dim 3, rhs dim 1
    }
    std::printf("no exception raised; v.dim() = %d\n", v.dim());
  } catch (const Exception::matvec& e) {
    std::printf("exception %d: %s\n", e.error(), e.what());
    return 0;
  }
  return 1;
}
