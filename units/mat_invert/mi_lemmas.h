/* Nonlinear integer facts used by unit mat_invert.  Each is the contract of a body-less function: in the CBMC checks the
   call is replaced by the contract (precondition ASSERTED, conclusion assumed); lemmas.py proves every ensures clause
   from the requires clauses with z3 over mathematical integers (check "lemmas").  GV_MACHINE_BOUND(..) is the stated
   dimension bound that makes machine arithmetic equal mathematical arithmetic (overflow obligations of CBMC on these
   very expressions); z3 does not use it. */
#ifndef MI_LEMMAS_H
#define MI_LEMMAS_H
#pragma CPROVER check push
#pragma CPROVER check enable "signed-overflow"
/* Mat::entry(i,j), 0-based row-major: the offset i*cols + j lies inside the rows*cols elements */
void mi_lemma_entry_bounds(int rows, int cols, int i, int j)
__CPROVER_requires(GV_MACHINE_BOUND(rows <= 32768 && cols <= 32768))
__CPROVER_requires(0 <= i && i < rows && 0 <= j && j < cols)
__CPROVER_assigns()
__CPROVER_ensures(0 <= i * cols + j && i * cols + j < rows * cols);
#pragma CPROVER check pop
#endif
