/* Nonlinear integer facts used by unit mat_invert, and the OPAQUE TABLE that keeps them out of the CBMC checks
   (idiom of units/covmat_proof/cvp_spec.h and units/gkf_covmat/gkc_spec.h).

   Mat::entry(i,j) addresses pentry + i*cols + j.  In the CBMC checks the row start i |-> i*cols of the ONE matrix of the
   call (cols == mi_tab_cols) is the opaque table mi_rowoff[] (an extern array of unbounded size defined nowhere: CBMC's
   array theory gives functional consistency only, i.e. an uninterpreted function int -> int), so every contract and
   invariant that names an element does so as  REP + mi_rowoff[i] + j  and no check but `entry` ever sees the product
   (measured: the in-bounds obligation of pentry + i*col_ + j, 231 s on MiniSat for ONE access; two elements "are the same
   one if their indices are equal" needs the equality of two 32-bit multiplier circuits).  The table is tied to the real
   index expression once, in check `entry`, by the lemma below; lemmas.py (cpp on this header WITHOUT -DMI_OPAQUE, so
   that MI_ROWOFF expands to the closed form i*cols) proves with z3 over mathematical integers that the closed form is
   such a table.  GV_MACHINE_BOUND(..) is the stated dimension bound that makes machine arithmetic equal mathematical
   arithmetic (CBMC overflow obligations on these very expressions); z3 does not use it. */
#ifndef MI_LEMMAS_H
#define MI_LEMMAS_H
#ifndef GV_MACHINE_BOUND
#define GV_MACHINE_BOUND(x) (x)
#endif
#ifdef MI_OPAQUE
extern int mi_rowoff[__CPROVER_constant_infinity_uint];
extern int mi_tab_cols;
#define MI_TAB_FOR(cols) ((cols) == mi_tab_cols)
#define MI_ROWOFF(cols, i) (mi_rowoff[i])
#else
#define MI_TAB_FOR(cols) (0 == 0)
#define MI_ROWOFF(cols, i) ((i) * (cols))
#endif
#pragma CPROVER check push
#pragma CPROVER check enable "signed-overflow"
/* row-major, 0-based: row i starts at i*cols, and the offset i*cols + j lies inside the rows*cols elements */
void mi_lemma_entry_bounds(int rows, int cols, int i, int j)
__CPROVER_requires(GV_MACHINE_BOUND(rows <= 32768 && cols <= 32768))
__CPROVER_requires(0 <= i && i < rows && 0 <= j && j < cols && MI_TAB_FOR(cols))
__CPROVER_assigns()
__CPROVER_ensures(MI_ROWOFF(cols, i) == i * cols)
__CPROVER_ensures(0 <= i * cols && 0 <= i * cols + j && i * cols + j < rows * cols);
#pragma CPROVER check pop
#endif
