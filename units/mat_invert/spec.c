/* C15: Mat<Float,Index,Exc>::invert()  (lib/matvec/mat.h) -- Gauss-Jordan elimination with FULL pivoting on the matrix
   itself, row/column bookkeeping in two index vectors (indr, indc), and an in-place undo of the two permutations by
   cycle following (perm / inv_perm).  The body is extracted from /repo on every run; element access goes through the
   extracted private accessor Mat::entry(i,j) (0-based, pentry + i*col_ + j) and the extracted Array<Index> members.

   TIER A (proof, symbolic dimension N <= 2^15, a loop contract on each of the 14 loops):
     (a) memory safety of every access, frame: only the matrix buffer, pentry, the exception state (and the function's
         own local index vectors) are written; nothing at all when rows != cols (BadRank exactly then);
     (b) indr and indc stay PERMUTATIONS of 0..N-1 through every swap (ghost inverse arrays gv_GR, gv_GC kept in step:
         for an arbitrary value gv_k0  indr[GR[k0]] == k0, for an arbitrary position gv_j0  GR[indr[j0]] == j0);
         invr / invc are their inverses; perm = indr o invc (resp. indc o invr) and inv_perm are mutually inverse
         permutations, and during the cycle-following undo perm restricted to the not yet placed positions i..N-1 stays a
         permutation of i..N-1 with inv_perm its inverse (that is what makes the undo place every row/column once);
     (c) pivot selection: after the search the pivot is 0 (nothing larger than 0 found) or the element at
         (indr[p_row], indc[p_col]) with p_row, p_col >= step, and NO element of the remaining submatrix (arbitrary ghost
         element gv_gi, gv_gj) is larger in absolute value: full pivoting;
     (d) Singular is raised exactly when the largest remaining element is not greater than tol (ghost verdict gv_sing,
         evaluated on the program's own pivot), no other exception;
     (e) termination: decreases clause on every loop.
   The loop nest is too heavy for one dfcc run (measured: loops 1-4 alone 2.9 M variables / 15 M clauses, 180 s), so the
   function is proved BY PARTS: five blocks of the same text are extracted as functions of their own (block extraction)
       Mat_invert_step        body of `for (step...)`            check invert_step   (calls search_row, elim by contract)
       Mat_invert_search_row  body of `for (ii...)`              check invert_search_row
       Mat_invert_elim        body of `if (indr[row] != indr[step])`   check invert_elim
       Mat_invert_rowswap     body of `if (i != (r = perm[i]))`  check invert_rowswap
       Mat_invert_colswap     body of `if (j != (c = perm[j]))`  check invert_colswap
   and under -DMI_OUTLINE the preprocessor cuts the same text out of the enclosing function between two injection points
   pinned by the extractor and puts ONE CALL of the block function there, which dfcc replaces by the contract proved in
   the other check.  Without -DMI_OUTLINE the generated Mat_invert is the whole function: that is what the bounded
   checks execute.
   STATUS OF THE COMPOSITION: the contract, loop contracts and harness (h_invert) of the ENCLOSING function Mat_invert
   (loops 1, 2, 8, 9, 10, 12, 13 with the three outlined calls) are written below, but its check is NOT registered: CBMC
   runs out of memory (24 GB) in the propositional reduction (38649 SSA steps; the array constraints of eight index vectors
   with nested index terms).  What is proved unbounded is therefore each block against its contract; that the blocks'
   preconditions hold where Mat_invert reaches them (in particular that perm / inv_perm are mutually inverse when the
   undo starts) is written down as loop invariants but not machine-checked.

   All universally quantified facts are used quantifier-free: proved for the harness-chosen arbitrary gv_k0 / gv_j0 and
   instantiated with GV_INST (index asserted in range) at the program's own indices, always at a point where the arrays
   have not been written since the fact was proved for the arbitrary index.

   TIER B (bounded, dimension <= 3 quick / 4 thorough), checks exact_*: the numerical identities inv(A) A = I and
   A inv(A) = I with `==`, on inputs for which every IEEE operation of the elimination is exact (see harness).       */

//@ prelude
#include "../matvec_index/matvec_spec.h"
#define MI_OPAQUE 1
#include "mi_lemmas.h"
int gv_exc;
struct IArray { Index *rep; Index sz; };   /* Array<Index,Index,Exc> : MemRep<Index,Index,Exc> */

Index gv_k0;   /* ghost: arbitrary VALUE 0..N-1 (forall-introduction) */
Index gv_j0;   /* ghost: arbitrary POSITION 0..N-1 */
Index gv_gi, gv_gj; /* ghost: arbitrary element of the remaining submatrix (positions in indr / indc) */
int gv_sing;   /* ghost: verdict "the largest remaining element is not greater than tol" of the last step */
Index gv_off;  /* ghost: offset of the element the last Mat::entry call addressed (see mi_at) */

/* specification text inside extracted bodies (loop contracts, ghost statements) is exempt from the automatic safety
   checks, like the function contracts (extract.py does that for those): only the repository's text generates them */
#define MI_SPEC_BEGIN _Pragma("CPROVER check push") _Pragma("CPROVER check disable \"pointer\"") _Pragma("CPROVER check disable \"bounds\"") \
  _Pragma("CPROVER check disable \"signed-overflow\"") _Pragma("CPROVER check disable \"conversion\"") \
  _Pragma("CPROVER check disable \"pointer-primitive\"") _Pragma("CPROVER check disable \"div-by-zero\"") \
  _Pragma("CPROVER check disable \"pointer-overflow\"")
#define MI_SPEC_END _Pragma("CPROVER check pop")
#define MI_ABS(x) ((x) >= 0 ? (x) : -(x))                 /* MatVecBase::Abs */
#define MI_BIGGER(a, b) (MI_ABS(a) > MI_ABS(b))            /* the comparison full pivoting is defined by */
#define REP(A) ((A)->base.mem.rep)
#define INR(x) (0 <= (x) && (x) < N)
#define ISZ ((long)sizeof(Index))

/* Element access of the blocks.  entry(i,j) of the repository text is lowered to *mi_at(self, i, j): the call of the
   extracted Mat_entry (replaced by its contract in every check but `entry`) followed by an ANCHOR of the returned pointer to
   REP(self) + gv_off, where the contract leaves in gv_off an offset in [0, sz).  The anchor asserts the equality before it
   re-assigns it, so it cannot hide anything; it is there because (measured) symbolic execution does not terminate on a
   WRITE through the pointer a replaced contract returns, and because the in-bounds obligation of `pentry + i*col_ + j`
   itself is nonlinear (one such obligation: 231 s on MiniSat), whereas that of REP + gv_off with 0 <= gv_off < sz is linear. */
Float *Mat_entry(struct Mat *self, Index i, Index j);
static inline Float *mi_at(struct Mat *self, Index i, Index j)
{
  Float *p = Mat_entry(self, i, j);
#ifndef MI_BOUNDED
  GV_ANCHOR(p, REP(self) + gv_off);
#endif
  return p;
}

/* array shorthands (locals of Mat_invert / by-value parameters of the blocks: the struct is copied, the buffer shared) */
#define aR indr.rep
#define aC indc.rep
#define aIR invr.rep
#define aIC invc.rep
#define aPM perm.rep
#define aIP inv_perm.rep

/* the matrix object as every block sees it */
#define MI_WF(self, N)                                                                               \
  (__CPROVER_rw_ok(self, sizeof(struct Mat)) && WF_MAT(self) && (self)->pentry == REP(self) &&       \
   (self)->base.row_ == (N) && (self)->base.col_ == (N) && (N) > 0 && !SAME(REP(self), self) && MI_TAB_FOR(N))
#define MI_IARR(a, N) ((a).sz == (N) && __CPROVER_rw_ok((a).rep, (size_t)(N) * sizeof(Index)) && OFF((a).rep) == 0)
#define MI_GARR(p, N) (__CPROVER_rw_ok(p, (size_t)(N) * sizeof(Index)) && OFF(p) == 0)
#define MI_DIFF3(a, b, c) (!SAME(a, b) && !SAME(a, c) && !SAME(b, c))
#define MI_DIFF_FROM(x, a, b, c) (!SAME(x, a) && !SAME(x, b) && !SAME(x, c))

/* (X, GX) are mutually inverse on 0..N-1: fact A at a value k, fact B at a position j */
#define MI_A(X, GX, k) (INR(GX[k]) && X[GX[k]] == (k))
#define MI_B(X, GX, j) (INR(X[j]) && GX[X[j]] == (j))
#define MI_PERMS                                                                                     \
  ((INR(gv_k0) ==> (MI_A(aR, gv_GR, gv_k0) && MI_A(aC, gv_GC, gv_k0))) &&                             \
   (INR(gv_j0) ==> (MI_B(aR, gv_GR, gv_j0) && MI_B(aC, gv_GC, gv_j0))))
#define MI_ID(x) (aR[x] == (x) && aC[x] == (x) && gv_GR[x] == (x) && gv_GC[x] == (x))
#define MI_PRANGE(PR, PC) (INR(PR) && INR(PC))
#define MI_SUB(a, b) (step <= (a) && (a) < N && step <= (b) && (b) < N)   /* inside the remaining submatrix */
/* element (r,c) of the matrix through the opaque row-start table (long: no int wrap-around in specification text) */
#define MI_ELOFF(r, c) ((long)mi_rowoff[r] + (c))
#define MI_EL_OK(r, c) (0 <= MI_ELOFF(r, c) && MI_ELOFF(r, c) < self->base.mem.sz)
#define MI_EL(r, c) (REP(self)[MI_ELOFF(r, c)])
/* every read is guarded by the range facts that make it a defined read: loop invariants are evaluated with the automatic
   safety checks ON (they are injected into the extracted body) */
#define MI_PIVF(PV, PR, PC)                                                                          \
  ((PV) == (PV) && ((PV) == 0 || (MI_SUB(PR, PC) && INR(aR[PR]) && INR(aC[PC]) && MI_EL_OK(aR[PR], aC[PC]) &&  \
                                   (PV) == MI_EL(aR[PR], aC[PC]))))
/* the ghost element as the search of this step sees it */
#define MI_GVAL_OK                                                                                   \
  (MI_SUB(gv_gi, gv_gj) ==> (INR(aR[gv_gi]) && INR(aC[gv_gj]) && MI_EL_OK(aR[gv_gi], aC[gv_gj]) &&    \
                             MV_SAMEVAL(gv_gval, MI_EL(aR[gv_gi], aC[gv_gj]))))

/* cycle-following undo: at loop position v the not yet placed positions / values v..N-1 */
#define MI_U(v, a, b)                                                                                \
  ((((v) <= (a) && (a) < N) ==> ((v) <= aPM[a] && aPM[a] < N && aIP[aPM[a]] == (a))) &&               \
   (((v) <= (b) && (b) < N) ==> ((v) <= aIP[b] && aIP[b] < N && aPM[aIP[b]] == (b))))
#define MI_UNDO_INV(v) (0 <= (v) && (v) <= N && MI_U(v, gv_j0, gv_k0))
/* loop contract of "perm[i] = X[IY[i]]; inv_perm[perm[i]] = i"  */
#define MI_PERM_INV(X, GX, Y)                                                                        \
  (0 <= i && i <= N &&                                                                               \
   ((0 <= gv_j0 && gv_j0 < i) ==> (INR(aPM[gv_j0]) && aIP[aPM[gv_j0]] == gv_j0)) &&                   \
   ((INR(gv_k0) && Y[GX[gv_k0]] < i) ==> (aPM[Y[GX[gv_k0]]] == gv_k0 && aIP[gv_k0] == Y[GX[gv_k0]])))

#ifndef MI_BOUNDED
/* ---- proof text (tier A); empty in the bounded checks so that no proof hint can prune a bounded path ------------ */
#define MI_GHOST_ARRAYS Index *gv_GR = GV_NEW(Index, N); Index *gv_GC = GV_NEW(Index, N);
#define MI_TAIL1 gv_GR[l] = l; gv_GC[l] = l;
/* before the search of a step: snapshot of the ghost element */
#define MI_PRE_SEARCH                                                                                \
  if (MI_SUB(gv_gi, gv_gj)) {                                                                        \
    GV_INST(INR(gv_gi), MI_B(aR, gv_GR, gv_gi));                                                     \
    GV_INST(INR(gv_gj), MI_B(aC, gv_GC, gv_gj));                                                     \
    gv_gval = *mi_at(self, aR[gv_gi], aC[gv_gj]);                                                \
  }
#define MI_HEAD_II GV_INST(INR(ii), MI_B(aR, gv_GR, ii));
#define MI_HEAD_JJ GV_INST(INR(jj), INR(aC[jj]));
#define MI_POST_SEARCH(PV, PR, PC)                                                                   \
  __CPROVER_assert(MI_PIVF(PV, PR, PC), "the pivot is 0 or the element (indr[p_row], indc[p_col]) of the remaining submatrix"); \
  __CPROVER_assert(MI_SUB(gv_gi, gv_gj) ==> !MI_BIGGER(gv_gval, PV),                                 \
                   "full pivoting: no element of the remaining submatrix is larger in absolute value than the pivot"); \
  gv_sing = (MI_ABS(PV) <= tol);
#define MI_BEFORE_SWAPS(PR, PC)                                                                      \
  __CPROVER_assert(!gv_sing, "a largest remaining element not greater than tol raises Singular");    \
  GV_INST(INR(step), MI_B(aR, gv_GR, step) && MI_B(aC, gv_GC, step));                                \
  GV_INST(INR(PR), MI_B(aR, gv_GR, PR));                                                             \
  GV_INST(INR(PC), MI_B(aC, gv_GC, PC));
#define MI_AFTER_SWAPS(PR, PC)                                                                       \
  gv_GR[aR[step]] = step; gv_GR[aR[PR]] = PR;                                                        \
  gv_GC[aC[step]] = step; gv_GC[aC[PC]] = PC;                                                        \
  __CPROVER_assert(MI_PERMS, "indr and indc are permutations of 0..N-1 after the pivot swaps");      \
  GV_INST(INR(step), MI_B(aR, gv_GR, step) && MI_B(aC, gv_GC, step));
#define MI_HEAD_ROW GV_INST(INR(row), MI_B(aR, gv_GR, row));
/* invr / invc: the ghost inverses are what the code computes */
#define MI_HEAD_INV GV_INST(INR(i), MI_B(aR, gv_GR, i) && MI_B(aC, gv_GC, i));
#define MI_INV_DONE(k) (aIR[k] == gv_GR[k] && aIC[k] == gv_GC[k])
/* perm = X o IY, inv_perm its inverse  (rows: X = indr, Y = indc; columns: X = indc, Y = indr) */
#define MI_HEAD_PERM(X, GX, IY, Y, GY)                                                               \
  GV_INST(INR(i), MI_INV_DONE(i) && MI_A(Y, GY, i));                                                 \
  GV_INST(INR(IY[i]), MI_B(X, GX, IY[i]));                                                           \
  if (INR(gv_j0)) {                                                                                  \
    GV_INST(INR(gv_j0), MI_INV_DONE(gv_j0) && MI_A(Y, GY, gv_j0));                                   \
    GV_INST(INR(IY[gv_j0]), MI_B(X, GX, IY[gv_j0]));                                                 \
  }                                                                                                  \
  if (INR(gv_k0)) {                                                                                  \
    GV_INST(INR(GX[gv_k0]), MI_B(Y, GY, GX[gv_k0]));                                                 \
    GV_INST(INR(Y[GX[gv_k0]]), MI_INV_DONE(Y[GX[gv_k0]]));                                           \
  }
#define MI_PRE_UNDO(X, GX, Y, GY) if (INR(gv_k0)) { GV_INST(INR(GX[gv_k0]), MI_B(Y, GY, GX[gv_k0])); }
/* cycle following: instantiate the loop invariant (which holds for the arbitrary gv_j0, gv_k0) at j0 := k0 := v */
#define MI_HEAD_UNDO(v) GV_INST(INR(v), MI_U(v, v, v));
#else
#define MI_GHOST_ARRAYS Index *gv_GR = 0, *gv_GC = 0; /* named by the (unused) loop contracts only */
#define MI_TAIL1
#define MI_PRE_SEARCH
#define MI_HEAD_II
#define MI_HEAD_JJ
#define MI_POST_SEARCH(PV, PR, PC)
#define MI_BEFORE_SWAPS(PR, PC)
#define MI_AFTER_SWAPS(PR, PC)
#define MI_HEAD_ROW
#define MI_HEAD_INV
#define MI_HEAD_PERM(X, GX, IY, Y, GY)
#define MI_PRE_UNDO(X, GX, Y, GY)
#define MI_HEAD_UNDO(v)
#endif
//@ end

/* ---- small accessors -------------------------------------------------------------------------------------------- */
//@ contract MemRep_begin
MV_CONTRACT_MemRep_begin
//@ contract MatBase_rows
MV_CONTRACT_MatBase_rows
//@ contract MatBase_cols
MV_CONTRACT_MatBase_cols
//@ end

/* Mat::entry(i,j), 0-based: pentry + i*col_ + j lies inside the buffer (nonlinear bound: mi_lemma_entry_bounds, proved by z3) */
//@ contract Mat_entry
__CPROVER_requires(WF_MAT(self) && self->pentry == REP(self) && MI_TAB_FOR(self->base.col_))
__CPROVER_requires(0 <= i && i < self->base.row_ && 0 <= j && j < self->base.col_)
__CPROVER_assigns(gv_off)
__CPROVER_ensures(__CPROVER_return_value == REP(self) + gv_off && gv_off == (long)mi_rowoff[i] + j)
__CPROVER_ensures(0 <= gv_off && gv_off < self->base.mem.sz)
//@ entry Mat_entry
GV_CANARY("Mat_entry entry");
#ifndef MI_BOUNDED
GV_GHOST(mi_lemma_entry_bounds(self->base.row_, self->base.col_, i, j); gv_off = mi_rowoff[i] + j;) /* row-major, 0-based: mi_rowoff[i] is i*cols */
#endif
//@ end

/* ---- Mat::invert (enclosing function; the step body and the two swap blocks are outlined in the proof check) ------ */
//@ contract Mat_invert
__CPROVER_requires(WF_MAT(self) && __CPROVER_rw_ok(self, sizeof(struct Mat)) && gv_exc == 0)
__CPROVER_requires(!SAME(REP(self), self) && MI_TAB_FOR(self->base.col_))
__CPROVER_assigns(gv_off, gv_exc, gv_sing;
                  self->base.row_ == self->base.col_: self->pentry;
                  self->base.row_ == self->base.col_: __CPROVER_object_whole(REP(self)))
__CPROVER_ensures((self->base.row_ != self->base.col_) == (gv_exc == GV_BadRank))
__CPROVER_ensures(gv_exc == 0 || gv_exc == GV_BadRank || gv_exc == GV_Singular)
__CPROVER_ensures(self->base.row_ == self->base.col_ ==> ((gv_exc == GV_Singular) == (gv_sing != 0)))
//@ entry Mat_invert
GV_CANARY("Mat_invert entry");
gv_sing = 0;
//@ pre Mat_invert 1
MI_GHOST_ARRAYS
//@ loop Mat_invert 1
MI_SPEC_BEGIN
__CPROVER_assigns(l; N > 0: __CPROVER_object_whole(aR); N > 0: __CPROVER_object_whole(aC);
                  __CPROVER_object_whole(gv_GR), __CPROVER_object_whole(gv_GC))
__CPROVER_loop_invariant(0 <= l && l <= N && ((0 <= gv_k0 && gv_k0 < l) ==> MI_ID(gv_k0)) &&
                         ((0 <= gv_j0 && gv_j0 < l) ==> MI_ID(gv_j0)))
__CPROVER_decreases(N - l)
MI_SPEC_END
//@ tail Mat_invert 1
MI_TAIL1
//@ loop Mat_invert 2
MI_SPEC_BEGIN
__CPROVER_assigns(gv_off, step, p_row, p_col, gv_exc, gv_sing;
                  N > 0: __CPROVER_object_whole(aR); N > 0: __CPROVER_object_whole(aC);
                  __CPROVER_object_whole(gv_GR), __CPROVER_object_whole(gv_GC), __CPROVER_object_whole(REP(self)))
__CPROVER_loop_invariant(0 <= step && step <= N && gv_exc == 0 && gv_sing == 0 &&
                         (N > 0 ==> MI_PRANGE(p_row, p_col)) && MI_PERMS)
__CPROVER_decreases(N - step)
MI_SPEC_END
//@ at Mat_invert step_begin
#ifdef MI_OUTLINE
Mat_invert_step(self, N, step, tol, indr, indc, &p_row, &p_col, gv_GR, gv_GC);
if (gv_exc) return;
#else
//@ at Mat_invert step_end
#endif
//@ loop Mat_invert 8
MI_SPEC_BEGIN
__CPROVER_assigns(i; N > 0: __CPROVER_object_whole(aIR); N > 0: __CPROVER_object_whole(aIC))
__CPROVER_loop_invariant(0 <= i && i <= N &&
                         ((INR(gv_k0) && gv_GR[gv_k0] < i) ==> aIR[gv_k0] == gv_GR[gv_k0]) &&
                         ((INR(gv_k0) && gv_GC[gv_k0] < i) ==> aIC[gv_k0] == gv_GC[gv_k0]))
__CPROVER_decreases(N - i)
MI_SPEC_END
//@ head Mat_invert 8
MI_HEAD_INV
//@ loop Mat_invert 9
MI_SPEC_BEGIN
__CPROVER_assigns(i; N > 0: __CPROVER_object_whole(aPM); N > 0: __CPROVER_object_whole(aIP))
__CPROVER_loop_invariant(MI_PERM_INV(aR, gv_GR, aC))
__CPROVER_decreases(N - i)
MI_SPEC_END
//@ head Mat_invert 9
MI_HEAD_PERM(aR, gv_GR, aIC, aC, gv_GC)
//@ pre Mat_invert 10
MI_PRE_UNDO(aR, gv_GR, aC, gv_GC)
//@ loop Mat_invert 10
MI_SPEC_BEGIN
__CPROVER_assigns(gv_off, i, r; N > 0: __CPROVER_object_whole(aPM); N > 0: __CPROVER_object_whole(aIP);
                  __CPROVER_object_whole(REP(self)))
__CPROVER_loop_invariant(MI_UNDO_INV(i))
__CPROVER_decreases(N - i)
MI_SPEC_END
//@ head Mat_invert 10
MI_HEAD_UNDO(i)
//@ pre Mat_invert 11
#ifdef MI_OUTLINE
Mat_invert_rowswap(self, N, i, r, perm, inv_perm);
#else
//@ at Mat_invert rowswap_end
#endif
//@ loop Mat_invert 12
MI_SPEC_BEGIN
__CPROVER_assigns(i; N > 0: __CPROVER_object_whole(aPM); N > 0: __CPROVER_object_whole(aIP))
__CPROVER_loop_invariant(MI_PERM_INV(aC, gv_GC, aR))
__CPROVER_decreases(N - i)
MI_SPEC_END
//@ head Mat_invert 12
MI_HEAD_PERM(aC, gv_GC, aIR, aR, gv_GR)
//@ pre Mat_invert 13
MI_PRE_UNDO(aC, gv_GC, aR, gv_GR)
//@ loop Mat_invert 13
MI_SPEC_BEGIN
__CPROVER_assigns(gv_off, j, c; N > 0: __CPROVER_object_whole(aPM); N > 0: __CPROVER_object_whole(aIP);
                  __CPROVER_object_whole(REP(self)))
__CPROVER_loop_invariant(MI_UNDO_INV(j))
__CPROVER_decreases(N - j)
MI_SPEC_END
//@ head Mat_invert 13
MI_HEAD_UNDO(j)
//@ pre Mat_invert 14
#ifdef MI_OUTLINE
Mat_invert_colswap(self, N, j, c, perm, inv_perm);
#else
//@ at Mat_invert colswap_end
#endif
//@ end

/* ---- one elimination step: body of `for (step=0; step<N; step++)` ----------------------------------------------------
   indr, indc are permutations before and after (ghost inverses updated with the swaps); the pivot found is a largest
   element of the remaining submatrix; Singular exactly when it is not greater than tol, and then nothing more is done. */
//@ contract Mat_invert_step
__CPROVER_requires(MI_WF(self, N) && 0 <= step && step < N && gv_exc == 0 && gv_sing == 0)
__CPROVER_requires(MI_IARR(indr, N) && MI_IARR(indc, N) && MI_GARR(gv_GR, N) && MI_GARR(gv_GC, N))
__CPROVER_requires(__CPROVER_rw_ok(p_row__p, sizeof(Index)) && __CPROVER_rw_ok(p_col__p, sizeof(Index)) && !SAME(p_row__p, p_col__p))
__CPROVER_requires(MI_DIFF3(aR, aC, gv_GR) && MI_DIFF_FROM(gv_GC, aR, aC, gv_GR) && MI_DIFF_FROM(REP(self), aR, aC, gv_GR) &&
                   !SAME(REP(self), gv_GC) && MI_DIFF_FROM(self, aR, aC, gv_GR) && !SAME(self, gv_GC))
__CPROVER_requires(MI_DIFF_FROM(p_row__p, aR, aC, gv_GR) && MI_DIFF_FROM(p_row__p, gv_GC, REP(self), self) &&
                   MI_DIFF_FROM(p_col__p, aR, aC, gv_GR) && MI_DIFF_FROM(p_col__p, gv_GC, REP(self), self))
__CPROVER_requires(MI_PRANGE(*p_row__p, *p_col__p) && MI_PERMS)
__CPROVER_assigns(gv_off, *p_row__p, *p_col__p, gv_exc, gv_sing, __CPROVER_object_whole(aR), __CPROVER_object_whole(aC),
                  __CPROVER_object_whole(gv_GR), __CPROVER_object_whole(gv_GC), __CPROVER_object_whole(REP(self)))
__CPROVER_ensures(gv_exc == 0 || gv_exc == GV_Singular)
__CPROVER_ensures((gv_exc == GV_Singular) == (gv_sing != 0))
__CPROVER_ensures(gv_exc == 0 ==> (MI_PRANGE(*p_row__p, *p_col__p) && MI_PERMS))
//@ entry Mat_invert_step
GV_CANARY("Mat_invert_step entry");
Float pivot, invpivot, e;
Index ii, jj, i, j, row;
Float gv_gval = 0; /* ghost: the element (gv_gi, gv_gj) as the search of this step sees it */
//@ pre Mat_invert_step 1
MI_PRE_SEARCH
//@ loop Mat_invert_step 1
MI_SPEC_BEGIN
__CPROVER_assigns(gv_off, ii, pivot, *p_row__p, *p_col__p)
__CPROVER_loop_invariant(step <= ii && ii <= N && MI_PRANGE(*p_row__p, *p_col__p) && MI_PIVF(pivot, *p_row__p, *p_col__p) &&
                         ((MI_SUB(gv_gi, gv_gj) && gv_gi < ii) ==> !MI_BIGGER(gv_gval, pivot)))
__CPROVER_decreases(N - ii)
MI_SPEC_END
//@ head Mat_invert_step 1
MI_HEAD_II
//@ at Mat_invert_step srow_begin
#ifdef MI_OUTLINE
Mat_invert_search_row(self, N, step, ii, indr, indc, &pivot, p_row__p, p_col__p, gv_gval);
#else
//@ at Mat_invert_step srow_end
#endif
//@ post Mat_invert_step 1
MI_POST_SEARCH(pivot, *p_row__p, *p_col__p)
//@ at Mat_invert_step before_swaps
MI_BEFORE_SWAPS(*p_row__p, *p_col__p)
//@ at Mat_invert_step after_swaps
MI_AFTER_SWAPS(*p_row__p, *p_col__p)
//@ loop Mat_invert_step 3
MI_SPEC_BEGIN
__CPROVER_assigns(gv_off, j, __CPROVER_object_whole(REP(self)))
__CPROVER_loop_invariant(0 <= j && j <= N)
__CPROVER_decreases(N - j)
MI_SPEC_END
//@ loop Mat_invert_step 4
MI_SPEC_BEGIN
__CPROVER_assigns(gv_off, row, __CPROVER_object_whole(REP(self)))
__CPROVER_loop_invariant(0 <= row && row <= N)
__CPROVER_decreases(N - row)
MI_SPEC_END
//@ head Mat_invert_step 4
MI_HEAD_ROW
//@ at Mat_invert_step elim_begin
#ifdef MI_OUTLINE
Mat_invert_elim(self, N, step, row, indr, indc);
#else
//@ at Mat_invert_step elim_end
#endif
//@ end

/* ---- one row of the pivot search: body of `for (ii=step; ii<N; ii++)` ------------------------------------------------ */
//@ contract Mat_invert_search_row
__CPROVER_requires(MI_WF(self, N) && 0 <= step && step <= ii && ii < N && MI_IARR(indr, N) && MI_IARR(indc, N))
__CPROVER_requires(__CPROVER_rw_ok(pivot__p, sizeof(Float)) && __CPROVER_rw_ok(p_row__p, sizeof(Index)) && __CPROVER_rw_ok(p_col__p, sizeof(Index)))
__CPROVER_requires(MI_DIFF3(pivot__p, p_row__p, p_col__p) && MI_DIFF_FROM(aR, pivot__p, p_row__p, p_col__p) &&
                   MI_DIFF_FROM(aC, pivot__p, p_row__p, p_col__p) && MI_DIFF_FROM(REP(self), pivot__p, p_row__p, p_col__p) &&
                   MI_DIFF_FROM(self, pivot__p, p_row__p, p_col__p))
__CPROVER_requires(INR(aR[ii]) && (INR(gv_j0) ==> INR(aC[gv_j0])))
__CPROVER_requires(MI_PRANGE(*p_row__p, *p_col__p) && MI_PIVF(*pivot__p, *p_row__p, *p_col__p) && MI_GVAL_OK)
__CPROVER_requires((MI_SUB(gv_gi, gv_gj) && gv_gi < ii) ==> !MI_BIGGER(gv_gval, *pivot__p))
__CPROVER_assigns(gv_off, *pivot__p, *p_row__p, *p_col__p)
__CPROVER_ensures(MI_PRANGE(*p_row__p, *p_col__p) && MI_PIVF(*pivot__p, *p_row__p, *p_col__p))
__CPROVER_ensures((MI_SUB(gv_gi, gv_gj) && gv_gi < ii + 1) ==> !MI_BIGGER(gv_gval, *pivot__p))
//@ entry Mat_invert_search_row
GV_CANARY("Mat_invert_search_row entry");
Index i, jj;
Float e;
//@ loop Mat_invert_search_row 1
MI_SPEC_BEGIN
__CPROVER_assigns(gv_off, jj, e, *pivot__p, *p_row__p, *p_col__p)
__CPROVER_loop_invariant(step <= jj && jj <= N && MI_PRANGE(*p_row__p, *p_col__p) && MI_PIVF(*pivot__p, *p_row__p, *p_col__p) &&
                         ((MI_SUB(gv_gi, gv_gj) && (gv_gi < ii || (gv_gi == ii && gv_gj < jj))) ==> !MI_BIGGER(gv_gval, *pivot__p)))
__CPROVER_decreases(N - jj)
MI_SPEC_END
//@ head Mat_invert_search_row 1
MI_HEAD_JJ
//@ end

/* ---- elimination of one row: body of `if (indr[row] != indr[step])` -------------------------------------------------- */
//@ contract Mat_invert_elim
__CPROVER_requires(MI_WF(self, N) && 0 <= step && step < N && 0 <= row && row < N && MI_IARR(indr, N) && MI_IARR(indc, N))
__CPROVER_requires(MI_DIFF3(aR, aC, REP(self)) && MI_DIFF_FROM(self, aR, aC, REP(self)))
__CPROVER_requires(INR(aR[row]) && INR(aR[step]) && INR(aC[step]))
__CPROVER_assigns(gv_off, __CPROVER_object_whole(REP(self)))
//@ entry Mat_invert_elim
GV_CANARY("Mat_invert_elim entry");
Index i, j;
Float e;
//@ loop Mat_invert_elim 1
MI_SPEC_BEGIN
__CPROVER_assigns(gv_off, j, __CPROVER_object_whole(REP(self)))
__CPROVER_loop_invariant(0 <= j && j <= N)
__CPROVER_decreases(N - j)
MI_SPEC_END
//@ end

/* ---- undo, one cycle step: bodies of `if (i != (r = perm[i]))` and `if (j != (c = perm[j]))` -------------------------
   Before: perm maps the unplaced positions v..N-1 one-to-one onto v..N-1 and inv_perm is its inverse there (stated for the
   arbitrary position gv_j0 and value gv_k0, and at v itself).  After: the same for v+1..N-1. */
//@ contract Mat_invert_rowswap
__CPROVER_requires(MI_WF(self, N) && MI_IARR(perm, N) && MI_IARR(inv_perm, N))
__CPROVER_requires(MI_DIFF3(aPM, aIP, REP(self)) && MI_DIFF_FROM(self, aPM, aIP, REP(self)))
__CPROVER_requires(0 <= i && i < N && r == aPM[i] && r != i && MI_U(i, gv_j0, gv_k0) && MI_U(i, i, i))
__CPROVER_assigns(gv_off, __CPROVER_object_whole(aPM), __CPROVER_object_whole(aIP), __CPROVER_object_whole(REP(self)))
__CPROVER_ensures(MI_U(i + 1, gv_j0, gv_k0))
//@ entry Mat_invert_rowswap
GV_CANARY("Mat_invert_rowswap entry");
Index j;
Float e;
//@ loop Mat_invert_rowswap 1
MI_SPEC_BEGIN
__CPROVER_assigns(gv_off, j, e, __CPROVER_object_whole(REP(self)))
__CPROVER_loop_invariant(0 <= j && j <= N)
__CPROVER_decreases(N - j)
MI_SPEC_END
//@ contract Mat_invert_colswap
__CPROVER_requires(MI_WF(self, N) && MI_IARR(perm, N) && MI_IARR(inv_perm, N))
__CPROVER_requires(MI_DIFF3(aPM, aIP, REP(self)) && MI_DIFF_FROM(self, aPM, aIP, REP(self)))
__CPROVER_requires(0 <= j && j < N && c == aPM[j] && c != j && MI_U(j, gv_j0, gv_k0) && MI_U(j, j, j))
__CPROVER_assigns(gv_off, __CPROVER_object_whole(aPM), __CPROVER_object_whole(aIP), __CPROVER_object_whole(REP(self)))
__CPROVER_ensures(MI_U(j + 1, gv_j0, gv_k0))
//@ entry Mat_invert_colswap
GV_CANARY("Mat_invert_colswap entry");
Index i;
Float e;
//@ loop Mat_invert_colswap 1
MI_SPEC_BEGIN
__CPROVER_assigns(gv_off, i, e, __CPROVER_object_whole(REP(self)))
__CPROVER_loop_invariant(0 <= i && i <= N)
__CPROVER_decreases(N - i)
MI_SPEC_END
//@ end

//@ harness
/* an arbitrary Mat(r,c), r,c <= 2^15, arbitrary contents (NaN, infinities, zeros included) */
static void mk_mat(struct Mat *A, Index rows, Index cols)
{
  A->base.row_ = rows;
  A->base.col_ = cols;
  mi_tab_cols = cols; /* ghost: mi_rowoff[] names the row starts of THIS matrix */
  Index sz = rows * cols;
  A->base.mem.sz = sz;
  Float *m = malloc((size_t)sz * sizeof(Float));
  __CPROVER_assume(m != NULL);
  A->base.mem.rep = m;
}
/* an index vector of N arbitrary entries (the contract under proof says what is required of them) */
static struct IArray mk_iarr(Index N)
{
  struct IArray a;
  Index *m = malloc((size_t)N * sizeof(Index));
  __CPROVER_assume(m != NULL);
  a.rep = m;
  a.sz = N;
  return a;
}
static void mk_ghost_indices(void)
{
  Index k0, j0, gi, gj;
  gv_k0 = k0; gv_j0 = j0; gv_gi = gi; gv_gj = gj;
  gv_exc = 0;
  gv_sing = 0;
}

void h_entry(void)
{
  struct Mat A;
  Index rows, cols;
  __CPROVER_assume(0 <= rows && rows <= MAXD && 0 <= cols && cols <= MAXD);
  mk_mat(&A, rows, cols);
  A.pentry = A.base.mem.rep;
  Index i, j;
  __CPROVER_assume(0 <= i && i < A.base.row_ && 0 <= j && j < A.base.col_);
  Float *p = Mat_entry(&A, i, j);
  __CPROVER_assert(SAME(p, A.base.mem.rep) && 0 <= OFF(p) && OFF(p) < (long)A.base.mem.sz * FSZ && OFF(p) % FSZ == 0,
                   "entry(i,j) lies inside the buffer");
  GV_CANARY("h_entry end");
}

#ifdef MI_OUTLINE
void h_invert(void)
{
  struct Mat A;
  Index rows, cols;
  __CPROVER_assume(0 <= rows && rows <= MAXD && 0 <= cols && cols <= MAXD);
  mk_mat(&A, rows, cols);
  Float *anyp;
  A.pentry = anyp; /* arbitrary on entry: invert() sets it */
  Float tol;
  mk_ghost_indices();
  Mat_invert(&A, tol);
  GV_CANARY("h_invert end");
}

/* the blocks: every precondition of the block contract that is not a shape built here is left to the contract
   (dfcc assumes the requires clauses of the enforced function) */
void h_step(void)
{
  struct Mat A;
  Index N, step, p_row, p_col;
  __CPROVER_assume(0 < N && N <= MAXD);
  mk_mat(&A, N, N);
  A.pentry = A.base.mem.rep;
  struct IArray indr = mk_iarr(N), indc = mk_iarr(N), GR = mk_iarr(N), GC = mk_iarr(N);
  Float tol;
  mk_ghost_indices();
  Mat_invert_step(&A, N, step, tol, indr, indc, &p_row, &p_col, GR.rep, GC.rep);
  GV_CANARY("h_step end");
}

void h_search_row(void)
{
  struct Mat A;
  Index N, step, ii, p_row, p_col;
  __CPROVER_assume(0 < N && N <= MAXD);
  mk_mat(&A, N, N);
  A.pentry = A.base.mem.rep;
  struct IArray indr = mk_iarr(N), indc = mk_iarr(N);
  Float pivot, gval;
  mk_ghost_indices();
  Mat_invert_search_row(&A, N, step, ii, indr, indc, &pivot, &p_row, &p_col, gval);
  GV_CANARY("h_search_row end");
}

void h_elim(void)
{
  struct Mat A;
  Index N, step, row;
  __CPROVER_assume(0 < N && N <= MAXD);
  mk_mat(&A, N, N);
  A.pentry = A.base.mem.rep;
  struct IArray indr = mk_iarr(N), indc = mk_iarr(N);
  mk_ghost_indices();
  Mat_invert_elim(&A, N, step, row, indr, indc);
  GV_CANARY("h_elim end");
}

void h_swap(void)
{
  struct Mat A;
  Index N, v, w;
  __CPROVER_assume(0 < N && N <= MAXD);
  mk_mat(&A, N, N);
  A.pentry = A.base.mem.rep;
  struct IArray perm = mk_iarr(N), inv_perm = mk_iarr(N);
  mk_ghost_indices();
#if MI_WHICH == 0
  Mat_invert_rowswap(&A, N, v, w, perm, inv_perm);
#else
  Mat_invert_colswap(&A, N, v, w, perm, inv_perm);
#endif
  GV_CANARY("h_swap end");
}
#endif

#ifdef MI_BOUNDED
/* ---- TIER B: exact-arithmetic check of inv(A) A = I --------------------------------------------------------------------
   A = P U, U upper triangular with the power-of-two diagonal 4^(d-1), .., 4, 1 and SYMBOLIC integer entries |u| <= 2
   above it, P the permutation matrix number MI_PERM (lexicographic order; every permutation of d <= 3 -- resp. 4 -- has a
   check of its own, constant data on its path).  Full pivoting then finds the pivots 4^(d-1), .., 4, 1 in this order
   whatever the u are (each exceeds every other remaining element), so every division is by a power of two and every
   intermediate value is a dyadic rational of a few bits: IEEE arithmetic is exact (checked natively over ALL inputs of
   the class, d <= 4, with an exact rational Float through the real template: see the unit's report), and the oracle is `==`.
   MI_CLASS=0 is the second class: unit diagonal, |u| <= 1 (ties in the pivot search, data-dependent pivot order; exact
   for d <= 3 only -- also checked natively over all inputs). */
#ifndef MI_D
#define MI_D 3
#endif
#ifndef MI_PERM
#define MI_PERM 0
#endif
#ifndef MI_CLASS
#define MI_CLASS 1
#endif
#define MI_NU (MI_D * (MI_D - 1) / 2 + 1)
void h_exact(void)
{
  const Index d = MI_D;
  /* the MI_PERM-th permutation of 0..d-1 in lexicographic order (factorial number system), constant */
  Index p[MI_D], pool[MI_D];
  Index k = MI_PERM, f = 1, a, b, c;
  for (a = 2; a < d; a++) f *= a;           /* (d-1)! */
  for (a = 0; a < d; a++) pool[a] = a;
  for (a = 0; a < d; a++) {
    Index q = k / f;
    k = k % f;
    p[a] = pool[q];
    for (b = q; b + 1 < d - a; b++) pool[b] = pool[b + 1];
    if (d - 1 - a > 0) f = f / (d - 1 - a);
  }
  /* U */
  Float U[MI_D][MI_D];
  Index u[MI_NU];
  Index n = 0;
  for (a = 0; a < d; a++)
    for (b = 0; b < d; b++) {
      if (b < a) U[a][b] = 0;
      else if (b == a) U[a][b] = (MI_CLASS == 0) ? 1 : (Float)(1 << (2 * (d - 1 - a)));
      else {
        Index v = u[n];
        __CPROVER_assume((MI_CLASS == 0) ? (-1 <= v && v <= 1) : (-2 <= v && v <= 2));
        U[a][b] = (Float)v;
        n++;
      }
    }
  struct Mat A, B;
  mk_mat(&A, d, d);
  mk_mat(&B, d, d);
  for (a = 0; a < d; a++)
    for (b = 0; b < d; b++) {
      A.base.mem.rep[a * d + b] = U[p[a]][b];   /* A = P U: row a of A is row p[a] of U */
      B.base.mem.rep[a * d + b] = U[p[a]][b];
    }
  A.pentry = NULL;
  B.pentry = NULL;
  gv_exc = 0;
  Mat_invert(&B, GV_EPS * 1000);              /* the default tolerance of Mat::invert */
  __CPROVER_assert(gv_exc == 0, "a well-conditioned matrix is inverted without an exception");
  if (gv_exc == 0) {
    for (a = 0; a < d; a++)
      for (b = 0; b < d; b++) {
        Float s = 0;
        for (c = 0; c < d; c++) s += B.base.mem.rep[a * d + c] * A.base.mem.rep[c * d + b];
        __CPROVER_assert(s == (a == b ? 1.0 : 0.0), "inv(A) A = I, exactly (exact-arithmetic input class)");
      }
  }
  GV_CANARY("h_exact end");
}
#endif
//@ end
