/* C15: Mat<Float,Index,Exc>::invert()  (lib/matvec/mat.h) -- Gauss-Jordan elimination with FULL pivoting on the matrix
   itself, row/column bookkeeping in two index vectors (indr, indc), and an in-place undo of the two permutations by
   cycle following (perm / inv_perm).  The body is extracted from /repo on every run; element access goes through the
   extracted private accessor Mat::entry(i,j) (0-based, pentry + i*col_ + j) and the extracted Array<Index> members.

   TIER A (proof, symbolic dimension N <= 2^15, loop contracts on all 14 loops), check `invert`:
     (a) memory safety of every access, frame: only the matrix buffer, pentry, the exception state (and the function's
         own local index vectors) are written; nothing at all when rows != cols (BadRank exactly then);
     (b) indr and indc stay PERMUTATIONS of 0..N-1 through every swap (ghost inverse arrays gv_GR, gv_GC kept in step:
         for an arbitrary value gv_k0  indr[GR[k0]] == k0, for an arbitrary position gv_j0  GR[indr[j0]] == j0);
         invr / invc are their inverses; perm = indr o invc (resp. indc o invr) and inv_perm are mutually inverse
         permutations, and during the cycle-following undo perm restricted to the not yet placed positions i..N-1 stays a
         permutation of i..N-1 with inv_perm its inverse (that is what makes the undo place every row/column once);
     (c) pivot selection: after the search the pivot is 0 (nothing larger than 0 found) or the element at
         (indr[p_row], indc[p_col]) with p_row, p_col >= step, and NO element of the remaining submatrix (arbitrary ghost
         element gv_gi, gv_gj) is larger in absolute value: full pivoting;
     (d) Singular is raised exactly when the largest remaining element is not greater than tol (ghost verdict gv_sing,
         evaluated on the program's own pivot), no other exception;
     (e) termination: decreases clause on every loop.
   All universally quantified facts are used quantifier-free: proved for the harness-chosen arbitrary gv_k0 / gv_j0 and
   instantiated with GV_INST (index asserted in range) at the program's own indices, always at a point where the arrays
   have not been written since the fact was proved for the arbitrary index.

   TIER B (bounded, dimension <= 3 quick / 4 thorough), checks `exact_d*`: the numerical identity inv(A) A = I and
   A inv(A) = I with `==`, on inputs for which every IEEE operation of the elimination is exact (see harness).       */

//@ prelude
#include "../matvec_index/matvec_spec.h"
int gv_exc;
struct IArray { Index *rep; Index sz; };   /* Array<Index,Index,Exc> : MemRep<Index,Index,Exc> */

Index gv_k0;   /* ghost: arbitrary VALUE 0..N-1 (forall-introduction) */
Index gv_j0;   /* ghost: arbitrary POSITION 0..N-1 */
Index gv_gi, gv_gj; /* ghost: arbitrary element of the remaining submatrix (positions in indr / indc) */
int gv_sing;   /* ghost: verdict "the largest remaining element is not greater than tol" of the last step */

#define MI_ABS(x) ((x) >= 0 ? (x) : -(x))                 /* MatVecBase::Abs */
#define MI_BIGGER(a, b) (MI_ABS(a) > MI_ABS(b))            /* the comparison full pivoting is defined by */
#define REP(A) ((A)->base.mem.rep)
#define INR(x) (0 <= (x) && (x) < N)

/* array shorthands (locals of Mat_invert) */
#define aR indr.rep
#define aC indc.rep
#define aIR invr.rep
#define aIC invc.rep
#define aPM perm.rep
#define aIP inv_perm.rep

/* (X, GX) are mutually inverse on 0..N-1: fact A at a value k, fact B at a position j */
#define MI_A(X, GX, k) (INR(GX[k]) && X[GX[k]] == (k))
#define MI_B(X, GX, j) (INR(X[j]) && GX[X[j]] == (j))
#define MI_PERMS                                                                                     \
  ((INR(gv_k0) ==> (MI_A(aR, gv_GR, gv_k0) && MI_A(aC, gv_GC, gv_k0))) &&                             \
   (INR(gv_j0) ==> (MI_B(aR, gv_GR, gv_j0) && MI_B(aC, gv_GC, gv_j0))))
#define MI_ID(x) (aR[x] == (x) && aC[x] == (x) && gv_GR[x] == (x) && gv_GC[x] == (x))
#define MI_PRANGE (N > 0 ==> (INR(p_row) && INR(p_col)))
#define MI_SUB(a, b) (step <= (a) && (a) < N && step <= (b) && (b) < N)   /* inside the remaining submatrix */
#define MI_PIVF                                                                                      \
  (pivot == pivot && (pivot == 0 || (MI_SUB(p_row, p_col) && pivot == REP(self)[aR[p_row] * N + aC[p_col]])))

#ifndef MI_BOUNDED
/* ---- proof text (tier A); empty in the bounded checks so that no proof hint can prune a bounded path ------------ */
#define MI_GHOST_ARRAYS                                                     \
  Index *gv_GR = GV_NEW(Index, N);                                         \
  Index *gv_GC = GV_NEW(Index, N);                                         \
  Float gv_gval = 0; /* ghost: the element (gv_gi, gv_gj) as the search of this step sees it */
#define MI_TAIL1 gv_GR[l] = l; gv_GC[l] = l;
/* before the search of a step: snapshot of the ghost element */
#define MI_PRE_SEARCH                                                                                \
  if (MI_SUB(gv_gi, gv_gj)) {                                                                        \
    GV_INST(INR(gv_gi), MI_B(aR, gv_GR, gv_gi));                                                     \
    GV_INST(INR(gv_gj), MI_B(aC, gv_GC, gv_gj));                                                     \
    gv_gval = *Mat_entry(self, aR[gv_gi], aC[gv_gj]);                                                \
  }
#define MI_HEAD_II GV_INST(INR(ii), MI_B(aR, gv_GR, ii));
#define MI_HEAD_JJ GV_INST(INR(jj), MI_B(aC, gv_GC, jj));
#define MI_POST_SEARCH                                                                               \
  __CPROVER_assert(MI_PIVF, "the pivot is 0 or the element (indr[p_row], indc[p_col]) of the remaining submatrix");   \
  __CPROVER_assert(MI_SUB(gv_gi, gv_gj) ==> !MI_BIGGER(gv_gval, pivot),                              \
                   "full pivoting: no element of the remaining submatrix is larger in absolute value than the pivot"); \
  gv_sing = (MI_ABS(pivot) <= tol);
#define MI_BEFORE_SWAPS                                                                              \
  __CPROVER_assert(!gv_sing, "a largest remaining element not greater than tol raises Singular");    \
  if (N > 0) {                                                                                       \
    GV_INST(INR(step), MI_B(aR, gv_GR, step) && MI_B(aC, gv_GC, step));                              \
    GV_INST(INR(p_row), MI_B(aR, gv_GR, p_row));                                                     \
    GV_INST(INR(p_col), MI_B(aC, gv_GC, p_col));                                                     \
  }
#define MI_AFTER_SWAPS                                                                               \
  gv_GR[aR[step]] = step; gv_GR[aR[p_row]] = p_row;                                                  \
  gv_GC[aC[step]] = step; gv_GC[aC[p_col]] = p_col;                                                  \
  __CPROVER_assert(MI_PERMS, "indr and indc are permutations of 0..N-1 after the pivot swaps");      \
  GV_INST(INR(step), MI_B(aR, gv_GR, step) && MI_B(aC, gv_GC, step));
#define MI_HEAD_ROW GV_INST(INR(row), MI_B(aR, gv_GR, row));
/* invr / invc: the ghost inverses are what the code computes */
#define MI_HEAD_INV GV_INST(INR(i), MI_B(aR, gv_GR, i) && MI_B(aC, gv_GC, i));
#define MI_INV_DONE(k) (aIR[k] == gv_GR[k] && aIC[k] == gv_GC[k])
/* perm = X o IY, inv_perm its inverse  (rows: X = indr, Y = indc; columns: X = indc, Y = indr) */
#define MI_HEAD_PERM(X, GX, IY, Y, GY)                                                               \
  GV_INST(INR(i), MI_INV_DONE(i) && MI_A(Y, GY, i));                                                 \
  GV_INST(INR(IY[i]), MI_B(X, GX, IY[i]));                                                           \
  if (INR(gv_j0)) {                                                                                  \
    GV_INST(INR(gv_j0), MI_INV_DONE(gv_j0) && MI_A(Y, GY, gv_j0));                                   \
    GV_INST(INR(IY[gv_j0]), MI_B(X, GX, IY[gv_j0]));                                                 \
  }                                                                                                  \
  if (INR(gv_k0)) {                                                                                  \
    GV_INST(INR(GX[gv_k0]), MI_B(Y, GY, GX[gv_k0]));                                                 \
    GV_INST(INR(Y[GX[gv_k0]]), MI_INV_DONE(Y[GX[gv_k0]]));                                           \
  }
#define MI_PRE_UNDO(X, GX, Y, GY) if (INR(gv_k0)) { GV_INST(INR(GX[gv_k0]), MI_B(Y, GY, GX[gv_k0])); }
/* cycle following: instantiate the loop invariant (which holds for the arbitrary gv_j0, gv_k0) at j0 := k0 := v */
#define MI_HEAD_UNDO(v)                                                                              \
  GV_INST(INR(v), (v) <= aPM[v] && aPM[v] < N && aIP[aPM[v]] == (v) && (v) <= aIP[v] && aIP[v] < N && aPM[aIP[v]] == (v));
#else
#define MI_GHOST_ARRAYS
#define MI_TAIL1
#define MI_PRE_SEARCH
#define MI_HEAD_II
#define MI_HEAD_JJ
#define MI_POST_SEARCH
#define MI_BEFORE_SWAPS
#define MI_AFTER_SWAPS
#define MI_HEAD_ROW
#define MI_HEAD_INV
#define MI_HEAD_PERM(X, GX, IY, Y, GY)
#define MI_PRE_UNDO(X, GX, Y, GY)
#define MI_HEAD_UNDO(v)
#endif

/* loop contract of "perm[i] = X[IY[i]]; inv_perm[perm[i]] = i"  */
#define MI_PERM_INV(X, GX, Y)                                                                        \
  (0 <= i && i <= N &&                                                                               \
   ((0 <= gv_j0 && gv_j0 < i) ==> (INR(aPM[gv_j0]) && aIP[aPM[gv_j0]] == gv_j0)) &&                   \
   ((INR(gv_k0) && Y[GX[gv_k0]] < i) ==> (aPM[Y[GX[gv_k0]]] == gv_k0 && aIP[gv_k0] == Y[GX[gv_k0]])))
/* loop contract of the cycle-following undo with loop variable v */
#define MI_UNDO_INV(v)                                                                               \
  (0 <= (v) && (v) <= N &&                                                                           \
   (((v) <= gv_j0 && gv_j0 < N) ==> ((v) <= aPM[gv_j0] && aPM[gv_j0] < N && aIP[aPM[gv_j0]] == gv_j0)) && \
   (((v) <= gv_k0 && gv_k0 < N) ==> ((v) <= aIP[gv_k0] && aIP[gv_k0] < N && aPM[aIP[gv_k0]] == gv_k0)))
//@ end

/* ---- small accessors -------------------------------------------------------------------------------------------- */
//@ contract MemRep_begin
MV_CONTRACT_MemRep_begin
//@ contract MatBase_rows
MV_CONTRACT_MatBase_rows
//@ contract MatBase_cols
MV_CONTRACT_MatBase_cols
//@ end

/* Mat::entry(i,j), 0-based: pentry + i*col_ + j lies inside the buffer (nonlinear bound: lemma mat_bounds at (i+1,j+1)) */
//@ contract Mat_entry
__CPROVER_requires(WF_MAT(self) && self->pentry == REP(self))
__CPROVER_requires(0 <= i && i < self->base.row_ && 0 <= j && j < self->base.col_)
__CPROVER_assigns()
__CPROVER_ensures(__CPROVER_return_value == REP(self) + (i * self->base.col_ + j))
__CPROVER_ensures(0 <= i * self->base.col_ + j && i * self->base.col_ + j < self->base.mem.sz)
//@ entry Mat_entry
GV_CANARY("Mat_entry entry");
GV_GHOST(gv_lemma_mat_bounds(self->base.row_, self->base.col_, i + 1, j + 1);)
//@ end

/* ---- Mat::invert --------------------------------------------------------------------------------------------------- */
//@ contract Mat_invert
__CPROVER_requires(WF_MAT(self) && __CPROVER_rw_ok(self, sizeof(struct Mat)) && gv_exc == 0)
__CPROVER_requires(!SAME(REP(self), self))
__CPROVER_assigns(gv_exc, gv_sing;
                  self->base.row_ == self->base.col_: self->pentry;
                  self->base.row_ == self->base.col_: __CPROVER_object_whole(REP(self)))
__CPROVER_ensures((self->base.row_ != self->base.col_) == (gv_exc == GV_BadRank))
__CPROVER_ensures(gv_exc == 0 || gv_exc == GV_BadRank || gv_exc == GV_Singular)
__CPROVER_ensures(self->base.row_ == self->base.col_ ==> ((gv_exc == GV_Singular) == (gv_sing != 0)))
//@ entry Mat_invert
GV_CANARY("Mat_invert entry");
gv_sing = 0;
//@ pre Mat_invert 1
MI_GHOST_ARRAYS
//@ loop Mat_invert 1
__CPROVER_assigns(l; N > 0: __CPROVER_object_whole(aR); N > 0: __CPROVER_object_whole(aC);
                  __CPROVER_object_whole(gv_GR), __CPROVER_object_whole(gv_GC))
__CPROVER_loop_invariant(0 <= l && l <= N && ((0 <= gv_k0 && gv_k0 < l) ==> MI_ID(gv_k0)) &&
                         ((0 <= gv_j0 && gv_j0 < l) ==> MI_ID(gv_j0)))
__CPROVER_decreases(N - l)
//@ tail Mat_invert 1
MI_TAIL1
//@ loop Mat_invert 2
__CPROVER_assigns(step, ii, jj, i, j, row, e, pivot, invpivot, p_row, p_col, gv_exc, gv_sing, gv_gval;
                  N > 0: __CPROVER_object_whole(aR); N > 0: __CPROVER_object_whole(aC);
                  __CPROVER_object_whole(gv_GR), __CPROVER_object_whole(gv_GC), __CPROVER_object_whole(REP(self)))
__CPROVER_loop_invariant(0 <= step && step <= N && gv_exc == 0 && gv_sing == 0 && MI_PRANGE && MI_PERMS)
__CPROVER_decreases(N - step)
//@ pre Mat_invert 3
MI_PRE_SEARCH
//@ loop Mat_invert 3
__CPROVER_assigns(ii, jj, i, e, pivot, p_row, p_col)
__CPROVER_loop_invariant(step <= ii && ii <= N && MI_PRANGE && MI_PIVF &&
                         ((MI_SUB(gv_gi, gv_gj) && gv_gi < ii) ==> !MI_BIGGER(gv_gval, pivot)))
__CPROVER_decreases(N - ii)
//@ head Mat_invert 3
MI_HEAD_II
//@ loop Mat_invert 4
__CPROVER_assigns(jj, e, pivot, p_row, p_col)
__CPROVER_loop_invariant(step <= jj && jj <= N && MI_PRANGE && MI_PIVF &&
                         ((MI_SUB(gv_gi, gv_gj) && (gv_gi < ii || (gv_gi == ii && gv_gj < jj))) ==> !MI_BIGGER(gv_gval, pivot)))
__CPROVER_decreases(N - jj)
//@ head Mat_invert 4
MI_HEAD_JJ
//@ post Mat_invert 3
MI_POST_SEARCH
//@ at Mat_invert before_swaps
MI_BEFORE_SWAPS
//@ at Mat_invert after_swaps
MI_AFTER_SWAPS
//@ loop Mat_invert 5
__CPROVER_assigns(j, __CPROVER_object_whole(REP(self)))
__CPROVER_loop_invariant(0 <= j && j <= N)
__CPROVER_decreases(N - j)
//@ loop Mat_invert 6
__CPROVER_assigns(row, i, e, j, __CPROVER_object_whole(REP(self)))
__CPROVER_loop_invariant(0 <= row && row <= N)
__CPROVER_decreases(N - row)
//@ head Mat_invert 6
MI_HEAD_ROW
//@ loop Mat_invert 7
__CPROVER_assigns(j, __CPROVER_object_whole(REP(self)))
__CPROVER_loop_invariant(0 <= j && j <= N)
__CPROVER_decreases(N - j)
//@ loop Mat_invert 8
__CPROVER_assigns(i; N > 0: __CPROVER_object_whole(aIR); N > 0: __CPROVER_object_whole(aIC))
__CPROVER_loop_invariant(0 <= i && i <= N &&
                         ((INR(gv_k0) && gv_GR[gv_k0] < i) ==> aIR[gv_k0] == gv_GR[gv_k0]) &&
                         ((INR(gv_k0) && gv_GC[gv_k0] < i) ==> aIC[gv_k0] == gv_GC[gv_k0]))
__CPROVER_decreases(N - i)
//@ head Mat_invert 8
MI_HEAD_INV
//@ loop Mat_invert 9
__CPROVER_assigns(i; N > 0: __CPROVER_object_whole(aPM); N > 0: __CPROVER_object_whole(aIP))
__CPROVER_loop_invariant(MI_PERM_INV(aR, gv_GR, aC))
__CPROVER_decreases(N - i)
//@ head Mat_invert 9
MI_HEAD_PERM(aR, gv_GR, aIC, aC, gv_GC)
//@ pre Mat_invert 10
MI_PRE_UNDO(aR, gv_GR, aC, gv_GC)
//@ loop Mat_invert 10
__CPROVER_assigns(i, r, j, e; N > 0: __CPROVER_object_whole(aPM); N > 0: __CPROVER_object_whole(aIP);
                  __CPROVER_object_whole(REP(self)))
__CPROVER_loop_invariant(MI_UNDO_INV(i))
__CPROVER_decreases(N - i)
//@ head Mat_invert 10
MI_HEAD_UNDO(i)
//@ loop Mat_invert 11
__CPROVER_assigns(j, e, __CPROVER_object_whole(REP(self)))
__CPROVER_loop_invariant(0 <= j && j <= N)
__CPROVER_decreases(N - j)
//@ loop Mat_invert 12
__CPROVER_assigns(i; N > 0: __CPROVER_object_whole(aPM); N > 0: __CPROVER_object_whole(aIP))
__CPROVER_loop_invariant(MI_PERM_INV(aC, gv_GC, aR))
__CPROVER_decreases(N - i)
//@ head Mat_invert 12
MI_HEAD_PERM(aC, gv_GC, aIR, aR, gv_GR)
//@ pre Mat_invert 13
MI_PRE_UNDO(aC, gv_GC, aR, gv_GR)
//@ loop Mat_invert 13
__CPROVER_assigns(j, c, i, e; N > 0: __CPROVER_object_whole(aPM); N > 0: __CPROVER_object_whole(aIP);
                  __CPROVER_object_whole(REP(self)))
__CPROVER_loop_invariant(MI_UNDO_INV(j))
__CPROVER_decreases(N - j)
//@ head Mat_invert 13
MI_HEAD_UNDO(j)
//@ loop Mat_invert 14
__CPROVER_assigns(i, e, __CPROVER_object_whole(REP(self)))
__CPROVER_loop_invariant(0 <= i && i <= N)
__CPROVER_decreases(N - i)
//@ end

//@ harness
/* an arbitrary Mat(r,c), r,c <= 2^15, arbitrary contents (NaN, infinities, zeros included) */
static void mk_mat(struct Mat *A)
{
  Index rows, cols;
  __CPROVER_assume(0 <= rows && rows <= MAXD && 0 <= cols && cols <= MAXD);
  A->base.row_ = rows;
  A->base.col_ = cols;
  Index sz = rows * cols;
  A->base.mem.sz = sz;
  Float *m = malloc((size_t)sz * sizeof(Float));
  __CPROVER_assume(m != NULL);
  A->base.mem.rep = m;
}

void h_entry(void)
{
  struct Mat A;
  mk_mat(&A);
  A.pentry = A.base.mem.rep;
  Index i, j;
  __CPROVER_assume(0 <= i && i < A.base.row_ && 0 <= j && j < A.base.col_);
  Float *p = Mat_entry(&A, i, j);
  __CPROVER_assert(SAME(p, A.base.mem.rep) && 0 <= OFF(p) && OFF(p) < (long)A.base.mem.sz * FSZ && OFF(p) % FSZ == 0,
                   "entry(i,j) lies inside the buffer");
  GV_CANARY("h_entry end");
}

void h_invert(void)
{
  struct Mat A;
  mk_mat(&A);
  Float *anyp;
  A.pentry = anyp; /* "not initialized in constructor !!!" (mat.h): arbitrary on entry */
  Float tol;
  Index k0, j0, gi, gj;
  gv_k0 = k0; gv_j0 = j0; gv_gi = gi; gv_gj = gj;
  gv_exc = 0;
  Mat_invert(&A, tol);
  GV_CANARY("h_invert end");
}
//@ end
