// Native survey: for each permutation P and every U of the class, does inv(A)*A == I and A*inv(A) == I hold exactly in double
// on the tree given by -I<tree>/lib?  Used to pick the permutations on which a seeded change shows (mutation self-test).
// build: g++ -std=c++14 -O1 -I/repo/lib native_classes.cpp -o /tmp/y && /tmp/y 1 && /tmp/y 0
// which input classes are exact, and on how many inputs does the tree under test return a wrong inverse?
#include <cstdio>
#include <cstdlib>
#include <vector>
#include <algorithm>
#include <numeric>
#include <matvec/matvec.h>
using namespace GNU_gama;
int main(int argc,char**argv){
  int cls = atoi(argv[1]); // 0: unit diagonal |u|<=1 ; 1: diagonal 4^(d-1-k), |u|<=2
  for (int d=1; d<=4; d++){
    int LIM = cls==0?1:2;
    std::vector<int> p(d); std::iota(p.begin(),p.end(),0);
    long inputs=0, wrong=0, exc=0; long perP[24]={0}; int pi=0;
    do {
      int nfree=d*(d-1)/2; std::vector<int> u(nfree,-LIM);
      while(true){
        std::vector<std::vector<int>> U(d,std::vector<int>(d,0)); int k=0;
        for(int i=0;i<d;i++){U[i][i]= cls==0?1:(1<<(2*(d-1-i))); for(int j=i+1;j<d;j++)U[i][j]=u[k++];}
        Mat<double> B(d,d);
        for(int i=0;i<d;i++)for(int j=0;j<d;j++) B(i+1,j+1)=U[p[i]][j];
        Mat<double> Bi=B; inputs++;
        try { Bi.invert(); 
          bool ok=true;
          for(int i=1;i<=d;i++)for(int j=1;j<=d;j++){ double t=0,s=0; for(int k2=1;k2<=d;k2++){ t+=Bi(i,k2)*B(k2,j); s+=B(i,k2)*Bi(k2,j);} if(t!=(i==j?1.0:0.0)||s!=(i==j?1.0:0.0)) ok=false; }
          if(!ok){wrong++; perP[pi]++;}
        } catch(...) { exc++; }
        int q=0; while(q<nfree && u[q]==LIM){u[q]=-LIM;q++;} if(q==nfree)break; u[q]++;
      }
      pi++;
    } while(std::next_permutation(p.begin(),p.end()));
    printf("class %d d=%d inputs=%ld exceptions=%ld product_not_identity=%ld  per permutation:",cls,d,inputs,exc,wrong);
    for(int q=0;q<pi;q++)printf(" %ld",perP[q]); printf("\n");
  }
}
