// Native check of the exactness claim of the bounded checks (tier B of unit mat_invert): the REAL Mat<>::invert is run with
// Float = exact rational over every input of the class (arg 1 = class 1: diagonal 4^(d-1-k), |u|<=2; arg 0: unit diagonal, |u|<=1),
// d <= 4; a run is "nondyadic" if any intermediate value has a denominator that is not a power of two (then IEEE would round).
// build: g++ -std=c++14 -O1 -I/repo/lib native_exactness.cpp -o /tmp/x && /tmp/x 1 && /tmp/x 0
// native exactness survey: run the REAL Mat<>::invert with Float = exact rational, record pivots and denominators
#include <cstdio>
#include <cstdlib>
#include <vector>
#include <algorithm>
#include <numeric>
#include <limits>
typedef long long ll;
static ll gcdll(ll a, ll b){ a = a<0?-a:a; b=b<0?-b:b; while(b){ll t=a%b;a=b;b=t;} return a; }
struct Q { ll n, d;
  Q():n(0),d(1){} Q(double x):n((ll)x),d(1){ if ((double)n!=x) abort(); } Q(int x):n(x),d(1){} Q(ll a, ll b){ if(b<0){a=-a;b=-b;} ll g=gcdll(a,b); if(!g)g=1; n=a/g; d=b/g; if (d==0) abort(); }
};
static bool g_nondyadic=false; static ll g_maxnum=0, g_maxden=0;
static Q note(Q q){ ll d=q.d; if (d & (d-1)) g_nondyadic=true; ll a=q.n<0?-q.n:q.n; if(a>g_maxnum)g_maxnum=a; if(d>g_maxden)g_maxden=d; return q; }
Q operator*(Q a,Q b){ return note(Q(a.n*b.n,a.d*b.d)); }
Q operator/(Q a,Q b){ if(b.n==0) abort(); return note(Q(a.n*b.d,a.d*b.n)); }
Q operator-(Q a,Q b){ return note(Q(a.n*b.d-b.n*a.d,a.d*b.d)); }
Q operator+(Q a,Q b){ return note(Q(a.n*b.d+b.n*a.d,a.d*b.d)); }
Q operator-(Q a){ return Q(-a.n,a.d); }
Q& operator*=(Q&a,Q b){ a=a*b; return a;} Q& operator-=(Q&a,Q b){ a=a-b; return a;} Q& operator+=(Q&a,Q b){ a=a+b; return a;}
bool operator>=(Q a,Q b){ return a.n*b.d>=b.n*a.d;} bool operator<=(Q a,Q b){ return a.n*b.d<=b.n*a.d;}
bool operator>(Q a,Q b){ return a.n*b.d>b.n*a.d;} bool operator<(Q a,Q b){ return a.n*b.d<b.n*a.d;}
bool operator==(Q a,Q b){ return a.n==b.n&&a.d==b.d;} bool operator!=(Q a,Q b){return !(a==b);}
#include <iostream>
std::ostream& operator<<(std::ostream&o,Q q){return o<<q.n<<"/"<<q.d;}
std::istream& operator>>(std::istream&i,Q&q){return i;}
#include <matvec/matvec.h>
using namespace GNU_gama;
static bool g_badpivot=false;
int main(int argc,char**argv){
  int CLS = argc>1?atoi(argv[1]):1; int LIM = CLS==0?1:2;
  for (int d=1; d<=4; d++){
    std::vector<int> p(d); std::iota(p.begin(),p.end(),0);
    long inputs=0, bad=0, dblbad=0, nond=0, sing=0;
    do {
      int nfree=d*(d-1)/2; std::vector<int> u(nfree,-LIM);
      while(true){
        // U unit upper triangular
        std::vector<std::vector<int>> U(d,std::vector<int>(d,0)); int k=0;
        for(int i=0;i<d;i++){U[i][i]= CLS==0?1:(1<<(2*(d-1-i))); for(int j=i+1;j<d;j++)U[i][j]=u[k++];}
        // A = P*U : row i of A = row p[i] of U
        Mat<Q> A(d,d); Mat<double> B(d,d);
        for(int i=0;i<d;i++)for(int j=0;j<d;j++){A(i+1,j+1)=Q(U[p[i]][j]); B(i+1,j+1)=U[p[i]][j];}
        Mat<Q> Ai=A; Mat<double> Bi=B; inputs++;
        g_nondyadic=false;
        try { Ai.invert(Q(0)); Bi.invert(); } catch(...) { sing++; goto next; }
        if (g_nondyadic) nond++;
        { // exact product check
          bool ok=true, dok=true;
          for(int i=1;i<=d;i++)for(int j=1;j<=d;j++){ Q s(0); double t=0; for(int k2=1;k2<=d;k2++){ s=s+Ai(i,k2)*A(k2,j); t+=Bi(i,k2)*B(k2,j);} if(!(s==Q(i==j?1:0))) ok=false; if(t!=(i==j?1.0:0.0)) dok=false;
             if ((double)Ai(i,j).n/(double)Ai(i,j).d != Bi(i,j)) dok=false; }
          if(!ok)bad++; if(!dok)dblbad++;
        }
        next:
        int q=0; while(q<nfree && u[q]==LIM){u[q]=-LIM;q++;} if(q==nfree)break; u[q]++;
      }
    } while(std::next_permutation(p.begin(),p.end()));
    printf("d=%d |u|<=%d inputs=%ld singular=%ld rational_inverse_wrong=%ld double_differs=%ld nondyadic_runs=%ld maxnum=%lld maxden=%lld\n",d,LIM,inputs,sing,bad,dblbad,nond,g_maxnum,g_maxden);
  }
}
