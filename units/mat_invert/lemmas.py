#!/usr/bin/env python3
"""z3 proofs of the mi_lemma_* statements of units/mat_invert/mi_lemmas.h (check "lemmas" of unit mat_invert).

usage: python3-vt lemmas.py <generated C file> <repo>          (both arguments unused: nothing of gama is involved)

Every `void mi_lemma_*(int ..) __CPROVER_requires(..) .. __CPROVER_ensures(..);` declaration of the header is parsed and
each ensures clause is proved from the requires clauses over z3 Int (mathematical integers, unbounded).
GV_MACHINE_BOUND(..) clauses are NOT hypotheses.  The expression parser / prover is the generic one of
units/gkf_covmat/lemmas.py (imported, not copied).
Output: one line 'LEMMA <name>: proved' / 'LEMMA <name>: FAILED <model>' per obligation.
Exit 0 all proved, 1 some failed, 2 could not translate.
"""
import os
import re
import subprocess
import sys

HERE = os.path.dirname(os.path.abspath(__file__))
sys.path.insert(0, os.path.join(os.path.dirname(HERE), 'gkf_covmat'))
import lemmas as G  # noqa: E402  (units/gkf_covmat/lemmas.py)
import z3  # noqa: E402

PREFIX = 'mi_lemma_'


def main():
    hdr = os.path.join(HERE, 'mi_lemmas.h')
    cp = subprocess.run(['cpp', '-P', '-DGV_MACHINE_BOUND(x)=GV_MB(x)', hdr], stdout=subprocess.PIPE,
                        stderr=subprocess.PIPE, text=True)
    if cp.returncode != 0:
        raise G.Untranslatable('cpp failed: ' + cp.stderr[-300:])
    text = re.sub(r'(?m)^\s*#pragma[^\n]*\n', '', cp.stdout)
    nlem = 0
    for m in re.finditer(r'\bvoid\s+(' + PREFIX + r'\w+)\s*\(([^)]*)\)', text):
        name = m.group(1)
        params = []
        for p in m.group(2).split(','):
            w = re.findall(r'\w+', p)
            if len(w) != 2 or w[0] != 'int':
                raise G.Untranslatable('lemma %s: parameter %r is not a plain int' % (name, p))
            params.append(w[1])
        env = {p: z3.Int(name[len(PREFIX):] + '_' + p) for p in params}
        j = m.end()
        hyps, goals = [], []
        while True:
            mm = re.compile(r'\s*(__CPROVER_\w+)\s*\(').match(text, j)
            if not mm:
                break
            k = G.balanced(text, mm.end() - 1)
            kind, body = mm.group(1), text[mm.end():k]
            j = k + 1
            if kind == '__CPROVER_requires':
                if re.match(r'\s*GV_MB\s*\(', body):
                    continue                   # machine-arithmetic bound: NOT a hypothesis of the mathematical proof
                h, sides = G.evaluate(body, env, [])
                for n_, (pc, fact) in enumerate(sides, 1):
                    G.prove('%s.requires.division_is_exact_and_defined.%d' % (name, n_), hyps + pc, fact, list(env.values()))
                hyps.append(h)
            elif kind == '__CPROVER_ensures':
                goals.append(body)
            elif kind != '__CPROVER_assigns':
                raise G.Untranslatable('clause %s in lemma %s' % (kind, name))
        if not re.match(r'\s*;', text[j:]):
            raise G.Untranslatable('lemma %s is not a body-less declaration' % name)
        if not goals:
            raise G.Untranslatable('lemma %s has no ensures clause' % name)
        for n_, g in enumerate(goals, 1):
            goal, sides = G.evaluate(g, env, [])
            for s_, (pc, fact) in enumerate(sides, 1):
                G.prove('%s.ensures.%d.division_is_exact_and_defined.%d' % (name, n_, s_), hyps + pc, fact, list(env.values()))
            G.prove('%s.ensures.%d' % (name, n_), hyps, goal, list(env.values()))
        nlem += 1
    if nlem < 1:
        raise G.Untranslatable('no %s declarations found in mi_lemmas.h' % PREFIX)
    return 0 if all(G.RESULTS) else 1


if __name__ == '__main__':
    try:
        sys.exit(main())
    except G.Untranslatable as e:
        print('lemmas.py: cannot translate: %s' % e)
        sys.exit(2)
