/* Sidecar contracts for the element-wise kernels of lib/matvec (C15-U3): MatVecBase::{operator*=, operator/=, set_all,
   set_zero, mul, add, sub}, VecBase::{dot, dim}, Mat * Vec.  Bodies are extracted from /repo on every run.
   Property clauses: "non-conforming operands raise an exception instead of reading outside the operands" =
   BadRank exactly when the sizes differ and then nothing is written; otherwise only the operands are read/written
   (also when the output IS one of the inputs: Vec::operator+= calls add(x, *this)), and element gv_k0 of the result
   is a[k0] (+|-) b[k0] exactly, for an arbitrary ghost index gv_k0 chosen by the harness.  For the products
   (operator*=, mul) the exact identity x[k0] == a[k0]*f is NOT an obligation: it asks SAT to prove two IEEE multiplier
   circuits equal (measured: > 600 s); those checks decide memory safety, frame, BadRank and termination only.      */

//@ prelude
#include "../matvec_index/matvec_spec.h"
int gv_exc;
Index gv_k0;          /* ghost index (forall-introduction) */
Float gv_olda, gv_oldb; /* ghost: values of a[gv_k0], b[gv_k0] on entry */
#define INR(M) (0 <= gv_k0 && gv_k0 < (M)->sz)
/* an operand: WF_MEM with a non-null base also when empty (C++ defines nullptr+0, C does not: stated assumption) */
#define WF_OP(M) ((M)->sz >= 0 && __CPROVER_rw_ok((M)->rep, (size_t)(M)->sz * sizeof(Float)) && OFF((M)->rep) == 0)

static void mk_op(struct MemRep *M)
{
  Index n;
  __CPROVER_assume(n >= 0);
  M->sz = n;
  M->rep = malloc((size_t)n * sizeof(Float));
  __CPROVER_assume(M->rep != NULL);
}
//@ end

//@ contract MemRep_begin
MV_CONTRACT_MemRep_begin
//@ contract MemRep_begin_const
MV_CONTRACT_MemRep_begin
//@ contract MemRep_end
MV_CONTRACT_MemRep_end
//@ contract MemRep_end_const
MV_CONTRACT_MemRep_end
//@ contract MemRep_size
MV_CONTRACT_MemRep_size
//@ end

/* ---- operator*=(f): every element multiplied by f, nothing else touched -------------------------------------- */
//@ contract MatVecBase_scale
__CPROVER_requires(WF_OP(self) && (INR(self) ==> MV_SAMEVAL(self->rep[gv_k0], gv_olda)))
__CPROVER_assigns(__CPROVER_object_whole(self->rep))
//@ entry MatVecBase_scale
GV_CANARY("MatVecBase_scale entry");
//@ pre MatVecBase_scale 1
long gv_i = 0;
//@ loop MatVecBase_scale 1
__CPROVER_assigns(b, gv_i, __CPROVER_object_whole(self->rep))
__CPROVER_loop_invariant(0 <= gv_i && gv_i <= self->sz && SAME(b, self->rep) && OFF(b) == FSZ * gv_i &&
                         SAME(e, self->rep) && OFF(e) == FSZ * (long)self->sz &&
                         ((INR(self) && gv_k0 >= gv_i) ==> MV_SAMEVAL(self->rep[gv_k0], gv_olda)))
__CPROVER_decreases(self->sz - gv_i)
//@ head MatVecBase_scale 1
GV_ANCHOR(b, self->rep + gv_i);
//@ tail MatVecBase_scale 1
gv_i++;
//@ end

/* ---- operator/=(f) == operator*=(1/f) ------------------------------------------------------------------------- */
//@ contract MatVecBase_div
__CPROVER_requires(WF_OP(self) && (INR(self) ==> MV_SAMEVAL(self->rep[gv_k0], gv_olda)))
__CPROVER_assigns(__CPROVER_object_whole(self->rep))
//@ entry MatVecBase_div
GV_CANARY("MatVecBase_div entry");
//@ end

/* ---- set_all(f) / set_zero() ---------------------------------------------------------------------------------- */
//@ contract MatVecBase_set_all
__CPROVER_requires(WF_OP(self))
__CPROVER_assigns(__CPROVER_object_whole(self->rep))
__CPROVER_ensures(INR(self) ==> MV_SAMEVAL(self->rep[gv_k0], f))
//@ entry MatVecBase_set_all
GV_CANARY("MatVecBase_set_all entry");
//@ pre MatVecBase_set_all 1
long gv_i = 0;
//@ loop MatVecBase_set_all 1
__CPROVER_assigns(b, gv_i, __CPROVER_object_whole(self->rep))
__CPROVER_loop_invariant(0 <= gv_i && gv_i <= self->sz && SAME(b, self->rep) && OFF(b) == FSZ * gv_i &&
                         SAME(e, self->rep) && OFF(e) == FSZ * (long)self->sz &&
                         ((INR(self) && gv_k0 < gv_i) ==> MV_SAMEVAL(self->rep[gv_k0], f)))
__CPROVER_decreases(self->sz - gv_i)
//@ head MatVecBase_set_all 1
GV_ANCHOR(b, self->rep + gv_i);
//@ tail MatVecBase_set_all 1
gv_i++;
//@ contract MatVecBase_set_zero
__CPROVER_requires(WF_OP(self))
__CPROVER_assigns(__CPROVER_object_whole(self->rep))
__CPROVER_ensures(INR(self) ==> self->rep[gv_k0] == 0)
//@ entry MatVecBase_set_zero
GV_CANARY("MatVecBase_set_zero entry");
//@ end

/* ---- mul(f, X): X = f * this ---------------------------------------------------------------------------------- */
//@ contract MatVecBase_mul
__CPROVER_requires(WF_OP(self) && WF_OP(X) && gv_exc == 0 && (X == self || !SAME(X->rep, self->rep)) && !SAME(X->rep, X) && !SAME(X->rep, self))
__CPROVER_requires(INR(self) ==> MV_SAMEVAL(self->rep[gv_k0], gv_olda))
__CPROVER_assigns(gv_exc; self->sz == X->sz: __CPROVER_object_whole(X->rep))
__CPROVER_ensures(self->sz != X->sz ==> gv_exc == GV_BadRank)
__CPROVER_ensures(self->sz == X->sz ==> gv_exc == 0)
//@ entry MatVecBase_mul
GV_CANARY("MatVecBase_mul entry");
//@ pre MatVecBase_mul 1
long gv_i = 0;
//@ loop MatVecBase_mul 1
__CPROVER_assigns(a, x, gv_i, __CPROVER_object_whole(X->rep))
__CPROVER_loop_invariant(0 <= gv_i && gv_i <= X->sz && SAME(x, X->rep) && OFF(x) == FSZ * gv_i && SAME(a, self->rep) &&
                         OFF(a) == FSZ * gv_i && SAME(e, X->rep) && OFF(e) == FSZ * (long)X->sz &&
                         ((INR(X) && gv_k0 >= gv_i) ==> MV_SAMEVAL(self->rep[gv_k0], gv_olda)))
__CPROVER_decreases(X->sz - gv_i)
//@ head MatVecBase_mul 1
GV_ANCHOR(x, X->rep + gv_i);
GV_ANCHOR(a, self->rep + gv_i);
//@ tail MatVecBase_mul 1
gv_i++;
//@ end

/* ---- add(B, X): X = this + B ;  sub(B, X): X = this - B ------------------------------------------------------- */
//@ contract MatVecBase_add
__CPROVER_requires(WF_OP(self) && WF_OP(B) && WF_OP(X) && gv_exc == 0)
__CPROVER_requires((X == self || !SAME(X->rep, self->rep)) && (X == B || !SAME(X->rep, B->rep)) && !SAME(X->rep, X) && !SAME(X->rep, self) && !SAME(X->rep, B))
__CPROVER_requires(INR(self) ==> MV_SAMEVAL(self->rep[gv_k0], gv_olda))
__CPROVER_requires(INR(B) ==> MV_SAMEVAL(B->rep[gv_k0], gv_oldb))
__CPROVER_assigns(gv_exc; (self->sz == B->sz && self->sz == X->sz): __CPROVER_object_whole(X->rep))
__CPROVER_ensures((self->sz != B->sz || self->sz != X->sz) ==> gv_exc == GV_BadRank)
__CPROVER_ensures((self->sz == B->sz && self->sz == X->sz) ==> (gv_exc == 0 && (INR(X) ==> MV_SAMEVAL(X->rep[gv_k0], gv_olda + gv_oldb))))
//@ entry MatVecBase_add
GV_CANARY("MatVecBase_add entry");
//@ pre MatVecBase_add 1
long gv_i = 0;
//@ loop MatVecBase_add 1
__CPROVER_assigns(a, b, x, gv_i, __CPROVER_object_whole(X->rep))
__CPROVER_loop_invariant(0 <= gv_i && gv_i <= X->sz && SAME(x, X->rep) && OFF(x) == FSZ * gv_i && SAME(a, self->rep) &&
                         OFF(a) == FSZ * gv_i && SAME(b, B->rep) && OFF(b) == FSZ * gv_i && SAME(e, X->rep) &&
                         OFF(e) == FSZ * (long)X->sz &&
                         ((INR(X) && gv_k0 < gv_i) ==> MV_SAMEVAL(X->rep[gv_k0], gv_olda + gv_oldb)) &&
                         ((INR(X) && gv_k0 >= gv_i) ==> (MV_SAMEVAL(self->rep[gv_k0], gv_olda) && MV_SAMEVAL(B->rep[gv_k0], gv_oldb))))
__CPROVER_decreases(X->sz - gv_i)
//@ head MatVecBase_add 1
GV_ANCHOR(x, X->rep + gv_i);
GV_ANCHOR(a, self->rep + gv_i);
GV_ANCHOR(b, B->rep + gv_i);
//@ tail MatVecBase_add 1
gv_i++;
//@ contract MatVecBase_sub
__CPROVER_requires(WF_OP(self) && WF_OP(B) && WF_OP(X) && gv_exc == 0)
__CPROVER_requires((X == self || !SAME(X->rep, self->rep)) && (X == B || !SAME(X->rep, B->rep)) && !SAME(X->rep, X) && !SAME(X->rep, self) && !SAME(X->rep, B))
__CPROVER_requires(INR(self) ==> MV_SAMEVAL(self->rep[gv_k0], gv_olda))
__CPROVER_requires(INR(B) ==> MV_SAMEVAL(B->rep[gv_k0], gv_oldb))
__CPROVER_assigns(gv_exc; (self->sz == B->sz && self->sz == X->sz): __CPROVER_object_whole(X->rep))
__CPROVER_ensures((self->sz != B->sz || self->sz != X->sz) ==> gv_exc == GV_BadRank)
__CPROVER_ensures((self->sz == B->sz && self->sz == X->sz) ==> (gv_exc == 0 && (INR(X) ==> MV_SAMEVAL(X->rep[gv_k0], gv_olda - gv_oldb))))
//@ entry MatVecBase_sub
GV_CANARY("MatVecBase_sub entry");
//@ pre MatVecBase_sub 1
long gv_i = 0;
//@ loop MatVecBase_sub 1
__CPROVER_assigns(a, b, x, gv_i, __CPROVER_object_whole(X->rep))
__CPROVER_loop_invariant(0 <= gv_i && gv_i <= X->sz && SAME(x, X->rep) && OFF(x) == FSZ * gv_i && SAME(a, self->rep) &&
                         OFF(a) == FSZ * gv_i && SAME(b, B->rep) && OFF(b) == FSZ * gv_i && SAME(e, X->rep) &&
                         OFF(e) == FSZ * (long)X->sz &&
                         ((INR(X) && gv_k0 < gv_i) ==> MV_SAMEVAL(X->rep[gv_k0], gv_olda - gv_oldb)) &&
                         ((INR(X) && gv_k0 >= gv_i) ==> (MV_SAMEVAL(self->rep[gv_k0], gv_olda) && MV_SAMEVAL(B->rep[gv_k0], gv_oldb))))
__CPROVER_decreases(X->sz - gv_i)
//@ head MatVecBase_sub 1
GV_ANCHOR(x, X->rep + gv_i);
GV_ANCHOR(a, self->rep + gv_i);
GV_ANCHOR(b, B->rep + gv_i);
//@ tail MatVecBase_sub 1
gv_i++;
//@ end

/* ---- VecBase::dim, VecBase::dot ------------------------------------------------------------------------------- */
//@ contract Vec_dim
__CPROVER_requires(__CPROVER_r_ok(self, sizeof(struct Vec))) __CPROVER_assigns()
__CPROVER_ensures(__CPROVER_return_value == self->mem.sz)
//@ contract Vec_dot
__CPROVER_requires(WF_OP(&self->mem) && WF_OP(&B->mem) && gv_exc == 0)
__CPROVER_assigns(gv_exc)
__CPROVER_ensures(self->mem.sz != B->mem.sz ==> gv_exc == GV_BadRank)
__CPROVER_ensures(self->mem.sz == B->mem.sz ==> gv_exc == 0)
__CPROVER_ensures((self->mem.sz == 0 && B->mem.sz == 0) ==> __CPROVER_return_value == 0)
//@ entry Vec_dot
GV_CANARY("Vec_dot entry");
//@ pre Vec_dot 1
long gv_i = 0;
//@ loop Vec_dot 1
__CPROVER_assigns(a, b, sum, gv_i)
__CPROVER_loop_invariant(0 <= gv_i && gv_i <= self->mem.sz && SAME(a, self->mem.rep) && OFF(a) == FSZ * gv_i &&
                         SAME(b, B->mem.rep) && OFF(b) == FSZ * gv_i && SAME(e, self->mem.rep) && OFF(e) == FSZ * (long)self->mem.sz &&
                         (gv_i == 0 ==> sum == 0))
__CPROVER_decreases(self->mem.sz - gv_i)
//@ tail Vec_dot 1
gv_i++;
//@ end

//@ harness
void h_scale(void)
{
  struct MemRep a;
  mk_op(&a);
  Index k;
  Float f;
  gv_k0 = k;
  if (0 <= k && k < a.sz) gv_olda = a.rep[k];
#if GV_WHICH == 0
  MatVecBase_scale(&a, f);
#elif GV_WHICH == 1
  MatVecBase_div(&a, f);
#elif GV_WHICH == 2
  MatVecBase_set_all(&a, f);
#else
  MatVecBase_set_zero(&a);
#endif
  GV_CANARY("h_scale end");
}

void h_mul(void)
{
  struct MemRep a, x;
  mk_op(&a);
  mk_op(&x);
  Index k;
  Float f;
  gv_k0 = k;
  gv_exc = 0;
  struct MemRep *X = GV_ALIAS ? &a : &x; /* GV_ALIAS=1: Vec::operator*=(f) calls mul(f, *this) */
  if (0 <= k && k < a.sz) gv_olda = a.rep[k];
  MatVecBase_mul(&a, f, X);
  GV_CANARY("h_mul end");
}

void h_addsub(void)
{
  struct MemRep a, b, x;
  mk_op(&a);
  mk_op(&b);
  mk_op(&x);
  Index k;
  gv_k0 = k;
  gv_exc = 0;
  /* GV_ALIAS: 0 all distinct, 1 X is *this (operator+=), 2 X is B, 3 all three are one object (v += v) */
  struct MemRep *B = (GV_ALIAS == 3) ? &a : &b;
  struct MemRep *X = (GV_ALIAS == 1 || GV_ALIAS == 3) ? &a : (GV_ALIAS == 2) ? &b : &x;
  if (0 <= k && k < a.sz) gv_olda = a.rep[k];
  if (0 <= k && k < B->sz) gv_oldb = B->rep[k];
#if GV_WHICH == 0
  MatVecBase_add(&a, B, X);
#else
  MatVecBase_sub(&a, B, X);
#endif
  GV_CANARY("h_addsub end");
}

void h_dot(void)
{
  struct Vec a, b;
  mk_op(&a.mem);
  mk_op(&b.mem);
  _Bool same;
  gv_exc = 0;
  Float r = Vec_dot(&a, same ? &a : &b);
  GV_CANARY("h_dot end");
}
//@ end
