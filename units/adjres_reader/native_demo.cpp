// Native demonstration of the two findings of unit adjres_reader on the real reader (not part of any check).
//
//   g++ -std=c++14 -g -fsanitize=address,undefined -I/repo/lib native_demo.cpp \
//       /repo/lib/gnu_gama/xml/{localnetwork_adjustment_results,localnetwork_adjustment_results_data,baseparser,htmlparser,encoding,encoding_cp1251,encoding_unknown_handler}.cpp \
//       /repo/lib/gnu_gama/gon2deg.cpp /repo/lib/gnu_gama/local/xmlerror.cpp -lexpat -o native_demo
//   gama-local /repo/tests/gama-local/input/gama-local.gkf --xml adj.xml
//   ./native_demo adj.xml <variant>
// The <cov-mat> .. </cov-mat> section of the valid result file adj.xml is replaced by
//   ok          <dim>2</dim><band>1</band> + 3 <flt>        accepted (control)
//   band_gt_dim <dim>2</dim><band>5</band> + 3 <flt>        CovMat::reset(2,5) computes the size 2*6-15 = -3.  Observed on the
//                                                           current tree (after 8dd69d2 "MemRep::resize rejects a negative
//                                                           size"): Exception::matvec "MemRep::resize(Index nsz)" is thrown
//                                                           through expat's C frames and nobody catches it: std::terminate
//                                                           (compare-xyz bad.xml good.xml aborts the same way).  Before that
//                                                           commit: SEGV, store to null pointer at Parser::flt (:1721).
//   neg_dim     <dim>-4</dim><band>0</band> + 3 <flt>       observed: the same
//   band_3_5    <dim>3</dim><band>5</band> + 3 <flt>        observed: accepted, "cov dim 3 band 5": a band wider than the matrix
//   huge        <dim>70000</dim><band>69999</band>          observed: signed integer overflow covmat.h:120 (UBSan)
//   no_band     <cov-mat></cov-mat>                         observed: "accepted; cov dim 0"; valgrind: conditional jump
//                                                           depends on uninitialised value at Parser::cov_mat (:1654)
//   too_many    <dim>2</dim><band>1</band> + 7 <flt>        observed: accepted, the 4 surplus elements are dropped silently
// expected in every case but `ok`: refused with an error that names the line.
#include <gnu_gama/xml/localnetwork_adjustment_results.h>
#include <gnu_gama/exception.h>
#include <fstream>
#include <iostream>
#include <sstream>
#include <string>

int main(int argc, char** argv)
{
  if (argc != 3) { std::cerr << "usage: native_demo adj.xml ok|band_gt_dim|neg_dim|band_3_5|huge|no_band|too_many\n"; return 2; }
  std::ifstream f(argv[1]);
  std::stringstream ss; ss << f.rdbuf();
  std::string t = ss.str(), v = argv[2];
  std::string::size_type i = t.find("<cov-mat>"), j = t.find("</cov-mat>");
  if (i == std::string::npos || j == std::string::npos) { std::cerr << "no <cov-mat> in " << argv[1] << "\n"; return 2; }
  auto flts = [](int n) { std::string s; for (int k = 0; k < n; k++) s += "<flt>1.0</flt> "; return s + "\n"; };
  std::string body;
  if      (v == "ok")          body = "<dim>2</dim> <band>1</band>\n" + flts(3);
  else if (v == "band_gt_dim") body = "<dim>2</dim> <band>5</band>\n" + flts(3);
  else if (v == "neg_dim")     body = "<dim>-4</dim> <band>0</band>\n" + flts(3);
  else if (v == "huge")        body = "<dim>70000</dim> <band>69999</band>\n" + flts(3);
  else if (v == "no_band")     body = "";
  else if (v == "band_3_5")    body = "<dim>3</dim> <band>5</band>\n" + flts(3);
  else if (v == "too_many")    body = "<dim>2</dim> <band>1</band>\n" + flts(7);
  else return 2;
  std::istringstream doc(t.substr(0, i) + "<cov-mat>\n" + body + t.substr(j));
  GNU_gama::LocalNetworkAdjustmentResults res;
  try { res.read_xml(doc); std::cout << "accepted; cov dim " << res.cov.dim() << " band " << res.cov.bandWidth() << "\n"; }
  catch (const GNU_gama::Exception::parser& e) { std::cout << "refused: line " << e.line << " : " << e.what() << "\n"; return 3; }
  return 0;
}
