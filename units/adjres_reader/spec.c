/* Sidecar contracts for the reader of gama-local's adjustment XML (properties C11: refused or accepted, safely;
   C12: read back without loss): LocalNetworkAdjustmentResults::Parser, lib/gnu_gama/xml/localnetwork_adjustment_results.cpp
     cov_mat / dim / band / flt (bool start)     <cov-mat><dim/><band/><flt/>...</cov-mat>: the band is streamed into
                                                 adj->cov through the iterators tmp_i / tmp_e
     point / coordinates / x / y / z (bool)      one <point> of <fixed>/<approximate>/<adjusted>
     set_state (localnetwork_adjustment_results.h), CoreParser::error (baseparser.cpp)
   Every handler is ONE function called with start == true at the opening tag (via tagfun[state][tag]) and with
   start == false at the closing tag (via the handler stack).  Only contracts, ghost state, callee stubs and harnesses
   live here; every body under contract is extracted from /repo on every run. */

//@ prelude
#include <limits.h>
#include "adjres_enums.h"
typedef void *XML_Parser;

#define ADJ_MAXDIM 32768           /* bound under which units/matvec_index verifies the CovMat accessors            */
#define ADJ_MAXSZ 536887296L       /* 32768*32769/2: the largest element count of such a matrix                     */
#define DSZ ((long)sizeof(double))

/* CovMat<> seen from the reader: MemRep::rep / sz and the dimensions it was reset to */
struct ADJ_CovMat { double *rep; long sz; int dim, band; };
/* LocalNetworkAdjustmentResultsData::Point; the std::string id is modelled by an integer that identifies the text */
struct ADJ_Point { int id; double x, y, z; bool hxy, hz, cxy, cz; int indx, indy, indz; };
struct ADJ_PointList { int unused; };
struct ADJ_Data { struct ADJ_CovMat cov; };
/* the data members of CoreParser / LocalNetworkAdjustmentResults::Parser that these handlers read or write */
struct ADJ_Parser {
  XML_Parser parser;
  int state, errLineNumber, errCode;
  struct ADJ_Data *adj;
  int tmp_dim, tmp_band;
  double *tmp_i, *tmp_e;             /* CovMat<>::iterator: NOT initialised by the constructor (indeterminate)          */
  bool gv_iter_init;                 /* ghost: tmp_i / tmp_e have been assigned since construction                      */
  struct ADJ_PointList *pointlist;
  int tmp_adj_index;
  int tmp_id;                        /* std::string tmp_id, see ADJ_Point.id                                            */
  struct ADJ_Point tmp_point;
  bool point_has_x, point_has_y, point_has_z, point_con_x, point_con_y, point_con_z, tmp_point_adjusted;
};

int gv_exc;
unsigned long gv_line;
static unsigned long XML_GetCurrentLineNumber(XML_Parser p) { (void)p; return gv_line; }
static void ADJ_errString_assign(struct ADJ_Parser *self) { (void)self; }     /* errString = std::string(text) */

#define ADJ_SELF_OK(p) (__CPROVER_rw_ok((p), sizeof(struct ADJ_Parser)) && __CPROVER_rw_ok((p)->adj, sizeof(struct ADJ_Data)))
#define ADJ_STATE_OK(s) (0 <= (s) && (s) <= ADJ_STATE_LAST)
/* class invariant of CoreParser: a recorded error is never lost (state 0 is absorbing: set_state tests it) */
#define ADJ_INV(p) ((p)->errCode == 0 || (p)->state == s_error)
#define ADJ_DIAG(p) ((p)->errCode != 0 && (p)->errLineNumber == (int)gv_line)
#define ADJ_LINE_OK (gv_line >= 1 && gv_line <= (unsigned long)INT_MAX)

/* the storage of adj->cov is a live block of sz doubles (sz == 0: an empty block) */
#define ADJ_COV_WF(c) (0 <= (c)->sz && (c)->sz <= ADJ_MAXSZ && OFF((c)->rep) == 0 && __CPROVER_rw_ok((c)->rep, (c)->sz * DSZ))
/* INVARIANT of the element stream, from </band> to </cov-mat>:  begin() <= tmp_i <= tmp_e == end()  inside adj->cov */
#define ADJ_ITER_SPAN(p) (ADJ_COV_WF(&(p)->adj->cov) &&                                                                 \
                         SAME((p)->tmp_i, (p)->adj->cov.rep) && SAME((p)->tmp_e, (p)->adj->cov.rep) &&               \
                         OFF((p)->tmp_e) == (p)->adj->cov.sz * DSZ && 0 <= OFF((p)->tmp_i) &&                        \
                         OFF((p)->tmp_i) <= OFF((p)->tmp_e) && OFF((p)->tmp_i) % DSZ == 0)
/* the element iterators are DEFINED: both null (<cov-mat> opened, nothing announced yet) or spanning the storage of adj->cov */
#define ADJ_ITER_INV(p) ((p)->gv_iter_init && (((p)->tmp_i == NULL && (p)->tmp_e == NULL) || ADJ_ITER_SPAN(p)))

/* ---- ghost record of one handler call --------------------------------------------------------------------------- */
enum ADJ_handler { ADJ_H_none, ADJ_H_cov_mat, ADJ_H_dim, ADJ_H_band, ADJ_H_flt, ADJ_H_point, ADJ_H_coordinates,
                   ADJ_H_x, ADJ_H_y, ADJ_H_z };
int gv_usable, gv_dim0;         /* ghost of </band>: verdict of ADJ_DIMS_USABLE, tmp_dim at entry */
int gv_push_n;                 /* handlers pushed on the end-tag stack by this call            */
int gv_push_h;                 /* ... the last one                                              */
int gv_get_failed;             /* get_int / get_float reported a syntax error in this call      */
int gv_int;                    /* value get_int returned                                        */
double gv_float;               /* value get_float returned                                      */
int gv_pushed_n;               /* points appended to *pointlist by this call                    */
struct ADJ_Point gv_pushed;    /* ... the last one                                              */
struct ADJ_PointList *gv_pushed_to;

/* stack.push(&Parser::h) */
static void ADJ_stack_push(struct ADJ_Parser *self, int h)
{
  (void)self;
  if (gv_push_n < 1000) gv_push_n = gv_push_n + 1;
  gv_push_h = h;
}

int ADJ_error(struct ADJ_Parser *self);
/* ASSUMED get_int() / get_float() (localnetwork_adjustment_results.cpp:501, 514): IsInteger / IsFloat on the collected
   text, error("... syntax error") when it fails, then the value `istr >> n` produced: any int / any non-NaN double */
static int ADJ_get_int(struct ADJ_Parser *self)
{
  bool bad;
  int n;
  if (bad) { gv_get_failed = 1; ADJ_error(self); }
  gv_int = n;
  return n;
}
static double ADJ_get_float(struct ADJ_Parser *self)
{
  bool bad;
  double n;
  __CPROVER_assume(n == n);
  if (bad) { gv_get_failed = 1; ADJ_error(self); }
  gv_float = n;
  return n;
}

/* ASSUMED CovMat::reset(d, b) (covmat.h:112) + MemRep::resize: precondition 0 <= b < d <= 2^15 (WF_COV of
   units/matvec_index).  For other arguments d*(b+1) - b*(b+1)/2 is negative -- MemRep::resize then throws
   Exception::matvec, which nothing catches between expat's C frames (before commit 8dd69d2 it left rep == nullptr,
   sz < 0 and the first </flt> stored through the null pointer) --, or overflows int, or (band >= dim with a
   non-negative count, e.g. 3, 5) dimensions a matrix whose band is wider than itself.  Effect under the precondition: a fresh block holding the band (its element count
   >= 1 is not needed by any obligation here and stays opaque). */
static void ADJ_CovMat_reset(struct ADJ_CovMat *c, int d, int b)
{
  long n;
  /* precondition of CovMat::reset: a d x d band matrix (0, 0 when there are no unknowns) whose element count
     d*(b+1) - b*(b+1)/2 is computed in int; exact criterion written without overflow on the specification side */
  __CPROVER_assert(0 <= b && (b < d || (b == 0 && d == 0)) && d <= 2147483647 / (b + 1), "CovMat::reset(dim, band) is given 0 <= band < dim (or 0, 0) with an element count that fits an int (its precondition; the numbers come straight from <dim> and <band>)");
  __CPROVER_assume(0 <= n && n <= ADJ_MAXSZ);
  c->rep = malloc((size_t)n * 8);
  __CPROVER_assume(c->rep != NULL);
  c->sz = n;
  c->dim = d;
  c->band = b;
}
static double *ADJ_CovMat_begin(struct ADJ_CovMat *c) { return c->rep; }            /* MemRep::begin(): rep      */
static double *ADJ_CovMat_end(struct ADJ_CovMat *c) { return c->rep + c->sz; }      /* MemRep::end(): rep + sz   */

/* ASSUMED Point::clear() (localnetwork_adjustment_results_data.h:125): every coordinate, flag and index is reset;
   the id is not touched */
void ADJ_Point_clear(struct ADJ_Point *p)
__CPROVER_requires(__CPROVER_rw_ok(p, sizeof(struct ADJ_Point)))
__CPROVER_assigns(p->x, p->y, p->z, p->hxy, p->hz, p->cxy, p->cz, p->indx, p->indy, p->indz)
__CPROVER_ensures(p->x == 0 && p->y == 0 && p->z == 0 && !p->hxy && !p->hz && !p->cxy && !p->cz &&
                  p->indx == 0 && p->indy == 0 && p->indz == 0);
#define ADJ_POINT_CLEARED(p) ((p)->x == 0 && (p)->y == 0 && (p)->z == 0 && !(p)->hxy && !(p)->hz && !(p)->cxy && \
                              !(p)->cz && (p)->indx == 0 && (p)->indy == 0 && (p)->indz == 0)
/* pointlist->push_back(tmp_point): a copy of the point is appended */
static void ADJ_pointlist_push_back(struct ADJ_PointList *l, const struct ADJ_Point *p)
{
  gv_pushed = *p;
  gv_pushed_to = l;
  if (gv_pushed_n < 1000) gv_pushed_n = gv_pushed_n + 1;
}

void ADJ_set_state(struct ADJ_Parser *self, int new_state);

/* contract shared by every handler: what the call at the OPENING tag does -- push exactly itself, move on, touch
   nothing else (H = handler id, S = its state) */
#define ADJ_START_POST(H, S)                                                                                         \
  __CPROVER_ensures(start ==> (gv_push_n == 1 && gv_push_h == (H) &&                                                 \
                               self->state == (__CPROVER_old(self->state) != s_error ? (S) : s_error) &&             \
                               self->errCode == __CPROVER_old(self->errCode) &&                                      \
                               self->errLineNumber == __CPROVER_old(self->errLineNumber)))                           \
  __CPROVER_ensures(!start ==> gv_push_n == 0)
/* ... and what every call keeps: the class invariant, first error wins, entering the error state records a line */
#define ADJ_COMMON_POST                                                                                              \
  __CPROVER_ensures(ADJ_INV(self) && ADJ_STATE_OK(self->state))                                                      \
  __CPROVER_ensures(__CPROVER_old(self->state) == s_error ==> self->state == s_error)                                \
  __CPROVER_ensures((__CPROVER_old(self->state) != s_error && self->state == s_error) ==> ADJ_DIAG(self))            \
  __CPROVER_ensures(__CPROVER_old(self->errCode) != 0 ==> (self->errCode == __CPROVER_old(self->errCode) &&          \
                                                          self->errLineNumber == __CPROVER_old(self->errLineNumber)))
#define ADJ_COMMON_PRE                                                                                               \
  __CPROVER_requires(ADJ_SELF_OK(self) && ADJ_INV(self) && ADJ_STATE_OK(self->state) && ADJ_LINE_OK)                 \
  __CPROVER_requires(gv_push_n == 0 && gv_get_failed == 0 && gv_pushed_n == 0)
/* state after the CLOSING tag: the handler's end state unless an error is (or was) recorded */
#define ADJ_END_STATE(S) ((__CPROVER_old(self->state) != s_error && gv_get_failed == 0) ? (S) : s_error)
//@ end

/* ------------------------------------------------------------------------------------------------ */
//@ contract ADJ_error
__CPROVER_requires(__CPROVER_rw_ok(self, sizeof(struct ADJ_Parser)))
__CPROVER_requires(ADJ_INV(self) && ADJ_LINE_OK)
__CPROVER_assigns(self->state, self->errCode, self->errLineNumber)
__CPROVER_ensures(__CPROVER_return_value == 1)
__CPROVER_ensures(self->state == s_error && self->errCode != 0)
__CPROVER_ensures(__CPROVER_old(self->errCode) != 0 ==>
                  (self->errCode == __CPROVER_old(self->errCode) &&
                   self->errLineNumber == __CPROVER_old(self->errLineNumber)))
__CPROVER_ensures(__CPROVER_old(self->errCode) == 0 ==> self->errLineNumber == (int)gv_line)
//@ entry ADJ_error
GV_CANARY("ADJ_error entry");
//@ end

/* set_state: the error state is absorbing */
//@ contract ADJ_set_state
__CPROVER_requires(__CPROVER_rw_ok(self, sizeof(struct ADJ_Parser)))
__CPROVER_assigns(self->state)
__CPROVER_ensures(self->state == (__CPROVER_old(self->state) != s_error ? new_state : s_error))
//@ entry ADJ_set_state
GV_CANARY("ADJ_set_state entry");
//@ end

/* ------------------------------------------------------------------------------------------------ */
/* <dim>: the number is stored; nothing else of the stream is touched                                 */
//@ contract ADJ_dim
ADJ_COMMON_PRE
__CPROVER_assigns(self->state, self->errCode, self->errLineNumber, self->tmp_dim, gv_push_n, gv_push_h, gv_get_failed, gv_int)
ADJ_START_POST(ADJ_H_dim, s_dim)
__CPROVER_ensures(start ==> self->tmp_dim == __CPROVER_old(self->tmp_dim))
__CPROVER_ensures(!start ==> (self->tmp_dim == gv_int && self->state == ADJ_END_STATE(s_dim_end)))
ADJ_COMMON_POST
//@ entry ADJ_dim
GV_CANARY("ADJ_dim entry");
//@ end

/* </band>: adj->cov is dimensioned and the iterators span its storage                                */
//@ contract ADJ_band
ADJ_COMMON_PRE
__CPROVER_assigns(self->state, self->errCode, self->errLineNumber, self->tmp_dim, self->tmp_band, self->tmp_i, self->tmp_e,
                  self->gv_iter_init, __CPROVER_object_whole(self->adj), gv_push_n, gv_push_h, gv_get_failed, gv_int, gv_usable, gv_dim0)
ADJ_START_POST(ADJ_H_band, s_band)
__CPROVER_ensures(start ==> (self->tmp_band == __CPROVER_old(self->tmp_band) && self->tmp_i == __CPROVER_old(self->tmp_i) &&
                             self->tmp_e == __CPROVER_old(self->tmp_e) &&
                             self->gv_iter_init == __CPROVER_old(self->gv_iter_init) &&
                             self->adj->cov.rep == __CPROVER_old(self->adj->cov.rep) &&
                             self->adj->cov.sz == __CPROVER_old(self->adj->cov.sz)))
/* the announced pair (dim, band) is usable: a dim x dim matrix with band < dim (0, 0 when there are no unknowns) whose
   element count fits an int -- taken from the property ("performs no out-of-bounds ... access, and either accepts the
   input or reports an error that names a line"), not from the code */
#define ADJ_DIMS_USABLE(d, b) (0 <= (b) && ((b) < (d) || ((b) == 0 && (d) == 0)) && (d) <= 2147483647 / ((b) + 1))
/* gv_usable is ADJ_DIMS_USABLE evaluated by a ghost statement at the point where both numbers are known, on the values the
   postcondition speaks about (asserted there: tmp_dim is still the number </dim> stored, tmp_band is the number just
   converted); naming the verdict keeps the solver from having to equate two 32-bit dividers */
__CPROVER_ensures((!start && gv_usable) ==>
                  (self->tmp_band == gv_int && self->tmp_dim == __CPROVER_old(self->tmp_dim) &&
                   self->state == ADJ_END_STATE(s_flt_end)))
/* refused with a located diagnostic (ADJ_COMMON_POST: entering s_error records the line), and what is dimensioned is empty */
__CPROVER_ensures((!start && !gv_usable) ==>
                  (self->state == s_error && self->errCode != 0 && self->tmp_dim == 0 && self->tmp_band == 0))
__CPROVER_ensures(!start ==> (self->adj->cov.dim == self->tmp_dim && self->adj->cov.band == self->tmp_band))
__CPROVER_ensures(!start ==> (ADJ_ITER_SPAN(self) && self->gv_iter_init && OFF(self->tmp_i) == 0))
ADJ_COMMON_POST
//@ entry ADJ_band
GV_CANARY("ADJ_band entry");
gv_dim0 = self->tmp_dim;
//@ at ADJ_band announced
__CPROVER_assert(self->tmp_dim == gv_dim0 && self->tmp_band == gv_int, "the verdict is taken on the number </dim> stored and the number </band> converted");
gv_usable = ADJ_DIMS_USABLE(self->tmp_dim, self->tmp_band);
//@ at ADJ_band iters
self->gv_iter_init = 1;
//@ end

/* </flt>: at most one element is written, at *tmp_i, never outside [tmp_i, tmp_e); the invariant is kept, so ANY
   number of <flt> elements is safe (induction over the element stream)                                */
//@ contract ADJ_flt
ADJ_COMMON_PRE
__CPROVER_requires(!start ==> ADJ_ITER_INV(self))
__CPROVER_assigns(self->state, self->errCode, self->errLineNumber, self->tmp_i, gv_push_n, gv_push_h, gv_get_failed, gv_float)
__CPROVER_assigns(!start: __CPROVER_object_whole(self->adj->cov.rep))
ADJ_START_POST(ADJ_H_flt, s_flt)
__CPROVER_ensures(start ==> self->tmp_i == __CPROVER_old(self->tmp_i))
__CPROVER_ensures(!start ==> (ADJ_ITER_INV(self) && self->tmp_e == __CPROVER_old(self->tmp_e)))
__CPROVER_ensures((!start && __CPROVER_old(self->tmp_i) != __CPROVER_old(self->tmp_e)) ==>
                  (self->tmp_i == __CPROVER_old(self->tmp_i) + 1 && *(__CPROVER_old(self->tmp_i)) == gv_float))
__CPROVER_ensures((!start && __CPROVER_old(self->tmp_i) == __CPROVER_old(self->tmp_e)) ==>
                  self->tmp_i == __CPROVER_old(self->tmp_i))
__CPROVER_ensures(!start ==> self->state == ADJ_END_STATE(s_flt_end))
ADJ_COMMON_POST
//@ entry ADJ_flt
GV_CANARY("ADJ_flt entry");
//@ end

/* </cov-mat>: a band that was not filled completely is refused                                        */
//@ contract ADJ_cov_mat
ADJ_COMMON_PRE
__CPROVER_requires(!start ==> ADJ_ITER_INV(self))
__CPROVER_assigns(self->state, self->errCode, self->errLineNumber, gv_push_n, gv_push_h)
__CPROVER_assigns(start: self->tmp_dim, self->tmp_band, self->tmp_i, self->tmp_e, self->gv_iter_init)
ADJ_START_POST(ADJ_H_cov_mat, s_cov_mat)
/* <cov-mat> opened: nothing announced, no element expected, iterators defined */
__CPROVER_ensures(start ==> (self->tmp_dim == 0 && self->tmp_band == 0 && self->tmp_i == NULL && self->tmp_e == NULL && ADJ_ITER_INV(self)))
__CPROVER_ensures((!start && self->tmp_i != self->tmp_e) ==> (self->state == s_error && self->errCode != 0))
__CPROVER_ensures(!start ==> self->state == ((__CPROVER_old(self->state) != s_error && self->tmp_i == self->tmp_e)
                                             ? s_cov_mat_end : s_error))
ADJ_COMMON_POST
//@ entry ADJ_cov_mat
GV_CANARY("ADJ_cov_mat entry");
//@ at ADJ_cov_mat opened
self->gv_iter_init = 1;
//@ at ADJ_cov_mat compare
__CPROVER_assert(self->gv_iter_init, "at </cov-mat> tmp_i / tmp_e have been assigned by </band> (the constructor leaves them indeterminate, the closing tag compares them)");
//@ end

/* ------------------------------------------------------------------------------------------------ */
/* <point> ... </point>                                                                               */
//@ contract ADJ_coordinates
ADJ_COMMON_PRE
__CPROVER_assigns(self->state, self->errCode, self->errLineNumber, gv_push_n, gv_push_h)
ADJ_START_POST(ADJ_H_coordinates, s_coordinates)
__CPROVER_ensures(!start ==> self->state == ADJ_END_STATE(s_coordinates_end))
ADJ_COMMON_POST
//@ entry ADJ_coordinates
GV_CANARY("ADJ_coordinates entry");
//@ end

/* opening tag: everything a previous <point> left in tmp_point / the presence flags is gone.
   closing tag: the stored point carries the flags of THIS element; indices are handed out to the coordinates
   present, consecutively, and only inside <adjusted>; what this element did not supply is what the opening tag left */
//@ contract ADJ_point
ADJ_COMMON_PRE
__CPROVER_requires(__CPROVER_rw_ok(self->pointlist, sizeof(struct ADJ_PointList)))
__CPROVER_requires(0 <= self->tmp_adj_index && self->tmp_adj_index <= INT_MAX - 3)
__CPROVER_assigns(self->state, self->errCode, self->errLineNumber, self->tmp_point, self->tmp_adj_index,
                  self->point_has_x, self->point_has_y, self->point_has_z,
                  self->point_con_x, self->point_con_y, self->point_con_z,
                  gv_push_n, gv_push_h, gv_pushed_n, gv_pushed, gv_pushed_to)
ADJ_START_POST(ADJ_H_point, s_point)
__CPROVER_ensures(start ==> (ADJ_POINT_CLEARED(&self->tmp_point) &&
                             !self->point_has_x && !self->point_has_y && !self->point_has_z &&
                             !self->point_con_x && !self->point_con_y && !self->point_con_z &&
                             self->tmp_adj_index == __CPROVER_old(self->tmp_adj_index) && gv_pushed_n == 0))
__CPROVER_ensures(!start ==> (gv_pushed_n == 1 && gv_pushed_to == self->pointlist &&
                              gv_pushed.id == self->tmp_id &&
                              gv_pushed.hxy == (__CPROVER_old(self->point_has_x) && __CPROVER_old(self->point_has_y)) &&
                              gv_pushed.hz == __CPROVER_old(self->point_has_z) &&
                              gv_pushed.cxy == (__CPROVER_old(self->point_con_x) && __CPROVER_old(self->point_con_y)) &&
                              gv_pushed.cz == __CPROVER_old(self->point_con_z) &&
                              gv_pushed.x == __CPROVER_old(self->tmp_point.x) && gv_pushed.y == __CPROVER_old(self->tmp_point.y) &&
                              gv_pushed.z == __CPROVER_old(self->tmp_point.z)))
__CPROVER_ensures(!start ==> ((self->tmp_point_adjusted && gv_pushed.hxy)
                              ? (gv_pushed.indx == __CPROVER_old(self->tmp_adj_index) + 1 && gv_pushed.indy == gv_pushed.indx + 1)
                              : (gv_pushed.indx == __CPROVER_old(self->tmp_point.indx) && gv_pushed.indy == __CPROVER_old(self->tmp_point.indy))))
__CPROVER_ensures(!start ==> ((self->tmp_point_adjusted && gv_pushed.hz)
                              ? gv_pushed.indz == __CPROVER_old(self->tmp_adj_index) + (gv_pushed.hxy ? 3 : 1)
                              : gv_pushed.indz == __CPROVER_old(self->tmp_point.indz)))
__CPROVER_ensures(!start ==> self->tmp_adj_index == __CPROVER_old(self->tmp_adj_index) +
                              (self->tmp_point_adjusted ? (gv_pushed.hxy ? 2 : 0) + (gv_pushed.hz ? 1 : 0) : 0))
/* x without y (or X without Y) is refused */
__CPROVER_ensures((!start && (__CPROVER_old(self->point_has_x) != __CPROVER_old(self->point_has_y) ||
                              __CPROVER_old(self->point_con_x) != __CPROVER_old(self->point_con_y))) ==> self->state == s_error)
__CPROVER_ensures(!start ==> (self->state == s_point_end || self->state == s_error))
ADJ_COMMON_POST
//@ entry ADJ_point
GV_CANARY("ADJ_point entry");
//@ end

/* </x>, </y>, </z>: the coordinate and its presence flag, nothing else of the point */
//@ contract ADJ_x
ADJ_COMMON_PRE
__CPROVER_assigns(self->state, self->errCode, self->errLineNumber, self->tmp_point.x, self->point_has_x,
                  gv_push_n, gv_push_h, gv_get_failed, gv_float)
ADJ_START_POST(ADJ_H_x, s_x)
__CPROVER_ensures(start ==> (self->tmp_point.x == __CPROVER_old(self->tmp_point.x) && self->point_has_x == __CPROVER_old(self->point_has_x)))
__CPROVER_ensures(!start ==> (self->tmp_point.x == gv_float && self->point_has_x && self->state == ADJ_END_STATE(s_x_end)))
ADJ_COMMON_POST
//@ entry ADJ_x
GV_CANARY("ADJ_x entry");
//@ contract ADJ_y
ADJ_COMMON_PRE
__CPROVER_assigns(self->state, self->errCode, self->errLineNumber, self->tmp_point.y, self->point_has_y,
                  gv_push_n, gv_push_h, gv_get_failed, gv_float)
ADJ_START_POST(ADJ_H_y, s_y)
__CPROVER_ensures(start ==> (self->tmp_point.y == __CPROVER_old(self->tmp_point.y) && self->point_has_y == __CPROVER_old(self->point_has_y)))
__CPROVER_ensures(!start ==> (self->tmp_point.y == gv_float && self->point_has_y && self->state == ADJ_END_STATE(s_y_end)))
ADJ_COMMON_POST
//@ entry ADJ_y
GV_CANARY("ADJ_y entry");
//@ contract ADJ_z
ADJ_COMMON_PRE
__CPROVER_assigns(self->state, self->errCode, self->errLineNumber, self->tmp_point.z, self->point_has_z,
                  gv_push_n, gv_push_h, gv_get_failed, gv_float)
ADJ_START_POST(ADJ_H_z, s_z)
__CPROVER_ensures(start ==> (self->tmp_point.z == __CPROVER_old(self->tmp_point.z) && self->point_has_z == __CPROVER_old(self->point_has_z)))
__CPROVER_ensures(!start ==> (self->tmp_point.z == gv_float && self->point_has_z && self->state == ADJ_END_STATE(s_z_end)))
ADJ_COMMON_POST
//@ entry ADJ_z
GV_CANARY("ADJ_z entry");
//@ end

/* ------------------------------------------------------------------------------------------------ */
//@ harness
#define ADJ_STATIC_FACTS __CPROVER_assert(s_error == 0, "s_error is 0 (BaseParser::xml_parse tests state == 0, CoreParser::error assigns 0)")

/* an arbitrary parser object between two handler calls: any state, any recorded / not recorded error consistent with
   the class invariant, any pending numbers, iterators in ANY condition unless `stream` asks for the stream invariant */
static void mk_parser(struct ADJ_Parser *P, struct ADJ_Data *D, struct ADJ_PointList *L, bool stream)
{
  struct ADJ_Parser any;
  struct ADJ_Data anyd;
  *P = any;
  *D = anyd;
  P->adj = D;
  P->pointlist = L;
  __CPROVER_assume(ADJ_STATE_OK(P->state) && ADJ_INV(P) && ADJ_LINE_OK);
  gv_push_n = 0; gv_get_failed = 0; gv_pushed_n = 0;
  long n, k;
  __CPROVER_assume(0 <= n && n <= ADJ_MAXSZ && 0 <= k && k <= n);
  if (stream) {
    D->cov.sz = n;
    D->cov.rep = malloc((size_t)n * 8);              /* n == 0: an empty block, never accessed */
    __CPROVER_assume(D->cov.rep != NULL);
    P->tmp_i = D->cov.rep + k;                        /* k elements have been read so far        */
    P->tmp_e = D->cov.rep + n;
    P->gv_iter_init = 1;
  } else {
    P->gv_iter_init = 0;                              /* constructor state: indeterminate iterators */
  }
}

void h_error(void)
{
  struct ADJ_Parser P;
  ADJ_STATIC_FACTS;
  __CPROVER_assume(ADJ_INV(&P) && ADJ_LINE_OK);
  ADJ_error(&P);
  GV_CANARY("h_error end");
}

void h_set_state(void)
{
  struct ADJ_Parser P;
  int s;
  ADJ_STATIC_FACTS;
  ADJ_set_state(&P, s);
  GV_CANARY("h_set_state end");
}

void h_dim(void)
{
  struct ADJ_Parser P; struct ADJ_Data D; struct ADJ_PointList L;
  bool start, stream;
  ADJ_STATIC_FACTS;
  mk_parser(&P, &D, &L, stream);
  ADJ_dim(&P, start);
  GV_CANARY("h_dim end");
}

void h_band(void)
{
  struct ADJ_Parser P; struct ADJ_Data D; struct ADJ_PointList L;
  bool start, stream;
  ADJ_STATIC_FACTS;
  mk_parser(&P, &D, &L, stream);
  ADJ_band(&P, start);
  GV_CANARY("h_band end");
}

void h_flt(void)
{
  struct ADJ_Parser P; struct ADJ_Data D; struct ADJ_PointList L;
  bool start, stream;
  long k0;
  ADJ_STATIC_FACTS;
  mk_parser(&P, &D, &L, stream);
  __CPROVER_assume(start || stream);       /* a closing </flt> is only reached through flt(true), i.e. in state s_flt_end,
                                              which only </band> and </flt> enter: the stream invariant holds */
  /* ghost index: any element other than the one at tmp_i keeps its value */
  bool watch = stream && 0 <= k0 && k0 < D.cov.sz && D.cov.rep + k0 != P.tmp_i;
  if (watch) D.cov.rep[k0] = 1.5;
  ADJ_flt(&P, start);
  __CPROVER_assert(!watch || D.cov.rep[k0] == 1.5, "flt writes no element other than *tmp_i");
  GV_CANARY("h_flt end");
}

void h_cov_mat(void)
{
  struct ADJ_Parser P; struct ADJ_Data D; struct ADJ_PointList L;
  bool start, stream;
  ADJ_STATIC_FACTS;
  mk_parser(&P, &D, &L, stream);
  ADJ_cov_mat(&P, start);
  GV_CANARY("h_cov_mat end");
}

void h_coordinates(void)
{
  struct ADJ_Parser P; struct ADJ_Data D; struct ADJ_PointList L;
  bool start, stream;
  ADJ_STATIC_FACTS;
  mk_parser(&P, &D, &L, stream);
  ADJ_coordinates(&P, start);
  GV_CANARY("h_coordinates end");
}

void h_point(void)
{
  struct ADJ_Parser P; struct ADJ_Data D; struct ADJ_PointList L;
  bool start, stream;
  ADJ_STATIC_FACTS;
  mk_parser(&P, &D, &L, stream);
  __CPROVER_assume(0 <= P.tmp_adj_index && P.tmp_adj_index <= INT_MAX - 3);
  __CPROVER_assume(P.tmp_point.x == P.tmp_point.x && P.tmp_point.y == P.tmp_point.y && P.tmp_point.z == P.tmp_point.z);
  ADJ_point(&P, start);
  GV_CANARY("h_point end");
}

#ifndef GV_WHICH
#define GV_WHICH 0
#endif
void h_xyz(void)
{
  struct ADJ_Parser P; struct ADJ_Data D; struct ADJ_PointList L;
  bool start, stream;
  ADJ_STATIC_FACTS;
  mk_parser(&P, &D, &L, stream);
  __CPROVER_assume(P.tmp_point.x == P.tmp_point.x && P.tmp_point.y == P.tmp_point.y && P.tmp_point.z == P.tmp_point.z);
  /* one dfcc run enforces one contract: the check's -DGV_WHICH selects the function */
#if GV_WHICH == 0
  ADJ_x(&P, start);
#elif GV_WHICH == 1
  ADJ_y(&P, start);
#else
  ADJ_z(&P, start);
#endif
  GV_CANARY("h_xyz end");
}
//@ end
