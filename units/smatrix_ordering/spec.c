/* Sidecar contracts for lib/gnu_gama/sparse/smatrix_ordering.h (SparseMatrixOrdering<int>::inverse_permutaion, sic)
   and the IntegerList<int> element access it uses (lib/gnu_gama/sparse/intlist.h).  ReverseCuthillMcKee<int> is the
   only ordering instantiated (adj_envelope.h:71, Index=int).  Bodies are extracted from /repo on every run. */

//@ prelude
typedef int Index;
typedef Index *iterator;
#define Index(...) ((int)(__VA_ARGS__ + 0))      /* value construction Index() */
#define ISZ ((long)sizeof(Index))
#define MAXN 2147483646                          /* INT_MAX-1: reset() allocates nods+1 slots */

struct IntegerList { Index *m; Index *e; };
struct SparseMatrixOrdering { struct IntegerList perm, invp; Index nods; };

int   gv_exc;
Index gv_i0;      /* ghost index: forall-introduction of the postcondition, forall-elimination of injectivity */
Index gv_f0;      /* ghost fill value / ghost slot for set_all */

/* an IntegerList holding exactly n slots (m .. e) */
#define IL_WF(L, n) (__CPROVER_rw_ok((L)->m, (long)(n) * sizeof(Index)) && SAME((L)->e, (L)->m) && OFF((L)->m) == 0 && \
                     OFF((L)->e) == (long)(n) * ISZ)
/* perm maps index k into [1,N] */
#define PERM_RANGE(S, k) (1 <= (S)->perm.m[k] && (S)->perm.m[k] <= (S)->nods)
/* injectivity of perm in ghost-index form: no other index maps where gv_i0 maps */
#define PERM_INJ(S, k) ((k) != gv_i0 ==> (S)->perm.m[k] != (S)->perm.m[gv_i0])
//@ end

/* ---- IntegerList::operator() (both overloads): plain slot access, in bounds for 0 <= i < dim() ---- */
//@ contract IntegerList_get
__CPROVER_requires(__CPROVER_r_ok(self, sizeof(struct IntegerList)) && __CPROVER_r_ok(self->m + i, sizeof(Index)))
__CPROVER_assigns()
__CPROVER_ensures(__CPROVER_return_value == self->m[i])
//@ entry IntegerList_get
GV_CANARY("IntegerList_get entry");
//@ contract IntegerList_at
__CPROVER_requires(__CPROVER_r_ok(self, sizeof(struct IntegerList)) && __CPROVER_rw_ok(self->m + i, sizeof(Index)))
__CPROVER_assigns()
__CPROVER_ensures(__CPROVER_return_value == self->m + i)
//@ entry IntegerList_at
GV_CANARY("IntegerList_at entry");
//@ end

/* ---- IntegerList::dim ---- */
//@ contract IntegerList_dim
__CPROVER_requires(__CPROVER_r_ok(self, sizeof(struct IntegerList)) && SAME(self->e, self->m) && OFF(self->e) >= OFF(self->m) &&
                   (OFF(self->e) - OFF(self->m)) % ISZ == 0 && (OFF(self->e) - OFF(self->m)) / ISZ <= 2147483647)
__CPROVER_assigns()
__CPROVER_ensures(__CPROVER_return_value == (OFF(self->e) - OFF(self->m)) / ISZ)
//@ entry IntegerList_dim
GV_CANARY("IntegerList_dim entry");
//@ end

/* ---- IntegerList::set_all(f): every slot equals f afterwards (ghost slot gv_i0) ---- */
//@ contract IntegerList_set_all
__CPROVER_requires(__CPROVER_r_ok(self, sizeof(struct IntegerList)))
__CPROVER_requires(SAME(self->e, self->m) && OFF(self->m) == 0 && OFF(self->e) >= 0 && OFF(self->e) % ISZ == 0 &&
                   __CPROVER_rw_ok(self->m, OFF(self->e)) && !SAME(self->m, self))
__CPROVER_assigns(OFF(self->e) > 0: __CPROVER_object_whole(self->m))
__CPROVER_ensures((0 <= gv_i0 && gv_i0 < OFF(self->e) / ISZ) ==> self->m[gv_i0] == f)
//@ entry IntegerList_set_all
GV_CANARY("IntegerList_set_all entry");
//@ loop IntegerList_set_all 1
__CPROVER_assigns(b; OFF(self->e) > 0: __CPROVER_object_whole(self->m))
__CPROVER_loop_invariant(SAME(b, self->m) && 0 <= OFF(b) && OFF(b) <= OFF(self->e) && OFF(b) % ISZ == 0 &&
                         ((0 <= gv_i0 && gv_i0 < OFF(b) / ISZ) ==> self->m[gv_i0] == f))
__CPROVER_decreases(OFF(self->e) - OFF(b))
//@ head IntegerList_set_all 1
GV_ANCHOR(b, self->m + (b - self->m));
//@ end

/* ---- SparseMatrixOrdering::inverse_permutaion: invp o perm = id, for every N, given that perm maps [1,N]
        injectively into [1,N] (the postcondition of algorithm(); both facts in ghost-index form).           ---- */
//@ contract SparseMatrixOrdering_inverse_permutaion
__CPROVER_requires(__CPROVER_r_ok(self, sizeof(struct SparseMatrixOrdering)))
__CPROVER_requires(0 <= self->nods && self->nods <= MAXN)
__CPROVER_requires(IL_WF(&self->perm, (long)self->nods + 1) && IL_WF(&self->invp, (long)self->nods + 1))
__CPROVER_requires(!SAME(self->perm.m, self->invp.m) && !SAME(self->invp.m, self) && !SAME(self->perm.m, self))
__CPROVER_assigns(__CPROVER_object_whole(self->invp.m))
__CPROVER_ensures((1 <= gv_i0 && gv_i0 <= self->nods) ==> self->invp.m[self->perm.m[gv_i0]] == gv_i0)
//@ entry SparseMatrixOrdering_inverse_permutaion
GV_CANARY("SparseMatrixOrdering_inverse_permutaion entry");
if (1 <= gv_i0 && gv_i0 <= self->nods) GV_INST(1 <= gv_i0 && gv_i0 <= self->nods, PERM_RANGE(self, gv_i0));
//@ loop SparseMatrixOrdering_inverse_permutaion 1
__CPROVER_assigns(i, __CPROVER_object_whole(self->invp.m))
__CPROVER_loop_invariant(1 <= i && i <= N + 1 && N == self->nods &&
                         ((1 <= gv_i0 && gv_i0 < i && gv_i0 <= N) ==> self->invp.m[self->perm.m[gv_i0]] == gv_i0))
__CPROVER_decreases((long)N + 1 - i)
//@ head SparseMatrixOrdering_inverse_permutaion 1
GV_INST(1 <= i && i <= self->nods, PERM_RANGE(self, i));
if (1 <= gv_i0 && gv_i0 <= self->nods) GV_INST(1 <= i && i <= self->nods, PERM_INJ(self, i));
//@ end

//@ harness
static void mk_il(struct IntegerList *L, long n)
{
  L->m = malloc(n * sizeof(Index));
  __CPROVER_assume(L->m);
  L->e = L->m + n;
}

void h_invp(void)
{
  struct SparseMatrixOrdering O;
  Index n, i0;
  __CPROVER_assume(0 <= n && n <= MAXN);
  O.nods = n;
  mk_il(&O.perm, (long)n + 1);
  mk_il(&O.invp, (long)n + 1);
  gv_i0 = i0;
  SparseMatrixOrdering_inverse_permutaion(&O);
  GV_CANARY("h_invp end");
}

void h_access(void)
{
  struct IntegerList L;
  Index n, i;
  __CPROVER_assume(0 <= n && 0 <= i && i < n);
  mk_il(&L, n);
  Index v = IntegerList_get(&L, i);
  Index *p = IntegerList_at(&L, i);
  __CPROVER_assert(*p == v, "both operator() overloads address the same slot");
  __CPROVER_assert(IntegerList_dim(&L) == n, "dim() is the number of slots");
  GV_CANARY("h_access end");
}

void h_set_all(void)
{
  struct IntegerList L;
  Index n, i0, f;
  __CPROVER_assume(0 <= n);
  mk_il(&L, n);
  gv_i0 = i0;
  IntegerList_set_all(&L, f);
  GV_CANARY("h_set_all end");
}
//@ end
