// Oracle for units/intfloat: the documented literal grammars as explicit DFAs (spec functions).
// Written from the grammar, not from intfloat.h; shared by the CBMC harness and the native replay.
//     float   :  ws* [+-]? ( D+ ('.' D*)? | '.' D+ ) ( [eE] [+-]? D+ )? ws*
//     integer :  ws* [+-]? D+ ws*
#ifndef GV_REF_GRAMMAR_H
#define GV_REF_GRAMMAR_H

static bool sp_ws(char c)    { return c == ' ' || c == '\t' || c == '\n' || c == '\v' || c == '\f' || c == '\r'; }
static bool sp_digit(char c) { return c >= '0' && c <= '9'; }
static bool sp_sign(char c)  { return c == '+' || c == '-'; }

enum { F_LEAD, F_SIGN, F_INT, F_FRAC, F_DOT, F_E, F_ESIGN, F_EXP, F_TRAIL, F_REJ };

//  ws* [+-]? ( D+ ('.' D*)? | '.' D+ ) ( [eE] [+-]? D+ )? ws*
static bool ref_float(const char *s, int n)
{
  int st = F_LEAD;
  for (int i = 0; i < n; i++) {
    const char c = s[i];
    switch (st) {
    case F_LEAD:  st = sp_ws(c) ? F_LEAD : sp_sign(c) ? F_SIGN : sp_digit(c) ? F_INT : c == '.' ? F_DOT : F_REJ; break;
    case F_SIGN:  st = sp_digit(c) ? F_INT : c == '.' ? F_DOT : F_REJ; break;
    case F_INT:   st = sp_digit(c) ? F_INT : c == '.' ? F_FRAC : (c == 'e' || c == 'E') ? F_E : sp_ws(c) ? F_TRAIL : F_REJ; break;
    case F_FRAC:  st = sp_digit(c) ? F_FRAC : (c == 'e' || c == 'E') ? F_E : sp_ws(c) ? F_TRAIL : F_REJ; break;
    case F_DOT:   st = sp_digit(c) ? F_FRAC : F_REJ; break;
    case F_E:     st = sp_sign(c) ? F_ESIGN : sp_digit(c) ? F_EXP : F_REJ; break;
    case F_ESIGN: st = sp_digit(c) ? F_EXP : F_REJ; break;
    case F_EXP:   st = sp_digit(c) ? F_EXP : sp_ws(c) ? F_TRAIL : F_REJ; break;
    case F_TRAIL: st = sp_ws(c) ? F_TRAIL : F_REJ; break;
    default:      st = F_REJ; break;
    }
  }
  return st == F_INT || st == F_FRAC || st == F_EXP || st == F_TRAIL;
}

enum { I_LEAD, I_SIGN, I_DIG, I_TRAIL, I_REJ };

//  ws* [+-]? D+ ws*
static bool ref_integer(const char *s, int n)
{
  int st = I_LEAD;
  for (int i = 0; i < n; i++) {
    const char c = s[i];
    switch (st) {
    case I_LEAD:  st = sp_ws(c) ? I_LEAD : sp_sign(c) ? I_SIGN : sp_digit(c) ? I_DIG : I_REJ; break;
    case I_SIGN:  st = sp_digit(c) ? I_DIG : I_REJ; break;
    case I_DIG:   st = sp_digit(c) ? I_DIG : sp_ws(c) ? I_TRAIL : I_REJ; break;
    case I_TRAIL: st = sp_ws(c) ? I_TRAIL : I_REJ; break;
    default:      st = I_REJ; break;
    }
  }
  return st == I_DIG || st == I_TRAIL;
}

#endif
