// Route P harness for the REAL lib/gnu_gama/intfloat.h (properties C11-U2, C18-U1).
// The header is compiled by CBMC's C++ front end; the only lowering (rule R12, `using namespace std;`
// statement -> `;`) is done by pre_lower.py into <scratch>/intfloat_lowered.h on every run.
// Nothing in this file is a copy of a gama function: it contains the harnesses and an INDEPENDENT oracle,
// a table-free DFA written from the documented literal grammar
//     IsFloat   :  ws* [+-]? ( D+ ('.' D*)? | '.' D+ ) ( [eE] [+-]? D+ )? ws*      (xs:double minus INF/NaN)
//     IsInteger :  ws* [+-]? D+ ws*
// (ws = white space of the "C" locale; D = '0'..'9').
//
// CBMC's C++ mode has no contract syntax, so every contract is enforced as  assume(pre); call; assert(post).
// All loops (of the header and of the oracle) are bounded by the string length n <= GV_L; the driver passes
// --unwind GV_L+2 --unwinding-assertions, so a pass is complete for ALL byte strings of length <= GV_L.
//
// Memory obligation "reads only inside [b,e)": the string lives in a heap object of EXACTLY n bytes
// (b = base, e = base + n), so any read outside [b,e) is an out-of-bounds dereference (--pointer-check).

#include <cctype>                 // /verif/stubs/cctype : classifier stubs, argument domain asserted
#include "intfloat_lowered.h"     // generated from /repo/lib/gnu_gama/intfloat.h on this run

int gv_ctype_calls = 0;

#ifndef GV_L
#define GV_L 6
#endif

#define GV_CANARY(tag) __CPROVER_assert(0, "GV_CANARY " tag)

extern "C" void *malloc(__CPROVER_size_t);

typedef const char *It;

// ---------------------------------------------------------------------------------------------------
// oracle (spec functions)

#include "ref_grammar.h"         // the oracle (shared with the native replay, units/intfloat/replay.cpp)

// ---------------------------------------------------------------------------------------------------
// harness helpers

int w_off;                      // h_skip: start offset
int w_n;                        // witness values for the native replay (read from the trace)
int w_c[GV_L + 1];            // byte i of the string as a number

// an arbitrary byte string of length n <= GV_L in a heap object of exactly n bytes
static char *mk_string(int *pn)
{
  int n;
  __CPROVER_assume(n >= 0 && n <= GV_L);
  char *s = (char *)malloc(n);
  __CPROVER_assume(s != 0);
  for (int i = 0; i < n; i++) {
    char c;
    s[i] = c;
    w_c[i] = c;
  }
  w_n = n;
  *pn = n;
  return s;
}

// NOTE: the two wrappers `template <typename String> bool IsFloat/IsInteger(const String& s)` (3 lines each:
// b = s.begin(), e = s.end(), return IsX(b, e)) cannot be instantiated by CBMC's C++ front end
// (`typename String::const_iterator`: "scope 'String' not found"); they are not covered by this unit.

// ---------------------------------------------------------------------------------------------------
// SkipWhiteSpaces(b, e): b moves forward inside [b0, e] over white space only and stops at e or at the
// first non-space byte.
void h_skip()
{
  int n;
  char *s = mk_string(&n);
  It b0 = s, e = s + n;
  int off;                                   // any sub-range [b0+off, e)
  __CPROVER_assume(off >= 0 && off <= n);
  It b = b0 + off;
  w_off = off;
  GNU_gama::SkipWhiteSpaces(b, e);
  GV_CANARY("h_skip after call");
  __CPROVER_assert(__CPROVER_same_object(b, s), "SkipWhiteSpaces: b stays in the string object");
  int k = b - b0;
  __CPROVER_assert(k >= off && k <= n, "SkipWhiteSpaces: b0 <= b' <= e");
  for (int i = 0; i < n; i++)
    if (i >= off && i < k) __CPROVER_assert(sp_ws(s[i]), "SkipWhiteSpaces: every skipped byte is white space");
  __CPROVER_assert(k == n || !sp_ws(s[k]), "SkipWhiteSpaces: stops at e or at a non-space byte");
  if (gv_ctype_calls > 0) GV_CANARY("ctype stub reached");
  GV_CANARY("h_skip end");
}

// TrimWhiteSpaces(b, e): the new range is inside the old one, what was cut off is white space only, and
// the result is either empty or starts and ends with a non-space byte.
void h_trim()
{
  int n;
  char *s = mk_string(&n);
  It b = s, e = s + n;
  GNU_gama::TrimWhiteSpaces(b, e);
  GV_CANARY("h_trim after call");
  __CPROVER_assert(__CPROVER_same_object(b, s) && __CPROVER_same_object(e, s), "TrimWhiteSpaces: b, e stay in the string object");
  int kb = b - s, ke = e - s;
  __CPROVER_assert(0 <= kb && kb <= ke && ke <= n, "TrimWhiteSpaces: b0 <= b' <= e' <= e0");
  for (int i = 0; i < n; i++)
    if (i < kb || i >= ke) __CPROVER_assert(sp_ws(s[i]), "TrimWhiteSpaces: every removed byte is white space");
  __CPROVER_assert(kb == ke || (!sp_ws(s[kb]) && !sp_ws(s[ke - 1])), "TrimWhiteSpaces: result is empty or has non-space ends");
  if (gv_ctype_calls > 0) GV_CANARY("ctype stub reached");
  GV_CANARY("h_trim end");
}

// IsFloat == oracle
void h_isfloat()
{
  int n;
  char *s = mk_string(&n);
  It b = s, e = s + n;
  bool r = GNU_gama::IsFloat(b, e);
  GV_CANARY("h_isfloat after call");
  bool ref = ref_float(s, n);
  __CPROVER_assert(!r || ref, "IsFloat accepts only strings of the documented float grammar");
  __CPROVER_assert(r || !ref, "IsFloat accepts every string of the documented float grammar");
  __CPROVER_assert(__CPROVER_same_object(b, s) && b - s >= 0 && b - s <= n, "IsFloat: b stays inside [b0, e]");
  if (r) GV_CANARY("h_isfloat accepting path");
  if (!r) GV_CANARY("h_isfloat rejecting path");
  if (gv_ctype_calls > 0) GV_CANARY("ctype stub reached");
  GV_CANARY("h_isfloat end");
}

// IsInteger == oracle
void h_isinteger()
{
  int n;
  char *s = mk_string(&n);
  It b = s, e = s + n;
  bool r = GNU_gama::IsInteger(b, e);
  GV_CANARY("h_isinteger after call");
  bool ref = ref_integer(s, n);
  __CPROVER_assert(!r || ref, "IsInteger accepts only strings of the documented integer grammar");
  __CPROVER_assert(r || !ref, "IsInteger accepts every string of the documented integer grammar");
  __CPROVER_assert(__CPROVER_same_object(b, s) && b - s >= 0 && b - s <= n, "IsInteger: b stays inside [b0, e]");
  // an accepted integer is an accepted float (the documented formats are nested)
  It b3 = s;
  __CPROVER_assert(!r || GNU_gama::IsFloat(b3, e), "every accepted integer literal is an accepted float literal");
  if (r) GV_CANARY("h_isinteger accepting path");
  if (!r) GV_CANARY("h_isinteger rejecting path");
  if (gv_ctype_calls > 0) GV_CANARY("ctype stub reached");
  GV_CANARY("h_isinteger end");
}

// Classifier domain (ISO C 7.4p1) for all four functions on arbitrary bytes: the obligations are the
// assertions inside the <cctype> stub (ISO domain -1..255; no check of this unit defines GV_CTYPE_GLIBC any more).
void h_ctype()
{
  int n;
  char *s = mk_string(&n);
  It b = s, e = s + n;
  int which;
  if (which == 0)      GNU_gama::SkipWhiteSpaces(b, e);
  else if (which == 1) GNU_gama::TrimWhiteSpaces(b, e);
  else if (which == 2) GNU_gama::IsInteger(b, e);
  else                 GNU_gama::IsFloat(b, e);
  if (gv_ctype_calls > 0) GV_CANARY("ctype stub reached");
  GV_CANARY("h_ctype end");
}
