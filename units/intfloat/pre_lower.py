#!/usr/bin/env python3
"""pre hook of unit intfloat (route P): write a lowered copy of the REAL lib/gnu_gama/intfloat.h into the
scratch directory.  The only rewrite is rule R12 of DESIGN.md 4.1: the block-scope statement
`using namespace std;` (which CBMC's C++ front end rejects) becomes the empty statement `;`.
The rule must fire; everything else is copied byte for byte.   args: <repo> <scratchdir>"""
import hashlib
import re
import sys

repo, sdir = sys.argv[1], sys.argv[2]
src = repo + '/lib/gnu_gama/intfloat.h'
try:
    text = open(src, encoding='utf-8', errors='replace').read()
except OSError as e:
    print('cannot read %s: %s' % (src, e))
    sys.exit(2)
# only the part of the header before the demo main() is relevant, but the whole file is kept: the demo is
# behind #ifdef GNU_gama_CheckNum_IntFloat_demo which is never defined here.
low, n = re.subn(r'^([ \t]*)using\s+namespace\s+std\s*;', r'\1;', text, flags=re.M)
if n < 4:
    print('rule R12 fired %d times (< 4) on %s' % (n, src))
    sys.exit(2)
for fn in ('SkipWhiteSpaces', 'TrimWhiteSpaces', 'IsInteger', 'IsFloat'):
    if not re.search(r'template\s*<typename Iterator>\s*(?:void|bool)\s+%s\s*\(' % fn, low):
        print('function template %s(Iterator...) not found in %s' % (fn, src))
        sys.exit(2)
with open(sdir + '/intfloat_lowered.h', 'w') as f:
    f.write('// GENERATED from %s (sha1 %s) by units/intfloat/pre_lower.py; rule R12 fired %d times\n'
            % (src, hashlib.sha1(text.encode()).hexdigest(), n))
    f.write(low)
print('intfloat_lowered.h: R12 fired %d times' % n)
