// Native replay for unit "intfloat": rebuilds the verifier's counterexample string, runs the REAL recognisers of
// lib/gnu_gama/intfloat.h (g++, real <cctype>) and re-evaluates the oracle.  exit 1 = reproduces, 0 = does not.
#include <cstdio>
#include <string>
#include <cctype>
// Probe for check ctype_iso: classifiers declared in namespace GNU_gama BEFORE the real header is included are
// what the unqualified calls `isspace(*b)` / `isdigit(*b)` inside the header's templates resolve to; they record
// the smallest argument the REAL code passes and forward to the real <cctype>.
static int gv_min_arg = 0;
namespace GNU_gama {
  inline int isspace(int c) { if (c < gv_min_arg) gv_min_arg = c; return std::isspace(c); }
  inline int isdigit(int c) { if (c < gv_min_arg) gv_min_arg = c; return std::isdigit(c); }
}
#include <gnu_gama/intfloat.h>
#include "gv_replay.h"
#include "ref_grammar.h"

static std::string show(const std::string& s)
{
  std::string o = "\"";
  char b[8];
  for (unsigned char c : s) {
    if (c >= 32 && c < 127 && c != '"' && c != '\\') o += (char)c;
    else { std::snprintf(b, sizeof b, "\\x%02X", c); o += b; }
  }
  return o + "\"";
}

int main(int argc, char** argv)
{
  if (argc < 3) return 2;
  GvInputs in(argv[1]);
  std::string check = argv[2];
  if (!in.has("w_n")) { std::printf("no witness values in the trace\n"); return 2; }
  long n = in.integer("w_n", 0);
  std::string s;
  for (long i = 0; i < n; i++) {
    char key[32];
    std::snprintf(key, sizeof key, "w_c[%ldl]", i);
    s += (char)in.integer(key, 0);
  }
  int bad = 0;
  if (check.find("isinteger") == 0) {
    bool r = GNU_gama::IsInteger(s), ref = ref_integer(s.data(), (int)s.size());
    std::printf("IsInteger(%s) = %d, documented grammar ws* [+-]? D+ ws* says %d\n", show(s).c_str(), (int)r, (int)ref);
    if (r != ref) bad++;
    if (r && !GNU_gama::IsFloat(s)) { std::printf("accepted as integer but refused as float\n"); bad++; }
  } else if (check.find("isfloat") == 0) {
    bool r = GNU_gama::IsFloat(s), ref = ref_float(s.data(), (int)s.size());
    std::printf("IsFloat(%s) = %d, documented grammar says %d\n", show(s).c_str(), (int)r, (int)ref);
    if (r != ref) bad++;
  } else if (check.find("trim") == 0) {
    std::string::const_iterator b = s.begin(), e = s.end();
    GNU_gama::TrimWhiteSpaces(b, e);
    long kb = b - s.begin(), ke = e - s.begin();
    std::printf("TrimWhiteSpaces(%s) -> [%ld,%ld)\n", show(s).c_str(), kb, ke);
    if (!(0 <= kb && kb <= ke && ke <= n)) bad++;
    else {
      for (long i = 0; i < n; i++) if ((i < kb || i >= ke) && !sp_ws(s[i])) { std::printf("removed byte %ld is not white space\n", i); bad++; }
      if (kb != ke && (sp_ws(s[kb]) || sp_ws(s[ke - 1]))) { std::printf("result still has a white-space end\n"); bad++; }
    }
  } else if (check.find("skip") == 0) {
    long off = in.integer("w_off", 0);
    if (off < 0 || off > n) off = 0;
    std::string::const_iterator b = s.begin() + off, e = s.end();
    GNU_gama::SkipWhiteSpaces(b, e);
    long k = b - s.begin();
    std::printf("SkipWhiteSpaces(%s from %ld) -> %ld\n", show(s).c_str(), off, k);
    if (!(off <= k && k <= n)) bad++;
    else {
      for (long i = off; i < k; i++) if (!sp_ws(s[i])) { std::printf("skipped byte %ld is not white space\n", i); bad++; }
      if (k != n && sp_ws(s[k])) { std::printf("stopped on a white-space byte\n"); bad++; }
    }
  } else if (check.find("ctype") == 0) {
    // ISO C 7.4p1: the argument of isspace/isdigit must be representable as unsigned char or be EOF.
    // intfloat.h passes `*b` (a plain char) unconverted; with signed char a byte >= 0x80 arrives as a negative int.
    {
      std::string::const_iterator b = s.begin(), e = s.end();
      GNU_gama::SkipWhiteSpaces(b, e);
      b = s.begin(); GNU_gama::TrimWhiteSpaces(b, e);
      b = s.begin(); e = s.end(); GNU_gama::IsInteger(b, e);
      b = s.begin(); e = s.end(); GNU_gama::IsFloat(b, e);
    }
    std::printf("string %s: smallest argument passed to isspace/isdigit by the real recognisers = %d\n", show(s).c_str(), gv_min_arg);
    if (gv_min_arg < -1) {
      std::printf("outside the ISO C domain -1..255 (undefined behaviour; glibc tolerates -128..-2 by table layout)\n");
      bad++;
    }
  } else {
    std::printf("no native replay for check %s\n", check.c_str());
    return 2;
  }
  std::printf("%s\n", bad ? "POSTCONDITION VIOLATED" : "ok");
  return bad ? 1 : 0;
}
