/* Sidecar contract for GNU_gama::deg2gon (lib/gnu_gama/gon2deg.cpp): sexagesimal literal "[+-]D-M-S" -> gon.
   The character-level parsing is done by std::istringstream (trusted stub: returns arbitrary non-negative-or-negative
   fields and records them in ghosts); what is under contract is everything gama adds around it: the sign handling,
   the rejection of negative fields, and the composition of the value.  Property C18: "sexagesimal and centesimal angle
   strings and values convert into each other ... with valid field ranges". */

//@ prelude
int gv_exc;
struct gv_str { const char *b, *e; };
struct gv_iss { int reads; };
/* ghosts: the three fields the stream delivered (valid when the corresponding read succeeded) */
int gv_d, gv_m; double gv_s; _Bool gv_has_d, gv_has_m, gv_has_s; _Bool gv_first_is_minus;

int nondet_int(void);
double nondet_double(void);
_Bool nondet_bool(void);

/* TrimWhiteSpaces(b, e): assumed contract (verified on the real header in units/intfloat): the range shrinks inside itself */
static void gv_TrimWhiteSpaces(const char **b, const char **e)
{
  long n = *e - *b;
  long lo = nondet_int(), hi = nondet_int();
  __CPROVER_assume(0 <= lo && lo <= hi && hi <= n);
  const char *b0 = *b;
  *b = b0 + lo; *e = b0 + hi;
}
static struct gv_iss gv_iss_make(const char *b, const char *e)
{
  __CPROVER_assert(__CPROVER_same_object(b, e) && b < e, "istringstream is built from a non-empty range inside the literal");
  struct gv_iss s = { 0 };
  return s;
}
static _Bool gv_iss_int(struct gv_iss *s, int *out, int which)
{
  if (!nondet_bool()) return 0;
  int v = nondet_int();
  __CPROVER_assume(-100000000 <= v && v <= 100000000);
  *out = v;
  if (which == 0) { gv_d = v; gv_has_d = 1; } else { gv_m = v; gv_has_m = 1; }
  return 1;
}
static _Bool gv_iss_double(struct gv_iss *s, double *out)
{
  if (!nondet_bool()) return 0;
  double v = nondet_double();
  __CPROVER_assume(v == v && v > -1e12 && v < 1e12);
  *out = v; gv_s = v; gv_has_s = 1;
  return 1;
}
static int gv_iss_get(struct gv_iss *s) { int c = nondet_int(); __CPROVER_assume(-1 <= c && c <= 255); return c; }
static int gv_iss_peek(struct gv_iss *s) { int c = nondet_int(); __CPROVER_assume(-1 <= c && c <= 255); return c; }
static _Bool gv_iss_eof(struct gv_iss *s) { return nondet_bool(); }
static int gv_isdigit(int c) { __CPROVER_assert(-1 <= c && c <= 255, "isdigit argument in the <cctype> domain"); return c >= '0' && c <= '9'; }
//@ end

//@ contract deg2gon
__CPROVER_requires(__CPROVER_same_object(deg.b, deg.e) && deg.b <= deg.e && __CPROVER_r_ok(deg.b, deg.e - deg.b))
__CPROVER_requires(__CPROVER_w_ok(gon__p, sizeof(double)) && !gv_has_d && !gv_has_m && !gv_has_s)
__CPROVER_assigns(gon, gv_d, gv_m, gv_s, gv_has_d, gv_has_m, gv_has_s, gv_first_is_minus)
/* accepted => all three fields were read and none is negative */
__CPROVER_ensures(__CPROVER_return_value ==> (gv_has_d && gv_has_m && gv_has_s && gv_d >= 0 && gv_m >= 0 && gv_s >= 0))
/* the sign of the value is the sign written in front of the literal, also when the degrees field is 0 */
__CPROVER_ensures((__CPROVER_return_value && gv_first_is_minus) ==> (gon <= 0 && ((gv_d > 0 || gv_m > 0 || gv_s >= 1e-9) ==> gon < 0)))
__CPROVER_ensures((__CPROVER_return_value && !gv_first_is_minus) ==> (gon >= 0 && ((gv_d > 0 || gv_m > 0 || gv_s >= 1e-9) ==> gon > 0)))
/* no negative zero and no NaN */
__CPROVER_ensures(__CPROVER_return_value ==> (gon == gon))
/* refused => the output is untouched */
__CPROVER_ensures(!__CPROVER_return_value ==> gon == __CPROVER_old(gon) || __CPROVER_old(gon) != __CPROVER_old(gon))
//@ entry deg2gon
GV_CANARY("deg2gon entry");
//@ at deg2gon sign
gv_first_is_minus = (*b == '-');
//@ end

//@ harness
void h_deg2gon(void)
{
  long n = nondet_int();
  __CPROVER_assume(0 <= n && n <= 64);
  char *buf = malloc(n);
  __CPROVER_assume(buf != NULL);
  struct gv_str deg = { buf, buf + n };
  double gon = nondet_double();
  gv_has_d = gv_has_m = gv_has_s = 0;
  _Bool r = deg2gon(deg, &gon);
  GV_CANARY("h_deg2gon end");
}
//@ end
