// Native replay for unit "deg2gon": the failed obligations are about the sign / field validity of accepted sexagesimal
// literals; a small family of literals is run through the real GNU_gama::deg2gon.  exit 1 = violation reproduces.
#include <cmath>
#include <cstdio>
#include <string>
#include <gnu_gama/gon2deg.h>
#include "gv_replay.h"
int main(int argc, char** argv)
{
  if (argc < 3) return 2;
  const char* lits[] = {"-0-30-00", "-0-00-30", "-0-00-00.5", "+0-30-00", "0-30-00", "-1-00-00", "-12-34-56.7", "12-34-56.7",
                        "-0-0-0", "0-0-0", "1--5-0", "1-5--2", "-359-59-59.99"};
  int bad = 0;
  for (const char* l : lits) {
    double g = 12345;
    bool ok = GNU_gama::deg2gon(l, g);
    std::string s(l);
    bool minus = s[0] == '-';
    bool negfield = s.find("--") != std::string::npos;
    if (ok && negfield) { bad++; std::printf("deg2gon(\"%s\") accepted a negative field\n", l); }
    if (!ok) continue;
    bool zero = (s.find_first_of("123456789") == std::string::npos);
    if (minus && !zero && !(g < 0)) { bad++; std::printf("deg2gon(\"%s\") = %.10g : a literal with a minus sign gave a non-negative value\n", l, g); }
    if (!minus && !zero && !(g > 0)) { bad++; std::printf("deg2gon(\"%s\") = %.10g : a literal without a minus sign gave a non-positive value\n", l, g); }
    if (g != g) { bad++; std::printf("deg2gon(\"%s\") is NaN\n", l); }
  }
  std::printf("deg2gon: %s\n", bad ? "VIOLATION reproduces on the real code" : "ok on the real code");
  return bad ? 1 : 0;
}
