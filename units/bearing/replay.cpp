// Native replay for unit "bearing": calls the REAL bearing_distance (lib/gnu_gama/local/bearing.cpp, linked in).
// The verifier's counterexample lives in the assumed contract of atan2 (a tiny negative return value); natively the
// same situation is a target just below the +x axis of the start point.   exit 1 = violation reproduces.
#include <cmath>
#include <cstdio>
#include <string>
#include "gv_replay.h"
#ifndef M_PI
#define M_PI 3.14159265358979323846
#endif
namespace GNU_gama { namespace local {
  void bearing_distance(double ya, double xa, double yb, double xb, double& b, double& d);
}}

static int probe(double ya, double xa, double yb, double xb)
{
  double b = -1, d = -1;
  GNU_gama::local::bearing_distance(ya, xa, yb, xb, b, d);
  int bad = !(d >= 0 && b >= 0 && b < 2 * M_PI);
  std::printf("bearing_distance(ya=%.17g, xa=%.17g, yb=%.17g, xb=%.17g): bearing=%.17g distance=%.17g  (2*M_PI=%.17g)%s\n",
              ya, xa, yb, xb, b, d, 2 * M_PI, bad ? "  <-- outside [0, 2 pi)" : "");
  return bad;
}

int main(int argc, char** argv)
{
  if (argc < 3) return 2;
  GvInputs in(argv[1]);
  double ya = in.num("w_ya", 0), xa = in.num("w_xa", 0), yb = in.num("w_yb", 0), xb = in.num("w_xb", 0);
  int bad = probe(ya, xa, yb, xb);
  // the derived witness: same start point, target 1e-9 m below the +x axis at the witness distance (>= 1 m)
  double dist = std::hypot(yb - ya, xb - xa);
  if (!(dist >= 1)) dist = 1;
  bad |= probe(0, 0, -1e-9, 1e7);
  bad |= probe(ya, xa, ya - 1e-17 * dist, xa + dist);
  std::printf("%s\n", bad ? "POSTCONDITION VIOLATED" : "ok");
  return bad ? 1 : 0;
}
