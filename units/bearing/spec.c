/* Sidecar contracts for lib/gnu_gama/local/bearing.cpp : bearing_distance(double,double,double,double,double&,double&)
   (property C18-U3).  The body is extracted from /repo on every run. */

//@ prelude
int gv_exc;
#ifndef M_PI
#define M_PI 3.14159265358979323846264338327950288419716939937510
#endif

double gv_sqrt_arg, gv_sqrt_ret;          /* ghost: last call of sqrt */
double gv_atan2_y, gv_atan2_x, gv_atan2_ret;
int    gv_atan2_calls;

/* assumed contract of libm sqrt (see unit.json) */
static inline double bd_sqrt(double x)
{
  __CPROVER_assert(x >= 0, "sqrt argument is non-negative");
  double r;   /* any value allowed by the assumed contract */
  __CPROVER_assume(r >= 0 && (x > 0 ? r > 0 : r == 0));
  gv_sqrt_arg = x;
  gv_sqrt_ret = r;
  return r;
}

/* assumed contract of libm atan2 (see unit.json) */
static inline double bd_atan2(double y, double x)
{
  __CPROVER_assert(y == y && x == x, "atan2 arguments are not NaN");
  __CPROVER_assert(!(y == 0 && x == 0), "atan2 is not called with (0, 0)");
  double r;   /* any value allowed by the assumed contract */
  __CPROVER_assume(r >= -M_PI && r <= M_PI);
  gv_atan2_y = y;
  gv_atan2_x = x;
  gv_atan2_ret = r;
  gv_atan2_calls++;
  return r;
}
#define MAXC 1e7
#define INR(v) ((v) >= -MAXC && (v) <= MAXC)
//@ end

/* bearing_distance: d >= 0; a distance below 1e-6 gives exactly (0, 0) and atan2 is not called; otherwise d is the
   value of sqrt(dy^2 + dx^2), atan2 is called once with (yb - ya, xb - xa) and the bearing is its value reduced to
   the half-open turn [0, 2 pi).                                                                              */
//@ contract bearing_distance
__CPROVER_requires(INR(ya) && INR(xa) && INR(yb) && INR(xb))
__CPROVER_requires(__CPROVER_w_ok(b__p, sizeof(double)) && __CPROVER_w_ok(d__p, sizeof(double)) && b__p != d__p)
__CPROVER_assigns(*b__p, *d__p, gv_sqrt_arg, gv_sqrt_ret, gv_atan2_y, gv_atan2_x, gv_atan2_ret, gv_atan2_calls)
__CPROVER_ensures(*d__p >= 0)
__CPROVER_ensures(gv_sqrt_ret < 1e-6 ==> (*b__p == 0 && *d__p == 0 && gv_atan2_calls == __CPROVER_old(gv_atan2_calls)))
__CPROVER_ensures(gv_sqrt_ret >= 1e-6 ==> *d__p == gv_sqrt_ret)
__CPROVER_ensures(gv_sqrt_ret >= 1e-6 ==> gv_atan2_calls == __CPROVER_old(gv_atan2_calls) + 1)
__CPROVER_ensures(gv_sqrt_ret >= 1e-6 ==> gv_atan2_y == yb - ya)
__CPROVER_ensures(gv_sqrt_ret >= 1e-6 ==> gv_atan2_x == xb - xa)
__CPROVER_ensures(*b__p >= 0)
__CPROVER_ensures(*b__p < 2 * M_PI)
/* the bearing is the atan2 value reduced to the half-open turn: s itself when s >= 0, s + 2 pi when s < 0 -- and when
   that IEEE sum is the full turn 2 pi (s a tiny negative number) the direction is the zero direction.
   (Round 1 demanded b == s + 2 pi also in that last case, which contradicts b < 2 pi: corrected, see report.) */
__CPROVER_ensures(gv_sqrt_ret >= 1e-6 ==>
                  (gv_atan2_ret >= 0 ? *b__p == gv_atan2_ret
                   : gv_atan2_ret + 2 * M_PI < 2 * M_PI ? *b__p == gv_atan2_ret + 2 * M_PI : *b__p == 0))
//@ entry bearing_distance
GV_CANARY("bearing_distance entry");
//@ end

//@ harness
#ifdef GV_H_ONE
void h_bearing(void)
{
  double ya, xa, yb, xb, b1, d1;
  __CPROVER_assume(INR(ya) && INR(xa) && INR(yb) && INR(xb));
  double w_ya = ya, w_xa = xa, w_yb = yb, w_xb = xb;
  gv_atan2_calls = 0;
  bearing_distance(ya, xa, yb, xb, &b1, &d1);
  GV_CANARY("h_bearing end");
}
#endif

/* NOT DECIDED: the antisymmetric pattern of C18 (bearing(b,a) calls atan2 with the negated arguments of
   bearing(a,b)) follows from the two postconditions gv_atan2_y == yb - ya, gv_atan2_x == xb - xa above and the
   IEEE fact (a - b) == -(b - a); neither the SAT back end nor cvc5 decides that fact for symbolic doubles within
   300 s, and distance(a,b) == distance(b,a) additionally needs a functional model of sqrt.  No check is registered. */
//@ end
