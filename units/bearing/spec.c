/* Sidecar contracts for lib/gnu_gama/local/bearing.cpp : bearing_distance(double,double,double,double,double&,double&)
   (property C18-U3).  The body is extracted from /repo on every run. */

//@ prelude
int gv_exc;
#ifndef M_PI
#define M_PI 3.14159265358979323846264338327950288419716939937510
#endif

double gv_sqrt_arg, gv_sqrt_ret;          /* ghost: last call of sqrt */
double gv_atan2_y, gv_atan2_x, gv_atan2_ret;
int    gv_atan2_calls;

/* assumed contract of libm sqrt (see unit.json) */
static inline double bd_sqrt(double x)
{
  __CPROVER_assert(x >= 0, "sqrt argument is non-negative");
  double r;   /* any value allowed by the assumed contract */
  __CPROVER_assume(r >= 0 && (x > 0 ? r > 0 : r == 0));
  gv_sqrt_arg = x;
  gv_sqrt_ret = r;
  return r;
}

/* assumed contract of libm atan2 (see unit.json) */
static inline double bd_atan2(double y, double x)
{
  __CPROVER_assert(y == y && x == x, "atan2 arguments are not NaN");
  __CPROVER_assert(!(y == 0 && x == 0), "atan2 is not called with (0, 0)");
  double r;   /* any value allowed by the assumed contract */
  __CPROVER_assume(r >= -M_PI && r <= M_PI);
  gv_atan2_y = y;
  gv_atan2_x = x;
  gv_atan2_ret = r;
  gv_atan2_calls++;
  return r;
}
#define MAXC 1e7
#define INR(v) ((v) >= -MAXC && (v) <= MAXC)
//@ end

/* bearing_distance: d >= 0; a distance below 1e-6 gives exactly (0, 0) and atan2 is not called; otherwise d is the
   value of sqrt(dy^2 + dx^2), atan2 is called once with (yb - ya, xb - xa) and the bearing is its value reduced to
   the half-open turn [0, 2 pi).                                                                              */
//@ contract bearing_distance
__CPROVER_requires(INR(ya) && INR(xa) && INR(yb) && INR(xb))
__CPROVER_requires(__CPROVER_w_ok(b__p, sizeof(double)) && __CPROVER_w_ok(d__p, sizeof(double)) && b__p != d__p)
__CPROVER_assigns(*b__p, *d__p, gv_sqrt_arg, gv_sqrt_ret, gv_atan2_y, gv_atan2_x, gv_atan2_ret, gv_atan2_calls)
__CPROVER_ensures(*d__p >= 0)
__CPROVER_ensures(gv_sqrt_ret < 1e-6 ==> (*b__p == 0 && *d__p == 0 && gv_atan2_calls == __CPROVER_old(gv_atan2_calls)))
__CPROVER_ensures(gv_sqrt_ret >= 1e-6 ==> *d__p == gv_sqrt_ret)
__CPROVER_ensures(gv_sqrt_ret >= 1e-6 ==> gv_atan2_calls == __CPROVER_old(gv_atan2_calls) + 1)
__CPROVER_ensures(gv_sqrt_ret >= 1e-6 ==> gv_atan2_y == yb - ya)
__CPROVER_ensures(gv_sqrt_ret >= 1e-6 ==> gv_atan2_x == xb - xa)
__CPROVER_ensures(*b__p >= 0)
__CPROVER_ensures(*b__p < 2 * M_PI)
__CPROVER_ensures(gv_sqrt_ret >= 1e-6 ==> (*b__p == gv_atan2_ret || *b__p == gv_atan2_ret + 2 * M_PI))
//@ entry bearing_distance
GV_CANARY("bearing_distance entry");
//@ end

//@ harness
#ifdef GV_H_ONE
void h_bearing(void)
{
  double ya, xa, yb, xb, b1, d1;
  __CPROVER_assume(INR(ya) && INR(xa) && INR(yb) && INR(xb));
#ifdef GV_EXCL_TINY_NEG   /* exclusion predicate of the finding "bearing == 2 pi": the target is not below the +x axis by
                             less than 1e-9 of the distance (dy in (-1e-9 |dx|, 0), dx > 0) */
  __CPROVER_assume(!(yb - ya < 0 && xb - xa > 0 && ya - yb < 1e-9 * (xb - xa)));
#endif
  double w_ya = ya, w_xa = xa, w_yb = yb, w_xb = xb;
  gv_atan2_calls = 0;
  bearing_distance(ya, xa, yb, xb, &b1, &d1);
  GV_CANARY("h_bearing end");
}
#endif

#ifdef GV_H_TWO
/* antisymmetric pattern of C18 (no contract instrumentation: the function is called twice):
   whenever bearing(a,b) and bearing(b,a) both reach atan2, the second call has the negated arguments of the first.
   (distance(a,b) == distance(b,a) needs (-dy)^2 + (-dx)^2 == dy^2 + dx^2 bit for bit and a functional model of
   sqrt: two multiplier circuits the SAT back end does not relate in 400 s -- not decided here) */
void h_antisym(void)
{
  double ya, xa, yb, xb, b1, d1, b2, d2;
  __CPROVER_assume(INR(ya) && INR(xa) && INR(yb) && INR(xb));
  gv_atan2_calls = 0;
  bearing_distance(ya, xa, yb, xb, &b1, &d1);
  double y1 = gv_atan2_y, x1 = gv_atan2_x;
  int c1 = gv_atan2_calls;
  bearing_distance(yb, xb, ya, xa, &b2, &d2);
  __CPROVER_assert(!(c1 == 1 && gv_atan2_calls == 2) || (gv_atan2_y == -y1 && gv_atan2_x == -x1),
                   "bearing(b,a) takes atan2 of the negated coordinate differences of bearing(a,b)");
  if (c1 == 1 && gv_atan2_calls == 2) GV_CANARY("h_antisym both calls reach atan2");
  GV_CANARY("h_antisym end");
}
#endif
//@ end
