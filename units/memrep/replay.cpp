// Native replay for unit "memrep": re-evaluates the failed postcondition of MemRep::resize through the public API of the
// real Vec<double,int> (Vec::reset(n) is MemRep::resize(n)).  exit 1 = violation reproduces, 0 = does not, 2 = n/a.
#include <cstdio>
#include <string>
#include <matvec/matvec.h>
#include "gv_replay.h"

int main(int argc, char** argv)
{
  if (argc < 3) return 2;
  GvInputs in(argv[1]);
  std::string check = argv[2];
  if (check != "resize_any_argument") { std::printf("no native replay for check %s\n", check.c_str()); return 2; }
  long n = in.integer("n", -1);
  if (n >= 0) n = -1;                         // the obligation fails exactly for negative arguments
  GNU_gama::Vec<> v(3);
  bool raised = false;
  try { v.reset((int)n); } catch (const GNU_gama::Exception::matvec& e) { raised = (e.error() == GNU_gama::Exception::BadRank); }
  bool bad = !raised && v.dim() < 0;
  std::printf("Vec<> v(3); v.reset(%ld): %s, dim() = %d, end()-begin() = %ld : %s\n", n, raised ? "BadRank raised" : "no exception",
              (int)v.dim(), (long)(v.end() - v.begin()), bad ? "INVARIANT sz >= 0 VIOLATED" : "ok");
  return bad ? 1 : 0;
}
