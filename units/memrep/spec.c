/* Sidecar contracts for lib/matvec/memrep.h (C15-U2): MemRep<double,int>, the owning buffer under every matvec object.
   Bodies are extracted from /repo on every run.

   Representation invariant WF_OWN(M):  sz >= 0, and
     sz > 0  ==> rep is the base of a live heap block of exactly sz Floats (so delete[] rep is legal),
     sz == 0 ==> rep is nullptr or the base of a live (empty) heap block (what `new Float[0]` yields).
   Two distinct MemRep objects never share a block (SEP).  "Copies are independent of their source whatever the sizes
   involved" = after a copy both objects satisfy WF_OWN, have equal size, equal contents at an arbitrary ghost index
   gv_k0, and own different blocks (so a write to one cannot change the other; the harness performs that write).   */

//@ prelude
#include "../matvec_index/matvec_spec.h"
int gv_exc;
Index gv_k0;
/* std::memcpy -- stub of the libc callee with its ASSUMED contract (trusted base), ghost-index form:
   requires both regions valid for n bytes and not overlapping (asserted); the destination region is havocked and
   "for all i: dst[i] == src[i]" is instantiated at the harness-chosen ghost element gv_k0.
   (CBMC's built-in memcpy model -- a variable-length array_copy -- errors out on symbolic sizes up to 16 GB.)
   The C++ code calls memcpy(rep, x.rep, 0) with null pointers for empty objects.  C23 still calls that undefined,
   C2y (N3322) and every implementation define it as a no-op; modelled as such (listed in assumptions). */
static inline void gv_memcpy(void *d, const void *s, size_t n)
{
  if (n == 0) return;
  __CPROVER_assert(__CPROVER_r_ok(s, n), "memcpy: source region readable");
  __CPROVER_assert(__CPROVER_w_ok(d, n), "memcpy: destination region writable");
  __CPROVER_assert(!SAME(d, s), "memcpy: regions do not overlap (different objects)");
  __CPROVER_havoc_slice(d, n);
  if (0 <= gv_k0 && ((size_t)gv_k0 + 1) * sizeof(Float) <= n)
    __CPROVER_assume(MV_SAMEVAL(((Float *)d)[gv_k0], ((const Float *)s)[gv_k0]));
}
#define OWNED(p, n) (__CPROVER_DYNAMIC_OBJECT(p) && OFF(p) == 0 && __CPROVER_OBJECT_SIZE(p) == (size_t)(n) * sizeof(Float) && \
                     __CPROVER_rw_ok((p), (size_t)(n) * sizeof(Float)))
#define WF_OWN(M) ((M)->sz >= 0 && ((M)->sz > 0 ? OWNED((M)->rep, (M)->sz) : ((M)->rep == NULL || OWNED((M)->rep, 0))))
#define SEP(A, B) ((A)->rep == NULL || (B)->rep == NULL || !SAME((A)->rep, (B)->rep))

static void mk_own(struct MemRep *M)
{
  Index n;
  _Bool null_when_empty;
  __CPROVER_assume(n >= 0);
  M->sz = n;
  if (n == 0 && null_when_empty)
    M->rep = NULL;
  else {
    M->rep = malloc((size_t)n * sizeof(Float));
    __CPROVER_assume(M->rep != NULL);
  }
}
//@ end

/* MemRep(Index nsz): negative size raises BadRank, otherwise an object of exactly nsz elements */
//@ contract MemRep_ctor
__CPROVER_requires(__CPROVER_w_ok(self, sizeof(struct MemRep)) && gv_exc == 0)
__CPROVER_assigns(self->rep, self->sz, gv_exc)
__CPROVER_ensures(nsz < 0 ==> gv_exc == GV_BadRank)
__CPROVER_ensures(nsz >= 0 ==> (gv_exc == 0 && self->sz == nsz && WF_OWN(self)))
//@ entry MemRep_ctor
GV_CANARY("MemRep_ctor entry");
//@ end

/* MemRep(const MemRep& x) */
//@ contract MemRep_copy_ctor
__CPROVER_requires(__CPROVER_w_ok(self, sizeof(struct MemRep)) && WF_OWN(x) && !SAME(self, x))
__CPROVER_assigns(self->rep, self->sz)
__CPROVER_ensures(self->sz == x->sz && WF_OWN(self) && SEP(self, x))
__CPROVER_ensures(x->sz == __CPROVER_old(x->sz) && x->rep == __CPROVER_old(x->rep))
__CPROVER_ensures((0 <= gv_k0 && gv_k0 < x->sz) ==> MV_SAMEVAL(self->rep[gv_k0], x->rep[gv_k0]))
//@ entry MemRep_copy_ctor
GV_CANARY("MemRep_copy_ctor entry");
//@ end

/* MemRep(MemRep&& x): takes over x's block, x becomes the empty object */
//@ contract MemRep_move_ctor
__CPROVER_requires(__CPROVER_w_ok(self, sizeof(struct MemRep)) && WF_OWN(x) && !SAME(self, x))
__CPROVER_assigns(self->rep, self->sz, x->rep, x->sz)
__CPROVER_ensures(self->sz == __CPROVER_old(x->sz) && self->rep == __CPROVER_old(x->rep) && WF_OWN(self))
__CPROVER_ensures(x->sz == 0 && x->rep == NULL)
//@ entry MemRep_move_ctor
GV_CANARY("MemRep_move_ctor entry");
//@ end

/* operator=(const MemRep&): any pair of sizes, including self-assignment */
//@ contract MemRep_copy_assign
__CPROVER_requires(WF_OWN(self) && WF_OWN(x) && (self == x || (!SAME(self, x) && SEP(self, x))))
__CPROVER_assigns(self->rep, self->sz; self->sz > 0: __CPROVER_object_whole(self->rep))
__CPROVER_ensures(__CPROVER_return_value == self)
__CPROVER_ensures(self->sz == __CPROVER_old(x->sz) && WF_OWN(self) && (self == x || SEP(self, x)))
__CPROVER_ensures(x->sz == __CPROVER_old(x->sz) && x->rep == __CPROVER_old(x->rep))
__CPROVER_ensures((0 <= gv_k0 && gv_k0 < x->sz) ==> MV_SAMEVAL(self->rep[gv_k0], x->rep[gv_k0]))
//@ entry MemRep_copy_assign
GV_CANARY("MemRep_copy_assign entry");
//@ end

/* operator=(MemRep&&): the old block of *this is released exactly once; self-move leaves the object alone */
//@ contract MemRep_move_assign
__CPROVER_requires(WF_OWN(self) && WF_OWN(x) && (self == x || (!SAME(self, x) && SEP(self, x))))
__CPROVER_assigns(self->rep, self->sz, x->rep, x->sz)
__CPROVER_frees(self->rep)
__CPROVER_ensures(__CPROVER_return_value == self)
__CPROVER_ensures(self != x ==> (self->sz == __CPROVER_old(x->sz) && self->rep == __CPROVER_old(x->rep) && x->sz == 0 && x->rep == NULL))
__CPROVER_ensures(self == x ==> (self->sz == __CPROVER_old(self->sz) && self->rep == __CPROVER_old(self->rep)))
__CPROVER_ensures(WF_OWN(self) && WF_OWN(x))
//@ entry MemRep_move_assign
GV_CANARY("MemRep_move_assign entry");
//@ end

//@ contract MemRep_dtor
__CPROVER_requires(WF_OWN(self))
__CPROVER_assigns()
__CPROVER_frees(self->rep)
//@ entry MemRep_dtor
GV_CANARY("MemRep_dtor entry");
//@ end

/* resize(nsz): afterwards the object has nsz elements and the invariant holds -- for EVERY argument: a negative
   size must not yield an object with sz < 0 (the constructor raises BadRank for it). */
//@ contract MemRep_resize
__CPROVER_requires(WF_OWN(self) && gv_exc == 0)
__CPROVER_assigns(self->rep, self->sz, gv_exc)
__CPROVER_frees(self->rep)
__CPROVER_ensures(WF_OWN(self))
__CPROVER_ensures(nsz >= 0 ==> (gv_exc == 0 && self->sz == nsz))
__CPROVER_ensures(nsz < 0 ==> gv_exc == GV_BadRank)
//@ entry MemRep_resize
GV_CANARY("MemRep_resize entry");
//@ end

//@ contract MemRep_size
MV_CONTRACT_MemRep_size
//@ entry MemRep_size
GV_CANARY("MemRep_size entry");
//@ contract MemRep_begin
MV_CONTRACT_MemRep_begin
//@ contract MemRep_begin_const
MV_CONTRACT_MemRep_begin
//@ contract MemRep_end
MV_CONTRACT_MemRep_end
//@ entry MemRep_end
GV_CANARY("MemRep_end entry");
//@ contract MemRep_end_const
MV_CONTRACT_MemRep_end
//@ end

//@ harness
void h_ctor(void)
{
  struct MemRep a;
  Index n;
  gv_exc = 0;
  MemRep_ctor(&a, n);
  if (gv_exc == 0 && a.sz > 0) {
    Index k;
    __CPROVER_assume(0 <= k && k < a.sz);
    a.rep[k] = 1.0; /* every element of the new block is writable */
  }
  GV_CANARY("h_ctor end");
}

void h_copy_ctor(void)
{
  struct MemRep a, b;
  mk_own(&b);
  Index k;
  gv_k0 = k;
  MemRep_copy_ctor(&a, &b);
  if (0 <= k && k < b.sz) {
    Float old = b.rep[k], v;
    a.rep[k] = v; /* independence: writing the copy does not change the source */
    __CPROVER_assert(MV_SAMEVAL(b.rep[k], old), "writing the copy leaves the source unchanged");
  }
  MemRep_dtor(&a); /* both blocks can be released: no double free */
  MemRep_dtor(&b);
  GV_CANARY("h_copy_ctor end");
}

void h_move_ctor(void)
{
  struct MemRep a, b;
  mk_own(&b);
  MemRep_move_ctor(&a, &b);
  MemRep_dtor(&a);
  MemRep_dtor(&b);
  GV_CANARY("h_move_ctor end");
}

void h_copy_assign(void)
{
  struct MemRep a, b;
  mk_own(&a);
  mk_own(&b); /* sizes are independent symbolic values: equal, smaller, larger, zero */
  _Bool self_assign;
  Index k;
  gv_k0 = k;
  struct MemRep *src = self_assign ? &a : &b;
  struct MemRep *r = MemRep_copy_assign(&a, src);
  if (!self_assign && 0 <= k && k < b.sz) {
    Float old = b.rep[k], v;
    a.rep[k] = v;
    __CPROVER_assert(MV_SAMEVAL(b.rep[k], old), "writing the assigned copy leaves the source unchanged");
  }
  MemRep_dtor(&a);
  MemRep_dtor(&b);
  GV_CANARY("h_copy_assign end");
}

void h_move_assign(void)
{
  struct MemRep a, b;
  mk_own(&a);
  mk_own(&b);
  _Bool self_assign;
  struct MemRep *src = self_assign ? &a : &b;
  MemRep_move_assign(&a, src);
  MemRep_dtor(&a);
  MemRep_dtor(&b);
  GV_CANARY("h_move_assign end");
}

void h_dtor(void)
{
  struct MemRep a;
  mk_own(&a);
  MemRep_dtor(&a);
  GV_CANARY("h_dtor end");
}

void h_resize(void)
{
  struct MemRep a;
  mk_own(&a);
  Index n;
#if !GV_NEG
  __CPROVER_assume(n >= 0);
#endif
  gv_exc = 0;
  MemRep_resize(&a, n);
  if (gv_exc == 0 && a.sz > 0) {
    Index k;
    __CPROVER_assume(0 <= k && k < a.sz);
    a.rep[k] = 1.0;
  }
  if (gv_exc == 0) MemRep_dtor(&a);
  GV_CANARY("h_resize end");
}

void h_access(void)
{
  struct MemRep a;
  mk_own(&a);
  Float *b = MemRep_begin(&a), *e = MemRep_end(&a);
  const Float *cb = MemRep_begin_const(&a), *ce = MemRep_end_const(&a);
  Index n = MemRep_size(&a);
  __CPROVER_assert(n == a.sz && n >= 0, "size() is the element count");
  __CPROVER_assert(b == a.rep && cb == b && ce == e, "begin() is the block, const and non-const agree");
  __CPROVER_assert(a.rep == NULL ? e == NULL : (SAME(e, b) && OFF(e) - OFF(b) == FSZ * (long)n), "[begin, end) spans size() elements");
  GV_CANARY("h_access end");
}

/* a history of operations between objects of different sizes, each step through the real code */
void h_history(void)
{
  struct MemRep a, b, c;
  Index na, nb;
  __CPROVER_assume(0 <= na && 0 <= nb);
  gv_exc = 0;
  MemRep_ctor(&a, na);
  MemRep_ctor(&b, nb);
  MemRep_copy_ctor(&c, &a);
  MemRep_copy_assign(&a, &b);
  MemRep_move_assign(&b, &c);
  _Bool again;
  if (again) MemRep_copy_assign(&c, &a);
  __CPROVER_assert(a.sz == nb && b.sz == na && c.sz == (again ? nb : 0), "sizes after copy / assign / move");
  __CPROVER_assert(a.sz == 0 || b.sz == 0 || !SAME(a.rep, b.rep), "a and b own different blocks");
  __CPROVER_assert(a.sz == 0 || c.sz == 0 || !SAME(a.rep, c.rep), "a and c own different blocks");
  MemRep_dtor(&a);
  MemRep_dtor(&b);
  MemRep_dtor(&c);
  GV_CANARY("h_history end");
}
//@ end
