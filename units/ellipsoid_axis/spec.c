/* Sidecar contract for Ellipsoid::xyz2blh (lib/gnu_gama/ellipsoid.cpp): the ON-AXIS clause of property C18
   ("... converting geodetic latitude/longitude/height to Cartesian coordinates and back returns the starting values ...
   including poles").  For a point on the axis of rotation (x == 0, y == 0) the geodetic latitude is +-pi/2 with the sign
   of z, the longitude is 0 by convention, and the height is the distance from the pole: |z| - (1-e^2) N(b)
   (polar radius).  The general (off-axis) Bowring branch is floating-point trigonometry: not decided. */

//@ prelude
int gv_exc;
#ifndef M_PI
#define M_PI 3.14159265358979323846264338327950288419716939937510
#endif
struct Ellipsoid { double A, B, ff, n, e2, e22, Ime2, Ipe22, AIme2, AB; };
double nondet_double(void);
/* libm and Ellipsoid::N as stubs (assumed contracts): arbitrary finite values; N records its argument */
double gv_N_arg, gv_N_ret; int gv_N_calls;
static double gv_atan2(double y, double x) { double r = nondet_double(); __CPROVER_assume(r >= -M_PI && r <= M_PI); return r; }
int gv_sqrt_neg;   /* ghost: number of sqrt calls whose argument is negative or NaN (libm returns NaN for those) */
static double gv_sqrtd(double x)
{
  double r = nondet_double();
  __CPROVER_assert(x >= 0, "sqrt is called with a non-negative argument (a negative one yields NaN, which then becomes the latitude and the height)");
  if (!(x >= 0)) { gv_sqrt_neg++; return 0.0 / 0.0; }
  /* ASSUMED contract of a correctly rounded sqrt (IEEE 754): sqrt(x) lies between x and 1 (so sqrt(1 + t*t) >= 1), is
     zero exactly for x == 0, and carries no negative sign for x > 0 */
  __CPROVER_assume(x >= 1 ? (r >= 1 && r <= x) : (r >= x && r <= 1));
  __CPROVER_assume((r == 0) == (x == 0) && (x == 0 || !__CPROVER_signd(r)));
  return r;
}
static double gv_sin(double x) { double r = nondet_double(); __CPROVER_assume(r >= -1 && r <= 1); return r; }
static double gv_cos(double x) { double r = nondet_double(); __CPROVER_assume(r >= -1 && r <= 1); return r; }
static double Ellipsoid_N(const struct Ellipsoid *self, double b)
{
  gv_N_arg = b; gv_N_calls++;
  return gv_N_ret;
}
#define GV_ABS(v) ((v) < 0 ? -(v) : (v))
/* tagged IEEE multiplication: performs the real operation and additionally records that its result is a function of its
   operands (sound: IEEE operations are functions), so that the postcondition can name the product without asking SAT to
   prove two multiplier circuits equivalent */
double __CPROVER_uninterpreted_fmul(double, double);
static double gv_fmul(double a, double b)
{
  double r = a * b;
  __CPROVER_assume(r == __CPROVER_uninterpreted_fmul(a, b) || r != r);
  return r;
}
//@ end

//@ contract Ellipsoid_xyz2blh
#ifndef GV_OFFAXIS
__CPROVER_requires(x == 0 && y == 0 && z == z && z > -1e12 && z < 1e12)        /* a finite point on the axis of rotation */
__CPROVER_requires(gv_N_calls == 0 && gv_N_ret > 0 && gv_N_ret < 1e8 && self->Ime2 > 0 && self->Ime2 <= 1)
__CPROVER_assigns(*b__p, *l__p, *h__p, gv_N_arg, gv_N_calls)
__CPROVER_ensures(*l__p == 0)
__CPROVER_ensures(*b__p == (z > 0 ? M_PI / 2 : -M_PI / 2))
__CPROVER_ensures(gv_N_calls == 1 && gv_N_arg == *b__p)
/* height above the pole: |z| minus the polar radius (1-e^2) N(+-pi/2) -- the same for the north and the south pole */
__CPROVER_ensures(*h__p == GV_ABS(z) - __CPROVER_uninterpreted_fmul(self->Ime2, gv_N_ret))
#else
/* OFF-AXIS (Bowring) branch, clause "including poles": for every finite point that is not on the axis -- in particular
   the points blh2xyz produces for latitude +-pi/2, whose x, y are ~1e-10 instead of 0 -- no square root is taken of a
   negative number, whatever sin, cos, atan2 and N(b) return within their ranges.  On the tree as found the refinement
   step computed cos2_u = 1 - sin_u^2 with sin_u = (1-e^2) N(b)/B sin b, which rounds to 1 + eps at the poles of six
   table ellipsoids: sqrt(negative) = NaN came back as latitude and height (demos/C18_pole_roundtrip.cpp). */
__CPROVER_requires(x == x && y == y && z == z && !(x == 0 && y == 0))
__CPROVER_requires(x > -1e12 && x < 1e12 && y > -1e12 && y < 1e12 && z > -1e12 && z < 1e12)
__CPROVER_requires(self->B >= 1e5 && self->B <= self->A && self->A <= 1e8 && self->AB >= 1 && self->AB <= 2)
__CPROVER_requires(self->Ime2 > 0 && self->Ime2 <= 1 && self->e2 >= 0 && self->e2 < 1 && self->e22 >= 0 && self->e22 < 1)
__CPROVER_requires(gv_N_ret > 0 && gv_N_ret < 1e9 && gv_sqrt_neg == 0)
__CPROVER_assigns(*b__p, *l__p, *h__p, gv_N_arg, gv_N_calls, gv_sqrt_neg)
__CPROVER_ensures(gv_sqrt_neg == 0)
#endif
//@ entry Ellipsoid_xyz2blh
GV_CANARY("Ellipsoid_xyz2blh entry");
//@ end

//@ harness
#ifdef GV_OFFAXIS
void h_xyz2blh_offaxis(void)
{
  struct Ellipsoid E;
  double x = nondet_double(), y = nondet_double(), z = nondet_double(), b, l, h;
  __CPROVER_assume(x == x && y == y && z == z && !(x == 0 && y == 0));
  __CPROVER_assume(x > -1e12 && x < 1e12 && y > -1e12 && y < 1e12 && z > -1e12 && z < 1e12);
  __CPROVER_assume(E.B >= 1e5 && E.B <= E.A && E.A <= 1e8 && E.AB >= 1 && E.AB <= 2);
  __CPROVER_assume(E.Ime2 > 0 && E.Ime2 <= 1 && E.e2 >= 0 && E.e2 < 1 && E.e22 >= 0 && E.e22 < 1);
  gv_N_calls = 0; gv_sqrt_neg = 0; gv_N_ret = nondet_double();
  __CPROVER_assume(gv_N_ret > 0 && gv_N_ret < 1e9);
  Ellipsoid_xyz2blh(&E, x, y, z, &b, &l, &h);
  GV_CANARY("h_xyz2blh_offaxis end");
}
#else
void h_xyz2blh_axis(void)
{
  struct Ellipsoid E;
  double x = 0, y = 0, z = nondet_double(), b, l, h;
  __CPROVER_assume(z == z && z > -1e12 && z < 1e12);
  gv_N_calls = 0; gv_N_ret = nondet_double();
  __CPROVER_assume(gv_N_ret > 0 && gv_N_ret < 1e8 && E.Ime2 > 0 && E.Ime2 <= 1);
  Ellipsoid_xyz2blh(&E, x, y, z, &b, &l, &h);
  GV_CANARY("h_xyz2blh_axis end");
}
#endif
//@ end
