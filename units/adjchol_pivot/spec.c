/* Sidecar contracts for the pivot bookkeeping of the dense Cholesky solver -- property C20
   ("the unknowns it names as indeterminable ... their number equals the defect ... identically for every algorithm").

     lib/gnu_gama/adj/adj_chol.h   AdjCholDec::solve()     WHOLE function (41 loops)    -> bounded_count (loops unwound, N <= 3)
                                                                                         [dfcc check `solve`: contracts below, NOT registered:
                                                                                          out of memory, see unit.json checks_unfinished]
                                   blocks of solve()       perm initialisation, ONE iteration of the pivot loop, later uses of perm
                                                           (x0, substitutions, r, Q0, G), ONE Gram-Schmidt step    -> checks blk_*
                                   AdjCholDec::lindep(n)                                                          -> lindep, lindep_image
                                   AdjCholDec::dot(M,i,j)                                                         -> dot

   Only INDICES and the permutation bookkeeping are the subject.  The floating-point payload (mat, rhs, x0, Q0, G, A, b, x, r) is
   opaque: every element access goes through a stub that ASSERTS the index precondition of the matvec accessor contract
   (units/matvec_index/matvec_spec.h: MV_CONTRACT_Vec_at `1 <= n <= dim`, MV_CONTRACT_Mat_at `1 <= r <= rows, 1 <= c <= cols`,
   MV_CONTRACT_SymMat_at `1 <= i,j <= dim`) and yields a fresh symbolic double, so every branch on a pivot value is taken both ways.
   The storage-layout half of those contracts (WF_*, packed offsets) is the business of unit matvec_index and is not repeated here.

   WHAT IS DECIDED (discrete part of C20 for this solver; "truly dependent" is a numerical-rank statement and is not decided):
     P1  perm is a PERMUTATION of 1..N: after the initialisation, before and after every iteration of the pivot loop, on return.
         Witness: ghost array gv_pos (position of every unknown), updated by a ghost statement after the swap of the repository code.
           PERM_AT(k):  1 <= perm(k) <= N  and  gv_pos(perm(k)) == k         POS_AT(v):  1 <= gv_pos(v) <= N  and  perm(gv_pos(v)) == v
         both stated at ARBITRARY ghost indices gv_k0 / gv_v0 (forall-introduction); together they say perm and gv_pos are mutually
         inverse bijections of 1..N.
     P2  the node moved to position `column` is the node whose diagonal was selected as pivot (ghost gv_pivnode follows the search).
     P3  every mat(perm(.),perm(.)), x0(perm(.)), G(perm(.),.), A(.,perm(.)) ... access has its indices in range.
     P4  on exit of the pivot loop 0 <= nullity <= N and nullity == N - (number of accepted pivots) (ghost counter gv_accepted, incremented
         at the end of every iteration that did not `break`); the loop terminates (decreases clause).
     P5  invp is the inverse permutation:  INVP_AT(v): invp(v) == gv_pos(v)  (hence perm(invp(v)) == v)  and
         INV2_AT(k): invp(perm(k)) == k;  N0 == N - nullity.
     P6  lindep(n)  <=>  nullity > 0 and gv_pos(n) > N0, with n an ORIGINAL unknown index (the caller's numbering); and
         lindep(perm(k)) <=> nullity > 0 and k > N0 (check lindep_image): the flagged set is exactly perm({N0+1..N}).
         COUNTING:  n -> invp(n) is a bijection of 1..N (P1, P5: proved mechanically at ghost indices), so the flagged set is the image of
         the N - N0 positions N0+1..N under the injective map perm and has N - N0 == nullity == defect() elements.  The last step
         ("the image of an m-element set under an injective map has m elements", pigeonhole) is NOT done by CBMC in the unbounded checks;
         it is confirmed by actually counting in the bounded check bounded_count (N <= 3, whole solve() + lindep() for every n).
     P7  BadRegularization is raised only with is_solved set, x := x0 (shape), nullity > 0 and P1, P5 established: what the catch in
         LocalNetwork::null_space needs, because it calls lindep(i) (which calls solve(): a no-op only if is_solved) and defect().

   INSTANTIATION IDIOM.  Preserving P1 across the swap needs the permutation fact at the two positions exchanged (injectivity), i.e. at
   indices other than the ghost one.  `GV_P1_HERE; GV_INST(range, fact(idx))` first ASSERTS PERM_AT at the arbitrary ghost position gv_k0 at that very program
   point (so the universally quantified fact is proved there, by forall-introduction) and then assumes the instance PERM_AT(idx)
   (forall-elimination, through GV_INST, which also asserts that idx is in range).  Induction over program points: the first point where
   an instance were false would be a point where the assertion for the ghost fails for gv_k0 := that index.  In the block checks the
   universally quantified fact is simply the stated precondition of the block.
   In the bounded check (-DGV_BOUNDED) nothing is assumed: the instances are asserted on the concrete arrays.

   BLOCKS.  The extractor takes `<header text> { body }`; for a loop the body is ONE ITERATION with the loop variable as a parameter and the
   loop header matched verbatim (a changed bound is an extraction break, exit 2).  The statement `for (...) invp(perm(i)) = i;` has no
   braces and cannot be taken as a block: P5 is decided on the whole function only, i.e. by bounded_count (N <= 3, includes 3-cycles);
   the unbounded loop contract for it is written below (loop 13 of AdjCholDec_solve) but the whole-function dfcc check does not fit into memory.
   Only contracts, ghost code, callee stubs and harnesses live here; the bodies are extracted from /repo on every run. */

//@ prelude
typedef double Float;
typedef int Index;
#define Float(...) ((double)(__VA_ARGS__ + 0))
#define Index(...) ((int)(__VA_ARGS__ + 0))
#define MAXDIM 32768      /* unknowns: SymMat(N) packed size N(N+1)/2 fits int (same bound as unit matvec_index) */
#define MAXOBS 1000000    /* observations */

int gv_exc;
Index gv_k0;        /* ghost: an arbitrary pivot position */
Index gv_v0;        /* ghost: an arbitrary unknown */
Index gv_m0;        /* ghost: an arbitrary slot of the regularisation list minx_i */
Index gv_q0;        /* ghost: an arbitrary slot of g_perm */
Index gv_accepted;  /* ghost: number of iterations of the pivot loop that ended without `break` */
Index gv_pivnode;   /* ghost: node whose diagonal is the current value of `pivot` during the search */
_Bool gv_brk;       /* block extraction: the block left its loop through `break` */

/* value-opaque payload types of matvec: only the SHAPE is kept */
struct Mat    { Index rows, cols; };
struct Vec    { Index dim; };
struct SymMat { Index dim; };
struct VecI   { Index dim; Index *p; };      /* Vec<Index>: 1-based, storage modelled */
struct VecI gv_pos;                          /* ghost: gv_pos(v) = position of unknown v in perm */

enum { ALL, SUBSET };
struct AdjCholDec {              /* field list of unit adj_full_lazy; payload types carry their shape here */
  const struct Mat *pA;
  const struct Vec *pb;
  struct Vec x, r;
  bool is_solved;
  Index M, N;
  struct VecI perm, invp;
  struct SymMat mat;
  struct Vec rhs;
  Float s_tol;
  Index nullity;
  Index N0;
  struct Vec x0;
  struct SymMat Q0;
  int minx_t;
  Index minx_n;
  Index *minx_i;
  struct Mat G;
};

/* ---- payload stubs: index precondition of the matvec accessor asserted, value opaque (fresh symbolic double, writes go to a scratch cell) */
Float gv_payload;
static inline Float *gv_cell(void) { Float v; gv_payload = v; return &gv_payload; }
static inline Float *gv_vec_at(const struct Vec *v, Index n)
{
  __CPROVER_assert(1 <= n && n <= v->dim, "Vec::operator()(n): 1 <= n <= dim  [MV_CONTRACT_Vec_at]");
  return gv_cell();
}
static inline Float *gv_sym_at(const struct SymMat *m, Index i, Index j)
{
  __CPROVER_assert(1 <= i && i <= m->dim && 1 <= j && j <= m->dim, "SymMat::operator()(i,j): 1 <= i,j <= dim  [MV_CONTRACT_SymMat_at]");
  return gv_cell();
}
static inline Float *gv_mat_at(const struct Mat *m, Index r, Index c)
{
  __CPROVER_assert(1 <= r && r <= m->rows && 1 <= c && c <= m->cols, "Mat::operator()(r,c): 1 <= r <= rows, 1 <= c <= cols  [MV_CONTRACT_Mat_at]");
  return gv_cell();
}
/* sqrt of a payload value (the Gram-Schmidt norm): value-opaque like every other payload operation; no domain obligation (a NaN norm passes the
   test `pivot < s_tol`; the floating-point values are not the subject of this unit) */
static inline Float gv_sqrt_payload(Float x) { Float r; return r; }
static inline void gv_vec_reset(struct Vec *v, Index n) { __CPROVER_assert(n >= 0, "Vec::reset(n): n >= 0"); v->dim = n; }
static inline void gv_sym_reset(struct SymMat *m, Index n) { __CPROVER_assert(n >= 0, "SymMat::reset(n): n >= 0"); m->dim = n; }
static inline void gv_mat_reset(struct Mat *m, Index r, Index c) { __CPROVER_assert(r >= 0 && c >= 0, "Mat::reset(r,c): r,c >= 0"); m->rows = r; m->cols = c; }

/* ---- Vec<Index> (perm, invp, g_perm, ghost gv_pos): bounds-checked storage */
static inline Index *gv_veci_at(const struct VecI *v, Index i)
{
  __CPROVER_assert(1 <= i && i <= v->dim, "Vec<Index>::operator()(i): 1 <= i <= dim");
  return v->p + (i - 1);
}
#ifdef GV_BOUNDED
/* bounded check: every index array gets a block of CONSTANT size GV_BN+1 >= n (CBMC then keeps it as GV_BN+1 scalars instead of an array of
   symbolic size, whose theory is quadratic in the number of reads of the unwound program); accesses stay checked against dim */
#undef GV_NEW
#define GV_NEW(T, n) ((T *)gv_new_bounded((n), sizeof(T)))
static inline void *gv_new_bounded(long n, size_t sz)
{
  __CPROVER_assert(0 <= n && n <= GV_BN + 1, "bounded: allocation within the bound");
  return gv_new((size_t)(GV_BN + 1) * sz);
}
#endif
static inline void gv_veci_reset(struct VecI *v, Index n)
{
  __CPROVER_assert(n >= 0, "Vec<Index>::reset(n): n >= 0");
  free(v->p);
  v->dim = n;
  v->p = GV_NEW(Index, n);
}
static inline struct VecI gv_veci_new(Index n)
{
  struct VecI v;
  __CPROVER_assert(n >= 0, "Vec<Index>(n): n >= 0");
  v.dim = n;
  v.p = GV_NEW(Index, n);
  return v;
}
#define GV_SWAP_INDEX(a, b) do { Index *gv_pa = &(a), *gv_pb = &(b); Index gv_t = *gv_pa; *gv_pa = *gv_pb; *gv_pb = gv_t; } while (0)

/* ---- permutation facts, stated at an index (1-based arrays stored 0-based) */
#define PERM_AT(s, k) (!(1 <= (k) && (k) <= (s)->N) ||                                                       \
                       (1 <= (s)->perm.p[(k) - 1] && (s)->perm.p[(k) - 1] <= (s)->N && gv_pos.p[(s)->perm.p[(k) - 1] - 1] == (k)))
#define POS_AT(s, v)  (!(1 <= (v) && (v) <= (s)->N) ||                                                       \
                       (1 <= gv_pos.p[(v) - 1] && gv_pos.p[(v) - 1] <= (s)->N && (s)->perm.p[gv_pos.p[(v) - 1] - 1] == (v)))
#define INVP_AT(s, v) (!(1 <= (v) && (v) <= (s)->N) || (s)->invp.p[(v) - 1] == gv_pos.p[(v) - 1])
#define INV2_AT(s, k) (!(1 <= (k) && (k) <= (s)->N) || (s)->invp.p[(s)->perm.p[(k) - 1] - 1] == (k))
/* regularisation list: every entry names an unknown (row of G) */
#define MINX_AT(s, rows, m) (!(0 <= (m) && (m) < (s)->minx_n) || (1 <= (s)->minx_i[m] && (s)->minx_i[m] <= (rows)))
/* g_perm (local of solve): every entry names a column of G */
#define GP_AT(k) (!(1 <= (k) && (k) <= N1) || (1 <= g_perm.p[(k) - 1] && g_perm.p[(k) - 1] <= N1))


/* the same facts as predicates, for assert / assume STATEMENTS injected into the bodies (prelude text carries no safety checks; the macro
   forms stay in use inside loop invariants and contract clauses, where function calls are not allowed) */
static inline _Bool gv_perm_at(const struct AdjCholDec *s, Index k) { return PERM_AT(s, k); }
static inline _Bool gv_pos_at(const struct AdjCholDec *s, Index v)  { return POS_AT(s, v); }
static inline _Bool gv_perm_range(const struct AdjCholDec *s, Index k) { return !(1 <= k && k <= s->N) || (1 <= s->perm.p[k - 1] && s->perm.p[k - 1] <= s->N); }
static inline _Bool gv_invp_at(const struct AdjCholDec *s, Index v) { return INVP_AT(s, v); }
static inline _Bool gv_inv2_at(const struct AdjCholDec *s, Index k) { return INV2_AT(s, k); }
static inline _Bool gv_gp_at(const struct VecI *g, Index n1, Index k) { return !(1 <= k && k <= n1) || (1 <= g->p[k - 1] && g->p[k - 1] <= n1); }
static inline _Bool gv_minx_at(const struct AdjCholDec *s, Index rows, Index m) { return MINX_AT(s, rows, m); }

#ifdef GV_BOUNDED
/* bounded check: concrete small arrays; every instance is ASSERTED, nothing is assumed */
#undef GV_INST
#define GV_INST(range, fact) __CPROVER_assert((range) && (fact), "bounded: instance asserted on the concrete arrays: " #fact)
#define GV_P1_HERE ((void)0)
#define GV_GP_HERE ((void)0)
#else
/* forall-introduction at the point of use: the fact holds HERE for the arbitrary ghost index; the GV_INST that follows takes an instance */
#define GV_P1_HERE __CPROVER_assert(gv_perm_at(self, gv_k0), "P1 holds HERE for the arbitrary ghost position (justifies the instance taken next)")
#define GV_GP_HERE __CPROVER_assert(gv_gp_at(&g_perm, N1, gv_q0), "g_perm entries name columns of G HERE for the arbitrary ghost slot (justifies the instance taken next)")
#endif

#define CH_HEAP_OK(s) ((s)->minx_n >= 0 && (s)->minx_n <= MAXDIM && ((s)->minx_t == ALL || (s)->minx_t == SUBSET) && \
                       ((s)->minx_i == NULL ? (s)->minx_n == 0 : __CPROVER_rw_ok((s)->minx_i, (size_t)(s)->minx_n * sizeof(Index))))
#define VECI_OK(v)    ((v)->p == NULL ? (v)->dim == 0 : ((v)->dim >= 0 && (v)->dim <= MAXDIM && __CPROVER_rw_ok((v)->p, (size_t)(v)->dim * sizeof(Index))))
#define CH_INPUT(s)   ((s)->pA != NULL && (s)->pb != NULL && 0 <= (s)->pA->rows && (s)->pA->rows <= MAXOBS && 0 <= (s)->pA->cols && \
                       (s)->pA->cols <= MAXDIM && (s)->pb->dim == (s)->pA->rows)
/* state of a solved object (after a normal return of solve() or after BadRegularization) */
#define CH_SOLVED(s)  ((s)->is_solved && (s)->N == (s)->pA->cols && 0 <= (s)->nullity && (s)->nullity <= (s)->N &&                            \
                       (s)->N0 == (s)->N - (s)->nullity && (s)->perm.dim == (s)->N && (s)->invp.dim == (s)->N && gv_pos.dim == (s)->N &&          \
                       (s)->perm.p != NULL && (s)->invp.p != NULL && gv_pos.p != NULL && (s)->x.dim == (s)->N)
#define CH_FACTS(s)   (PERM_AT(s, gv_k0) && POS_AT(s, gv_v0) && INVP_AT(s, gv_v0) && INV2_AT(s, gv_k0))
/* solve() on a solved object returns at once and writes nothing: every target is conditional.  (Also a CBMC necessity: a pointer field that a
   replaced contract havocs and then only equates with its old value is not dereferenceable afterwards.) */
#define CH_SOLVE_ASSIGNS(s) !(s)->is_solved: (s)->is_solved, (s)->M, (s)->N, (s)->perm, (s)->invp, (s)->mat, (s)->rhs, (s)->s_tol, (s)->nullity, (s)->N0, (s)->x0, \
                            (s)->Q0, (s)->minx_n, (s)->minx_i, (s)->G, (s)->x, (s)->r, gv_exc, gv_payload, gv_pos, gv_accepted, gv_pivnode
/* the contract of solve(), one text for the enforced contract (check solve) and for the contract that replaces the call in lindep() */
#define CH_SOLVE_REQUIRES(self) \
  __CPROVER_requires(gv_exc == 0 && CH_INPUT(self)) \
  __CPROVER_requires(CH_HEAP_OK(self) && VECI_OK(&self->perm) && VECI_OK(&self->invp) && VECI_OK(&gv_pos)) \
  __CPROVER_requires(self->s_tol == self->s_tol) \
  __CPROVER_requires(MINX_AT(self, self->pA->cols, gv_m0)) \
  __CPROVER_requires(self->is_solved ==> (CH_SOLVED(self) && CH_FACTS(self)))
#define CH_SOLVE_ENSURES(self) \
  __CPROVER_ensures(gv_exc == 0 || gv_exc == GV_BadRegularization) \
  __CPROVER_ensures(CH_SOLVED(self)) \
  __CPROVER_ensures(__CPROVER_old(self->is_solved) ==> (self->perm.p == __CPROVER_old(self->perm.p) && self->invp.p == __CPROVER_old(self->invp.p) && gv_pos.p == __CPROVER_old(gv_pos.p))) \
  __CPROVER_ensures(!__CPROVER_old(self->is_solved) ==> __CPROVER_is_fresh(self->perm.p, (size_t)self->N * sizeof(Index))) \
  __CPROVER_ensures(!__CPROVER_old(self->is_solved) ==> __CPROVER_is_fresh(self->invp.p, (size_t)self->N * sizeof(Index))) \
  __CPROVER_ensures(!__CPROVER_old(self->is_solved) ==> __CPROVER_is_fresh(gv_pos.p, (size_t)self->N * sizeof(Index))) \
  __CPROVER_ensures(PERM_AT(self, gv_k0) && POS_AT(self, gv_v0)) \
  __CPROVER_ensures(INVP_AT(self, gv_v0) && INV2_AT(self, gv_k0)) \
  __CPROVER_ensures(gv_exc == GV_BadRegularization ==> self->nullity > 0) \
  __CPROVER_ensures(self->minx_n >= 0 && self->minx_n <= MAXDIM && (self->minx_t == ALL || self->minx_t == SUBSET))

/* solve() as seen by lindep(): the clauses of its own contract, minus the frees clause */
void AdjCholDec_solve_cc(struct AdjCholDec *self)
CH_SOLVE_REQUIRES(self)
__CPROVER_assigns(CH_SOLVE_ASSIGNS(self))
CH_SOLVE_ENSURES(self)
;

/* state for the block checks: the part of solve()'s state that is established before the block */
#define BLK_SHAPE(s)  (0 <= (s)->N && (s)->N <= MAXDIM && 0 <= (s)->M && (s)->M <= MAXOBS && (s)->perm.dim == (s)->N && gv_pos.dim == (s)->N &&      \
                       __CPROVER_rw_ok((s)->perm.p, (size_t)(s)->N * sizeof(Index)) && __CPROVER_rw_ok(gv_pos.p, (size_t)(s)->N * sizeof(Index)) && \
                       (s)->mat.dim == (s)->N && (s)->rhs.dim == (s)->N)
#define BLK_AFTER_PIVOT(s) (BLK_SHAPE(s) && 0 <= (s)->nullity && (s)->nullity <= (s)->N && (s)->N0 == (s)->N - (s)->nullity && (s)->x0.dim == (s)->N && \
                            (s)->pA != NULL && (s)->pb != NULL && (s)->pA->rows == (s)->M && (s)->pA->cols == (s)->N && (s)->pb->dim == (s)->M && \
                            PERM_AT(s, gv_k0) && POS_AT(s, gv_v0))
//@ end

/* ================================================================ dot (callee of solve, replaced by this contract there) */
//@ contract AdjCholDec_dot
__CPROVER_requires(CH_HEAP_OK(self) && M__p != NULL && 1 <= i && i <= M__p->cols && 1 <= j && j <= M__p->cols)
__CPROVER_requires(MINX_AT(self, M__p->rows, gv_m0))
__CPROVER_assigns(gv_payload)
//@ entry AdjCholDec_dot
GV_CANARY("AdjCholDec_dot entry");
//@ loop AdjCholDec_dot 1
__CPROVER_assigns(r, k, s, gv_payload)
__CPROVER_loop_invariant(0 <= k && k <= self->minx_n)
__CPROVER_decreases((long)self->minx_n - k)
//@ head AdjCholDec_dot 1
GV_INST(0 <= (k) && (k) < self->minx_n, gv_minx_at(self, M__p->rows, k));
//@ end

/* ================================================================ solve(): whole function */
//@ contract AdjCholDec_solve
CH_SOLVE_REQUIRES(self)
__CPROVER_assigns(CH_SOLVE_ASSIGNS(self))
__CPROVER_frees(self->perm.p, self->invp.p, self->minx_i, gv_pos.p)
CH_SOLVE_ENSURES(self)
__CPROVER_ensures(CH_HEAP_OK(self))
//@ entry AdjCholDec_solve
GV_CANARY("AdjCholDec_solve entry");
//@ pre AdjCholDec_solve 1
/* ghost: the position array gets the shape of perm */
gv_veci_reset(&gv_pos, self->N);
gv_accepted = 0;
//@ loop AdjCholDec_solve 1
__CPROVER_assigns(i, __CPROVER_object_whole(self->perm.p), __CPROVER_object_whole(gv_pos.p))
__CPROVER_loop_invariant(1 <= i && i <= self->N + 1 &&
   ((1 <= gv_k0 && gv_k0 < i) ==> (self->perm.p[gv_k0 - 1] == gv_k0 && gv_pos.p[gv_k0 - 1] == gv_k0)) &&
   ((1 <= gv_v0 && gv_v0 < i) ==> (self->perm.p[gv_v0 - 1] == gv_v0 && gv_pos.p[gv_v0 - 1] == gv_v0)))
__CPROVER_decreases((long)self->N + 1 - i)
//@ tail AdjCholDec_solve 1
gv_pos.p[i - 1] = i;   /* ghost: unknown i sits at position i */
//@ post AdjCholDec_solve 1
__CPROVER_assert(gv_perm_at(self, gv_k0) && gv_pos_at(self, gv_v0), "P1: perm is a permutation after the initialisation");

/* ---- the pivot loop */
//@ loop AdjCholDec_solve 6
__CPROVER_assigns(column, gv_payload, self->nullity, gv_accepted, gv_pivnode, __CPROVER_object_whole(self->perm.p), __CPROVER_object_whole(gv_pos.p))
__CPROVER_loop_invariant(1 <= column && column <= self->N + 1 && self->nullity == 0 && gv_accepted == column - 1 &&
   PERM_AT(self, gv_k0) && POS_AT(self, gv_v0))
__CPROVER_decreases((long)self->N + 1 - column)
//@ head AdjCholDec_solve 6
GV_P1_HERE; GV_INST(1 <= (column) && (column) <= self->N, gv_perm_at(self, column));
gv_pivnode = self->perm.p[column - 1];   /* ghost: the search starts with the diagonal of the node at position `column` */
//@ tail AdjCholDec_solve 6
gv_accepted++;                           /* ghost: this iteration accepted its pivot (a `break` does not come here) */
//@ post AdjCholDec_solve 6
__CPROVER_assert(0 <= self->nullity && self->nullity <= self->N, "P4: 0 <= nullity <= N on exit of the pivot loop");
__CPROVER_assert(self->nullity == self->N - gv_accepted, "P4: nullity == N - (number of accepted pivots)");
__CPROVER_assert(gv_perm_at(self, gv_k0) && gv_pos_at(self, gv_v0), "P1: perm is a permutation on exit of the pivot loop");
//@ loop AdjCholDec_solve 7
__CPROVER_assigns(i, gv_payload, pivot, ipvt, gv_pivnode)
__CPROVER_loop_invariant(column + 1 <= i && i <= self->N + 1 && (ipvt == 0 || (column < ipvt && ipvt < i)) &&
   gv_pivnode == self->perm.p[(ipvt ? ipvt : column) - 1])
__CPROVER_decreases((long)self->N + 1 - i)
//@ head AdjCholDec_solve 7
GV_P1_HERE; GV_INST(1 <= (i) && (i) <= self->N, gv_perm_range(self, i));
//@ tail AdjCholDec_solve 7
if (ipvt == i) gv_pivnode = self->perm.p[i - 1];   /* ghost: the diagonal of the node at position i became the pivot */
//@ post AdjCholDec_solve 7
if (ipvt) { GV_P1_HERE; GV_INST(1 <= (ipvt) && (ipvt) <= self->N, gv_perm_at(self, ipvt)); }
//@ at AdjCholDec_solve aftswap
/* ghost update of the witness: whatever sits at the two positions now has that position (written against the RESULT of the swap) */
if (ipvt) {
  gv_pos.p[self->perm.p[column - 1] - 1] = column;
  gv_pos.p[self->perm.p[ipvt - 1] - 1] = ipvt;
}
__CPROVER_assert(self->perm.p[column - 1] == gv_pivnode, "P2: the node moved to position `column` is the node whose diagonal was selected as pivot");
__CPROVER_assert(gv_perm_at(self, gv_k0) && gv_pos_at(self, gv_v0), "P1: perm is a permutation after the pivot swap");
GV_P1_HERE; GV_INST(1 <= (column) && (column) <= self->N, gv_perm_range(self, column));

/* ---- inverse permutation */
//@ loop AdjCholDec_solve 13
__CPROVER_assigns(i, __CPROVER_object_whole(self->invp.p))
__CPROVER_loop_invariant(1 <= i && i <= self->N + 1 && PERM_AT(self, gv_k0) && POS_AT(self, gv_v0) &&
   ((1 <= gv_v0 && gv_v0 <= self->N && gv_pos.p[gv_v0 - 1] < i) ==> self->invp.p[gv_v0 - 1] == gv_pos.p[gv_v0 - 1]) &&
   ((1 <= gv_k0 && gv_k0 < i) ==> self->invp.p[self->perm.p[gv_k0 - 1] - 1] == gv_k0))
__CPROVER_decreases((long)self->N + 1 - i)
//@ head AdjCholDec_solve 13
GV_P1_HERE; GV_INST(1 <= (i) && (i) <= self->N, gv_perm_at(self, i));
//@ post AdjCholDec_solve 13
__CPROVER_assert(gv_invp_at(self, gv_v0), "P5: invp(v) is the position of unknown v (so perm(invp(v)) == v), for an arbitrary unknown");
__CPROVER_assert(gv_inv2_at(self, gv_k0), "P5: invp(perm(k)) == k, for an arbitrary position");

/* ---- regularisation: g_perm, rebuilt list of all unknowns, Gram-Schmidt */
//@ loop AdjCholDec_solve 34
__CPROVER_assigns(i, __CPROVER_object_whole(g_perm.p))
__CPROVER_loop_invariant(1 <= i && i <= N1 + 1 && ((1 <= gv_q0 && gv_q0 < i) ==> g_perm.p[gv_q0 - 1] == gv_q0))
__CPROVER_decreases((long)N1 + 1 - i)
//@ loop AdjCholDec_solve 35
__CPROVER_assigns(i, __CPROVER_object_whole(self->minx_i))
__CPROVER_loop_invariant(1 <= i && i <= self->N + 1 && ((0 <= gv_m0 && gv_m0 < i - 1) ==> self->minx_i[gv_m0] == gv_m0 + 1))
__CPROVER_decreases((long)self->N + 1 - i)
//@ loop AdjCholDec_solve 36
__CPROVER_assigns(column, gv_payload, __CPROVER_object_whole(g_perm.p), self->x, self->is_solved, gv_exc)
__CPROVER_loop_invariant(1 <= column && column <= self->nullity + 1 && gv_exc == 0 && !self->is_solved && GP_AT(gv_q0))
__CPROVER_decreases((long)self->nullity + 1 - column)
//@ head AdjCholDec_solve 36
GV_GP_HERE; GV_INST(1 <= (column) && (column) <= N1, gv_gp_at(&g_perm, N1, column));
//@ loop AdjCholDec_solve 37
__CPROVER_assigns(i, gv_payload, pivot, ipvt)
__CPROVER_loop_invariant(column + 1 <= i && i <= self->nullity + 1 && (ipvt == 0 || (column < ipvt && ipvt < i)))
__CPROVER_decreases((long)self->nullity + 1 - i)
//@ head AdjCholDec_solve 37
GV_GP_HERE; GV_INST(1 <= (i) && (i) <= N1, gv_gp_at(&g_perm, N1, i));
//@ post AdjCholDec_solve 37
if (ipvt) { GV_GP_HERE; GV_INST(1 <= (ipvt) && (ipvt) <= N1, gv_gp_at(&g_perm, N1, ipvt)); }
//@ head AdjCholDec_solve 39
GV_GP_HERE; GV_INST(1 <= (col) && (col) <= N1, gv_gp_at(&g_perm, N1, col));
//@ at AdjCholDec_solve badreg
__CPROVER_assert(self->N0 == self->N - self->nullity && gv_invp_at(self, gv_v0) && gv_perm_at(self, gv_k0),
                 "P7: when the regularisation is found bad the flags (nullity, N0, invp) are already final");

/* ---- mechanical range contracts of the numeric loops; the head blocks instantiate P1 at the position whose perm() is read */
//@ loop AdjCholDec_solve 2
__CPROVER_assigns(i, gv_payload)
__CPROVER_loop_invariant((1) <= i && (i <= (self->N) + 1 || i == (1)))
__CPROVER_decreases(GV_MAX((long)(self->N) + 1 - i, 0))
//@ loop AdjCholDec_solve 3
__CPROVER_assigns(k, gv_payload, s)
__CPROVER_loop_invariant((1) <= k && (k <= (self->M) + 1 || k == (1)))
__CPROVER_decreases(GV_MAX((long)(self->M) + 1 - k, 0))
//@ loop AdjCholDec_solve 4
__CPROVER_assigns(j, gv_payload)
__CPROVER_loop_invariant((i) <= j && (j <= (self->N) + 1 || j == (i)))
__CPROVER_decreases(GV_MAX((long)(self->N) + 1 - j, 0))
//@ loop AdjCholDec_solve 5
__CPROVER_assigns(k, gv_payload, s)
__CPROVER_loop_invariant((1) <= k && (k <= (self->M) + 1 || k == (1)))
__CPROVER_decreases(GV_MAX((long)(self->M) + 1 - k, 0))
//@ loop AdjCholDec_solve 8
__CPROVER_assigns(i, gv_payload)
__CPROVER_loop_invariant((column) <= i && (i <= (self->N) + 1 || i == (column)))
__CPROVER_decreases(GV_MAX((long)(self->N) + 1 - i, 0))
//@ head AdjCholDec_solve 8
GV_P1_HERE; GV_INST(1 <= (i) && (i) <= self->N, gv_perm_range(self, i));
//@ loop AdjCholDec_solve 9
__CPROVER_assigns(j, gv_payload)
__CPROVER_loop_invariant((i) <= j && (j <= (self->N) + 1 || j == (i)))
__CPROVER_decreases(GV_MAX((long)(self->N) + 1 - j, 0))
//@ head AdjCholDec_solve 9
GV_P1_HERE; GV_INST(1 <= (j) && (j) <= self->N, gv_perm_range(self, j));
//@ loop AdjCholDec_solve 10
__CPROVER_assigns(j, gv_payload)
__CPROVER_loop_invariant((column+1) <= j && (j <= (self->N) + 1 || j == (column+1)))
__CPROVER_decreases(GV_MAX((long)(self->N) + 1 - j, 0))
//@ head AdjCholDec_solve 10
GV_P1_HERE; GV_INST(1 <= (j) && (j) <= self->N, gv_perm_range(self, j));
//@ loop AdjCholDec_solve 11
__CPROVER_assigns(i, gv_payload)
__CPROVER_loop_invariant((j) <= i && (i <= (self->N) + 1 || i == (j)))
__CPROVER_decreases(GV_MAX((long)(self->N) + 1 - i, 0))
//@ head AdjCholDec_solve 11
GV_P1_HERE; GV_INST(1 <= (i) && (i) <= self->N, gv_perm_range(self, i));
//@ loop AdjCholDec_solve 12
__CPROVER_assigns(pivot_row, gv_payload)
__CPROVER_loop_invariant((column+1) <= pivot_row && (pivot_row <= (self->N) + 1 || pivot_row == (column+1)))
__CPROVER_decreases(GV_MAX((long)(self->N) + 1 - pivot_row, 0))
//@ head AdjCholDec_solve 12
GV_P1_HERE; GV_INST(1 <= (pivot_row) && (pivot_row) <= self->N, gv_perm_range(self, pivot_row));
//@ loop AdjCholDec_solve 14
__CPROVER_assigns(i, gv_payload)
__CPROVER_loop_invariant((self->N0+1) <= i && (i <= (self->N) + 1 || i == (self->N0+1)))
__CPROVER_decreases(GV_MAX((long)(self->N) + 1 - i, 0))
//@ head AdjCholDec_solve 14
GV_P1_HERE; GV_INST(1 <= (i) && (i) <= self->N, gv_perm_range(self, i));
//@ loop AdjCholDec_solve 15
__CPROVER_assigns(ii, gv_payload)
__CPROVER_loop_invariant((2) <= ii && (ii <= (self->N0) + 1 || ii == (2)))
__CPROVER_decreases(GV_MAX((long)(self->N0) + 1 - ii, 0))
//@ head AdjCholDec_solve 15
GV_P1_HERE; GV_INST(1 <= (ii) && (ii) <= self->N, gv_perm_range(self, ii));
//@ loop AdjCholDec_solve 16
__CPROVER_assigns(jj, gv_payload)
__CPROVER_loop_invariant((1) <= jj && (jj <= (ii-1) + 1 || jj == (1)))
__CPROVER_decreases(GV_MAX((long)(ii-1) + 1 - jj, 0))
//@ head AdjCholDec_solve 16
GV_P1_HERE; GV_INST(1 <= (jj) && (jj) <= self->N, gv_perm_range(self, jj));
//@ loop AdjCholDec_solve 17
__CPROVER_assigns(ii, gv_payload)
__CPROVER_loop_invariant((1) <= ii && (ii <= (self->N0) + 1 || ii == (1)))
__CPROVER_decreases(GV_MAX((long)(self->N0) + 1 - ii, 0))
//@ head AdjCholDec_solve 17
GV_P1_HERE; GV_INST(1 <= (ii) && (ii) <= self->N, gv_perm_range(self, ii));
//@ loop AdjCholDec_solve 18
__CPROVER_assigns(ii, gv_payload)
__CPROVER_loop_invariant(ii <= (self->N0-1) && (ii >= (1) - 1 || ii == (self->N0-1)))
__CPROVER_decreases(GV_MAX((long)ii - (1) + 1, 0))
//@ head AdjCholDec_solve 18
GV_P1_HERE; GV_INST(1 <= (ii) && (ii) <= self->N, gv_perm_range(self, ii));
//@ loop AdjCholDec_solve 19
__CPROVER_assigns(jj, gv_payload)
__CPROVER_loop_invariant((ii+1) <= jj && (jj <= (self->N0) + 1 || jj == (ii+1)))
__CPROVER_decreases(GV_MAX((long)(self->N0) + 1 - jj, 0))
//@ head AdjCholDec_solve 19
GV_P1_HERE; GV_INST(1 <= (jj) && (jj) <= self->N, gv_perm_range(self, jj));
//@ loop AdjCholDec_solve 20
__CPROVER_assigns(i, gv_payload)
__CPROVER_loop_invariant((1) <= i && (i <= (self->M) + 1 || i == (1)))
__CPROVER_decreases(GV_MAX((long)(self->M) + 1 - i, 0))
//@ loop AdjCholDec_solve 21
__CPROVER_assigns(jj, gv_payload)
__CPROVER_loop_invariant((1) <= jj && (jj <= (self->N0) + 1 || jj == (1)))
__CPROVER_decreases(GV_MAX((long)(self->N0) + 1 - jj, 0))
//@ head AdjCholDec_solve 21
GV_P1_HERE; GV_INST(1 <= (jj) && (jj) <= self->N, gv_perm_range(self, jj));
//@ loop AdjCholDec_solve 22
__CPROVER_assigns(column, gv_payload)
__CPROVER_loop_invariant(column <= (self->N0) && (column >= (1) - 1 || column == (self->N0)))
__CPROVER_decreases(GV_MAX((long)column - (1) + 1, 0))
//@ head AdjCholDec_solve 22
GV_P1_HERE; GV_INST(1 <= (column) && (column) <= self->N, gv_perm_range(self, column));
//@ loop AdjCholDec_solve 23
__CPROVER_assigns(kk, gv_payload, zii)
__CPROVER_loop_invariant((column+1) <= kk && (kk <= (self->N0) + 1 || kk == (column+1)))
__CPROVER_decreases(GV_MAX((long)(self->N0) + 1 - kk, 0))
//@ head AdjCholDec_solve 23
GV_P1_HERE; GV_INST(1 <= (kk) && (kk) <= self->N, gv_perm_range(self, kk));
//@ loop AdjCholDec_solve 24
__CPROVER_assigns(row, gv_payload)
__CPROVER_loop_invariant(row <= (column-1) && (row >= (1) - 1 || row == (column-1)))
__CPROVER_decreases(GV_MAX((long)row - (1) + 1, 0))
//@ head AdjCholDec_solve 24
GV_P1_HERE; GV_INST(1 <= (row) && (row) <= self->N, gv_perm_range(self, row));
//@ loop AdjCholDec_solve 25
__CPROVER_assigns(kk, gv_payload, zij)
__CPROVER_loop_invariant((row+1) <= kk && (kk <= (self->N0) + 1 || kk == (row+1)))
__CPROVER_decreases(GV_MAX((long)(self->N0) + 1 - kk, 0))
//@ head AdjCholDec_solve 25
GV_P1_HERE; GV_INST(1 <= (kk) && (kk) <= self->N, gv_perm_range(self, kk));
//@ loop AdjCholDec_solve 26
__CPROVER_assigns(i, gv_payload)
__CPROVER_loop_invariant((1) <= i && (i <= (self->N0) + 1 || i == (1)))
__CPROVER_decreases(GV_MAX((long)(self->N0) + 1 - i, 0))
//@ head AdjCholDec_solve 26
GV_P1_HERE; GV_INST(1 <= (i) && (i) <= self->N, gv_perm_range(self, i));
//@ loop AdjCholDec_solve 27
__CPROVER_assigns(j, gv_payload)
__CPROVER_loop_invariant((1) <= j && (j <= (self->nullity) + 1 || j == (1)))
__CPROVER_decreases(GV_MAX((long)(self->nullity) + 1 - j, 0))
//@ head AdjCholDec_solve 27
GV_P1_HERE; GV_INST(1 <= (self->N0+j) && (self->N0+j) <= self->N, gv_perm_range(self, self->N0+j));
//@ loop AdjCholDec_solve 28
__CPROVER_assigns(column, gv_payload)
__CPROVER_loop_invariant((1) <= column && (column <= (self->nullity) + 1 || column == (1)))
__CPROVER_decreases(GV_MAX((long)(self->nullity) + 1 - column, 0))
//@ loop AdjCholDec_solve 29
__CPROVER_assigns(ii, gv_payload)
__CPROVER_loop_invariant(ii <= (self->N0-1) && (ii >= (1) - 1 || ii == (self->N0-1)))
__CPROVER_decreases(GV_MAX((long)ii - (1) + 1, 0))
//@ head AdjCholDec_solve 29
GV_P1_HERE; GV_INST(1 <= (ii) && (ii) <= self->N, gv_perm_range(self, ii));
//@ loop AdjCholDec_solve 30
__CPROVER_assigns(jj, gv_payload)
__CPROVER_loop_invariant((ii+1) <= jj && (jj <= (self->N0) + 1 || jj == (ii+1)))
__CPROVER_decreases(GV_MAX((long)(self->N0) + 1 - jj, 0))
//@ head AdjCholDec_solve 30
GV_P1_HERE; GV_INST(1 <= (jj) && (jj) <= self->N, gv_perm_range(self, jj));
//@ loop AdjCholDec_solve 31
__CPROVER_assigns(i, gv_payload)
__CPROVER_loop_invariant((1) <= i && (i <= (self->nullity) + 1 || i == (1)))
__CPROVER_decreases(GV_MAX((long)(self->nullity) + 1 - i, 0))
//@ head AdjCholDec_solve 31
GV_P1_HERE; GV_INST(1 <= (self->N0+i) && (self->N0+i) <= self->N, gv_perm_range(self, self->N0+i));
//@ loop AdjCholDec_solve 32
__CPROVER_assigns(j, gv_payload)
__CPROVER_loop_invariant((1) <= j && (j <= (self->nullity) + 1 || j == (1)))
__CPROVER_decreases(GV_MAX((long)(self->nullity) + 1 - j, 0))
//@ loop AdjCholDec_solve 33
__CPROVER_assigns(i, gv_payload)
__CPROVER_loop_invariant((1) <= i && (i <= (self->N) + 1 || i == (1)))
__CPROVER_decreases(GV_MAX((long)(self->N) + 1 - i, 0))
//@ loop AdjCholDec_solve 38
__CPROVER_assigns(i, gv_payload)
__CPROVER_loop_invariant((1) <= i && (i <= (self->N) + 1 || i == (1)))
__CPROVER_decreases(GV_MAX((long)(self->N) + 1 - i, 0))
//@ loop AdjCholDec_solve 39
__CPROVER_assigns(col, gv_payload)
__CPROVER_loop_invariant((column+1) <= col && (col <= (N1) + 1 || col == (column+1)))
__CPROVER_decreases(GV_MAX((long)(N1) + 1 - col, 0))
//@ loop AdjCholDec_solve 40
__CPROVER_assigns(i, gv_payload)
__CPROVER_loop_invariant((1) <= i && (i <= (self->N) + 1 || i == (1)))
__CPROVER_decreases(GV_MAX((long)(self->N) + 1 - i, 0))
//@ loop AdjCholDec_solve 41
__CPROVER_assigns(i, gv_payload)
__CPROVER_loop_invariant((1) <= i && (i <= (self->N) + 1 || i == (1)))
__CPROVER_decreases(GV_MAX((long)(self->N) + 1 - i, 0))
//@ end

/* ================================================================ lindep(n) */
//@ contract AdjCholDec_lindep
CH_SOLVE_REQUIRES(self)
__CPROVER_requires(1 <= n && n <= self->pA->cols && gv_v0 == n)
__CPROVER_assigns(CH_SOLVE_ASSIGNS(self))
__CPROVER_ensures(gv_exc == 0 || gv_exc == GV_BadRegularization)
__CPROVER_ensures(CH_SOLVED(self))
__CPROVER_ensures(gv_exc == 0 ==> (__CPROVER_return_value == (self->nullity > 0 && gv_pos.p[n - 1] > self->N - self->nullity)))
__CPROVER_ensures(gv_exc == 0 ==> (1 <= gv_pos.p[n - 1] && gv_pos.p[n - 1] <= self->N && self->perm.p[gv_pos.p[n - 1] - 1] == n))
#ifdef GV_IMAGE
/* the converse direction: the unknown that sits at an arbitrary position k is flagged iff k is beyond N0 */
__CPROVER_ensures((gv_exc == 0 && __CPROVER_old(self->is_solved) && 1 <= gv_k0 && gv_k0 <= self->N && n == self->perm.p[gv_k0 - 1])
                  ==> (__CPROVER_return_value == (self->nullity > 0 && gv_k0 > self->N0)))
#endif
//@ entry AdjCholDec_lindep
GV_CANARY("AdjCholDec_lindep entry");
//@ end

/* ================================================================ blocks of solve() */
/* (1) perm(i) = i */
//@ contract AdjCholDec_blk_perm_init
__CPROVER_requires(BLK_SHAPE(self) && 1 <= i && i <= self->N)
__CPROVER_assigns(__CPROVER_object_whole(self->perm.p))
__CPROVER_ensures(self->perm.p[i - 1] == i)
__CPROVER_ensures((1 <= gv_k0 && gv_k0 <= self->N && gv_k0 != i) ==> self->perm.p[gv_k0 - 1] == __CPROVER_old(self->perm.p[gv_k0 - 1]))
//@ entry AdjCholDec_blk_perm_init
GV_CANARY("AdjCholDec_blk_perm_init entry");
//@ end

/* (2) one iteration of the pivot loop.  {forall k. PERM_AT(k), POS_AT(k)}  body  {forall k. PERM_AT(k), POS_AT(k)}:
       the precondition is used through instances (GV_P1_HERE; GV_INST(...)), the postcondition is proved at the arbitrary ghost indices.
       Loop-level consequences (meta-argument over the verbatim loop header `for (Index column=1; column<=N; column++)`, which the extractor
       matches token by token): iterations 1..c-1 return without gv_brk and leave nullity == 0; the loop ends either after iteration N
       (N accepted pivots, nullity == 0 == N - N) or at the first iteration c that sets gv_brk (c-1 accepted pivots, nullity == N - (c-1));
       it runs at most N times.  The same facts are stated as a real loop contract on the whole function (loop 6 of AdjCholDec_solve, ghost counter
       gv_accepted) and checked with the loop unwound by bounded_count. */
//@ contract AdjCholDec_blk_pivot_step
__CPROVER_requires(gv_exc == 0 && !gv_brk && BLK_SHAPE(self) && 1 <= column && column <= self->N && self->nullity == 0)
__CPROVER_requires(self->s_tol > 0)
__CPROVER_requires(PERM_AT(self, gv_k0) && POS_AT(self, gv_v0))
__CPROVER_assigns(gv_payload, self->nullity, gv_brk, gv_pivnode, __CPROVER_object_whole(self->perm.p), __CPROVER_object_whole(gv_pos.p))
__CPROVER_ensures(PERM_AT(self, gv_k0) && POS_AT(self, gv_v0))
__CPROVER_ensures(gv_brk ? self->nullity == self->N - (column - 1) : self->nullity == 0)
__CPROVER_ensures(0 <= self->nullity && self->nullity <= self->N && gv_exc == 0)
//@ entry AdjCholDec_blk_pivot_step
GV_CANARY("AdjCholDec_blk_pivot_step entry");
GV_P1_HERE; GV_INST(1 <= (column) && (column) <= self->N, gv_perm_at(self, column));
gv_pivnode = self->perm.p[column - 1];
//@ loop AdjCholDec_blk_pivot_step 1
__CPROVER_assigns(i, gv_payload, pivot, ipvt, gv_pivnode)
__CPROVER_loop_invariant(column + 1 <= i && i <= self->N + 1 && (ipvt == 0 || (column < ipvt && ipvt < i)) &&
   gv_pivnode == self->perm.p[(ipvt ? ipvt : column) - 1])
__CPROVER_decreases((long)self->N + 1 - i)
//@ head AdjCholDec_blk_pivot_step 1
GV_P1_HERE; GV_INST(1 <= (i) && (i) <= self->N, gv_perm_range(self, i));
//@ tail AdjCholDec_blk_pivot_step 1
if (ipvt == i) gv_pivnode = self->perm.p[i - 1];
//@ post AdjCholDec_blk_pivot_step 1
if (ipvt) { GV_P1_HERE; GV_INST(1 <= (ipvt) && (ipvt) <= self->N, gv_perm_at(self, ipvt)); }
//@ at AdjCholDec_blk_pivot_step aftswap
if (ipvt) {
  gv_pos.p[self->perm.p[column - 1] - 1] = column;
  gv_pos.p[self->perm.p[ipvt - 1] - 1] = ipvt;
}
__CPROVER_assert(self->perm.p[column - 1] == gv_pivnode, "P2: the node moved to position `column` is the node whose diagonal was selected as pivot");
__CPROVER_assert(gv_perm_at(self, gv_k0) && gv_pos_at(self, gv_v0), "P1: perm is a permutation after the pivot swap");
GV_P1_HERE; GV_INST(1 <= (column) && (column) <= self->N, gv_perm_range(self, column));
//@ loop AdjCholDec_blk_pivot_step 2
__CPROVER_assigns(i, gv_payload)
__CPROVER_loop_invariant((column) <= i && (i <= (self->N) + 1 || i == (column)))
__CPROVER_decreases(GV_MAX((long)(self->N) + 1 - i, 0))
//@ head AdjCholDec_blk_pivot_step 2
GV_P1_HERE; GV_INST(1 <= (i) && (i) <= self->N, gv_perm_range(self, i));
//@ loop AdjCholDec_blk_pivot_step 3
__CPROVER_assigns(j, gv_payload)
__CPROVER_loop_invariant((i) <= j && (j <= (self->N) + 1 || j == (i)))
__CPROVER_decreases(GV_MAX((long)(self->N) + 1 - j, 0))
//@ head AdjCholDec_blk_pivot_step 3
GV_P1_HERE; GV_INST(1 <= (j) && (j) <= self->N, gv_perm_range(self, j));
//@ loop AdjCholDec_blk_pivot_step 4
__CPROVER_assigns(j, gv_payload)
__CPROVER_loop_invariant((column+1) <= j && (j <= (self->N) + 1 || j == (column+1)))
__CPROVER_decreases(GV_MAX((long)(self->N) + 1 - j, 0))
//@ head AdjCholDec_blk_pivot_step 4
GV_P1_HERE; GV_INST(1 <= (j) && (j) <= self->N, gv_perm_range(self, j));
//@ loop AdjCholDec_blk_pivot_step 5
__CPROVER_assigns(i, gv_payload)
__CPROVER_loop_invariant((j) <= i && (i <= (self->N) + 1 || i == (j)))
__CPROVER_decreases(GV_MAX((long)(self->N) + 1 - i, 0))
//@ head AdjCholDec_blk_pivot_step 5
GV_P1_HERE; GV_INST(1 <= (i) && (i) <= self->N, gv_perm_range(self, i));
//@ loop AdjCholDec_blk_pivot_step 6
__CPROVER_assigns(pivot_row, gv_payload)
__CPROVER_loop_invariant((column+1) <= pivot_row && (pivot_row <= (self->N) + 1 || pivot_row == (column+1)))
__CPROVER_decreases(GV_MAX((long)(self->N) + 1 - pivot_row, 0))
//@ head AdjCholDec_blk_pivot_step 6
GV_P1_HERE; GV_INST(1 <= (pivot_row) && (pivot_row) <= self->N, gv_perm_range(self, pivot_row));
//@ end

/* (5) later uses of perm: one iteration each; precondition = state after the pivot loop and `N0 = N - nullity` */
//@ contract AdjCholDec_blk_x0_zero
__CPROVER_requires(BLK_AFTER_PIVOT(self) && self->N0 + 1 <= i && i <= self->N)
__CPROVER_assigns(gv_payload)
//@ entry AdjCholDec_blk_x0_zero
GV_CANARY("AdjCholDec_blk_x0_zero entry");
GV_P1_HERE; GV_INST(1 <= (i) && (i) <= self->N, gv_perm_range(self, i));
//@ end

//@ contract AdjCholDec_blk_forward
__CPROVER_requires(BLK_AFTER_PIVOT(self) && 2 <= ii && ii <= self->N0)
__CPROVER_assigns(gv_payload)
//@ entry AdjCholDec_blk_forward
GV_CANARY("AdjCholDec_blk_forward entry");
GV_P1_HERE; GV_INST(1 <= (ii) && (ii) <= self->N, gv_perm_range(self, ii));
//@ loop AdjCholDec_blk_forward 1
__CPROVER_assigns(jj, gv_payload)
__CPROVER_loop_invariant((1) <= jj && (jj <= (ii-1) + 1 || jj == (1)))
__CPROVER_decreases(GV_MAX((long)(ii-1) + 1 - jj, 0))
//@ head AdjCholDec_blk_forward 1
GV_P1_HERE; GV_INST(1 <= (jj) && (jj) <= self->N, gv_perm_range(self, jj));
//@ end

//@ contract AdjCholDec_blk_diag
__CPROVER_requires(BLK_AFTER_PIVOT(self) && 1 <= ii && ii <= self->N0)
__CPROVER_assigns(gv_payload)
//@ entry AdjCholDec_blk_diag
GV_CANARY("AdjCholDec_blk_diag entry");
GV_P1_HERE; GV_INST(1 <= (ii) && (ii) <= self->N, gv_perm_range(self, ii));
//@ end

//@ contract AdjCholDec_blk_backward
__CPROVER_requires(BLK_AFTER_PIVOT(self) && 1 <= ii && ii <= self->N0 - 1)
__CPROVER_assigns(gv_payload)
//@ entry AdjCholDec_blk_backward
GV_CANARY("AdjCholDec_blk_backward entry");
GV_P1_HERE; GV_INST(1 <= (ii) && (ii) <= self->N, gv_perm_range(self, ii));
//@ loop AdjCholDec_blk_backward 1
__CPROVER_assigns(jj, gv_payload)
__CPROVER_loop_invariant((ii+1) <= jj && (jj <= (self->N0) + 1 || jj == (ii+1)))
__CPROVER_decreases(GV_MAX((long)(self->N0) + 1 - jj, 0))
//@ head AdjCholDec_blk_backward 1
GV_P1_HERE; GV_INST(1 <= (jj) && (jj) <= self->N, gv_perm_range(self, jj));
//@ end

//@ contract AdjCholDec_blk_residual
__CPROVER_requires(BLK_AFTER_PIVOT(self) && 1 <= i && i <= self->M && self->r.dim == self->M)
__CPROVER_assigns(gv_payload)
//@ entry AdjCholDec_blk_residual
GV_CANARY("AdjCholDec_blk_residual entry");
//@ loop AdjCholDec_blk_residual 1
__CPROVER_assigns(jj, gv_payload)
__CPROVER_loop_invariant((1) <= jj && (jj <= (self->N0) + 1 || jj == (1)))
__CPROVER_decreases(GV_MAX((long)(self->N0) + 1 - jj, 0))
//@ head AdjCholDec_blk_residual 1
GV_P1_HERE; GV_INST(1 <= (jj) && (jj) <= self->N, gv_perm_range(self, jj));
//@ end

//@ contract AdjCholDec_blk_cofactor
__CPROVER_requires(BLK_AFTER_PIVOT(self) && 1 <= column && column <= self->N0 && self->Q0.dim == self->N)
__CPROVER_assigns(gv_payload)
//@ entry AdjCholDec_blk_cofactor
GV_CANARY("AdjCholDec_blk_cofactor entry");
GV_P1_HERE; GV_INST(1 <= (column) && (column) <= self->N, gv_perm_range(self, column));
//@ loop AdjCholDec_blk_cofactor 1
__CPROVER_assigns(kk, gv_payload, zii)
__CPROVER_loop_invariant((column+1) <= kk && (kk <= (self->N0) + 1 || kk == (column+1)))
__CPROVER_decreases(GV_MAX((long)(self->N0) + 1 - kk, 0))
//@ head AdjCholDec_blk_cofactor 1
GV_P1_HERE; GV_INST(1 <= (kk) && (kk) <= self->N, gv_perm_range(self, kk));
//@ loop AdjCholDec_blk_cofactor 2
__CPROVER_assigns(row, gv_payload)
__CPROVER_loop_invariant(row <= (column-1) && (row >= (1) - 1 || row == (column-1)))
__CPROVER_decreases(GV_MAX((long)row - (1) + 1, 0))
//@ head AdjCholDec_blk_cofactor 2
GV_P1_HERE; GV_INST(1 <= (row) && (row) <= self->N, gv_perm_range(self, row));
//@ loop AdjCholDec_blk_cofactor 3
__CPROVER_assigns(kk, gv_payload, zij)
__CPROVER_loop_invariant((row+1) <= kk && (kk <= (self->N0) + 1 || kk == (row+1)))
__CPROVER_decreases(GV_MAX((long)(self->N0) + 1 - kk, 0))
//@ head AdjCholDec_blk_cofactor 3
GV_P1_HERE; GV_INST(1 <= (kk) && (kk) <= self->N, gv_perm_range(self, kk));
//@ end

//@ contract AdjCholDec_blk_G_fill
__CPROVER_requires(BLK_AFTER_PIVOT(self) && 1 <= i && i <= self->N0 && 1 <= j && j <= self->nullity)
__CPROVER_requires(self->G.rows == self->N && self->G.cols == self->nullity + 1)
__CPROVER_assigns(gv_payload)
//@ entry AdjCholDec_blk_G_fill
GV_CANARY("AdjCholDec_blk_G_fill entry");
GV_P1_HERE; GV_INST(1 <= (i) && (i) <= self->N, gv_perm_range(self, i));
GV_P1_HERE; GV_INST(1 <= (self->N0 + j) && (self->N0 + j) <= self->N, gv_perm_range(self, self->N0 + j));
//@ end

//@ contract AdjCholDec_blk_G_identity
__CPROVER_requires(BLK_AFTER_PIVOT(self) && 1 <= i && i <= self->nullity && 1 <= j && j <= self->nullity)
__CPROVER_requires(self->G.rows == self->N && self->G.cols == self->nullity + 1)
__CPROVER_assigns(gv_payload)
//@ entry AdjCholDec_blk_G_identity
GV_CANARY("AdjCholDec_blk_G_identity entry");
GV_P1_HERE; GV_INST(1 <= (self->N0 + i) && (self->N0 + i) <= self->N, gv_perm_range(self, self->N0 + i));
//@ end

//@ contract AdjCholDec_blk_G_backward
__CPROVER_requires(BLK_AFTER_PIVOT(self) && 1 <= column && column <= self->nullity && 1 <= ii && ii <= self->N0 - 1)
__CPROVER_requires(self->G.rows == self->N && self->G.cols == self->nullity + 1)
__CPROVER_assigns(gv_payload)
//@ entry AdjCholDec_blk_G_backward
GV_CANARY("AdjCholDec_blk_G_backward entry");
GV_P1_HERE; GV_INST(1 <= (ii) && (ii) <= self->N, gv_perm_range(self, ii));
//@ loop AdjCholDec_blk_G_backward 1
__CPROVER_assigns(jj, gv_payload)
__CPROVER_loop_invariant((ii+1) <= jj && (jj <= (self->N0) + 1 || jj == (ii+1)))
__CPROVER_decreases(GV_MAX((long)(self->N0) + 1 - jj, 0))
//@ head AdjCholDec_blk_G_backward 1
GV_P1_HERE; GV_INST(1 <= (jj) && (jj) <= self->N, gv_perm_range(self, jj));
//@ end

/* (5)/(6) one step of the Gram-Schmidt orthogonalisation of G (regularisation): g_perm keeps naming columns of G; BadRegularization is raised
   only after `x = x0` and `is_solved = true` (P7, block level) */
//@ contract AdjCholDec_blk_gs_step
__CPROVER_requires(gv_exc == 0 && !self->is_solved && BLK_AFTER_PIVOT(self) && self->nullity >= 1 && N1 == self->nullity + 1)
__CPROVER_requires(1 <= column && column <= self->nullity && self->G.rows == self->N && self->G.cols == N1)
__CPROVER_requires(g_perm.dim == N1 && __CPROVER_rw_ok(g_perm.p, (size_t)N1 * sizeof(Index)) && GP_AT(gv_q0))
__CPROVER_requires(CH_HEAP_OK(self) && MINX_AT(self, self->N, gv_m0))
__CPROVER_assigns(gv_payload, __CPROVER_object_whole(g_perm.p), self->x, self->is_solved, gv_exc)
__CPROVER_ensures(gv_exc == 0 || gv_exc == GV_BadRegularization)
__CPROVER_ensures(GP_AT(gv_q0))
__CPROVER_ensures(gv_exc == GV_BadRegularization ==> (self->is_solved && self->x.dim == self->x0.dim))
__CPROVER_ensures(gv_exc == 0 ==> !self->is_solved)
//@ entry AdjCholDec_blk_gs_step
GV_CANARY("AdjCholDec_blk_gs_step entry");
GV_GP_HERE; GV_INST(1 <= (column) && (column) <= N1, gv_gp_at(&g_perm, N1, column));
//@ loop AdjCholDec_blk_gs_step 1
__CPROVER_assigns(i, gv_payload, pivot, ipvt)
__CPROVER_loop_invariant(column + 1 <= i && i <= self->nullity + 1 && (ipvt == 0 || (column < ipvt && ipvt < i)))
__CPROVER_decreases((long)self->nullity + 1 - i)
//@ head AdjCholDec_blk_gs_step 1
GV_GP_HERE; GV_INST(1 <= (i) && (i) <= N1, gv_gp_at(&g_perm, N1, i));
//@ post AdjCholDec_blk_gs_step 1
if (ipvt) { GV_GP_HERE; GV_INST(1 <= (ipvt) && (ipvt) <= N1, gv_gp_at(&g_perm, N1, ipvt)); }
//@ loop AdjCholDec_blk_gs_step 2
__CPROVER_assigns(i, gv_payload)
__CPROVER_loop_invariant((1) <= i && (i <= (self->N) + 1 || i == (1)))
__CPROVER_decreases(GV_MAX((long)(self->N) + 1 - i, 0))
//@ loop AdjCholDec_blk_gs_step 3
__CPROVER_assigns(col, gv_payload)
__CPROVER_loop_invariant((column+1) <= col && (col <= (N1) + 1 || col == (column+1)))
__CPROVER_decreases(GV_MAX((long)(N1) + 1 - col, 0))
//@ head AdjCholDec_blk_gs_step 3
GV_GP_HERE; GV_INST(1 <= (col) && (col) <= N1, gv_gp_at(&g_perm, N1, col));
//@ loop AdjCholDec_blk_gs_step 4
__CPROVER_assigns(i, gv_payload)
__CPROVER_loop_invariant((1) <= i && (i <= (self->N) + 1 || i == (1)))
__CPROVER_decreases(GV_MAX((long)(self->N) + 1 - i, 0))
//@ end

//@ contract AdjCholDec_blk_G_x0
__CPROVER_requires(BLK_AFTER_PIVOT(self) && 1 <= i && i <= self->N && N1 == self->nullity + 1 && self->G.rows == self->N && self->G.cols == N1)
__CPROVER_assigns(gv_payload)
//@ entry AdjCholDec_blk_G_x0
GV_CANARY("AdjCholDec_blk_G_x0 entry");
//@ end

//@ harness
static struct Mat gv_the_A;
static struct Vec gv_the_b;
/* arbitrary object state: never solved, or solved before (then the representation invariant of a solved object holds) */
static void mk_chol(struct AdjCholDec *S)
{
  Index m, n, nl, np, ni, ng, k0, v0, m0, q0;
  _Bool nolist, noperm, noinvp, nopos;
  __CPROVER_assume(0 <= m && m <= MAXOBS && 0 <= n && n <= MAXDIM && 0 <= nl && nl <= MAXDIM);
  __CPROVER_assume(0 <= np && np <= MAXDIM && 0 <= ni && ni <= MAXDIM && 0 <= ng && ng <= MAXDIM);
  gv_the_A.rows = m; gv_the_A.cols = n; gv_the_b.dim = m;
  S->pA = &gv_the_A;
  S->pb = &gv_the_b;
  S->minx_n = nolist ? 0 : nl;
  S->minx_i = nolist ? NULL : malloc((size_t)nl * sizeof(Index));
  if (S->is_solved) { np = n; ni = n; ng = n; noperm = noinvp = nopos = 0; }
  S->perm.dim = noperm ? 0 : np;  S->perm.p = noperm ? NULL : malloc((size_t)np * sizeof(Index));
  S->invp.dim = noinvp ? 0 : ni;  S->invp.p = noinvp ? NULL : malloc((size_t)ni * sizeof(Index));
  gv_pos.dim = nopos ? 0 : ng;    gv_pos.p = nopos ? NULL : malloc((size_t)ng * sizeof(Index));
  __CPROVER_assume((nolist || S->minx_i != NULL) && (noperm || S->perm.p != NULL) && (noinvp || S->invp.p != NULL) && (nopos || gv_pos.p != NULL));
  __CPROVER_assume(S->minx_t == ALL || S->minx_t == SUBSET);
  __CPROVER_assume(S->s_tol == S->s_tol);
  gv_exc = 0;
  gv_k0 = k0; gv_v0 = v0; gv_m0 = m0; gv_q0 = q0;
  __CPROVER_assume(MINX_AT(S, n, gv_m0));
}
void h_solve(void)
{
  struct AdjCholDec S; mk_chol(&S);
  __CPROVER_assume(!S.is_solved || (CH_SOLVED(&S) && CH_FACTS(&S)));
  AdjCholDec_solve(&S);
  GV_CANARY("h_solve end");
}
void h_lindep(void)
{
  struct AdjCholDec S; mk_chol(&S);
  Index n;
  __CPROVER_assume(1 <= n && n <= gv_the_A.cols);
  gv_v0 = n;
  __CPROVER_assume(!S.is_solved || (CH_SOLVED(&S) && CH_FACTS(&S)));
  _Bool w_is_solved = S.is_solved;
  AdjCholDec_lindep(&S, n);
  GV_CANARY("h_lindep end");
}
void h_dot(void)
{
  struct AdjCholDec S; mk_chol(&S);
  Index i, j;
  __CPROVER_assume(S.G.rows == gv_the_A.cols && 0 <= S.G.cols && S.G.cols <= MAXDIM);
  AdjCholDec_dot(&S, &S.G, i, j);
  GV_CANARY("h_dot end");
}

/* state for the blocks: N, perm and the witness gv_pos as arbitrary arrays of the right shape */
static void mk_blk(struct AdjCholDec *S)
{
  Index k0, v0;
  __CPROVER_assume(0 <= S->N && S->N <= MAXDIM && 0 <= S->M && S->M <= MAXOBS);
  S->perm.dim = S->N; S->perm.p = malloc((size_t)S->N * sizeof(Index));
  gv_pos.dim = S->N;  gv_pos.p = malloc((size_t)S->N * sizeof(Index));
  __CPROVER_assume(S->perm.p != NULL && gv_pos.p != NULL);
  S->mat.dim = S->N; S->rhs.dim = S->N;
  gv_the_A.rows = S->M; gv_the_A.cols = S->N; gv_the_b.dim = S->M;
  S->pA = &gv_the_A; S->pb = &gv_the_b;
  gv_exc = 0; gv_brk = 0;
  gv_k0 = k0; gv_v0 = v0;
}
static void mk_blk_after_pivot(struct AdjCholDec *S)
{
  mk_blk(S);
  __CPROVER_assume(BLK_AFTER_PIVOT(S));
}
void h_blk_perm_init(void)
{
  struct AdjCholDec S; mk_blk(&S);
  Index i;
  AdjCholDec_blk_perm_init(&S, i);
  GV_CANARY("h_blk_perm_init end");
}
void h_blk_pivot_step(void)
{
  struct AdjCholDec S; mk_blk(&S);
  Index column;
  __CPROVER_assume(PERM_AT(&S, gv_k0) && POS_AT(&S, gv_v0));
  AdjCholDec_blk_pivot_step(&S, column);
  GV_CANARY("h_blk_pivot_step end");
}
void h_blk_x0_zero(void)   { struct AdjCholDec S; mk_blk_after_pivot(&S); Index i;  AdjCholDec_blk_x0_zero(&S, i);   GV_CANARY("h_blk_x0_zero end"); }
void h_blk_forward(void)   { struct AdjCholDec S; mk_blk_after_pivot(&S); Index ii; AdjCholDec_blk_forward(&S, ii);  GV_CANARY("h_blk_forward end"); }
void h_blk_diag(void)      { struct AdjCholDec S; mk_blk_after_pivot(&S); Index ii; AdjCholDec_blk_diag(&S, ii);     GV_CANARY("h_blk_diag end"); }
void h_blk_backward(void)  { struct AdjCholDec S; mk_blk_after_pivot(&S); Index ii; AdjCholDec_blk_backward(&S, ii); GV_CANARY("h_blk_backward end"); }
void h_blk_residual(void)  { struct AdjCholDec S; mk_blk_after_pivot(&S); Index i;  AdjCholDec_blk_residual(&S, i);  GV_CANARY("h_blk_residual end"); }
void h_blk_cofactor(void)  { struct AdjCholDec S; mk_blk_after_pivot(&S); Index c;  AdjCholDec_blk_cofactor(&S, c);  GV_CANARY("h_blk_cofactor end"); }
void h_blk_G_fill(void)    { struct AdjCholDec S; mk_blk_after_pivot(&S); Index i, j; AdjCholDec_blk_G_fill(&S, i, j); GV_CANARY("h_blk_G_fill end"); }
void h_blk_G_identity(void){ struct AdjCholDec S; mk_blk_after_pivot(&S); Index i, j; AdjCholDec_blk_G_identity(&S, i, j); GV_CANARY("h_blk_G_identity end"); }
void h_blk_G_backward(void){ struct AdjCholDec S; mk_blk_after_pivot(&S); Index c, ii; AdjCholDec_blk_G_backward(&S, c, ii); GV_CANARY("h_blk_G_backward end"); }

void h_blk_G_x0(void)      { struct AdjCholDec S; mk_blk_after_pivot(&S); Index i, n1; AdjCholDec_blk_G_x0(&S, i, n1); GV_CANARY("h_blk_G_x0 end"); }
void h_blk_gs_step(void)
{
  struct AdjCholDec S; mk_blk_after_pivot(&S);
  Index column, N1, q0, m0, nl;
  _Bool nolist;
  __CPROVER_assume(1 <= N1 && N1 <= MAXDIM + 1 && 0 <= nl && nl <= MAXDIM);
  struct VecI g_perm;
  g_perm.dim = N1; g_perm.p = malloc((size_t)N1 * sizeof(Index));
  S.minx_n = nolist ? 0 : nl;
  S.minx_i = nolist ? NULL : malloc((size_t)nl * sizeof(Index));
  __CPROVER_assume(g_perm.p != NULL && (nolist || S.minx_i != NULL));
  gv_q0 = q0; gv_m0 = m0;
  __CPROVER_assume(GP_AT(gv_q0) && MINX_AT(&S, S.N, gv_m0) && (S.minx_t == ALL || S.minx_t == SUBSET));
  AdjCholDec_blk_gs_step(&S, column, g_perm, N1);
  GV_CANARY("h_blk_gs_step end");
}

#ifdef GV_BOUNDED
/* bounded whole-function check: solve() on an arbitrary opaque payload with N <= GV_BN unknowns, then lindep(n) for EVERY n; the flagged
   unknowns are COUNTED (the pigeonhole step of P6) and perm / invp are compared element by element */
void h_bounded_count(void)
{
  struct AdjCholDec S;
  Index m, n;
  __CPROVER_assume(0 <= m && m <= GV_BM && 0 <= n && n <= GV_BN);
  gv_the_A.rows = m; gv_the_A.cols = n; gv_the_b.dim = m;
  S.pA = &gv_the_A; S.pb = &gv_the_b;
  S.is_solved = 0;
  S.perm.dim = 0; S.perm.p = NULL; S.invp.dim = 0; S.invp.p = NULL; gv_pos.dim = 0; gv_pos.p = NULL;
  S.minx_t = ALL; S.minx_n = 0; S.minx_i = NULL;      /* state after the constructor (init()) */
  S.s_tol = 0;
  { Index old_nullity, old_N0;   /* a solver that is REUSED (reset(A,b) after an earlier, possibly rank-deficient solve -- the retry path of
                                    LocalNetwork::null_space) still holds the bookkeeping of that solve: arbitrary here */
    __CPROVER_assume(0 <= old_nullity && old_nullity <= GV_BN && 0 <= old_N0 && old_N0 <= GV_BN);   /* left by a solve within the same bound */
    S.nullity = old_nullity; S.N0 = old_N0; }
  gv_exc = 0;
  AdjCholDec_solve(&S);
  __CPROVER_assert(gv_exc == 0 || gv_exc == GV_BadRegularization, "bounded: only BadRegularization may be raised");
  __CPROVER_assert(S.is_solved && S.N == n && 0 <= S.nullity && S.nullity <= n && S.N0 == n - S.nullity, "bounded: flags consistent after solve(), also after BadRegularization");
  if (!S.is_solved) return;   /* reported by the assertion above; lindep() on an unsolved object would run the whole solve() again per call */
  Index flagged = 0;
  for (Index k = 1; k <= n; k++) {
    Index v = S.perm.p[k - 1];
    __CPROVER_assert(1 <= v && v <= n && S.invp.p[v - 1] == k, "bounded: perm(k) is an unknown and invp(perm(k)) == k");
    for (Index l = 1; l < k; l++) __CPROVER_assert(S.perm.p[l - 1] != v, "bounded: perm has no repeated entry");
  }
  int was_exc = gv_exc;
  gv_exc = 0;                                          /* the catch clause of LocalNetwork::null_space */
  for (Index v = 1; v <= n; v++) {
    bool f = AdjCholDec_lindep(&S, v);
    __CPROVER_assert(gv_exc == 0, "bounded: lindep() after a completed solve() does not raise (also after BadRegularization)");
    if (f) flagged++;
    __CPROVER_assert(f == (S.nullity > 0 && S.invp.p[v - 1] > S.N0), "bounded: lindep(v) is about ORIGINAL unknown v");
  }
  __CPROVER_assert(flagged == S.nullity, "bounded P6: the number of flagged unknowns equals the defect");
  GV_CANARY("h_bounded_count end");
}
#endif
//@ end
