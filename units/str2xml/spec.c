/* Sidecar contracts for lib/gnu_gama/xml/str2xml.cpp : std::string str2xml(const std::string&)  (property C12-U1).
   The body is extracted from /repo on every run; std::string is lowered to struct gv_str by the rules in unit.json. */

//@ prelude
struct gv_str {
  long  len;   /* number of bytes */
  long  cap;   /* ghost: size of the object behind buf */
  char *buf;
};

char *gv_out_buf;   /* ghost: storage of the local result string (supplied by the harness, 6*n bytes) */
long  gv_out_cap;
long  gv_k0;        /* ghost INPUT index  (forall-introduction: per-character step) */
long  gv_j0;        /* ghost OUTPUT index (forall-introduction: no raw markup at any position) */
long  gv_seg_pos;   /* ghost: output offset of the segment written for input byte gv_k0 */
long  gv_seg_len;   /* ghost: its length */
int   gv_exc;

#define MAXN 1000000000L

#define GV_STRING_LOCAL(t) struct gv_str t; t.len = 0; t.cap = gv_out_cap; t.buf = gv_out_buf
static inline const char *gvs_begin(const struct gv_str *s) { return s->buf; }
static inline const char *gvs_end(const struct gv_str *s) { return s->buf + s->len; }

/* model of std::string::operator+=(char) */
static inline void gvs_append_chr(struct gv_str *t, char c)
{
  __CPROVER_assert(t->len + 1 <= t->cap, "result is at most 6 bytes per input byte (append fits the 6*n buffer)");
  t->buf[t->len] = c;
  t->len += 1;
}

/* model of std::string::operator+=(const char*) for literals of at most 7 bytes (loop-free) */
static inline void gvs_append_lit(struct gv_str *t, const char *lit)
{
#define GVS_PUT(k)                                                                                              \
  if (lit[k] == 0) { t->len += (k); return; }                                                                  \
  __CPROVER_assert(t->len + (k) + 1 <= t->cap, "result is at most 6 bytes per input byte (append fits the 6*n buffer)"); \
  t->buf[t->len + (k)] = lit[k];
  GVS_PUT(0) GVS_PUT(1) GVS_PUT(2) GVS_PUT(3) GVS_PUT(4) GVS_PUT(5) GVS_PUT(6)
  __CPROVER_assert(lit[7] == 0, "appended literal has at most 7 bytes (model limit)");
  t->len += 7;
#undef GVS_PUT
}

/* models of read-only std::string members that 'fast path' edits of str2xml use (rules with fire count 0 in unit.json) */
#define GVS_NPOS (-1L)
static inline long gvs_find_first_of(const struct gv_str *s, const char *set)
{
  for (long k = 0; k < s->len; k++)
    for (int m = 0; m < 8 && set[m] != 0; m++)
      if (s->buf[k] == set[m]) return k;
  return GVS_NPOS;
}
/* `return str;` : the result is a copy of the argument (lives in the result buffer like every other result) */
static inline struct gv_str gvs_copy_out(const struct gv_str *s)
{
  struct gv_str r;
  r.len = s->len; r.cap = gv_out_cap; r.buf = gv_out_buf;
  for (long k = 0; k < s->len; k++) {
    __CPROVER_assert(k < gv_out_cap, "result is at most 6 bytes per input byte (copy fits the 6*n buffer)");
    gv_out_buf[k] = s->buf[k];
  }
  return r;
}

#include "xml_spec.h"   /* specification vocabulary + spec function xml_unescape (shared with replay.cpp) */
/* segment [p, p+l) lies inside [0, end), 1 <= l <= 6 (written without a sum that could overflow) */
#define SEG_IN(p, l, end) (0 <= (p) && 1 <= (l) && (l) <= 6 && (p) <= (end) && (l) <= (end) - (p))
/* the contract is discharged in two parts (one dfcc run each, selected by -DGV_PART): 1 = no raw markup at any output
   position, 2 = per-character segments; the range/length clauses are in both */
#if GV_PART == 1
#define P_NORAW(x) (x)
#define P_SEG(x) 1
#else
#define P_NORAW(x) 1
#define P_SEG(x) (x)
#endif
#define IDX(i) (OFF(i) - OFF(gv_b))
//@ end

/* str2xml: the result (a) is well-formed XML character data: no raw '<' / '>' and every '&' starts a predefined
   entity reference -- at EVERY output position (ghost index gv_j0); (b) is the concatenation of one segment per
   input byte, and the segment of EVERY input byte (ghost index gv_k0) is well-formed character data that
   XML-unescapes to that byte -- hence xml_unescape(result) == input; (c) n <= |result| <= 6 n.                 */
//@ contract str2xml
__CPROVER_requires(__CPROVER_r_ok(str, sizeof(struct gv_str)))
__CPROVER_requires(0 <= str->len && str->len <= MAXN && __CPROVER_r_ok(str->buf, str->len))
__CPROVER_requires(gv_out_cap == 6 * str->len && __CPROVER_rw_ok(gv_out_buf, gv_out_cap) && OFF(gv_out_buf) == 0)
__CPROVER_requires(!SAME(gv_out_buf, str->buf) && !SAME(gv_out_buf, str))
__CPROVER_assigns(gv_seg_pos, gv_seg_len, __CPROVER_object_whole(gv_out_buf))
__CPROVER_ensures(__CPROVER_return_value.buf == gv_out_buf && str->len <= __CPROVER_return_value.len && __CPROVER_return_value.len <= 6 * str->len)
__CPROVER_ensures(P_NORAW((0 <= gv_j0 && gv_j0 < __CPROVER_return_value.len) ==> NORAW_AT(gv_out_buf, gv_j0, __CPROVER_return_value.len)))
__CPROVER_ensures(P_SEG((0 <= gv_k0 && gv_k0 < str->len) ==>
                  SEG_IN(gv_seg_pos, gv_seg_len, __CPROVER_return_value.len)))
__CPROVER_ensures(P_SEG((0 <= gv_k0 && gv_k0 < str->len && SEG_IN(gv_seg_pos, gv_seg_len, __CPROVER_return_value.len)) ==>
                  SEG_DECODES_TO(gv_out_buf, gv_seg_pos, gv_seg_len, str->buf[gv_k0])))
//@ entry str2xml
GV_CANARY("str2xml entry");
const char *const gv_b = str->buf;
const long gv_n = str->len;
//@ loop str2xml 1
__CPROVER_assigns(i, t.len, gv_seg_pos, gv_seg_len, __CPROVER_object_whole(gv_out_buf))
__CPROVER_loop_invariant(SAME(i, gv_b) && 0 <= IDX(i) && IDX(i) <= gv_n && IDX(i) <= t.len && t.len <= 6 * IDX(i) &&
                         P_NORAW((0 <= gv_j0 && gv_j0 < t.len) ==> NORAW_AT(gv_out_buf, gv_j0, t.len)) &&
                         P_SEG((0 <= gv_k0 && gv_k0 < IDX(i)) ==>
                               (SEG_IN(gv_seg_pos, gv_seg_len, t.len) &&
                                SEG_DECODES_TO(gv_out_buf, gv_seg_pos, gv_seg_len, gv_b[gv_k0]))))
__CPROVER_decreases(gv_n - IDX(i))
//@ head str2xml 1
const long gv_idx = IDX(i);
const long gv_len_before = t.len;
//@ tail str2xml 1
#if GV_PART == 2
/* per-character step, stated for EVERY iteration (the loop contract makes this iteration an arbitrary one) */
__CPROVER_assert(t.len - gv_len_before >= 1 && t.len - gv_len_before <= 6, "every input byte appends between 1 and 6 bytes");
__CPROVER_assert(SEG_DECODES_TO(gv_out_buf, gv_len_before, t.len - gv_len_before, c), "the bytes appended for an input byte XML-unescape to exactly that byte");
#endif
if (gv_idx == gv_k0) { gv_seg_pos = gv_len_before; gv_seg_len = t.len - gv_len_before; }
//@ end

//@ harness
#ifdef GV_H_STEP
/* unbounded check: any length n <= MAXN, any bytes, arbitrary ghost indices */
void h_str2xml(void)
{
  long n, k0, j0;
  __CPROVER_assume(0 <= n && n <= MAXN);
  struct gv_str s;
  s.len = n;
  s.cap = n;
  s.buf = malloc(n);
  gv_out_cap = 6 * n;
  gv_out_buf = malloc(6 * n);
  __CPROVER_assume(s.buf && gv_out_buf);
  gv_k0 = k0;
  gv_j0 = j0;
  int w_c = (0 <= k0 && k0 < n) ? s.buf[k0] : 0;   /* witness for the native replay: the input byte at k0 */
  struct gv_str r = str2xml(&s);
  GV_CANARY("h_str2xml end");
}

#endif

#ifdef GV_H_RT
#ifndef GV_N
#define GV_N 6
#endif
int w_n;
int w_s[GV_N + 1];

/* bounded end-to-end check: xml_unescape(str2xml(s)) == s for every byte string of length <= GV_N.
   (the input lives in an object of exactly n bytes so that a read outside [begin,end) is an obligation) */
void h_roundtrip(void)
{
  long n;
  __CPROVER_assume(0 <= n && n <= GV_N);
  struct gv_str s;
  s.len = n;
  s.cap = n;
  s.buf = malloc(n);
  __CPROVER_assume(s.buf);
  static char outbuf[6 * GV_N + 1], back[6 * GV_N + 1];
  gv_out_cap = 6 * n;
  gv_out_buf = outbuf;
  w_n = (int)n;
  for (long k = 0; k < n; k++) {
    w_s[k] = s.buf[k];
  }
  struct gv_str r = str2xml(&s);
  __CPROVER_assert(r.buf == outbuf && 0 <= r.len && r.len <= 6 * n, "result has at most 6 n bytes");
  long m = xml_unescape(r.buf, r.len, back);
  __CPROVER_assert(m >= 0, "result is well-formed character data (no raw '<' '>' and '&' only in predefined entities)");
  __CPROVER_assert(m == n, "xml_unescape(str2xml(s)) has the length of s");
  if (m == n)
    for (long k = 0; k < n; k++)
      __CPROVER_assert(back[k] == s.buf[k], "xml_unescape(str2xml(s)) == s bytewise");
  GV_CANARY("h_roundtrip end");
}
#endif
//@ end
