/* Specification vocabulary of unit str2xml: XML 1.0 character data over the five predefined entities.
   Plain C/C++ (call-free macros usable in loop invariants) + the spec function xml_unescape.
   Shared by spec.c (CBMC) and replay.cpp (g++). */
#ifndef GV_XML_SPEC_H
#define GV_XML_SPEC_H

#define B4(b, p, c0, c1, c2, c3) ((b)[p] == (c0) && (b)[(p) + 1] == (c1) && (b)[(p) + 2] == (c2) && (b)[(p) + 3] == (c3))
#define IS_LT(b, p, end)   ((p) + 4 <= (end) && B4(b, p, '&', 'l', 't', ';'))
#define IS_GT(b, p, end)   ((p) + 4 <= (end) && B4(b, p, '&', 'g', 't', ';'))
#define IS_AMP(b, p, end)  ((p) + 5 <= (end) && B4(b, p, '&', 'a', 'm', 'p') && (b)[(p) + 4] == ';')
#define IS_QUOT(b, p, end) ((p) + 6 <= (end) && B4(b, p, '&', 'q', 'u', 'o') && (b)[(p) + 4] == 't' && (b)[(p) + 5] == ';')
#define IS_APOS(b, p, end) ((p) + 6 <= (end) && B4(b, p, '&', 'a', 'p', 'o') && (b)[(p) + 4] == 's' && (b)[(p) + 5] == ';')
/* a reference to one of the five predefined entities starts at p */
#define ENTITY_AT(b, p, end) (IS_LT(b, p, end) || IS_GT(b, p, end) || IS_AMP(b, p, end) || IS_QUOT(b, p, end) || IS_APOS(b, p, end))
/* position p of the character data b[0..end) carries no raw markup: no '<', no '>', and '&' only as the start
   of a predefined entity reference (XML 1.0 production [14] CharData / [68] EntityRef) */
#define NORAW_AT(b, p, end) ((b)[p] != '<' && (b)[p] != '>' && ((b)[p] != '&' || ENTITY_AT(b, p, end)))
/* the segment b[p..p+l) is well-formed character data that XML-unescapes to exactly the one byte c */
#define SEG_DECODES_TO(b, p, l, c)                                                                              \
  ((c) == '<'  ? ((l) == 4 && IS_LT(b, p, (p) + (l)))                                                           \
 : (c) == '>'  ? ((l) == 4 && IS_GT(b, p, (p) + (l)))                                                           \
 : (c) == '&'  ? ((l) == 5 && IS_AMP(b, p, (p) + (l)))                                                          \
 : (c) == '"'  ? (((l) == 1 && (b)[p] == '"') || ((l) == 6 && IS_QUOT(b, p, (p) + (l))))                        \
 : (c) == '\'' ? (((l) == 1 && (b)[p] == '\'') || ((l) == 6 && IS_APOS(b, p, (p) + (l))))                       \
 :               ((l) == 1 && (b)[p] == (c)))

#ifndef GV_H_STEP   /* (not needed by the loop-contract harness) */
/* spec function: XML-unescape character data over the five predefined entities.  Returns the decoded length, or
   -1 if the data is not well-formed (raw '<', raw '>', or '&' that does not start a predefined entity).        */
static long xml_unescape(const char *in, long n, char *out)
{
  long i = 0, m = 0;
  while (i < n) {
    char c = in[i];
    if (c == '<' || c == '>') return -1;
    if (c != '&') { out[m++] = c; i += 1; }
    else if (IS_LT(in, i, n))   { out[m++] = '<';  i += 4; }
    else if (IS_GT(in, i, n))   { out[m++] = '>';  i += 4; }
    else if (IS_AMP(in, i, n))  { out[m++] = '&';  i += 5; }
    else if (IS_QUOT(in, i, n)) { out[m++] = '"';  i += 6; }
    else if (IS_APOS(in, i, n)) { out[m++] = '\''; i += 6; }
    else return -1;
  }
  return m;
}
#endif

#endif
