// Native replay for unit "str2xml": runs the REAL GNU_gama::str2xml (lib/gnu_gama/xml/str2xml.cpp, linked in)
// on the verifier's counterexample and re-evaluates  xml_unescape(str2xml(s)) == s.   exit 1 = reproduces.
#include <cstdio>
#include <string>
#include <vector>
#include <gnu_gama/xml/str2xml.h>
#include "gv_replay.h"
#include "xml_spec.h"

// printable ASCII rendering (the driver reads this program's output as UTF-8 text)
static std::string show(const std::string& s)
{
  std::string o;
  char b[8];
  for (unsigned char c : s) {
    if (c >= 32 && c < 127 && c != '\\') o += (char)c;
    else { std::snprintf(b, sizeof b, "\\x%02X", c); o += b; }
  }
  return o;
}

static int roundtrip(const std::string& s)
{
  std::string x = GNU_gama::str2xml(s);
  std::vector<char> back(x.size() + 1);
  long m = xml_unescape(x.data(), (long)x.size(), back.data());
  std::string r = m < 0 ? std::string("<not well-formed>") : std::string(back.data(), (size_t)m);
  std::printf("str2xml(\"%s\") = \"%s\"  reads back as \"%s\"\n", show(s).c_str(), show(x).c_str(), show(r).c_str());
  return (m < 0 || r != s) ? 1 : 0;
}

int main(int argc, char** argv)
{
  if (argc < 3) return 2;
  GvInputs in(argv[1]);
  std::string check = argv[2], s;
  if (check.find("roundtrip") == 0 && in.has("w_n")) {
    long n = in.integer("w_n", 0);
    for (long k = 0; k < n; k++) {
      char key[32];
      std::snprintf(key, sizeof key, "w_s[%ldl]", k);
      s += (char)in.integer(key, 'a');
    }
  } else if (in.has("w_c")) {
    s = std::string("it") + (char)in.integer("w_c", 'a') + "s";    // the witness byte inside a word
  } else {
    std::printf("no witness values in the trace\n");
    return 2;
  }
  int bad = roundtrip(s);
  std::printf("%s\n", bad ? "POSTCONDITION VIOLATED" : "ok");
  return bad ? 1 : 0;
}
