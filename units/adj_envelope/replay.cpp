// Native replay for unit "adj_envelope".  The verifier's counterexample for these obligations is an abstract STATE
// (cache slots with ghost tags), not an input; this program turns the failed obligation into a failing HISTORY on the
// real AdjEnvelope<double,int>: it runs a small, fixed family of call histories on a free levelling network and compares
// every answer with the answer of a FRESH object asked only that question (the oracle of property C04), resp. compares
// the flagged unknowns with the truly dependent one (C20).   exit 1 = violation reproduces, 0 = does not, 2 = n/a.
#include <cmath>
#include <cstdio>
#include <string>
#include <vector>
#include <gnu_gama/adj/adj_envelope.h>
#include <gnu_gama/adj/adj_input_data.h>
#include "gv_replay.h"

using namespace GNU_gama;
typedef AdjEnvelope<double, int, Exception::matvec> Env;

struct Net { int N, M; std::vector<std::vector<double>> A; };

static Net levelling(int N, bool skip3)
{
  Net n; n.N = N;
  std::vector<std::pair<int,int>> e;
  for (int k = 1; k < N; k++) e.push_back({k, k + 1});
  e.push_back({1, N}); e.push_back({1, 3}); e.push_back({2, N});       // ring + chords: elements outside the envelope exist
  for (auto& p : e) {
    if (skip3 && (p.first == 3 || p.second == 3)) continue;           // unknown 3 unobserved -> zero column
    std::vector<double> r(N, 0.0); r[p.first - 1] = -1; r[p.second - 1] = 1; n.A.push_back(r);
  }
  if (skip3) { std::vector<double> r(N, 0.0); r[0] = 1; n.A.push_back(r); }   // fix the datum of the rest
  n.M = (int)n.A.size();
  return n;
}

static void fill(AdjInputData& d, const Net& n)
{
  int nz = 0;
  for (auto& r : n.A) for (double v : r) if (v != 0) nz++;
  SparseMatrix<>* S = new SparseMatrix<>(nz, n.M, n.N);
  for (auto& r : n.A) { S->new_row(); for (int j = 0; j < n.N; j++) if (r[j] != 0) S->add_element(r[j], j + 1); }
  d.set_mat(S);
  std::vector<double> ones(n.M, 1.0);
  BlockDiagonal<>* bd = new BlockDiagonal<>(1, n.M);
  bd->add_block(n.M, 0, ones.data());
  d.set_cov(bd);
  Vec<> rhs(n.M);
  for (int i = 1; i <= n.M; i++) rhs(i) = 0.01 * i * (i % 2 ? 1 : -1);
  d.set_rhs(rhs);
}

static double fresh_qxx(const Net& n, int i, int j, const std::vector<int>* subset)
{
  AdjInputData d; fill(d, n);
  Env e; e.reset(&d);
  if (subset) { std::vector<int> s(*subset); e.min_x((int)s.size(), s.data()); }
  return e.q_xx(i, j);
}

static bool differ(double a, double b) { return std::fabs(a - b) > 1e-9 * (1 + std::fabs(a) + std::fabs(b)); }

static int history_q0_then_qxx()
{
  Net n = levelling(6, false);
  AdjInputData d; fill(d, n);
  Env e; e.reset(&d);
  int bad = 0;
  for (int i = 1; i <= n.N; i++) for (int j = 1; j <= n.N; j++) (void)e.q0_xx(i, j);   // fills the cache with q0 columns
  for (int i = 1; i <= n.N && bad < 3; i++) for (int j = 1; j <= n.N && bad < 3; j++) {
    (void)e.q0_xx(j, i);
    double got = e.q_xx(i, j), want = fresh_qxx(n, i, j, nullptr);
    if (differ(got, want)) { bad++; std::printf("history [q0_xx(all pairs); q0_xx(%d,%d); q_xx(%d,%d)] = %.6f, fresh object: %.6f\n", j, i, i, j, got, want); }
  }
  return bad;
}

static int history_min_x()
{
  Net n = levelling(6, false);
  AdjInputData d; fill(d, n);
  Env e; e.reset(&d);
  std::vector<int> sub = {1, 2};
  int bad = 0;
  for (int i = 1; i <= n.N; i++) (void)e.q_xx(i, i);          // rows cached under "all unknowns" regularisation
  { std::vector<int> s(sub); e.min_x((int)s.size(), s.data()); }
  for (int i = n.N; i >= 1 && bad < 3; i--) {
    double got = e.q_xx(i, i), want = fresh_qxx(n, i, i, &sub);
    if (differ(got, want)) { bad++; std::printf("history [q_xx(k,k) for all k; min_x({1,2}); q_xx(%d,%d)] = %.6f, fresh object with min_x({1,2}): %.6f\n", i, i, got, want); }
  }
  e.min_x();
  for (int i = n.N; i >= 1 && bad < 6; i--) {
    double got = e.q_xx(i, i), want = fresh_qxx(n, i, i, nullptr);
    if (differ(got, want)) { bad++; std::printf("history [...; min_x(); q_xx(%d,%d)] = %.6f, fresh object: %.6f\n", i, i, got, want); }
  }
  return bad;
}

static int flags_lindep()
{
  Net n = levelling(5, true);          // unknown 3 has a zero column: it is THE dependent unknown, defect 1
  AdjInputData d; fill(d, n);
  Env e; e.reset(&d);
  int bad = 0, cnt = 0;
  for (int i = 1; i <= n.N; i++) {
    bool f = e.lindep(i);
    if (f) cnt++;
    if (f != (i == 3)) { bad++; std::printf("lindep(%d) = %d, but the unobserved (zero column) unknown is 3\n", i, (int)f); }
  }
  if (cnt != e.defect()) { bad++; std::printf("%d unknowns flagged, defect() = %d\n", cnt, e.defect()); }
  return bad;
}

int main(int argc, char** argv)
{
  if (argc < 3) return 2;
  std::string check = argv[2];
  int bad = -1;
  if (check == "q0_xx" || check == "q_xx") bad = history_q0_then_qxx();
  else if (check == "min_x" || check == "min_x_list") bad = history_min_x();
  else if (check == "lindep" || check == "defect") bad = flags_lindep();
  if (bad < 0) { std::printf("no native replay for check %s\n", check.c_str()); return 2; }
  std::printf("%s: %s\n", check.c_str(), bad ? "answers depend on history / flags are wrong: VIOLATION reproduces on the real code" : "ok on the real code");
  return bad ? 1 : 0;
}
