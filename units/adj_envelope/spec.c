/* Sidecar contracts for the query layer of AdjEnvelope<double,int> (lib/gnu_gama/adj/adj_envelope.h) and for
   MoveToFront<3,int,int>::get (lib/gnu_gama/movetofront.h).

   Property C04 ("answers do not depend on the order or history of queries") is an induction over call histories:
   representation invariant AE_INV + one contract per public method, each checked from an ARBITRARY invariant-
   satisfying state.  The numeric stages (solve_x0, solve_x, T_row, Envelope::*, Vec payload) are STUBS that havoc the
   numbers and maintain the discrete state (stage, flags, ghost tags) as their bodies do -- assumed contracts, listed in
   unit.json trusted_base; Envelope::* bodies are verified in units/envelope.

   Ghost tags: every Vec carries (gv_kind, gv_key, gv_epoch) saying WHICH mathematical vector its payload currently is.
   A cached answer may be reused only for the same question under the same regularisation:
     cache (indbuf,qxxbuf): slot with key k holds  QXX_ROW(k, current regularisation epoch)   k = unknown index (caller numbering)
     cache (q0ind,q0buf)  : slot with key k holds  Q0_COL(k)                                   k = PERMUTED index            */

//@ prelude
typedef double Float;
typedef int Index;
typedef int Key;
typedef int Buffer;
typedef int Stage;
#define Float(...) ((double)(__VA_ARGS__ + 0))
#define Index(...) ((int)(__VA_ARGS__ + 0))
#define N 3   /* template parameter of MoveToFront<3,Index,Index> (checked by units/movetofront pre-step) */

int gv_exc;
Index gv_k0;   /* ghost index (forall-introduction) */

enum { stage_init, stage_ordering, stage_x0, stage_q0 };
enum { K_NONE, K_GARBAGE, K_ZERO, K_UNIT, K_SCATTER, K_SOLVED_RHS, K_TROW, K_QXX_ROW, K_Q0_COL, K_X };

struct gv_pair { Buffer first; bool second; };
struct MTF { Key key_[N]; Buffer buf_[N]; size_t active; };

struct Vec { Index dim; int gv_kind; Index gv_key; int gv_epoch; };   /* payload is opaque at this level */

struct AdjEnvelope {
  const void *input; int stage;                         /* AdjBaseSparse */
  Index observations, parameters;
  struct Vec x0, x, resid, tmpvec, tmpres;
  Float squares;
  struct Vec qxxbuf[N]; struct MTF indbuf;
  struct Vec q0buf[N];  struct MTF q0ind;
  bool init_q_bb, init_residuals, init_q0, init_x;
  Index nullity;
  Index *min_x_list; Index min_x_size;
  /* ghost */
  int gv_reg_epoch;        /* bumped whenever the regularisation (min_x list) changes */
  Index gv_i0, gv_p0;      /* C20: a ghost unknown i0 (caller numbering) and its position p0 = invp(i0) in the ordering */
  /* ghost model of the (homogenised) design matrix in compressed row storage: values, column indices, and the row windows
     [gv_is,gv_ie) of row gv_qi and [gv_js,gv_je) of row gv_qj -- the two rows q_bb(i,j) asks for */
  Float *gv_dm_val; Index *gv_dm_ind; long gv_dm_nnz;
  Index gv_qi, gv_qj; long gv_is, gv_ie, gv_js, gv_je;
  bool gv_z0;              /* C20: "the pivot of row p0 of the factorised envelope is zero" */
};

/* ---- MoveToFront view ------------------------------------------------------------------------------------ */
#define MTF_PERM(m) (((m)->buf_[0] == 0 || (m)->buf_[0] == 1 || (m)->buf_[0] == 2) && ((m)->buf_[1] == 0 || (m)->buf_[1] == 1 || (m)->buf_[1] == 2) && \
                     ((m)->buf_[2] == 0 || (m)->buf_[2] == 1 || (m)->buf_[2] == 2) && (m)->buf_[0] != (m)->buf_[1] && (m)->buf_[0] != (m)->buf_[2] && (m)->buf_[1] != (m)->buf_[2])
#define MTF_DISTINCT(m) (((m)->active < 2 || (m)->key_[0] != (m)->key_[1]) && ((m)->active < 3 || ((m)->key_[0] != (m)->key_[2] && (m)->key_[1] != (m)->key_[2])))
#define MTF_INV(m) ((m)->active <= 3 && MTF_PERM(m) && MTF_DISTINCT(m))
#define OLD(e) __CPROVER_old(e)
#define MTF_WAS(m, k) ((OLD((m)->active) > 0 && OLD((m)->key_[0]) == (k)) || (OLD((m)->active) > 1 && OLD((m)->key_[1]) == (k)) || (OLD((m)->active) > 2 && OLD((m)->key_[2]) == (k)))

/* ---- representation invariant of AdjEnvelope --------------------------------------------------------------- */
#define TAG_IS(v, k, key, ep) ((v)->gv_kind == (k) && (v)->gv_key == (key) && (v)->gv_epoch == (ep))
#define QXX_SLOT_OK(A, s) ((A)->indbuf.active <= (s) || (TAG_IS(&(A)->qxxbuf[(A)->indbuf.buf_[s]], K_QXX_ROW, (A)->indbuf.key_[s], (A)->gv_reg_epoch) && \
                                                           1 <= (A)->indbuf.key_[s] && (A)->indbuf.key_[s] <= (A)->parameters))
#define Q0_SLOT_OK(A, s) ((A)->q0ind.active <= (s) || ((A)->q0buf[(A)->q0ind.buf_[s]].gv_kind == K_Q0_COL && (A)->q0buf[(A)->q0ind.buf_[s]].gv_key == (A)->q0ind.key_[s] && \
                                                        1 <= (A)->q0ind.key_[s] && (A)->q0ind.key_[s] <= (A)->parameters))
#define DIMS_EQ(b, n) ((b)[0].dim == (b)[1].dim && (b)[1].dim == (b)[2].dim && ((b)[0].dim == 0 || (b)[0].dim == (n)))
#define AE_INV(A)                                                                                                  \
  ((A)->stage >= stage_init && (A)->stage <= stage_q0 && (A)->parameters >= 1 && (A)->parameters <= 1000000 &&      \
   (A)->gv_reg_epoch >= 0 &&                                                        \
   /* lazy-stage discipline */                                                                                     \
   ((A)->stage >= stage_x0 || ((A)->init_residuals && (A)->init_q0 && (A)->init_x)) &&                              \
   (((A)->stage == stage_q0) == !(A)->init_q0) &&                                                                   \
   ((A)->stage < stage_x0 || (A)->nullity >= 0) &&                                                                  \
   ((A)->init_x || (TAG_IS(&(A)->x, K_X, 0, (A)->gv_reg_epoch) && (A)->min_x_list != NULL)) &&                       \
   /* caches */                                                                                                    \
   ((A)->init_q_bb || (A)->tmpres.dim == (A)->parameters) &&                                                       \
   MTF_INV(&(A)->indbuf) && MTF_INV(&(A)->q0ind) && DIMS_EQ((A)->qxxbuf, (A)->parameters) &&                        \
   DIMS_EQ((A)->q0buf, (A)->parameters) &&                                                                          \
   ((A)->stage >= stage_x0 || ((A)->indbuf.active == 0 && (A)->q0ind.active == 0)) &&                               \
   ((A)->qxxbuf[0].dim != 0 || (A)->indbuf.active == 0) && ((A)->q0buf[0].dim != 0 || (A)->q0ind.active == 0) &&    \
   (((A)->stage >= stage_x0 && (A)->nullity > 0) ? (A)->qxxbuf[0].dim == (A)->parameters : 1) &&                     \
   QXX_SLOT_OK(A, 0) && QXX_SLOT_OK(A, 1) && QXX_SLOT_OK(A, 2) && Q0_SLOT_OK(A, 0) && Q0_SLOT_OK(A, 1) &&           \
   Q0_SLOT_OK(A, 2) &&                                                                                              \
   /* heap */                                                                                                      \
   ((A)->min_x_list == NULL || ((A)->min_x_size >= 0 && (A)->min_x_size <= 1000000 &&                               \
                                __CPROVER_rw_ok((A)->min_x_list, (A)->min_x_size * sizeof(Index)))))
/* C20 ghost permutation: the ghost unknown and its position are in range */
#define GV_PERM_OK(A) (1 <= (A)->gv_i0 && (A)->gv_i0 <= (A)->parameters && 1 <= (A)->gv_p0 && (A)->gv_p0 <= (A)->parameters)

/* ---- STUBS (assumed contracts; bodies model the discrete effect only) ----------------------------------- */
#define GV_SWAP(T, a, b) do { T gv_t = (a); (a) = (b); (b) = gv_t; } while (0)
#define GV_VECTOR_RESIZE(v, n) __CPROVER_assert((n) == N, "std::vector<Vec> is resized to the cache size")
#define GV_VECTOR_SIZE(v) N
Float nondet_Float(void);
Index nondet_Index(void);
bool nondet_bool(void);
int nondet_int(void);

static void Vec_reset0(struct Vec *v) { v->dim = 0; v->gv_kind = K_NONE; }
static void Vec_reset(struct Vec *v, Index n) { __CPROVER_assert(n >= 0, "Vec::reset: non-negative size"); v->dim = n; v->gv_kind = K_NONE; }
static Index Vec_dim(const struct Vec *v) { return v->dim; }
static void Vec_set_zero(struct Vec *v) { v->gv_kind = K_ZERO; }
static void Vec_set(struct Vec *v, Index i, Float val)
{
  __CPROVER_assert(1 <= i && i <= v->dim, "Vec::operator(): index inside the vector");
  if (v->gv_kind == K_ZERO && val == 1) { v->gv_kind = K_UNIT; v->gv_key = i; }
  else if (v->gv_kind == K_ZERO || v->gv_kind == K_UNIT || v->gv_kind == K_SCATTER) v->gv_kind = K_SCATTER;   /* zero vector + scattered entries */
  else v->gv_kind = K_GARBAGE;
}
static Float Vec_get(const struct Vec *v, Index i)
{
  __CPROVER_assert(1 <= i && i <= v->dim, "Vec::operator(): index inside the vector");
  return nondet_Float();
}
static size_t MTF_size(const struct MTF *m) { return N; }
static void MTF_erase(struct MTF *m) { m->active = 0; }          /* MoveToFront::erase() { active = 0; } (one-liner, route P checks it) */

/* ordering.invp(i): some position in [1,parameters]; for the ghost unknown i0 it is p0 */
static Index AE_invp(const struct AdjEnvelope *self, Index i)
{
  __CPROVER_assert(1 <= i && i <= self->parameters, "ordering.invp: index of an unknown");
  Index r = nondet_Index();
  __CPROVER_assume(1 <= r && r <= self->parameters && (i == self->gv_i0) == (r == self->gv_p0));
  return r;
}
/* ordering.perm(k): the unknown that sits at position k of the permuted numbering; for the ghost position p0 it is i0
   (the inverse map of AE_invp at the ghost pair).  Present so that code which consults perm() still goes through the unit. */
static Index AE_perm(const struct AdjEnvelope *self, Index k)
{
  __CPROVER_assert(1 <= k && k <= self->parameters, "ordering.perm: a position of the permuted numbering");
  Index r = nondet_Index();
  __CPROVER_assume(1 <= r && r <= self->parameters && (k == self->gv_p0) == (r == self->gv_i0));
  return r;
}
/* envelope.diagonal(k), k in the PERMUTED numbering; row p0 is zero iff gv_z0 */
static Float AE_env_diagonal(const struct AdjEnvelope *self, Index k)
{
  __CPROVER_assert(1 <= k && k <= self->parameters, "envelope.diagonal: row of the envelope");
  Float d = nondet_Float();
  __CPROVER_assume(d == d && (k != self->gv_p0 || (d == 0) == self->gv_z0));
  return d;
}
static Float gv_q0_cell;
static Float *AE_q0_element(struct AdjEnvelope *self, Index i, Index j)
{
  __CPROVER_assert(1 <= i && i <= self->parameters && 1 <= j && j <= self->parameters, "q0.element: rows of the envelope");
  return nondet_bool() ? &gv_q0_cell : NULL;       /* inside / outside the profile */
}
static void AE_T_row(struct AdjEnvelope *self, struct Vec *row, Index ii)
{
  __CPROVER_assert(row->dim == self->parameters, "T_row writes row(1..parameters)");
  __CPROVER_assert(1 <= ii && ii <= self->parameters, "T_row: index of an unknown");
  __CPROVER_assert(self->min_x_list != NULL && !self->init_x, "T_row reads min_x_list and G of the current regularisation");
  row->gv_kind = K_TROW; row->gv_key = ii; row->gv_epoch = self->gv_reg_epoch;
}
static void AE_lowerSolve_vec(struct AdjEnvelope *self, Index start, Index stop, struct Vec *v)
{
  __CPROVER_assert(start == 1 && stop == self->parameters && v->dim >= stop, "envelope.lowerSolve(1, parameters, v.begin()) stays inside v");
  v->gv_kind = (v->gv_kind == K_TROW) ? K_QXX_ROW : K_GARBAGE;
}
static void AE_env_solve_vec(struct AdjEnvelope *self, struct Vec *v)
{
  __CPROVER_assert(v->dim == self->parameters, "envelope.solve(v.begin(), v.dim()): v.dim() is the dimension of the envelope");
  v->gv_kind = (v->gv_kind == K_UNIT) ? K_Q0_COL : (v->gv_kind == K_SCATTER || v->gv_kind == K_ZERO) ? K_SOLVED_RHS : K_GARBAGE;   /* an empty row leaves the zero vector */
}
static void AE_env_solve_vec_n(struct AdjEnvelope *self, struct Vec *v, Index n)
{
  __CPROVER_assert(n == self->parameters, "envelope.solve(v.begin(), n): n is the dimension of the envelope");
  AE_env_solve_vec(self, v);
}
/* read of a vector that must hold inv(N) * (zero vector + scattered row)  (q_bb, FULL_VECTOR branch) */
static Float Vec_get_solved(const struct Vec *v, Index i)
{
  __CPROVER_assert(v->gv_kind == K_SOLVED_RHS || v->gv_kind == K_Q0_COL, "q_bb: the scratch vector holds the solved right-hand side built in THIS call");
  return Vec_get(v, i);
}
/* design_matrix->begin/end/ibegin(r): windows of the CRS arrays; q_bb asks only for rows i and j */
#define DM_ROW_OK(A) ((A)->gv_dm_nnz >= 0 && (A)->gv_dm_nnz <= 100000000 && __CPROVER_r_ok((A)->gv_dm_val, (A)->gv_dm_nnz * sizeof(Float)) && \
                      __CPROVER_r_ok((A)->gv_dm_ind, (A)->gv_dm_nnz * sizeof(Index)) && 0 <= (A)->gv_is && (A)->gv_is <= (A)->gv_ie && (A)->gv_ie <= (A)->gv_dm_nnz && \
                      0 <= (A)->gv_js && (A)->gv_js <= (A)->gv_je && (A)->gv_je <= (A)->gv_dm_nnz && \
                      ((A)->gv_qi != (A)->gv_qj || ((A)->gv_is == (A)->gv_js && (A)->gv_ie == (A)->gv_je)))
static const Float *DM_begin(const struct AdjEnvelope *self, Index r)
{
  __CPROVER_assert(r == self->gv_qi || r == self->gv_qj, "design matrix row asked is i or j");
  return self->gv_dm_val + (r == self->gv_qi ? self->gv_is : self->gv_js);
}
static const Float *DM_end(const struct AdjEnvelope *self, Index r)
{
  __CPROVER_assert(r == self->gv_qi || r == self->gv_qj, "design matrix row asked is i or j");
  return self->gv_dm_val + (r == self->gv_qi ? self->gv_ie : self->gv_je);
}
static const Index *DM_ibegin(const struct AdjEnvelope *self, Index r)
{
  __CPROVER_assert(r == self->gv_qi || r == self->gv_qj, "design matrix row asked is i or j");
  return self->gv_dm_ind + (r == self->gv_qi ? self->gv_is : self->gv_js);
}
/* forall-elimination of the sparse-matrix invariant "every stored column index is in [1, columns]" at the element read */
static Index gv_cind(const struct AdjEnvelope *self, const Index *p)
{
  __CPROVER_assert(SAME(p, self->gv_dm_ind) && OFF(p) >= 0 && OFF(p) < self->gv_dm_nnz * (long)sizeof(Index), "column index read inside the CRS index array");
  Index c = *p;
  __CPROVER_assume(1 <= c && c <= self->parameters);
  return c;
}
#define GV_CIND(p) gv_cind(self, (p))
static void AE_q0_inverse(struct AdjEnvelope *self) {}
static Index AID_rows(const void *data) { Index r = nondet_Index(); __CPROVER_assume(r >= 0 && r <= 1000000); return r; }
static Index AID_columns(const void *data) { Index r = nondet_Index(); __CPROVER_assume(r >= 1 && r <= 1000000); return r; }

void AE_set_stage(struct AdjEnvelope *self, Stage s);

/* solve_x0: ordering + factorisation + particular solution.  Called only under `stage < stage_x0`. */
static void AE_solve_x0(struct AdjEnvelope *self)
{
  __CPROVER_assert(self->stage < stage_x0, "solve_x0 is called only when the stage is below x0");
  self->squares = nondet_Float();
  self->x0.gv_kind = K_GARBAGE;
  self->nullity = nondet_Index();
  __CPROVER_assume(self->nullity >= 0 && self->nullity <= self->parameters);
  if (self->nullity) { Vec_reset(&self->qxxbuf[0], self->parameters); Vec_reset(&self->qxxbuf[1], self->parameters); Vec_reset(&self->qxxbuf[2], self->parameters); }
  AE_set_stage(self, stage_x0);
}
/* solve_x: unique / regularised solution.  On BadRegularization init_x stays set. */
static void AE_solve_x(struct AdjEnvelope *self)
{
  if (!self->init_x) return;
  if (self->min_x_list == NULL) {
    self->min_x_size = self->parameters;
    self->min_x_list = malloc(self->min_x_size * sizeof(Index));
    __CPROVER_assume(self->min_x_list != NULL);
  }
  if (self->stage < stage_x0) AE_solve_x0(self);
  if (nondet_bool()) { self->init_x = true; gv_exc = GV_BadRegularization; return; }
  self->init_x = false;
  self->x.gv_kind = K_X; self->x.gv_key = 0; self->x.gv_epoch = self->gv_reg_epoch;
}
//@ end

/* ------------------------------------------------------------------------------------------------------------ */
/* MoveToFront<3,Key,Buffer>::get -- full functional contract (the abstract view is the sequence (key_,buf_)[0..active)) */
//@ contract MTF_get
__CPROVER_requires(MTF_INV(self))
__CPROVER_assigns(self->key_, self->buf_, self->active)
__CPROVER_ensures(MTF_INV(self))
__CPROVER_ensures(__CPROVER_return_value.second == MTF_WAS(self, key))
__CPROVER_ensures(self->key_[0] == key && self->buf_[0] == __CPROVER_return_value.first)
/* hit at position p: same buffer, others keep their association and relative order */
__CPROVER_ensures((OLD(self->active) > 0 && OLD(self->key_[0]) == key) ==>
                  (self->active == OLD(self->active) && self->buf_[0] == OLD(self->buf_[0]) && self->key_[1] == OLD(self->key_[1]) && self->buf_[1] == OLD(self->buf_[1]) &&
                   self->key_[2] == OLD(self->key_[2]) && self->buf_[2] == OLD(self->buf_[2])))
__CPROVER_ensures((OLD(self->active) > 1 && OLD(self->key_[1]) == key) ==>
                  (self->active == OLD(self->active) && self->buf_[0] == OLD(self->buf_[1]) && self->key_[1] == OLD(self->key_[0]) && self->buf_[1] == OLD(self->buf_[0]) &&
                   self->key_[2] == OLD(self->key_[2]) && self->buf_[2] == OLD(self->buf_[2])))
__CPROVER_ensures((OLD(self->active) > 2 && OLD(self->key_[2]) == key) ==>
                  (self->active == 3 && self->buf_[0] == OLD(self->buf_[2]) && self->key_[1] == OLD(self->key_[0]) && self->buf_[1] == OLD(self->buf_[0]) &&
                   self->key_[2] == OLD(self->key_[1]) && self->buf_[2] == OLD(self->buf_[1])))
/* miss: a never-used buffer while not full, else the least recently used one; everything else shifts by one */
__CPROVER_ensures(!MTF_WAS(self, key) ==>
                  (self->active == (OLD(self->active) < 3 ? OLD(self->active) + 1 : 3) &&
                   self->buf_[0] == (OLD(self->active) == 0 ? OLD(self->buf_[0]) : OLD(self->active) == 1 ? OLD(self->buf_[1]) : OLD(self->buf_[2])) &&
                   (OLD(self->active) < 1 || (self->key_[1] == OLD(self->key_[0]) && self->buf_[1] == OLD(self->buf_[0]))) &&
                   (OLD(self->active) < 2 || (self->key_[2] == OLD(self->key_[1]) && self->buf_[2] == OLD(self->buf_[1])))))
//@ entry MTF_get
GV_CANARY("MTF_get entry");
//@ end

/* ------------------------------------------------------------------------------------------------------------ */
//@ contract AE_set_stage
__CPROVER_requires(s >= stage_init && s <= stage_q0)
__CPROVER_assigns(self->stage, self->init_residuals, self->init_q0, self->init_x, self->init_q_bb)
__CPROVER_ensures(self->stage == s && self->init_q_bb)
__CPROVER_ensures(s != stage_q0 ==> (self->init_residuals && self->init_q0 && self->init_x))
__CPROVER_ensures(s == stage_q0 ==> (self->init_residuals == OLD(self->init_residuals) && self->init_q0 == OLD(self->init_q0) && self->init_x == OLD(self->init_x)))
//@ entry AE_set_stage
GV_CANARY("AE_set_stage entry");
//@ end

/* q_xx(i,j): preserves the invariant; the sum is taken over the solved T-rows of i and j under the CURRENT
   regularisation (assertion before the summation loop), indices in the caller's numbering. */
//@ contract AE_q_xx
__CPROVER_requires(AE_INV(self) && gv_exc == 0)
__CPROVER_requires(1 <= i && i <= self->parameters && 1 <= j && j <= self->parameters)
__CPROVER_assigns(gv_exc, self->stage, self->init_residuals, self->init_q0, self->init_x, self->init_q_bb, self->squares, self->nullity,
                  self->x0, self->x, self->qxxbuf, self->indbuf, self->q0buf, self->q0ind, self->min_x_list, self->min_x_size)
__CPROVER_ensures(AE_INV(self))
__CPROVER_ensures(gv_exc == 0 || gv_exc == GV_BadRegularization)
__CPROVER_ensures(gv_exc == 0 ==> self->stage == stage_q0)
__CPROVER_ensures(self->gv_reg_epoch == OLD(self->gv_reg_epoch))
//@ entry AE_q_xx
GV_CANARY("AE_q_xx entry");
//@ at AE_q_xx use
__CPROVER_assert(TAG_IS(a, K_QXX_ROW, i, self->gv_reg_epoch), "q_xx: first factor is the solved T-row of unknown i under the current regularisation");
__CPROVER_assert(TAG_IS(b, K_QXX_ROW, j, self->gv_reg_epoch), "q_xx: second factor is the solved T-row of unknown j under the current regularisation");
__CPROVER_assert(a->dim == self->parameters && b->dim == self->parameters, "q_xx: both rows have `parameters` elements");
//@ loop AE_q_xx 1
__CPROVER_assigns(i, s)
__CPROVER_loop_invariant(1 <= i && i <= self->parameters + 1)
__CPROVER_decreases((long)self->parameters + 1 - i)
//@ end

/* q0_xx(i,j): inside the profile the element of q0 at (invp i, invp j); outside, element jj of the cached full
   column ii = max(invp i, invp j) -- a column of q0 in the PERMUTED numbering. */
//@ contract AE_q0_xx
__CPROVER_requires(AE_INV(self) && gv_exc == 0)
__CPROVER_requires(1 <= i && i <= self->parameters && 1 <= j && j <= self->parameters)
__CPROVER_assigns(gv_exc, self->stage, self->init_residuals, self->init_q0, self->init_x, self->init_q_bb, self->squares, self->nullity,
                  self->x0, self->qxxbuf, self->q0buf, self->q0ind)
__CPROVER_ensures(AE_INV(self))
__CPROVER_ensures(gv_exc == 0 && self->stage == stage_q0)
__CPROVER_ensures(self->indbuf.active == OLD(self->indbuf.active) || OLD(self->stage) < stage_x0)
//@ entry AE_q0_xx
GV_CANARY("AE_q0_xx entry");
//@ at AE_q0_xx use
__CPROVER_assert(a->gv_kind == K_Q0_COL && a->gv_key == ii && a->dim == self->parameters, "q0_xx: the value is read from the full q0 column ii (permuted numbering)");
__CPROVER_assert(ii >= jj, "q0_xx: column index is the larger permuted index");
//@ end

/* lindep(i) (C20): unknown i is flagged iff the pivot of ITS row -- row invp(i) of the permuted envelope -- is zero */
//@ contract AE_lindep
__CPROVER_requires(AE_INV(self) && gv_exc == 0 && GV_PERM_OK(self))
__CPROVER_requires(1 <= i && i <= self->parameters)
__CPROVER_assigns(gv_exc, self->stage, self->init_residuals, self->init_q0, self->init_x, self->init_q_bb, self->squares, self->nullity, self->x0, self->qxxbuf)
__CPROVER_ensures(AE_INV(self) && self->stage >= stage_x0)
__CPROVER_ensures(i == self->gv_i0 ==> __CPROVER_return_value == self->gv_z0)
//@ entry AE_lindep
GV_CANARY("AE_lindep entry");
//@ end

//@ contract AE_defect
__CPROVER_requires(AE_INV(self) && gv_exc == 0)
__CPROVER_assigns(gv_exc, self->stage, self->init_residuals, self->init_q0, self->init_x, self->init_q_bb, self->squares, self->nullity, self->x0, self->qxxbuf)
__CPROVER_ensures(AE_INV(self) && self->stage >= stage_x0 && __CPROVER_return_value == self->nullity && __CPROVER_return_value >= 0)
__CPROVER_ensures(OLD(self->stage) >= stage_x0 ==> __CPROVER_return_value == OLD(self->nullity))
//@ entry AE_defect
GV_CANARY("AE_defect entry");
//@ end

//@ contract AE_sum_of_squares
__CPROVER_requires(AE_INV(self) && gv_exc == 0)
__CPROVER_assigns(gv_exc, self->stage, self->init_residuals, self->init_q0, self->init_x, self->init_q_bb, self->squares, self->nullity, self->x0, self->qxxbuf)
__CPROVER_ensures(AE_INV(self) && self->stage >= stage_x0)
__CPROVER_ensures(OLD(self->stage) >= stage_x0 ==> (self->squares == OLD(self->squares) || OLD(self->squares) != OLD(self->squares)))
//@ entry AE_sum_of_squares
GV_CANARY("AE_sum_of_squares entry");
//@ end

/* unknowns(): the vector handed out is the solution for the current regularisation */
//@ contract AE_unknowns
__CPROVER_requires(AE_INV(self) && gv_exc == 0)
__CPROVER_assigns(gv_exc, self->stage, self->init_residuals, self->init_q0, self->init_x, self->init_q_bb, self->squares, self->nullity,
                  self->x0, self->x, self->qxxbuf, self->min_x_list, self->min_x_size)
__CPROVER_ensures(AE_INV(self))
__CPROVER_ensures(gv_exc == 0 || gv_exc == GV_BadRegularization)
__CPROVER_ensures(gv_exc == 0 ==> (__CPROVER_return_value == &self->x && TAG_IS(&self->x, K_X, 0, self->gv_reg_epoch) && !self->init_x))
//@ entry AE_unknowns
GV_CANARY("AE_unknowns entry");
//@ end

//@ contract AE_solve_q0
__CPROVER_requires(AE_INV(self) && gv_exc == 0)
__CPROVER_assigns(gv_exc, self->stage, self->init_residuals, self->init_q0, self->init_x, self->init_q_bb, self->squares, self->nullity, self->x0, self->qxxbuf)
__CPROVER_ensures(AE_INV(self) && self->stage == stage_q0 && gv_exc == 0)
__CPROVER_ensures(OLD(self->stage) >= stage_x0 ==> (self->nullity == OLD(self->nullity) && self->init_x == OLD(self->init_x) && self->indbuf.active == OLD(self->indbuf.active)))
//@ entry AE_solve_q0
GV_CANARY("AE_solve_q0 entry");
//@ end

/* min_x(): the regularisation changes (ghost epoch bump at entry): no cached row of the old one may survive,
   the list is freed exactly once, x is marked dirty. */
//@ contract AE_min_x
__CPROVER_requires(AE_INV(self) && gv_exc == 0)
__CPROVER_requires(self->min_x_list == NULL || __CPROVER_is_freeable(self->min_x_list))
__CPROVER_requires(self->gv_reg_epoch < 2000000000)
__CPROVER_assigns(self->min_x_list, self->init_x, self->indbuf.active, self->gv_reg_epoch)
__CPROVER_frees(self->min_x_list)
__CPROVER_ensures(AE_INV(self) && self->init_x && self->min_x_list == NULL)
__CPROVER_ensures(self->gv_reg_epoch == OLD(self->gv_reg_epoch) + 1)
//@ entry AE_min_x
GV_CANARY("AE_min_x entry");
self->gv_reg_epoch++;      /* ghost: the regularisation is being replaced */
//@ end

//@ contract AE_min_x_list
__CPROVER_requires(AE_INV(self) && gv_exc == 0)
__CPROVER_requires(self->min_x_list == NULL || __CPROVER_is_freeable(self->min_x_list))
__CPROVER_requires(n >= 0 && n <= 1000000 && __CPROVER_r_ok(m, n * sizeof(Index)))
__CPROVER_requires(self->gv_reg_epoch < 2000000000)
__CPROVER_assigns(self->min_x_list, self->min_x_size, self->init_x, self->indbuf.active, self->gv_reg_epoch)
__CPROVER_frees(self->min_x_list)
__CPROVER_ensures(AE_INV(self) && self->init_x && self->min_x_list != NULL && self->min_x_size == n)
__CPROVER_ensures(self->gv_reg_epoch == OLD(self->gv_reg_epoch) + 1)
__CPROVER_ensures((0 <= gv_k0 && gv_k0 < n) ==> self->min_x_list[gv_k0] == m[gv_k0])
//@ entry AE_min_x_list
GV_CANARY("AE_min_x_list entry");
self->gv_reg_epoch++;      /* ghost: the regularisation is being replaced */
//@ loop AE_min_x_list 1
__CPROVER_assigns(i, __CPROVER_object_whole(self->min_x_list))
__CPROVER_loop_invariant(0 <= i && i <= self->min_x_size && ((0 <= gv_k0 && gv_k0 < i) ==> self->min_x_list[gv_k0] == m[gv_k0]))
__CPROVER_decreases((long)self->min_x_size - i)
//@ end

/* reset(data): back to the initial abstract state: stage init, all dirty flags set, BOTH caches empty */
//@ contract AE_reset
__CPROVER_requires(AE_INV(self) && gv_exc == 0)
__CPROVER_assigns(self->observations, self->parameters, self->input, self->indbuf.active, self->q0ind.active, self->qxxbuf, self->q0buf,
                  self->stage, self->init_residuals, self->init_q0, self->init_x, self->init_q_bb)
__CPROVER_ensures(AE_INV(self) && self->stage == stage_init && self->indbuf.active == 0 && self->q0ind.active == 0 && self->input == data)
__CPROVER_ensures(self->init_x && self->init_q0 && self->init_residuals && self->init_q_bb)
//@ entry AE_reset
GV_CANARY("AE_reset entry");
//@ end

/* q_bb(i,j): cofactor of adjusted observations i,j.  Inside the profile it only reads q0; otherwise (FULL_VECTOR) it
   scatters row j into the scratch vector tmpres, solves, and takes the dot product with row i.  The scratch vector read
   at the end must be the solved right-hand side built in THIS call (no leftover of an earlier question). */
//@ contract AE_q_bb
__CPROVER_requires(AE_INV(self) && gv_exc == 0 && DM_ROW_OK(self) && i == self->gv_qi && j == self->gv_qj)
__CPROVER_assigns(gv_exc, self->stage, self->init_residuals, self->init_q0, self->init_x, self->init_q_bb, self->squares, self->nullity,
                  self->x0, self->qxxbuf, self->tmpres)
__CPROVER_ensures(AE_INV(self) && gv_exc == 0 && self->stage == stage_q0)
//@ entry AE_q_bb
GV_CANARY("AE_q_bb entry");
//@ loop AE_q_bb 1
__CPROVER_assigns(b, n, qbb, b2, e2, n2, qk)
__CPROVER_loop_invariant(SAME(b, e) && SAME(b, self->gv_dm_val) && OFF(b) >= 8 * self->gv_is && OFF(b) <= OFF(e) && OFF(e) == 8 * self->gv_ie &&
                         (OFF(e) - OFF(b)) % 8 == 0 && SAME(n, self->gv_dm_ind) && 2 * OFF(n) == OFF(b))
__CPROVER_decreases(OFF(e) - OFF(b))
//@ loop AE_q_bb 2
__CPROVER_assigns(b2, n2, s, qk)
__CPROVER_loop_invariant(SAME(b2, e2) && SAME(b2, self->gv_dm_val) && OFF(b2) >= 8 * self->gv_js && OFF(b2) <= OFF(e2) && OFF(e2) == 8 * self->gv_je &&
                         (OFF(e2) - OFF(b2)) % 8 == 0 && SAME(n2, self->gv_dm_ind) && 2 * OFF(n2) == OFF(b2))
__CPROVER_decreases(OFF(e2) - OFF(b2))
//@ loop AE_q_bb 3
__CPROVER_assigns(b, n, self->tmpres)
__CPROVER_loop_invariant(SAME(b, e) && SAME(b, self->gv_dm_val) && OFF(b) >= 8 * self->gv_js && OFF(b) <= OFF(e) && OFF(e) == 8 * self->gv_je &&
                         (OFF(e) - OFF(b)) % 8 == 0 && SAME(n, self->gv_dm_ind) && 2 * OFF(n) == OFF(b) &&
                         self->tmpres.dim == self->parameters && (self->tmpres.gv_kind == K_ZERO || self->tmpres.gv_kind == K_UNIT || self->tmpres.gv_kind == K_SCATTER))
__CPROVER_decreases(OFF(e) - OFF(b))
//@ loop AE_q_bb 4
__CPROVER_assigns(b, n, s)
__CPROVER_loop_invariant(SAME(b, e) && SAME(b, self->gv_dm_val) && OFF(b) >= 8 * self->gv_is && OFF(b) <= OFF(e) && OFF(e) == 8 * self->gv_ie &&
                         (OFF(e) - OFF(b)) % 8 == 0 && SAME(n, self->gv_dm_ind) && 2 * OFF(n) == OFF(b))
__CPROVER_decreases(OFF(e) - OFF(b))
//@ end

//@ harness
static void mk_state(struct AdjEnvelope *A)
{
  /* every field nondeterministic (stack object, uninitialised), then constrained by the invariant only */
  _Bool has_list = nondet_bool();
  if (has_list) {
    Index sz = nondet_Index();
    __CPROVER_assume(sz >= 0 && sz <= 1000000);
    A->min_x_size = sz;
    A->min_x_list = malloc(sz * sizeof(Index));
    __CPROVER_assume(A->min_x_list != NULL);
  } else A->min_x_list = NULL;
  __CPROVER_assume(AE_INV(A) && GV_PERM_OK(A) && A->gv_reg_epoch < 2000000000);
  gv_exc = 0;
}
void h_mtf_get(void)
{
  struct MTF m;
  __CPROVER_assume(MTF_INV(&m));
  Key k;
  struct gv_pair r = MTF_get(&m, k);
  GV_CANARY("h_mtf_get end");
}
void h_set_stage(void) { struct AdjEnvelope A; Stage s; __CPROVER_assume(s >= stage_init && s <= stage_q0); AE_set_stage(&A, s); GV_CANARY("h_set_stage end"); }
void h_q_xx(void) { struct AdjEnvelope A; mk_state(&A); Index i, j; __CPROVER_assume(1 <= i && i <= A.parameters && 1 <= j && j <= A.parameters); Float r = AE_q_xx(&A, i, j); GV_CANARY("h_q_xx end"); }
void h_q0_xx(void) { struct AdjEnvelope A; mk_state(&A); Index i, j; __CPROVER_assume(1 <= i && i <= A.parameters && 1 <= j && j <= A.parameters); Float r = AE_q0_xx(&A, i, j); GV_CANARY("h_q0_xx end"); }
void h_lindep(void) { struct AdjEnvelope A; mk_state(&A); Index i; __CPROVER_assume(1 <= i && i <= A.parameters); bool r = AE_lindep(&A, i); GV_CANARY("h_lindep end"); }
void h_defect(void) { struct AdjEnvelope A; mk_state(&A); Index r = AE_defect(&A); GV_CANARY("h_defect end"); }
void h_sum_of_squares(void) { struct AdjEnvelope A; mk_state(&A); Float r = AE_sum_of_squares(&A); GV_CANARY("h_sum_of_squares end"); }
void h_unknowns(void) { struct AdjEnvelope A; mk_state(&A); const struct Vec *r = AE_unknowns(&A); GV_CANARY("h_unknowns end"); }
void h_solve_q0(void) { struct AdjEnvelope A; mk_state(&A); AE_solve_q0(&A); GV_CANARY("h_solve_q0 end"); }
void h_min_x(void) { struct AdjEnvelope A; mk_state(&A); AE_min_x(&A); GV_CANARY("h_min_x end"); }
void h_min_x_list(void)
{
  struct AdjEnvelope A; mk_state(&A);
  Index n; __CPROVER_assume(n >= 0 && n <= 1000000);
  Index *m = malloc(n * sizeof(Index)); __CPROVER_assume(m != NULL);
  AE_min_x_list(&A, n, m);
  GV_CANARY("h_min_x_list end");
}
void h_reset(void) { struct AdjEnvelope A; mk_state(&A); const void *data; AE_reset(&A, data); GV_CANARY("h_reset end"); }

void h_q_bb(void)
{
  struct AdjEnvelope A; mk_state(&A);
  long nnz;
  __CPROVER_assume(nnz >= 0 && nnz <= 100000000);
  A.gv_dm_nnz = nnz;
  A.gv_dm_val = malloc(nnz * sizeof(Float));
  A.gv_dm_ind = malloc(nnz * sizeof(Index));
  __CPROVER_assume(A.gv_dm_val != NULL && A.gv_dm_ind != NULL && DM_ROW_OK(&A));
  Index i = A.gv_qi, j = A.gv_qj;
  Float r = AE_q_bb(&A, i, j);
  GV_CANARY("h_q_bb end");
}
//@ end
