/* Sidecar specification for the graph algorithms of lib/gnu_gama/sparse:
     SparseMatrixGraph<double,int>::connected()                 (smatrix_graph_connected.h)
     ReverseCuthillMcKee<int>::algorithm, PseudoPeripheralNode<int>::operator(), RootedLevelStructure<int>::root,
     SparseMatrixOrdering<int>::reset / inverse_permutaion      (smatrix_ordering.h)
     SparseMatrixGraph<double,int> constructor, Adjacency<int>  (smatrix_graph.h)
     IntegerList<int>                                           (intlist.h)
   These functions use std::stack / std::vector / std::sort / std::set: the checks are BOUNDED (all graphs up to a
   stated size, loops unwound with unwinding assertions) on the REAL extracted text; the std containers are lowered to
   the fixed-capacity stubs below (capacity overflow is an assertion).  Bodies are extracted from /repo on every run;
   constructor mem-initializer lists are copied by the pre-hook ctor_init.py into gv_ctor_init.h. */

//@ prelude
typedef int Index;
typedef double Float;
typedef const Index *const_iterator;
typedef Index *iterator;
#define Index(...) ((int)(__VA_ARGS__ + 0))      /* value construction Index(), Index(3), Index(e-m) */

#ifndef GV_NMAX
#define GV_NMAX 4                                /* bound on the number of graph nodes */
#endif
#ifndef GV_SIMPLE
#define GV_SIMPLE 1                              /* 1: graphs without self loops and repeated entries (what the constructor builds) */
#endif
#ifndef GV_EMAX
#define GV_EMAX 12                               /* bound on the number of directed adjacency entries */
#endif

struct IntegerList { Index *m; Index *e; };
struct Adjacency { struct IntegerList adjncy, xadj; Index nods; };        /* SparseMatrixGraph adds no data member */
struct RootedLevelStructure { struct Adjacency adst; struct IntegerList mask; };
struct PseudoPeripheralNode { Index starting_node; Index xlevel; };
struct SparseMatrixOrdering { struct IntegerList perm, invp; Index nods; }; /* ReverseCuthillMcKee adds no data member */
struct SparseMatrix { Index rows_, cols_; Float *nonz; Index *cind; Index *rptr; Index *rptr1; Index rcnt_, rnxt_, ncnt_; };

int gv_exc;

/* a canary only in the checks whose harness reaches the function */
#define GV_CANARY_IF(flag, tag) do { if (flag) GV_CANARY(tag); } while (0)

/* Precondition of an operation of the code under check: reported (assert) and then the path ends (assume), so that an
   out-of-range access is ONE failed obligation and not a cascade of garbage values (which would also trip the unwinding
   assertions and turn the verdict into "undecided").  Asserts first: cannot hide behaviour. */
#define GV_STOP_UNLESS(c, msg) do { __CPROVER_assert(c, msg); __CPROVER_assume(c); } while (0)
#ifndef GV_GUARD_DEREF
#define GV_GUARD_DEREF 1
#endif
#ifndef GV_GUARD_INDEX
#define GV_GUARD_INDEX 1
#endif
#if GV_GUARD_DEREF
#define GV_DEREF(p) GV_STOP_UNLESS(__CPROVER_r_ok((p), sizeof(*(p))), "iterator is dereferenced inside its list")
#else
#define GV_DEREF(p) ((void)0)
#endif
#if GV_GUARD_INDEX
#define GV_INDEX_OK(L, i, msg) GV_STOP_UNLESS(0 <= (i) && (i) < IntegerList_dim(L), msg)   /* IntegerList_dim: below */
#else
#define GV_INDEX_OK(L, i, msg) ((void)0)
#endif

/* ---- STUB std::stack<Index> (callee; assumed: LIFO of capacity GV_NMAX, which suffices because a node is pushed
        only when its tag changes 0 -> 1; pushing beyond the capacity / popping an empty stack is an assertion) ---- */
struct gv_stack { Index a[GV_NMAX + 1]; int n; };
static void  gv_stack_init(struct gv_stack *s) { s->n = 0; }
static void  gv_stack_push(struct gv_stack *s, Index v)
{ GV_STOP_UNLESS(s->n < GV_NMAX + 1, "std::stack stub: capacity (bound) not exceeded"); s->a[s->n] = v; s->n = s->n + 1; }
static Index gv_stack_top(const struct gv_stack *s)
{ GV_STOP_UNLESS(s->n > 0, "std::stack::top on a non-empty stack"); return s->a[s->n - 1]; }
static void  gv_stack_pop(struct gv_stack *s)
{ GV_STOP_UNLESS(s->n > 0, "std::stack::pop on a non-empty stack"); s->n = s->n - 1; }
static bool  gv_stack_empty(const struct gv_stack *s) { return s->n == 0; }

/* ---- STUB std::pair<Index,Index>, std::vector<Pair>, std::sort, std::swap (callees) ---- */
typedef struct gv_pair { Index first, second; } gv_pair;
typedef const gv_pair *gv_pair_citer;
static gv_pair gv_mk_pair(Index a, Index b) { gv_pair p; p.first = a; p.second = b; return p; }
static bool gv_pair_less(gv_pair a, gv_pair b)              /* std::pair operator< : lexicographic */
{ return a.first < b.first || (!(b.first < a.first) && a.second < b.second); }

#define GV_VCAP (GV_NMAX + 1)
struct gv_vector { gv_pair a[GV_VCAP]; int n; };
static void gv_vector_init(struct gv_vector *v) { v->n = 0; }
static void gv_vector_push_back(struct gv_vector *v, gv_pair p)
{ GV_STOP_UNLESS(v->n < GV_VCAP, "std::vector stub: capacity (bound) not exceeded"); v->a[v->n] = p; v->n = v->n + 1; }
static gv_pair *gv_vector_begin(struct gv_vector *v) { return v->a; }
static gv_pair *gv_vector_end(struct gv_vector *v) { return v->a + v->n; }
/* std::sort stub: insertion sort (assumed contract of std::sort: the range becomes a sorted permutation of itself) */
static void gv_sort(gv_pair *b, gv_pair *e)
{
  long n = e - b;
  for (long i = 1; i < n; i++)
    for (long j = i; j > 0 && gv_pair_less(b[j], b[j - 1]); j--) { gv_pair t = b[j]; b[j] = b[j - 1]; b[j - 1] = t; }
}
#define GV_SWAP(a, b) do { Index gv_t_ = (a); (a) = (b); (b) = gv_t_; } while (0)

/* ---- STUB std::set<std::pair<Index,Index>> (callee): sorted duplicate-free array of capacity GV_SCAP ---- */
#ifndef GV_SCAP
#define GV_SCAP 6
#endif
struct gv_set { gv_pair a[GV_SCAP + 1]; int n; };
static void gv_set_init(struct gv_set *s) { s->n = 0; }
static void gv_set_insert(struct gv_set *s, gv_pair p)
{
  int k = 0;
  while (k < s->n && gv_pair_less(s->a[k], p)) k++;
  if (k < s->n && !gv_pair_less(p, s->a[k])) return;       /* already present */
  GV_STOP_UNLESS(s->n < GV_SCAP + 1, "std::set stub: capacity (bound) not exceeded");
  for (int j = s->n; j > k; j--) s->a[j] = s->a[j - 1];
  s->a[k] = p;
  s->n = s->n + 1;
}
static Index gv_set_size(const struct gv_set *s) { return s->n; }
static const gv_pair *gv_set_begin(const struct gv_set *s) { return s->a; }
static const gv_pair *gv_set_end(const struct gv_set *s) { return s->a + s->n; }

/* IntegerList::dim() by its CONTRACT (proved on the real body: unit smatrix_ordering, check il_dim).  The real body's
   pointer difference e - m is not constant-folded by CBMC's symbolic execution (measured), the offsets are. */
static Index IntegerList_dim(const struct IntegerList *self)
{
  __CPROVER_assert(SAME(self->e, self->m), "IntegerList::dim contract: m and e point into one object (or both are null)");
  return (Index)((OFF(self->e) - OFF(self->m)) / (long)sizeof(Index));
}

/* iterator inequality inside one list: the same comparison on offsets (constant-folded by symbolic execution) */
static bool gv_ptr_ne(const void *p, const void *q)
{
  __CPROVER_assert(SAME(p, q), "iterators that are compared point into one list");
  return OFF(p) != OFF(q);
}

/* forward declarations (definitions are extracted in file order) */
void  IntegerList_ctor1(struct IntegerList *self, Index n);
Index SparseMatrix_columns(const struct SparseMatrix *self);
#include "gv_ctor_init.h"        /* GENERATED by ctor_init.py: the constructors' mem-initializer lists */
//@ end

/* entry canaries: every extracted function */
//@ entry IntegerList_ctor1
GV_CANARY("IntegerList_ctor1 entry");
//@ entry IntegerList_reset0
GV_CANARY("IntegerList_reset0 entry");
//@ entry IntegerList_reset1
GV_CANARY("IntegerList_reset1 entry");
//@ entry IntegerList_set_all
GV_CANARY("IntegerList_set_all entry");
//@ entry IntegerList_set_zero
GV_CANARY("IntegerList_set_zero entry");
//@ entry IntegerList_cbegin
GV_CANARY("IntegerList_cbegin entry");
//@ entry IntegerList_get
GV_CANARY("IntegerList_get entry");
GV_INDEX_OK(self, i, "IntegerList::operator()(i) const: 0 <= i < dim()");
//@ entry IntegerList_at
GV_CANARY("IntegerList_at entry");
GV_INDEX_OK(self, i, "IntegerList::operator()(i): 0 <= i < dim()");
//@ entry Adjacency_nodes
GV_CANARY("Adjacency_nodes entry");
//@ entry Adjacency_degree
GV_CANARY("Adjacency_degree entry");
//@ entry Adjacency_begin
GV_CANARY("Adjacency_begin entry");
//@ entry Adjacency_end
GV_CANARY("Adjacency_end entry");
//@ entry Adjacency_set_nodes
GV_CANARY("Adjacency_set_nodes entry");
//@ entry SparseMatrixGraph_connected
GV_CANARY("SparseMatrixGraph_connected entry");
//@ entry RootedLevelStructure_root
GV_CANARY("RootedLevelStructure_root entry");
//@ entry PseudoPeripheralNode_set_starting_node
GV_CANARY("PseudoPeripheralNode_set_starting_node entry");
//@ entry PseudoPeripheralNode_call
GV_CANARY("PseudoPeripheralNode_call entry");
//@ entry SparseMatrixOrdering_inverse_permutaion
GV_CANARY("SparseMatrixOrdering_inverse_permutaion entry");
//@ entry SparseMatrixOrdering_reset
GV_CANARY("SparseMatrixOrdering_reset entry");
//@ entry ReverseCuthillMcKee_algorithm
GV_CANARY("ReverseCuthillMcKee_algorithm entry");
//@ entry ReverseCuthillMcKee_ctor1
GV_CANARY("ReverseCuthillMcKee_ctor1 entry");
GV_INIT_SparseMatrixOrdering_ctor0(self);      /* base-class constructor SparseMatrixOrdering() (generated from the real text) */
//@ at SparseMatrixGraph_connected deref
GV_DEREF(b);
//@ at RootedLevelStructure_root deref
GV_DEREF(i);
//@ at PseudoPeripheralNode_call deref1
GV_DEREF(b);
//@ at PseudoPeripheralNode_call deref2
GV_DEREF(b);
//@ at ReverseCuthillMcKee_algorithm deref
GV_DEREF(b);
//@ entry SparseMatrix_rows
GV_CANARY("SparseMatrix_rows entry");
//@ entry SparseMatrix_columns
GV_CANARY("SparseMatrix_columns entry");
//@ entry SparseMatrix_ibegin
GV_CANARY("SparseMatrix_ibegin entry");
//@ entry SparseMatrix_iend
GV_CANARY("SparseMatrix_iend entry");
//@ entry SparseMatrixGraph_ctor
GV_CANARY("SparseMatrixGraph_ctor entry");
GV_INIT_SparseMatrixGraph_ctor(self, sparse);    /* the base-class initializer ": Adjacency<Index>(sparse->columns())" (generated from the real text) */
//@ end

//@ harness

/* ---------------------------------------------------------------------------------------------------------------
   Symbolic adjacency structure (what SparseMatrixGraph's constructor produces, as a stated precondition WF_GRAPH):
     nods = n in [0, GV_NMAX]; xadj holds max(n+2,3) slots, xadj(1) = 0, xadj non-decreasing on 1..n+1;
     adjncy holds exactly xadj(n+1) = nnz <= GV_EMAX slots (offsets are 0 based), every entry in [1,n];
     SYMMETRIC: y in adj(x) <=> x in adj(y).  With `simple`: no self loops and no duplicate entries in a row.
   A[x][y] (ghost) is the adjacency relation as a Boolean matrix. */
static bool gv_A[GV_NMAX + 1][GV_NMAX + 1];

static void mk_graph(struct Adjacency *g, Index n, Index nnz, bool simple)
{
  g->nods = n;
  Index xs = n + 2 > 3 ? n + 2 : 3;
  g->xadj.m = GV_NEW(Index, xs);
  __CPROVER_assume(g->xadj.m);
  g->xadj.e = g->xadj.m + xs;
  g->adjncy.m = GV_NEW(Index, nnz);
  __CPROVER_assume(g->adjncy.m);
  g->adjncy.e = g->adjncy.m + nnz;
  __CPROVER_assume(g->xadj.m[1] == 0);
  if (n == 0) __CPROVER_assume(g->xadj.m[2] == 0);          /* "needed by empty graphs" (the constructor's words) */
  /* loops of the harness run to the constant bound with a guard, so that they unwind exactly */
  for (Index i = 1; i <= GV_NMAX; i++) if (i <= n) __CPROVER_assume(g->xadj.m[i] <= g->xadj.m[i + 1]);
  __CPROVER_assume(g->xadj.m[n + 1] == nnz);
  for (Index x = 0; x <= GV_NMAX; x++)
    for (Index y = 0; y <= GV_NMAX; y++) gv_A[x][y] = 0;
  for (Index x = 1; x <= GV_NMAX; x++)
    for (Index k = 0; k < GV_EMAX; k++)
      if (x <= n && k < nnz && g->xadj.m[x] <= k && k < g->xadj.m[x + 1])
        {
          Index y = g->adjncy.m[k];
          __CPROVER_assume(1 <= y && y <= n);
          if (simple) __CPROVER_assume(y != x && !gv_A[x][y]);
          gv_A[x][y] = 1;
        }
  for (Index x = 1; x <= GV_NMAX; x++)
    for (Index y = 1; y < x; y++) if (x <= n) __CPROVER_assume(gv_A[x][y] == gv_A[y][x]);
}

/* SPEC: the graph is connected iff every pair of nodes is joined by a path (reflexive-transitive closure of A,
   Warshall).  For the empty graph and for a single node this is true. */
static bool spec_connected(Index n)
{
  bool R[GV_NMAX + 1][GV_NMAX + 1];
  for (Index x = 1; x <= GV_NMAX; x++)
    for (Index y = 1; y <= GV_NMAX; y++) R[x][y] = (x == y) || (x <= n && y <= n && gv_A[x][y]);
  for (Index k = 1; k <= GV_NMAX; k++)
    for (Index x = 1; x <= GV_NMAX; x++)
      for (Index y = 1; y <= GV_NMAX; y++) R[x][y] = R[x][y] || (R[x][k] && R[k][y]);
  bool all = 1;
  for (Index x = 1; x <= GV_NMAX; x++)
    for (Index y = 1; y <= GV_NMAX; y++) if (x <= n && y <= n) all = all && R[x][y];
  return all;
}

/* Measured: heap objects of SYMBOLIC size (xadj, adjncy, and the lists the code allocates with new Index[n+1]) cost
   16M SAT variables for n <= 3; with constant sizes 0.16M.  The harnesses therefore choose (n, nnz) symbolically and
   dispatch to a call with CONSTANT arguments (the loop counters of fully unwound loops): every (n, nnz) inside the
   bound is still covered in one run, each on its own path. */
static void run_connected(Index n, Index nnz)
{
  struct Adjacency g;
  mk_graph(&g, n, nnz, GV_SIMPLE);
  if (GV_SIMPLE && (nnz % 2 != 0 || nnz > n * (n - 1)))
    {
      /* proved, not assumed: must be unreachable */
      __CPROVER_assert(0, "no simple symmetric graph has an odd number of adjacency entries or more than n(n-1)");
      return;
    }
  bool want = spec_connected(n);
  bool got = SparseMatrixGraph_connected(&g);
  __CPROVER_assert(got == want, "connected() == every pair of nodes is joined by a path (Warshall closure of the adjacency)");
  __CPROVER_assert(!(n == 0) || got, "the empty graph is connected");
  __CPROVER_assert(!(n >= 2 && nnz == 0) || !got, "an edgeless graph with two or more nodes is not connected");
}

void h_connected(void)
{
  Index n_s, e_s;
  __CPROVER_assume(0 <= n_s && n_s <= GV_NMAX && 0 <= e_s && e_s <= GV_EMAX);
  for (Index n = 0; n <= GV_NMAX; n++)
    for (Index e = 0; e <= GV_EMAX; e++)
      if (n == n_s && e == e_s) run_connected(n, e);
  GV_CANARY("h_connected end");
}

/* ---- ReverseCuthillMcKee<int>(graph): perm is a permutation of 1..n with a consistent inverse ----
   Measured: with a SYMBOLIC adjacency structure symbolic execution of the five-deep loop nest (algorithm -> pseudo-
   peripheral node -> rooted level structure) does not finish in 15 min even for n <= 3.  The bounded check therefore
   ENUMERATES the graphs: the harness chooses (n, edge set, row order) symbolically and dispatches to a call with constant
   arguments, so that each of the 2*(1+1+2+8+64) structures is executed on its own path with constant data.
   Edge {x,y}, x<y, is bit (y-1)(y-2)/2 + (x-1) of `bits`; rows are written ascending (what the constructor produces:
   std::set order) or, with rev, descending. */
static bool gv_edge(Index x, Index y, unsigned bits)
{
  if (x == y) return 0;
  Index lo = x < y ? x : y, hi = x < y ? y : x;
  return (bits >> ((hi - 1) * (hi - 2) / 2 + (lo - 1))) & 1u;
}

static void mk_graph_bits(struct Adjacency *g, Index n, unsigned bits, bool rev)
{
  for (Index x = 0; x <= GV_NMAX; x++)
    for (Index y = 0; y <= GV_NMAX; y++) gv_A[x][y] = 0;
  Index nnz = 0;
  for (Index y = 2; y <= GV_NMAX; y++)
    for (Index x = 1; x < y; x++)
      if (y <= n && gv_edge(x, y, bits)) { gv_A[x][y] = 1; gv_A[y][x] = 1; nnz += 2; }
  g->nods = n;
  Index xs = n + 2 > 3 ? n + 2 : 3;
  g->xadj.m = GV_NEW(Index, xs);
  __CPROVER_assume(g->xadj.m);
  g->xadj.e = g->xadj.m + xs;
  g->adjncy.m = GV_NEW(Index, nnz);
  __CPROVER_assume(g->adjncy.m);
  g->adjncy.e = g->adjncy.m + nnz;
  Index cnt = 0;
  g->xadj.m[1] = 0;
  g->xadj.m[2] = 0;
  for (Index x = 1; x <= GV_NMAX; x++)
    if (x <= n)
      {
        g->xadj.m[x] = cnt;
        for (Index k = 1; k <= GV_NMAX; k++)
          {
            Index y = rev ? GV_NMAX + 1 - k : k;
            if (y <= n && gv_edge(x, y, bits)) { g->adjncy.m[cnt] = y; cnt++; }
          }
        g->xadj.m[x + 1] = cnt;
      }
}

static void run_rcm(Index n, unsigned bits, bool rev)
{
  struct Adjacency g;
  mk_graph_bits(&g, n, bits, rev);
  struct SparseMatrixOrdering o;
  ReverseCuthillMcKee_ctor1(&o, &g);            /* = reset(graph) = algorithm(graph); inverse_permutaion() */
  __CPROVER_assert(o.nods == n, "ordering.nodes() == graph.nodes()");
  __CPROVER_assert(o.perm.e - o.perm.m == n + 1 && o.invp.e - o.invp.m == n + 1, "perm and invp hold n+1 slots (1 based)");
  bool seen[GV_NMAX + 1];
  for (Index i = 0; i <= GV_NMAX; i++) seen[i] = 0;
  for (Index i = 1; i <= GV_NMAX; i++)
    if (i <= n)
      {
        Index p = o.perm.m[i];
        __CPROVER_assert(1 <= p && p <= n, "perm(i) is a node of the graph");
        if (1 <= p && p <= n)
          {
            __CPROVER_assert(!seen[p], "every node is numbered exactly once (perm is injective)");
            seen[p] = 1;
            __CPROVER_assert(o.invp.m[p] == i, "invp(perm(i)) == i");
          }
      }
  for (Index i = 1; i <= GV_NMAX; i++)
    if (i <= n)
      {
        __CPROVER_assert(seen[i], "every node is numbered (perm is onto)");
        Index q = o.invp.m[i];
        __CPROVER_assert(1 <= q && q <= n, "invp(i) is a position");
        if (1 <= q && q <= n) __CPROVER_assert(o.perm.m[q] == i, "perm(invp(i)) == i");
      }
  if (n == 0)
    {
      /* RootedLevelStructure::root on the empty graph (its nodes == 0 branch is not reached through the ordering) */
      struct RootedLevelStructure rls;
      GV_INIT_RootedLevelStructure_ctor0(&rls);
      RootedLevelStructure_root(&rls, 1, &g);
      __CPROVER_assert(rls.adst.xadj.e - rls.adst.xadj.m == 3 && rls.adst.xadj.m[1] == 0 && rls.adst.xadj.m[2] == 0 &&
                       rls.adst.adjncy.m == rls.adst.adjncy.e, "level structure of the empty graph: no levels, xadj(1) = xadj(2) = 0");
    }
}

/* The enumeration is cut into slices (one check each) by -D: nodes GV_NLO..GV_NHI, edge sets GV_BLO..GV_BHI (clipped to
   the 2^(n(n-1)/2) sets that exist), row order GV_REV (0 ascending, 1 descending, 2 both): symbolic execution slows down
   more than linearly with the number of structures executed in one run (measured). */
#ifndef GV_NLO
#define GV_NLO 0
#endif
#ifndef GV_NHI
#define GV_NHI GV_NMAX
#endif
#ifndef GV_BLO
#define GV_BLO 0u
#endif
#ifndef GV_BHI
#define GV_BHI 63u
#endif
#ifndef GV_REV
#define GV_REV 2
#endif
void h_rcm(void)
{
  Index n_s;
  unsigned b_s;
  bool r_s;
  __CPROVER_assume(GV_NLO <= n_s && n_s <= GV_NHI);
  for (Index n = GV_NLO; n <= GV_NHI; n++)
    for (unsigned bits = GV_BLO; bits <= GV_BHI && bits < (1u << (n * (n - 1) / 2)); bits++)
      if (n == n_s && bits == b_s)
        {
          if (GV_REV == 2 ? r_s : GV_REV) run_rcm(n, bits, 1); else run_rcm(n, bits, 0);
        }
  GV_CANARY("h_rcm end");
}

/* ---- SparseMatrixGraph(sparse): the adjacency structure of the column graph ----
   SPEC: columns x != y are adjacent iff some row stores both.  The structure must have nodes() == columns, xadj(1) = 0,
   xadj non-decreasing, xadj(nodes+1) == adjncy.dim(), and row x of it must list EXACTLY the neighbours of x (here:
   strictly ascending, hence each once), which also makes it symmetric.
   Matrices are enumerated (constant data per path) because adjncy is allocated with the computed size edges.size().
   Row k stores column j iff bit (k-1)*cols + (j-1) of pat is set; with dup every stored entry is written twice.
   Slices by -D: rows GV_RLO..GV_RHI, columns GV_CLO..GV_CHI, patterns GV_PLO..GV_PHI (clipped to those that exist). */
#ifndef GV_RLO
#define GV_RLO 0
#define GV_RHI 2
#define GV_CLO 0
#define GV_CHI 3
#endif
#ifndef GV_PLO
#define GV_PLO 0u
#endif
#ifndef GV_PHI
#define GV_PHI 511u
#endif
#define GV_CMAX 3
#define GV_RMAX 3
static void run_ctor(Index r, Index c, unsigned pat, bool dup)
{
  struct SparseMatrix sm;
  bool share[GV_CMAX + 1][GV_CMAX + 1];
  for (Index x = 0; x <= GV_CMAX; x++)
    for (Index y = 0; y <= GV_CMAX; y++) share[x][y] = 0;
  Index nnz = 0;
  for (Index k = 1; k <= GV_RMAX; k++)
    for (Index j = 1; j <= GV_CMAX; j++)
      if (k <= r && j <= c && ((pat >> ((k - 1) * c + (j - 1))) & 1u))
        {
          nnz += dup ? 2 : 1;
          for (Index j2 = 1; j2 <= GV_CMAX; j2++)
            if (j2 <= c && j2 != j && ((pat >> ((k - 1) * c + (j2 - 1))) & 1u)) share[j][j2] = 1;
        }
  sm.rows_ = r; sm.cols_ = c; sm.rcnt_ = r; sm.rnxt_ = r + 1; sm.ncnt_ = nnz;
  sm.nonz = 0;                                   /* the values are not read by the constructor */
  sm.rptr = GV_NEW(Index, r + 2);
  sm.rptr1 = sm.rptr + 1;
  sm.cind = GV_NEW(Index, nnz);
  Index cnt = 0;
  sm.rptr[1] = 0;
  for (Index k = 1; k <= GV_RMAX; k++)
    if (k <= r)
      {
        sm.rptr[k] = cnt;
        for (Index j = 1; j <= GV_CMAX; j++)
          if (j <= c && ((pat >> ((k - 1) * c + (j - 1))) & 1u))
            {
              sm.cind[cnt] = j; cnt++;
              if (dup) { sm.cind[cnt] = j; cnt++; }
            }
        sm.rptr[k + 1] = cnt;
      }

  struct Adjacency g;
  SparseMatrixGraph_ctor(&g, &sm);

  __CPROVER_assert(g.nods == c, "graph.nodes() == sparse.columns()");
  __CPROVER_assert(SAME(g.xadj.m, g.xadj.e) && g.xadj.e - g.xadj.m >= c + 2 && g.xadj.e - g.xadj.m >= 3, "xadj holds max(nodes+2, 3) slots");
  __CPROVER_assert(g.xadj.m[1] == 0, "xadj(1) == 0");
  if (c == 0) __CPROVER_assert(g.xadj.m[2] == 0, "empty graph: xadj(2) == 0");
  Index gn = (Index)(g.adjncy.e - g.adjncy.m);
  __CPROVER_assert(g.xadj.m[c + 1] == gn, "xadj(nodes+1) == adjncy.dim()");
  for (Index x = 1; x <= GV_CMAX; x++)
    if (x <= c)
      {
        Index lo = g.xadj.m[x], hi = g.xadj.m[x + 1];
        Index want = 0;
        for (Index y = 1; y <= GV_CMAX; y++) if (share[x][y]) want++;
        __CPROVER_assert(0 <= lo && lo <= hi && hi <= gn, "xadj is non-decreasing and inside adjncy");
        __CPROVER_assert(hi - lo == want, "degree(x) == number of columns that share a row with x");
        for (Index k = 0; k < 2 * GV_CMAX; k++)
          if (0 <= lo && lo <= k && k < hi && hi <= gn)
            {
              Index y = g.adjncy.m[k];
              __CPROVER_assert(1 <= y && y <= c && y != x, "a neighbour is another column");
              if (1 <= y && y <= c)
                {
                  __CPROVER_assert(share[x][y], "listed neighbours share a row with x");
                  __CPROVER_assert(share[y][x], "adjacency is symmetric");
                }
              if (k > lo) __CPROVER_assert(g.adjncy.m[k - 1] < y, "a row of the adjacency is strictly ascending (no repeated entry)");
            }
      }
}

void h_ctor(void)
{
  Index r_s, c_s;
  unsigned p_s;
  bool d_s;
  __CPROVER_assume(GV_RLO <= r_s && r_s <= GV_RHI && GV_CLO <= c_s && c_s <= GV_CHI);
  for (Index r = GV_RLO; r <= GV_RHI; r++)
    for (Index c = GV_CLO; c <= GV_CHI; c++)
      for (unsigned pat = GV_PLO; pat <= GV_PHI && pat < (1u << (r * c)); pat++)
        if (r == r_s && c == c_s && pat == p_s)
          {
            if (d_s) run_ctor(r, c, pat, 1); else run_ctor(r, c, pat, 0);
          }
  GV_CANARY("h_ctor end");
}
//@ end
