/* Specification vocabulary of unit utf8 (plain C/C++; shared by spec.c and replay.cpp).
   Written from RFC 3629 section 3:
      0xxxxxxx                              1 byte
      110xxxxx 10xxxxxx                     2 bytes
      1110xxxx 10xxxxxx 10xxxxxx            3 bytes
      11110xxx 10xxxxxx 10xxxxxx 10xxxxxx   4 bytes                                                  */
#ifndef GV_UTF8_SPEC_H
#define GV_UTF8_SPEC_H

/* length of the sequence introduced by lead byte c (an unsigned value 0..255); 0 = not a lead byte */
#define SP_SEQLEN(c) ((c) <= 0x7F ? 1 : ((c) >= 0xC0 && (c) <= 0xDF) ? 2 : ((c) >= 0xE0 && (c) <= 0xEF) ? 3 : ((c) >= 0xF0 && (c) <= 0xF7) ? 4 : 0)
/* value of static_cast<unsigned char>(x) for a (signed) char x, written without a narrowing conversion */
#define GV_UCHAR(x) ((unsigned char)((x) & 0xFF))
#define SP_IS_CONT(c) ((c) >= 0x80 && (c) <= 0xBF)

#ifndef GV_H_STEP
/* structural well-formedness: the string is a concatenation of complete sequences */
static int sp_wellformed(const char *s, long n)
{
  long p = 0;
  while (p < n) {
    int l = SP_SEQLEN(GV_UCHAR(s[p]));
    if (l == 0 || p + l > n) return 0;
    for (int k = 1; k < l; k++)
      if (!SP_IS_CONT(GV_UCHAR(s[p + k]))) return 0;
    p += l;
  }
  return 1;
}

/* number of code points of a well-formed string = number of bytes that are not continuation bytes */
static long sp_codepoints(const char *s, long n)
{
  long cnt = 0;
  for (long k = 0; k < n; k++)
    if (!SP_IS_CONT(GV_UCHAR(s[k]))) cnt++;
  return cnt;
}
#endif
#endif
