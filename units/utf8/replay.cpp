// Native replay for unit "utf8": runs the REAL GNU_gama::Utf8::length (lib/gnu_gama/utf8.cpp, linked in) on the
// verifier's counterexample string and re-evaluates the oracle.  exit 1 = reproduces, 0 = does not.
#include <cstdio>
#include <string>
#include <gnu_gama/utf8.h>
#include "gv_replay.h"
#include "utf8_spec.h"

int main(int argc, char** argv)
{
  if (argc < 3) return 2;
  GvInputs in(argv[1]);
  if (!in.has("w_n")) { std::printf("no witness string in the trace\n"); return 2; }
  long n = in.integer("w_n", 0);
  std::string s, shown;
  for (long k = 0; k < n; k++) {
    char key[32], b[8];
    std::snprintf(key, sizeof key, "w_s[%ldl]", k);
    s += (char)in.integer(key, 'a');
    std::snprintf(b, sizeof b, "\\x%02X", (unsigned char)s.back());
    shown += b;
  }
  std::size_t r = GNU_gama::Utf8::length(s);
  int wf = sp_wellformed(s.data(), (long)s.size());
  long cp = sp_codepoints(s.data(), (long)s.size());
  std::printf("Utf8::length(\"%s\") = %lu; structurally well-formed: %d; non-continuation bytes: %ld\n", shown.c_str(),
              (unsigned long)r, wf, cp);
  int bad = (wf && r != (std::size_t)cp) || r > s.size() || s.size() > 4 * r;
  // the in-function step obligation cannot be observed from outside; probe it through well-formed strings derived
  // from the witness: every lead byte c of the witness, completed by its continuation bytes and followed by "a",
  // is a well-formed string of exactly 2 code points
  for (unsigned char c : s) {
    int l = SP_SEQLEN(c);
    if (l == 0) continue;
    std::string t(1, (char)c);
    t.append((std::size_t)(l - 1), (char)0x80);
    t += 'a';
    std::size_t r2 = GNU_gama::Utf8::length(t);
    if (r2 != 2) {
      std::printf("lead byte \\x%02X: Utf8::length of the well-formed %d-byte sequence followed by 'a' = %lu, expected 2\n", c, l, (unsigned long)r2);
      bad = 1;
    }
  }
  std::printf("%s\n", bad ? "POSTCONDITION VIOLATED" : "ok");
  return bad ? 1 : 0;
}
