/* Sidecar contracts for lib/gnu_gama/utf8.cpp : Utf8::length(std::string)  (property C12-U2).
   The body is extracted from /repo on every run; std::string is lowered to struct gv_str by the rules in unit.json. */

//@ prelude
#include <limits.h>
struct gv_str {
  long  len;
  char *buf;
};
int gv_exc;
#include "utf8_spec.h"

static inline size_t gvs_length(const struct gv_str *s) { return (size_t)s->len; }
/* model of std::string::operator[] with the property's obligation attached */
static inline char gvs_at(const struct gv_str *s, size_t i)
{
  __CPROVER_assert(i < (size_t)s->len, "never reads at an index >= length()");
  return s->buf[i];
}
#define LEN ((long)s.len)
//@ end

/* Utf8::length for EVERY byte string (well-formed or not): reads only below length(), terminates because every
   step advances by 1..4 bytes, the step equals the RFC 3629 sequence length whenever the byte at the current
   position is a lead byte, and ceil(n/4) <= result <= n.                                                     */
//@ contract Utf8_length
__CPROVER_requires(0 <= s.len && s.len <= INT_MAX && __CPROVER_r_ok(s.buf, s.len))
__CPROVER_assigns()
__CPROVER_ensures(__CPROVER_return_value <= (size_t)s.len)
__CPROVER_ensures((size_t)s.len <= 4 * __CPROVER_return_value)
//@ entry Utf8_length
GV_CANARY("Utf8_length entry");
//@ loop Utf8_length 1
__CPROVER_assigns(i, N)
__CPROVER_loop_invariant(0 <= N && N <= LEN && i <= (size_t)LEN + 3 && (size_t)N <= i && i <= 4 * (size_t)N &&
                         (i >= (size_t)LEN || (size_t)N < (size_t)LEN))
__CPROVER_decreases(LEN + 3 - (long)i)
//@ head Utf8_length 1
const size_t gv_i0 = i;
//@ tail Utf8_length 1
__CPROVER_assert(i >= gv_i0 + 1 && i <= gv_i0 + 4, "every step advances by at least 1 and at most 4 bytes (termination)");
__CPROVER_assert(SP_SEQLEN(c) == 0 || i - gv_i0 == SP_SEQLEN(c), "the step over a lead byte is its RFC 3629 sequence length");
//@ end

//@ harness
#ifdef GV_H_STEP
void h_length(void)
{
  long n;
  __CPROVER_assume(0 <= n && n <= INT_MAX);
  struct gv_str s;
  s.len = n;
  s.buf = malloc(n);
  __CPROVER_assume(s.buf);
  size_t r = Utf8_length(s);
  GV_CANARY("h_length end");
}
#endif

#ifdef GV_H_CP
#ifndef GV_N
#define GV_N 8
#endif
int w_n;
int w_s[GV_N + 1];
/* bounded end-to-end check against the independent oracle */
void h_codepoints(void)
{
  long n;
  __CPROVER_assume(0 <= n && n <= GV_N);
  struct gv_str s;
  s.len = n;
  s.buf = malloc(n);       /* exactly n bytes: a read at an index >= length() is also a pointer-check failure */
  __CPROVER_assume(s.buf);
  w_n = (int)n;
  for (long k = 0; k < n; k++) w_s[k] = s.buf[k];
  size_t r = Utf8_length(s);
  int wf = sp_wellformed(s.buf, n);
  long cp = sp_codepoints(s.buf, n);
  __CPROVER_assert(!wf || r == (size_t)cp, "for well-formed UTF-8 the result is the number of code points");
  __CPROVER_assert(r <= (size_t)n && (size_t)n <= 4 * r, "ceil(n/4) <= result <= n for every byte string");
  if (wf) GV_CANARY("h_codepoints well-formed path");
  if (!wf) GV_CANARY("h_codepoints malformed path");
  GV_CANARY("h_codepoints end");
}
#endif
//@ end
