// Native replay for unit "cluster_activecov" (C10): the real template Cluster<Observation> of lib/gnu_gama/obsdata.h,
// instantiated with a minimal observation type (flag + dimension 1..3), header-only: g++ -std=c++14 -I/repo/lib.
//   argv[1] = flat name=value view of the verifier's counterexample, argv[2] = check name
//   exit 1 = the violation reproduces on the real code, 0 = it does not, 2 = no replay for this check.
// Heap blocks allocated by new[] carry guard words (operator new[] / delete[] replaced below), so an overrun of
// `ind = new int[act_dim+1]` is detected without a sanitizer.
#include <cstdio>
#include <cstdlib>
#include <cstring>
#include <new>
#include <vector>
#include <matvec/covmat.h>
#include <gnu_gama/obsdata.h>
#include "gv_replay.h"

static const unsigned long long GUARD = 0xC10C10C10C10C10CULL;
static const int NGUARD = 64;              // guard words behind every new[] block
static int g_overruns = 0;
static size_t g_overrun_size = 0;

void* operator new[](std::size_t n)
{
  char* raw = static_cast<char*>(std::malloc(16 + n + 8 + NGUARD * sizeof(GUARD)));
  if (!raw) throw std::bad_alloc();
  std::memcpy(raw, &n, sizeof(n));
  for (int g = 0; g < NGUARD; g++) std::memcpy(raw + 16 + n + g * sizeof(GUARD), &GUARD, sizeof(GUARD));
  return raw + 16;
}
void operator delete[](void* p) noexcept
{
  if (!p) return;
  char* raw = static_cast<char*>(p) - 16;
  std::size_t n;
  std::memcpy(&n, raw, sizeof(n));
  for (int g = 0; g < NGUARD; g++) {
    unsigned long long w;
    std::memcpy(&w, raw + 16 + n + g * sizeof(GUARD), sizeof(w));
    if (w != GUARD) { g_overruns++; g_overrun_size = n; break; }
  }
  std::free(raw);
}
void operator delete[](void* p, std::size_t) noexcept { operator delete[](p); }

struct Obs;
typedef GNU_gama::Cluster<Obs> ClusterBase;
struct Obs {
  typedef GNU_gama::CovMat<> CovarianceMatrix;
  ClusterBase* cluster = nullptr;
  int cluster_index = 0;
  bool act = true;
  int dim = 1;
  bool active() const { return act; }
  int dimension() const { return dim; }
};
struct MyCluster : ClusterBase {
  MyCluster() : ClusterBase(nullptr) {}
  ClusterBase* clone(const GNU_gama::ObservationData<Obs>*) const override { return nullptr; }
};

// REGRESSION for the defect repaired in /repo e3f0492 (activeCov() used the cached act_dim for `new int[act_dim+1]`):
// update(); flip the flag of observation t (public set_active()/set_passive()) WITHOUT update(); activeCov().
// Expected on the repaired tree: no heap overrun, result dimension == live sum of active dimensions, and the diagonal
// of the result == the diagonal entries of the full matrix at the positions of the currently active components.
static int api_sequence(const std::vector<int>& dims, const std::vector<bool>& flags, int t, bool verbose)
{
  MyCluster c;
  int total = 0;
  for (size_t u = 0; u < dims.size(); u++) {
    Obs* o = new Obs;
    o->dim = dims[u];
    o->act = flags[u];
    c.observation_list.push_back(o);
    total += dims[u];
  }
  c.covariance_matrix.reset(total, 0);
  for (int r = 1; r <= total; r++) c.covariance_matrix(r, r) = r;
  c.update();
  int u = 0, now = 0, pos = 1;
  std::vector<int> expect;                     // positions of the active components after the flip
  for (Obs* o : c.observation_list) {
    if (u++ == t) o->act = !o->act;
    for (int d = 0; d < o->dim; d++, pos++) if (o->act) { expect.push_back(pos); }
    if (o->act) now += o->dim;
  }
  const int cached = c.activeDim();
  int before = g_overruns;
  GNU_gama::CovMat<> C = c.activeCov();
  const GNU_gama::CovMat<>& CC = C;
  bool overrun = g_overruns != before;
  bool bad = overrun || C.dim() != now;
  for (int k = 1; !bad && k <= now; k++) if (CC(k, k) != expect[k - 1]) bad = true;
  if (verbose || bad)
    std::printf("n=%zu, flip observation %d after update(): cached activeDim() = %d, live sum of active dimensions = %d, activeCov().dim() = %d%s: %s\n",
                dims.size(), t, cached, now, (int)C.dim(), overrun ? ", guard word behind new int[] overwritten (HEAP OVERRUN)" : "",
                bad ? "NOT the sub-matrix of the current active set" : "ok");
  return bad ? 1 : 0;
}

int main(int argc, char** argv)
{
  if (argc < 3) return 2;
  GvInputs in(argv[1]);
  std::string check = argv[2];
  if (check.compare(0, 9, "activeCov") == 0 || check == "api_stale") {
    long n = in.integer("w_n", 3), t = in.integer("w_t", 0);
    if (n < 1) n = 1;
    if (n > 6) n = 6;
    if (t < 0 || t >= n) t = 0;
    int rc = 0;
    {
      std::vector<int> dims(n, 1);
      std::vector<bool> flags(n, false);
      rc |= api_sequence(dims, flags, (int)t, true);
    }
    int swept = 0, hits = 0;
    for (int len = 1; len <= 3; len++)
      for (int d = 1; d <= 3; d += 2)
        for (int f = 0; f < 2; f++)
          for (int k = 0; k < len; k++) {
            std::vector<int> dims(len, d);
            std::vector<bool> flags(len, f != 0);
            swept++;
            if (api_sequence(dims, flags, k, false)) { hits++; rc = 1; }
          }
    std::printf("sweep update(); flip; activeCov() (1..3 observations, dimension 1 or 3, all active / all passive, each flipped): %d of %d sequences wrong, %d heap overruns\n",
                hits, swept, g_overruns);
    std::printf(rc ? "activeCov() does not return the sub-matrix of the current active set: POSTCONDITION VIOLATED\n"
                   : "activeCov() after flag changes without update(): ok\n");
    return rc;
  }
  std::printf("no native replay for check %s\n", check.c_str());
  return 2;
}
